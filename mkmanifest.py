#!/usr/bin/env python3
"""Regenerates MANIFEST.json from the table below (keeps it valid at all times)."""
import json, subprocess
ALL = ["C%02d" % i for i in range(1, 21)]
CHECKS = json.load(open('/verif/checks.json'))
hook_commits = [l.split()[0] for l in subprocess.run(
    ["git", "-C", "/repo", "log", "--format=%H %s", "--grep=^verif-hook:"], capture_output=True, text=True).stdout.splitlines()]
m = {
 "version": 1,
 "setup_cmd": "cd /verif && ./setup.sh",
 "hooks": {
  "guard": "verif",
  "enable": "go build -tags verif (every hook is a new file with //go:build verif; ./check builds the worker from /repo's working tree with that tag)",
  "baseline_off_cmd": "cd /repo && GOFLAGS=-mod=mod GOPROXY=off GOSUMDB=off GOTOOLCHAIN=local go test -json -vet=off -count=1 -timeout 25m ./...",
  "source_commits": hook_commits,
  "add_only": True,
 },
 "engines": [{
  "name": "lalverif worker", "path": "/verif/harness",
  "serves_properties": sorted(CHECKS.keys()),
  "kind_free_text": "Go harness linked against /repo: drives real lal code (library entry points or the whole server in-process) with generated/hostile workloads in child processes; monitors = independent reference codecs (harness/ref), process-liveness observer, notification/stat recorders, Go race detector (C20), porcupine (C03)"}],
 "checks": [],
 "notes": "Technique family: runtime monitoring. ./check <id> quick|thorough rebuilds the worker from /repo's working tree on every run. known findings: /verif/known_findings.jsonl. See DESIGN.md.",
 "not_applicable": [],
}
for pid in ALL:
    c = CHECKS.get(pid)
    if not c:
        m["not_applicable"].append({"property_id": pid, "reason": "check not built yet in this session (runtime monitoring applies; see DESIGN.md section 2)"})
        continue
    m["checks"].append({
        "property_id": pid,
        "quick_cmd": "./check %s quick" % pid,
        "thorough_cmd": "./check %s thorough" % pid,
        "evidence_file": "/verif/evidence/%s.json" % pid,
        "replay_cmd_template": "./check %s --replay {path}" % pid,
        "engine": "lalverif worker",
        "level_claimed": {"category": "exploration", "text": c["text"], "design_ref": c.get("design_ref", "DESIGN.md §2 " + pid)},
        "level_note": c["note"],
        "technique": c["technique"],
    })
json.dump(m, open('/verif/MANIFEST.json', 'w'), indent=1)
print("checks:", len(m["checks"]), "not_applicable:", len(m["not_applicable"]))
