#!/bin/bash
# Offline setup: make sure the harness module resolves (go.sum from /repo + module cache) and
# run the reference codecs' self-tests. The worker itself is rebuilt by ./check on every run.
set -e
cd /verif/harness
export GOFLAGS=-mod=mod GOPROXY=off GOSUMDB=off GOTOOLCHAIN=local
go vet ./ref/ >/dev/null 2>&1 || true
go test -count=1 -timeout 300s ./ref/ ./fw/
go test -tags verif -count=1 -timeout 300s -run TestTcpPeerSendQueue ./props/
go build -tags verif -o /dev/null ./cmd/worker
echo setup-ok
