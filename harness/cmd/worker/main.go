// worker is both the driver ("drive") and the per-batch child ("child") of every check.
// It is rebuilt from /repo's working tree by /verif/check on every run.
package main

import (
	"flag"
	"fmt"
	"os"
	"strconv"

	"lalverif/fw"
	_ "lalverif/props"
)

func main() {
	if len(os.Args) < 2 {
		fmt.Fprintln(os.Stderr, "usage: worker drive <Cxx> <quick|thorough> | worker child …")
		os.Exit(2)
	}
	switch os.Args[1] {
	case "child":
		fs := flag.NewFlagSet("child", flag.ExitOnError)
		prop := fs.String("prop", "", "")
		tier := fs.String("tier", "quick", "")
		seed := fs.Int64("seed", 1, "")
		first := fs.Int("first", 0, "")
		stride := fs.Int("stride", 1, "")
		n := fs.Int("n", 0, "")
		only := fs.Int("only", -1, "")
		out := fs.String("out", "", "")
		scratch := fs.String("scratch", "", "")
		sub := fs.Int("sub", 0, "")
		fs.Parse(os.Args[2:])
		p := fw.Get(*prop)
		if p == nil {
			fmt.Fprintln(os.Stderr, "unknown property", *prop)
			os.Exit(2)
		}
		os.Exit(fw.RunChild(p, *tier, *seed, *first, *stride, *n, *only, *out, *scratch, *sub))
	case "drive":
		fs := flag.NewFlagSet("drive", flag.ExitOnError)
		scratch := fs.String("scratch", "", "")
		replay := fs.String("replay", "", "")
		fs.Parse(os.Args[2:])
		rest := fs.Args()
		if len(rest) < 1 {
			fmt.Fprintln(os.Stderr, "drive: need property id")
			os.Exit(2)
		}
		o := fw.DriveOpts{Prop: rest[0], Tier: "quick", Seed: 1, Scratch: *scratch, Replay: *replay}
		if len(rest) > 1 {
			o.Tier = rest[1]
		}
		if t := os.Getenv("VERIF_TIER"); t == "quick" || t == "thorough" {
			if len(rest) < 2 {
				o.Tier = t
			}
		}
		if s := os.Getenv("VERIF_SEED"); s != "" {
			if v, err := strconv.ParseInt(s, 10, 64); err == nil {
				o.Seed = v
			}
		}
		if s := os.Getenv("VERIF_PAR"); s != "" {
			o.Par, _ = strconv.Atoi(s)
		}
		if r := os.Getenv("VERIF_ROOT"); r != "" {
			fw.VerifRoot = r
		}
		o.Exe, _ = os.Executable()
		os.Exit(fw.Drive(o))
	case "list":
		for _, id := range fw.IDs() {
			fmt.Println(id)
		}
	default:
		fmt.Fprintln(os.Stderr, "unknown mode", os.Args[1])
		os.Exit(2)
	}
}
