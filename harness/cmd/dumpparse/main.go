// dumpparse: debugging aid - parses a raw RTMP connection dump (VERIF_CONN_DUMP) with the
// reference chunk reader and prints the messages and the harness tags they carry.
package main

import (
	"bytes"
	"fmt"
	"os"

	"lalverif/gen"
	"lalverif/ref"
)

func main() {
	b, err := os.ReadFile(os.Args[1])
	if err != nil {
		panic(err)
	}
	// several connections may have been appended to one file (local port reuse): take the last one
	// (each starts with the 0x03 version byte of S0; heuristic: last occurrence of a plausible S0S1S2 start is hard to
	// find, so parse from the start and restart after errors)
	off := 0
	if len(os.Args) > 2 {
		fmt.Sscanf(os.Args[2], "%d", &off)
	}
	b = b[off:]
	if len(b) < 1+1536+1536 {
		fmt.Println("short dump", len(b))
		return
	}
	r := bytes.NewReader(b[1+1536+1536:])
	cr := ref.NewChunkReader()
	n := 0
	for {
		m, err := cr.ReadMsg(r)
		if err != nil {
			fmt.Println("end:", err, "remaining", r.Len())
			return
		}
		tags := gen.FindTags(m.Payload)
		fmt.Printf("#%d csid=%d type=%d ts=%d len=%d tags=%v\n", n, m.Csid, m.TypeID, m.Ts, len(m.Payload), tags)
		n++
	}
}
