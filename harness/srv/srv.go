// Package srv starts the real lal server in-process (logic.NewLalServer with a raw JSON
// config and a recording INotifyHandler) and offers protocol clients built on harness/ref.
package srv

import (
	"encoding/json"
	"fmt"
	"net"
	"os"
	"path/filepath"
	"strings"
	"sync"
	"syscall"
	"time"

	"crypto/ecdsa"
	"crypto/elliptic"
	crand "crypto/rand"
	"crypto/x509"
	"crypto/x509/pkix"
	"encoding/pem"
	"github.com/q191201771/lal/pkg/base"
	"github.com/q191201771/lal/pkg/logic"
	"math/big"
)

type SimpleAuth struct {
	Key             string `json:"key"`
	DangerousSecret string `json:"dangerous_lal_secret"`
	PubRtmp         bool   `json:"pub_rtmp_enable"`
	SubRtmp         bool   `json:"sub_rtmp_enable"`
	SubHttpflv      bool   `json:"sub_httpflv_enable"`
	SubHttpts       bool   `json:"sub_httpts_enable"`
	PubRtsp         bool   `json:"pub_rtsp_enable"`
	SubRtsp         bool   `json:"sub_rtsp_enable"`
	HlsM3u8         bool   `json:"hls_m3u8_enable"`
}

type Conf struct {
	HttpDualStack                   bool // the HTTP listener is configured as ":port" (IPv4 and IPv6) instead of 127.0.0.1:port
	RtmpGop, RtmpGopCap, MergeWrite int
	Flv                             bool
	FlvGop, FlvGopCap               int
	Ts                              bool
	TsGop, TsGopCap                 int
	Hls                             bool
	HlsMem                          bool
	HlsFragMs, HlsFragNum           int
	HlsDelThr, HlsCleanup           int
	HlsHashKey                      string
	HlsSubTimeoutMs                 int
	Rtsp                            bool
	RtspWaitKey                     bool
	WsRtsp                          bool
	RtspAuthEnable                  bool
	RtspAuthMethod                  int
	RtspUser, RtspPass              string
	RecFlv, RecTs                   bool
	PushAddrs                       []string
	RtmpsOnly                       bool // rtmp.enable=false, rtmps_enable=true on the RTMP port (self-signed certificate; clients use ref.RtmpOverTLS)
	FlvHttpsOnly, TsHttpsOnly       bool // httpflv / httpts: enable=false, enable_https=true (served on HttpsAddr with a self-signed certificate)
	HlsHttpsOnly                    bool // hls.enable=false, hls.enable_https=true (segments are still produced on disk; the https listener has no certificate here)
	StaticPull                      string
	Api                             bool
	DummyAudio                      bool
	DummyAudioWaitMs                int
	Auth                            SimpleAuth
	LogLevel                        int // nazalog level; default warn(3)
	GroupLogSec                     int // debug.log_group_interval_sec (0 = off)
}

type Ports struct {
	Rtmp, Http, Rtsp, WsRtsp, Api, Https int
}

type Server struct {
	Wedged                bool // Stop() gave up waiting for Dispose
	Conf                  Conf
	Root                  string
	Ports                 Ports
	Lal                   logic.ILalServer
	Notify                *Recorder
	done                  chan error
	HlsDir, FlvDir, TsDir string
}

func (s *Server) RtmpAddr() string  { return fmt.Sprintf("127.0.0.1:%d", s.Ports.Rtmp) }
func (s *Server) HttpAddr() string  { return fmt.Sprintf("127.0.0.1:%d", s.Ports.Http) }
func (s *Server) RtspAddr() string  { return fmt.Sprintf("127.0.0.1:%d", s.Ports.Rtsp) }
func (s *Server) ApiAddr() string   { return fmt.Sprintf("127.0.0.1:%d", s.Ports.Api) }
func (s *Server) HttpsAddr() string { return fmt.Sprintf("127.0.0.1:%d", s.Ports.Https) }

// FreePort returns a TCP port that was free a moment ago.
func FreePort() int {
	l, err := net.Listen("tcp", "127.0.0.1:0")
	if err != nil {
		return 0
	}
	defer l.Close()
	return l.Addr().(*net.TCPAddr).Port
}

// FreePorts returns n distinct free TCP ports: the listeners are held open together, so the kernel
// cannot hand the same ephemeral port out twice (FreePort called five times in a row occasionally did,
// and then two of a server's listeners, and their PortProto entries, collided).
func FreePorts(n int) []int {
	var ls []net.Listener
	var out []int
	for len(out) < n {
		l, err := net.Listen("tcp", "127.0.0.1:0")
		if err != nil {
			out = append(out, 0)
			continue
		}
		ls = append(ls, l)
		out = append(out, l.Addr().(*net.TCPAddr).Port)
	}
	for _, l := range ls {
		l.Close()
	}
	return out
}

// DeadPort returns a TCP port on which nothing listens and, until release is called, nothing can: the
// socket is bound but never listens, so connections are refused and neither this process nor a sibling
// child can be handed the port for a listener of its own (a merely "free" port could be).
func DeadPort() (port int, release func()) {
	fd, err := syscall.Socket(syscall.AF_INET, syscall.SOCK_STREAM, 0)
	if err != nil {
		return FreePort(), func() {}
	}
	if err := syscall.Bind(fd, &syscall.SockaddrInet4{Addr: [4]byte{127, 0, 0, 1}}); err != nil {
		syscall.Close(fd)
		return FreePort(), func() {}
	}
	sa, err := syscall.Getsockname(fd)
	if err != nil {
		syscall.Close(fd)
		return FreePort(), func() {}
	}
	return sa.(*syscall.SockaddrInet4).Port, func() { syscall.Close(fd) }
}

func FreeUdpPort() int {
	c, err := net.ListenPacket("udp", "127.0.0.1:0")
	if err != nil {
		return 0
	}
	defer c.Close()
	return c.LocalAddr().(*net.UDPAddr).Port
}

var startMu sync.Mutex

// Start launches a server; it retries with fresh ports when a listen fails.
func Start(c Conf, root string) (*Server, error) {
	startMu.Lock()
	defer startMu.Unlock()
	var lastErr error
	for attempt := 0; attempt < 5; attempt++ {
		s, err := start1(c, root)
		if err == nil {
			return s, nil
		}
		lastErr = err
		time.Sleep(50 * time.Millisecond)
	}
	return nil, lastErr
}

func start1(c Conf, root string) (*Server, error) {
	s := &Server{Conf: c, Root: root, Notify: NewRecorder(), done: make(chan error, 1)}
	fp := FreePorts(6)
	s.Ports = Ports{Rtmp: fp[0], Http: fp[1], Rtsp: fp[2], WsRtsp: fp[3], Api: fp[4], Https: fp[5]}
	s.Notify.PortProto = map[string][]string{
		fmt.Sprint(s.Ports.Rtmp):   {"RTMP"},
		fmt.Sprint(s.Ports.Http):   {"FLV", "TS", "HLS"},
		fmt.Sprint(s.Ports.Https):  {"FLV", "TS", "HLS"},
		fmt.Sprint(s.Ports.Rtsp):   {"RTSP"},
		fmt.Sprint(s.Ports.WsRtsp): {"RTSP"},
	}
	// nested three levels deep so that path escapes are visible inside Root
	s.HlsDir = filepath.Join(root, "out", "a", "hls") + "/"
	s.FlvDir = filepath.Join(root, "out", "b", "flv") + "/"
	s.TsDir = filepath.Join(root, "out", "c", "ts") + "/"
	os.MkdirAll(filepath.Join(root, "logs"), 0755)
	if c.LogLevel == 0 {
		c.LogLevel = 3
	}
	if os.Getenv("VERIF_KEEP_LOG") != "" {
		c.LogLevel = 1
	}
	if c.HlsFragMs == 0 {
		c.HlsFragMs = 3000
	}
	if c.HlsFragNum == 0 {
		c.HlsFragNum = 6
	}
	if c.DummyAudioWaitMs == 0 {
		c.DummyAudioWaitMs = 150
	}
	if c.RtspUser == "" {
		c.RtspUser, c.RtspPass = "q191201771", "pengrl"
	}
	rtmpConf := map[string]interface{}{"enable": true, "addr": s.RtmpAddr(), "gop_num": c.RtmpGop, "single_gop_max_frame_num": c.RtmpGopCap, "merge_write_size": c.MergeWrite}
	if c.RtmpsOnly {
		certFile, keyFile, err := writeSelfSignedCert(filepath.Join(root, "logs"))
		if err != nil {
			return nil, err
		}
		rtmpConf["enable"], rtmpConf["addr"] = false, fmt.Sprintf("127.0.0.1:%d", s.Ports.Https)
		rtmpConf["rtmps_enable"], rtmpConf["rtmps_addr"], rtmpConf["rtmps_cert_file"], rtmpConf["rtmps_key_file"] = true, s.RtmpAddr(), certFile, keyFile
	}
	defHttp := map[string]interface{}{"http_listen_addr": s.HttpAddr()}
	if c.HttpDualStack {
		// lal's documented default form ":port": reachable over IPv4 and IPv6
		defHttp["http_listen_addr"] = fmt.Sprintf(":%d", s.Ports.Http)
	}
	if c.FlvHttpsOnly || c.TsHttpsOnly {
		certFile, keyFile, err := writeSelfSignedCert(filepath.Join(root, "logs"))
		if err != nil {
			return nil, err
		}
		defHttp["https_listen_addr"] = s.HttpsAddr()
		defHttp["https_cert_file"] = certFile
		defHttp["https_key_file"] = keyFile
	}
	m := map[string]interface{}{
		"conf_version": base.ConfVersion,
		"rtmp":         rtmpConf,
		"in_session":   map[string]interface{}{"add_dummy_audio_enable": c.DummyAudio, "add_dummy_audio_wait_audio_ms": c.DummyAudioWaitMs},
		"default_http": defHttp,
		"httpflv":      map[string]interface{}{"enable": c.Flv && !c.FlvHttpsOnly, "enable_https": c.Flv && c.FlvHttpsOnly, "url_pattern": "/live/", "gop_num": c.FlvGop, "single_gop_max_frame_num": c.FlvGopCap},
		"httpts":       map[string]interface{}{"enable": c.Ts && !c.TsHttpsOnly, "enable_https": c.Ts && c.TsHttpsOnly, "url_pattern": "/live/", "gop_num": c.TsGop, "single_gop_max_frame_num": c.TsGopCap},
		"hls": map[string]interface{}{"enable": c.Hls && !c.HlsHttpsOnly, "enable_https": c.Hls && c.HlsHttpsOnly, "url_pattern": "/hls/", "out_path": s.HlsDir, "fragment_duration_ms": c.HlsFragMs, "fragment_num": c.HlsFragNum,
			"delete_threshold": c.HlsDelThr, "cleanup_mode": c.HlsCleanup, "use_memory_as_disk_flag": c.HlsMem, "sub_session_timeout_ms": c.HlsSubTimeoutMs, "sub_session_hash_key": c.HlsHashKey},
		"rtsp": map[string]interface{}{"enable": c.Rtsp, "addr": s.RtspAddr(), "out_wait_key_frame_flag": c.RtspWaitKey, "auth_enable": c.RtspAuthEnable, "auth_method": c.RtspAuthMethod,
			"username": c.RtspUser, "password": c.RtspPass, "ws_rtsp_enable": c.WsRtsp, "ws_rtsp_addr": fmt.Sprintf("127.0.0.1:%d", s.Ports.WsRtsp)},
		"record":            map[string]interface{}{"enable_flv": c.RecFlv, "flv_out_path": s.FlvDir, "enable_mpegts": c.RecTs, "mpegts_out_path": s.TsDir},
		"relay_push":        map[string]interface{}{"enable": len(c.PushAddrs) > 0, "addr_list": c.PushAddrs},
		"static_relay_pull": map[string]interface{}{"enable": c.StaticPull != "", "addr": c.StaticPull},
		"http_api":          map[string]interface{}{"enable": c.Api, "addr": s.ApiAddr()},
		"server_id":         "verif",
		"http_notify":       map[string]interface{}{"enable": false, "update_interval_sec": 5},
		"simple_auth":       c.Auth,
		"pprof":             map[string]interface{}{"enable": false},
		"log": map[string]interface{}{"level": c.LogLevel, "filename": filepath.Join(root, "logs", "lal.log"), "is_to_stdout": false, "is_rotate_daily": false,
			"short_file_flag": true, "timestamp_flag": true, "timestamp_with_ms_flag": true, "level_flag": true, "assert_behavior": 1},
		"debug": map[string]interface{}{"log_group_interval_sec": c.GroupLogSec, "log_group_max_group_num": 10, "log_group_max_sub_num_per_group": 10},
	}
	if c.PushAddrs == nil {
		m["relay_push"].(map[string]interface{})["addr_list"] = []string{}
	}
	raw, _ := json.Marshal(m)
	s.Lal = logic.NewLalServer(func(o *logic.Option) {
		o.ConfRawContent = raw
		o.NotifyHandler = s.Notify
	})
	go func() { s.done <- s.Lal.RunLoop() }()
	// wait for the listeners
	need := []int{s.Ports.Rtmp}
	if (c.Flv && !c.FlvHttpsOnly) || (c.Ts && !c.TsHttpsOnly) || (c.Hls && !c.HlsHttpsOnly) {
		need = append(need, s.Ports.Http)
	}
	if (c.Flv && c.FlvHttpsOnly) || (c.Ts && c.TsHttpsOnly) {
		need = append(need, s.Ports.Https)
	}
	if c.Rtsp {
		need = append(need, s.Ports.Rtsp)
	}
	if c.Api {
		need = append(need, s.Ports.Api)
	}
	deadline := time.Now().Add(5 * time.Second)
	for _, p := range need {
		for {
			select {
			case err := <-s.done:
				return nil, fmt.Errorf("RunLoop returned early: %v", err)
			default:
			}
			cn, err := net.DialTimeout("tcp", fmt.Sprintf("127.0.0.1:%d", p), 200*time.Millisecond)
			if err == nil {
				cn.Close()
				break
			}
			if time.Now().After(deadline) {
				s.Lal.Dispose()
				return nil, fmt.Errorf("port %d did not come up: %v", p, err)
			}
			time.Sleep(10 * time.Millisecond)
		}
	}
	// a dial can also be answered by a sibling child's server that was handed the same port in the
	// instant between FreePorts and lal's own bind: then lal's bind failed and RunLoop is returning
	select {
	case err := <-s.done:
		return nil, fmt.Errorf("RunLoop returned early: %v", err)
	case <-time.After(15 * time.Millisecond):
	}
	return s, nil
}

// Stop disposes the server and waits for RunLoop to return.
func (s *Server) Stop() {
	// Dispose takes lal's locks: if the server is wedged it never returns. Give it 10 s, then
	// give up (Wedged is set; the caller decides what that means for its property).
	dd := make(chan struct{})
	go func() {
		s.Lal.Dispose()
		close(dd)
	}()
	select {
	case <-dd:
		select {
		case <-s.done:
		case <-time.After(5 * time.Second):
		}
	case <-time.After(10 * time.Second):
		s.Wedged = true
	}
	if p := os.Getenv("VERIF_KEEP_LOG"); p != "" {
		b, _ := os.ReadFile(filepath.Join(s.Root, "logs", "lal.log"))
		f, _ := os.OpenFile(p, os.O_CREATE|os.O_WRONLY|os.O_APPEND, 0644)
		if f != nil {
			f.Write(b)
			f.Close()
		}
	}
}

// ---------------------------------------------------------------------------------------

type Event struct {
	Seq        int
	Kind       string // pub_start pub_stop sub_start sub_stop pull_start pull_stop rtmp_connect hls_make_ts server_start update
	SessionId  string
	Protocol   string
	StreamName string
	RemoteAddr string
	UrlParam   string
	At         time.Time
	Extra      string
}

type Recorder struct {
	// OnHlsMakeTsHook, if set, runs inside the notification callback (an integrator's handler may call
	// the server's API from there: lal delivers notifications off its locks)
	OnHlsMakeTsHook func(base.HlsMakeTsInfo)
	PortProto       map[string][]string // server port → protocols lal reports for sessions accepted there
	mu              sync.Mutex
	cond            *sync.Cond
	Events          []Event
}

func NewRecorder() *Recorder {
	r := &Recorder{}
	r.cond = sync.NewCond(&r.mu)
	return r
}

func (r *Recorder) add(kind string, i base.SessionEventCommonInfo, extra string) {
	r.mu.Lock()
	r.Events = append(r.Events, Event{Seq: len(r.Events), Kind: kind, SessionId: i.SessionId, Protocol: i.Protocol, StreamName: i.StreamName,
		RemoteAddr: i.RemoteAddr, UrlParam: i.UrlParam, At: time.Now(), Extra: extra})
	r.cond.Broadcast()
	r.mu.Unlock()
}

func (r *Recorder) OnServerStart(info base.LalInfo) {}
func (r *Recorder) OnUpdate(info base.UpdateInfo)   {}
func (r *Recorder) OnPubStart(info base.PubStartInfo) {
	r.add("pub_start", info.SessionEventCommonInfo, "")
}
func (r *Recorder) OnPubStop(info base.PubStopInfo) {
	r.add("pub_stop", info.SessionEventCommonInfo, "")
}
func (r *Recorder) OnSubStart(info base.SubStartInfo) {
	r.add("sub_start", info.SessionEventCommonInfo, "")
}
func (r *Recorder) OnSubStop(info base.SubStopInfo) {
	r.add("sub_stop", info.SessionEventCommonInfo, "")
}
func (r *Recorder) OnRelayPullStart(info base.PullStartInfo) {
	r.add("pull_start", info.SessionEventCommonInfo, "")
}
func (r *Recorder) OnRelayPullStop(info base.PullStopInfo) {
	r.add("pull_stop", info.SessionEventCommonInfo, "")
}
func (r *Recorder) OnRtmpConnect(info base.RtmpConnectInfo) {
	r.add("rtmp_connect", base.SessionEventCommonInfo{SessionId: info.SessionId, RemoteAddr: info.RemoteAddr}, info.App)
}
func (r *Recorder) OnHlsMakeTs(info base.HlsMakeTsInfo) {
	r.add("hls_make_ts", base.SessionEventCommonInfo{StreamName: info.StreamName}, info.TsFile)
	if f := r.OnHlsMakeTsHook; f != nil {
		f(info)
	}
}

func (r *Recorder) Snapshot() []Event {
	r.mu.Lock()
	defer r.mu.Unlock()
	return append([]Event(nil), r.Events...)
}

// Wait blocks until an event satisfying pred exists (searching from index `from`).
func (r *Recorder) Wait(timeout time.Duration, from int, pred func(Event) bool) (Event, bool) {
	deadline := time.Now().Add(timeout)
	stop := make(chan struct{})
	defer close(stop)
	go func() {
		t := time.NewTicker(20 * time.Millisecond)
		defer t.Stop()
		for {
			select {
			case <-stop:
				return
			case <-t.C:
				r.mu.Lock()
				r.cond.Broadcast()
				r.mu.Unlock()
			}
		}
	}()
	r.mu.Lock()
	defer r.mu.Unlock()
	for {
		for i := from; i < len(r.Events); i++ {
			if pred(r.Events[i]) {
				return r.Events[i], true
			}
		}
		if time.Now().After(deadline) {
			return Event{}, false
		}
		r.cond.Wait()
	}
}

// WaitSession waits for an event of kind for the session whose remote address is addr.
func (r *Recorder) WaitSession(timeout time.Duration, kind, remoteAddr string) (Event, bool) {
	return r.Wait(timeout, 0, func(e Event) bool { return e.Kind == kind && r.Match(e, remoteAddr) })
}

// Key identifies a harness connection for matching lal's notifications: "<client addr>@<server port>".
// The client address alone is ambiguous: the kernel hands the same ephemeral port to two
// connections of one process when their destinations differ (e.g. one to the RTMP listener and
// one to the HTTP listener), and lal reports only the remote (client) address of a session. With
// hundreds of connections per case that happened about once per thousand sessions; under load
// the older session's notification was then taken for the newer connection's admission.
func Key(c net.Conn) string {
	_, port, _ := net.SplitHostPort(c.RemoteAddr().String())
	return c.LocalAddr().String() + "@" + port
}

// Match reports whether event e belongs to the connection named by key (a Key() value, or a bare
// client address for callers that have no connection at hand).
func (r *Recorder) Match(e Event, key string) bool {
	k := strings.IndexByte(key, '@')
	if k < 0 {
		return e.RemoteAddr == key
	}
	if e.RemoteAddr != key[:k] {
		return false
	}
	protos, known := r.PortProto[key[k+1:]]
	if !known || e.Protocol == "" {
		return true
	}
	for _, p := range protos {
		if p == e.Protocol {
			return true
		}
	}
	return false
}

// WaitSessionFrom is WaitSession restricted to events recorded at index ≥ from (local ports are
// reused across thousands of connections, so an old event may carry the same remote address).
func (r *Recorder) WaitSessionFrom(timeout time.Duration, from int, kind, remoteAddr string) (Event, bool) {
	return r.Wait(timeout, from, func(e Event) bool { return e.Kind == kind && r.Match(e, remoteAddr) })
}

func (r *Recorder) Len() int {
	r.mu.Lock()
	defer r.mu.Unlock()
	return len(r.Events)
}

func SameHostPort(a, b string) bool {
	return strings.TrimPrefix(a, "[::1]") == strings.TrimPrefix(b, "[::1]") || a == b
}

// ---------------------------------------------------------------------------------------
// HookRecorder implements the stream hook (WithOnHookSession): OnMsg runs inside lal's
// fan-out critical section for every non-empty message, so its counter is an exact
// "messages processed so far" clock for the harness.

type HookSession struct {
	UniqueKey  string
	StreamName string
	mu         sync.Mutex
	NMsg       int
	NStop      int
	Last       base.RtmpHeader
	Keep       bool
	Msgs       []base.RtmpMsg
}

func (h *HookSession) OnMsg(msg base.RtmpMsg) {
	h.mu.Lock()
	h.NMsg++
	h.Last = msg.Header
	if h.Keep {
		h.Msgs = append(h.Msgs, msg.Clone())
	}
	h.mu.Unlock()
}

func (h *HookSession) OnStop() {
	h.mu.Lock()
	h.NStop++
	h.mu.Unlock()
}

func (h *HookSession) Count() int {
	h.mu.Lock()
	defer h.mu.Unlock()
	return h.NMsg
}

func (h *HookSession) Stops() int {
	h.mu.Lock()
	defer h.mu.Unlock()
	return h.NStop
}

type HookRecorder struct {
	mu       sync.Mutex
	Sessions []*HookSession
	Keep     bool
}

func (r *HookRecorder) New(uniqueKey, streamName string) logic.ICustomizeHookSessionContext {
	h := &HookSession{UniqueKey: uniqueKey, StreamName: streamName, Keep: r.Keep}
	r.mu.Lock()
	r.Sessions = append(r.Sessions, h)
	r.mu.Unlock()
	return h
}

// Latest returns the most recent hook session of a stream (nil if none).
func (r *HookRecorder) Latest(streamName string) *HookSession {
	r.mu.Lock()
	defer r.mu.Unlock()
	for i := len(r.Sessions) - 1; i >= 0; i-- {
		if r.Sessions[i].StreamName == streamName {
			return r.Sessions[i]
		}
	}
	return nil
}

func (r *HookRecorder) All() []*HookSession {
	r.mu.Lock()
	defer r.mu.Unlock()
	return append([]*HookSession(nil), r.Sessions...)
}

// InstallHook registers a HookRecorder on the server.
func (s *Server) InstallHook(keep bool) *HookRecorder {
	r := &HookRecorder{Keep: keep}
	s.Lal.WithOnHookSession(r.New)
	return r
}

// writeSelfSignedCert writes a fresh self-signed certificate for 127.0.0.1 (ECDSA P-256) and its key as PEM files.
func writeSelfSignedCert(dir string) (certFile, keyFile string, err error) {
	key, err := ecdsa.GenerateKey(elliptic.P256(), crand.Reader)
	if err != nil {
		return "", "", err
	}
	tmpl := x509.Certificate{SerialNumber: big.NewInt(1), Subject: pkix.Name{CommonName: "lalverif"}, NotBefore: time.Now().Add(-time.Hour), NotAfter: time.Now().Add(24 * time.Hour),
		KeyUsage: x509.KeyUsageDigitalSignature, ExtKeyUsage: []x509.ExtKeyUsage{x509.ExtKeyUsageServerAuth}, IPAddresses: []net.IP{net.IPv4(127, 0, 0, 1)}}
	der, err := x509.CreateCertificate(crand.Reader, &tmpl, &tmpl, &key.PublicKey, key)
	if err != nil {
		return "", "", err
	}
	kb, err := x509.MarshalECPrivateKey(key)
	if err != nil {
		return "", "", err
	}
	certFile, keyFile = filepath.Join(dir, "cert.pem"), filepath.Join(dir, "key.pem")
	if err = os.WriteFile(certFile, pem.EncodeToMemory(&pem.Block{Type: "CERTIFICATE", Bytes: der}), 0644); err != nil {
		return "", "", err
	}
	err = os.WriteFile(keyFile, pem.EncodeToMemory(&pem.Block{Type: "EC PRIVATE KEY", Bytes: kb}), 0600)
	return certFile, keyFile, err
}
