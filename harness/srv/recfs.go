package srv

import (
	"errors"
	"os"
	"sort"
	"strings"
	"sync"

	"github.com/q191201771/naza/pkg/filesystemlayer"
)

// RecFs is an in-memory implementation of naza's IFileSystemLayer that records every
// operation and calls OnOp after each one (with the lock held), so an oracle can inspect the
// directory state at every "crash point" of the operation sequence.
type FsOp struct {
	Seq   int
	Op    string // create write close rename mkdir remove removeall readfile writefile
	Path  string
	Path2 string
	N     int
	Err   bool
}

type RecFs struct {
	mu    sync.Mutex
	Files map[string][]byte
	Ops   []FsOp
	// OnOp is called after every mutating operation with the lock held; it must not call back
	// into methods that take the lock (use the *Locked accessors).
	OnOp func(op FsOp, fs *RecFs)
	// KeepOps: keep the operation list (can be large)
	KeepOps bool
	NOps    int
}

func NewRecFs() *RecFs { return &RecFs{Files: map[string][]byte{}, KeepOps: true} }

type recFile struct {
	fs   *RecFs
	name string
}

func (f *RecFs) record(op FsOp) {
	op.Seq = f.NOps
	f.NOps++
	if f.KeepOps {
		f.Ops = append(f.Ops, op)
	}
	if f.OnOp != nil && op.Op != "readfile" && op.Op != "mkdir" {
		f.OnOp(op, f)
	}
}

func (f *RecFs) Type() filesystemlayer.FslType { return filesystemlayer.FslTypeMemory }

func (f *RecFs) Create(name string) (filesystemlayer.IFile, error) {
	f.mu.Lock()
	defer f.mu.Unlock()
	f.Files[name] = []byte{}
	f.record(FsOp{Op: "create", Path: name})
	return &recFile{fs: f, name: name}, nil
}

func (rf *recFile) Write(b []byte) (int, error) {
	f := rf.fs
	f.mu.Lock()
	defer f.mu.Unlock()
	if _, ok := f.Files[rf.name]; !ok {
		// file was removed/renamed while open: writes go nowhere (like an unlinked inode)
		f.record(FsOp{Op: "write", Path: rf.name, N: len(b), Err: true})
		return len(b), nil
	}
	f.Files[rf.name] = append(f.Files[rf.name], b...)
	f.record(FsOp{Op: "write", Path: rf.name, N: len(b)})
	return len(b), nil
}

func (rf *recFile) Close() error {
	f := rf.fs
	f.mu.Lock()
	defer f.mu.Unlock()
	f.record(FsOp{Op: "close", Path: rf.name})
	return nil
}

func (f *RecFs) Rename(oldpath, newpath string) error {
	f.mu.Lock()
	defer f.mu.Unlock()
	b, ok := f.Files[oldpath]
	if !ok {
		f.record(FsOp{Op: "rename", Path: oldpath, Path2: newpath, Err: true})
		return os.ErrNotExist
	}
	delete(f.Files, oldpath)
	f.Files[newpath] = b
	f.record(FsOp{Op: "rename", Path: oldpath, Path2: newpath})
	return nil
}

func (f *RecFs) MkdirAll(path string, perm uint32) error {
	f.mu.Lock()
	defer f.mu.Unlock()
	f.record(FsOp{Op: "mkdir", Path: path})
	return nil
}

func (f *RecFs) Remove(name string) error {
	f.mu.Lock()
	defer f.mu.Unlock()
	if _, ok := f.Files[name]; !ok {
		f.record(FsOp{Op: "remove", Path: name, Err: true})
		return os.ErrNotExist
	}
	delete(f.Files, name)
	f.record(FsOp{Op: "remove", Path: name})
	return nil
}

func (f *RecFs) RemoveAll(path string) error {
	f.mu.Lock()
	defer f.mu.Unlock()
	p := strings.TrimRight(path, "/")
	for k := range f.Files {
		if k == p || strings.HasPrefix(k, p+"/") {
			delete(f.Files, k)
		}
	}
	f.record(FsOp{Op: "removeall", Path: path})
	return nil
}

func (f *RecFs) ReadFile(filename string) ([]byte, error) {
	f.mu.Lock()
	defer f.mu.Unlock()
	b, ok := f.Files[filename]
	f.record(FsOp{Op: "readfile", Path: filename, Err: !ok})
	if !ok {
		return nil, errors.New("recfs: no such file")
	}
	return append([]byte(nil), b...), nil
}

func (f *RecFs) WriteFile(filename string, data []byte, perm uint32) error {
	f.mu.Lock()
	defer f.mu.Unlock()
	f.Files[filename] = append([]byte(nil), data...)
	f.record(FsOp{Op: "writefile", Path: filename, N: len(data)})
	return nil
}

// --- accessors

func (f *RecFs) OpsSnapshot() []FsOp {
	f.mu.Lock()
	defer f.mu.Unlock()
	return append([]FsOp(nil), f.Ops...)
}

func (f *RecFs) Get(name string) ([]byte, bool) {
	f.mu.Lock()
	defer f.mu.Unlock()
	b, ok := f.Files[name]
	return append([]byte(nil), b...), ok
}

// GetLocked may be called from OnOp.
func (f *RecFs) GetLocked(name string) ([]byte, bool) {
	b, ok := f.Files[name]
	return b, ok
}

func (f *RecFs) ListLocked(prefix string) []string {
	var out []string
	for k := range f.Files {
		if strings.HasPrefix(k, prefix) {
			out = append(out, k)
		}
	}
	sort.Strings(out)
	return out
}

func (f *RecFs) List(prefix string) []string {
	f.mu.Lock()
	defer f.mu.Unlock()
	return f.ListLocked(prefix)
}
