package srv

import (
	"bufio"
	"crypto/tls"
	"fmt"
	"io"
	"net"
	"strconv"
	"strings"
	"sync"
	"time"

	"lalverif/ref"
)

// HttpSub is an HTTP-FLV / WebSocket-FLV / HTTP-TS subscriber on a raw socket.
type HttpSub struct {
	Kind   string // flv | wsflv | ts | raw
	Conn   net.Conn
	Status int
	Header string

	mu     sync.Mutex
	body   []byte // flv/ts: response body; wsflv: concatenated frame payloads
	Flv    ref.FlvParser
	Ws     ref.WsParser
	wsSeen int
	closed bool
	rdErr  error
	raw    int64
}

// RawBytes is the number of body bytes read from the socket so far.
func (h *HttpSub) RawBytes() int64 {
	h.mu.Lock()
	defer h.mu.Unlock()
	return h.raw
}

// StartHttpSub sends the request and reads the response header; the body is read by a goroutine.
func StartHttpSub(addr, pathAndQuery, kind string, timeout time.Duration) (*HttpSub, error) {
	c, err := net.DialTimeout("tcp", addr, timeout)
	if err != nil {
		return nil, err
	}
	return startHttpSubOn(c, c, addr, pathAndQuery, kind, timeout)
}

// StartHttpsSub is StartHttpSub over TLS (lal's https listener has a self-signed certificate here).
// Conn stays the TCP connection: its local address is what lal reports in notifications.
func StartHttpsSub(addr, pathAndQuery, kind string, timeout time.Duration) (*HttpSub, error) {
	c, err := net.DialTimeout("tcp", addr, timeout)
	if err != nil {
		return nil, err
	}
	tc := tls.Client(c, &tls.Config{InsecureSkipVerify: true})
	c.SetDeadline(time.Now().Add(timeout))
	if err := tc.Handshake(); err != nil {
		c.Close()
		return nil, fmt.Errorf("tls handshake: %w", err)
	}
	return startHttpSubOn(c, tc, addr, pathAndQuery, kind, timeout)
}

func startHttpSubOn(raw net.Conn, c net.Conn, addr, pathAndQuery, kind string, timeout time.Duration) (*HttpSub, error) {
	var err error
	h := &HttpSub{Kind: kind, Conn: raw}
	req := "GET " + pathAndQuery + " HTTP/1.1\r\nHost: " + addr + "\r\nUser-Agent: lalverif\r\nAccept: */*\r\n"
	if kind == "wsflv" {
		req += "Upgrade: websocket\r\nConnection: Upgrade\r\nSec-WebSocket-Key: dGhlIHNhbXBsZSBub25jZQ==\r\nSec-WebSocket-Version: 13\r\n"
	}
	req += "\r\n"
	c.SetDeadline(time.Now().Add(timeout))
	if _, err = c.Write([]byte(req)); err != nil {
		c.Close()
		return nil, err
	}
	br := bufio.NewReaderSize(c, 65536)
	var hb strings.Builder
	for {
		line, err := br.ReadString('\n')
		if err != nil {
			c.Close()
			return nil, fmt.Errorf("http header: %w (got %q)", err, hb.String())
		}
		hb.WriteString(line)
		if line == "\r\n" || line == "\n" {
			break
		}
		if hb.Len() > 65536 {
			c.Close()
			return nil, fmt.Errorf("http header too long")
		}
	}
	h.Header = hb.String()
	parts := strings.SplitN(h.Header, " ", 3)
	if len(parts) >= 2 {
		h.Status, _ = strconv.Atoi(parts[1])
	}
	c.SetDeadline(time.Time{})
	go h.loop(br)
	return h, nil
}

func (h *HttpSub) loop(br *bufio.Reader) {
	buf := make([]byte, 65536)
	for {
		n, err := br.Read(buf)
		if n > 0 {
			h.mu.Lock()
			h.raw += int64(n)
			switch h.Kind {
			case "flv":
				h.body = append(h.body, buf[:n]...)
				h.Flv.Feed(buf[:n])
			case "wsflv":
				h.Ws.Feed(buf[:n])
				for ; h.wsSeen < len(h.Ws.Frames); h.wsSeen++ {
					p := h.Ws.Frames[h.wsSeen].Payload
					h.body = append(h.body, p...)
					h.Flv.Feed(p)
				}
			default:
				h.body = append(h.body, buf[:n]...)
			}
			h.mu.Unlock()
		}
		if err != nil {
			h.mu.Lock()
			h.closed = true
			if err != io.EOF {
				h.rdErr = err
			}
			h.mu.Unlock()
			return
		}
	}
}

func (h *HttpSub) Close() { h.Conn.Close() }

func (h *HttpSub) Closed() bool {
	h.mu.Lock()
	defer h.mu.Unlock()
	return h.closed
}

// Tags returns a snapshot of the FLV tags parsed so far.
func (h *HttpSub) Tags() []ref.FlvTag {
	h.mu.Lock()
	defer h.mu.Unlock()
	return append([]ref.FlvTag(nil), h.Flv.Tags...)
}

func (h *HttpSub) NumTags() int {
	h.mu.Lock()
	defer h.mu.Unlock()
	return len(h.Flv.Tags)
}

func (h *HttpSub) FlvErr() error {
	h.mu.Lock()
	defer h.mu.Unlock()
	if h.Ws.Err != nil {
		return h.Ws.Err
	}
	return h.Flv.Err
}

func (h *HttpSub) FlvPending() (flvPending, wsPending int) {
	h.mu.Lock()
	defer h.mu.Unlock()
	return h.Flv.Pending(), h.Ws.Pending()
}

func (h *HttpSub) WsFrames() []ref.WsFrame {
	h.mu.Lock()
	defer h.mu.Unlock()
	return append([]ref.WsFrame(nil), h.Ws.Frames...)
}

func (h *HttpSub) Body() []byte {
	h.mu.Lock()
	defer h.mu.Unlock()
	return append([]byte(nil), h.body...)
}

func (h *HttpSub) BodyLen() int {
	h.mu.Lock()
	defer h.mu.Unlock()
	return len(h.body)
}

// WaitFor polls pred until it holds or the timeout expires.
func WaitFor(timeout time.Duration, pred func() bool) bool {
	deadline := time.Now().Add(timeout)
	for {
		if pred() {
			return true
		}
		if time.Now().After(deadline) {
			return false
		}
		time.Sleep(5 * time.Millisecond)
	}
}

// HttpGet performs one request and returns status, header and whole body (Connection: close).
func HttpGet(addr, pathAndQuery string, timeout time.Duration) (status int, header string, body []byte, err error) {
	c, err := net.DialTimeout("tcp", addr, timeout)
	if err != nil {
		return 0, "", nil, err
	}
	defer c.Close()
	c.SetDeadline(time.Now().Add(timeout))
	if _, err = c.Write([]byte("GET " + pathAndQuery + " HTTP/1.1\r\nHost: " + addr + "\r\nConnection: close\r\n\r\n")); err != nil {
		return
	}
	all, _ := io.ReadAll(c)
	i := strings.Index(string(all), "\r\n\r\n")
	if i < 0 {
		return 0, string(all), nil, fmt.Errorf("no header terminator in %d bytes", len(all))
	}
	header = string(all[:i+4])
	body = all[i+4:]
	p := strings.SplitN(header, " ", 3)
	if len(p) >= 2 {
		status, _ = strconv.Atoi(p[1])
	}
	if strings.Contains(strings.ToLower(header), "transfer-encoding: chunked") {
		body = dechunk(body)
	}
	return
}

func dechunk(b []byte) []byte {
	var out []byte
	for len(b) > 0 {
		i := strings.Index(string(b), "\r\n")
		if i < 0 {
			break
		}
		n, err := strconv.ParseInt(strings.TrimSpace(string(b[:i])), 16, 32)
		if err != nil || n == 0 {
			break
		}
		b = b[i+2:]
		if int(n) > len(b) {
			out = append(out, b...)
			break
		}
		out = append(out, b[:n]...)
		b = b[n:]
		if len(b) >= 2 {
			b = b[2:]
		}
	}
	return out
}

// HttpPostJson posts a JSON body and returns status and response body.
func HttpPostJson(addr, path, jsonBody string, timeout time.Duration) (status int, body []byte, err error) {
	c, err := net.DialTimeout("tcp", addr, timeout)
	if err != nil {
		return 0, nil, err
	}
	defer c.Close()
	c.SetDeadline(time.Now().Add(timeout))
	req := fmt.Sprintf("POST %s HTTP/1.1\r\nHost: %s\r\nContent-Type: application/json\r\nContent-Length: %d\r\nConnection: close\r\n\r\n%s", path, addr, len(jsonBody), jsonBody)
	if _, err = c.Write([]byte(req)); err != nil {
		return
	}
	all, _ := io.ReadAll(c)
	i := strings.Index(string(all), "\r\n\r\n")
	if i < 0 {
		return 0, all, fmt.Errorf("no header terminator")
	}
	p := strings.SplitN(string(all[:i]), " ", 3)
	if len(p) >= 2 {
		status, _ = strconv.Atoi(p[1])
	}
	body = all[i+4:]
	if strings.Contains(strings.ToLower(string(all[:i])), "transfer-encoding: chunked") {
		body = dechunk(body)
	}
	return
}
