package gen

import (
	"math/rand"

	"lalverif/ref"
)

// Elementary-stream model shared by C06 (RTMP ingest → TS/HLS/RTSP) and C07 (RTSP/PS/customize
// ingest → RTMP/FLV): frames of tagged NAL units / tagged audio frames.

type EsSpec struct {
	VCodec   string // "" | avc | hevc | hevc-enh (enhanced-RTMP on the RTMP side)
	ACodec   string // "" | aac | opus | g711a | g711u
	AacIdx   int    // sampling frequency index 0..12
	AacChans int    // channel configuration 1..7
	AacObj   int    // audio object type 1..4
	NVideo   int    // number of video frames
	GopLen   int
	AudioPer int // audio frames per video frame
	MaxNals  int // 1..6 NAL units per frame
	BigNals  bool
	InBandPS bool // repeat parameter sets in-band before some key frames
	AudSei   bool // add AUD / SEI NAL units
	BFrames  bool // composition offsets
	TsStart  uint32
	TsJump   bool // one forward timestamp jump mid-stream
	AudioGap bool // sparse audio (forces batched-audio flushes)
	VideoMs  int  // video frame interval (default 40)
	LateAudio int // audio starts only after this many video frames (0 = from the start)
	TsBack    bool // one backward timestamp jump to below the stream's first timestamp
	TrailingNonIdr bool // key frames may end with a non-IDR NAL unit (filler data)
	PsChange       bool // one key frame in the middle carries in-band SPS + a NEW PPS; it is in force from there on
	PsChangeLone   bool // PsChange: the NEW PPS travels on its own (no SPS / VPS next to it) in front of that key frame
	PartialPS      bool // H.265: some later key frames repeat SPS+PPS in-band without the VPS
	AscChange      bool // AAC: a second sequence header with another channel configuration / object type mid-stream
	TinyAac        bool // AAC: some frames are 1-4 bytes long (digital silence of a mono AAC-LC encoder is 4 bytes); they carry no tag and are matched by order
	TinyAudio      bool // Opus / G.711: some frames are a single byte (Opus DTX); they carry no tag and are matched by order
	LonePS         bool // some non-key frames are preceded by a PPS or an SPS on its own (parameter-set update sent separately)
	MetaAudio      int  // metadata announces the audio track: 1 = audiocodecid only; 2 = audiocodecid and an audiosamplerate that is the SOURCE's rate (Opus from a 16 kHz microphone, G.711 at 8 kHz) - 0: neither
	NalLikeAudio   bool // Opus / G.711: frames begin with a byte that reads as an IDR / SPS / PPS NAL header (audio samples are arbitrary bytes)
}

type EsFrame struct {
	Idx   int
	Video bool
	Key   bool
	Ts    uint32 // ms
	Cts   int    // ms
	Nals  [][]byte
	Audio []byte // raw audio frame (no ADTS / RTMP header)
}

type EsStream struct {
	Spec   EsSpec
	Inc    int
	Vps    []byte
	Sps    []byte
	Pps    []byte
	Asc    []byte
	Pps2   []byte // PsChange: the PPS in force from frame PsChangeFrame on
	Asc2   []byte // AscChange: the config in force from frame AscChangeFrame on
	PsChangeFrame, AscChangeFrame int // frame indices (−1: no change)
	Frames []EsFrame
	AClock int // audio sampling rate
}

var AacRates = []int{96000, 88200, 64000, 48000, 44100, 32000, 24000, 22050, 16000, 12000, 11025, 8000, 7350}

func nalFill(r *rand.Rand, n int) []byte {
	b := make([]byte, n)
	for i := range b {
		b[i] = byte(1 + r.Intn(255)) // no zero bytes: no start-code emulation
	}
	return b
}

// TaggedNal builds a NAL of total length n (≥1) with the given header byte(s); if it is long
// enough it carries Tag(inc, id).
func TaggedNal(r *rand.Rand, hdr []byte, inc, id, n int) []byte {
	if n < len(hdr) {
		n = len(hdr)
	}
	b := append([]byte(nil), hdr...)
	if n >= len(hdr)+12 {
		b = append(b, Tag(inc, id)...)
	}
	b = append(b, nalFill(r, n-len(b))...)
	return b
}

func nalSize(r *rand.Rand, big bool) int {
	small := []int{1, 2, 3, 14, 20, 100, 183, 184, 185, 367, 368, 369, 1199, 1200, 1201, 1400, 2400, 2401, 4095, 4096, 4097}
	if big && r.Intn(6) == 0 {
		return []int{65535, 65536, 70000, 100000, 200000, 400 * 1024}[r.Intn(6)]
	}
	if big && r.Intn(6) == 0 {
		// access units whose PES packet (NAL + start codes + AUD + 8/13-byte PES header) straddles 65535
		return 65490 + r.Intn(60)
	}
	if r.Intn(3) == 0 {
		return 14 + r.Intn(3000)
	}
	return small[r.Intn(len(small))]
}

// BuildEs generates an elementary stream.
func BuildEs(r *rand.Rand, inc int, sp EsSpec) *EsStream {
	es := &EsStream{Spec: sp, Inc: inc}
	if sp.VideoMs == 0 {
		sp.VideoMs = 40
	}
	if sp.GopLen == 0 {
		sp.GopLen = 8
	}
	if sp.MaxNals == 0 {
		sp.MaxNals = 1
	}
	switch sp.VCodec {
	case "avc":
		es.Sps = AvcSps
		es.Pps = append([]byte{0x68, 0xce, 0x3c, 0x80}, Tag(inc, SeqHdrTagBase)...)
	case "hevc", "hevc-enh":
		es.Vps, es.Sps, es.Pps = HevcVps, HevcSps, HevcPpsVer(inc, 0)
	}
	switch sp.ACodec {
	case "aac":
		obj := sp.AacObj
		if obj == 0 {
			obj = 2
		}
		ch := sp.AacChans
		if ch == 0 {
			ch = 2
		}
		es.Asc = []byte{byte(obj<<3 | sp.AacIdx>>1), byte(sp.AacIdx<<7 | ch<<3)}
		es.AClock = AacRates[sp.AacIdx]
	case "opus":
		es.AClock = 48000
	case "g711a", "g711u":
		es.AClock = 8000
	}
	ts := sp.TsStart
	idx := 0
	hevc := sp.VCodec == "hevc" || sp.VCodec == "hevc-enh"
	es.PsChangeFrame, es.AscChangeFrame = -1, -1
	curPps := es.Pps
	if sp.PsChange && sp.VCodec != "" {
		if hevc {
			es.Pps2 = HevcPpsVer(inc, 1)
		} else {
			es.Pps2 = append([]byte{0x68, 0xce, 0x3c, 0x80}, Tag(inc, SeqHdrTagBase+1)...)
		}
	}
	if sp.AscChange && sp.ACodec == "aac" {
		obj, ch := int(es.Asc[0]>>3), int(es.Asc[1]>>3&0xf)
		obj, ch = obj%4+1, ch%7+1
		es.Asc2 = []byte{byte(obj<<3 | sp.AacIdx>>1), byte(sp.AacIdx<<7 | ch<<3)}
	}
	for v := 0; v < sp.NVideo || (sp.VCodec == "" && v < sp.NVideo); v++ {
		if sp.VCodec != "" {
			key := v%sp.GopLen == 0
			f := EsFrame{Idx: idx, Video: true, Key: key, Ts: ts}
			if sp.BFrames && !key && r.Intn(2) == 0 {
				f.Cts = []int{1, 40, 80, 200}[r.Intn(4)]
			}
			nn := 1 + r.Intn(sp.MaxNals)
			slice := r.Intn(nn) // which NAL is the (tagged) slice
			for j := 0; j < nn; j++ {
				var hdr []byte
				size := nalSize(r, sp.BigNals)
				if j == slice {
					if size < 14 {
						size = 14 + r.Intn(50)
					}
					if hevc {
						t := byte(1)
						if key {
							t = 19
						}
						hdr = []byte{t << 1, 1}
					} else if key {
						hdr = []byte{0x65}
					} else {
						hdr = []byte{0x41}
					}
				} else {
					// auxiliary NALs: SEI-like / slice-like, never IDR/parameter-set types unless asked
					if hevc {
						hdr = []byte{[]byte{1, 2, 8, 9}[r.Intn(4)] << 1, 1}
						if key {
							hdr = []byte{[]byte{19, 20}[r.Intn(2)] << 1, 1}
							if j > slice && sp.TrailingNonIdr {
								hdr = []byte{38 << 1, 1} // filler data after the IRAP slices
							}
						}
						if size < 2 {
							size = 2
						}
					} else {
						hdr = []byte{[]byte{0x41, 0x01, 0x21, 0x0c}[r.Intn(4)]}
						if key {
							hdr = []byte{0x65}
							if j > slice && sp.TrailingNonIdr {
								hdr = []byte{0x0c} // filler data NAL after the IDR slices
							}
						}
					}
				}
				f.Nals = append(f.Nals, TaggedNal(r, hdr, inc, idx*8+j, size))
			}
			if sp.AudSei && r.Intn(2) == 0 {
				// AUD first, SEI after it
				if hevc {
					f.Nals = append([][]byte{{35 << 1, 1, 0x50}, TaggedNal(r, []byte{39 << 1, 1}, inc, idx*8+7, 20+r.Intn(40))}, f.Nals...)
				} else {
					f.Nals = append([][]byte{{0x09, 0xf0}, TaggedNal(r, []byte{0x06}, inc, idx*8+7, 20+r.Intn(40))}, f.Nals...)
				}
			}
			if es.Pps2 != nil && es.PsChangeFrame < 0 && key && v >= sp.NVideo/2 {
				// the parameter-set change: SPS (unchanged) and the new PPS travel in-band with this key frame
				es.PsChangeFrame = idx
				curPps = es.Pps2
				if sp.PsChangeLone {
					f.Nals = append([][]byte{curPps}, f.Nals...)
				} else if hevc {
					f.Nals = append([][]byte{es.Vps, es.Sps, curPps}, f.Nals...)
				} else {
					f.Nals = append([][]byte{es.Sps, curPps}, f.Nals...)
				}
			} else if sp.PartialPS && hevc && key && v > 0 && r.Intn(2) == 0 {
				f.Nals = append([][]byte{es.Sps, curPps}, f.Nals...)
			} else if sp.InBandPS && key && r.Intn(2) == 0 {
				if hevc {
					f.Nals = append([][]byte{es.Vps, es.Sps, curPps}, f.Nals...)
				} else {
					f.Nals = append([][]byte{es.Sps, curPps}, f.Nals...)
				}
			}
			if sp.LonePS && !key && r.Intn(6) == 0 {
				if r.Intn(3) == 0 {
					f.Nals = append([][]byte{es.Sps}, f.Nals...)
				} else {
					f.Nals = append([][]byte{curPps}, f.Nals...)
				}
			}
			es.Frames = append(es.Frames, f)
			idx++
		}
		if sp.ACodec != "" {
			na := sp.AudioPer
			if sp.AudioGap && v%5 != 0 {
				na = 0
			}
			if v < sp.LateAudio {
				na = 0
			}
			for a := 0; a < na; a++ {
				size := 14 + r.Intn(400)
				if r.Intn(10) == 0 {
					size = []int{14, 255, 256, 1000, 2000}[r.Intn(5)]
				}
				f := EsFrame{Idx: idx, Ts: ts + uint32(a*sp.VideoMs/(na+1))}
				if es.Asc2 != nil && es.AscChangeFrame < 0 && v >= sp.NVideo/2 {
					es.AscChangeFrame = idx
				}
				f.Audio = append(Tag(inc, idx*8), nalFill(r, size-12)...)
				if sp.NalLikeAudio && sp.ACodec != "aac" {
					lead := []byte{0x65, 0x67, 0x68, 0x25, 0x27, 0x45, 0x26, 0x28, 0x40, 0x42, 0x44}[idx%11]
					f.Audio = append([]byte{lead}, f.Audio...)
				}
				if sp.TinyAudio && sp.ACodec != "aac" && len(es.Frames) > 20 && r.Intn(6) == 0 {
					f.Audio = []byte{byte(1 + idx%250)}
				}
				if sp.TinyAac && sp.ACodec == "aac" && len(es.Frames) > 20 && r.Intn(6) == 0 {
					f.Audio = [][]byte{{0x00, 0xC8, 0x00, 0x07}, {0x21, 0x10, 0x05}, {0x01, byte(1 + idx%250)}, {byte(1 + idx%250)}}[r.Intn(4)]
				}
				es.Frames = append(es.Frames, f)
				idx++
			}
		}
		ts += uint32(sp.VideoMs)
		if sp.TsJump && v == sp.NVideo/2 {
			ts += 30000
		}
		if sp.TsBack && v == sp.NVideo/3 && sp.TsStart >= 1000 {
			ts = sp.TsStart - 900
		}
	}
	return es
}

// RtmpMessages renders the stream as RTMP messages (sequence headers first).
type EsMsg struct {
	Type    uint8
	Ts      uint32
	Payload []byte
	Frame   int // index into Frames, −1 for headers
}

// PpsAt / AscAt: the PPS / AudioSpecificConfig in force for frame index fi.
func (es *EsStream) PpsAt(fi int) []byte {
	if es.PsChangeFrame >= 0 && fi >= es.PsChangeFrame {
		return es.Pps2
	}
	return es.Pps
}

func (es *EsStream) AscAt(fi int) []byte {
	if es.AscChangeFrame >= 0 && fi >= es.AscChangeFrame {
		return es.Asc2
	}
	return es.Asc
}

func (es *EsStream) RtmpMessages(withMeta bool) []EsMsg {
	var out []EsMsg
	ts0 := es.Spec.TsStart
	if withMeta && es.Spec.MetaAudio > 0 && es.Spec.ACodec != "" {
		id := map[string]float64{"aac": 10, "g711a": 7, "g711u": 8, "opus": 13}[es.Spec.ACodec]
		pairs := []ref.AmfPair{{Key: "width", Val: ref.AmfNum(640)}, {Key: "height", Val: ref.AmfNum(360)}, {Key: "lvinc", Val: ref.AmfNum(float64(es.Inc))}, {Key: "lvver", Val: ref.AmfNum(0)},
			{Key: "audiocodecid", Val: ref.AmfNum(id)}}
		if es.Spec.MetaAudio == 2 {
			// (for AAC the metadata of real encoders often disagrees with the AudioSpecificConfig: HE-AAC
			// announces the output rate, the ASC the core rate - the ASC is what counts)
			aacMeta := float64(es.AClock * 2)
			if es.AClock > 48000 {
				aacMeta = float64(es.AClock / 2)
			}
			rate := map[string]float64{"aac": aacMeta, "g711a": 8000, "g711u": 8000, "opus": 16000}[es.Spec.ACodec]
			pairs = append(pairs, ref.AmfPair{Key: "audiosamplerate", Val: ref.AmfNum(rate)})
		}
		out = append(out, EsMsg{18, ts0, ref.AmfEncodeAll(ref.AmfStr("@setDataFrame"), ref.AmfStr("onMetaData"), ref.AmfObj(pairs...)), -1})
	} else if withMeta {
		out = append(out, EsMsg{18, ts0, Metadata(es.Inc, 0, true), -1})
	}
	switch es.Spec.VCodec {
	case "avc":
		b := []byte{0x17, 0, 0, 0, 0, 1, es.Sps[1], es.Sps[2], es.Sps[3], 0xff, 0xe1, byte(len(es.Sps) >> 8), byte(len(es.Sps))}
		b = append(b, es.Sps...)
		b = append(b, 1, byte(len(es.Pps)>>8), byte(len(es.Pps)))
		b = append(b, es.Pps...)
		out = append(out, EsMsg{9, ts0, b, -1})
	case "hevc":
		out = append(out, EsMsg{9, ts0, HevcSeqHeader(es.Inc, 0, false), -1})
	case "hevc-enh":
		out = append(out, EsMsg{9, ts0, HevcSeqHeader(es.Inc, 0, true), -1})
	}
	if es.Spec.ACodec == "aac" {
		out = append(out, EsMsg{8, ts0, append([]byte{0xAF, 0x00}, es.Asc...), -1})
	}
	for i, f := range es.Frames {
		if i == es.AscChangeFrame {
			out = append(out, EsMsg{8, f.Ts, append([]byte{0xAF, 0x00}, es.Asc2...), -1})
		}
		if f.Video {
			var b []byte
			ft := byte(2)
			if f.Key {
				ft = 1
			}
			switch es.Spec.VCodec {
			case "avc":
				b = []byte{ft<<4 | 7, 1, byte(f.Cts >> 16), byte(f.Cts >> 8), byte(f.Cts)}
			case "hevc":
				b = []byte{ft<<4 | 12, 1, byte(f.Cts >> 16), byte(f.Cts >> 8), byte(f.Cts)}
			default:
				if f.Cts != 0 {
					b = []byte{0x80 | ft<<4 | 1, 'h', 'v', 'c', '1', byte(f.Cts >> 16), byte(f.Cts >> 8), byte(f.Cts)}
				} else {
					b = []byte{0x80 | ft<<4 | 3, 'h', 'v', 'c', '1'}
				}
			}
			for _, n := range f.Nals {
				b = append(b, byte(len(n)>>24), byte(len(n)>>16), byte(len(n)>>8), byte(len(n)))
				b = append(b, n...)
			}
			out = append(out, EsMsg{9, f.Ts, b, i})
		} else {
			var b []byte
			switch es.Spec.ACodec {
			case "aac":
				b = []byte{0xAF, 0x01}
			case "opus":
				b = []byte{0xDF} // lal's RTMP Opus convention: one header byte, like G.711
			case "g711a":
				b = []byte{0x72}
			case "g711u":
				b = []byte{0x82}
			}
			b = append(b, f.Audio...)
			out = append(out, EsMsg{8, f.Ts, b, i})
		}
	}
	return out
}

// IsParamSet reports whether a NAL is a parameter set (or AUD / SEI when asked) for the codec.
func NalClass(hevc bool, nal []byte) string {
	if len(nal) == 0 {
		return "empty"
	}
	if hevc {
		switch nal[0] >> 1 & 0x3f {
		case 32:
			return "vps"
		case 33:
			return "sps"
		case 34:
			return "pps"
		case 35:
			return "aud"
		case 39, 40:
			return "sei"
		}
		return "vcl"
	}
	switch nal[0] & 0x1f {
	case 7:
		return "sps"
	case 8:
		return "pps"
	case 9:
		return "aud"
	case 6:
		return "sei"
	}
	return "vcl"
}
