// Package gen builds tagged workloads: every published message carries a unique tag so a
// consumer history identifies which published message each received item is.
package gen

import (
	"crypto/sha1"
	"fmt"
	"math/rand"

	"lalverif/ref"
)

type Kind int

const (
	Meta Kind = iota
	Vsh
	Ash
	Key
	Inter
	Audio
	Empty
)

func (k Kind) String() string {
	return []string{"meta", "vsh", "ash", "key", "inter", "audio", "empty"}[k]
}

type PubMsg struct {
	Idx     int
	Kind    Kind
	Type    uint8
	Ts      uint32
	Payload []byte
	Inc     int // incarnation of the stream name
	VshIdx  int // index of the video sequence header in force (−1 none)
	AshIdx  int
	MetaIdx int
	Gop     int // gop number (−1 before the first key frame)
	Sdf     bool // metadata published with @setDataFrame
}

func (m PubMsg) IsMedia() bool { return m.Kind == Key || m.Kind == Inter || m.Kind == Audio }

// A real-world H.264 SPS (Baseline 640x360) — fixed; sequence-header versions differ in the PPS.
var AvcSps = []byte{0x67, 0x42, 0xc0, 0x1e, 0xd9, 0x00, 0xa0, 0x2f, 0xf9, 0x70, 0x16, 0xe0, 0x40, 0x40, 0x50, 0x00, 0x00, 0x03, 0x00, 0x10, 0x00, 0x00, 0x03, 0x03, 0xc8, 0xf1, 0x62, 0xe4, 0x80}

func fill(r *rand.Rand, n int) []byte {
	b := make([]byte, n)
	for i := range b {
		// avoid 0x00 runs so that no start-code emulation appears in payloads
		b[i] = byte(1 + r.Intn(255))
	}
	return b
}

// Tag is the unique marker embedded in every payload.
func Tag(inc, idx int) []byte {
	b := make([]byte, 12)
	copy(b, "LVT")
	b[3] = 0x80 | byte(inc)
	for i := 0; i < 8; i++ {
		b[4+i] = 0x10 | byte(uint32(idx)>>(28-4*uint(i)))&0x0f // one nibble per byte, never zero
	}
	return b
}

// AvcSeqHeader builds an AVCDecoderConfigurationRecord message payload; ver makes it distinct.
func AvcSeqHeader(inc, ver int) []byte {
	pps := append([]byte{0x68, 0xce, 0x3c, 0x80}, Tag(inc, 1000000+ver)...)
	b := []byte{0x17, 0, 0, 0, 0, 1, AvcSps[1], AvcSps[2], AvcSps[3], 0xff, 0xe1, byte(len(AvcSps) >> 8), byte(len(AvcSps))}
	b = append(b, AvcSps...)
	b = append(b, 1, byte(len(pps)>>8), byte(len(pps)))
	b = append(b, pps...)
	return b
}

// AacSeqHeader: AudioSpecificConfig AAC-LC; ver selects the sampling index; trailing tag bytes
// (legal: an ASC may carry extension bytes) make every header unique per incarnation/version.
func AacSeqHeader(inc, ver int) []byte {
	idx := []byte{4, 3, 5, 6}[ver%4] // 44.1k, 48k, 32k, 24k
	asc := []byte{2<<3 | idx>>1, idx<<7 | 2<<3}
	b := append([]byte{0xAF, 0x00}, asc...)
	return append(b, Tag(inc, SeqHdrTagBase+500+ver)...)
}

func Metadata(inc, ver int, sdf bool) []byte {
	var vs []ref.AmfValue
	if sdf {
		vs = append(vs, ref.AmfStr("@setDataFrame"))
	}
	vs = append(vs, ref.AmfStr("onMetaData"), ref.AmfObj(
		ref.AmfPair{Key: "width", Val: ref.AmfNum(640)}, ref.AmfPair{Key: "height", Val: ref.AmfNum(360)},
		ref.AmfPair{Key: "lvinc", Val: ref.AmfNum(float64(inc))}, ref.AmfPair{Key: "lvver", Val: ref.AmfNum(float64(ver))},
		ref.AmfPair{Key: "encoder", Val: ref.AmfStr("lalverif")}))
	return ref.AmfEncodeAll(vs...)
}

// VideoFrame: AVCC payload with one NAL carrying the tag; size = total payload length (≥ 22).
func VideoFrame(r *rand.Rand, inc, idx int, key bool, cts int, size int) []byte {
	if size < 22 {
		size = 22
	}
	h := byte(0x27)
	nal := byte(0x41)
	if key {
		h, nal = 0x17, 0x65
	}
	n := size - 9
	b := []byte{h, 1, byte(cts >> 16), byte(cts >> 8), byte(cts), byte(n >> 24), byte(n >> 16), byte(n >> 8), byte(n), nal}
	b = append(b, Tag(inc, idx)...)
	b = append(b, fill(r, size-len(b))...)
	return b
}

// VideoFrameCodec is VideoFrame for the codec of a Shape.
func VideoFrameCodec(r *rand.Rand, codec string, inc, idx int, key bool, cts int, size int) []byte {
	if codec == "" {
		return VideoFrame(r, inc, idx, key, cts, size)
	}
	if size < 30 {
		size = 30
	}
	ft := byte(2)
	nalType := byte(1)
	if key {
		ft, nalType = 1, 19
	}
	var b []byte
	switch {
	case codec == "hevc":
		b = []byte{ft<<4 | 12, 1, byte(cts >> 16), byte(cts >> 8), byte(cts)}
	case cts != 0:
		b = []byte{0x80 | ft<<4 | 1, 'h', 'v', 'c', '1', byte(cts >> 16), byte(cts >> 8), byte(cts)}
	default:
		b = []byte{0x80 | ft<<4 | 3, 'h', 'v', 'c', '1'}
	}
	n := size - len(b) - 4
	b = append(b, byte(n>>24), byte(n>>16), byte(n>>8), byte(n), nalType<<1, 1)
	b = append(b, Tag(inc, idx)...)
	b = append(b, fill(r, size-len(b))...)
	return b
}

func AudioFrame(r *rand.Rand, inc, idx int, size int) []byte {
	return AudioFrameCodec(r, inc, idx, size, "")
}

func AudioFrameCodec(r *rand.Rand, inc, idx int, size int, codec string) []byte {
	if size < 14 {
		size = 14
	}
	b := []byte{0xAF, 0x01}
	switch codec {
	case "g711a":
		b = []byte{0x72}
	case "g711u":
		b = []byte{0x82}
	case "opus":
		b = []byte{0xDF, 0x01}
	}
	b = append(b, Tag(inc, idx)...)
	b = append(b, fill(r, size-len(b))...)
	return b
}

// Shape describes a stream to generate.
type Shape struct {
	Name        string
	Video       bool
	Audio       bool
	Meta        bool
	MetaSdf     bool
	Gops        int
	GopLen      int // video frames per gop (incl. key)
	AudioPerVid int
	HdrChangeAt int // gop index at which new sequence headers are published (0 = never)
	HdrChangeAudioOnly bool // the change republishes the AAC sequence header only (new AudioSpecificConfig, same video)
	HdrChangeMid bool   // publish the new headers in the middle of that gop (no key frame follows directly)
	AudioCodec   string // "" = aac, "g711a", "g711u", "opus" (no sequence header for non-AAC)
	MidMeta     bool // a metadata message in the middle of a gop
	Empties     bool // zero-length messages sprinkled in
	TsMode      int  // 0 monotonic small; 1 across 0xFFFFFF; 2 near 2^32; 3 non-monotonic jitter; 4 one forward jump ≥ 0xFFFFFF mid-stream
	Sizes       []int
	VideoCodec  string // "" = avc, "hevc" (classic codec id 12), "hevc-enh" (enhanced RTMP, 'hvc1'; frames without composition offset travel as CodedFramesX)
	NoCts       bool   // never use composition offsets (enhanced HEVC: every frame, key frames included, is a CodedFramesX packet)
}

// Build generates the publish list for one incarnation.
func Build(r *rand.Rand, inc int, sh Shape) []PubMsg { return BuildAt(r, inc, sh, 0) }

// BuildAt builds one incarnation whose message indices start at base.
func BuildAt(r *rand.Rand, inc int, sh Shape, base int) []PubMsg {
	var out []PubMsg
	vsh, ash, meta, gop := -1, -1, -1, -1
	var ts uint32
	switch sh.TsMode {
	case 1:
		ts = 0xFFFFFF - 200
	case 2:
		ts = 0xFFFFFFFF - 300
	case 3:
		ts = 5000
	}
	size := func() int {
		if len(sh.Sizes) > 0 {
			return sh.Sizes[r.Intn(len(sh.Sizes))]
		}
		return 30 + r.Intn(400)
	}
	add := func(k Kind, typ uint8, p []byte, sdf bool) {
		m := PubMsg{Idx: base + len(out), Kind: k, Type: typ, Ts: ts, Payload: p, Inc: inc, VshIdx: vsh, AshIdx: ash, MetaIdx: meta, Gop: gop, Sdf: sdf}
		if sh.TsMode == 3 && k != Vsh && k != Ash && k != Meta {
			m.Ts = ts + uint32(r.Intn(40)) - 20
		}
		out = append(out, m)
	}
	hdrVer := 0
	headers := func() {
		if hdrVer > 0 && sh.HdrChangeAudioOnly {
			if sh.Audio && sh.AudioCodec == "" {
				add(Ash, 8, AacSeqHeader(inc, hdrVer), false)
				ash = base + len(out) - 1
				out[ash-base].AshIdx = ash
			}
			hdrVer++
			return
		}
		if sh.Meta {
			add(Meta, 18, Metadata(inc, hdrVer, sh.MetaSdf), sh.MetaSdf)
			meta = base + len(out) - 1
			out[meta-base].MetaIdx = meta
		}
		if sh.Video {
			if sh.VideoCodec == "" {
				add(Vsh, 9, AvcSeqHeader(inc, hdrVer), false)
			} else {
				add(Vsh, 9, HevcSeqHeader(inc, hdrVer, sh.VideoCodec == "hevc-enh"), false)
			}
			vsh = base + len(out) - 1
			out[vsh-base].VshIdx = vsh
		}
		if sh.Audio && sh.AudioCodec == "" {
			add(Ash, 8, AacSeqHeader(inc, hdrVer), false)
			ash = base + len(out) - 1
			out[ash-base].AshIdx = ash
		}
		hdrVer++
	}
	headers()
	for g := 0; g < sh.Gops; g++ {
		if sh.HdrChangeAt > 0 && g == sh.HdrChangeAt && !sh.HdrChangeMid {
			headers()
		}
		nv := sh.GopLen
		if !sh.Video {
			nv = sh.GopLen
		}
		for f := 0; f < nv; f++ {
			if sh.Video {
				key := f == 0
				if key {
					gop++
				}
				cts := 0
				if r.Intn(4) == 0 && !sh.NoCts {
					cts = r.Intn(200)
				}
				k := Inter
				if key {
					k = Key
				}
				add(k, 9, VideoFrameCodec(r, sh.VideoCodec, inc, base+len(out), key, cts, size()), false)
			}
			for a := 0; a < sh.AudioPerVid && sh.Audio; a++ {
				add(Audio, 8, AudioFrameCodec(r, inc, base+len(out), 14+r.Intn(300), sh.AudioCodec), false)
				ts += 10
			}
			if sh.HdrChangeAt > 0 && g == sh.HdrChangeAt && sh.HdrChangeMid && f == nv/2 {
				headers()
			}
			if sh.Empties && r.Intn(6) == 0 {
				add(Empty, []uint8{8, 9}[r.Intn(2)], nil, false)
			}
			if sh.MidMeta && f == nv/2 && g%2 == 1 {
				add(Meta, 18, Metadata(inc, 100+g, !sh.MetaSdf), !sh.MetaSdf)
				meta = base + len(out) - 1
				out[meta-base].MetaIdx = meta
			}
			ts += 33
		}
	}
	if sh.TsMode == 4 && len(out) > 8 {
		// one forward jump of at least 0xFFFFFF ms in the middle of the stream (an encoder that was
		// paused for hours, a wall-clock based source): a publisher may code it as a timestamp DELTA
		// with the extended timestamp field
		k := len(out)/2 + r.Intn(3)
		jump := uint32(0xFFFFFF) + []uint32{0, 1, 100, 0x1000000}[r.Intn(4)]
		for j := k; j < len(out); j++ {
			out[j].Ts += jump
		}
	}
	if sh.TsMode == 1 {
		// the first media message at or after 0xFFFFFF gets exactly that timestamp (the value at
		// which the chunk header switches to the extended timestamp field)
		for k := range out {
			if out[k].IsMedia() && out[k].Ts >= 0xFFFFFF {
				out[k].Ts = 0xFFFFFF
				break
			}
		}
	}
	return out
}

// Key identifies a message by type and payload content.
func KeyOf(typ uint8, payload []byte) [20]byte {
	h := sha1.New()
	h.Write([]byte{typ})
	h.Write(payload)
	var k [20]byte
	copy(k[:], h.Sum(nil))
	return k
}

// StripSdf returns the metadata payload without a leading @setDataFrame string.
func StripSdf(p []byte) []byte {
	v, n, err := ref.AmfDecode(p)
	if err == nil && v.Kind == ref.AmfString && v.Str == "@setDataFrame" {
		return p[n:]
	}
	return p
}

func EnsureSdf(p []byte) []byte {
	v, _, err := ref.AmfDecode(p)
	if err == nil && v.Kind == ref.AmfString && v.Str == "@setDataFrame" {
		return p
	}
	return append(ref.AmfEncode(nil, ref.AmfStr("@setDataFrame")), p...)
}

// Index maps content keys to published indices. Metadata is indexed in both forms.
type Index struct {
	m map[[20]byte]int
}

func NewIndex(msgs []PubMsg) *Index {
	ix := &Index{m: map[[20]byte]int{}}
	for _, m := range msgs {
		if len(m.Payload) == 0 {
			continue
		}
		if m.Type == 18 {
			ix.m[KeyOf(18, StripSdf(m.Payload))] = m.Idx
			ix.m[KeyOf(18, EnsureSdf(m.Payload))] = m.Idx
		} else {
			ix.m[KeyOf(m.Type, m.Payload)] = m.Idx
		}
	}
	return ix
}

func (ix *Index) Lookup(typ uint8, payload []byte) (int, bool) {
	i, ok := ix.m[KeyOf(typ, payload)]
	return i, ok
}

func (s Shape) String() string {
	return fmt.Sprintf("%s(v=%v a=%v meta=%v gops=%d×%d hdrchg=%d ts=%d)", s.Name, s.Video, s.Audio, s.Meta, s.Gops, s.GopLen, s.HdrChangeAt, s.TsMode)
}

// FoundTag is a tag located inside a byte string.
type FoundTag struct {
	Inc, Idx, Pos int
}

// FindTags scans b for embedded tags.
func FindTags(b []byte) (out []FoundTag) {
	for i := 0; i+12 <= len(b); i++ {
		if b[i] != 'L' || b[i+1] != 'V' || b[i+2] != 'T' || b[i+3]&0x80 == 0 {
			continue
		}
		idx := 0
		ok := true
		for k := 0; k < 8; k++ {
			x := b[i+4+k]
			if x&0xf0 != 0x10 {
				ok = false
				break
			}
			idx = idx<<4 | int(x&0x0f)
		}
		if ok {
			out = append(out, FoundTag{Inc: int(b[i+3] & 0x7f), Idx: idx, Pos: i})
			i += 11
		}
	}
	return
}

// SeqHeaderVersionTag: the PPS of sequence-header version `ver` carries Tag(inc, 1000000+ver).
const SeqHdrTagBase = 1000000

// HEVC parameter sets of a real 640x360 x265 stream.
var (
	HevcVps = []byte{0x40, 0x01, 0x0c, 0x01, 0xff, 0xff, 0x01, 0x60, 0x00, 0x00, 0x03, 0x00, 0x90, 0x00, 0x00, 0x03, 0x00, 0x00, 0x03, 0x00, 0x3f, 0xba, 0x02, 0x40}
	HevcSps = []byte{0x42, 0x01, 0x01, 0x01, 0x60, 0x00, 0x00, 0x03, 0x00, 0x90, 0x00, 0x00, 0x03, 0x00, 0x00, 0x03, 0x00, 0x3f, 0xa0, 0x05, 0x02, 0x01, 0x71, 0xf2, 0xe5, 0xba, 0x4a, 0x4c, 0x2f, 0x01, 0x01, 0x00, 0x00, 0x03, 0x00, 0x01, 0x00, 0x00, 0x03, 0x00, 0x0f, 0x08}
	HevcPps = []byte{0x44, 0x01, 0xc0, 0x73, 0xc1, 0x89}
)

// HevcPpsVer returns a PPS that carries a version tag (distinct sequence headers).
func HevcPpsVer(inc, ver int) []byte {
	return append(append([]byte(nil), HevcPps...), Tag(inc, SeqHdrTagBase+ver)...)
}

// HevcSeqHeader builds an HEVCDecoderConfigurationRecord message payload, classic
// (0x1c 00 …) or enhanced-RTMP (0x90 'hvc1' …).
func HevcSeqHeader(inc, ver int, enhanced bool) []byte {
	pps := HevcPpsVer(inc, ver)
	rec := []byte{0x01, 0x01, 0x60, 0x00, 0x00, 0x00, 0x90, 0x00, 0x00, 0x00, 0x00, 0x00, 0x3f, 0xf0, 0x00, 0xfc, 0xfd, 0xf8, 0xf8, 0x00, 0x00, 0x0f, 0x03}
	for _, x := range []struct {
		t byte
		n []byte
	}{{0x20, HevcVps}, {0x21, HevcSps}, {0x22, pps}} {
		rec = append(rec, x.t, 0x00, 0x01, byte(len(x.n)>>8), byte(len(x.n)))
		rec = append(rec, x.n...)
	}
	if enhanced {
		return append([]byte{0x90, 'h', 'v', 'c', '1'}, rec...)
	}
	return append([]byte{0x1c, 0, 0, 0, 0}, rec...)
}

// HevcFrame builds a video message with one tagged NAL. mode: 0 classic, 1 enhanced CodedFrames
// (with composition time), 2 enhanced CodedFramesX.
func HevcFrame(r *rand.Rand, inc, idx int, key bool, cts int, size int, mode int) []byte {
	nalType := byte(1) // TRAIL_R
	if key {
		nalType = 19 // IDR_W_RADL
	}
	var b []byte
	ft := byte(2)
	if key {
		ft = 1
	}
	switch mode {
	case 0:
		b = []byte{ft<<4 | 12, 1, byte(cts >> 16), byte(cts >> 8), byte(cts)}
	case 1:
		b = []byte{0x80 | ft<<4 | 1, 'h', 'v', 'c', '1', byte(cts >> 16), byte(cts >> 8), byte(cts)}
	default:
		b = []byte{0x80 | ft<<4 | 3, 'h', 'v', 'c', '1'}
	}
	hdr := len(b)
	if size < hdr+4+2+12 {
		size = hdr + 4 + 2 + 12
	}
	n := size - hdr - 4
	b = append(b, byte(n>>24), byte(n>>16), byte(n>>8), byte(n), nalType<<1, 1)
	b = append(b, Tag(inc, idx)...)
	b = append(b, fill(r, size-len(b))...)
	return b
}
