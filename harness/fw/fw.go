// Package fw is the small framework shared by all property checks: deterministic case lists,
// child processes per batch (one panic ends one batch only), a JSONL result protocol written
// before/after every case (so the crashing input is known), aggregation into evidence files,
// known-finding matching and replay.
package fw

import (
	"encoding/json"
	"fmt"
	"hash/fnv"
	"math/rand"
	"os"
	"runtime/pprof"
	"sort"
	"sync"
	"time"
)

// Prop describes one property check.
type Prop struct {
	ID string
	// NumCases returns how many cases the (tier, seed) list has. The list must be a pure
	// function of (tier, seed).
	NumCases func(tier string, seed int64) int
	// Run executes case i and reports through c.
	Run func(c *Ctx, i int)
	// Batches is the number of child processes the case list is split into (0 = default 16).
	Batches func(tier string) int
	// CaseTimeout is the in-child watchdog per case.
	CaseTimeout func(tier string) time.Duration
	// TimeoutIsViolation: a case that does not finish within CaseTimeout refutes the property
	// (termination / stall clauses). Otherwise it is inconclusive.
	TimeoutIsViolation bool
	// CrashIsViolation: a child that dies in a case (panic, fatal error) refutes the property.
	// This is true for every property here: lal has no recover(), a panic in lal code ends the
	// server. Harness panics are distinguished by the innermost frame.
	Rule        string
	Assumptions []string
	Level       string // evidence level, default exploration
	// MinCells: a run observing fewer distinct cells than this is "observed nothing" → exit 2.
	MinCells int
	// Setup, if set, runs once per child before its first case.
	Setup func(c *Ctx)
	// Exhaustive is reported in evidence.
	Exhaustive func(tier string) bool
	// Serial: cases of one child must not run concurrently (always true, documented).
}

var registry = map[string]*Prop{}

func Register(p *Prop) { registry[p.ID] = p }
func Get(id string) *Prop {
	return registry[id]
}
func IDs() []string {
	var s []string
	for k := range registry {
		s = append(s, k)
	}
	sort.Strings(s)
	return s
}

// Violation is one refutation of the property.
type Violation struct {
	Sig  string      `json:"sig"`
	What string      `json:"what"`
	Data interface{} `json:"data,omitempty"`
}

// record is one line of the child → driver JSONL protocol.
type record struct {
	T     string         `json:"t"` // start | end | note
	I     int            `json:"i"`
	Evals int            `json:"evals,omitempty"`
	Cells map[string]int `json:"cells,omitempty"`
	Viol  []Violation    `json:"viol,omitempty"`
	Inc   []string       `json:"inc,omitempty"`
	Samp  []interface{}  `json:"samp,omitempty"`
	Cnt   map[string]int `json:"cnt,omitempty"`
	Desc  string         `json:"desc,omitempty"`
	Ms    int64          `json:"ms,omitempty"`
	K     int            `json:"k,omitempty"`
}

// Ctx is handed to Run for one case.
type Ctx struct {
	Prop    *Prop
	Tier    string
	Seed    int64
	Index   int
	Rng     *rand.Rand
	Scratch string // per-child scratch directory (removed by the driver)
	Replay  bool
	// SubStart: when a case consists of many sub-inputs and the child died at sub-input k, the
	// driver restarts the same case with SubStart = k+1 so the rest is still explored.
	SubStart int
	// RestartChild: after this case the child process must be replaced (e.g. lal is wedged in
	// a run-away loop that cannot be cancelled); the driver continues with the next case.
	RestartChild bool

	mu    sync.Mutex
	rec   record
	out   *os.File
	descW bool
}

func caseSeed(prop, tier string, seed int64, i int) int64 {
	h := fnv.New64a()
	fmt.Fprintf(h, "%s|%s|%d|%d", prop, tier, seed, i)
	return int64(h.Sum64() & 0x7fffffffffffffff)
}

// SubRng returns a deterministic PRNG for a named purpose inside the case.
func (c *Ctx) SubRng(name string) *rand.Rand {
	h := fnv.New64a()
	fmt.Fprintf(h, "%s|%s|%d|%d|%s", c.Prop.ID, c.Tier, c.Seed, c.Index, name)
	return rand.New(rand.NewSource(int64(h.Sum64() & 0x7fffffffffffffff)))
}

// Eval counts n evaluated (conclusive) sub-cases.
func (c *Ctx) Eval(n int) {
	c.mu.Lock()
	c.rec.Evals += n
	c.mu.Unlock()
}

// Cell marks a coverage cell as observed.
func (c *Ctx) Cell(format string, a ...interface{}) {
	k := format
	if len(a) > 0 {
		k = fmt.Sprintf(format, a...)
	}
	c.mu.Lock()
	if c.rec.Cells == nil {
		c.rec.Cells = map[string]int{}
	}
	c.rec.Cells[k]++
	c.mu.Unlock()
}

// Count adds to a named counter reported in evidence.
func (c *Ctx) Count(name string, n int) {
	c.mu.Lock()
	if c.rec.Cnt == nil {
		c.rec.Cnt = map[string]int{}
	}
	c.rec.Cnt[name] += n
	c.mu.Unlock()
}

// Violate records a refutation. sig is the stable signature used for known-finding matching.
func (c *Ctx) Violate(sig, what string, data interface{}) {
	c.mu.Lock()
	defer c.mu.Unlock()
	// keep at most 8 per signature per case
	n := 0
	for _, v := range c.rec.Viol {
		if v.Sig == sig {
			n++
		}
	}
	if n >= 8 {
		return
	}
	if len(what) > 2000 {
		what = what[:2000] + "…"
	}
	c.rec.Viol = append(c.rec.Viol, Violation{Sig: sig, What: what, Data: data})
}

// Violated reports whether this case already recorded a violation.
func (c *Ctx) Violated() bool {
	c.mu.Lock()
	defer c.mu.Unlock()
	return len(c.rec.Viol) > 0
}

// Inconclusive records that (part of) the case could not be decided.
func (c *Ctx) Inconclusive(format string, a ...interface{}) {
	c.mu.Lock()
	c.rec.Inc = append(c.rec.Inc, fmt.Sprintf(format, a...))
	c.mu.Unlock()
}

// Sample stores an actual case for the evidence file (the driver keeps a handful).
func (c *Ctx) Sample(v interface{}) {
	c.mu.Lock()
	if len(c.rec.Samp) < 2 {
		c.rec.Samp = append(c.rec.Samp, v)
	}
	c.mu.Unlock()
}

// Describe writes a description of the input about to be exercised to the result file
// *before* it is exercised, so a process-fatal crash still leaves the input on disk.
func (c *Ctx) Describe(format string, a ...interface{}) {
	s := format
	if len(a) > 0 {
		s = fmt.Sprintf(format, a...)
	}
	if len(s) > 4000 {
		s = s[:4000] + "…"
	}
	c.mu.Lock()
	defer c.mu.Unlock()
	if c.out != nil {
		b, _ := json.Marshal(record{T: "note", I: c.Index, Desc: s})
		c.out.Write(append(b, '\n'))
	}
}

// Sub records that sub-input k of this case is about to be exercised (crash resumption point).
func (c *Ctx) Sub(k int) {
	c.mu.Lock()
	defer c.mu.Unlock()
	if c.out != nil {
		b, _ := json.Marshal(record{T: "sub", I: c.Index, K: k})
		c.out.Write(append(b, '\n'))
	}
}

// Borrow runs case idx of another property inside the current case (same process), with a context
// of its own. Its oracle verdicts are returned to the caller, not recorded: the borrowing property
// decides what they mean (C20 borrows the precisely scheduled whole-server scenarios of the other
// checks to put them under the race detector; their behavioural verdicts belong to their own
// check). finished=false: the borrowed case was still running after limit (its goroutine is left
// behind; the caller should ask for the child to be replaced).
func (c *Ctx) Borrow(propID, tier string, idx int, limit time.Duration) (evals int, viol []Violation, inc []string, finished bool) {
	p := Get(propID)
	if p == nil {
		return 0, nil, []string{"unknown property " + propID}, true
	}
	b := &Ctx{Prop: p, Tier: tier, Seed: c.Seed, Index: idx, Scratch: c.Scratch, Replay: c.Replay}
	b.Rng = rand.New(rand.NewSource(caseSeed(p.ID, tier, c.Seed, idx)))
	b.rec = record{T: "end", I: idx}
	done := make(chan struct{})
	go func() {
		defer close(done)
		if p.Setup != nil {
			p.Setup(b)
		}
		p.Run(b, idx)
	}()
	select {
	case <-done:
		finished = true
	case <-time.After(limit):
	}
	b.mu.Lock()
	defer b.mu.Unlock()
	return b.rec.Evals, append([]Violation(nil), b.rec.Viol...), append([]string(nil), b.rec.Inc...), finished
}

// ExitNow ends the child at once, after recording the case's verdicts: for a server that is wedged
// (a goroutine spinning or blocked for ever under a lock), where an orderly stop of lal would
// itself block until the case watchdog fires. The driver replaces the child and goes on with the
// next case (exit code 4, like RestartChild). Deferred clean-up does not run; scratch files are
// removed by the driver.
func (c *Ctx) ExitNow() {
	c.mu.Lock()
	b, _ := json.Marshal(c.rec)
	if c.out != nil {
		c.out.Write(append(b, '\n'))
		c.out.Sync()
		c.out.Close()
	}
	c.mu.Unlock()
	os.Exit(4)
}

func (c *Ctx) Logf(format string, a ...interface{}) {
	fmt.Fprintf(os.Stderr, "[case %d] "+format+"\n", append([]interface{}{c.Index}, a...)...)
}

// RunChild executes cases lo, lo+stride, … < n of prop, writing the JSONL protocol to outPath.
func RunChild(p *Prop, tier string, seed int64, first, stride, n int, only int, outPath, scratch string, sub int) int {
	out, err := os.OpenFile(outPath, os.O_CREATE|os.O_WRONLY|os.O_APPEND, 0644)
	if err != nil {
		fmt.Fprintln(os.Stderr, "child: cannot open out:", err)
		return 2
	}
	defer out.Close()
	to := 120 * time.Second
	if p.CaseTimeout != nil {
		to = p.CaseTimeout(tier)
	}
	setupDone := false
	for i := first; i < n; i += stride {
		if only >= 0 && i != only {
			continue
		}
		c := &Ctx{Prop: p, Tier: tier, Seed: seed, Index: i, Scratch: scratch, out: out, Replay: only >= 0}
		if i == first {
			c.SubStart = sub
		}
		c.Rng = rand.New(rand.NewSource(caseSeed(p.ID, tier, seed, i)))
		c.rec = record{T: "end", I: i}
		b, _ := json.Marshal(record{T: "start", I: i})
		out.Write(append(b, '\n'))
		if !setupDone && p.Setup != nil {
			p.Setup(c)
		}
		setupDone = true
		done := make(chan struct{})
		t0 := time.Now()
		go func() {
			select {
			case <-done:
			case <-time.After(to):
				fmt.Fprintf(os.Stderr, "\nWATCHDOG: case %d exceeded %v\n", i, to)
				pprof.Lookup("goroutine").WriteTo(os.Stderr, 2)
				os.Exit(3)
			}
		}()
		p.Run(c, i)
		close(done)
		c.mu.Lock()
		c.rec.Ms = time.Since(t0).Milliseconds()
		b, _ = json.Marshal(c.rec)
		c.mu.Unlock()
		out.Write(append(b, '\n'))
		if c.RestartChild {
			out.Close()
			os.Exit(4)
		}
	}
	return 0
}
