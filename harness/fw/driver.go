package fw

import (
	"bufio"
	"encoding/json"
	"fmt"
	"os"
	"os/exec"
	"path/filepath"
	"regexp"
	"sort"
	"strconv"
	"strings"
	"sync"
	"syscall"
	"time"
)

// VerifRoot is where evidence, replays and known findings live.
var VerifRoot = "/verif"

type knownFinding struct {
	Property string `json:"property"`
	Status   string `json:"status"` // known | fixed
	Sig      string `json:"sig"`
	What     string `json:"what"`
	Commit   string `json:"commit,omitempty"`
}

func loadKnown(prop string) map[string]knownFinding {
	m := map[string]knownFinding{}
	f, err := os.Open(filepath.Join(VerifRoot, "known_findings.jsonl"))
	if err != nil {
		return m
	}
	defer f.Close()
	sc := bufio.NewScanner(f)
	sc.Buffer(make([]byte, 1<<20), 1<<20)
	for sc.Scan() {
		line := strings.TrimSpace(sc.Text())
		if line == "" || strings.HasPrefix(line, "#") {
			continue
		}
		var k knownFinding
		if json.Unmarshal([]byte(line), &k) != nil {
			continue
		}
		if k.Property == prop && k.Status == "known" {
			m[k.Sig] = k
		}
	}
	return m
}

type foundViolation struct {
	Violation
	Index int    `json:"index"`
	Kind  string `json:"kind"` // oracle | crash | timeout | post
	Log   string `json:"log,omitempty"`
}

type agg struct {
	mu       sync.Mutex
	evals    int
	cells    map[string]int
	samples  []interface{}
	viol     []foundViolation
	inc      []string
	cnt      map[string]int
	crashes  int
	timeouts int
	harness  []string
	caseMs   int64
	cases    int
}

var reLalFrame = regexp.MustCompile(`^(github\.com/q191201771/(?:lal|naza)/[^\s(]+(?:\([^)]*\))?[^\s(]*)\(`)
var reAnyFrame = regexp.MustCompile(`^([A-Za-z0-9_./\-]+(?:\.\([^)]*\))?[^\s(]*)\(`)
var reDigits = regexp.MustCompile(`[0-9]+`)
var reHex = regexp.MustCompile(`0x[0-9a-fA-F]+`)

// CrashSignature extracts (signature, message, excerpt, harnessFault) from a child's log.
func CrashSignature(log string) (sig, msg, excerpt string, harness bool) {
	lines := strings.Split(log, "\n")
	start := -1
	for i, l := range lines {
		if strings.HasPrefix(l, "panic: ") || strings.HasPrefix(l, "fatal error: ") || strings.HasPrefix(l, "runtime: goroutine stack exceeds") {
			start = i
			break
		}
	}
	if start < 0 {
		return "", "", "", false
	}
	msg = lines[start]
	if strings.HasPrefix(msg, "runtime: goroutine stack exceeds") {
		msg = "fatal error: stack overflow"
	}
	end := start + 60
	if end > len(lines) {
		end = len(lines)
	}
	excerpt = strings.Join(lines[start:end], "\n")
	// first goroutine block after the panic header is the panicking one.
	fn := ""
	first := ""
	seenG := false
	for i := start; i < len(lines); i++ {
		l := strings.TrimSpace(lines[i])
		if strings.HasPrefix(l, "goroutine ") {
			if seenG {
				break
			}
			seenG = true
			continue
		}
		if !seenG {
			continue
		}
		if strings.HasPrefix(l, "panic(") || strings.HasPrefix(l, "runtime.") || strings.HasPrefix(l, "/") || l == "" || strings.HasPrefix(l, "created by") {
			continue
		}
		if k := strings.LastIndex(l, "("); k > 0 && !strings.HasPrefix(l, "goroutine") {
			name := l[:k]
			if strings.ContainsAny(name, " \t") {
				continue
			}
			if first == "" {
				first = name
			}
			if strings.HasPrefix(name, "github.com/q191201771/") {
				fn = name
				break
			}
		}
	}
	cat := msg
	cat = reHex.ReplaceAllString(cat, "X")
	cat = reDigits.ReplaceAllString(cat, "N")
	if len(cat) > 90 {
		cat = cat[:90]
	}
	if fn == "" {
		// no lal frame in the panicking goroutine
		if strings.Contains(msg, "stack overflow") {
			// stack overflow dumps are truncated; find any lal frame
			for i := start; i < len(lines); i++ {
				if m := reLalFrame.FindStringSubmatch(strings.TrimSpace(lines[i])); m != nil {
					fn = m[1]
					break
				}
			}
		}
	}
	if fn == "" {
		return "crash:?:" + cat, msg, excerpt, true
	}
	if strings.HasPrefix(first, "lalverif/") {
		// innermost non-runtime frame is harness code: a harness bug, unless lal frames are
		// deeper (callbacks from lal into the harness) — still harness.
		return "crash:" + shortFn(first) + ":" + cat, msg, excerpt, true
	}
	return "crash:" + shortFn(fn) + ":" + cat, msg, excerpt, false
}

func shortFn(fn string) string {
	fn = strings.TrimPrefix(fn, "github.com/q191201771/")
	return fn
}

type DriveOpts struct {
	Prop    string
	Tier    string
	Seed    int64
	Scratch string
	Replay  string
	Exe     string
	Par     int
}

type replayFile struct {
	Property string          `json:"property"`
	Tier     string          `json:"tier"`
	Seed     int64           `json:"seed"`
	Index    int             `json:"index"`
	Found    *foundViolation `json:"found,omitempty"`
}

func readRecords(path string) (recs []record) {
	f, err := os.Open(path)
	if err != nil {
		return nil
	}
	defer f.Close()
	sc := bufio.NewScanner(f)
	sc.Buffer(make([]byte, 1<<20), 64<<20)
	for sc.Scan() {
		var r record
		if json.Unmarshal(sc.Bytes(), &r) == nil {
			recs = append(recs, r)
		}
	}
	return
}

// PostLog lets a property inspect each child's log (race reports etc.).
var PostLog = map[string]func(log string, add func(v Violation, count func(string, int))){}

func Drive(o DriveOpts) int {
	p := Get(o.Prop)
	if p == nil {
		fmt.Fprintf(os.Stderr, "unknown property %s (have %v)\n", o.Prop, IDs())
		return 2
	}
	t0 := time.Now()
	only := -1
	if o.Replay != "" {
		b, err := os.ReadFile(o.Replay)
		if err != nil {
			fmt.Fprintln(os.Stderr, "replay:", err)
			return 2
		}
		var rf replayFile
		if err := json.Unmarshal(b, &rf); err != nil || rf.Property != p.ID {
			fmt.Fprintln(os.Stderr, "replay: bad file", err)
			return 2
		}
		o.Tier, o.Seed, only = rf.Tier, rf.Seed, rf.Index
	}
	n := p.NumCases(o.Tier, o.Seed)
	nb := 16
	if p.Batches != nil {
		nb = p.Batches(o.Tier)
	}
	if nb > n {
		nb = n
	}
	if only >= 0 {
		nb = 1
	}
	par := o.Par
	if par <= 0 {
		par = 16
	}
	a := &agg{cells: map[string]int{}, cnt: map[string]int{}}
	sem := make(chan struct{}, par)
	var wg sync.WaitGroup
	caseTO := 120 * time.Second
	if p.CaseTimeout != nil {
		caseTO = p.CaseTimeout(o.Tier)
	}
	for b := 0; b < nb; b++ {
		wg.Add(1)
		go func(b int) {
			defer wg.Done()
			sem <- struct{}{}
			defer func() { <-sem }()
			first := b
			stride := nb
			if only >= 0 {
				first, stride = only, 1
			}
			sub := 0
			for attempt := 0; attempt < 400 && first < n; attempt++ {
				out := filepath.Join(o.Scratch, fmt.Sprintf("b%d_%d.jsonl", b, attempt))
				logp := filepath.Join(o.Scratch, fmt.Sprintf("b%d_%d.log", b, attempt))
				cs := filepath.Join(o.Scratch, fmt.Sprintf("c%d_%d", b, attempt))
				os.MkdirAll(cs, 0755)
				lf, _ := os.Create(logp)
				args := []string{"child", "-prop", p.ID, "-tier", o.Tier, "-seed", strconv.FormatInt(o.Seed, 10),
					"-first", strconv.Itoa(first), "-stride", strconv.Itoa(stride), "-n", strconv.Itoa(n),
					"-only", strconv.Itoa(only), "-out", out, "-scratch", cs, "-sub", strconv.Itoa(sub)}
				cmd := exec.Command(o.Exe, args...)
				cmd.Stdout = lf
				cmd.Stderr = lf
				cmd.Env = append(os.Environ(), "GOTRACEBACK=all")
				if os.Getenv("GORACE") == "" {
					// race builds: keep going after a report, leave the exit code to the child
					cmd.Env = append(cmd.Env, "GORACE=halt_on_error=0 exitcode=0")
				}
				cmd.SysProcAttr = &syscall.SysProcAttr{Setpgid: true}
				err := cmd.Start()
				if err != nil {
					a.mu.Lock()
					a.harness = append(a.harness, "cannot start child: "+err.Error())
					a.mu.Unlock()
					lf.Close()
					return
				}
				done := make(chan error, 1)
				go func() { done <- cmd.Wait() }()
				// generous whole-child watchdog: cases × caseTO is the theoretical max; the in-child
				// watchdog fires first. This only guards against a wedged child.
				ncases := (n-first)/stride + 1
				lim := time.Duration(ncases)*caseTO + 60*time.Second
				if lim > 6*time.Hour {
					lim = 6 * time.Hour
				}
				var werr error
				wedged := false
				select {
				case werr = <-done:
				case <-time.After(lim):
					syscall.Kill(-cmd.Process.Pid, syscall.SIGQUIT)
					time.Sleep(2 * time.Second)
					syscall.Kill(-cmd.Process.Pid, syscall.SIGKILL)
					werr = <-done
					wedged = true
				}
				lf.Close()
				recs := readRecords(out)
				open := -1
				last := -1
				lastSub := -1
				notes := map[int]string{}
				a.mu.Lock()
				for _, r := range recs {
					switch r.T {
					case "start":
						open = r.I
						lastSub = -1
					case "sub":
						lastSub = r.K
					case "note":
						notes[r.I] = r.Desc
					case "end":
						open = -1
						last = r.I
						a.evals += r.Evals
						a.cases++
						a.caseMs += r.Ms
						for k, v := range r.Cells {
							a.cells[k] += v
						}
						for k, v := range r.Cnt {
							a.cnt[k] += v
						}
						for _, s := range r.Samp {
							if len(a.samples) < 6 {
								a.samples = append(a.samples, s)
							}
						}
						for _, v := range r.Viol {
							a.viol = append(a.viol, foundViolation{Violation: v, Index: r.I, Kind: "oracle"})
						}
						for _, s := range r.Inc {
							a.inc = append(a.inc, fmt.Sprintf("case %d: %s", r.I, s))
						}
					}
				}
				a.mu.Unlock()
				logb, _ := os.ReadFile(logp)
				logs := string(logb)
				if f := PostLog[p.ID]; f != nil {
					f(logs, func(v Violation, _ func(string, int)) {
						a.mu.Lock()
						idx := open
						if idx < 0 {
							idx = last
						}
						a.viol = append(a.viol, foundViolation{Violation: v, Index: idx, Kind: "post"})
						a.mu.Unlock()
					})
				}
				// lal can also end the process on purpose (its logger's Fatal calls os.Exit(1) after writing
				// the line to lal's own log file): collect those lines before the scratch directory goes
				lalFatal := ""
				if werr != nil {
					filepath.Walk(cs, func(p string, fi os.FileInfo, err error) error {
						if err != nil || fi.IsDir() || filepath.Base(p) != "lal.log" || lalFatal != "" {
							return nil
						}
						if b, e := os.ReadFile(p); e == nil {
							for _, l := range strings.Split(string(b), "\n") {
								if strings.Contains(l, "FATAL") || strings.Contains(l, "[F]") {
									lalFatal = l
								}
							}
						}
						return nil
					})
				}
				os.RemoveAll(cs)
				if kp := os.Getenv("VERIF_KEEP_CHILD_LOG"); kp != "" {
					os.WriteFile(fmt.Sprintf("%s.%d", kp, b), logb, 0644)
				}
				if werr == nil && open < 0 {
					os.Remove(logp)
					os.Remove(out)
					break // batch complete
				}
				// child ended abnormally
				code := -1
				if ee, ok := werr.(*exec.ExitError); ok {
					code = ee.ExitCode()
				}
				if open < 0 && code == 4 && last >= 0 {
					// the child asked to be replaced after finishing case `last`
					first, sub = last+stride, 0
					continue
				}
				if open < 0 {
					a.mu.Lock()
					a.harness = append(a.harness, fmt.Sprintf("batch %d: child exit %d outside any case; log tail: %s", b, code, tail(logs, 600)))
					a.mu.Unlock()
					break
				}
				if code == 3 || wedged {
					a.mu.Lock()
					a.timeouts++
					desc := notes[open]
					if p.TimeoutIsViolation {
						sig := "timeout"
						if s := TimeoutSig[p.ID]; s != nil {
							sig = s(logs, desc)
						}
						a.viol = append(a.viol, foundViolation{Violation: Violation{Sig: sig, What: "case did not finish within the watchdog; input: " + desc}, Index: open, Kind: "timeout", Log: tail(logs, 3000)})
					} else {
						a.inc = append(a.inc, fmt.Sprintf("case %d: watchdog expired", open))
					}
					a.mu.Unlock()
				} else {
					sig, msg, excerpt, harness := CrashSignature(logs)
					a.mu.Lock()
					if sig == "" && lalFatal != "" && code == 1 {
						// the process was ended by lal's own fatal-log path
						a.crashes++
						m := reDigits.ReplaceAllString(reHex.ReplaceAllString(lalFatal, "X"), "N")
						if k := strings.Index(m, "FATAL"); k >= 0 {
							m = m[k:]
						}
						if len(m) > 80 {
							m = m[:80]
						}
						a.viol = append(a.viol, foundViolation{Violation: Violation{Sig: "crash:lal-exit:" + strings.TrimSpace(m), What: "lal ended the process itself (os.Exit after a fatal log line): " + lalFatal + " | input: " + notes[open]}, Index: open, Kind: "crash", Log: lalFatal})
					} else if sig == "" {
						a.harness = append(a.harness, fmt.Sprintf("batch %d case %d: child exit %d without panic text; log tail: %s", b, open, code, tail(logs, 600)))
					} else if harness {
						a.harness = append(a.harness, fmt.Sprintf("batch %d case %d: harness-side panic %s\n%s", b, open, sig, excerpt))
					} else {
						a.crashes++
						a.viol = append(a.viol, foundViolation{Violation: Violation{Sig: sig, What: msg + " | input: " + notes[open]}, Index: open, Kind: "crash", Log: excerpt})
					}
					a.mu.Unlock()
				}
				if only >= 0 {
					break
				}
				// resume: inside the same case after the failing sub-input, else after the failing case
				if lastSub >= 0 && lastSub+1 > sub || (lastSub >= 0 && open != first) {
					first, sub = open, lastSub+1
				} else {
					first, sub = open+stride, 0
				}
			}
		}(b)
	}
	wg.Wait()
	return finish(p, o, a, n, time.Since(t0), only)
}

// TimeoutSig lets a property derive a signature for watchdog expiries from the goroutine dump.
var TimeoutSig = map[string]func(log, desc string) string{}

func tail(s string, n int) string {
	if len(s) > n {
		return "…" + s[len(s)-n:]
	}
	return s
}

func finish(p *Prop, o DriveOpts, a *agg, n int, wall time.Duration, only int) int {
	known := loadKnown(p.ID)
	knownHit := map[string]int{}
	newBySig := map[string][]foundViolation{}
	var sigOrder []string
	for _, v := range a.viol {
		if _, ok := known[v.Sig]; ok {
			knownHit[v.Sig]++
			continue
		}
		if _, ok := newBySig[v.Sig]; !ok {
			sigOrder = append(sigOrder, v.Sig)
		}
		newBySig[v.Sig] = append(newBySig[v.Sig], v)
	}
	sort.Strings(sigOrder)
	var ksigs []string
	for s := range knownHit {
		ksigs = append(ksigs, s)
	}
	sort.Strings(ksigs)
	for _, s := range ksigs {
		fmt.Printf("KNOWN-FINDING: property=%s %s — %s (hit %d×)\n", p.ID, s, known[s].What, knownHit[s])
	}
	nviol := 0
	rdir := filepath.Join(VerifRoot, "replays", p.ID)
	for _, s := range sigOrder {
		vs := newBySig[s]
		nviol += len(vs)
		v := vs[0]
		os.MkdirAll(rdir, 0755)
		name := fmt.Sprintf("%s-%d-%d-%s.json", o.Tier, o.Seed, v.Index, sanitize(s))
		path := filepath.Join(rdir, name)
		b, _ := json.MarshalIndent(replayFile{Property: p.ID, Tier: o.Tier, Seed: o.Seed, Index: v.Index, Found: &v}, "", " ")
		os.WriteFile(path, b, 0644)
		fmt.Printf("VIOLATION property=%s replay=%s\n", p.ID, path)
		fmt.Printf("  sig=%s kind=%s count=%d\n  %s\n", s, v.Kind, len(vs), oneLine(v.What, 600))
	}
	for _, h := range a.harness {
		fmt.Printf("HARNESS-FAULT property=%s %s\n", p.ID, oneLine(h, 1500))
	}
	incN := len(a.inc)
	for i, s := range a.inc {
		if i < 10 {
			fmt.Printf("INCONCLUSIVE property=%s reason=%s\n", p.ID, oneLine(s, 300))
		}
	}
	var cellNames []string
	for k := range a.cells {
		cellNames = append(cellNames, k)
	}
	sort.Strings(cellNames)
	fmt.Printf("%s %s seed=%d: cases=%d/%d evaluations=%d cells=%d violations=%d known=%d inconclusive=%d crashes=%d timeouts=%d wall=%.1fs\n",
		p.ID, o.Tier, o.Seed, a.cases, n, a.evals, len(a.cells), nviol, len(knownHit), incN, a.crashes, a.timeouts, wall.Seconds())
	if only >= 0 {
		if nviol > 0 || len(knownHit) > 0 {
			return 1
		}
		return 0
	}
	// evidence
	level := p.Level
	if level == "" {
		level = "exploration"
	}
	cellsOut := map[string]int{}
	for i, k := range cellNames {
		if i < 400 {
			cellsOut[k] = a.cells[k]
		}
	}
	cov := map[string]interface{}{
		"evaluations":         a.evals,
		"distinct_nontrivial": len(a.cells),
		"rule":                p.Rule,
		"samples":             a.samples,
		"cases_run":           a.cases,
		"cases_planned":       n,
		"cells":               cellsOut,
		"counters":            a.cnt,
		"inconclusive":        incN,
		"known_findings_hit":  knownHit,
		"crashes_observed":    a.crashes,
		"watchdog_expiries":   a.timeouts,
	}
	if p.Exhaustive != nil && p.Exhaustive(o.Tier) {
		cov["exhaustive"] = true
	}
	if len(a.samples) == 0 {
		cov["samples"] = []interface{}{"(no sample recorded)"}
	}
	ev := map[string]interface{}{
		"property_id": p.ID,
		"tier":        o.Tier,
		"seed":        o.Seed,
		"level":       level,
		"coverage":    cov,
		"assumptions": p.Assumptions,
		"wall_s":      float64(int(wall.Seconds()*10)) / 10,
		"violations":  nviol,
	}
	os.MkdirAll(filepath.Join(VerifRoot, "evidence"), 0755)
	b, _ := json.MarshalIndent(ev, "", " ")
	os.WriteFile(filepath.Join(VerifRoot, "evidence", p.ID+".json"), append(b, '\n'), 0644)
	if nviol > 0 {
		return 1
	}
	if len(a.harness) > 0 {
		return 2
	}
	min := p.MinCells
	if min < 2 {
		min = 2
	}
	if len(a.cells) < min || a.evals == 0 {
		fmt.Printf("OBSERVED-NOTHING property=%s cells=%d evaluations=%d (need ≥%d cells)\n", p.ID, len(a.cells), a.evals, min)
		return 2
	}
	if a.cases < n-incN-a.timeouts {
		fmt.Printf("INCOMPLETE property=%s cases=%d/%d\n", p.ID, a.cases, n)
		return 2
	}
	return 0
}

func sanitize(s string) string {
	var b strings.Builder
	for _, r := range s {
		if (r >= 'a' && r <= 'z') || (r >= 'A' && r <= 'Z') || (r >= '0' && r <= '9') || r == '-' || r == '_' || r == '.' {
			b.WriteRune(r)
		} else {
			b.WriteByte('_')
		}
		if b.Len() > 80 {
			break
		}
	}
	return b.String()
}

func oneLine(s string, n int) string {
	s = strings.ReplaceAll(s, "\n", " ⏎ ")
	if len(s) > n {
		s = s[:n] + "…"
	}
	return s
}
