package ref

// MPEG-2 Program Stream (ISO/IEC 13818-1 §2.5) muxer as used by GB28181 (PS over RTP).

func psTs33(prefix byte, v uint64) []byte {
	return []byte{prefix<<4 | byte(v>>30&7)<<1 | 1, byte(v >> 22), byte(v>>15&0x7f)<<1 | 1, byte(v >> 7), byte(v&0x7f)<<1 | 1}
}

// PsPackHeader builds a 14-byte pack header with the given SCR (90 kHz).
func PsPackHeader(scr uint64) []byte {
	b := []byte{0, 0, 1, 0xBA, 0, 0, 0, 0, 0, 0, 0, 0, 0, 0}
	b[4] = 0x40 | byte(scr>>30&7)<<3 | 0x04 | byte(scr>>28&3)
	b[5] = byte(scr >> 20)
	b[6] = byte(scr>>15&0x1f)<<3 | 0x04 | byte(scr>>13&3)
	b[7] = byte(scr >> 5)
	b[8] = byte(scr&0x1f)<<3 | 0x04
	b[9] = 0x01
	// mux rate 22 bits + 2 markers
	rate := uint32(50000)
	b[10] = byte(rate >> 14)
	b[11] = byte(rate >> 6)
	b[12] = byte(rate<<2) | 3
	b[13] = 0xF8 // reserved + stuffing length 0
	return b
}

func PsSystemHeader(video, audio bool) []byte {
	body := []byte{0x80 | 0x00, 0xC3, 0x51, 0x04 | 0x01<<0, 0xE1, 0x7F}
	if audio {
		body = append(body, 0xC0, 0xC0, 0x20)
	}
	if video {
		body = append(body, 0xE0, 0xE0, 0x80)
	}
	return append([]byte{0, 0, 1, 0xBB, byte(len(body) >> 8), byte(len(body))}, body...)
}

// PsMap builds a program stream map declaring the elementary streams.
func PsMap(videoType, audioType uint8) []byte {
	var es []byte
	if videoType != 0 {
		es = append(es, videoType, 0xE0, 0, 0)
	}
	if audioType != 0 {
		es = append(es, audioType, 0xC0, 0, 0)
	}
	body := []byte{0xE0, 0xFF, 0, 0, byte(len(es) >> 8), byte(len(es))}
	body = append(body, es...)
	body = append(body, 0, 0, 0, 0) // CRC (not checked by receivers in practice)
	hdr := []byte{0, 0, 1, 0xBC, byte(len(body) >> 8), byte(len(body))}
	crc := Crc32Mpeg2(append(append([]byte(nil), hdr...), body[:len(body)-4]...))
	body[len(body)-4], body[len(body)-3], body[len(body)-2], body[len(body)-1] = byte(crc>>24), byte(crc>>16), byte(crc>>8), byte(crc)
	return append(hdr, body...)
}

// PsPes builds PES packets for one access unit; the payload is split so that PES_packet_length
// fits 16 bits (maxPayload ≤ 65535−13). Only the first PES carries PTS/DTS.
func PsPes(streamID byte, pts, dts uint64, withDts bool, data []byte, maxPayload int) []byte {
	return PsPesStuffed(streamID, pts, dts, withDts, data, maxPayload, 0)
}

// PsPesStuffed is PsPes with `stuff` stuffing bytes (0xFF) at the end of every PES header: PES_header_data_length
// counts them on top of the PTS/DTS fields (ISO 13818-1 2.4.3.7 allows up to 32); the payload starts after them.
func PsPesStuffed(streamID byte, pts, dts uint64, withDts bool, data []byte, maxPayload int, stuff int) []byte {
	var out []byte
	first := true
	for first || len(data) > 0 {
		n := len(data)
		if n > maxPayload {
			n = maxPayload
		}
		var hdr []byte
		if first {
			if withDts {
				hdr = append([]byte{0x80, 0xC0, byte(10 + stuff)}, append(psTs33(3, pts), psTs33(1, dts)...)...)
			} else {
				hdr = append([]byte{0x80, 0x80, byte(5 + stuff)}, psTs33(2, pts)...)
			}
		} else {
			hdr = []byte{0x80, 0x00, byte(stuff)}
		}
		for k := 0; k < stuff; k++ {
			hdr = append(hdr, 0xFF)
		}
		l := len(hdr) + n
		out = append(out, 0, 0, 1, streamID, byte(l>>8), byte(l))
		out = append(out, hdr...)
		out = append(out, data[:n]...)
		data = data[n:]
		first = false
	}
	return out
}
