package ref

import (
	"encoding/binary"
	"errors"
	"fmt"
	"math"
)

// AMF0 (Adobe AMF0 file format specification, Dec 2007) reference encoder / decoder.

type AmfKind int

const (
	AmfNumber AmfKind = iota
	AmfBoolean
	AmfString // short or long on the wire, chosen by length
	AmfObject
	AmfNull
	AmfUndefined
	AmfEcmaArray
	AmfStrictArray
	AmfDate
	AmfUnsupported
)

type AmfPair struct {
	Key string
	Val AmfValue
}

type AmfValue struct {
	Kind  AmfKind
	Num   float64
	Bool  bool
	Str   string
	Pairs []AmfPair  // object / ecma array
	Items []AmfValue // strict array
	// ForceLong: encode a string in the long form even when short would do.
	ForceLong bool
}

func AmfNum(f float64) AmfValue  { return AmfValue{Kind: AmfNumber, Num: f} }
func AmfStr(s string) AmfValue   { return AmfValue{Kind: AmfString, Str: s} }
func AmfBool(b bool) AmfValue    { return AmfValue{Kind: AmfBoolean, Bool: b} }
func AmfNul() AmfValue           { return AmfValue{Kind: AmfNull} }
func AmfObj(p ...AmfPair) AmfValue { return AmfValue{Kind: AmfObject, Pairs: p} }

func (v AmfValue) Get(key string) (AmfValue, bool) {
	for _, p := range v.Pairs {
		if p.Key == key {
			return p.Val, true
		}
	}
	return AmfValue{}, false
}

// Equal compares structurally; numbers by bit pattern (NaN payloads preserved).
func (v AmfValue) Equal(o AmfValue) bool {
	if v.Kind != o.Kind {
		return false
	}
	switch v.Kind {
	case AmfNumber, AmfDate:
		return math.Float64bits(v.Num) == math.Float64bits(o.Num)
	case AmfBoolean:
		return v.Bool == o.Bool
	case AmfString:
		return v.Str == o.Str
	case AmfObject, AmfEcmaArray:
		if len(v.Pairs) != len(o.Pairs) {
			return false
		}
		for i := range v.Pairs {
			if v.Pairs[i].Key != o.Pairs[i].Key || !v.Pairs[i].Val.Equal(o.Pairs[i].Val) {
				return false
			}
		}
	case AmfStrictArray:
		if len(v.Items) != len(o.Items) {
			return false
		}
		for i := range v.Items {
			if !v.Items[i].Equal(o.Items[i]) {
				return false
			}
		}
	}
	return true
}

func AmfEncode(dst []byte, v AmfValue) []byte {
	switch v.Kind {
	case AmfNumber:
		dst = append(dst, 0)
		var b [8]byte
		binary.BigEndian.PutUint64(b[:], math.Float64bits(v.Num))
		dst = append(dst, b[:]...)
	case AmfBoolean:
		x := byte(0)
		if v.Bool {
			x = 1
		}
		dst = append(dst, 1, x)
	case AmfString:
		if len(v.Str) > 0xFFFF || v.ForceLong {
			dst = append(dst, 0x0C, byte(len(v.Str)>>24), byte(len(v.Str)>>16), byte(len(v.Str)>>8), byte(len(v.Str)))
		} else {
			dst = append(dst, 2, byte(len(v.Str)>>8), byte(len(v.Str)))
		}
		dst = append(dst, v.Str...)
	case AmfObject, AmfEcmaArray:
		if v.Kind == AmfObject {
			dst = append(dst, 3)
		} else {
			n := len(v.Pairs)
			dst = append(dst, 8, byte(n>>24), byte(n>>16), byte(n>>8), byte(n))
		}
		for _, p := range v.Pairs {
			dst = append(dst, byte(len(p.Key)>>8), byte(len(p.Key)))
			dst = append(dst, p.Key...)
			dst = AmfEncode(dst, p.Val)
		}
		dst = append(dst, 0, 0, 9)
	case AmfNull:
		dst = append(dst, 5)
	case AmfUndefined:
		dst = append(dst, 6)
	case AmfUnsupported:
		dst = append(dst, 0x0D)
	case AmfStrictArray:
		n := len(v.Items)
		dst = append(dst, 0x0A, byte(n>>24), byte(n>>16), byte(n>>8), byte(n))
		for _, it := range v.Items {
			dst = AmfEncode(dst, it)
		}
	case AmfDate:
		dst = append(dst, 0x0B)
		var b [10]byte
		binary.BigEndian.PutUint64(b[:], math.Float64bits(v.Num))
		dst = append(dst, b[:]...)
	}
	return dst
}

var ErrAmfShort = errors.New("amf0: short buffer")

// AmfDecode decodes one value and returns the number of bytes consumed.
func AmfDecode(b []byte) (AmfValue, int, error) { return amfDecode(b, 0) }

func amfDecode(b []byte, depth int) (v AmfValue, n int, err error) {
	if depth > 512 {
		return v, 0, errors.New("amf0: nesting too deep")
	}
	if len(b) < 1 {
		return v, 0, ErrAmfShort
	}
	switch b[0] {
	case 0:
		if len(b) < 9 {
			return v, 0, ErrAmfShort
		}
		return AmfValue{Kind: AmfNumber, Num: math.Float64frombits(binary.BigEndian.Uint64(b[1:]))}, 9, nil
	case 1:
		if len(b) < 2 {
			return v, 0, ErrAmfShort
		}
		return AmfValue{Kind: AmfBoolean, Bool: b[1] != 0}, 2, nil
	case 2:
		if len(b) < 3 {
			return v, 0, ErrAmfShort
		}
		l := int(b[1])<<8 | int(b[2])
		if len(b) < 3+l {
			return v, 0, ErrAmfShort
		}
		return AmfValue{Kind: AmfString, Str: string(b[3 : 3+l])}, 3 + l, nil
	case 0x0C:
		if len(b) < 5 {
			return v, 0, ErrAmfShort
		}
		l := int(binary.BigEndian.Uint32(b[1:]))
		if l < 0 || len(b)-5 < l {
			return v, 0, ErrAmfShort
		}
		return AmfValue{Kind: AmfString, Str: string(b[5 : 5+l])}, 5 + l, nil
	case 3, 8:
		v.Kind = AmfObject
		n = 1
		if b[0] == 8 {
			v.Kind = AmfEcmaArray
			if len(b) < 5 {
				return v, 0, ErrAmfShort
			}
			n = 5
		}
		for {
			if len(b) < n+3 {
				return v, 0, ErrAmfShort
			}
			kl := int(b[n])<<8 | int(b[n+1])
			if kl == 0 && b[n+2] == 9 {
				return v, n + 3, nil
			}
			if len(b) < n+2+kl {
				return v, 0, ErrAmfShort
			}
			key := string(b[n+2 : n+2+kl])
			n += 2 + kl
			val, m, e := amfDecode(b[n:], depth+1)
			if e != nil {
				return v, 0, e
			}
			n += m
			v.Pairs = append(v.Pairs, AmfPair{key, val})
		}
	case 5:
		return AmfValue{Kind: AmfNull}, 1, nil
	case 6:
		return AmfValue{Kind: AmfUndefined}, 1, nil
	case 0x0D:
		return AmfValue{Kind: AmfUnsupported}, 1, nil
	case 0x0A:
		if len(b) < 5 {
			return v, 0, ErrAmfShort
		}
		cnt := binary.BigEndian.Uint32(b[1:])
		v.Kind = AmfStrictArray
		n = 5
		for i := uint32(0); i < cnt; i++ {
			val, m, e := amfDecode(b[n:], depth+1)
			if e != nil {
				return v, 0, e
			}
			n += m
			v.Items = append(v.Items, val)
		}
		return v, n, nil
	case 0x0B:
		if len(b) < 11 {
			return v, 0, ErrAmfShort
		}
		return AmfValue{Kind: AmfDate, Num: math.Float64frombits(binary.BigEndian.Uint64(b[1:]))}, 11, nil
	}
	return v, 0, fmt.Errorf("amf0: unknown marker %#x", b[0])
}

// AmfDecodeAll decodes a sequence of values filling the whole buffer.
func AmfDecodeAll(b []byte) (vs []AmfValue, err error) {
	for len(b) > 0 {
		v, n, e := AmfDecode(b)
		if e != nil {
			return vs, e
		}
		vs = append(vs, v)
		b = b[n:]
	}
	return vs, nil
}

func AmfEncodeAll(vs ...AmfValue) []byte {
	var b []byte
	for _, v := range vs {
		b = AmfEncode(b, v)
	}
	return b
}
