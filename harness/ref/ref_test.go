package ref

// Self-tests of the reference codecs (run by setup.sh). Two kinds: vectors checked by hand against
// the specifications (a reference bug would otherwise show as an alarm on the unchanged tree, or
// worse as a quiet oracle), and encode→decode identity of each codec on its own output.

import (
	"bytes"
	"encoding/hex"
	"math/rand"
	"reflect"
	"testing"
)

func unhex(t *testing.T, s string) []byte {
	t.Helper()
	b, err := hex.DecodeString(s)
	if err != nil {
		t.Fatal(err)
	}
	return b
}

func TestCrc32Mpeg2Vector(t *testing.T) {
	// CRC-32/MPEG-2 check value of the catalogue of parametrised CRC algorithms.
	if got := Crc32Mpeg2([]byte("123456789")); got != 0x0376E6E7 {
		t.Fatalf("crc %08x", got)
	}
	// a section followed by its own CRC sums to zero (ISO 13818-1 annex A)
	sec := []byte{0x00, 0xb0, 0x0d, 0x00, 0x01, 0xc1, 0x00, 0x00, 0x00, 0x01, 0xf0, 0x01}
	c := Crc32Mpeg2(sec)
	sec = append(sec, byte(c>>24), byte(c>>16), byte(c>>8), byte(c))
	if Crc32Mpeg2(sec) != 0 {
		t.Fatal("crc over section+crc is not zero")
	}
}

func TestWsVectors(t *testing.T) {
	// RFC 6455 section 1.3
	if got := WsAccept("dGhlIHNhbXBsZSBub25jZQ=="); got != "s3pPLMBiTxaQ9kYGzzhZRbK+xOo=" {
		t.Fatalf("accept %q", got)
	}
	// RFC 6455 section 5.7: single-frame unmasked text "Hello"
	if got := WsEncode(1, true, []byte("Hello"), nil); !bytes.Equal(got, unhex(t, "810548656c6c6f")) {
		t.Fatalf("encode %x", got)
	}
	// … and the masked one
	f, err := ParseWsHeader(unhex(t, "818537fa213d7f9f4d5158"))
	if err != nil || !f.Masked || f.PayloadLen != 5 || f.HeaderLen != 6 || f.Opcode != 1 || !f.Fin {
		t.Fatalf("masked header %+v %v", f, err)
	}
	// 256 bytes binary: 82 7E 01 00; 64 KiB: 82 7F 00 00 00 00 00 01 00 00
	if got := WsEncode(2, true, make([]byte, 256), nil); !bytes.Equal(got[:4], unhex(t, "827e0100")) || len(got) != 260 {
		t.Fatalf("256: %x", got[:4])
	}
	if got := WsEncode(2, true, make([]byte, 65536), nil); !bytes.Equal(got[:10], unhex(t, "827f0000000000010000")) || len(got) != 65546 {
		t.Fatalf("65536: %x", got[:10])
	}
	for _, n := range []int{0, 1, 125, 126, 127, 65535, 65536, 70000} {
		pl := make([]byte, n)
		rand.New(rand.NewSource(int64(n))).Read(pl)
		for _, mask := range []*[4]byte{nil, {1, 2, 3, 4}} {
			var p WsParser
			enc := WsEncode(2, true, pl, mask)
			// feed in two pieces
			p.Feed(enc[:len(enc)/2])
			p.Feed(enc[len(enc)/2:])
			if p.Err != nil || len(p.Frames) != 1 || p.Pending() != 0 {
				t.Fatalf("n=%d: %v frames=%d pending=%d", n, p.Err, len(p.Frames), p.Pending())
			}
			fr := p.Frames[0]
			want := map[bool]int{true: 7, false: 16}[n < 126]
			if n > 65535 {
				want = 64
			}
			if fr.LenForm != want || int(fr.PayloadLen) != n {
				t.Fatalf("n=%d lenform %d len %d", n, fr.LenForm, fr.PayloadLen)
			}
			if fr.Masked != (mask != nil) {
				t.Fatalf("n=%d mask flag", n)
			}
			if !bytes.Equal(fr.Payload, pl) { // the parser hands out unmasked payloads
				t.Fatalf("n=%d payload differs", n)
			}
		}
	}
	// non-minimal length forms must be refused by the strict parser
	var p WsParser
	p.Feed(unhex(t, "827e0005"+"0102030405"))
	if p.Err == nil {
		t.Fatal("16-bit form for a length < 126 accepted")
	}
}

func TestAmf0Vectors(t *testing.T) {
	// AMF0 spec 2.2 number, 2.4 string, 2.3 boolean, 2.7 null, 2.5 object
	cases := []struct {
		v   AmfValue
		hex string
	}{
		{AmfNum(1), "003ff0000000000000"},
		{AmfNum(0), "000000000000000000"},
		{AmfBool(true), "0101"},
		{AmfStr("a"), "02000161"},
		{AmfStr(""), "020000"},
		{AmfNul(), "05"},
		{AmfObj(AmfPair{"a", AmfNum(1)}), "03" + "000161" + "003ff0000000000000" + "000009"},
		{AmfValue{Kind: AmfStrictArray, Items: []AmfValue{AmfBool(false)}}, "0a00000001" + "0100"},
		{AmfValue{Kind: AmfEcmaArray, Pairs: []AmfPair{{"k", AmfNul()}}}, "0800000001" + "00016b" + "05" + "000009"},
		{AmfValue{Kind: AmfString, Str: "ab", ForceLong: true}, "0c000000026162"},
	}
	for _, c := range cases {
		got := AmfEncode(nil, c.v)
		if !bytes.Equal(got, unhex(t, c.hex)) {
			t.Fatalf("encode %+v: %x want %s", c.v, got, c.hex)
		}
		v, n, err := AmfDecode(got)
		if err != nil || n != len(got) || !v.Equal(c.v) {
			t.Fatalf("decode %s: %+v n=%d err=%v", c.hex, v, n, err)
		}
	}
	// the classic connect command prefix
	b := AmfEncodeAll(AmfStr("connect"), AmfNum(1), AmfObj(AmfPair{"app", AmfStr("live")}))
	want := "020007636f6e6e656374" + "003ff0000000000000" + "03" + "0003617070" + "0200046c697665" + "000009"
	if !bytes.Equal(b, unhex(t, want)) {
		t.Fatalf("connect: %x", b)
	}
	vs, err := AmfDecodeAll(b)
	if err != nil || len(vs) != 3 || vs[0].Str != "connect" {
		t.Fatalf("decode all: %v %v", vs, err)
	}
	// a 70 000-byte string must use the long form and round-trip
	long := string(bytes.Repeat([]byte{'x'}, 70000))
	e := AmfEncode(nil, AmfStr(long))
	if e[0] != 0x0c || len(e) != 5+70000 {
		t.Fatalf("long string marker %x len %d", e[0], len(e))
	}
	v, _, err := AmfDecode(e)
	if err != nil || v.Str != long {
		t.Fatal("long string round trip")
	}
	// truncated input is an error at every cut
	for i := 1; i < len(b); i++ {
		if _, err := AmfDecodeAll(b[:i]); err == nil && i != 10 && i != 19 {
			// cuts at value boundaries (after "connect", after the number) decode to fewer values
			t.Fatalf("cut at %d decoded without error", i)
		}
	}
	// deep nesting ends in an error, not in a crash
	deep := bytes.Repeat(append([]byte{0x03}, 0x00, 0x01, 'a'), 200000)
	if _, _, err := AmfDecode(deep); err == nil {
		t.Fatal("200000 nested objects decoded")
	}
}

func TestChunkVectorsAndIdentity(t *testing.T) {
	// hand vector: csid 3, fmt 0, ts 0, len 4, type 20, msid 0 → 03 000000 000004 14 00000000 + payload
	w := NewChunkWriter(128)
	got := w.EncodeSimple(RtmpMsg{Csid: 3, TypeID: 20, StreamID: 0, Ts: 0, Payload: []byte{1, 2, 3, 4}})
	if !bytes.Equal(got, unhex(t, "03"+"000000"+"000004"+"14"+"00000000"+"01020304")) {
		t.Fatalf("fmt0: %x", got)
	}
	// msid is little endian; csid 64 uses the 2-byte form (00, csid-64); csid 320 the 3-byte form (01, lo, hi)
	got = w.EncodeSimple(RtmpMsg{Csid: 64, TypeID: 9, StreamID: 1, Ts: 1, Payload: []byte{9}})
	if !bytes.Equal(got, unhex(t, "0000"+"000001"+"000001"+"09"+"01000000"+"09")) {
		t.Fatalf("csid64: %x", got)
	}
	got = w.EncodeSimple(RtmpMsg{Csid: 320, TypeID: 9, StreamID: 1, Ts: 1, Payload: []byte{9}})
	if !bytes.Equal(got, unhex(t, "010001"+"000001"+"000001"+"09"+"01000000"+"09")) {
		t.Fatalf("csid320: %x", got)
	}
	// extended timestamp: field is 0xFFFFFF and 4 bytes follow, also on the type-3 continuation chunks
	w = NewChunkWriter(2)
	got = w.EncodeSimple(RtmpMsg{Csid: 4, TypeID: 8, StreamID: 1, Ts: 0x01000000, Payload: []byte{1, 2, 3}})
	if !bytes.Equal(got, unhex(t, "04"+"ffffff"+"000003"+"08"+"01000000"+"01000000"+"0102"+"c4"+"01000000"+"03")) {
		t.Fatalf("ext: %x", got)
	}
	// exactly 0xFFFFFF needs the extended field too (spec 5.3.1.3)
	got = w.EncodeSimple(RtmpMsg{Csid: 4, TypeID: 8, StreamID: 1, Ts: 0xFFFFFF, Payload: []byte{1}})
	if !bytes.Equal(got, unhex(t, "04"+"ffffff"+"000001"+"08"+"01000000"+"00ffffff"+"01")) {
		t.Fatalf("ext at 0xFFFFFF: %x", got)
	}

	// identity writer → reader over every legal format, interleaved chunk streams, chunk-size changes
	rng := rand.New(rand.NewSource(7))
	for round := 0; round < 200; round++ {
		cs := []int{1, 2, 127, 128, 129, 4096, 65536}[rng.Intn(7)]
		w := NewChunkWriter(cs)
		r := NewChunkReader()
		r.ChunkSize = cs
		var wire bytes.Buffer
		var sent []RtmpMsg
		ts := map[int]uint32{}
		for i := 0; i < 30; i++ {
			csid := []int{2, 3, 63, 64, 319, 320, 65599}[rng.Intn(7)]
			t0 := ts[csid]
			switch rng.Intn(6) {
			case 0:
				t0 = []uint32{0, 0xFFFFFE, 0xFFFFFF, 0x1000000, 0x7FFFFFFF, 0xFFFFFFFF}[rng.Intn(6)]
			case 1:
			default:
				t0 += uint32(rng.Intn(50))
			}
			ts[csid] = t0
			n := []int{0, 1, cs - 1, cs, cs + 1, 2 * cs, 3*cs + 1, rng.Intn(1000)}[rng.Intn(8)]
			if n < 0 {
				n = 0
			}
			if n > 100000 {
				n = 100000
			}
			pl := make([]byte, n)
			rng.Read(pl)
			m := RtmpMsg{Csid: csid, TypeID: []uint8{8, 9, 18, 20}[rng.Intn(4)], StreamID: uint32(rng.Intn(2)), Ts: t0, Payload: pl}
			fs := w.LegalFormats(m)
			for _, c := range w.Encode(m, fs[rng.Intn(len(fs))]) {
				wire.Write(c)
			}
			sent = append(sent, m)
		}
		for i, m := range sent {
			g, err := r.ReadMsg(&wire)
			if err != nil {
				t.Fatalf("round %d msg %d: %v", round, i, err)
			}
			if g.Csid != m.Csid || g.TypeID != m.TypeID || g.StreamID != m.StreamID || g.Ts != m.Ts || !bytes.Equal(g.Payload, m.Payload) {
				t.Fatalf("round %d msg %d: got %v want %v", round, i, g, m)
			}
		}
		if wire.Len() != 0 {
			t.Fatalf("round %d: %d bytes left", round, wire.Len())
		}
	}
	// aggregate build → split
	subs := []RtmpMsg{{TypeID: 8, StreamID: 1, Ts: 100, Payload: []byte{1}}, {TypeID: 9, StreamID: 1, Ts: 140, Payload: []byte{2, 3}}}
	out, err := SplitAggregate(RtmpMsg{Csid: 4, TypeID: 22, StreamID: 1, Ts: 100, Payload: BuildAggregate(subs)})
	if err != nil || len(out) != 2 || out[1].Ts != 140 || !bytes.Equal(out[1].Payload, []byte{2, 3}) || out[0].TypeID != 8 {
		t.Fatalf("aggregate: %v %v", out, err)
	}
}

func TestRtpVectorsAndIdentity(t *testing.T) {
	// RFC 3550 5.1: V=2, M=1, PT=96, seq 0x1234, ts 0x01020304, ssrc 0xA0B0C0D0
	raw := unhex(t, "80e01234"+"01020304"+"a0b0c0d0"+"aabb")
	p, err := ParseRtp(raw)
	if err != nil || !p.Marker || p.PT != 96 || p.Seq != 0x1234 || p.Ts != 0x01020304 || p.Ssrc != 0xA0B0C0D0 || !bytes.Equal(p.Payload, []byte{0xaa, 0xbb}) {
		t.Fatalf("%+v %v", p, err)
	}
	if !bytes.Equal(BuildRtp(p), raw) {
		t.Fatalf("build %x", BuildRtp(p))
	}
	// padding (P bit, last byte = count) and a header extension of one word
	raw = unhex(t, "b0600001"+"00000002"+"00000003"+"bede0001"+"11223344"+"aa"+"000003")
	p, err = ParseRtp(raw)
	if err != nil || p.Padding != 3 || !p.HasExt || p.ExtProf != 0xbede || !bytes.Equal(p.Ext, unhex(t, "11223344")) || !bytes.Equal(p.Payload, []byte{0xaa}) {
		t.Fatalf("%+v %v", p, err)
	}
	if !bytes.Equal(BuildRtp(p), raw) {
		t.Fatalf("build ext/pad %x", BuildRtp(p))
	}
	// RFC 6184 hand vectors: FU-A of NAL 65 aa bb cc at max 3 → indicator 7c, headers 85 / 05 / 45
	pls := H264Packetize([][]byte{unhex(t, "65aabbcc")}, 3, false)
	if len(pls) != 3 || !bytes.Equal(pls[0], unhex(t, "7c85aa")) || !bytes.Equal(pls[1], unhex(t, "7c05bb")) || !bytes.Equal(pls[2], unhex(t, "7c45cc")) {
		t.Fatalf("fu-a %x", pls)
	}
	// STAP-A of 67 01 and 68 02: type 24 with the largest NRI of the aggregated units (RFC 6184 5.7.1)
	pls = H264Packetize([][]byte{unhex(t, "6701"), unhex(t, "6802")}, 1400, true)
	if len(pls) != 1 || !bytes.Equal(pls[0], unhex(t, "78"+"00026701"+"00026802")) {
		t.Fatalf("stap-a %x", pls)
	}
	// RFC 7798: FU of NAL 26 01 aa bb cc (type 19) at max 4 → payload hdr 62 01, FU headers 93 / 13 / 53
	pls = H265Packetize([][]byte{unhex(t, "2601aabbcc")}, 4, false)
	if len(pls) != 3 || !bytes.Equal(pls[0], unhex(t, "620193aa")) || !bytes.Equal(pls[1], unhex(t, "620113bb")) || !bytes.Equal(pls[2], unhex(t, "620153cc")) {
		t.Fatalf("h265 fu %x", pls)
	}
	// RFC 3640 AAC-hbr: AU-headers-length 16 bits, one header = size<<3
	pls = AacPacketize([][]byte{unhex(t, "010203")}, 1400)
	if len(pls) != 1 || !bytes.Equal(pls[0], unhex(t, "0010"+"0018"+"010203")) {
		t.Fatalf("aac %x", pls)
	}

	rng := rand.New(rand.NewSource(3))
	for round := 0; round < 300; round++ {
		max := []int{4, 5, 100, 1200, 1400}[rng.Intn(5)] // an H.265 FU needs 3 header bytes + 1
		var nals [][]byte
		for i := 0; i < 1+rng.Intn(6); i++ {
			n := 2 + []int{0, 1, 2, max - 3, max - 2, max - 1, max, max + 1, 3 * max, rng.Intn(5000)}[rng.Intn(10)]
			if n < 3 {
				n = 3
			}
			b := make([]byte, n)
			rng.Read(b)
			nals = append(nals, b)
		}
		agg := rng.Intn(2) == 0
		{
			ns := cloneNals(nals)
			for _, n := range ns {
				n[0] = n[0]&0x60 | byte(1+rng.Intn(23)) // single NAL types 1..23
			}
			var d H264Depack
			for _, pl := range H264Packetize(ns, max, agg) {
				d.Feed(pl)
			}
			if len(d.Errors) != 0 || !reflect.DeepEqual(d.Units, ns) {
				t.Fatalf("h264 round %d max %d agg %v: errors %v, %d units want %d", round, max, agg, d.Errors, len(d.Units), len(ns))
			}
		}
		{
			ns := cloneNals(nals)
			for _, n := range ns {
				n[0] = byte(rng.Intn(48)) << 1 // types 0..47, F=0, layer id high bit 0
				n[1] = n[1]&0xf8 | 1
			}
			var d H265Depack
			for _, pl := range H265Packetize(ns, max, agg) {
				d.Feed(pl)
			}
			if len(d.Errors) != 0 || !reflect.DeepEqual(d.Units, ns) {
				t.Fatalf("h265 round %d max %d agg %v: errors %v, %d units want %d", round, max, agg, d.Errors, len(d.Units), len(ns))
			}
		}
		{
			var d AacDepack
			amax := max
			if amax < 100 {
				amax = 100
			}
			for _, pl := range AacPacketize(nals, amax) {
				d.Feed(pl)
			}
			if len(d.Errors) != 0 || !reflect.DeepEqual(d.Frames, nals) {
				t.Fatalf("aac round %d max %d: errors %v, %d frames want %d", round, amax, d.Errors, len(d.Frames), len(nals))
			}
		}
	}
}

func cloneNals(in [][]byte) [][]byte {
	out := make([][]byte, len(in))
	for i := range in {
		out[i] = append([]byte(nil), in[i]...)
	}
	return out
}

func TestTsVectors(t *testing.T) {
	// a PAT packet: program 1 → PMT pid 0x1001, then stuffing. Section bytes from ISO 13818-1 2.4.4.3.
	sec := unhex(t, "00b00d0001c100000001f001")
	c := Crc32Mpeg2(sec)
	pkt := append(unhex(t, "47400010"+"00"), sec...)
	pkt = append(pkt, byte(c>>24), byte(c>>16), byte(c>>8), byte(c))
	for len(pkt) < 188 {
		pkt = append(pkt, 0xff)
	}
	p, err := ParseTsPacket(pkt)
	if err != nil || p.PID != 0 || !p.PUSI || p.CC != 0 || p.AFC != 1 {
		t.Fatalf("%+v %v", p, err)
	}
	psi, err := ParsePsi(p.Payload)
	if err != nil || !psi.CrcOK || psi.TableID != 0 || psi.Programs[1] != 0x1001 || psi.SectionLen != 13 {
		t.Fatalf("%+v %v", psi, err)
	}
	// flip one bit: CRC must fail
	pkt[10] ^= 1
	p, _ = ParseTsPacket(pkt)
	if psi, err := ParsePsi(p.Payload); err == nil && psi.CrcOK {
		t.Fatal("corrupted section passes the CRC")
	}
	// a PMT: pcr pid 0x100, H.264 (0x1b) on 0x100, AAC (0x0f) on 0x101
	sec = unhex(t, "02b0170001c10000"+"e100"+"f000"+"1be100f000"+"0fe101f000")
	c = Crc32Mpeg2(sec)
	pl := append([]byte{0}, sec...)
	pl = append(pl, byte(c>>24), byte(c>>16), byte(c>>8), byte(c))
	psi, err = ParsePsi(pl)
	if err != nil || !psi.CrcOK || psi.PcrPID != 0x100 || len(psi.Streams) != 2 || psi.Streams[0].StreamType != 0x1b || psi.Streams[1].PID != 0x101 || psi.Streams[1].StreamType != 0x0f {
		t.Fatalf("pmt %+v %v", psi, err)
	}
	// PES header with PTS+DTS: 000001 e0 0000 80 c0 0a | PTS '0011' | DTS '0001' (ISO 13818-1 2.4.3.7)
	// PTS = 0x1_2345_6789 → 33 bits; DTS = 90000
	enc33 := func(prefix byte, v uint64) []byte {
		return []byte{prefix<<4 | byte(v>>30&7)<<1 | 1, byte(v >> 22), byte(v>>15&0x7f)<<1 | 1, byte(v >> 7), byte(v&0x7f)<<1 | 1}
	}
	h := append(unhex(t, "000001e0000080c00a"), enc33(3, 0x123456789)...)
	h = append(h, enc33(1, 90000)...)
	h = append(h, 0xde, 0xad)
	ph, err := ParsePesHeader(h)
	if err != nil || !ph.HasPTS || !ph.HasDTS || ph.PTS != 0x123456789 || ph.DTS != 90000 || ph.HdrLen != 19 || ph.StreamID != 0xe0 {
		t.Fatalf("pes %+v %v", ph, err)
	}
	// the PS muxer's timestamp coder must agree with the TS parser's
	if got := psTs33(3, 0x123456789); !bytes.Equal(got, enc33(3, 0x123456789)) {
		t.Fatalf("psTs33 %x", got)
	}
	// adaptation field with PCR: 47 01 00 30 | 07 10 | PCR base 33 bits, 6 reserved, ext 9 bits
	base, ext := uint64(0x1ABCDEF01), uint16(0x123)
	af := []byte{7, 0x10, byte(base >> 25), byte(base >> 17), byte(base >> 9), byte(base >> 1), byte(base&1)<<7 | 0x7e | byte(ext>>8), byte(ext)}
	pkt = append(unhex(t, "47010030"), af...)
	for len(pkt) < 188 {
		pkt = append(pkt, 0xaa)
	}
	p, err = ParseTsPacket(pkt)
	if err != nil || p.PID != 0x100 || !p.PCRFlag || p.PCRBase != base || p.PCRExt != ext || p.AFLen != 7 || len(p.Payload) != 188-4-8 {
		t.Fatalf("pcr %+v %v", p, err)
	}
	// continuity: demux two packets of one pid with a gap
	d := NewTsDemux()
	mk := func(cc byte) []byte {
		b := append([]byte{0x47, 0x01, 0x00, 0x10 | cc}, make([]byte, 184)...)
		return b
	}
	d.Feed(mk(0))
	d.Feed(mk(1))
	d.Feed(mk(3))
	if len(d.CCErrs) != 1 {
		t.Fatalf("cc errors %v", d.CCErrs)
	}
}

func TestAdtsAnnexbAvcc(t *testing.T) {
	// ADTS: AAC-LC (profile 1), 44.1 kHz (index 4), stereo, frame length 7+3 = 10
	// fff1 | 01 0100 0 0 | 10 0000 00 | len 13 bits …
	b := []byte{0xff, 0xf1, 0x50, 0x80, 0x01, 0x5f, 0xfc, 1, 2, 3}
	fs, err := SplitAdts(b)
	if err != nil || len(fs) != 1 || fs[0].Profile != 1 || fs[0].SampIdx != 4 || fs[0].ChannelConf != 2 || fs[0].FrameLen != 10 || !bytes.Equal(fs[0].Payload, []byte{1, 2, 3}) {
		t.Fatalf("%+v %v", fs, err)
	}
	fs, err = SplitAdts(append(append([]byte{}, b...), b...))
	if err != nil || len(fs) != 2 {
		t.Fatalf("two frames: %d %v", len(fs), err)
	}
	if _, err = SplitAdts(b[:9]); err == nil {
		t.Fatal("truncated adts accepted")
	}
	n, err := SplitAnnexB(unhex(t, "00000001"+"6701"+"000001"+"6802"+"00000001"+"65aabb"))
	if err != nil || len(n) != 3 || !bytes.Equal(n[0], unhex(t, "6701")) || !bytes.Equal(n[1], unhex(t, "6802")) || !bytes.Equal(n[2], unhex(t, "65aabb")) {
		t.Fatalf("annexb %x %v", n, err)
	}
	n, err = SplitAvcc(unhex(t, "00000002"+"6701"+"00000003"+"65aabb"))
	if err != nil || len(n) != 2 || !bytes.Equal(n[1], unhex(t, "65aabb")) {
		t.Fatalf("avcc %x %v", n, err)
	}
	if _, err = SplitAvcc(unhex(t, "00000005"+"6701")); err == nil {
		t.Fatal("avcc length beyond the buffer accepted")
	}
}

func TestFlvVectors(t *testing.T) {
	// header "FLV" 01 05 00000009, PreviousTagSize0, one audio tag of 2 bytes at ts 0x01020304
	b := unhex(t, "464c56"+"01"+"05"+"00000009"+"00000000"+
		"08"+"000002"+"020304"+"01"+"000000"+"af01"+"0000000d")
	tags, err := ParseFlvAll(b)
	if err != nil || len(tags) != 1 || tags[0].Type != 8 || tags[0].Ts != 0x01020304 || !bytes.Equal(tags[0].Data, []byte{0xaf, 0x01}) {
		t.Fatalf("%+v %v", tags, err)
	}
	// wrong PreviousTagSize is an error
	bad := append([]byte{}, b...)
	bad[len(bad)-1] = 0x0c
	if _, err := ParseFlvAll(bad); err == nil {
		t.Fatal("wrong PreviousTagSize accepted")
	}
	// incremental feeding byte by byte gives the same
	var p FlvParser
	for _, c := range b {
		p.Feed([]byte{c})
	}
	if p.Err != nil || len(p.Tags) != 1 || !p.HasAudio || !p.HasVideo || p.Pending() != 0 {
		t.Fatalf("incremental %+v", p)
	}
}

func TestM3u8AndSdp(t *testing.T) {
	pl, err := ParseM3u8([]byte("#EXTM3U\n#EXT-X-VERSION:3\n#EXT-X-ALLOW-CACHE:NO\n#EXT-X-TARGETDURATION:4\n#EXT-X-MEDIA-SEQUENCE:7\n\n#EXT-X-DISCONTINUITY\n#EXTINF:3.500,\na-7.ts\n#EXTINF:4.000,\na-8.ts\n#EXT-X-ENDLIST\n"))
	if err != nil || pl.Version != 3 || pl.TargetDuration != 4 || pl.MediaSequence != 7 || !pl.HasMediaSeq || len(pl.Entries) != 2 ||
		!pl.Entries[0].Discontinuity || pl.Entries[0].Duration != 3.5 || pl.Entries[1].URI != "a-8.ts" || !pl.EndList {
		t.Fatalf("%+v %v", pl, err)
	}
	if _, err := ParseM3u8([]byte("#EXT-X-VERSION:3\n")); err == nil {
		t.Fatal("playlist without #EXTM3U accepted")
	}
	sps, pps, asc := unhex(t, "6742c01e"), unhex(t, "68ce3c80"), unhex(t, "1210")
	s, err := ParseSdp(BuildSdp([]SdpTrack{
		{Kind: "video", PT: 96, Codec: "H264", Clock: 90000, Sps: sps, Pps: pps, Control: "streamid=0"},
		{Kind: "audio", PT: 97, Codec: "MPEG4-GENERIC", Clock: 44100, Chans: 2, Asc: asc, Control: "streamid=1"},
	}))
	if err != nil || len(s.Media) != 2 || s.Media[0].Codec != "H264" || s.Media[0].Clock != 90000 || s.Media[1].Clock != 44100 || s.Media[1].Channels != 2 || s.Media[1].Control != "streamid=1" {
		t.Fatalf("%+v %v", s, err)
	}
	sets, err := s.Media[0].H264ParamSets()
	if err != nil || len(sets) != 2 || !bytes.Equal(sets[0], sps) || !bytes.Equal(sets[1], pps) {
		t.Fatalf("param sets %x %v", sets, err)
	}
	if c, err := s.Media[1].AacConfig(); err != nil || !bytes.Equal(c, asc) {
		t.Fatalf("asc %x %v", c, err)
	}
	// RFC 6184 8.2.1 style hand-written SDP
	s, err = ParseSdp([]byte("v=0\r\no=- 1 1 IN IP4 10.0.0.1\r\ns=x\r\nt=0 0\r\na=control:*\r\nm=video 0 RTP/AVP 98\r\na=rtpmap:98 H265/90000\r\na=fmtp:98 sprop-vps=QAE=; sprop-sps=QgE=; sprop-pps=RAE=\r\na=control:trackID=0\r\n"))
	if err != nil || len(s.Media) != 1 || s.Media[0].Codec != "H265" {
		t.Fatalf("%+v %v", s, err)
	}
	v, sp, pp, err := s.Media[0].H265ParamSets()
	if err != nil || !bytes.Equal(v, []byte{0x40, 1}) || !bytes.Equal(sp, []byte{0x42, 1}) || !bytes.Equal(pp, []byte{0x44, 1}) {
		t.Fatalf("h265 sets %x %x %x %v", v, sp, pp, err)
	}
}

func TestPsMuxerAgainstTsPesParser(t *testing.T) {
	// the GB28181 publisher's PES packets must be readable by the (independent) PES header parser
	data := bytes.Repeat([]byte{0x11}, 1000)
	b := PsPes(0xe0, 0x1FFFFFFFF, 0x100000000, true, data, 65000)
	h, err := ParsePesHeader(b)
	if err != nil || h.StreamID != 0xe0 || h.PTS != 0x1FFFFFFFF || h.DTS != 0x100000000 || !bytes.Equal(b[h.HdrLen:], data) || h.PacketLen != len(b)-6 {
		t.Fatalf("%+v %v", h, err)
	}
	// pack header: 000001ba, '01' marker, mux rate, stuffing length in the low 3 bits of byte 13
	ph := PsPackHeader(12345)
	if !bytes.Equal(ph[:4], unhex(t, "000001ba")) || ph[4]>>6 != 1 || len(ph) != 14+int(ph[13]&7) {
		t.Fatalf("pack header %x", ph)
	}
	if sh := PsSystemHeader(true, true); !bytes.Equal(sh[:4], unhex(t, "000001bb")) || int(sh[4])<<8|int(sh[5]) != len(sh)-6 {
		t.Fatalf("system header %x", sh)
	}
	if pm := PsMap(0x1b, 0x0f); !bytes.Equal(pm[:4], unhex(t, "000001bc")) || int(pm[4])<<8|int(pm[5]) != len(pm)-6 {
		t.Fatalf("psm %x", pm)
	}
}
