package ref

import (
	"bufio"
	"crypto/rand"
	"errors"
	"fmt"
	"io"
	"net"
	"os"
	"sync"
	"sync/atomic"
	"time"
	"context"
	"syscall"
	"crypto/tls"
)

// RTMP client / server endpoints built on the reference chunk codec and AMF0 codec.

// countingReader counts bytes read from the socket (progress indicator for quiescence).
type countingReader struct {
	r io.Reader
	n *int64
}

func (c countingReader) Read(p []byte) (int, error) {
	n, err := c.r.Read(p)
	atomic.AddInt64(c.n, int64(n))
	return n, err
}

type RtmpConn struct {
	RawBytes int64 // bytes read from the socket so far (atomic)
	Conn net.Conn
	br   *bufio.Reader
	W    *ChunkWriter
	R    *ChunkReader
	wmu  sync.Mutex
	// OutChunkSize announced to the peer (0 = keep 128)
	tid float64
}

func newRtmpConn(c net.Conn) *RtmpConn {
	var r io.Reader = c
	if p := os.Getenv("VERIF_CONN_DUMP"); p != "" {
		f, _ := os.OpenFile(fmt.Sprintf("%s.%s", p, c.LocalAddr().String()), os.O_CREATE|os.O_WRONLY|os.O_APPEND, 0644)
		if f != nil {
			r = io.TeeReader(c, f)
		}
	}
	rc := &RtmpConn{Conn: c, W: NewChunkWriter(128), R: NewChunkReader()}
	rc.br = bufio.NewReaderSize(countingReader{r, &rc.RawBytes}, 65536)
	return rc
}

// DialRtmp connects and performs the simple handshake.
// RtmpOverTLS: every RTMP connection the reference clients open is wrapped in TLS (for servers that run
// RTMPS only). A process-wide switch: cases run one after the other inside a child.
var RtmpOverTLS bool

func DialRtmp(addr string, timeout time.Duration) (*RtmpConn, error) {
	c, err := net.DialTimeout("tcp", addr, timeout)
	if err != nil {
		return nil, err
	}
	if RtmpOverTLS {
		tc := tls.Client(c, &tls.Config{InsecureSkipVerify: true})
		c.SetDeadline(time.Now().Add(timeout))
		if err := tc.Handshake(); err != nil {
			c.Close()
			return nil, fmt.Errorf("tls handshake: %w", err)
		}
		c.SetDeadline(time.Time{})
		return HandshakeRtmpOn(tc, timeout)
	}
	return HandshakeRtmpOn(c, timeout)
}

// TakeBuffered returns (and consumes) the bytes already read from the socket but not yet
// parsed, so a caller can continue with raw reads on Conn.
func (rc *RtmpConn) TakeBuffered() []byte {
	n := rc.br.Buffered()
	b, _ := rc.br.Peek(n)
	out := append([]byte(nil), b...)
	rc.br.Discard(n)
	return out
}

// HandshakeRtmpOn performs the simple handshake as a client on an established connection.
func HandshakeRtmpOn(c net.Conn, timeout time.Duration) (*RtmpConn, error) {
	var err error
	rc := newRtmpConn(c)
	c.SetDeadline(time.Now().Add(timeout))
	c0c1 := make([]byte, 1537)
	c0c1[0] = 3
	rand.Read(c0c1[9:])
	if _, err = c.Write(c0c1); err != nil {
		c.Close()
		return nil, err
	}
	s := make([]byte, 3073)
	if _, err = io.ReadFull(rc.br, s); err != nil {
		c.Close()
		return nil, fmt.Errorf("handshake read S0S1S2: %w", err)
	}
	if s[0] != 3 {
		c.Close()
		return nil, fmt.Errorf("handshake: S0 version %d", s[0])
	}
	if _, err = c.Write(s[1:1537]); err != nil {
		c.Close()
		return nil, err
	}
	c.SetDeadline(time.Time{})
	return rc, nil
}

// AcceptRtmp performs the server side of the simple handshake on an accepted connection.
func AcceptRtmp(c net.Conn, timeout time.Duration) (*RtmpConn, error) {
	rc := newRtmpConn(c)
	c.SetDeadline(time.Now().Add(timeout))
	c0c1 := make([]byte, 1537)
	if _, err := io.ReadFull(rc.br, c0c1); err != nil {
		return nil, err
	}
	s := make([]byte, 3073)
	s[0] = 3
	rand.Read(s[9:1537])
	copy(s[1537:], c0c1[1:])
	if _, err := c.Write(s); err != nil {
		return nil, err
	}
	c2 := make([]byte, 1536)
	if _, err := io.ReadFull(rc.br, c2); err != nil {
		return nil, err
	}
	c.SetDeadline(time.Time{})
	return rc, nil
}

func (rc *RtmpConn) Close() error { return rc.Conn.Close() }

func (rc *RtmpConn) BytesRead() int64 { return atomic.LoadInt64(&rc.RawBytes) }

// Send writes one message with the given first-chunk format (must be legal).
func (rc *RtmpConn) Send(m RtmpMsg, fmtv int) error {
	rc.wmu.Lock()
	defer rc.wmu.Unlock()
	var out []byte
	for _, ch := range rc.W.Encode(m, fmtv) {
		out = append(out, ch...)
	}
	_, err := rc.Conn.Write(out)
	return err
}

// SendAuto picks format 0.
func (rc *RtmpConn) SendAuto(m RtmpMsg) error { return rc.Send(m, 0) }

// SetChunkSize announces and adopts a new outgoing chunk size.
func (rc *RtmpConn) SetChunkSize(n int) error {
	err := rc.Send(RtmpMsg{Csid: 2, TypeID: 1, Payload: []byte{byte(n >> 24), byte(n >> 16), byte(n >> 8), byte(n)}}, 0)
	rc.wmu.Lock()
	rc.W.ChunkSize = n
	rc.wmu.Unlock()
	return err
}

func (rc *RtmpConn) Read() (RtmpMsg, error) { return rc.R.ReadMsg(rc.br) }

func (rc *RtmpConn) SendCommand(csid int, msid uint32, vals ...AmfValue) error {
	return rc.Send(RtmpMsg{Csid: csid, TypeID: 20, StreamID: msid, Payload: AmfEncodeAll(vals...)}, 0)
}

// readCommand reads until a command message (type 20/17) arrives; other messages are passed to other.
func (rc *RtmpConn) ReadCommand(timeout time.Duration, other func(RtmpMsg)) (name string, vals []AmfValue, err error) {
	rc.Conn.SetReadDeadline(time.Now().Add(timeout))
	defer rc.Conn.SetReadDeadline(time.Time{})
	for {
		m, e := rc.Read()
		if e != nil {
			return "", nil, e
		}
		if m.TypeID == 20 || m.TypeID == 17 {
			p := m.Payload
			if m.TypeID == 17 && len(p) > 0 {
				p = p[1:]
			}
			vs, e := AmfDecodeAll(p)
			if e != nil && len(vs) == 0 {
				return "", nil, fmt.Errorf("command decode: %w", e)
			}
			if len(vs) > 0 && vs[0].Kind == AmfString {
				return vs[0].Str, vs, nil
			}
			continue
		}
		if other != nil {
			other(m)
		}
	}
}

func (rc *RtmpConn) nextTid() float64 { rc.tid++; return rc.tid }

// Connect sends connect(app) and waits for _result.
func (rc *RtmpConn) Connect(app, tcUrl string, timeout time.Duration) error {
	err := rc.SendCommand(3, 0, AmfStr("connect"), AmfNum(rc.nextTid()), AmfObj(
		AmfPair{"app", AmfStr(app)}, AmfPair{"type", AmfStr("nonprivate")}, AmfPair{"flashVer", AmfStr("FMLE/3.0 (compatible; lalverif)")}, AmfPair{"tcUrl", AmfStr(tcUrl)}))
	if err != nil {
		return err
	}
	for {
		name, _, err := rc.ReadCommand(timeout, nil)
		if err != nil {
			return fmt.Errorf("connect: %w", err)
		}
		if name == "_result" {
			return nil
		}
		if name == "_error" {
			return errors.New("connect: _error")
		}
	}
}

func (rc *RtmpConn) CreateStream(timeout time.Duration) (uint32, error) {
	if err := rc.SendCommand(3, 0, AmfStr("createStream"), AmfNum(rc.nextTid()), AmfNul()); err != nil {
		return 0, err
	}
	for {
		name, vs, err := rc.ReadCommand(timeout, nil)
		if err != nil {
			return 0, fmt.Errorf("createStream: %w", err)
		}
		if name == "_result" {
			if len(vs) >= 4 && vs[3].Kind == AmfNumber {
				return uint32(vs[3].Num), nil
			}
			return 1, nil
		}
	}
}

// Publish sends publish(name) and waits for onStatus. lal answers Publish.Start before it
// asks the stream group, so this does NOT prove acceptance.
func (rc *RtmpConn) Publish(msid uint32, name string, timeout time.Duration) error {
	if err := rc.SendCommand(5, msid, AmfStr("publish"), AmfNum(rc.nextTid()), AmfNul(), AmfStr(name), AmfStr("live")); err != nil {
		return err
	}
	for {
		n, _, err := rc.ReadCommand(timeout, nil)
		if err != nil {
			return fmt.Errorf("publish: %w", err)
		}
		if n == "onStatus" {
			return nil
		}
	}
}

// Play sends play(name); it does not wait (the caller's reader loop sees onStatus and media).
func (rc *RtmpConn) Play(msid uint32, name string) error {
	return rc.SendCommand(5, msid, AmfStr("play"), AmfNum(rc.nextTid()), AmfNul(), AmfStr(name))
}

// ---------------------------------------------------------------------------------------

// RtmpHistory collects the messages a consumer receives, thread-safely.
type RtmpHistory struct {
	mu     sync.Mutex
	Msgs   []RtmpMsg
	At     []time.Time // arrival time of Msgs[i]
	Err    error
	Closed bool
	cond   *sync.Cond
	Bytes  int64
}

func NewRtmpHistory() *RtmpHistory {
	h := &RtmpHistory{}
	h.cond = sync.NewCond(&h.mu)
	return h
}

func (h *RtmpHistory) Add(m RtmpMsg) {
	h.mu.Lock()
	h.Msgs = append(h.Msgs, m)
	h.At = append(h.At, time.Now())
	h.Bytes += int64(len(m.Payload))
	h.cond.Broadcast()
	h.mu.Unlock()
}

// Times returns a copy of the arrival times.
func (h *RtmpHistory) Times() []time.Time {
	h.mu.Lock()
	defer h.mu.Unlock()
	return append([]time.Time(nil), h.At...)
}

func (h *RtmpHistory) Finish(err error) {
	h.mu.Lock()
	h.Err = err
	h.Closed = true
	h.cond.Broadcast()
	h.mu.Unlock()
}

func (h *RtmpHistory) Len() int {
	h.mu.Lock()
	defer h.mu.Unlock()
	return len(h.Msgs)
}

func (h *RtmpHistory) Snapshot() []RtmpMsg {
	h.mu.Lock()
	defer h.mu.Unlock()
	return append([]RtmpMsg(nil), h.Msgs...)
}

func (h *RtmpHistory) IsClosed() bool {
	h.mu.Lock()
	defer h.mu.Unlock()
	return h.Closed
}

// WaitFor waits until pred(snapshot) holds, the history closes, or the timeout expires.
func (h *RtmpHistory) WaitFor(timeout time.Duration, pred func(msgs []RtmpMsg) bool) bool {
	deadline := time.Now().Add(timeout)
	stop := make(chan struct{})
	defer close(stop)
	go func() {
		t := time.NewTicker(20 * time.Millisecond)
		defer t.Stop()
		for {
			select {
			case <-stop:
				return
			case <-t.C:
				h.mu.Lock()
				h.cond.Broadcast()
				h.mu.Unlock()
			}
		}
	}()
	h.mu.Lock()
	defer h.mu.Unlock()
	for {
		if pred(h.Msgs) {
			return true
		}
		if h.Closed || time.Now().After(deadline) {
			return pred(h.Msgs)
		}
		h.cond.Wait()
	}
}

// RtmpSubscriber plays a stream and records media/data messages.
type RtmpSubscriber struct {
	RC   *RtmpConn
	Hist *RtmpHistory
	// Commands seen (onStatus codes)
	mu       sync.Mutex
	Statuses []string
	// AckEvery > 0: send an Acknowledgement (message type 3, spec 5.4.3) whenever that many more
	// bytes have been received, as real players do at half the announced window. Set with SetAckEvery.
	ackEvery int64
	lastAck  int64
	AcksSent int64
}

func (s *RtmpSubscriber) SetAckEvery(n int) { atomic.StoreInt64(&s.ackEvery, int64(n)) }

// StartRtmpSubscriber connects, plays and starts the reader goroutine.
func StartRtmpSubscriber(addr, app, name string, timeout time.Duration) (*RtmpSubscriber, error) {
	rc, err := DialRtmp(addr, timeout)
	if err != nil {
		return nil, err
	}
	if err = rc.Connect(app, "rtmp://"+addr+"/"+app, timeout); err != nil {
		rc.Close()
		return nil, err
	}
	msid, err := rc.CreateStream(timeout)
	if err != nil {
		rc.Close()
		return nil, err
	}
	s := &RtmpSubscriber{RC: rc, Hist: NewRtmpHistory()}
	if err = rc.Play(msid, name); err != nil {
		rc.Close()
		return nil, err
	}
	go s.loop()
	return s, nil
}

func (s *RtmpSubscriber) loop() {
	for {
		m, err := s.RC.Read()
		if err != nil {
			s.Hist.Finish(err)
			return
		}
		if n := atomic.LoadInt64(&s.ackEvery); n > 0 {
			if got := s.RC.BytesRead(); got-s.lastAck >= n {
				s.lastAck = got
				b := []byte{byte(got >> 24), byte(got >> 16), byte(got >> 8), byte(got)}
				if s.RC.Send(RtmpMsg{Csid: 2, TypeID: 3, StreamID: 0, Payload: b}, 0) == nil {
					atomic.AddInt64(&s.AcksSent, 1)
				}
			}
		}
		switch m.TypeID {
		case 8, 9, 18:
			s.Hist.Add(m)
		case 22:
			subs, e := SplitAggregate(m)
			if e != nil {
				s.Hist.Finish(e)
				return
			}
			for _, x := range subs {
				s.Hist.Add(x)
			}
		case 20:
			vs, _ := AmfDecodeAll(m.Payload)
			if len(vs) >= 4 && vs[0].Str == "onStatus" {
				if code, ok := vs[3].Get("code"); ok {
					s.mu.Lock()
					s.Statuses = append(s.Statuses, code.Str)
					s.mu.Unlock()
				}
			}
		}
	}
}

func (s *RtmpSubscriber) Close() { s.RC.Close() }

// RtmpPublisher is a connected publisher; a background goroutine drains what lal sends.
type RtmpPublisher struct {
	RC     *RtmpConn
	Msid   uint32
	mu     sync.Mutex
	closed bool
	RdErr  error
	Done   chan struct{}
}

func StartRtmpPublisher(addr, app, name string, timeout time.Duration) (*RtmpPublisher, error) {
	rc, err := DialRtmp(addr, timeout)
	if err != nil {
		return nil, err
	}
	if err = rc.Connect(app, "rtmp://"+addr+"/"+app, timeout); err != nil {
		rc.Close()
		return nil, err
	}
	msid, err := rc.CreateStream(timeout)
	if err != nil {
		rc.Close()
		return nil, err
	}
	if err = rc.Publish(msid, name, timeout); err != nil {
		rc.Close()
		return nil, err
	}
	p := &RtmpPublisher{RC: rc, Msid: msid, Done: make(chan struct{})}
	go func() {
		for {
			if _, err := rc.Read(); err != nil {
				p.mu.Lock()
				p.RdErr = err
				p.closed = true
				p.mu.Unlock()
				close(p.Done)
				return
			}
		}
	}()
	return p, nil
}

// PeerClosed reports whether lal closed the connection.
func (p *RtmpPublisher) PeerClosed() bool {
	p.mu.Lock()
	defer p.mu.Unlock()
	return p.closed
}

func (p *RtmpPublisher) Close() { p.RC.Close() }

// ---------------------------------------------------------------------------------------
// RtmpStub is a scriptable RTMP server: push target (records what a publisher sends) and
// pull origin (serves a scripted stream to a player).

type StubBehaviour struct {
	RefuseConnect   bool          // close right after accept
	Hang            bool          // accept and never answer (the peer's handshake stays in flight)
	CloseAfterConn  bool          // close after the connect command
	WithholdStatus  chan struct{} // if non-nil, onStatus for publish/play is sent only after this is closed
	PlayMsgs        []RtmpMsg     // for play: messages to send after Play.Start
	PlayInterval    time.Duration
	DieAfterMsgs    int // for play: close after sending this many messages (0 = keep open)
	ErrorOnPublish  bool
	// StallAfterPublish: answer the publish command, then never read again (socket stays open): the
	// peer's writes fill the kernel buffers and block until its write timeout closes the session
	StallAfterPublish time.Duration
}

type StubSession struct {
	N        int
	RC       *RtmpConn
	Role     string // "", "publish", "play"
	App      string
	TcUrl    string
	Name     string // stream name incl. query as received
	Hist     *RtmpHistory
	AcceptAt time.Time
	mu       sync.Mutex
	closed   bool
	ClosedAt time.Time
	Started  bool // onStatus sent
	RdErr    error
}

func (s *StubSession) IsClosed() bool {
	s.mu.Lock()
	defer s.mu.Unlock()
	return s.closed
}

func (s *StubSession) GetRole() (role, name string, started bool) {
	s.mu.Lock()
	defer s.mu.Unlock()
	return s.Role, s.Name, s.Started
}

// GetConn returns what the peer's connect / play / publish commands carried.
func (s *StubSession) GetConn() (role, app, tcUrl, name string) {
	s.mu.Lock()
	defer s.mu.Unlock()
	return s.Role, s.App, s.TcUrl, s.Name
}

type RtmpStub struct {
	Ln       net.Listener
	Addr     string
	mu       sync.Mutex
	Sessions []*StubSession
	// Script returns the behaviour for the n-th accepted connection (0-based).
	Script func(n int) StubBehaviour
}

func NewRtmpStub(script func(n int) StubBehaviour) (*RtmpStub, error) {
	ln, err := net.Listen("tcp", "127.0.0.1:0")
	if err != nil {
		return nil, err
	}
	st := &RtmpStub{Ln: ln, Addr: ln.Addr().String(), Script: script}
	go st.acceptLoop()
	return st, nil
}

// NewRtmpStubRcvBuf is NewRtmpStub with a fixed (small) receive buffer on every accepted connection:
// a peer that never reads then shows a zero window after a few kilobytes instead of after the
// megabytes the kernel's receive-buffer auto-tuning would absorb.
func NewRtmpStubRcvBuf(script func(n int) StubBehaviour, rcvbuf int) (*RtmpStub, error) {
	lc := net.ListenConfig{Control: func(network, address string, c syscall.RawConn) error {
		var e error
		c.Control(func(fd uintptr) { e = syscall.SetsockoptInt(int(fd), syscall.SOL_SOCKET, syscall.SO_RCVBUF, rcvbuf) })
		return e
	}}
	ln, err := lc.Listen(context.Background(), "tcp", "127.0.0.1:0")
	if err != nil {
		return nil, err
	}
	st := &RtmpStub{Ln: ln, Addr: ln.Addr().String(), Script: script}
	go st.acceptLoop()
	return st, nil
}

func (st *RtmpStub) Close() {
	st.Ln.Close()
	st.mu.Lock()
	for _, s := range st.Sessions {
		s.mu.Lock()
		rc := s.RC
		s.mu.Unlock()
		rc.Conn.Close()
	}
	st.mu.Unlock()
}

func (st *RtmpStub) Snapshot() []*StubSession {
	st.mu.Lock()
	defer st.mu.Unlock()
	return append([]*StubSession(nil), st.Sessions...)
}

func (st *RtmpStub) acceptLoop() {
	for {
		c, err := st.Ln.Accept()
		if err != nil {
			return
		}
		st.mu.Lock()
		n := len(st.Sessions)
		s := &StubSession{N: n, RC: newRtmpConn(c), Hist: NewRtmpHistory(), AcceptAt: time.Now()}
		st.Sessions = append(st.Sessions, s)
		st.mu.Unlock()
		var b StubBehaviour
		if st.Script != nil {
			b = st.Script(n)
		}
		go st.serve(s, b)
	}
}

func (st *RtmpStub) serve(s *StubSession, b StubBehaviour) {
	defer func() {
		s.RC.Conn.Close()
		s.mu.Lock()
		s.closed = true
		s.ClosedAt = time.Now()
		s.mu.Unlock()
		s.Hist.Finish(nil)
	}()
	if b.RefuseConnect {
		return
	}
	if b.Hang {
		// accept the TCP connection and never answer the handshake: the peer's attempt stays in flight
		io.Copy(io.Discard, s.RC.Conn)
		return
	}
	rc, err := AcceptRtmp(s.RC.Conn, 10*time.Second)
	if err != nil {
		return
	}
	s.mu.Lock()
	s.RC = rc
	s.mu.Unlock()
	for {
		m, err := rc.Read()
		if err != nil {
			s.mu.Lock()
			s.RdErr = err
			s.mu.Unlock()
			return
		}
		switch m.TypeID {
		case 8, 9, 18:
			s.Hist.Add(m)
		case 22:
			subs, _ := SplitAggregate(m)
			for _, x := range subs {
				s.Hist.Add(x)
			}
		case 20, 17:
			p := m.Payload
			if m.TypeID == 17 && len(p) > 0 {
				p = p[1:]
			}
			vs, _ := AmfDecodeAll(p)
			if len(vs) < 2 || vs[0].Kind != AmfString {
				continue
			}
			tid := vs[1]
			switch vs[0].Str {
			case "connect":
				if len(vs) >= 3 {
					if a, ok := vs[2].Get("app"); ok {
						s.mu.Lock()
						s.App = a.Str
						s.mu.Unlock()
					}
					if a, ok := vs[2].Get("tcUrl"); ok {
						s.mu.Lock()
						s.TcUrl = a.Str
						s.mu.Unlock()
					}
				}
				if b.CloseAfterConn {
					return
				}
				rc.Send(RtmpMsg{Csid: 2, TypeID: 5, Payload: []byte{0, 0x4c, 0x4b, 0x40}}, 0)
				rc.Send(RtmpMsg{Csid: 2, TypeID: 6, Payload: []byte{0, 0x4c, 0x4b, 0x40, 2}}, 0)
				rc.SetChunkSize(4096)
				rc.SendCommand(3, 0, AmfStr("_result"), tid, AmfObj(AmfPair{"fmsVer", AmfStr("FMS/3,0,1,123")}, AmfPair{"capabilities", AmfNum(31)}),
					AmfObj(AmfPair{"level", AmfStr("status")}, AmfPair{"code", AmfStr("NetConnection.Connect.Success")}, AmfPair{"description", AmfStr("Connection succeeded.")}, AmfPair{"objectEncoding", AmfNum(0)}))
			case "createStream":
				rc.SendCommand(3, 0, AmfStr("_result"), tid, AmfNul(), AmfNum(1))
			case "publish", "play":
				name := ""
				if len(vs) >= 4 {
					name = vs[3].Str
				}
				s.mu.Lock()
				s.Role, s.Name = vs[0].Str, name
				s.mu.Unlock()
				if b.WithholdStatus != nil {
					go func(role string) {
						<-b.WithholdStatus
						st.sendStatus(s, role, b)
					}(vs[0].Str)
				} else {
					if !st.sendStatus(s, vs[0].Str, b) {
						return
					}
				}
				if b.StallAfterPublish > 0 && vs[0].Str == "publish" {
					// stop reading; notice the peer closing by a zero-length deadline poll is impossible without
					// reading, so just hold the socket for the given time
					time.Sleep(b.StallAfterPublish)
					return
				}
			}
		}
	}
}

func (st *RtmpStub) sendStatus(s *StubSession, role string, b StubBehaviour) bool {
	rc := s.RC
	code := "NetStream.Publish.Start"
	if role == "play" {
		code = "NetStream.Play.Start"
		rc.Send(RtmpMsg{Csid: 2, TypeID: 4, Payload: []byte{0, 0, 0, 0, 0, 1}}, 0)
	}
	if b.ErrorOnPublish {
		rc.SendCommand(5, 1, AmfStr("onStatus"), AmfNum(0), AmfNul(), AmfObj(AmfPair{"level", AmfStr("error")}, AmfPair{"code", AmfStr("NetStream.Publish.BadName")}))
		return false
	}
	err := rc.SendCommand(5, 1, AmfStr("onStatus"), AmfNum(0), AmfNul(), AmfObj(AmfPair{"level", AmfStr("status")}, AmfPair{"code", AmfStr(code)}, AmfPair{"description", AmfStr("ok")}))
	s.mu.Lock()
	s.Started = true
	s.mu.Unlock()
	if err != nil {
		return false
	}
	if role == "play" && len(b.PlayMsgs) > 0 {
		go func() {
			for i, m := range b.PlayMsgs {
				if b.DieAfterMsgs > 0 && i >= b.DieAfterMsgs {
					rc.Conn.Close()
					return
				}
				if rc.SendAuto(m) != nil {
					return
				}
				if b.PlayInterval > 0 {
					time.Sleep(b.PlayInterval)
				}
			}
			if b.DieAfterMsgs < 0 {
				rc.Conn.Close()
			}
		}()
	}
	return true
}
