package ref

import (
	"encoding/binary"
	"errors"
	"fmt"
)

// RTP (RFC 3550) packet parser/builder and RFC 6184 / 7798 / 3640 payload formats.

type RtpPkt struct {
	Marker  bool
	PT      uint8
	Seq     uint16
	Ts      uint32
	Ssrc    uint32
	Padding int
	Csrc    []uint32
	ExtProf uint16
	Ext     []byte
	HasExt  bool
	Payload []byte
}

func ParseRtp(b []byte) (p RtpPkt, err error) {
	if len(b) < 12 {
		return p, errors.New("rtp: short")
	}
	if b[0]>>6 != 2 {
		return p, fmt.Errorf("rtp: version %d", b[0]>>6)
	}
	pad := b[0]&0x20 != 0
	p.HasExt = b[0]&0x10 != 0
	cc := int(b[0] & 0x0f)
	p.Marker = b[1]&0x80 != 0
	p.PT = b[1] & 0x7f
	p.Seq = binary.BigEndian.Uint16(b[2:])
	p.Ts = binary.BigEndian.Uint32(b[4:])
	p.Ssrc = binary.BigEndian.Uint32(b[8:])
	off := 12
	if len(b) < off+4*cc {
		return p, errors.New("rtp: csrc beyond packet")
	}
	for i := 0; i < cc; i++ {
		p.Csrc = append(p.Csrc, binary.BigEndian.Uint32(b[off:]))
		off += 4
	}
	if p.HasExt {
		if len(b) < off+4 {
			return p, errors.New("rtp: extension header beyond packet")
		}
		p.ExtProf = binary.BigEndian.Uint16(b[off:])
		l := int(binary.BigEndian.Uint16(b[off+2:])) * 4
		off += 4
		if len(b) < off+l {
			return p, errors.New("rtp: extension beyond packet")
		}
		p.Ext = b[off : off+l]
		off += l
	}
	end := len(b)
	if pad {
		p.Padding = int(b[len(b)-1])
		if p.Padding == 0 || p.Padding > end-off {
			return p, errors.New("rtp: bad padding count")
		}
		end -= p.Padding
	}
	p.Payload = b[off:end]
	return p, nil
}

func BuildRtp(p RtpPkt) []byte {
	b := make([]byte, 12, 12+len(p.Payload)+16)
	b[0] = 2<<6 | byte(len(p.Csrc))
	if p.Padding > 0 {
		b[0] |= 0x20
	}
	if p.HasExt {
		b[0] |= 0x10
	}
	b[1] = p.PT & 0x7f
	if p.Marker {
		b[1] |= 0x80
	}
	binary.BigEndian.PutUint16(b[2:], p.Seq)
	binary.BigEndian.PutUint32(b[4:], p.Ts)
	binary.BigEndian.PutUint32(b[8:], p.Ssrc)
	for _, c := range p.Csrc {
		b = append(b, byte(c>>24), byte(c>>16), byte(c>>8), byte(c))
	}
	if p.HasExt {
		n := (len(p.Ext) + 3) / 4
		b = append(b, byte(p.ExtProf>>8), byte(p.ExtProf), byte(n>>8), byte(n))
		b = append(b, p.Ext...)
		for i := len(p.Ext); i < n*4; i++ {
			b = append(b, 0)
		}
	}
	b = append(b, p.Payload...)
	for i := 0; i < p.Padding; i++ {
		if i == p.Padding-1 {
			b = append(b, byte(p.Padding))
		} else {
			b = append(b, 0)
		}
	}
	return b
}

// ---------------------------------------------------------------------------------------
// Depacketisers. They consume in-order payloads and return NAL units / audio frames.

// H264Depack implements RFC 6184 non-interleaved mode (single NAL, STAP-A, FU-A).
type H264Depack struct {
	fu     []byte
	inFu   bool
	Units  [][]byte // completed NAL units in order
	Errors []string
}

func (d *H264Depack) Feed(pl []byte) {
	if len(pl) < 1 {
		d.Errors = append(d.Errors, "empty payload")
		return
	}
	t := pl[0] & 0x1f
	switch {
	case t >= 1 && t <= 23:
		if d.inFu {
			d.Errors = append(d.Errors, "single NAL inside a fragmented unit")
			d.inFu = false
		}
		d.Units = append(d.Units, append([]byte(nil), pl...))
	case t == 24:
		b := pl[1:]
		for len(b) > 0 {
			if len(b) < 2 {
				d.Errors = append(d.Errors, "STAP-A: truncated size")
				return
			}
			n := int(b[0])<<8 | int(b[1])
			if n == 0 || len(b) < 2+n {
				d.Errors = append(d.Errors, "STAP-A: size beyond payload")
				return
			}
			d.Units = append(d.Units, append([]byte(nil), b[2:2+n]...))
			b = b[2+n:]
		}
	case t == 28:
		if len(pl) < 2 {
			d.Errors = append(d.Errors, "FU-A: short")
			return
		}
		s, e := pl[1]&0x80 != 0, pl[1]&0x40 != 0
		if s && e {
			d.Errors = append(d.Errors, "FU-A: start and end both set")
		}
		if s {
			if d.inFu {
				d.Errors = append(d.Errors, "FU-A: start inside a fragmented unit")
			}
			d.inFu = true
			d.fu = []byte{pl[0]&0xE0 | pl[1]&0x1f}
		} else if !d.inFu {
			d.Errors = append(d.Errors, "FU-A: continuation without start")
			return
		}
		if len(pl) == 2 {
			d.Errors = append(d.Errors, "FU-A: empty fragment")
		}
		d.fu = append(d.fu, pl[2:]...)
		if e {
			d.Units = append(d.Units, d.fu)
			d.fu, d.inFu = nil, false
		}
	default:
		d.Errors = append(d.Errors, fmt.Sprintf("unsupported H.264 payload type %d", t))
	}
}

// H265Depack implements RFC 7798 (single NAL, AP, FU; no DONL).
type H265Depack struct {
	fu     []byte
	inFu   bool
	Units  [][]byte
	Errors []string
}

func (d *H265Depack) Feed(pl []byte) {
	if len(pl) < 2 {
		d.Errors = append(d.Errors, "short payload")
		return
	}
	t := pl[0] >> 1 & 0x3f
	switch {
	case t < 48:
		if d.inFu {
			d.Errors = append(d.Errors, "single NAL inside a fragmented unit")
			d.inFu = false
		}
		d.Units = append(d.Units, append([]byte(nil), pl...))
	case t == 48:
		b := pl[2:]
		for len(b) > 0 {
			if len(b) < 2 {
				d.Errors = append(d.Errors, "AP: truncated size")
				return
			}
			n := int(b[0])<<8 | int(b[1])
			if n < 2 || len(b) < 2+n {
				d.Errors = append(d.Errors, "AP: size beyond payload")
				return
			}
			d.Units = append(d.Units, append([]byte(nil), b[2:2+n]...))
			b = b[2+n:]
		}
	case t == 49:
		if len(pl) < 3 {
			d.Errors = append(d.Errors, "FU: short")
			return
		}
		s, e := pl[2]&0x80 != 0, pl[2]&0x40 != 0
		if s {
			if d.inFu {
				d.Errors = append(d.Errors, "FU: start inside a fragmented unit")
			}
			d.inFu = true
			d.fu = []byte{pl[0]&0x81 | (pl[2]&0x3f)<<1, pl[1]}
		} else if !d.inFu {
			d.Errors = append(d.Errors, "FU: continuation without start")
			return
		}
		d.fu = append(d.fu, pl[3:]...)
		if e {
			d.Units = append(d.Units, d.fu)
			d.fu, d.inFu = nil, false
		}
	default:
		d.Errors = append(d.Errors, fmt.Sprintf("unsupported H.265 payload type %d", t))
	}
}

// AacDepack implements RFC 3640 AAC-hbr (sizelength=13, indexlength=3, indexdeltalength=3).
type AacDepack struct {
	frag     []byte
	fragSize int
	Frames   [][]byte
	Errors   []string
}

func (d *AacDepack) Feed(pl []byte) {
	if len(pl) < 2 {
		d.Errors = append(d.Errors, "short payload")
		return
	}
	bits := int(pl[0])<<8 | int(pl[1])
	if bits%16 != 0 || bits == 0 {
		d.Errors = append(d.Errors, fmt.Sprintf("AU-headers-length %d bits", bits))
		return
	}
	n := bits / 16
	if len(pl) < 2+2*n {
		d.Errors = append(d.Errors, "AU headers beyond payload")
		return
	}
	data := pl[2+2*n:]
	if n == 1 {
		size := int(pl[2])<<5 | int(pl[3])>>3
		if d.frag != nil {
			if size != d.fragSize {
				d.Errors = append(d.Errors, "fragment with different AU size")
			}
			d.frag = append(d.frag, data...)
			if len(d.frag) >= d.fragSize {
				if len(d.frag) > d.fragSize {
					d.Errors = append(d.Errors, "fragments exceed AU size")
				}
				d.Frames = append(d.Frames, d.frag)
				d.frag = nil
			}
			return
		}
		if size > len(data) {
			d.frag = append([]byte{}, data...)
			d.fragSize = size
			return
		}
		if size < len(data) {
			d.Errors = append(d.Errors, "payload longer than the single AU")
		}
		d.Frames = append(d.Frames, append([]byte(nil), data[:size]...))
		return
	}
	for i := 0; i < n; i++ {
		size := int(pl[2+2*i])<<5 | int(pl[3+2*i])>>3
		if size > len(data) {
			d.Errors = append(d.Errors, "AU beyond payload")
			return
		}
		d.Frames = append(d.Frames, append([]byte(nil), data[:size]...))
		data = data[size:]
	}
	if len(data) != 0 {
		d.Errors = append(d.Errors, "trailing bytes after AUs")
	}
}

// ---------------------------------------------------------------------------------------
// Packetisers (used as hostile-but-conforming publishers).

// H264Packetize: mode 0 = single NAL / FU-A as needed; aggregate=true packs consecutive
// small NALs into STAP-A where they fit.
func H264Packetize(nals [][]byte, max int, aggregate bool) (payloads [][]byte) {
	i := 0
	for i < len(nals) {
		n := nals[i]
		if aggregate && len(n)+3 <= max && i+1 < len(nals) && len(n)+len(nals[i+1])+5 <= max {
			p := []byte{24 | n[0]&0x60}
			for i < len(nals) && len(p)+2+len(nals[i]) <= max {
				p = append(p, byte(len(nals[i])>>8), byte(len(nals[i])))
				p = append(p, nals[i]...)
				i++
			}
			payloads = append(payloads, p)
			continue
		}
		if len(n) <= max {
			payloads = append(payloads, append([]byte(nil), n...))
		} else {
			body := n[1:]
			first := true
			for len(body) > 0 {
				k := max - 2
				if k > len(body) {
					k = len(body)
				}
				h := n[0] & 0x1f
				if first {
					h |= 0x80
				}
				if k == len(body) {
					h |= 0x40
				}
				p := []byte{n[0]&0xE0 | 28, h}
				p = append(p, body[:k]...)
				payloads = append(payloads, p)
				body = body[k:]
				first = false
			}
		}
		i++
	}
	return
}

func H265Packetize(nals [][]byte, max int, aggregate bool) (payloads [][]byte) {
	i := 0
	for i < len(nals) {
		n := nals[i]
		if aggregate && i+1 < len(nals) && 2+2+len(n)+2+len(nals[i+1]) <= max {
			p := []byte{48 << 1, 1}
			for i < len(nals) && len(p)+2+len(nals[i]) <= max {
				p = append(p, byte(len(nals[i])>>8), byte(len(nals[i])))
				p = append(p, nals[i]...)
				i++
			}
			payloads = append(payloads, p)
			continue
		}
		if len(n) <= max {
			payloads = append(payloads, append([]byte(nil), n...))
		} else {
			body := n[2:]
			first := true
			for len(body) > 0 {
				k := max - 3
				if k > len(body) {
					k = len(body)
				}
				h := n[0] >> 1 & 0x3f
				if first {
					h |= 0x80
				}
				if k == len(body) {
					h |= 0x40
				}
				p := []byte{n[0]&0x81 | 49<<1, n[1], h}
				p = append(p, body[:k]...)
				payloads = append(payloads, p)
				body = body[k:]
				first = false
			}
		}
		i++
	}
	return
}

// AacPacketize packs one or several AUs into one payload, or fragments a single AU.
func AacPacketize(aus [][]byte, max int) (payloads [][]byte) {
	if len(aus) == 1 && len(aus[0])+4 > max {
		a := aus[0]
		for len(a) > 0 {
			k := max - 4
			if k > len(a) {
				k = len(a)
			}
			p := []byte{0, 16, byte(len(aus[0]) >> 5), byte(len(aus[0]) << 3)}
			p = append(p, a[:k]...)
			payloads = append(payloads, p)
			a = a[k:]
		}
		return
	}
	p := []byte{byte(len(aus) * 16 >> 8), byte(len(aus) * 16)}
	for i, a := range aus {
		idx := byte(0)
		_ = i
		p = append(p, byte(len(a)>>5), byte(len(a)<<3)|idx)
	}
	for _, a := range aus {
		p = append(p, a...)
	}
	return [][]byte{p}
}
