package ref

import (
	"errors"
	"fmt"
	"strconv"
	"strings"
)

// M3U8 media playlist parser (RFC 8216 subset that live HLS uses), strict.

type M3u8Entry struct {
	Duration      float64
	URI           string
	Discontinuity bool
}

type M3u8 struct {
	Version        int
	TargetDuration int
	MediaSequence  int
	HasMediaSeq    bool
	AllowCache     string
	Entries        []M3u8Entry
	EndList        bool
	EndListCount   int
}

func ParseM3u8(b []byte) (p M3u8, err error) {
	lines := strings.Split(strings.ReplaceAll(string(b), "\r\n", "\n"), "\n")
	if len(lines) == 0 || lines[0] != "#EXTM3U" {
		return p, errors.New("m3u8: first line is not #EXTM3U")
	}
	haveTarget := false
	var pend *M3u8Entry
	disc := false
	for n, l := range lines[1:] {
		if l == "" {
			continue
		}
		if p.EndList {
			return p, fmt.Errorf("m3u8: line %d after #EXT-X-ENDLIST: %q", n+2, l)
		}
		switch {
		case strings.HasPrefix(l, "#EXT-X-VERSION:"):
			p.Version, err = strconv.Atoi(l[len("#EXT-X-VERSION:"):])
			if err != nil {
				return p, fmt.Errorf("m3u8: version: %v", err)
			}
		case strings.HasPrefix(l, "#EXT-X-TARGETDURATION:"):
			p.TargetDuration, err = strconv.Atoi(l[len("#EXT-X-TARGETDURATION:"):])
			if err != nil {
				return p, fmt.Errorf("m3u8: target duration is not a decimal integer: %q", l)
			}
			haveTarget = true
		case strings.HasPrefix(l, "#EXT-X-MEDIA-SEQUENCE:"):
			p.MediaSequence, err = strconv.Atoi(l[len("#EXT-X-MEDIA-SEQUENCE:"):])
			if err != nil {
				return p, fmt.Errorf("m3u8: media sequence: %q", l)
			}
			p.HasMediaSeq = true
		case strings.HasPrefix(l, "#EXT-X-ALLOW-CACHE:"):
			p.AllowCache = l[len("#EXT-X-ALLOW-CACHE:"):]
		case l == "#EXT-X-DISCONTINUITY":
			disc = true
		case strings.HasPrefix(l, "#EXTINF:"):
			if pend != nil {
				return p, fmt.Errorf("m3u8: line %d: EXTINF without a URI before the next EXTINF", n+2)
			}
			v := l[len("#EXTINF:"):]
			if i := strings.Index(v, ","); i >= 0 {
				v = v[:i]
			} else {
				return p, fmt.Errorf("m3u8: EXTINF without comma: %q", l)
			}
			d, e := strconv.ParseFloat(v, 64)
			if e != nil || d < 0 {
				return p, fmt.Errorf("m3u8: EXTINF duration %q", v)
			}
			pend = &M3u8Entry{Duration: d, Discontinuity: disc}
			disc = false
		case l == "#EXT-X-ENDLIST":
			p.EndList = true
			p.EndListCount++
		case strings.HasPrefix(l, "#"):
			// other tags / comments are ignored
		default:
			if pend == nil {
				return p, fmt.Errorf("m3u8: line %d: URI %q without EXTINF", n+2, l)
			}
			pend.URI = l
			p.Entries = append(p.Entries, *pend)
			pend = nil
		}
	}
	if pend != nil {
		return p, errors.New("m3u8: EXTINF without URI at the end")
	}
	if !haveTarget {
		return p, errors.New("m3u8: no EXT-X-TARGETDURATION")
	}
	return p, nil
}
