package ref

import (
	"bufio"
	"crypto/md5"
	"encoding/base64"
	"encoding/hex"
	"errors"
	"fmt"
	"io"
	"net"
	"strconv"
	"strings"
	"sync"
	"time"
)

// RTSP 1.0 (RFC 2326) client — player and publisher, TCP-interleaved and UDP transports,
// Basic/Digest authentication — and an SDP (RFC 4566 / 6184 / 7798 / 3640) parser.

type SdpMedia struct {
	Kind     string // video | audio
	Port     int
	Proto    string
	PTs      []int
	Control  string
	RtpMap   map[int]string            // pt -> "H264/90000"
	Fmtp     map[int]map[string]string // pt -> params
	Codec    string                    // upper-case encoding name of the first pt
	Clock    int
	Channels int
}

type Sdp struct {
	Raw     string
	Control string
	Media   []SdpMedia
}

func ParseSdp(b []byte) (s Sdp, err error) {
	s.Raw = string(b)
	var cur *SdpMedia
	sawV := false
	for _, line := range strings.Split(strings.ReplaceAll(s.Raw, "\r\n", "\n"), "\n") {
		if line == "" {
			continue
		}
		if len(line) < 2 || line[1] != '=' {
			return s, fmt.Errorf("sdp: malformed line %q", line)
		}
		val := line[2:]
		switch line[0] {
		case 'v':
			sawV = true
			if val != "0" {
				return s, fmt.Errorf("sdp: version %q", val)
			}
		case 'm':
			f := strings.Fields(val)
			if len(f) < 4 {
				return s, fmt.Errorf("sdp: m= line %q", val)
			}
			m := SdpMedia{Kind: f[0], Proto: f[2], RtpMap: map[int]string{}, Fmtp: map[int]map[string]string{}}
			m.Port, _ = strconv.Atoi(f[1])
			for _, p := range f[3:] {
				pt, e := strconv.Atoi(p)
				if e != nil {
					return s, fmt.Errorf("sdp: payload type %q", p)
				}
				m.PTs = append(m.PTs, pt)
			}
			s.Media = append(s.Media, m)
			cur = &s.Media[len(s.Media)-1]
		case 'a':
			k, v := val, ""
			if i := strings.Index(val, ":"); i >= 0 {
				k, v = val[:i], val[i+1:]
			}
			switch k {
			case "control":
				if cur == nil {
					s.Control = v
				} else {
					cur.Control = v
				}
			case "rtpmap":
				if cur == nil {
					continue
				}
				f := strings.SplitN(strings.TrimSpace(v), " ", 2)
				if len(f) != 2 {
					return s, fmt.Errorf("sdp: rtpmap %q", v)
				}
				pt, e := strconv.Atoi(f[0])
				if e != nil {
					return s, fmt.Errorf("sdp: rtpmap pt %q", f[0])
				}
				cur.RtpMap[pt] = strings.TrimSpace(f[1])
			case "fmtp":
				if cur == nil {
					continue
				}
				f := strings.SplitN(strings.TrimSpace(v), " ", 2)
				pt, e := strconv.Atoi(f[0])
				if e != nil {
					return s, fmt.Errorf("sdp: fmtp pt %q", f[0])
				}
				params := map[string]string{}
				if len(f) == 2 {
					for _, kv := range strings.Split(f[1], ";") {
						kv = strings.TrimSpace(kv)
						if kv == "" {
							continue
						}
						if i := strings.Index(kv, "="); i >= 0 {
							params[strings.ToLower(kv[:i])] = kv[i+1:]
						} else {
							params[strings.ToLower(kv)] = ""
						}
					}
				}
				cur.Fmtp[pt] = params
			}
		}
	}
	if !sawV {
		return s, errors.New("sdp: no v= line")
	}
	for i := range s.Media {
		m := &s.Media[i]
		if len(m.PTs) == 0 {
			continue
		}
		if rm, ok := m.RtpMap[m.PTs[0]]; ok {
			f := strings.Split(rm, "/")
			m.Codec = strings.ToUpper(f[0])
			if len(f) > 1 {
				m.Clock, _ = strconv.Atoi(f[1])
			}
			if len(f) > 2 {
				m.Channels, _ = strconv.Atoi(f[2])
			}
		} else {
			switch m.PTs[0] {
			case 0:
				m.Codec, m.Clock = "PCMU", 8000
			case 8:
				m.Codec, m.Clock = "PCMA", 8000
			}
		}
	}
	return s, nil
}

// H264ParamSets returns SPS, PPS from sprop-parameter-sets.
func (m SdpMedia) H264ParamSets() (sets [][]byte, err error) {
	p := m.Fmtp[m.PTs[0]]["sprop-parameter-sets"]
	for _, x := range strings.Split(p, ",") {
		if x == "" {
			continue
		}
		b, e := base64.StdEncoding.DecodeString(strings.TrimSpace(x))
		if e != nil {
			return nil, e
		}
		sets = append(sets, b)
	}
	return
}

func (m SdpMedia) H265ParamSets() (vps, sps, pps []byte, err error) {
	f := m.Fmtp[m.PTs[0]]
	if vps, err = base64.StdEncoding.DecodeString(f["sprop-vps"]); err != nil {
		return
	}
	if sps, err = base64.StdEncoding.DecodeString(f["sprop-sps"]); err != nil {
		return
	}
	pps, err = base64.StdEncoding.DecodeString(f["sprop-pps"])
	return
}

func (m SdpMedia) AacConfig() ([]byte, error) {
	return hex.DecodeString(m.Fmtp[m.PTs[0]]["config"])
}

// ---------------------------------------------------------------------------------------

type RtspResp struct {
	Status  int
	Reason  string
	Headers map[string]string // lower-case keys
	Body    []byte
}

type RtspPacket struct {
	Channel int // interleaved channel, or for UDP: track*2 (+1 for RTCP)
	Data    []byte
	At      time.Time
}

type RtspClient struct {
	Conn    net.Conn
	br      *bufio.Reader
	cseq    int
	Session string
	User    string
	Pass    string
	authHdr string
	realm   string
	nonce   string
	authTyp string // "", "Basic", "Digest"
	wmu     sync.Mutex

	respCh chan *RtspResp
	mu     sync.Mutex
	pkts   []RtspPacket
	closed bool
	rdErr  error
	udp    []*net.UDPConn
	// ServerPorts per track after UDP SETUP (rtp, rtcp)
	ServerPorts [][2]int
	// Raw tee of everything read (for framing checks of stalled clients)
	KeepRaw bool
	raw     []byte
	// WebSocket transport (ws-rtsp)
	ws bool
}

func DialRtsp(addr string, timeout time.Duration) (*RtspClient, error) {
	c, err := net.DialTimeout("tcp", addr, timeout)
	if err != nil {
		return nil, err
	}
	rc := &RtspClient{Conn: c, br: bufio.NewReaderSize(c, 65536), respCh: make(chan *RtspResp, 16)}
	go rc.readLoop()
	return rc, nil
}

func (c *RtspClient) Close() {
	c.Conn.Close()
	c.mu.Lock()
	for _, u := range c.udp {
		u.Close()
	}
	c.mu.Unlock()
}

// CloseCommandOnly closes the RTSP command connection and leaves the UDP sockets open, so that RTP
// can still be sent after the session's end was signalled (a publisher that crashed its TCP side).
func (c *RtspClient) CloseCommandOnly() { c.Conn.Close() }

func (c *RtspClient) Closed() bool {
	c.mu.Lock()
	defer c.mu.Unlock()
	return c.closed
}

func (c *RtspClient) Packets() []RtspPacket {
	c.mu.Lock()
	defer c.mu.Unlock()
	return append([]RtspPacket(nil), c.pkts...)
}

func (c *RtspClient) NumPackets() int {
	c.mu.Lock()
	defer c.mu.Unlock()
	return len(c.pkts)
}

func (c *RtspClient) readLoop() {
	defer func() {
		c.mu.Lock()
		c.closed = true
		c.mu.Unlock()
		close(c.respCh)
	}()
	for {
		b, err := c.br.Peek(1)
		if err != nil {
			c.mu.Lock()
			c.rdErr = err
			c.mu.Unlock()
			return
		}
		if b[0] == '$' {
			h := make([]byte, 4)
			if _, err := io.ReadFull(c.br, h); err != nil {
				return
			}
			n := int(h[2])<<8 | int(h[3])
			d := make([]byte, n)
			if _, err := io.ReadFull(c.br, d); err != nil {
				c.mu.Lock()
				c.rdErr = fmt.Errorf("interleaved frame of %d bytes truncated: %w", n, err)
				c.mu.Unlock()
				return
			}
			c.mu.Lock()
			c.pkts = append(c.pkts, RtspPacket{Channel: int(h[1]), Data: d, At: time.Now()})
			c.mu.Unlock()
			continue
		}
		line, err := c.br.ReadString('\n')
		if err != nil {
			return
		}
		line = strings.TrimRight(line, "\r\n")
		if line == "" {
			continue
		}
		f := strings.SplitN(line, " ", 3)
		if len(f) < 2 || !strings.HasPrefix(f[0], "RTSP/") {
			c.mu.Lock()
			c.rdErr = fmt.Errorf("rtsp: unexpected line %q", line)
			c.mu.Unlock()
			return
		}
		r := &RtspResp{Headers: map[string]string{}}
		r.Status, _ = strconv.Atoi(f[1])
		if len(f) > 2 {
			r.Reason = f[2]
		}
		for {
			l, err := c.br.ReadString('\n')
			if err != nil {
				return
			}
			l = strings.TrimRight(l, "\r\n")
			if l == "" {
				break
			}
			if i := strings.Index(l, ":"); i > 0 {
				r.Headers[strings.ToLower(strings.TrimSpace(l[:i]))] = strings.TrimSpace(l[i+1:])
			}
		}
		if cl, ok := r.Headers["content-length"]; ok {
			n, _ := strconv.Atoi(cl)
			if n > 0 && n < 1<<20 {
				r.Body = make([]byte, n)
				if _, err := io.ReadFull(c.br, r.Body); err != nil {
					return
				}
			}
		}
		c.respCh <- r
	}
}

func (c *RtspClient) authorization(method, uri string) string {
	switch c.authTyp {
	case "Basic":
		return "Basic " + base64.StdEncoding.EncodeToString([]byte(c.User+":"+c.Pass))
	case "Digest":
		h := func(s string) string { x := md5.Sum([]byte(s)); return hex.EncodeToString(x[:]) }
		ha1 := h(c.User + ":" + c.realm + ":" + c.Pass)
		ha2 := h(method + ":" + uri)
		resp := h(ha1 + ":" + c.nonce + ":" + ha2)
		return fmt.Sprintf(`Digest username="%s", realm="%s", nonce="%s", uri="%s", response="%s"`, c.User, c.realm, c.nonce, uri, resp)
	}
	return ""
}

// RawRequest sends a request with explicit headers (no automatic auth) and waits for the reply.
func (c *RtspClient) RawRequest(method, uri string, headers []string, body []byte, timeout time.Duration) (*RtspResp, error) {
	c.cseq++
	var sb strings.Builder
	fmt.Fprintf(&sb, "%s %s RTSP/1.0\r\nCSeq: %d\r\nUser-Agent: lalverif\r\n", method, uri, c.cseq)
	if c.Session != "" {
		fmt.Fprintf(&sb, "Session: %s\r\n", c.Session)
	}
	for _, h := range headers {
		sb.WriteString(h + "\r\n")
	}
	if len(body) > 0 {
		fmt.Fprintf(&sb, "Content-Length: %d\r\n", len(body))
	}
	sb.WriteString("\r\n")
	c.wmu.Lock()
	c.Conn.SetWriteDeadline(time.Now().Add(timeout))
	_, err := c.Conn.Write(append([]byte(sb.String()), body...))
	c.wmu.Unlock()
	if err != nil {
		return nil, err
	}
	select {
	case r, ok := <-c.respCh:
		if !ok {
			return nil, errors.New("rtsp: connection closed before the response")
		}
		if s, ok := r.Headers["session"]; ok && c.Session == "" {
			c.Session = strings.SplitN(s, ";", 2)[0]
		}
		return r, nil
	case <-time.After(timeout):
		return nil, errors.New("rtsp: response timeout")
	}
}

// Request sends a request, answering one 401 challenge with the configured credentials.
func (c *RtspClient) Request(method, uri string, headers []string, body []byte, timeout time.Duration) (*RtspResp, error) {
	hs := headers
	if c.authTyp != "" {
		hs = append(append([]string(nil), headers...), "Authorization: "+c.authorization(method, uri))
	}
	r, err := c.RawRequest(method, uri, hs, body, timeout)
	if err != nil {
		return nil, err
	}
	if r.Status == 401 && c.User != "" && c.authTyp == "" {
		wa := r.Headers["www-authenticate"]
		if strings.HasPrefix(wa, "Basic") {
			c.authTyp = "Basic"
		} else if strings.HasPrefix(wa, "Digest") {
			c.authTyp = "Digest"
			c.realm = between(wa, `realm="`, `"`)
			c.nonce = between(wa, `nonce="`, `"`)
		}
		hs = append(append([]string(nil), headers...), "Authorization: "+c.authorization(method, uri))
		return c.RawRequest(method, uri, hs, body, timeout)
	}
	return r, nil
}

func between(s, a, b string) string {
	i := strings.Index(s, a)
	if i < 0 {
		return ""
	}
	s = s[i+len(a):]
	j := strings.Index(s, b)
	if j < 0 {
		return s
	}
	return s[:j]
}

// trackURL resolves a media control attribute against the presentation URL.
func trackURL(base, control string) string {
	if strings.HasPrefix(control, "rtsp://") {
		return control
	}
	return strings.TrimRight(base, "/") + "/" + control
}

// Play performs DESCRIBE / SETUP* / PLAY. udp selects UDP transport.
func (c *RtspClient) Play(url string, udp bool, timeout time.Duration) (sdp Sdp, err error) {
	if sdp, err = c.Prepare(url, udp, timeout); err != nil {
		return sdp, err
	}
	return sdp, c.StartPlay(url, timeout)
}

// StartPlay sends the PLAY of a session that Prepare set up.
func (c *RtspClient) StartPlay(url string, timeout time.Duration) error {
	r, err := c.Request("PLAY", url, []string{"Range: npt=0.000-"}, nil, timeout)
	if err != nil {
		return err
	}
	if r.Status != 200 {
		return fmt.Errorf("PLAY: status %d", r.Status)
	}
	return nil
}

// Prepare performs DESCRIBE / SETUP* only; the caller sends PLAY later (StartPlay).
func (c *RtspClient) Prepare(url string, udp bool, timeout time.Duration) (sdp Sdp, err error) {
	r, err := c.Request("DESCRIBE", url, []string{"Accept: application/sdp"}, nil, timeout)
	if err != nil {
		return sdp, err
	}
	if r.Status != 200 {
		return sdp, fmt.Errorf("DESCRIBE: status %d", r.Status)
	}
	sdp, err = ParseSdp(r.Body)
	if err != nil {
		return sdp, err
	}
	for i, m := range sdp.Media {
		tr := fmt.Sprintf("Transport: RTP/AVP/TCP;unicast;interleaved=%d-%d", 2*i, 2*i+1)
		if udp {
			rtp, rtcp, e := c.openUdpPair(i)
			if e != nil {
				return sdp, e
			}
			tr = fmt.Sprintf("Transport: RTP/AVP/UDP;unicast;client_port=%d-%d", rtp, rtcp)
		}
		r, err = c.Request("SETUP", trackURL(url, m.Control), []string{tr}, nil, timeout)
		if err != nil {
			return sdp, err
		}
		if r.Status != 200 {
			return sdp, fmt.Errorf("SETUP track %d: status %d", i, r.Status)
		}
		c.noteServerPorts(r.Headers["transport"])
	}
	return sdp, nil
}

func (c *RtspClient) noteServerPorts(tr string) {
	sp := between(tr+";", "server_port=", ";")
	var a, b int
	if n, _ := fmt.Sscanf(sp, "%d-%d", &a, &b); n == 2 {
		c.ServerPorts = append(c.ServerPorts, [2]int{a, b})
	} else {
		c.ServerPorts = append(c.ServerPorts, [2]int{0, 0})
	}
}

// openUdpPair opens two consecutive-ish UDP sockets for track i and starts readers.
func (c *RtspClient) openUdpPair(track int) (rtpPort, rtcpPort int, err error) {
	for attempt := 0; attempt < 50; attempt++ {
		a, e := net.ListenUDP("udp", &net.UDPAddr{IP: net.IPv4(127, 0, 0, 1)})
		if e != nil {
			return 0, 0, e
		}
		p := a.LocalAddr().(*net.UDPAddr).Port
		b, e := net.ListenUDP("udp", &net.UDPAddr{IP: net.IPv4(127, 0, 0, 1), Port: p + 1})
		if e != nil {
			a.Close()
			continue
		}
		a.SetReadBuffer(4 << 20)
		c.mu.Lock()
		c.udp = append(c.udp, a, b)
		c.mu.Unlock()
		for k, u := range []*net.UDPConn{a, b} {
			go func(u *net.UDPConn, ch int) {
				buf := make([]byte, 65536)
				for {
					n, _, err := u.ReadFromUDP(buf)
					if err != nil {
						return
					}
					c.mu.Lock()
					c.pkts = append(c.pkts, RtspPacket{Channel: ch, Data: append([]byte(nil), buf[:n]...), At: time.Now()})
					c.mu.Unlock()
				}
			}(u, track*2+k)
		}
		return p, p + 1, nil
	}
	return 0, 0, errors.New("no udp port pair")
}

// Announce performs ANNOUNCE / SETUP* / RECORD for a publisher.
func (c *RtspClient) Announce(url string, sdpBody []byte, nTracks int, controls []string, udp bool, timeout time.Duration) error {
	r, err := c.Request("ANNOUNCE", url, []string{"Content-Type: application/sdp"}, sdpBody, timeout)
	if err != nil {
		return err
	}
	if r.Status != 200 {
		return fmt.Errorf("ANNOUNCE: status %d", r.Status)
	}
	for i := 0; i < nTracks; i++ {
		tr := fmt.Sprintf("Transport: RTP/AVP/TCP;unicast;interleaved=%d-%d;mode=record", 2*i, 2*i+1)
		if udp {
			rtp, rtcp, e := c.openUdpPair(i)
			if e != nil {
				return e
			}
			tr = fmt.Sprintf("Transport: RTP/AVP/UDP;unicast;client_port=%d-%d;mode=record", rtp, rtcp)
		}
		r, err = c.Request("SETUP", trackURL(url, controls[i]), []string{tr}, nil, timeout)
		if err != nil {
			return err
		}
		if r.Status != 200 {
			return fmt.Errorf("SETUP track %d: status %d", i, r.Status)
		}
		c.noteServerPorts(r.Headers["transport"])
	}
	r, err = c.Request("RECORD", url, []string{"Range: npt=0.000-"}, nil, timeout)
	if err != nil {
		return err
	}
	if r.Status != 200 {
		return fmt.Errorf("RECORD: status %d", r.Status)
	}
	return nil
}

// SendInterleaved writes one `$` frame.
func (c *RtspClient) SendInterleaved(channel int, data []byte) error {
	b := append([]byte{'$', byte(channel), byte(len(data) >> 8), byte(len(data))}, data...)
	c.wmu.Lock()
	defer c.wmu.Unlock()
	_, err := c.Conn.Write(b)
	return err
}

// SendUdp sends an RTP (rtcp=false) or RTCP datagram for a track to lal's server port.
func (c *RtspClient) SendUdp(track int, rtcp bool, data []byte) error {
	c.mu.Lock()
	if track*2+1 >= len(c.udp) || track >= len(c.ServerPorts) {
		c.mu.Unlock()
		return errors.New("no udp transport for track")
	}
	u := c.udp[track*2]
	port := c.ServerPorts[track][0]
	if rtcp {
		u = c.udp[track*2+1]
		port = c.ServerPorts[track][1]
	}
	c.mu.Unlock()
	_, err := u.WriteToUDP(data, &net.UDPAddr{IP: net.IPv4(127, 0, 0, 1), Port: port})
	return err
}

// SendUdpCross sends an RTP datagram of `track` to the RTP port the server opened for the OTHER track
// (a peer - or the previous user of a re-used port - may send any datagram to any of the session's ports).
func (c *RtspClient) SendUdpCross(track int, data []byte) error {
	c.mu.Lock()
	other := 1 - track
	if track*2+1 >= len(c.udp) || other < 0 || other >= len(c.ServerPorts) {
		c.mu.Unlock()
		return errors.New("no second udp track")
	}
	u := c.udp[track*2]
	port := c.ServerPorts[other][0]
	c.mu.Unlock()
	_, err := u.WriteToUDP(data, &net.UDPAddr{IP: net.IPv4(127, 0, 0, 1), Port: port})
	return err
}

// BuildSdp builds a publisher SDP.
type SdpTrack struct {
	Kind    string // video | audio
	PT      int
	Codec   string // H264 | H265 | MPEG4-GENERIC | PCMA | PCMU | opus
	Clock   int
	Chans   int
	Sps     []byte
	Pps     []byte
	Vps     []byte
	Asc     []byte
	Control string
}

func BuildSdp(tracks []SdpTrack) []byte {
	var b strings.Builder
	b.WriteString("v=0\r\no=- 0 0 IN IP4 127.0.0.1\r\ns=lalverif\r\nc=IN IP4 127.0.0.1\r\nt=0 0\r\na=tool:lalverif\r\n")
	for _, t := range tracks {
		fmt.Fprintf(&b, "m=%s 0 RTP/AVP %d\r\n", t.Kind, t.PT)
		switch t.Codec {
		case "H264":
			fmt.Fprintf(&b, "a=rtpmap:%d H264/%d\r\n", t.PT, t.Clock)
			fmt.Fprintf(&b, "a=fmtp:%d packetization-mode=1; sprop-parameter-sets=%s,%s; profile-level-id=42C01E\r\n", t.PT, base64.StdEncoding.EncodeToString(t.Sps), base64.StdEncoding.EncodeToString(t.Pps))
		case "H265":
			fmt.Fprintf(&b, "a=rtpmap:%d H265/%d\r\n", t.PT, t.Clock)
			fmt.Fprintf(&b, "a=fmtp:%d sprop-vps=%s; sprop-sps=%s; sprop-pps=%s\r\n", t.PT, base64.StdEncoding.EncodeToString(t.Vps), base64.StdEncoding.EncodeToString(t.Sps), base64.StdEncoding.EncodeToString(t.Pps))
		case "MPEG4-GENERIC":
			fmt.Fprintf(&b, "a=rtpmap:%d MPEG4-GENERIC/%d/%d\r\n", t.PT, t.Clock, t.Chans)
			fmt.Fprintf(&b, "a=fmtp:%d profile-level-id=1;mode=AAC-hbr;sizelength=13;indexlength=3;indexdeltalength=3; config=%s\r\n", t.PT, strings.ToUpper(hex.EncodeToString(t.Asc)))
		case "opus":
			fmt.Fprintf(&b, "a=rtpmap:%d opus/48000/2\r\n", t.PT)
		default:
			fmt.Fprintf(&b, "a=rtpmap:%d %s/%d\r\n", t.PT, t.Codec, t.Clock)
		}
		fmt.Fprintf(&b, "a=control:%s\r\n", t.Control)
	}
	return []byte(b.String())
}
