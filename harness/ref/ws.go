package ref

import (
	"crypto/sha1"
	"encoding/base64"
	"encoding/binary"
	"errors"
	"fmt"
)

// WebSocket (RFC 6455) frame parser / writer.

type WsFrame struct {
	Fin        bool
	Rsv        uint8
	Opcode     uint8
	Masked     bool
	MaskKey    [4]byte
	LenForm    int // 7, 16 or 64
	PayloadLen uint64
	HeaderLen  int
	Payload    []byte
}

var ErrWsShort = errors.New("ws: short")

// ParseWsHeader parses a frame header; it does not need the payload to be present.
func ParseWsHeader(b []byte) (f WsFrame, err error) {
	if len(b) < 2 {
		return f, ErrWsShort
	}
	f.Fin = b[0]&0x80 != 0
	f.Rsv = b[0] >> 4 & 7
	f.Opcode = b[0] & 0x0f
	f.Masked = b[1]&0x80 != 0
	l := b[1] & 0x7f
	n := 2
	switch {
	case l < 126:
		f.PayloadLen, f.LenForm = uint64(l), 7
	case l == 126:
		if len(b) < 4 {
			return f, ErrWsShort
		}
		f.PayloadLen, f.LenForm = uint64(binary.BigEndian.Uint16(b[2:])), 16
		n = 4
		if f.PayloadLen < 126 {
			return f, fmt.Errorf("ws: 16-bit length form used for %d (minimal encoding required)", f.PayloadLen)
		}
	default:
		if len(b) < 10 {
			return f, ErrWsShort
		}
		f.PayloadLen, f.LenForm = binary.BigEndian.Uint64(b[2:]), 64
		n = 10
		if f.PayloadLen>>63 != 0 {
			return f, errors.New("ws: most significant bit of 64-bit length set")
		}
		if f.PayloadLen <= 0xFFFF {
			return f, fmt.Errorf("ws: 64-bit length form used for %d (minimal encoding required)", f.PayloadLen)
		}
	}
	if f.Masked {
		if len(b) < n+4 {
			return f, ErrWsShort
		}
		copy(f.MaskKey[:], b[n:])
		n += 4
	}
	f.HeaderLen = n
	return f, nil
}

// WsParser is an incremental frame parser.
type WsParser struct {
	buf    []byte
	Frames []WsFrame
	Err    error
}

func (p *WsParser) Feed(b []byte) {
	if p.Err != nil {
		return
	}
	p.buf = append(p.buf, b...)
	for {
		f, err := ParseWsHeader(p.buf)
		if err == ErrWsShort {
			return
		}
		if err != nil {
			p.Err = err
			return
		}
		if uint64(len(p.buf)-f.HeaderLen) < f.PayloadLen {
			return
		}
		f.Payload = append([]byte(nil), p.buf[f.HeaderLen:f.HeaderLen+int(f.PayloadLen)]...)
		if f.Masked {
			for i := range f.Payload {
				f.Payload[i] ^= f.MaskKey[i%4]
			}
		}
		p.buf = p.buf[f.HeaderLen+int(f.PayloadLen):]
		p.Frames = append(p.Frames, f)
	}
}

func (p *WsParser) Pending() int { return len(p.buf) }

// WsEncode builds a frame; clients must mask.
func WsEncode(opcode uint8, fin bool, payload []byte, mask *[4]byte) []byte {
	b := []byte{opcode}
	if fin {
		b[0] |= 0x80
	}
	l := len(payload)
	mb := byte(0)
	if mask != nil {
		mb = 0x80
	}
	switch {
	case l < 126:
		b = append(b, mb|byte(l))
	case l <= 0xFFFF:
		b = append(b, mb|126, byte(l>>8), byte(l))
	default:
		b = append(b, mb|127, 0, 0, 0, 0, byte(l>>24), byte(l>>16), byte(l>>8), byte(l))
	}
	if mask != nil {
		b = append(b, mask[:]...)
		for i, x := range payload {
			b = append(b, x^mask[i%4])
		}
	} else {
		b = append(b, payload...)
	}
	return b
}

// WsAccept computes Sec-WebSocket-Accept.
func WsAccept(key string) string {
	s := sha1.Sum([]byte(key + "258EAFA5-E914-47DA-95CA-C5AB0DC85B11"))
	return base64.StdEncoding.EncodeToString(s[:])
}
