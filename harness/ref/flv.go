package ref

import (
	"errors"
	"fmt"
)

// FLV (Adobe Flash Video File Format Specification v10.1, Annex E) strict parser.

type FlvTag struct {
	Type     uint8
	Ts       uint32
	StreamID uint32
	Data     []byte
}

// FlvParser is incremental: Feed appends bytes, complete tags are appended to Tags.
type FlvParser struct {
	buf        []byte
	HeaderDone bool
	HasAudio   bool
	HasVideo   bool
	Tags       []FlvTag
	Err        error
	Consumed   int
	// NoHeader: the stream starts directly with tags (not used by lal outputs).
	NoHeader bool
}

func (p *FlvParser) Feed(b []byte) {
	if p.Err != nil {
		return
	}
	p.buf = append(p.buf, b...)
	for p.Err == nil {
		if !p.HeaderDone && !p.NoHeader {
			if len(p.buf) < 13 {
				return
			}
			h := p.buf
			if h[0] != 'F' || h[1] != 'L' || h[2] != 'V' {
				p.Err = fmt.Errorf("flv: signature % x", h[:3])
				return
			}
			if h[3] != 1 {
				p.Err = fmt.Errorf("flv: version %d", h[3])
				return
			}
			if h[4]&0xFA != 0 {
				p.Err = fmt.Errorf("flv: reserved flag bits set (%#x)", h[4])
				return
			}
			p.HasAudio, p.HasVideo = h[4]&4 != 0, h[4]&1 != 0
			if off := uint32(h[5])<<24 | uint32(h[6])<<16 | uint32(h[7])<<8 | uint32(h[8]); off != 9 {
				p.Err = fmt.Errorf("flv: data offset %d", off)
				return
			}
			if h[9] != 0 || h[10] != 0 || h[11] != 0 || h[12] != 0 {
				p.Err = errors.New("flv: PreviousTagSize0 != 0")
				return
			}
			p.buf = p.buf[13:]
			p.Consumed += 13
			p.HeaderDone = true
			continue
		}
		if len(p.buf) < 11 {
			return
		}
		h := p.buf
		if h[0]&0xC0 != 0 {
			p.Err = fmt.Errorf("flv: tag reserved bits set (%#x) at offset %d", h[0], p.Consumed)
			return
		}
		typ := h[0] & 0x1f
		if typ != 8 && typ != 9 && typ != 18 {
			p.Err = fmt.Errorf("flv: tag type %d at offset %d", typ, p.Consumed)
			return
		}
		ds := int(h[1])<<16 | int(h[2])<<8 | int(h[3])
		if len(p.buf) < 11+ds+4 {
			return
		}
		ts := uint32(h[4])<<16 | uint32(h[5])<<8 | uint32(h[6]) | uint32(h[7])<<24
		sid := uint32(h[8])<<16 | uint32(h[9])<<8 | uint32(h[10])
		if sid != 0 {
			p.Err = fmt.Errorf("flv: stream id %d at offset %d", sid, p.Consumed)
			return
		}
		t := p.buf[11+ds:]
		prev := uint32(t[0])<<24 | uint32(t[1])<<16 | uint32(t[2])<<8 | uint32(t[3])
		if prev != uint32(11+ds) {
			p.Err = fmt.Errorf("flv: PreviousTagSize %d after a tag of %d bytes at offset %d", prev, 11+ds, p.Consumed)
			return
		}
		p.Tags = append(p.Tags, FlvTag{Type: typ, Ts: ts, StreamID: sid, Data: append([]byte(nil), p.buf[11:11+ds]...)})
		p.buf = p.buf[11+ds+4:]
		p.Consumed += 11 + ds + 4
	}
}

// Pending returns the number of bytes fed but not yet forming a whole unit.
func (p *FlvParser) Pending() int { return len(p.buf) }

// ParseFlvAll parses a complete FLV byte string; trailing partial data is an error.
func ParseFlvAll(b []byte) ([]FlvTag, error) {
	var p FlvParser
	p.Feed(b)
	if p.Err != nil {
		return p.Tags, p.Err
	}
	if !p.HeaderDone {
		return nil, errors.New("flv: no complete header")
	}
	if p.Pending() != 0 {
		return p.Tags, fmt.Errorf("flv: %d trailing bytes do not form a tag", p.Pending())
	}
	return p.Tags, nil
}
