package ref

import (
	"encoding/binary"
	"errors"
	"fmt"
	"io"
)

// RTMP chunk stream (Adobe RTMP specification 1.0, section 5.3) reference writer and reader.

type RtmpMsg struct {
	Csid     int
	TypeID   uint8
	StreamID uint32
	Ts       uint32 // absolute, milliseconds
	Payload  []byte
}

func (m RtmpMsg) String() string {
	return fmt.Sprintf("{csid=%d type=%d msid=%d ts=%d len=%d}", m.Csid, m.TypeID, m.StreamID, m.Ts, len(m.Payload))
}

type csWriteState struct {
	have     bool
	ts       uint32 // absolute timestamp of the previous message
	delta    uint32 // delta in force (for fmt 3 on a new message); after fmt 0: the absolute ts (spec 5.3.1.2.4)
	deltaOK  bool   // the delta in force is < 0xFFFFFF (usable without extended delta)
	length   int
	typeID   uint8
	streamID uint32
}

type ChunkWriter struct {
	ChunkSize int
	st        map[int]*csWriteState
}

func NewChunkWriter(chunkSize int) *ChunkWriter {
	return &ChunkWriter{ChunkSize: chunkSize, st: map[int]*csWriteState{}}
}

// LegalFormats lists the header formats the spec allows for the first chunk of m given the
// chunk stream's history, restricted to timestamp deltas below 0xFFFFFF (no extended deltas).
func (w *ChunkWriter) LegalFormats(m RtmpMsg) []int {
	out := []int{0}
	s := w.st[m.Csid]
	if s == nil || !s.have || s.streamID != m.StreamID || m.Ts < s.ts {
		return out
	}
	d := m.Ts - s.ts
	if d >= 0xFFFFFF {
		return out
	}
	out = append(out, 1)
	if s.length == len(m.Payload) && s.typeID == m.TypeID {
		out = append(out, 2)
		if s.deltaOK && s.delta == d {
			out = append(out, 3)
		}
	}
	return out
}

func basicHeader(dst []byte, fmtv int, csid int) []byte {
	switch {
	case csid >= 2 && csid <= 63:
		return append(dst, byte(fmtv<<6|csid))
	case csid >= 64 && csid <= 319:
		return append(dst, byte(fmtv<<6), byte(csid-64))
	default:
		return append(dst, byte(fmtv<<6|1), byte((csid-64)&0xff), byte((csid-64)>>8))
	}
}

func put24(dst []byte, v uint32) []byte { return append(dst, byte(v>>16), byte(v>>8), byte(v)) }

// PendingMsg is a message whose first-chunk header has been fixed and whose chunks are
// produced one at a time, so that chunk streams can be interleaved and the chunk size can
// change between chunks.
type PendingMsg struct {
	Msg   RtmpMsg
	hdr   []byte
	ext   bool
	extV  uint32
	rest  []byte
	first bool
}

func (p *PendingMsg) Done() bool { return !p.first && len(p.rest) == 0 }

// Next returns the next chunk using the given chunk size.
func (p *PendingMsg) Next(chunkSize int) []byte {
	var c []byte
	if p.first {
		c = append(c, p.hdr...)
	} else {
		c = basicHeader(c, 3, p.Msg.Csid)
		if p.ext {
			var b [4]byte
			binary.BigEndian.PutUint32(b[:], p.extV)
			c = append(c, b[:]...)
		}
	}
	n := len(p.rest)
	if n > chunkSize {
		n = chunkSize
	}
	c = append(c, p.rest[:n]...)
	p.rest = p.rest[n:]
	p.first = false
	return c
}

// Start fixes the header of m (fmtv must be in LegalFormats(m)) and updates the chunk
// stream's state.
func (w *ChunkWriter) Start(m RtmpMsg, fmtv int) *PendingMsg {
	s := w.st[m.Csid]
	if s == nil {
		s = &csWriteState{}
		w.st[m.Csid] = s
	}
	var tsField uint32 // value for the 3-byte field (before capping)
	switch fmtv {
	case 0:
		tsField = m.Ts
	case 1, 2:
		tsField = m.Ts - s.ts
	}
	ext := false
	var extVal uint32
	hdr := basicHeader(nil, fmtv, m.Csid)
	if fmtv <= 2 {
		if tsField >= 0xFFFFFF {
			ext, extVal = true, tsField
			hdr = put24(hdr, 0xFFFFFF)
		} else {
			hdr = put24(hdr, tsField)
		}
	}
	if fmtv <= 1 {
		hdr = put24(hdr, uint32(len(m.Payload)))
		hdr = append(hdr, m.TypeID)
	}
	if fmtv == 0 {
		var b [4]byte
		binary.LittleEndian.PutUint32(b[:], m.StreamID)
		hdr = append(hdr, b[:]...)
	}
	if ext {
		var b [4]byte
		binary.BigEndian.PutUint32(b[:], extVal)
		hdr = append(hdr, b[:]...)
	}
	// update state
	switch fmtv {
	case 0:
		s.delta, s.deltaOK = m.Ts, m.Ts < 0xFFFFFF
	case 1, 2:
		s.delta, s.deltaOK = m.Ts-s.ts, true
	}
	s.have, s.ts, s.length, s.typeID, s.streamID = true, m.Ts, len(m.Payload), m.TypeID, m.StreamID
	return &PendingMsg{Msg: m, hdr: hdr, ext: ext, extV: extVal, rest: m.Payload, first: true}
}

// Encode serialises m into its chunks (one []byte per chunk) with the current chunk size.
func (w *ChunkWriter) Encode(m RtmpMsg, fmtv int) [][]byte {
	p := w.Start(m, fmtv)
	var chunks [][]byte
	for !p.Done() {
		chunks = append(chunks, p.Next(w.ChunkSize))
	}
	return chunks
}

// EncodeSimple encodes with format 0 and returns the concatenated bytes.
func (w *ChunkWriter) EncodeSimple(m RtmpMsg) []byte {
	var out []byte
	for _, c := range w.Encode(m, 0) {
		out = append(out, c...)
	}
	return out
}

// ---------------------------------------------------------------------------------------

type csReadState struct {
	have     bool
	ts       uint32
	delta    uint32
	ext      bool
	length   int
	typeID   uint8
	streamID uint32
	buf      []byte
	inMsg    bool
}

// ChunkReader is a strict specification-conforming chunk stream reader.
type ChunkReader struct {
	ChunkSize int
	MaxMsgLen int // refuse larger declared lengths (0 = 16 MiB)
	st        map[int]*csReadState
	// SplitAggregate: deliver sub-messages of type 22 instead of the aggregate.
	SplitAggregate bool
}

func NewChunkReader() *ChunkReader {
	return &ChunkReader{ChunkSize: 128, st: map[int]*csReadState{}}
}

// ReadMsg reads chunks from r until one message completes. Set Chunk Size messages are
// applied and also returned.
func (cr *ChunkReader) ReadMsg(r io.Reader) (m RtmpMsg, err error) {
	var b [16]byte
	for {
		if _, err = io.ReadFull(r, b[:1]); err != nil {
			return
		}
		fmtv := int(b[0] >> 6)
		csid := int(b[0] & 0x3f)
		switch csid {
		case 0:
			if _, err = io.ReadFull(r, b[:1]); err != nil {
				return m, unexpected(err)
			}
			csid = 64 + int(b[0])
		case 1:
			if _, err = io.ReadFull(r, b[:2]); err != nil {
				return m, unexpected(err)
			}
			csid = 64 + int(b[0]) + int(b[1])<<8
		}
		s := cr.st[csid]
		if s == nil {
			s = &csReadState{}
			cr.st[csid] = s
		}
		if fmtv != 0 && !s.have {
			return m, fmt.Errorf("chunk: format %d on chunk stream %d without a preceding format 0", fmtv, csid)
		}
		if s.inMsg && fmtv != 3 {
			return m, fmt.Errorf("chunk: format %d inside a message on chunk stream %d", fmtv, csid)
		}
		var field uint32
		switch fmtv {
		case 0:
			if _, err = io.ReadFull(r, b[:11]); err != nil {
				return m, unexpected(err)
			}
			field = uint32(b[0])<<16 | uint32(b[1])<<8 | uint32(b[2])
			s.length = int(b[3])<<16 | int(b[4])<<8 | int(b[5])
			s.typeID = b[6]
			s.streamID = binary.LittleEndian.Uint32(b[7:])
		case 1:
			if _, err = io.ReadFull(r, b[:7]); err != nil {
				return m, unexpected(err)
			}
			field = uint32(b[0])<<16 | uint32(b[1])<<8 | uint32(b[2])
			s.length = int(b[3])<<16 | int(b[4])<<8 | int(b[5])
			s.typeID = b[6]
		case 2:
			if _, err = io.ReadFull(r, b[:3]); err != nil {
				return m, unexpected(err)
			}
			field = uint32(b[0])<<16 | uint32(b[1])<<8 | uint32(b[2])
		}
		if fmtv <= 2 {
			s.ext = field == 0xFFFFFF
		}
		if s.ext {
			if _, err = io.ReadFull(r, b[:4]); err != nil {
				return m, unexpected(err)
			}
			v := binary.BigEndian.Uint32(b[:4])
			if fmtv <= 2 {
				field = v
			}
		}
		if !s.inMsg {
			switch fmtv {
			case 0:
				s.ts, s.delta = field, field
			case 1, 2:
				s.delta = field
				s.ts += field
			case 3:
				s.ts += s.delta
			}
			s.have = true
			max := cr.MaxMsgLen
			if max == 0 {
				max = 1 << 24
			}
			if s.length > max {
				return m, fmt.Errorf("chunk: message length %d", s.length)
			}
			s.buf = make([]byte, 0, s.length)
			s.inMsg = true
		}
		n := s.length - len(s.buf)
		if n > cr.ChunkSize {
			n = cr.ChunkSize
		}
		old := len(s.buf)
		s.buf = s.buf[:old+n]
		if _, err = io.ReadFull(r, s.buf[old:]); err != nil {
			return m, unexpected(err)
		}
		if len(s.buf) == s.length {
			s.inMsg = false
			m = RtmpMsg{Csid: csid, TypeID: s.typeID, StreamID: s.streamID, Ts: s.ts, Payload: s.buf}
			s.buf = nil
			if m.TypeID == 1 && len(m.Payload) >= 4 {
				v := int(binary.BigEndian.Uint32(m.Payload) & 0x7fffffff)
				if v >= 1 {
					cr.ChunkSize = v
				}
			}
			return m, nil
		}
	}
}

func unexpected(err error) error {
	if err == io.EOF {
		return io.ErrUnexpectedEOF
	}
	return err
}

// SplitAggregate splits the body of a type-22 message (spec 7.1.6).
func SplitAggregate(m RtmpMsg) (out []RtmpMsg, err error) {
	b := m.Payload
	first := true
	var base uint32
	for len(b) > 0 {
		if len(b) < 11 {
			return out, errors.New("aggregate: short sub header")
		}
		typ := b[0]
		l := int(b[1])<<16 | int(b[2])<<8 | int(b[3])
		ts := uint32(b[4])<<16 | uint32(b[5])<<8 | uint32(b[6]) | uint32(b[7])<<24
		sid := uint32(b[8])<<16 | uint32(b[9])<<8 | uint32(b[10])
		if len(b) < 11+l+4 {
			return out, errors.New("aggregate: short sub body")
		}
		if first {
			base = ts
			first = false
		}
		// RTMP 1.0 §7.1.6 (informally: 6.1.2): the message stream id of the aggregate overrides the ids in the sub-message headers
		_ = sid
		out = append(out, RtmpMsg{Csid: m.Csid, TypeID: typ, StreamID: m.StreamID, Ts: m.Ts + ts - base, Payload: b[11 : 11+l]})
		b = b[11+l+4:]
	}
	return out, nil
}

// BuildAggregate builds the body of a type-22 message from sub-messages (FLV-tag layout).
func BuildAggregate(subs []RtmpMsg) []byte {
	var b []byte
	for _, s := range subs {
		l := len(s.Payload)
		b = append(b, s.TypeID, byte(l>>16), byte(l>>8), byte(l), byte(s.Ts>>16), byte(s.Ts>>8), byte(s.Ts), byte(s.Ts>>24),
			byte(s.StreamID>>16), byte(s.StreamID>>8), byte(s.StreamID))
		b = append(b, s.Payload...)
		t := uint32(11 + l)
		b = append(b, byte(t>>24), byte(t>>16), byte(t>>8), byte(t))
	}
	return b
}
