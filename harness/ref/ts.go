// Package ref holds from-the-spec reference codecs used by the oracles. Nothing in this
// package imports lal or naza.
package ref

import (
	"errors"
	"fmt"
)

// ---------------------------------------------------------------------------------------
// MPEG-TS (ISO/IEC 13818-1) demultiplexer.

// Crc32Mpeg2 is CRC-32/MPEG-2: poly 0x04C11DB7, init 0xFFFFFFFF, no reflection, no xorout.
func Crc32Mpeg2(b []byte) uint32 {
	crc := uint32(0xFFFFFFFF)
	for _, x := range b {
		crc ^= uint32(x) << 24
		for i := 0; i < 8; i++ {
			if crc&0x80000000 != 0 {
				crc = (crc << 1) ^ 0x04C11DB7
			} else {
				crc <<= 1
			}
		}
	}
	return crc
}

type TsPacket struct {
	PID           uint16
	PUSI          bool
	TEI           bool
	Scrambling    uint8
	AFC           uint8
	CC            uint8
	AFLen         int // adaptation_field_length (−1 if no adaptation field)
	Discontinuity bool
	RAI           bool
	PCRFlag       bool
	PCRBase       uint64
	PCRExt        uint16
	StuffingOK    bool // all stuffing bytes in the adaptation field are 0xFF
	Payload       []byte
}

// ParseTsPacket parses one 188-byte transport packet strictly.
func ParseTsPacket(b []byte) (p TsPacket, err error) {
	if len(b) != 188 {
		return p, fmt.Errorf("ts: packet length %d", len(b))
	}
	if b[0] != 0x47 {
		return p, fmt.Errorf("ts: sync byte %#x", b[0])
	}
	p.TEI = b[1]&0x80 != 0
	p.PUSI = b[1]&0x40 != 0
	p.PID = uint16(b[1]&0x1f)<<8 | uint16(b[2])
	p.Scrambling = b[3] >> 6
	p.AFC = (b[3] >> 4) & 3
	p.CC = b[3] & 0x0f
	p.AFLen = -1
	p.StuffingOK = true
	pos := 4
	if p.AFC == 0 {
		return p, errors.New("ts: adaptation_field_control 0 is reserved")
	}
	if p.AFC&2 != 0 {
		l := int(b[4])
		p.AFLen = l
		if p.AFC == 3 && l > 182 {
			return p, fmt.Errorf("ts: adaptation_field_length %d > 182 with payload", l)
		}
		if p.AFC == 2 && l != 183 {
			return p, fmt.Errorf("ts: adaptation_field_length %d != 183 without payload", l)
		}
		pos = 5 + l
		if l > 0 {
			fl := b[5]
			p.Discontinuity = fl&0x80 != 0
			p.RAI = fl&0x40 != 0
			p.PCRFlag = fl&0x10 != 0
			q := 6
			if p.PCRFlag {
				if l < 7 {
					return p, fmt.Errorf("ts: PCR flag with adaptation_field_length %d", l)
				}
				p.PCRBase = uint64(b[6])<<25 | uint64(b[7])<<17 | uint64(b[8])<<9 | uint64(b[9])<<1 | uint64(b[10]>>7)
				p.PCRExt = uint16(b[10]&1)<<8 | uint16(b[11])
				q += 6
			}
			if fl&0x08 != 0 { // OPCR
				q += 6
			}
			if fl&0x04 != 0 { // splice
				q += 1
			}
			if fl&0x03 != 0 {
				// private data / extension: not produced by the code under test
				return p, fmt.Errorf("ts: unexpected adaptation flags %#x", fl)
			}
			if q > 5+l {
				return p, fmt.Errorf("ts: adaptation field optional fields exceed length %d", l)
			}
			for ; q < 5+l; q++ {
				if b[q] != 0xFF {
					p.StuffingOK = false
				}
			}
		}
	}
	if p.AFC&1 != 0 {
		if pos > 188 {
			return p, errors.New("ts: adaptation field overruns packet")
		}
		p.Payload = b[pos:]
		if len(p.Payload) == 0 {
			return p, errors.New("ts: payload flag set with empty payload")
		}
	}
	return p, nil
}

type PesHeader struct {
	StreamID  uint8
	PacketLen int
	HasPTS    bool
	HasDTS    bool
	PTS       uint64
	DTS       uint64
	HdrLen    int // total bytes before the elementary payload
}

func parseTs33(b []byte, prefix uint8) (uint64, error) {
	if b[0]>>4 != prefix {
		return 0, fmt.Errorf("pes: timestamp prefix %#x want %#x", b[0]>>4, prefix)
	}
	if b[0]&1 != 1 || b[2]&1 != 1 || b[4]&1 != 1 {
		return 0, errors.New("pes: timestamp marker bits")
	}
	return uint64(b[0]>>1&7)<<30 | uint64(b[1])<<22 | uint64(b[2]>>1)<<15 | uint64(b[3])<<7 | uint64(b[4]>>1), nil
}

// ParsePesHeader parses a PES packet header (stream ids with the optional header).
func ParsePesHeader(b []byte) (h PesHeader, err error) {
	if len(b) < 9 {
		return h, fmt.Errorf("pes: short header (%d bytes)", len(b))
	}
	if b[0] != 0 || b[1] != 0 || b[2] != 1 {
		return h, fmt.Errorf("pes: start code prefix % x", b[:3])
	}
	h.StreamID = b[3]
	h.PacketLen = int(b[4])<<8 | int(b[5])
	if b[6]&0xC0 != 0x80 {
		return h, fmt.Errorf("pes: marker '10' missing (%#x)", b[6])
	}
	flags := b[7] >> 6
	hl := int(b[8])
	h.HdrLen = 9 + hl
	if len(b) < h.HdrLen {
		return h, errors.New("pes: header data exceeds buffer")
	}
	switch flags {
	case 2:
		if hl < 5 {
			return h, errors.New("pes: header_data_length too small for PTS")
		}
		h.HasPTS = true
		if h.PTS, err = parseTs33(b[9:], 2); err != nil {
			return
		}
		h.DTS = h.PTS
	case 3:
		if hl < 10 {
			return h, errors.New("pes: header_data_length too small for PTS+DTS")
		}
		h.HasPTS, h.HasDTS = true, true
		if h.PTS, err = parseTs33(b[9:], 3); err != nil {
			return
		}
		if h.DTS, err = parseTs33(b[14:], 1); err != nil {
			return
		}
	case 1:
		return h, errors.New("pes: PTS_DTS_flags 01 forbidden")
	}
	return h, nil
}

type PmtStream struct {
	StreamType  uint8
	PID         uint16
	Descriptors []byte
}

type Psi struct {
	TableID    uint8
	SectionLen int
	TableIDExt uint16
	Version    uint8
	CurrentNxt bool
	SecNum     uint8
	LastSecNum uint8
	CrcOK      bool
	// PAT
	Programs map[uint16]uint16 // program number -> PMT pid
	// PMT
	PcrPID  uint16
	Streams []PmtStream
}

// ParsePsi parses the payload of a PUSI packet carrying one PSI section.
func ParsePsi(payload []byte) (s Psi, err error) {
	if len(payload) < 1 {
		return s, errors.New("psi: empty")
	}
	ptr := int(payload[0])
	if 1+ptr+3 > len(payload) {
		return s, errors.New("psi: pointer field beyond payload")
	}
	sec := payload[1+ptr:]
	s.TableID = sec[0]
	if sec[1]&0x80 == 0 {
		return s, errors.New("psi: section_syntax_indicator 0")
	}
	if sec[1]&0x40 != 0 {
		return s, errors.New("psi: '0' bit set")
	}
	s.SectionLen = int(sec[1]&0x0f)<<8 | int(sec[2])
	if s.SectionLen > 1021 || 3+s.SectionLen > len(sec) || s.SectionLen < 9 {
		return s, fmt.Errorf("psi: section_length %d", s.SectionLen)
	}
	full := sec[:3+s.SectionLen]
	s.CrcOK = Crc32Mpeg2(full) == 0
	for _, x := range sec[3+s.SectionLen:] {
		if x != 0xFF {
			return s, errors.New("psi: bytes after section are not 0xFF stuffing")
		}
	}
	s.TableIDExt = uint16(full[3])<<8 | uint16(full[4])
	s.Version = full[5] >> 1 & 0x1f
	s.CurrentNxt = full[5]&1 != 0
	s.SecNum, s.LastSecNum = full[6], full[7]
	body := full[8 : len(full)-4]
	switch s.TableID {
	case 0:
		if len(body)%4 != 0 {
			return s, errors.New("pat: body not multiple of 4")
		}
		s.Programs = map[uint16]uint16{}
		for i := 0; i < len(body); i += 4 {
			s.Programs[uint16(body[i])<<8|uint16(body[i+1])] = uint16(body[i+2]&0x1f)<<8 | uint16(body[i+3])
		}
	case 2:
		if len(body) < 4 {
			return s, errors.New("pmt: short")
		}
		s.PcrPID = uint16(body[0]&0x1f)<<8 | uint16(body[1])
		pil := int(body[2]&0x0f)<<8 | int(body[3])
		q := 4 + pil
		if q > len(body) {
			return s, errors.New("pmt: program_info_length beyond section")
		}
		for q < len(body) {
			if q+5 > len(body) {
				return s, errors.New("pmt: truncated stream entry")
			}
			st := PmtStream{StreamType: body[q], PID: uint16(body[q+1]&0x1f)<<8 | uint16(body[q+2])}
			eil := int(body[q+3]&0x0f)<<8 | int(body[q+4])
			q += 5
			if q+eil > len(body) {
				return s, errors.New("pmt: ES_info_length beyond section")
			}
			st.Descriptors = body[q : q+eil]
			// descriptors must tile exactly
			d := 0
			for d < eil {
				if d+2 > eil || d+2+int(st.Descriptors[d+1]) > eil {
					return s, errors.New("pmt: descriptor overruns ES_info")
				}
				d += 2 + int(st.Descriptors[d+1])
			}
			q += eil
			s.Streams = append(s.Streams, st)
		}
	default:
		return s, fmt.Errorf("psi: unexpected table id %d", s.TableID)
	}
	return s, nil
}

// Pes is one reassembled PES packet.
type Pes struct {
	PID      uint16
	Hdr      PesHeader
	RAI      bool
	PCR      bool
	PCRBase  uint64
	Data     []byte
	NPackets int
	FirstIdx int // index of the first TS packet in the demuxed stream
}

// TsDemux is a streaming demultiplexer: PAT → PMT → PES per elementary PID.
type TsDemux struct {
	PatSeen, PmtSeen bool
	PmtPID           uint16
	Pat              Psi
	Pmt              Psi
	FirstPmt         Psi
	PatCount         int
	PmtCount         int
	StreamTypes      map[uint16]uint8
	Out              []Pes
	Errs             []string
	CCErrs           []string // continuity-counter discontinuities (kept apart: legal where frames are dropped on purpose)
	// CheckCC: report continuity errors (reset by ResetCC at segment joins where needed)
	lastCC map[uint16]int
	cur    map[uint16]*Pes
	idx    int
	// OnPsi is called for every PAT/PMT packet with the packet index.
	PsiIdx []int
	PmtLog []PmtAt // every PMT seen, with the index of its TS packet
}

// PmtAt is one PMT occurrence in the demuxed stream.
type PmtAt struct {
	Idx int
	Pmt Psi
}

// PmtInForce returns the last PMT that precedes TS packet idx (ok=false if none).
func (d *TsDemux) PmtInForce(idx int) (Psi, bool) {
	var out Psi
	ok := false
	for _, p := range d.PmtLog {
		if p.Idx < idx {
			out, ok = p.Pmt, true
		}
	}
	return out, ok
}

func NewTsDemux() *TsDemux {
	return &TsDemux{StreamTypes: map[uint16]uint8{}, lastCC: map[uint16]int{}, cur: map[uint16]*Pes{}}
}

func (d *TsDemux) errf(format string, a ...interface{}) {
	if len(d.Errs) < 50 {
		d.Errs = append(d.Errs, fmt.Sprintf("pkt %d: ", d.idx)+fmt.Sprintf(format, a...))
	}
}

// ForgetCC forgets continuity state for all PIDs (used for PSI which lal always sends with cc 0).
func (d *TsDemux) ForgetCC(pid uint16) { delete(d.lastCC, pid) }

// Feed consumes whole packets; len(b) must be a multiple of 188.
func (d *TsDemux) Feed(b []byte) {
	if len(b)%188 != 0 {
		d.errf("feed length %d not a multiple of 188", len(b))
	}
	for o := 0; o+188 <= len(b); o += 188 {
		d.feedPacket(b[o : o+188])
		d.idx++
	}
}

func (d *TsDemux) feedPacket(b []byte) {
	p, err := ParseTsPacket(b)
	if err != nil {
		d.errf("%v", err)
		return
	}
	if p.PID == 0 || (d.PatSeen && p.PID == d.PmtPID) {
		if !p.PUSI {
			d.errf("psi packet without PUSI")
			return
		}
		s, err := ParsePsi(p.Payload)
		if err != nil {
			d.errf("%v", err)
			return
		}
		if !s.CrcOK {
			d.errf("psi crc mismatch (table %d)", s.TableID)
		}
		d.PsiIdx = append(d.PsiIdx, d.idx)
		if p.PID == 0 {
			if s.TableID != 0 {
				d.errf("table id %d on PID 0", s.TableID)
				return
			}
			d.PatSeen, d.Pat = true, s
			d.PatCount++
			for _, pid := range s.Programs {
				d.PmtPID = pid
			}
		} else {
			if s.TableID != 2 {
				d.errf("table id %d on PMT pid", s.TableID)
				return
			}
			if !d.PmtSeen {
				d.FirstPmt = s
			}
			d.PmtSeen, d.Pmt = true, s
			d.PmtCount++
			d.PmtLog = append(d.PmtLog, PmtAt{d.idx, s})
			for _, st := range s.Streams {
				d.StreamTypes[st.PID] = st.StreamType
			}
		}
		return
	}
	if p.PID == 0x1fff {
		return
	}
	// elementary stream
	if last, ok := d.lastCC[p.PID]; ok && p.AFC&1 != 0 {
		if int(p.CC) != (last+1)&15 {
			if len(d.CCErrs) < 50 {
				d.CCErrs = append(d.CCErrs, fmt.Sprintf("pkt %d: pid %#x continuity %d after %d", d.idx, p.PID, p.CC, last))
			}
		}
	}
	if p.AFC&1 != 0 {
		d.lastCC[p.PID] = int(p.CC)
	}
	if !p.StuffingOK {
		d.errf("pid %#x adaptation stuffing not 0xFF", p.PID)
	}
	if p.PUSI {
		d.flushPid(p.PID)
		h, err := ParsePesHeader(p.Payload)
		if err != nil {
			d.errf("pid %#x: %v", p.PID, err)
			return
		}
		d.cur[p.PID] = &Pes{PID: p.PID, Hdr: h, RAI: p.RAI, PCR: p.PCRFlag, PCRBase: p.PCRBase, NPackets: 1, FirstIdx: d.idx,
			Data: append([]byte(nil), p.Payload[h.HdrLen:]...)}
		return
	}
	c := d.cur[p.PID]
	if c == nil {
		// continuation without a start: tolerated only before the first PUSI of the pid
		return
	}
	if p.RAI || p.PCRFlag {
		d.errf("pid %#x: random-access/PCR on a non-first packet", p.PID)
	}
	c.Data = append(c.Data, p.Payload...)
	c.NPackets++
}

func (d *TsDemux) flushPid(pid uint16) {
	c := d.cur[pid]
	if c == nil {
		return
	}
	delete(d.cur, pid)
	if c.Hdr.PacketLen != 0 {
		want := c.Hdr.PacketLen - (c.Hdr.HdrLen - 6)
		if want != len(c.Data) {
			d.errf("pid %#x: PES_packet_length says %d payload bytes, got %d", pid, want, len(c.Data))
		}
	}
	d.Out = append(d.Out, *c)
}

// Flush completes all pending PES packets (end of stream).
func (d *TsDemux) Flush() {
	for pid := range d.cur {
		d.flushPid(pid)
	}
}

// ---------------------------------------------------------------------------------------
// ADTS (ISO/IEC 13818-7 / 14496-3)

type AdtsFrame struct {
	Profile     int // object type − 1
	SampIdx     int
	ChannelConf int
	FrameLen    int
	Payload     []byte
}

// SplitAdts splits a buffer of back-to-back ADTS frames.
func SplitAdts(b []byte) (out []AdtsFrame, err error) {
	for len(b) > 0 {
		if len(b) < 7 {
			return out, fmt.Errorf("adts: %d trailing bytes", len(b))
		}
		if b[0] != 0xFF || b[1]&0xF0 != 0xF0 {
			return out, fmt.Errorf("adts: syncword % x", b[:2])
		}
		if b[1]&0x06 != 0 {
			return out, errors.New("adts: layer != 0")
		}
		hl := 7
		if b[1]&1 == 0 {
			hl = 9
		}
		f := AdtsFrame{Profile: int(b[2] >> 6), SampIdx: int(b[2] >> 2 & 0xf), ChannelConf: int(b[2]&1)<<2 | int(b[3]>>6)}
		f.FrameLen = int(b[3]&3)<<11 | int(b[4])<<3 | int(b[5]>>5)
		if f.FrameLen < hl || f.FrameLen > len(b) {
			return out, fmt.Errorf("adts: frame_length %d (have %d)", f.FrameLen, len(b))
		}
		f.Payload = b[hl:f.FrameLen]
		out = append(out, f)
		b = b[f.FrameLen:]
	}
	return out, nil
}

// ---------------------------------------------------------------------------------------
// Annex-B / AVCC

// SplitAnnexB returns the NAL units between start codes (3 or 4 byte). Trailing zero bytes
// of a unit that precede the next start code are treated as part of the start code
// (trailing_zero_8bits), as the H.264 byte-stream syntax says.
func SplitAnnexB(b []byte) (nals [][]byte, err error) {
	// find start codes
	type sc struct{ pos, len int }
	var scs []sc
	for i := 0; i+3 <= len(b); {
		if b[i] == 0 && b[i+1] == 0 && b[i+2] == 1 {
			scs = append(scs, sc{i, 3})
			i += 3
			continue
		}
		i++
	}
	if len(scs) == 0 {
		if len(b) == 0 {
			return nil, nil
		}
		return nil, errors.New("annexb: no start code")
	}
	for i := 0; i < scs[0].pos; i++ {
		if b[i] != 0 {
			return nil, errors.New("annexb: garbage before first start code")
		}
	}
	for k, s := range scs {
		end := len(b)
		if k+1 < len(scs) {
			end = scs[k+1].pos
			for end > s.pos+s.len && b[end-1] == 0 {
				end--
			}
		}
		nals = append(nals, b[s.pos+s.len:end])
	}
	return nals, nil
}

// SplitAvcc splits 4-byte-length-prefixed NAL units.
func SplitAvcc(b []byte) (nals [][]byte, err error) {
	for len(b) > 0 {
		if len(b) < 4 {
			return nals, fmt.Errorf("avcc: %d trailing bytes", len(b))
		}
		n := int(b[0])<<24 | int(b[1])<<16 | int(b[2])<<8 | int(b[3])
		if n < 0 || n > len(b)-4 {
			return nals, fmt.Errorf("avcc: nal length %d beyond buffer %d", n, len(b)-4)
		}
		nals = append(nals, b[4:4+n])
		b = b[4+n:]
	}
	return nals, nil
}
