package props

import (
	"bytes"
	"fmt"
	"math"
	"path/filepath"
	"sort"
	"strings"
	"time"

	"github.com/q191201771/lal/pkg/base"
	"github.com/q191201771/lal/pkg/hls"
	"github.com/q191201771/lal/pkg/mpegts"
	"github.com/q191201771/lal/pkg/remux"

	"lalverif/fw"
	"lalverif/gen"
	"lalverif/ref"
	"lalverif/srv"
)

// C10 — HLS playlists and segments are consistent at every instant.
//
// The real Rtmp2MpegtsRemuxer and hls.Muxer are wired exactly as logic.Group wires them
// (OnPatPmt → FeedPatPmt, OnTsPackets → FeedMpegts, OnFragmentOpen → FlushAudio) on top of an
// instrumented in-memory file-system layer (verif hook hls.VerifSetFsl). The oracle runs after
// every file-system operation — i.e. at every crash point of the operation sequence — on the
// directory state at that moment.

type c10Rig struct {
	c       *fw.Ctx
	fs      *srv.RecFs
	cfg     hls.MuxerConfig
	name    string
	dir     string
	remuxer *remux.Rtmp2MpegtsRemuxer
	muxer   *hls.Muxer
	hasVideo bool
	patpmt   []byte // what the remuxer announced last (private copy)
	patpmtGiven []byte // the slice as handed over (logic.Group and hls.Muxer keep it)
	keepGiven bool
	given, givenCopy [][]byte

	// ground truth
	started  bool     // a segment file has been created in this incarnation
	produced [][]byte // 188-byte packets handed to the muxer since then, in file order
	// monitor state (persists across incarnations of the name)
	versions  []ref.M3u8        // live playlist versions in rename order
	closed    map[string][]byte // segment name → bytes at close
	closeOrd  []string
	incClosed []string // segments closed in the current incarnation
	nSnap     int
	desc      string
	stop      bool
	ending    bool // the incarnation is being disposed (the end marker is written now)
}

func (r *c10Rig) OnPatPmt(b []byte) {
	r.patpmt = append([]byte(nil), b...)
	r.patpmtGiven = b
	r.muxer.FeedPatPmt(b)
}

func (r *c10Rig) OnTsPackets(p []byte, frame *mpegts.Frame, boundary bool) {
	before := r.started
	cp := append([]byte(nil), p...)
	if r.keepGiven {
		// the slice as handed over (consumers such as the HTTP-TS GOP cache and the asynchronous
		// write queues keep it) next to a private copy taken now
		r.given = append(r.given, p)
		r.givenCopy = append(r.givenCopy, cp)
	}
	r.muxer.FeedMpegts(p, frame, boundary)
	if before || r.started {
		// (if the first segment was created during this very call the packets are in it)
		for k := 0; k+188 <= len(cp); k += 188 {
			r.produced = append(r.produced, cp[k:k+188])
		}
	}
}

func (r *c10Rig) OnHlsMakeTs(info base.HlsMakeTsInfo) {}
func (r *c10Rig) OnFragmentOpen()                     { r.remuxer.FlushAudio() }

func (r *c10Rig) bad(sig, format string, a ...interface{}) {
	if r.stop {
		return
	}
	r.stop = true
	r.c.Violate("hls/"+sig, fmt.Sprintf(format, a...)+fmt.Sprintf(" | after file-system operation %d | %s", r.fs.NOps, r.desc), nil)
}

func roundHalfAmbiguous(d float64) (lo, hi int) {
	f := math.Floor(d)
	frac := d - f
	if math.Abs(frac-0.5) < 0.0005 {
		return int(f), int(f) + 1
	}
	x := int(math.Floor(d + 0.5))
	return x, x
}

// onOp: the per-operation oracle (called with the fs lock held).
func (r *c10Rig) onOp(op srv.FsOp, fs *srv.RecFs) {
	if r.stop {
		return
	}
	live := filepath.Join(r.dir, "playlist.m3u8")
	if op.Op == "create" && strings.HasSuffix(op.Path, ".ts") {
		r.started = true
	}
	if op.Op == "close" && strings.HasSuffix(op.Path, ".ts") {
		b, _ := fs.GetLocked(op.Path)
		nm := filepath.Base(op.Path)
		r.closed[nm] = append([]byte(nil), b...)
		r.closeOrd = append(r.closeOrd, nm)
		r.incClosed = append(r.incClosed, nm)
	}
	pl, ok := fs.GetLocked(live)
	if !ok {
		return
	}
	r.nSnap++
	m3, err := ref.ParseM3u8(pl)
	if err != nil {
		r.bad("playlist-malformed", "live playlist does not parse: %v\n%s", err, pl)
		return
	}
	if op.Op == "rename" && op.Path2 == live {
		if n := len(r.versions); n > 0 && m3.MediaSequence < r.versions[n-1].MediaSequence {
			r.bad("media-sequence-decreased", "live playlist media sequence went from %d to %d", r.versions[n-1].MediaSequence, m3.MediaSequence)
			return
		}
		r.versions = append(r.versions, m3)
		if m3.EndList && !r.ending {
			r.bad("endlist-while-live", "a live playlist version written while the stream is live carries #EXT-X-ENDLIST (players stop polling)\n%s", pl)
			return
		}
	}
	for _, e := range m3.Entries {
		lo, _ := roundHalfAmbiguous(e.Duration)
		if lo > m3.TargetDuration {
			r.bad("target-duration", "TARGETDURATION %d but segment %s lasts %.3f s (rounds to %d)\n%s", m3.TargetDuration, e.URI, e.Duration, lo, pl)
			return
		}
		seg, ok := fs.GetLocked(filepath.Join(r.dir, filepath.Base(e.URI)))
		if !ok {
			r.bad("listed-segment-missing", "segment %s is listed by the live playlist but does not exist\n%s", e.URI, pl)
			return
		}
		if len(seg)%188 != 0 {
			r.bad("segment-not-188", "listed segment %s is %d bytes long", e.URI, len(seg))
			return
		}
		if len(seg) < 376 {
			r.bad("segment-no-patpmt", "listed segment %s is %d bytes long: no PAT/PMT", e.URI, len(seg))
			return
		}
		p0, e0 := ref.ParseTsPacket(seg[:188])
		p1, e1 := ref.ParseTsPacket(seg[188:376])
		if e0 != nil || e1 != nil || p0.PID != 0 || p1.PID != 0x1001 {
			r.bad("segment-no-patpmt", "listed segment %s does not begin with PAT and PMT (PIDs %#x %#x, errors %v %v)", e.URI, p0.PID, p1.PID, e0, e1)
			return
		}
		if r.hasVideo && !e.Discontinuity {
			d := ref.NewTsDemux()
			d.Feed(seg)
			d.Flush()
			for _, pes := range d.Out {
				if pes.PID == 0x100 {
					if !pes.RAI {
						r.bad("segment-not-at-key-frame", "listed segment %s (no discontinuity) starts with a video frame that is not a random-access point", e.URI)
						return
					}
					break
				}
			}
		}
	}
	// retention: everything listed by the current or any of the previous delete_threshold versions
	for k := len(r.versions) - 1; k >= 0 && k >= len(r.versions)-1-r.cfg.DeleteThreshold; k-- {
		for _, e := range r.versions[k].Entries {
			if _, ok := fs.GetLocked(filepath.Join(r.dir, filepath.Base(e.URI))); !ok {
				r.bad("retained-segment-missing", "segment %s was listed %d playlist version(s) ago (delete_threshold=%d) and is gone", e.URI, len(r.versions)-1-k, r.cfg.DeleteThreshold)
				return
			}
		}
	}
}

func (r *c10Rig) startIncarnation() {
	r.ending = false
	r.started = false
	r.produced = nil
	r.incClosed = nil
	r.muxer = hls.NewMuxer(r.name, &r.cfg, r)
	r.remuxer = remux.NewRtmp2MpegtsRemuxer(r)
	r.muxer.Start()
}

func (r *c10Rig) endIncarnation() {
	// exactly what Group.delIn does
	r.ending = true
	r.remuxer.Dispose()
	r.muxer.Dispose()
	if r.stop {
		return
	}
	live := filepath.Join(r.dir, "playlist.m3u8")
	pl, ok := r.fs.Get(live)
	if !r.started {
		return
	}
	if !ok {
		r.bad("no-playlist-at-end", "segments were produced but there is no live playlist after the stream ended")
		return
	}
	if n := bytes.Count(pl, []byte("#EXT-X-ENDLIST")); n != 1 || !bytes.HasSuffix(bytes.TrimRight(pl, "\n"), []byte("#EXT-X-ENDLIST")) {
		r.bad("no-endlist", "live playlist after the end has %d ENDLIST markers\n%s", n, pl)
		return
	}
	// exactly-once, in order
	var got [][]byte
	for _, nm := range r.incClosed {
		b := r.closed[nm]
		if len(b) >= 376 {
			b = b[376:]
		}
		for k := 0; k+188 <= len(b); k += 188 {
			got = append(got, b[k:k+188])
		}
	}
	r.c.Count("ts_packets_compared", len(r.produced))
	if len(got) != len(r.produced) {
		r.bad("packets-count", "segments of this incarnation hold %d TS packets after their PAT/PMT, %d were produced since the first segment opened", len(got), len(r.produced))
		return
	}
	for k := range got {
		if !bytes.Equal(got[k], r.produced[k]) {
			r.bad("packets-differ", "TS packet %d in segment order differs from the %d-th packet produced", k, k)
			return
		}
	}
	if r.cfg.CleanupMode != hls.CleanupModeAsap {
		rec, ok := r.fs.Get(filepath.Join(r.dir, "record.m3u8"))
		if !ok {
			r.bad("no-record-playlist", "cleanup_mode=%d but there is no record playlist after the stream ended", r.cfg.CleanupMode)
			return
		}
		m3, err := ref.ParseM3u8(rec)
		if err != nil {
			r.bad("record-playlist-malformed", "record playlist does not parse: %v\n%s", err, rec)
			return
		}
		var names []string
		for _, e := range m3.Entries {
			names = append(names, filepath.Base(e.URI))
		}
		if strings.Join(names, ",") != strings.Join(r.closeOrd, ",") {
			r.bad("record-playlist-incomplete", "record playlist lists %d segments %v, %d were produced %v", len(names), names, len(r.closeOrd), r.closeOrd)
			return
		}
	}
}

type c10Case struct {
	cfg   hls.MuxerConfig
	specs []gen.EsSpec
}

func c10Gen(c *fw.Ctx, i int) c10Case {
	r := c.Rng
	cs := c10Case{cfg: hls.MuxerConfig{
		FragmentDurationMs: []int{500, 1000, 3000, 2700, 1500, 700, 3000, 1000, 4400}[i%9],
		FragmentNum:        1 + (i/3)%6,
		DeleteThreshold:    (i / 18) % 4,
		CleanupMode:        (i / 72) % 3,
	}}
	if c.Tier == "quick" {
		cs.cfg.FragmentNum = 1 + r.Intn(6)
		cs.cfg.DeleteThreshold = r.Intn(4)
		cs.cfg.CleanupMode = r.Intn(3)
	}
	nInc := 1 + r.Intn(3)
	for k := 0; k < nInc; k++ {
		frag := cs.cfg.FragmentDurationMs
		sp := gen.EsSpec{VCodec: []string{"avc", "avc", "hevc", "", "avc"}[r.Intn(5)], ACodec: []string{"aac", "aac", "", "aac"}[r.Intn(4)], AacIdx: 4, AacChans: 2, AacObj: 2,
			MaxNals: 1 + r.Intn(2), AudioPer: 1 + r.Intn(2), AudioGap: r.Intn(3) == 0, InBandPS: r.Intn(2) == 0, LonePS: r.Intn(2) == 0}
		if sp.VCodec == "" && sp.ACodec == "" {
			sp.ACodec = "aac"
		}
		// frame interval and gop length chosen so that segment durations straddle the target
		sp.VideoMs = []int{20, 40, 100, 250}[r.Intn(4)]
		perFrag := frag / sp.VideoMs
		if perFrag < 1 {
			perFrag = 1
		}
		switch r.Intn(5) {
		case 0:
			sp.GopLen = perFrag // boundary exactly at the target
		case 1:
			sp.GopLen = perFrag + 1 + r.Intn(3)
		case 2:
			sp.GopLen = max(1, perFrag/2)
		case 3:
			sp.GopLen = 100000 // no key frame after the first: forced splits only
		default:
			sp.GopLen = 1 + r.Intn(2*perFrag+2)
		}
		nFrags := 3 + r.Intn(cs.cfg.FragmentNum+cs.cfg.DeleteThreshold+4)
		sp.NVideo = nFrags*perFrag + r.Intn(perFrag+1)
		if sp.NVideo > 1500 {
			sp.NVideo = 1500
		}
		if sp.NVideo < 5 {
			sp.NVideo = 5
		}
		sp.TsStart = []uint32{0, 5000, 0xFFFFFF - 2000, 0xFFFFFFFF - 4000}[r.Intn(4)]
		switch r.Intn(6) {
		case 0:
			sp.TsJump = true
		case 1:
			if sp.TsStart >= 1000 {
				sp.TsBack = true
			}
		}
		cs.specs = append(cs.specs, sp)
	}
	return cs
}

func c10Direct(c *fw.Ctx, i int) {
	cs := c10Gen(c, i)
	fs := srv.NewRecFs()
	fs.KeepOps = false
	hls.VerifSetFsl(fs)
	cs.cfg.OutPath = "/hls-out/"
	// stream names are the client's choice: every fourth case uses one with characters that mean
	// something to a format string, a URL or a path component
	name := fmt.Sprintf("h%d", i)
	if i%4 == 1 {
		name = fmt.Sprintf([]string{"h%d%%20b", "h%d%%s%%d", "h%d-x.y", "h%d 空格"}[(i/4)%4], i)
	}
	rig := &c10Rig{c: c, fs: fs, cfg: cs.cfg, name: name, closed: map[string][]byte{}}
	rig.dir = filepath.Join(cs.cfg.OutPath, rig.name)
	fs.OnOp = rig.onOp
	rig.desc = fmt.Sprintf("fragment_duration_ms=%d fragment_num=%d delete_threshold=%d cleanup_mode=%d", cs.cfg.FragmentDurationMs, cs.cfg.FragmentNum, cs.cfg.DeleteThreshold, cs.cfg.CleanupMode)
	c.Describe("%s specs=%+v", rig.desc, cs.specs)
	c.Cell("direct/frag=%d/num=%d/del=%d/cleanup=%d", cs.cfg.FragmentDurationMs, cs.cfg.FragmentNum, cs.cfg.DeleteThreshold, cs.cfg.CleanupMode)
	base0 := rig.desc
	for k, sp := range cs.specs {
		es := gen.BuildEs(c.SubRng(fmt.Sprintf("es%d", k)), k+1, sp)
		rig.hasVideo = sp.VCodec != ""
		rig.desc = fmt.Sprintf("%s | incarnation %d/%d spec=%+v", base0, k+1, len(cs.specs), sp)
		rig.startIncarnation()
		for _, m := range es.RtmpMessages(true) {
			var msg base.RtmpMsg
			msg.Header.MsgTypeId = m.Type
			msg.Header.TimestampAbs = m.Ts
			msg.Header.MsgLen = uint32(len(m.Payload))
			msg.Header.MsgStreamId = 1
			msg.Header.Csid = csidFor(m.Type)
			msg.Payload = m.Payload
			rig.remuxer.FeedRtmpMessage(msg)
			if rig.stop {
				break
			}
		}
		rig.endIncarnation()
		c.Eval(1)
		if rig.stop {
			break
		}
	}
	c.Count("fs_operations", fs.NOps)
	c.Count("playlist_snapshots_checked", rig.nSnap)
	c.Count("playlist_versions", len(rig.versions))
	c.Count("segments_closed", len(rig.closeOrd))
	if i < 3 {
		c.Sample(map[string]interface{}{"config": base0, "fs_operations": fs.NOps, "snapshots": rig.nSnap, "segments": len(rig.closeOrd)})
	}
}

// c10Server: whole server, delayed cleanup and re-publish of the same name around the cleanup timer.
func c10Server(c *fw.Ctx, i int) {
	r := c.Rng
	mode := 1 + r.Intn(2)
	fragMs, num, del := 500, 1+r.Intn(3), r.Intn(2)
	conf := srv.Conf{Hls: true, HlsMem: false, HlsFragMs: fragMs, HlsFragNum: num, HlsDelThr: del, HlsCleanup: mode}
	root := filepath.Join(c.Scratch, fmt.Sprintf("c10-%d", i))
	s, err := srv.Start(conf, root)
	if err != nil {
		c.Inconclusive("server start: %v", err)
		return
	}
	defer s.Stop()
	fs := srv.NewRecFs()
	fs.KeepOps = false
	hls.VerifSetFsl(fs)
	name := fmt.Sprintf("w%d", i)
	rig := &c10Rig{c: c, fs: fs, cfg: hls.MuxerConfig{OutPath: s.HlsDir, FragmentDurationMs: fragMs, FragmentNum: num, DeleteThreshold: del, CleanupMode: mode}, name: name, closed: map[string][]byte{}, hasVideo: true}
	rig.dir = filepath.Join(s.HlsDir, name)
	delay := time.Duration(fragMs*(num+del)) * time.Millisecond
	gap := []time.Duration{delay / 3, delay - 150*time.Millisecond, delay + 300*time.Millisecond}[r.Intn(3)]
	rig.desc = fmt.Sprintf("whole server cleanup_mode=%d fragment_num=%d delete_threshold=%d cleanup delay=%v re-publish after %v", mode, num, del, delay, gap)
	c.Describe("%s", rig.desc)
	c.Cell("server/cleanup=%d/republish=%s", mode, map[bool]string{true: "before-cleanup", false: "after-cleanup"}[gap < delay])
	// during a live incarnation nothing that the live playlist lists may vanish: the per-op oracle
	live := false
	fs.OnOp = func(op srv.FsOp, f *srv.RecFs) {
		if live {
			rig.onOp(op, f)
		} else if op.Op == "removeall" {
			// directory cleanup between incarnations forgets the history
			rig.versions = nil
		}
	}
	for inc := 1; inc <= 2; inc++ {
		sp := gen.EsSpec{VCodec: "avc", ACodec: "aac", AacIdx: 4, AacChans: 2, AacObj: 2, NVideo: 100 + r.Intn(60), GopLen: 5, AudioPer: 1, MaxNals: 1, VideoMs: 40}
		es := gen.BuildEs(c.SubRng(fmt.Sprintf("es%d", inc)), inc, sp)
		pub, err := ref.StartRtmpPublisher(s.RtmpAddr(), "live", name, 3*time.Second)
		if err != nil {
			c.Inconclusive("publisher: %v", err)
			return
		}
		from := s.Notify.Len()
		pub.RC.SetChunkSize(60000)
		rig.ending = false
		live = true
		t0 := time.Now()
		for k, m := range es.RtmpMessages(true) {
			pub.RC.Send(ref.RtmpMsg{Csid: csidFor(m.Type), TypeID: m.Type, StreamID: pub.Msid, Ts: m.Ts, Payload: m.Payload}, 0)
			// real-time pacing so that incarnation 2 is live when incarnation 1's cleanup timer fires
			if k%4 == 3 {
				if d := time.Duration(m.Ts-es.Spec.TsStart)*time.Millisecond/2 - time.Since(t0); d > 0 {
					time.Sleep(d)
				}
			}
			if rig.stop {
				break
			}
		}
		time.Sleep(100 * time.Millisecond)
		paddr := srv.Key(pub.RC.Conn)
		_ = from
		rig.ending = true // from here on the end marker is legitimate
		pub.Close()
		s.Notify.WaitSession(3*time.Second, "pub_stop", paddr)
		time.Sleep(50 * time.Millisecond)
		live = false
		c.Eval(1)
		if rig.stop {
			return
		}
		if inc == 1 {
			time.Sleep(gap)
		}
	}
	c.Count("fs_operations", fs.NOps)
	c.Count("playlist_snapshots_checked", rig.nSnap)
	// after the last incarnation's delay the directory is cleaned
	if !srv.WaitFor(delay+3*time.Second, func() bool { return len(fs.List(rig.dir)) == 0 }) {
		c.Violate("hls/cleanup-missing", fmt.Sprintf("cleanup_mode=%d: files still present %v after the stream ended: %v | %s", mode, delay+3*time.Second, fs.List(rig.dir), rig.desc), nil)
	}
}

func init() {
	fw.Register(&fw.Prop{
		ID: "C10",
		NumCases: func(tier string, seed int64) int {
			if tier == "thorough" {
				return 4000
			}
			return 160
		},
		CaseTimeout: func(string) time.Duration { return 3 * time.Minute },
		Rule: "9 of 10 cases: the real Rtmp2MpegtsRemuxer and hls.Muxer wired as logic.Group wires them, on an instrumented in-memory file-system layer; fragment_duration_ms ∈ {500,700,1000,1500,2700,3000,4400} × fragment_num 1–6 × delete_threshold 0–3 × cleanup_mode 0–2; 1–3 incarnations of the same name per case (every fourth name carries `%`, `.`, `-` or non-ASCII characters); streams AVC/HEVC/none × AAC/none with frame intervals 20–250 ms, GOP lengths at, just above, half of and unrelated to the fragment target or no key frame at all (forced splits), timestamp start near 0 / 0xFFFFFF / 2^32, forward jump, backward jump, sparse audio. After EVERY file-system operation the oracle inspects the directory: live playlist parses (strict RFC 8216 subset parser), media sequence never decreases across versions and incarnations, TARGETDURATION ≥ round(every listed duration) (exact x.5 accepted either way), every listed segment exists, is a multiple of 188 bytes, starts with PAT and PMT, and (with video, no DISCONTINUITY tag) with a random-access video frame; every segment listed in the current or previous delete_threshold versions still exists. No version written while the stream is live carries ENDLIST. At each end: one trailing ENDLIST; the segments closed in this incarnation, minus their PAT/PMT, equal the TS packets handed to the muxer since the first segment was created, exactly once and in order; for cleanup_mode ≠ 2 the record playlist parses and lists every segment ever produced in order. 1 of 10 cases: whole server with cleanup_mode 1/2 and a second publisher of the same name before or after the delayed directory cleanup — same per-operation oracle while live, directory removed after the last end. cell = configuration.",
		Assumptions: []string{"the operation granularity is that of naza's IFileSystemLayer (create, write, close, rename, remove, writefile)", "segments are captured at their close operation, so a later deletion does not hide them from the exactly-once comparison"},
		MinCells: 20,
		Run: func(c *fw.Ctx, i int) {
			if i%10 == 9 {
				c10Server(c, i)
			} else {
				c10Direct(c, i)
			}
		},
	})
}

var _ = sort.Strings
