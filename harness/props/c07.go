package props

import (
	"bytes"
	"encoding/json"
	"fmt"
	"math"
	"math/rand"
	"net"
	"os"
	"path/filepath"
	"sort"
	"time"

	"lalverif/fw"
	"lalverif/gen"
	"lalverif/ref"
	"lalverif/srv"

	"github.com/q191201771/lal/pkg/base"
)

// C07 — RTSP, GB28181 and customize ingest reach RTMP/FLV consumers with the same frames.

type c07Src struct {
	es      *gen.EsStream
	vTicks  []uint64 // per video frame (90 kHz)
	aTicks  []uint64 // per audio frame (audio clock)
	vFrames []int
	aFrames []int
	aClock  int
	samples int // samples per audio frame
}

func c07Build(r *rand.Rand, sp gen.EsSpec) *c07Src { return c07BuildInc(r, sp, 1) }

func c07BuildInc(r *rand.Rand, sp gen.EsSpec, inc int) *c07Src {
	es := gen.BuildEs(r, inc, sp)
	s := &c07Src{es: es, aClock: es.AClock}
	switch sp.ACodec {
	case "aac":
		s.samples = 1024
	case "opus":
		s.samples = 960
	case "g711a", "g711u":
		s.samples = 160
	}
	if sp.ACodec != "aac" {
		// G.711 / Opus have no RTP fragmentation: one frame must fit one packet
		for i := range es.Frames {
			if !es.Frames[i].Video && len(es.Frames[i].Audio) > 900 {
				es.Frames[i].Audio = es.Frames[i].Audio[:900]
			}
		}
	}
	vBase := uint64(r.Intn(1 << 20))
	aBase := uint64(r.Intn(1 << 20))
	for i, f := range es.Frames {
		if f.Video {
			s.vFrames = append(s.vFrames, i)
			s.vTicks = append(s.vTicks, vBase+uint64(len(s.vTicks))*3600)
		} else {
			s.aFrames = append(s.aFrames, i)
			s.aTicks = append(s.aTicks, aBase+uint64(len(s.aTicks))*uint64(s.samples))
		}
	}
	return s
}

// ------------------------------------------------------------------------------------------
// consumer side: decode the RTMP/FLV history into sequence headers + per-track units

type c07Recv struct {
	vsh       [][]byte // video sequence header payloads in order
	ash       [][]byte
	vUnits    [][]byte // flattened NAL units of all video messages
	vUnitTs   []uint32
	vUnitKey  []bool // key flag of the message the unit came in
	vMsgHasKeyNal []bool
	aFrames   [][]byte
	aTs       []uint32
	err       string
	meta      int
}

func c07Decode(items []ref.RtmpMsg, hevc bool, acodec string) (rv c07Recv) {
	for _, m := range items {
		p := m.Payload
		switch m.TypeID {
		case 18:
			rv.meta++
		case 9:
			if len(p) < 5 {
				rv.err = fmt.Sprintf("video message of %d bytes", len(p))
				return
			}
			if p[1] == 0 {
				rv.vsh = append(rv.vsh, p)
				continue
			}
			nals, err := ref.SplitAvcc(p[5:])
			if err != nil {
				rv.err = "video message is not AVCC: " + err.Error()
				return
			}
			key := p[0]>>4 == 1
			for _, n := range nals {
				rv.vUnits = append(rv.vUnits, n)
				rv.vUnitTs = append(rv.vUnitTs, m.Ts)
				rv.vUnitKey = append(rv.vUnitKey, key)
			}
		case 8:
			if len(p) < 1 {
				continue
			}
			if acodec == "aac" {
				if len(p) < 2 {
					rv.err = "short aac message"
					return
				}
				if p[1] == 0 {
					rv.ash = append(rv.ash, p)
					continue
				}
				rv.aFrames = append(rv.aFrames, p[2:])
			} else {
				rv.aFrames = append(rv.aFrames, p[1:])
			}
			rv.aTs = append(rv.aTs, m.Ts)
		}
	}
	return
}

// parseAvcC extracts SPS/PPS lists from an AVC sequence header message payload.
func parseAvcC(p []byte) (sps, pps [][]byte, err error) {
	if len(p) < 11 || p[0] != 0x17 || p[1] != 0 {
		return nil, nil, fmt.Errorf("not an AVC sequence header")
	}
	b := p[5:]
	if b[0] != 1 {
		return nil, nil, fmt.Errorf("configurationVersion %d", b[0])
	}
	n := int(b[5] & 0x1f)
	q := 6
	for i := 0; i < n; i++ {
		if q+2 > len(b) {
			return nil, nil, fmt.Errorf("truncated")
		}
		l := int(b[q])<<8 | int(b[q+1])
		q += 2
		if q+l > len(b) {
			return nil, nil, fmt.Errorf("truncated sps")
		}
		sps = append(sps, b[q:q+l])
		q += l
	}
	if q >= len(b) {
		return nil, nil, fmt.Errorf("no pps count")
	}
	n = int(b[q])
	q++
	for i := 0; i < n; i++ {
		if q+2 > len(b) {
			return nil, nil, fmt.Errorf("truncated")
		}
		l := int(b[q])<<8 | int(b[q+1])
		q += 2
		if q+l > len(b) {
			return nil, nil, fmt.Errorf("truncated pps")
		}
		pps = append(pps, b[q:q+l])
		q += l
	}
	return
}

// parseHvcC extracts the NAL arrays of an HEVC sequence header (classic 0x1c form).
func parseHvcC(p []byte) (byType map[int][][]byte, err error) {
	if len(p) < 5+23 || p[0] != 0x1c || p[1] != 0 {
		return nil, fmt.Errorf("not a classic HEVC sequence header")
	}
	b := p[5:]
	na := int(b[22])
	q := 23
	byType = map[int][][]byte{}
	for i := 0; i < na; i++ {
		if q+3 > len(b) {
			return nil, fmt.Errorf("truncated array header")
		}
		t := int(b[q] & 0x3f)
		cnt := int(b[q+1])<<8 | int(b[q+2])
		q += 3
		for k := 0; k < cnt; k++ {
			if q+2 > len(b) {
				return nil, fmt.Errorf("truncated")
			}
			l := int(b[q])<<8 | int(b[q+1])
			q += 2
			if q+l > len(b) {
				return nil, fmt.Errorf("truncated nal")
			}
			byType[t] = append(byType[t], b[q:q+l])
			q += l
		}
	}
	return
}

type c07Judge struct {
	c      *fw.Ctx
	src    *c07Src
	ingest string
	desc   string
	// batched: frames batched behind one source timestamp (several ADTS frames in one PES) have their exact time
	// quantised once more by the source clock itself; one 90 kHz tick is allowed on top of the millisecond
	batched float64
}

func (j *c07Judge) bad(kind, clause, format string, a ...interface{}) {
	j.c.Violate("ingest/"+j.ingest+"/"+clause+"/"+kind, fmt.Sprintf(format, a...)+" | "+j.desc, nil)
}

// judge compares one consumer history with the source.
// msConst: timestamps are compared as src_ticks·1000/clock up to one constant per track.
func (j *c07Judge) judge(kind string, items []ref.RtmpMsg, tailSlack int, vTicksToMs, aTicksToMs float64) {
	es := j.src.es
	hevc := es.Spec.VCodec == "hevc" || es.Spec.VCodec == "hevc-enh"
	rv := c07Decode(items, hevc, es.Spec.ACodec)
	if rv.err != "" {
		j.bad(kind, "decode", "%s", rv.err)
		return
	}
	// sequence headers: every one the consumer got must carry exactly the publisher's sets
	if es.Spec.VCodec != "" {
		if len(rv.vsh) == 0 && len(rv.vUnits) > 0 {
			j.bad(kind, "no-video-seq-header", "video frames without any video sequence header")
			return
		}
		for _, h := range rv.vsh {
			if hevc {
				arr, err := parseHvcC(h)
				if err != nil || len(arr[32]) != 1 || len(arr[33]) != 1 || len(arr[34]) != 1 || !bytes.Equal(arr[32][0], es.Vps) || !bytes.Equal(arr[33][0], es.Sps) || !bytes.Equal(arr[34][0], es.Pps) {
					j.bad(kind, "video-seq-header", "HEVC sequence header does not carry exactly the publisher's VPS/SPS/PPS (err=%v)", err)
					return
				}
			} else {
				sps, pps, err := parseAvcC(h)
				if err != nil || len(sps) != 1 || len(pps) != 1 || !bytes.Equal(sps[0], es.Sps) || !bytes.Equal(pps[0], es.Pps) {
					j.bad(kind, "video-seq-header", "AVC sequence header does not carry exactly the publisher's SPS/PPS (err=%v, %d sps, %d pps)", err, len(sps), len(pps))
					return
				}
			}
		}
	}
	if es.Spec.ACodec == "aac" {
		if len(rv.ash) == 0 && len(rv.aFrames) > 0 {
			j.bad(kind, "no-audio-seq-header", "AAC frames without a sequence header")
			return
		}
		for _, h := range rv.ash {
			if len(h) < 4 || !bytes.Equal(h[2:4], es.Asc[:2]) {
				j.bad(kind, "audio-seq-header", "AAC sequence header carries %x, publisher's AudioSpecificConfig is %x", h[2:], es.Asc)
				return
			}
		}
	}
	// expected video unit sequence (AUD dropped, parameter sets turned into sequence headers)
	type unit struct {
		b     []byte
		frame int
		key   bool
	}
	var want []unit
	for p, fi := range j.src.vFrames {
		_ = p
		f := es.Frames[fi]
		for _, n := range f.Nals {
			switch gen.NalClass(hevc, n) {
			case "aud", "vps", "sps", "pps":
				continue
			}
			want = append(want, unit{n, fi, f.Key})
		}
	}
	// align: the consumer may start later than the first unit
	start := -1
	if len(rv.vUnits) > 0 {
		for k := range want {
			if bytes.Equal(want[k].b, rv.vUnits[0]) {
				start = k
				break
			}
		}
		if start < 0 {
			j.bad(kind, "unknown-video-unit", "first video NAL unit received (%d bytes, header % x) was never published", len(rv.vUnits[0]), rv.vUnits[0][:min(len(rv.vUnits[0]), 2)])
			return
		}
		for k, u := range rv.vUnits {
			if start+k >= len(want) {
				j.bad(kind, "extra-video-unit", "%d video NAL units received, only %d published from the start point", len(rv.vUnits), len(want)-start)
				return
			}
			w := want[start+k]
			if !bytes.Equal(u, w.b) {
				j.bad(kind, "video-units", "video NAL unit %d: %d bytes [% x…], published %d bytes [% x…] (frame %d): missing, duplicated, reordered or altered", k, len(u), u[:min(len(u), 3)], len(w.b), w.b[:min(len(w.b), 3)], w.frame)
				return
			}
			isKeyNal := false
			if hevc {
				t := u[0] >> 1 & 0x3f
				isKeyNal = t >= 16 && t <= 23
			} else {
				isKeyNal = u[0]&0x1f == 5
			}
			if isKeyNal && !rv.vUnitKey[k] {
				j.bad(kind, "key-flag", "NAL unit %d is an IDR/IRAP slice of key frame %d but its message is not marked as a key frame", k, w.frame)
				return
			}
			if !w.key && rv.vUnitKey[k] {
				j.bad(kind, "key-flag", "NAL unit %d belongs to non-key frame %d but its message is marked as a key frame", k, w.frame)
				return
			}
		}
		missing := len(want) - start - len(rv.vUnits)
		if missing > tailSlack*6 {
			j.bad(kind, "video-truncated", "%d trailing video NAL units never arrived (allowed tail %d frames)", missing, tailSlack)
			return
		}
	} else if len(want) > tailSlack*6+12 {
		j.bad(kind, "no-video", "no video NAL unit arrived although %d were published", len(want))
		return
	}
	// audio
	astart := -1
	if len(rv.aFrames) > 0 {
		// the run is anchored at the first received frame that carries a tag: the tiny frames (TinyAac / TinyAudio) are
		// not unique, so a stream whose first forwarded frame is one of them cannot be located by that frame
		anchor := 0
		for anchor < len(rv.aFrames)-1 && len(rv.aFrames[anchor]) <= 8 {
			anchor++
		}
		for k, fi := range j.src.aFrames {
			if bytes.Equal(es.Frames[fi].Audio, rv.aFrames[anchor]) {
				astart = k - anchor
				break
			}
		}
		if astart < 0 {
			j.bad(kind, "unknown-audio-frame", "first audio frame received (%d bytes) was never published", len(rv.aFrames[0]))
			return
		}
		for k, a := range rv.aFrames {
			if astart+k >= len(j.src.aFrames) {
				j.bad(kind, "extra-audio-frame", "more audio frames received than published")
				return
			}
			if !bytes.Equal(a, es.Frames[j.src.aFrames[astart+k]].Audio) {
				gotIdx := c06FrameOf(es, [][]byte{a})
				j.bad(kind, "audio-frames", "audio frame %d (tag says published frame %d, %d bytes) differs from published frame %d (%d bytes): missing, duplicated, reordered or altered", k, gotIdx, len(a), j.src.aFrames[astart+k], len(es.Frames[j.src.aFrames[astart+k]].Audio))
				return
			}
		}
		if missing := len(j.src.aFrames) - astart - len(rv.aFrames); missing > tailSlack+2 {
			j.bad(kind, "audio-truncated", "%d trailing audio frames never arrived (allowed tail %d)", missing, tailSlack)
			return
		}
	} else if len(j.src.aFrames) > tailSlack+8 {
		j.bad(kind, "no-audio", "no audio frame arrived although %d were published", len(j.src.aFrames))
		return
	}
	// timestamps: recv − src_ms must be one constant per track (±1 ms)
	chk := func(track string, recv []uint32, srcMs []float64) {
		if len(recv) < 2 {
			return
		}
		var d []float64
		for k := range recv {
			d = append(d, float64(recv[k])-srcMs[k])
		}
		s := append([]float64(nil), d...)
		sort.Float64s(s)
		med := s[len(s)/2]
		for k := range d {
			if math.Abs(d[k]-med) > 1.0+j.batched {
				j.bad(kind, track+"-timestamp", "%s unit %d: received %d ms, source %.3f ms; offset %.3f differs from the track constant %.3f by more than 1 ms (cumulative drift or jump) over %d units", track, k, recv[k], srcMs[k], d[k], med, len(d))
				return
			}
		}
	}
	if start >= 0 {
		var src []float64
		pos := map[int]int{}
		for p, fi := range j.src.vFrames {
			pos[fi] = p
		}
		for k := range rv.vUnits {
			src = append(src, float64(j.src.vTicks[pos[want[start+k].frame]])*vTicksToMs)
		}
		chk("video", rv.vUnitTs, src)
	}
	if astart >= 0 {
		var src []float64
		for k := range rv.aFrames {
			src = append(src, float64(j.src.aTicks[astart+k])*aTicksToMs)
		}
		chk("audio", rv.aTs, src)
	}
	j.c.Eval(1)
	j.c.Count("video_units_compared", len(rv.vUnits))
	j.c.Count("audio_frames_compared", len(rv.aFrames))
	j.c.Cell("%s/%s/%s+%s", j.ingest, kind, es.Spec.VCodec, es.Spec.ACodec)
}

// ------------------------------------------------------------------------------------------
// publishers

type rtpOut struct {
	track int
	pkt   []byte
}

// c07RtspPackets packetises the source into RTP packets (per track), interleaved by media time.
func c07RtspPackets(r *rand.Rand, s *c07Src, maxPayload int, aggregate bool, auPerPkt int, firstSeq uint16) []rtpOut {
	es := s.es
	hevc := es.Spec.VCodec == "hevc"
	var out []rtpOut
	vseq, aseq := firstSeq, firstSeq+7
	vi, ai := 0, 0
	aTrack := 1
	if es.Spec.VCodec == "" {
		aTrack = 0
	}
	for vi < len(s.vFrames) || ai < len(s.aFrames) {
		vt, at := math.Inf(1), math.Inf(1)
		if vi < len(s.vFrames) {
			vt = float64(s.vTicks[vi]-s.vTicks[0]) / 90000
		}
		if ai < len(s.aFrames) {
			at = float64(s.aTicks[ai]-s.aTicks[0]) / float64(s.aClock)
		}
		if vt <= at {
			f := es.Frames[s.vFrames[vi]]
			var pls [][]byte
			if hevc {
				pls = ref.H265Packetize(f.Nals, maxPayload, aggregate)
			} else {
				pls = ref.H264Packetize(f.Nals, maxPayload, aggregate)
			}
			for k, pl := range pls {
				out = append(out, rtpOut{0, ref.BuildRtp(ref.RtpPkt{Marker: k == len(pls)-1, PT: 96, Seq: vseq, Ts: uint32(s.vTicks[vi]), Ssrc: 0x1111, Payload: pl})})
				vseq++
			}
			vi++
		} else {
			n := 1
			if es.Spec.ACodec == "aac" && auPerPkt > 1 {
				n = 1 + r.Intn(auPerPkt)
			}
			if ai+n > len(s.aFrames) {
				n = len(s.aFrames) - ai
			}
			// several AUs share a packet only if the packet stays within the payload limit
			for n > 1 {
				tot := 2
				for k := 0; k < n; k++ {
					tot += 2 + len(es.Frames[s.aFrames[ai+k]].Audio)
				}
				if tot <= maxPayload {
					break
				}
				n--
			}
			var aus [][]byte
			for k := 0; k < n; k++ {
				aus = append(aus, es.Frames[s.aFrames[ai+k]].Audio)
			}
			var pls [][]byte
			pt := uint8(97)
			switch es.Spec.ACodec {
			case "aac":
				pls = ref.AacPacketize(aus, maxPayload)
			case "g711a":
				pt = 8
				pls = [][]byte{aus[0]}
			case "g711u":
				pt = 0
				pls = [][]byte{aus[0]}
			default:
				pt = 101
				pls = [][]byte{aus[0]}
			}
			for k, pl := range pls {
				out = append(out, rtpOut{aTrack, ref.BuildRtp(ref.RtpPkt{Marker: k == len(pls)-1, PT: pt, Seq: aseq, Ts: uint32(s.aTicks[ai]), Ssrc: 0x2222, Payload: pl})})
				aseq++
			}
			ai += n
		}
	}
	return out
}

// c07Perturb reorders / duplicates packets inside a small window, never among the first 4 of a track.
func c07Perturb(r *rand.Rand, in []rtpOut, mode int) []rtpOut {
	out := append([]rtpOut(nil), in...)
	seen := map[int]int{}
	locked := make([]bool, len(out))
	for i, p := range out {
		seen[p.track]++
		locked[i] = seen[p.track] <= 4
	}
	if mode&1 != 0 {
		for i := 0; i+3 < len(out); i++ {
			if r.Intn(6) != 0 || locked[i] {
				continue
			}
			j := i + 1 + r.Intn(3)
			if locked[j] || out[i].track != out[j].track {
				continue
			}
			out[i], out[j] = out[j], out[i]
			locked[i], locked[j] = true, true
		}
	}
	if mode&2 != 0 {
		var o2 []rtpOut
		for i, p := range out {
			o2 = append(o2, p)
			if !locked[i] && r.Intn(8) == 0 {
				o2 = append(o2, p)
			}
		}
		out = o2
	}
	return out
}

func c07Sdp(s *c07Src) (sdp []byte, controls []string) {
	es := s.es
	var tr []ref.SdpTrack
	switch es.Spec.VCodec {
	case "avc":
		tr = append(tr, ref.SdpTrack{Kind: "video", PT: 96, Codec: "H264", Clock: 90000, Sps: es.Sps, Pps: es.Pps, Control: "streamid=0"})
	case "hevc":
		tr = append(tr, ref.SdpTrack{Kind: "video", PT: 96, Codec: "H265", Clock: 90000, Vps: es.Vps, Sps: es.Sps, Pps: es.Pps, Control: "streamid=0"})
	}
	ctl := fmt.Sprintf("streamid=%d", len(tr))
	switch es.Spec.ACodec {
	case "aac":
		tr = append(tr, ref.SdpTrack{Kind: "audio", PT: 97, Codec: "MPEG4-GENERIC", Clock: s.aClock, Chans: int(es.Asc[1] >> 3 & 0xf), Asc: es.Asc, Control: ctl})
	case "g711a":
		tr = append(tr, ref.SdpTrack{Kind: "audio", PT: 8, Codec: "PCMA", Clock: 8000, Control: ctl})
	case "g711u":
		tr = append(tr, ref.SdpTrack{Kind: "audio", PT: 0, Codec: "PCMU", Clock: 8000, Control: ctl})
	case "opus":
		tr = append(tr, ref.SdpTrack{Kind: "audio", PT: 101, Codec: "opus", Clock: 48000, Control: ctl})
	}
	for _, t := range tr {
		controls = append(controls, t.Control)
	}
	return ref.BuildSdp(tr), controls
}

// c07Consumers attaches an RTMP and an FLV subscriber before the publisher.
type c07Cons struct {
	rtmp *ref.RtmpSubscriber
	flv  *srv.HttpSub
}

func c07Attach(s *srv.Server, name string) (*c07Cons, error) {
	cs := &c07Cons{}
	var err error
	cs.rtmp, err = ref.StartRtmpSubscriber(s.RtmpAddr(), "live", name, 5*time.Second)
	if err != nil {
		return nil, err
	}
	if _, ok := s.Notify.WaitSession(5*time.Second, "sub_start", srv.Key(cs.rtmp.RC.Conn)); !ok {
		return nil, fmt.Errorf("rtmp subscriber not admitted")
	}
	cs.flv, err = srv.StartHttpSub(s.HttpAddr(), "/live/"+name+".flv", "flv", 5*time.Second)
	if err != nil {
		return nil, err
	}
	if _, ok := s.Notify.WaitSession(5*time.Second, "sub_start", srv.Key(cs.flv.Conn)); !ok {
		return nil, fmt.Errorf("flv subscriber not admitted")
	}
	return cs, nil
}

func (cs *c07Cons) close() {
	if cs.rtmp != nil {
		cs.rtmp.Close()
	}
	if cs.flv != nil {
		cs.flv.Close()
	}
}

func (cs *c07Cons) quiesce() {
	last, q := int64(-1), 0
	for k := 0; k < 500; k++ {
		sum := cs.rtmp.RC.BytesRead() + cs.flv.RawBytes()
		if sum == last {
			q++
			if q >= 12 {
				return
			}
		} else {
			q = 0
		}
		last = sum
		time.Sleep(20 * time.Millisecond)
	}
}

func (cs *c07Cons) histories() (rtmpH, flvH []ref.RtmpMsg, flvErr error) {
	rtmpH = cs.rtmp.Hist.Snapshot()
	for _, t := range cs.flv.Tags() {
		flvH = append(flvH, ref.RtmpMsg{TypeID: t.Type, Ts: t.Ts, Payload: t.Data})
	}
	return rtmpH, flvH, cs.flv.FlvErr()
}

func c07Spec(r *rand.Rand, i int, ingest string) gen.EsSpec {
	v := []string{"avc", "hevc", "avc", ""}[i%4]
	a := []string{"aac", "aac", "g711a", "aac", ""}[(i/4)%5]
	if ingest == "rtsp" && (i/20)%3 == 1 && a == "aac" {
		a = "opus"
	}
	if v == "" && a == "" {
		v = "avc"
	}
	sp := gen.EsSpec{VCodec: v, ACodec: a, NVideo: 80 + r.Intn(60), GopLen: 5 + r.Intn(10), AudioPer: 2, MaxNals: 1 + r.Intn(4), BigNals: r.Intn(3) == 0, InBandPS: r.Intn(2) == 0, AudSei: r.Intn(2) == 0}
	sp.TrailingNonIdr = i%3 == 2
	if a == "aac" {
		sp.AacIdx = []int{4, 3, 11, 10, 7, 0, 5, 8}[r.Intn(8)] // 44100, 48000, 8000, 11025, 22050, 96000, 32000, 16000
		sp.AacChans = 1 + r.Intn(2)
		sp.AacObj = 2
		sp.TinyAac = (i/2)%3 == 0
	}
	return sp
}

func init() {
	fw.Register(&fw.Prop{
		ID: "C07",
		NumCases: func(tier string, seed int64) int {
			if tier == "thorough" {
				return 900
			}
			return 60
		},
		CaseTimeout: func(string) time.Duration { return 5 * time.Minute },
		Rule: "one case = one whole-server run of a seeded tagged elementary stream through one ingest: (a) a reference RTSP publisher (ANNOUNCE with sprop/config; interleaved or UDP; single-NAL, STAP-A/AP, FU-A/FU; AAC with 1–4 AUs per packet and fragmented AUs; clock rates 8000…96000 incl. 44100/11025/22050; first sequence number near 65535; RTP timestamps that wrap 2^32 a second into the stream; arrival perturbation none / swaps inside the window / duplicates / both, and ≥2000 audio frames in drift runs), (b) GB28181 PS over RTP after start_rtp_pub (UDP and TCP framing; PES split at 65535; PSM on every key frame or once; with/without system header; the same arrival perturbations - neighbouring packets swapped, packets duplicated - over UDP and over the TCP framing; pack headers with 0/3/6 stuffing bytes, the first RTP packet of a pack ending inside them; streams that start with the inter frames of a GOP whose key frame and PSM the receiver missed), (c) the customize-pub API in-process (AVCC and Annex-B, raw and ADTS AAC, FeedRtmpMsg). RTMP and HTTP-FLV subscribers attached before the publisher. " +
			"oracle: sequence headers carry exactly the publisher's SPS/PPS/VPS/ASC; flattened NAL-unit / audio-frame sequences equal the source from the first forwarded unit (AUD and in-band parameter sets removed), tail ≤128 frames may be pending at teardown; key flag ⇔ IDR/IRAP; received ms − source ticks·1000/clock is one constant per track within 1 ms for every unit. cell = ingest × consumer × codec pair.",
		Assumptions: []string{"reference RTSP client, RTP packetisers, PS muxer (harness/ref)", "perturbations never involve the first 4 packets of a track (the jitter window exists once the receiver is locked)", "UDP runs with kernel UDP error counter movement are inconclusive"},
		MinCells: 8,
		Run:      c07Run,
	})
}

func c07Run(c *fw.Ctx, i int) {
	ingest := []string{"rtsp", "customize", "ps"}[i%3]
	r := c.Rng
	sp := c07Spec(r, i/3, ingest)
	if ingest == "ps" {
		if sp.ACodec == "opus" {
			sp.ACodec = "aac"
		}
		sp.BigNals = false
	}
	drift := ingest == "rtsp" && (i/3)%5 == 0 && sp.ACodec == "aac"
	if drift {
		sp.NVideo = 1500 // ≈60 s: ≥2000 audio frames, >1024 fragmented video units (the depacketiser window size) plus the tail slack
		sp.MaxNals, sp.BigNals = 1, false
	}
	if sp.VCodec == "hevc-enh" {
		sp.VCodec = "hevc"
	}
	src := c07Build(c.SubRng("es"), sp)
	root := filepath.Join(c.Scratch, fmt.Sprintf("c07-%d", i))
	os.MkdirAll(root, 0755)
	defer os.RemoveAll(root)
	s, err := srv.Start(srv.Conf{Flv: true, Rtsp: true, Api: true}, root)
	if err != nil {
		c.Inconclusive("server start: %v", err)
		return
	}
	defer s.Stop()
	name := fmt.Sprintf("g%d", i)
	cs, err := c07Attach(s, name)
	if err != nil {
		c.Inconclusive("consumers: %v", err)
		return
	}
	defer cs.close()
	jd := &c07Judge{c: c, src: src, ingest: ingest}
	tail := 0
	vScale, aScale := 1000.0/90000, 0.0
	if src.aClock > 0 {
		aScale = 1000.0 / float64(src.aClock)
	}
	switch ingest {
	case "rtsp":
		udp := (i/3)%2 == 1
		mode := (i / 6) % 4
		maxPayload := []int{1200, 100, 1400, 500}[r.Intn(4)]
		if drift {
			// long runs: (nearly) every NAL unit fragmented, so that per-unit bookkeeping of the
			// depacketiser is exercised more than a thousand times on one session
			maxPayload = []int{100, 200}[r.Intn(2)]
		}
		if sp.BigNals && maxPayload < 1200 {
			maxPayload = 1200 // premise: a unit must fit lal's 1024-packet reassembly window
		}
		firstSeq := []uint16{0, 65530, 65000, uint16(r.Intn(65536))}[r.Intn(4)]
		// RTP timestamps start at a random 32-bit value (RFC 3550 5.1) and wrap: in a third of the cases
		// both tracks wrap a second or two into the stream (every 13 h at 90 kHz on a camera)
		if (i/4)%3 == 1 && !drift && len(src.vTicks)+len(src.aTicks) > 20 {
			jd.ingest += "-rtp-timestamp-wrap"
			if len(src.vTicks) > 10 {
				off := (uint64(1) << 32) - src.vTicks[len(src.vTicks)/3] - 45
				for k := range src.vTicks {
					src.vTicks[k] += off
				}
			}
			if len(src.aTicks) > 10 {
				off := (uint64(1) << 32) - src.aTicks[len(src.aTicks)/3] - 7
				for k := range src.aTicks {
					src.aTicks[k] += off
				}
			}
		}
		pkts := c07RtspPackets(r, src, maxPayload, r.Intn(2) == 0, 1+r.Intn(4), firstSeq)
		if mode != 0 {
			pkts = c07Perturb(r, pkts, mode)
		}
		jd.desc = fmt.Sprintf("rtsp udp=%v perturb=%d maxPayload=%d firstSeq=%d drift=%v packets=%d spec=%+v", udp, mode, maxPayload, firstSeq, drift, len(pkts), sp)
		c.Describe("%s", jd.desc)
		rc, err := ref.DialRtsp(s.RtspAddr(), 5*time.Second)
		if err != nil {
			c.Inconclusive("rtsp dial: %v", err)
			return
		}
		defer rc.Close()
		sdp, controls := c07Sdp(src)
		if err := rc.Announce("rtsp://"+s.RtspAddr()+"/live/"+name, sdp, len(controls), controls, udp, 5*time.Second); err != nil {
			c.Inconclusive("rtsp announce: %v", err)
			return
		}
		before := udpErrors()
		for k, p := range pkts {
			if udp {
				err = rc.SendUdp(p.track, false, p.pkt)
			} else {
				err = rc.SendInterleaved(p.track*2, p.pkt)
			}
			if err != nil {
				c.Inconclusive("rtsp send: %v", err)
				return
			}
			// pacing (no verdict): keep UDP bursts small and consumer queues (1024 entries) far from full
			if udp && k%8 == 7 {
				time.Sleep(time.Millisecond)
			}
			if k%150 == 149 {
				time.Sleep(4 * time.Millisecond)
			}
		}
		cs.quiesce()
		if udp && udpErrors() != before {
			c.Inconclusive("kernel UDP error counters moved")
			return
		}
		tail = 128
		if sp.ACodec == "" || sp.VCodec == "" {
			// a single-track stream has nothing to interleave with: no frame may be held back
			tail = 2
		}
	case "customize":
		variant := (i / 3) % 4
		jd.desc = fmt.Sprintf("customize variant=%d spec=%+v", variant, sp)
		c.Describe("%s", jd.desc)
		ctx, err := s.Lal.AddCustomizePubSession(name)
		if err != nil {
			c.Inconclusive("AddCustomizePubSession: %v", err)
			return
		}
		annexb := variant%2 == 1
		adts := variant >= 2 && sp.ACodec == "aac"
		ctx.WithOption(func(o *base.AvPacketStreamOption) {
			if annexb {
				o.VideoFormat = base.AvPacketStreamVideoFormatAnnexb
			}
			if adts {
				o.AudioFormat = base.AvPacketStreamAudioFormatAdtsAac
			}
		})
		if sp.ACodec == "aac" && !adts {
			ctx.FeedAudioSpecificConfig(src.es.Asc)
		}
		hevc := sp.VCodec == "hevc"
		vi, ai := 0, 0
		for _, f := range src.es.Frames {
			if f.Video {
				nals := f.Nals
				if f.Key && !sp.InBandPS || vi == 0 {
					// the customize API learns parameter sets in-band only
					if hevc {
						nals = append([][]byte{src.es.Vps, src.es.Sps, src.es.Pps}, nals...)
					} else {
						nals = append([][]byte{src.es.Sps, src.es.Pps}, nals...)
					}
				}
				var p []byte
				for k, n := range nals {
					if annexb {
						if k%2 == 0 {
							p = append(p, 0, 0, 0, 1)
						} else {
							p = append(p, 0, 0, 1)
						}
					} else {
						p = append(p, byte(len(n)>>24), byte(len(n)>>16), byte(len(n)>>8), byte(len(n)))
					}
					p = append(p, n...)
				}
				pt := base.AvPacketPtAvc
				if hevc {
					pt = base.AvPacketPtHevc
				}
				ms := int64(float64(src.vTicks[vi]) * vScale)
				ctx.FeedAvPacket(base.AvPacket{PayloadType: pt, Timestamp: ms, Pts: ms, Payload: p})
				vi++
			} else {
				ms := int64(float64(src.aTicks[ai]) * aScale)
				p := f.Audio
				pt := base.AvPacketPtAac
				switch sp.ACodec {
				case "g711a":
					pt = base.AvPacketPtG711A
				case "g711u":
					pt = base.AvPacketPtG711U
				case "opus":
					pt = base.AvPacketPtOpus
				}
				if adts {
					fl := len(p) + 7
					h := []byte{0xFF, 0xF1, byte(sp.AacObj-1)<<6 | byte(sp.AacIdx)<<2 | byte(sp.AacChans>>2), byte(sp.AacChans&3)<<6 | byte(fl>>11), byte(fl >> 3), byte(fl&7)<<5 | 0x1f, 0xFC}
					p = append(h, p...)
				}
				ctx.FeedAvPacket(base.AvPacket{PayloadType: pt, Timestamp: ms, Pts: ms, Payload: p})
				ai++
			}
		}
		cs.quiesce()
		s.Lal.DelCustomizePubSession(ctx)
		// the harness itself truncated ticks to ms when feeding: compare on those
		for k := range src.vTicks {
			src.vTicks[k] = uint64(int64(float64(src.vTicks[k]) * vScale))
		}
		for k := range src.aTicks {
			src.aTicks[k] = uint64(int64(float64(src.aTicks[k]) * aScale))
		}
		vScale, aScale = 1, 1
		tail = 0
	case "ps":
		tcp := (i/3)%2 == 1
		variant := (i / 6) % 4
		jd.desc = fmt.Sprintf("ps tcp=%v variant=%d spec=%+v", tcp, variant, sp)
		_ = jd.desc
		c.Describe("%s", jd.desc)
		port := srv.FreeUdpPort()
		if tcp {
			port = srv.FreePort()
		}
		body, _ := json.Marshal(map[string]interface{}{"stream_name": name, "port": port, "timeout_ms": 10000, "is_tcp_flag": map[bool]int{false: 0, true: 1}[tcp]})
		st, resp, err := srv.HttpPostJson(s.ApiAddr(), "/api/ctrl/start_rtp_pub", string(body), 5*time.Second)
		if err != nil || st != 200 || !bytes.Contains(resp, []byte(`"error_code":0`)) {
			c.Inconclusive("start_rtp_pub: status %d err %v body %s", st, err, resp)
			return
		}
		var conn net.Conn
		if tcp {
			conn, err = net.DialTimeout("tcp", fmt.Sprintf("127.0.0.1:%d", port), 3*time.Second)
		} else {
			conn, err = net.Dial("udp", fmt.Sprintf("127.0.0.1:%d", port))
		}
		if err != nil {
			c.Inconclusive("ps dial: %v", err)
			return
		}
		defer conn.Close()
		hevc := sp.VCodec == "hevc"
		vt, at := uint8(0), uint8(0)
		switch sp.VCodec {
		case "avc":
			vt = 0x1b
		case "hevc":
			vt = 0x24
		}
		switch sp.ACodec {
		case "aac":
			at = 0x0f
		case "g711a":
			at = 0x90
		case "g711u":
			at = 0x91
		}
		// PES timestamps are 33 bits wide: in a third of the cases both tracks cross 2^32 a few
		// frames into the stream (every 13 h on a camera that has been up for long)
		var psOff uint64
		if (i/5)%3 == 1 && len(src.vTicks) > 12 {
			psOff = (1 << 32) - src.vTicks[10] - 1800
		}
		seq := uint16(r.Intn(65536))
		// an access unit may be carried in several PES packets of which only the first has a PTS
		// (cameras send SPS, PPS and the slice in separate PES packets)
		pesMax := []int{65000, 1500, 300, 65000}[(i/3+i/24)%4]
		threeByte := (i/12)%2 == 1 // some NAL units delimited by 3-byte start codes
		if threeByte {
			jd.ingest = "ps-3byte-startcode"
		}
		if psOff != 0 {
			jd.ingest += "-pts-across-2^32"
		}
		// arrival perturbation that RTP permits, as for RTSP ingest: neighbouring packets swapped and / or
		// packets duplicated (never among the first 8), over UDP and over the TCP framing alike
		perturb := (i / 2) % 4
		if perturb != 0 {
			jd.ingest += fmt.Sprintf("-perturb%d", perturb)
		}
		var held []byte
		nPk := 0
		raw := func(pkt []byte) error {
			var e error
			if tcp {
				_, e = conn.Write(append([]byte{byte(len(pkt) >> 8), byte(len(pkt))}, pkt...))
			} else {
				_, e = conn.Write(pkt)
			}
			return e
		}
		emit := func(pkt []byte) error {
			nPk++
			if held != nil {
				e1 := raw(pkt)
				e2 := raw(held)
				held = nil
				c.Count("ps_packets_swapped", 1)
				if e1 != nil {
					return e1
				}
				return e2
			}
			if nPk > 8 && perturb&1 != 0 && r.Intn(6) == 0 {
				held = pkt
				return nil
			}
			e := raw(pkt)
			if e == nil && nPk > 8 && perturb&2 != 0 && r.Intn(8) == 0 {
				c.Count("ps_packets_duplicated", 1)
				e = raw(pkt)
			}
			return e
		}
		// pack headers with stuffing bytes (ISO 13818-1 2.5.3.3 allows up to 7), and in half of those
		// cases the first RTP packet of a pack ends inside the stuffing
		stuffN := []int{0, 0, 3, 6}[(i/8)%4]
		splitHdr := stuffN > 0 && (i/16)%2 == 1
		hdrLen := 14 + stuffN
		packHdr := func(ticks uint64) []byte {
			h := ref.PsPackHeader(ticks)
			h[13] = 0xF8 | byte(stuffN)
			for k := 0; k < stuffN; k++ {
				h = append(h, 0xFF)
			}
			return h
		}
		if stuffN > 0 {
			jd.ingest += fmt.Sprintf("-stuffing%d", stuffN)
			if splitHdr {
				jd.ingest += "-split"
			}
		}
		// a receiver that tunes in mid-GOP: the stream starts with the inter frames of a GOP whose key
		// frame (and program stream map) it has missed
		midGop := vt != 0 && (i/10)%3 == 1
		if midGop {
			jd.ingest += "-starts-mid-gop"
		}
		sendPs := func(ps []byte, ts uint32) bool {
			for off := 0; off < len(ps); {
				n := 1400
				if off == 0 && splitHdr {
					n = 14 + (stuffN+1)/2
				}
				if off+n > len(ps) {
					n = len(ps) - off
				}
				pkt := ref.BuildRtp(ref.RtpPkt{Marker: off+n == len(ps), PT: 96, Seq: seq, Ts: ts, Ssrc: 0x3333, Payload: ps[off : off+n]})
				seq++
				off += n
				if emit(pkt) != nil {
					return false
				}
			}
			return true
		}

		before := udpErrors()
		vi, ai := 0, 0
		psmSent := false
		n := 0
		// several ADTS frames in one audio PES (cameras batch audio; only the first has a PTS)
		multiAdts := sp.ACodec == "aac" && (i/7)%2 == 1
		// PES headers with stuffing bytes after the PTS (header_data_length > the fields present), and with a DTS field
		pesStuff := []int{0, 3, 0, 1}[(i/9)%4]
		pesDts := (i/5)%2 == 1
		if pesStuff > 0 {
			jd.ingest += fmt.Sprintf("-pes-stuffing%d", pesStuff)
		}
		if multiAdts {
			jd.ingest += "-multi-adts"
			jd.batched = 1000.0 / 90000
		}
		skipAudio := 0
		for fk, f := range src.es.Frames {
			var ps []byte
			if midGop && vi == 0 && f.Video && f.Key {
				vi++ // the key frame the receiver has missed
				continue
			}
			if !f.Video && skipAudio > 0 {
				skipAudio--
				ai++
				continue
			}
			if f.Video {
				ticks := src.vTicks[vi] + psOff
				ps = packHdr(ticks)
				if f.Key && (variant&1 == 0 || !psmSent) {
					if variant&2 == 0 {
						ps = append(ps, ref.PsSystemHeader(vt != 0, at != 0)...)
					}
					ps = append(ps, ref.PsMap(vt, at)...)
					psmSent = true
				}
				nals := f.Nals
				if f.Key {
					if hevc {
						nals = append([][]byte{src.es.Vps, src.es.Sps, src.es.Pps}, nals...)
					} else {
						nals = append([][]byte{src.es.Sps, src.es.Pps}, nals...)
					}
				}
				var esb []byte
				for k, nal := range nals {
					if threeByte && k > 0 && k%2 == 1 {
						esb = append(esb, 0, 0, 1)
					} else {
						esb = append(esb, 0, 0, 0, 1)
					}
					esb = append(esb, nal...)
				}
				ps = append(ps, ref.PsPesStuffed(0xE0, ticks, ticks, pesDts, esb, pesMax, pesStuff)...)
				if !sendPs(ps, uint32(ticks)) {
					c.Inconclusive("ps send failed")
					return
				}
				vi++
			} else {
				// audio on the 90 kHz PS clock
				ticks := uint64(float64(src.aTicks[ai])*90000/float64(src.aClock)) + psOff
				ps = packHdr(ticks)
				p := f.Audio
				if sp.ACodec == "aac" {
					adts := func(raw []byte) []byte {
						fl := len(raw) + 7
						h := []byte{0xFF, 0xF1, byte(sp.AacObj-1)<<6 | byte(sp.AacIdx)<<2 | byte(sp.AacChans>>2), byte(sp.AacChans&3)<<6 | byte(fl>>11), byte(fl >> 3), byte(fl&7)<<5 | 0x1f, 0xFC}
						return append(h, raw...)
					}
					p = adts(f.Audio)
					if multiAdts && psmSent {
						for q := fk + 1; q < len(src.es.Frames) && !src.es.Frames[q].Video && skipAudio < 2; q++ {
							p = append(p, adts(src.es.Frames[q].Audio)...)
							skipAudio++
						}
					}
				}
				// (an audio frame, or a batch of them, may continue in PES packets that carry no PTS, like video)
				ps = append(ps, ref.PsPesStuffed(0xC0, ticks, ticks, false, p, pesMax, pesStuff)...)
				if !psmSent && vt != 0 {
					ai++
					continue // nothing can be interpreted before the first PSM (sent with the first key frame)
				}
				if !psmSent {
					ps = append(ps, ref.PsMap(vt, at)...)
					psmSent = true
					ps = append(ps[:hdrLen:hdrLen], append(ref.PsMap(vt, at), ps[hdrLen:len(ps)-len(ref.PsMap(vt, at))]...)...)
				}
				if !sendPs(ps, uint32(ticks)) {
					c.Inconclusive("ps send failed")
					return
				}
				ai++
			}
			n++
			if !tcp && n%4 == 3 {
				time.Sleep(time.Millisecond)
			}
			if n%100 == 99 {
				time.Sleep(4 * time.Millisecond)
			}
		}
		if held != nil {
			raw(held)
			held = nil
		}
		cs.quiesce()
		if !tcp && udpErrors() != before {
			c.Inconclusive("kernel UDP error counters moved")
			return
		}
		// audio source ticks were converted to the 90 kHz PS clock by the publisher
		for k := range src.aTicks {
			src.aTicks[k] = uint64(float64(src.aTicks[k]) * 90000 / float64(src.aClock))
		}
		aScale = 1000.0 / 90000
		tail = 2
	}
	rh, fh, ferr := cs.histories()
	if ferr != nil {
		jd.bad("flv", "parse", "FLV stream does not parse: %v", ferr)
	}
	jd.judge("rtmp", rh, tail, vScale, aScale)
	jd.judge("flv", fh, tail, vScale, aScale)
	if i < 6 {
		c.Sample(map[string]interface{}{"ingest": ingest, "desc": jd.desc, "frames": len(src.es.Frames)})
	}
}
