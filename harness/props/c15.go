package props

import (
	"bufio"
	"bytes"
	"encoding/binary"
	"errors"
	"fmt"
	"io"
	"net"
	"os"
	"path/filepath"
	"os/exec"
	"strconv"
	"strings"
	"sync"
	"sync/atomic"
	"time"

	"github.com/q191201771/lal/pkg/base"
	"github.com/q191201771/lal/pkg/httpflv"
	"github.com/q191201771/lal/pkg/httpts"
	"github.com/q191201771/lal/pkg/rtmp"
	"github.com/q191201771/lal/pkg/rtsp"

	"lalverif/fw"
	"lalverif/gen"
	"lalverif/ref"
	"lalverif/srv"
)

// C15 — a stalled consumer cannot delay others or corrupt its own framing.
//
// One lal server per case, write queues shrunk to 64 entries, write timeouts to 500 ms and the
// liveness sweep to every 2 s (process globals set in Setup, verif hooks for the private ones).
// Two RTMP publishers (streams A and B) send tagged frames at ≤500 frames/s; healthy witnesses
// (RTMP + HTTP-FLV on A, RTMP on B) read eagerly and time-stamp every frame. k consumers
// join A (and B) over each of the six subscriber protocols and then
// follow a seeded plan: stop reading for good, read slowly, or stop and resume.
//
// The clock of the disconnect clause is the publisher's frame counter (each frame is followed
// by a 2 ms sleep, so F frames take at least 2·F ms however loaded the machine is).

var c15Kinds = []string{"rtmp", "flv", "wsflv", "ts", "rtsp", "wsrtsp"}
var c15Modes = []string{"stall", "slow", "stall-resume"}

const (
	c15WriteTimeoutMs = 1000
	c15Queue          = 64
	// frames after which a consumer that never reads again must be gone: the kernel absorbs
	// ≈2.8 MB on loopback before lal's writer blocks (≈0.9 s at ≈3.4 MB/s, allow 2 s), then
	// 2×(write timeout 1 s + sweep 1 s) + 2 s slack: 8 s = 4000 frames of ≥2 ms.
	c15DisconnectFrames = 4000
	c15MinFrames        = 1600
	c15DelayBound       = 3 * time.Second
	c15ControlBound     = 500 * time.Millisecond
)

type c15Plan struct {
	Kind        string
	Mode        string
	Stream      string
	StallAt     int // stream bytes read before the plan starts
	StallMs     int
	SlowChunk   int
	SlowSleepMs int
	OneTrack    bool // rtsp / wsrtsp: SETUP only the first track of an audio+video stream
	Rtcp        bool // rtsp: while stalled the player keeps sending RTCP receiver reports on its interleaved RTCP channel (what it sends is not what lal managed to write to it)
	Chatty      bool // rtmp: while stalled the player sends ping requests and a createStream command (replies are queued behind the media)
}

type c15Client struct {
	plan  c15Plan
	conn  net.Conn
	local string
	from  int
	rc    *ref.RtmpConn

	mu       sync.Mutex
	stream   []byte
	eof      bool
	rdErr    error
	hsErr    error
	lastByte time.Time
	eofAt    time.Time
	drainCut bool // the final drain hit its total time cap while bytes were still arriving
	// emptyWait: total length of the read deadlines that expired, one after the other, with the socket
	// empty since the last byte arrived (reset by every byte). Unlike the wall-clock distance between
	// two reads it cannot be inflated by this process being descheduled on a loaded machine.
	emptyWait time.Duration
	peerUnsent int // bytes lal's kernel still held unsent when the drain ended (zero-window persist back-off)

	joinedFrame  int64
	stalledFrame int64
	stopFrame    int64 // publisher frame at which sub_stop was seen (−1)

	quit chan struct{}
	done chan struct{}
}

func c15Setup(c *fw.Ctx) {
	base.LogicCheckSessionAliveIntervalSec = 2
	httpflv.SubSessionWriteChanSize = c15Queue
	httpflv.SubSessionWriteTimeoutMs = c15WriteTimeoutMs
	httpts.SubSessionWriteChanSize = c15Queue
	httpts.SubSessionWriteTimeoutMs = c15WriteTimeoutMs
	rtmp.VerifSetServerWriteParams(c15Queue, c15WriteTimeoutMs)
	rtsp.VerifSetCmdWriteChanSize(c15Queue)
}

// c15DialSmall dials with the kernel's default buffers. (A small SO_RCVBUF was tried first: on
// loopback the MSS is 64 KiB, a window below it triggers the sender's silly-window avoidance
// and the persist timer, and a resumed reader then trickles at ≈10 KB/s — a kernel artefact
// that looked like a server that stopped sending.)
// tcpPeerSendQueue returns the number of bytes queued for sending in the kernel on the PEER's side of
// a loopback connection (the socket whose local address is conn's remote address), from /proc/net/tcp.
func tcpPeerSendQueue(conn net.Conn) (int, bool) {
	la, ok1 := conn.LocalAddr().(*net.TCPAddr)
	ra, ok2 := conn.RemoteAddr().(*net.TCPAddr)
	if !ok1 || !ok2 {
		return 0, false
	}
	hexAddr := func(a *net.TCPAddr) string {
		ip := a.IP.To4()
		if ip == nil {
			return ""
		}
		return fmt.Sprintf("%02X%02X%02X%02X:%04X", ip[3], ip[2], ip[1], ip[0], a.Port)
	}
	wantLocal, wantRem := hexAddr(ra), hexAddr(la)
	if wantLocal == "" || wantRem == "" {
		return 0, false
	}
	b, err := os.ReadFile("/proc/net/tcp")
	if err != nil {
		return 0, false
	}
	for _, line := range strings.Split(string(b), "\n") {
		f := strings.Fields(line)
		if len(f) < 5 || f[1] != wantLocal || f[2] != wantRem {
			continue
		}
		q := strings.SplitN(f[4], ":", 2)
		n, err := strconv.ParseInt(q[0], 16, 64)
		if err != nil {
			return 0, false
		}
		return int(n), true
	}
	return 0, false
}

// timestamps of the ping requests a chatty player sends; the responses must echo them in order
var c15PingStamps = []uint32{0x11223344, 0x55667788}

func c15DialSmall(addr string) (net.Conn, error) {
	var conn net.Conn
	var err error
	for i := 0; i < 20; i++ {
		conn, err = net.DialTimeout("tcp", addr, 3*time.Second)
		if err == nil {
			return conn, nil
		}
		time.Sleep(50 * time.Millisecond)
	}
	return nil, err
}

// --- protocol handshakes; each returns bytes already read that belong to the stream

func c15ReadHeader(br *bufio.Reader) (string, error) {
	var sb strings.Builder
	for {
		line, err := br.ReadString('\n')
		sb.WriteString(line)
		if err != nil {
			return sb.String(), err
		}
		if line == "\r\n" {
			return sb.String(), nil
		}
	}
}

func takeBuffered(br *bufio.Reader) []byte {
	n := br.Buffered()
	b, _ := br.Peek(n)
	out := append([]byte(nil), b...)
	br.Discard(n)
	return out
}

type c15RtspTransport struct {
	conn net.Conn
	br   *bufio.Reader
	ws   bool
	wsp  ref.WsParser
	used int
}

func (t *c15RtspTransport) send(req string) error {
	if t.ws {
		mask := [4]byte{0x11, 0x22, 0x33, 0x44}
		_, err := t.conn.Write(ref.WsEncode(2, true, []byte(req), &mask))
		return err
	}
	_, err := t.conn.Write([]byte(req))
	return err
}

// recv reads one RTSP response (skipping interleaved packets).
func (t *c15RtspTransport) recv() (status int, hdr string, body []byte, err error) {
	if t.ws {
		for {
			for t.used < len(t.wsp.Frames) {
				f := t.wsp.Frames[t.used]
				t.used++
				if bytes.HasPrefix(f.Payload, []byte("RTSP/1.0 ")) {
					i := bytes.Index(f.Payload, []byte("\r\n\r\n"))
					if i < 0 {
						return 0, "", nil, fmt.Errorf("ws rtsp response without header end")
					}
					hdr = string(f.Payload[:i+4])
					body = f.Payload[i+4:]
					status, _ = strconv.Atoi(strings.Fields(hdr)[1])
					return
				}
			}
			if t.wsp.Err != nil {
				return 0, "", nil, t.wsp.Err
			}
			buf := make([]byte, 4096)
			n, e := t.conn.Read(buf)
			if n > 0 {
				t.wsp.Feed(buf[:n])
			}
			if e != nil {
				return 0, "", nil, e
			}
		}
	}
	for {
		b, e := t.br.Peek(1)
		if e != nil {
			return 0, "", nil, e
		}
		if b[0] == '$' {
			h := make([]byte, 4)
			if _, e = io.ReadFull(t.br, h); e != nil {
				return 0, "", nil, e
			}
			if _, e = io.CopyN(io.Discard, t.br, int64(binary.BigEndian.Uint16(h[2:]))); e != nil {
				return 0, "", nil, e
			}
			continue
		}
		hdr, e = c15ReadHeader(t.br)
		if e != nil {
			return 0, hdr, nil, e
		}
		f := strings.Fields(hdr)
		if len(f) < 2 {
			return 0, hdr, nil, fmt.Errorf("bad rtsp status line %q", hdr)
		}
		status, _ = strconv.Atoi(f[1])
		if cl := headerValue(hdr, "Content-Length"); cl != "" {
			n, _ := strconv.Atoi(cl)
			body = make([]byte, n)
			if _, e = io.ReadFull(t.br, body); e != nil {
				return status, hdr, nil, e
			}
		}
		return
	}
}

func headerValue(hdr, name string) string {
	for _, l := range strings.Split(hdr, "\r\n") {
		if i := strings.IndexByte(l, ':'); i > 0 && strings.EqualFold(strings.TrimSpace(l[:i]), name) {
			return strings.TrimSpace(l[i+1:])
		}
	}
	return ""
}

func (cl *c15Client) handshake(s *srv.Server) (left []byte, err error) {
	p := cl.plan
	cl.conn.SetDeadline(time.Now().Add(8 * time.Second))
	defer cl.conn.SetDeadline(time.Time{})
	switch p.Kind {
	case "flv", "ts":
		_, err = fmt.Fprintf(cl.conn, "GET /live/%s.%s HTTP/1.1\r\nHost: x\r\nUser-Agent: c15\r\n\r\n", p.Stream, p.Kind)
		return nil, err
	case "wsflv":
		_, err = fmt.Fprintf(cl.conn, "GET /live/%s.flv HTTP/1.1\r\nHost: x\r\nUpgrade: websocket\r\nConnection: Upgrade\r\nSec-WebSocket-Key: dGhlIHNhbXBsZSBub25jZQ==\r\nSec-WebSocket-Version: 13\r\n\r\n", p.Stream)
		return nil, err
	case "rtmp":
		rc, e := ref.HandshakeRtmpOn(cl.conn, 5*time.Second)
		if e != nil {
			return nil, e
		}
		cl.rc = rc
		if e = rc.Connect("live", "rtmp://"+s.RtmpAddr()+"/live", 5*time.Second); e != nil {
			return nil, e
		}
		msid, e := rc.CreateStream(5 * time.Second)
		if e != nil {
			return nil, e
		}
		if e = rc.Play(msid, p.Stream); e != nil {
			return nil, e
		}
		return rc.TakeBuffered(), nil
	case "rtsp", "wsrtsp":
		t := &c15RtspTransport{conn: cl.conn, ws: p.Kind == "wsrtsp"}
		addr := s.RtspAddr()
		if t.ws {
			addr = fmt.Sprintf("127.0.0.1:%d", s.Ports.WsRtsp)
			if _, err = fmt.Fprintf(cl.conn, "GET / HTTP/1.1\r\nHost: x\r\nUpgrade: websocket\r\nConnection: Upgrade\r\nSec-WebSocket-Key: dGhlIHNhbXBsZSBub25jZQ==\r\nSec-WebSocket-Protocol: rtsp\r\nSec-WebSocket-Version: 13\r\n\r\n"); err != nil {
				return nil, err
			}
			// read the 101 response byte-wise (nothing else may be consumed)
			var h []byte
			one := make([]byte, 1)
			for !bytes.HasSuffix(h, []byte("\r\n\r\n")) {
				if _, err = io.ReadFull(cl.conn, one); err != nil {
					return nil, fmt.Errorf("ws upgrade: %w", err)
				}
				h = append(h, one[0])
				if len(h) > 4096 {
					return nil, fmt.Errorf("ws upgrade: header too long")
				}
			}
			if !bytes.HasPrefix(h, []byte("HTTP/1.1 101")) {
				return nil, fmt.Errorf("ws upgrade refused: %q", h)
			}
		} else {
			t.br = bufio.NewReaderSize(cl.conn, 4096)
		}
		url := "rtsp://" + addr + "/live/" + p.Stream
		cseq := 0
		req := func(method, u, extra string) (int, string, []byte, error) {
			cseq++
			if e := t.send(fmt.Sprintf("%s %s RTSP/1.0\r\nCSeq: %d\r\nUser-Agent: c15\r\n%s\r\n", method, u, cseq, extra)); e != nil {
				return 0, "", nil, e
			}
			return t.recv()
		}
		st, _, body, e := req("DESCRIBE", url, "Accept: application/sdp\r\n")
		if e != nil || st != 200 {
			return nil, fmt.Errorf("DESCRIBE: status %d err %v", st, e)
		}
		var controls []string
		inMedia := false
		for _, l := range strings.Split(string(body), "\n") {
			l = strings.TrimSpace(l)
			if strings.HasPrefix(l, "m=") {
				inMedia = true
			}
			if inMedia && strings.HasPrefix(l, "a=control:") {
				controls = append(controls, strings.TrimPrefix(l, "a=control:"))
			}
		}
		if len(controls) == 0 {
			return nil, fmt.Errorf("DESCRIBE: no media controls in sdp %q", body)
		}
		session := ""
		for i, ctl := range controls {
			if p.OneTrack && i > 0 {
				break
			}
			u := ctl
			if !strings.HasPrefix(ctl, "rtsp://") {
				u = url + "/" + ctl
			}
			extra := fmt.Sprintf("Transport: RTP/AVP/TCP;unicast;interleaved=%d-%d\r\n", 2*i, 2*i+1)
			if session != "" {
				extra += "Session: " + session + "\r\n"
			}
			st, hdr, _, e := req("SETUP", u, extra)
			if e != nil || st != 200 {
				return nil, fmt.Errorf("SETUP: status %d err %v", st, e)
			}
			if v := headerValue(hdr, "Session"); v != "" {
				session = strings.Split(v, ";")[0]
			}
		}
		cseq++
		if e := t.send(fmt.Sprintf("PLAY %s RTSP/1.0\r\nCSeq: %d\r\nSession: %s\r\nRange: npt=0.000-\r\n\r\n", url, cseq, session)); e != nil {
			return nil, e
		}
		// everything from here on (PLAY response included) is the captured stream
		if t.ws {
			return nil, nil // the ws parser never holds unconsumed bytes across a frame we used: see below
		}
		return takeBuffered(t.br), nil
	}
	return nil, fmt.Errorf("unknown kind %s", p.Kind)
}

func (cl *c15Client) add(b []byte) {
	cl.mu.Lock()
	cl.stream = append(cl.stream, b...)
	cl.mu.Unlock()
}

func (cl *c15Client) size() int {
	cl.mu.Lock()
	defer cl.mu.Unlock()
	return len(cl.stream)
}

// readSome reads up to n bytes with a deadline; returns false on EOF/error.
func (cl *c15Client) readSome(n int, d time.Duration) (got int, open bool) {
	buf := make([]byte, n)
	cl.conn.SetReadDeadline(time.Now().Add(d))
	k, err := cl.conn.Read(buf)
	if k > 0 {
		cl.add(buf[:k])
		cl.mu.Lock()
		cl.lastByte = time.Now()
		cl.emptyWait = 0
		cl.mu.Unlock()
	}
	if err != nil {
		var ne net.Error
		if errors.As(err, &ne) && ne.Timeout() {
			if k == 0 {
				// the read was pending for the whole deadline and the socket stayed empty: silence that
				// is lal's, whatever the scheduler did to this process in between
				cl.mu.Lock()
				cl.emptyWait += d
				cl.mu.Unlock()
			}
			return k, true
		}
		cl.mu.Lock()
		cl.eof = true
		cl.eofAt = time.Now()
		cl.rdErr = err
		cl.mu.Unlock()
		return k, false
	}
	return k, true
}

func (cl *c15Client) quitting() bool {
	select {
	case <-cl.quit:
		return true
	default:
		return false
	}
}

func (cl *c15Client) run(frame *int64) {
	defer close(cl.done)
	p := cl.plan
	open := true
	// phase 1: read eagerly up to the stall point
	for open && cl.size() < p.StallAt && !cl.quitting() {
		_, open = cl.readSome(min(4096, p.StallAt-cl.size()), 100*time.Millisecond)
	}
	atomic.StoreInt64(&cl.stalledFrame, atomic.LoadInt64(frame))
	switch p.Mode {
	case "stall":
		if p.Rtcp && p.Kind == "rtsp" {
			rr := []byte{'$', 1, 0, 8, 0x80, 0xc9, 0x00, 0x01, 0x12, 0x34, 0x56, 0x78}
		rtcp:
			for {
				select {
				case <-cl.quit:
					break rtcp
				case <-time.After(300 * time.Millisecond):
					cl.conn.SetWriteDeadline(time.Now().Add(time.Second))
					if _, err := cl.conn.Write(rr); err != nil {
						<-cl.quit
						break rtcp
					}
				}
			}
		} else {
			<-cl.quit
		}
	case "stall-resume":
		if p.Chatty && cl.rc != nil {
			// well into the stall (lal's writer is blocked by now) the player talks: two ping requests and
			// a createStream. lal's replies are queued behind the media that is waiting.
			select {
			case <-cl.quit:
			case <-time.After(time.Duration(p.StallMs) * time.Millisecond * 2 / 3):
			}
			cl.conn.SetWriteDeadline(time.Now().Add(3 * time.Second))
			for _, ts := range c15PingStamps {
				cl.rc.Send(ref.RtmpMsg{Csid: 2, TypeID: 4, StreamID: 0, Payload: []byte{0, 6, byte(ts >> 24), byte(ts >> 16), byte(ts >> 8), byte(ts)}}, 0)
				time.Sleep(30 * time.Millisecond)
			}
			cl.rc.SendCommand(3, 0, ref.AmfStr("createStream"), ref.AmfNum(77), ref.AmfNul())
			select {
			case <-cl.quit:
			case <-time.After(time.Duration(p.StallMs) * time.Millisecond / 3):
			}
		} else {
			select {
			case <-cl.quit:
			case <-time.After(time.Duration(p.StallMs) * time.Millisecond):
			}
		}
		for open && !cl.quitting() {
			_, open = cl.readSome(16384, 100*time.Millisecond)
		}
	case "stall-slow":
		// stall until the kernel buffers and the queue are full, then read below the publishing rate:
		// the queue hovers around full, every freed slot is an instant between two parts of a write
		select {
		case <-cl.quit:
		case <-time.After(time.Duration(p.StallMs) * time.Millisecond):
		}
		for open && !cl.quitting() {
			_, open = cl.readSome(p.SlowChunk, 50*time.Millisecond)
			time.Sleep(time.Duration(p.SlowSleepMs) * time.Millisecond)
		}
	case "slow":
		for open && !cl.quitting() {
			_, open = cl.readSome(p.SlowChunk, 50*time.Millisecond)
			time.Sleep(time.Duration(p.SlowSleepMs) * time.Millisecond)
		}
	}
	// drain: the publishers have stopped, so lal's sweep ends every idle session; read until
	// EOF (or 5 s without a byte / 20 s in total — then the connection counts as left open)
	t0 := time.Now()
	silent := func() time.Duration {
		cl.mu.Lock()
		defer cl.mu.Unlock()
		return cl.emptyWait
	}
	cl.mu.Lock()
	cl.emptyWait = 0
	cl.mu.Unlock()
	for open && silent() < 5*time.Second && time.Since(t0) < 20*time.Second {
		_, open = cl.readSome(65536, 500*time.Millisecond)
	}
	if open && silent() < 5*time.Second {
		cl.mu.Lock()
		cl.drainCut = true
		cl.mu.Unlock()
	}
	if open {
		// silence on a connection that was stalled for long is not proof that lal has nothing more to
		// send: after a zero window the sending kernel waits for its persist timer, which backs off
		// exponentially (seconds to minutes) when the window update is suppressed by silly-window
		// avoidance (loopback MSS 64 KiB against a receive buffer that never grew). Bytes lal has
		// written and its kernel has not sent yet are not lal's doing: ask the kernel.
		if q, ok := tcpPeerSendQueue(cl.conn); ok && q > 0 {
			cl.mu.Lock()
			cl.drainCut = true
			cl.peerUnsent = q
			cl.mu.Unlock()
		}
	}
	if open && os.Getenv("VERIF_C15_SS") != "" {
		out, _ := exec.Command("ss", "-tnoi", "sport", "=", ":"+c15Port(cl.local), "or", "dport", "=", ":"+c15Port(cl.local)).CombinedOutput()
		fmt.Fprintf(os.Stderr, "C15 open-idle %s %s bytes=%d\n%s\n%s\n", cl.plan.Kind, cl.plan.Mode, cl.size(), out, goroutineDump())
	}
}

// c15Port: the client port of a srv.Key ("ip:port@serverport").
func c15Port(key string) string {
	if k := strings.IndexByte(key, '@'); k >= 0 {
		key = key[:k]
	}
	return key[strings.LastIndexByte(key, ':')+1:]
}

// --- witnesses

type c15Witness struct {
	rc      *ref.RtmpConn
	mu      sync.Mutex
	recvAt  map[int]time.Time
	order   []int
	err     error
	lastIdx int64 // highest message index received (−1 none)
	bad     string
}

func c15StartWitness(addr, name string, ix *gen.Index) (*c15Witness, error) {
	rc, err := ref.DialRtmp(addr, 5*time.Second)
	if err != nil {
		return nil, err
	}
	if err = rc.Connect("live", "rtmp://"+addr+"/live", 5*time.Second); err != nil {
		rc.Close()
		return nil, err
	}
	msid, err := rc.CreateStream(5 * time.Second)
	if err != nil {
		rc.Close()
		return nil, err
	}
	if err = rc.Play(msid, name); err != nil {
		rc.Close()
		return nil, err
	}
	w := &c15Witness{rc: rc, recvAt: map[int]time.Time{}, lastIdx: -1}
	go func() {
		for {
			m, err := rc.Read()
			if err != nil {
				w.mu.Lock()
				w.err = err
				w.mu.Unlock()
				return
			}
			if m.TypeID != 8 && m.TypeID != 9 {
				continue
			}
			now := time.Now()
			idx, ok := ix.Lookup(m.TypeID, m.Payload)
			w.mu.Lock()
			if !ok {
				if w.bad == "" {
					w.bad = fmt.Sprintf("type %d len %d", m.TypeID, len(m.Payload))
				}
			} else {
				if _, dup := w.recvAt[idx]; !dup {
					w.recvAt[idx] = now
				}
				w.order = append(w.order, idx)
				if int64(idx) > atomic.LoadInt64(&w.lastIdx) {
					atomic.StoreInt64(&w.lastIdx, int64(idx))
				}
			}
			w.mu.Unlock()
		}
	}()
	return w, nil
}

// --- publisher side

type c15Pub struct {
	name    string
	msgs    []gen.PubMsg
	ix      *gen.Index
	pub     *ref.RtmpPublisher
	sentAt  []time.Time
	sendDur []time.Duration
	sent    int64 // number of messages handed to Send (= index of the next one)
	errV    atomic.Value // error of the send that ended run (read by the case while run is going)
	w       atomic.Value // *c15Witness used for pacing
	flvW    atomic.Value // *srv.HttpSub: the healthy HTTP-FLV witness of this stream (paced like the RTMP one)
	flvBase int64        // message index minus the FLV witness's tag count when pacing on it began
	maxPace time.Duration
}

func c15BuildStream(c *fw.Ctx, inc int, nMedia int) []gen.PubMsg {
	sh := gen.Shape{Name: "c15", Video: true, Audio: true, Gops: nMedia/50 + 1, GopLen: 25, AudioPerVid: 1,
		Sizes: []int{6000, 12000, 20000, 30000}}
	return gen.Build(c.SubRng(fmt.Sprintf("stream%d", inc)), inc, sh)
}

func (pb *c15Pub) getErr() error {
	e, _ := pb.errV.Load().(error)
	return e
}

func (pb *c15Pub) run(stop chan struct{}, frame *int64, wg *sync.WaitGroup) {
	defer wg.Done()
	for n, m := range pb.msgs {
		select {
		case <-stop:
			return
		default:
		}
		if m.IsMedia() {
			// pacing: at most 32 messages ahead of the healthy witness
			if w, _ := pb.w.Load().(*c15Witness); w != nil {
				t0 := time.Now()
				for atomic.LoadInt64(&w.lastIdx) >= 0 && int64(n)-atomic.LoadInt64(&w.lastIdx) > 32 && time.Since(t0) < 10*time.Second {
					time.Sleep(time.Millisecond)
				}
				// … and of the healthy HTTP-FLV witness (its queue has 64 entries like everybody's: a harness
				// reader that falls behind on a loaded machine must not be mistaken for lal dropping data)
				if f, _ := pb.flvW.Load().(*srv.HttpSub); f != nil {
					for int64(n)-int64(f.NumTags())-atomic.LoadInt64(&pb.flvBase) > 32 && time.Since(t0) < 10*time.Second && !f.Closed() {
						time.Sleep(time.Millisecond)
					}
				}
				if d := time.Since(t0); d > pb.maxPace {
					pb.maxPace = d
				}
			}
		}
		pb.sentAt[n] = time.Now()
		pb.pub.RC.Conn.SetWriteDeadline(time.Now().Add(6 * time.Second))
		err := pb.pub.RC.Send(ref.RtmpMsg{Csid: csidFor(m.Type), TypeID: m.Type, StreamID: pb.pub.Msid, Ts: m.Ts, Payload: m.Payload}, 0)
		pb.sendDur[n] = time.Since(pb.sentAt[n])
		if err != nil {
			pb.errV.Store(err)
			return
		}
		atomic.AddInt64(&pb.sent, 1)
		if m.IsMedia() {
			if frame != nil {
				atomic.AddInt64(frame, 1)
			}
			time.Sleep(2 * time.Millisecond)
		}
	}
}


// c15PublisherLeaves: an interleaved RTSP (or WebSocket-RTSP) player stops reading; once lal's
// writer towards it is blocked the publisher goes away. RTSP command connections have no write
// timeout, so only the liveness sweep can end the player - it must do so for a stream that has no
// input any more as well.
func c15PublisherLeaves(c *fw.Ctx, i int) {
	base.LogicCheckSessionAliveIntervalSec = 2
	rtsp.VerifSetCmdWriteChanSize(c15Queue)
	root := filepath.Join(c.Scratch, fmt.Sprintf("c15pl-%d", i))
	os.MkdirAll(root, 0755)
	defer os.RemoveAll(root)
	s, err := srv.Start(srv.Conf{RtmpGop: 1, Rtsp: true, WsRtsp: true, Api: true}, root)
	if err != nil {
		c.Inconclusive("server start: %v", err)
		return
	}
	stopDone := make(chan struct{})
	defer func() {
		go func() { s.Stop(); close(stopDone) }()
		select {
		case <-stopDone:
		case <-time.After(10 * time.Second):
		}
	}()
	kind := []string{"rtsp", "wsrtsp"}[i%2]
	c.Describe("a stalled %s player whose publisher leaves while lal's writer towards it is blocked", kind)
	c.Cell("%s/stall/publisher-leaves", kind)
	pb := &c15Pub{name: "a"}
	pb.msgs = c15BuildStream(c, 1, 3000)
	pb.ix = gen.NewIndex(pb.msgs)
	pb.sentAt = make([]time.Time, len(pb.msgs))
	pb.sendDur = make([]time.Duration, len(pb.msgs))
	pb.pub, err = ref.StartRtmpPublisher(s.RtmpAddr(), "live", pb.name, 5*time.Second)
	if err != nil {
		c.Inconclusive("publisher: %v", err)
		return
	}
	var frame int64
	stopPub := make(chan struct{})
	var pubWg sync.WaitGroup
	pubWg.Add(1)
	go pb.run(stopPub, &frame, &pubWg)
	for atomic.LoadInt64(&frame) < 20 && pb.getErr() == nil {
		time.Sleep(2 * time.Millisecond)
	}
	cl := &c15Client{plan: c15Plan{Kind: kind, Mode: "stall", Stream: "a", StallAt: 5000}, joinedFrame: -1, stalledFrame: -1, stopFrame: -1, quit: make(chan struct{}), done: make(chan struct{})}
	addr := s.RtspAddr()
	if kind == "wsrtsp" {
		addr = fmt.Sprintf("127.0.0.1:%d", s.Ports.WsRtsp)
	}
	from := s.Notify.Len()
	conn, err := c15DialSmall(addr)
	if err != nil {
		c.Inconclusive("dial: %v", err)
		close(stopPub)
		pubWg.Wait()
		pb.pub.Close()
		return
	}
	cl.conn = conn
	cl.local = srv.Key(conn)
	left, err := cl.handshake(s)
	if err != nil {
		c.Inconclusive("player handshake: %v", err)
		conn.Close()
		close(stopPub)
		pubWg.Wait()
		pb.pub.Close()
		return
	}
	cl.add(left)
	go cl.run(&frame)
	// the player stalls after 5000 bytes; the kernel absorbs ≈2.8 MB (≈1 s at this rate), then lal's
	// writer blocks and the 64-entry queue fills
	time.Sleep(2200 * time.Millisecond)
	close(stopPub)
	pubWg.Wait()
	pb.pub.Close()
	tLeft := time.Now()
	c.Eval(1)
	_, stopped := s.Notify.Wait(3*2*time.Second+4*time.Second, from, func(e srv.Event) bool { return e.Kind == "sub_stop" && s.Notify.Match(e, cl.local) })
	c.Count("stalled_players_after_publisher_left_judged", 1)
	if !stopped {
		c.Violate("not-disconnected/"+kind+"/publisher-left", fmt.Sprintf("a %s player that stopped reading was still subscribed %v after its publisher had left (liveness sweep every 2 s; the command connection has no write timeout, so nothing else will ever end it)", kind, time.Since(tLeft).Round(time.Second)), nil)
	}
	close(cl.quit)
	conn.Close()
	<-cl.done
}

func c15Run(c *fw.Ctx, i int) {
	if n := map[bool]int{true: 18 * 8, false: 18}[c.Tier == "thorough"]; i >= n {
		c15PublisherLeaves(c, i-n)
		return
	}
	// odd cases: the write timeout (10 s) is longer than the liveness sweep (2 s), so it is the
	// sweep that disposes a consumer whose writer is blocked; even cases: write timeout 1 s and a
	// sweep that cannot fire during the run (60 s), so it must be the write timeout that closes it
	// (RTSP connections have no write timeout in lal: their disconnect is judged in odd cases only)
	wto := c15WriteTimeoutMs
	sweep := uint32(60) // even cases: no sweep within the run - only the write timeout can disconnect a stalled consumer
	if i%2 == 1 {
		wto = 10000
		sweep = 2
	}
	base.LogicCheckSessionAliveIntervalSec = sweep
	// queue capacity: multi-part writes come in pairs, so with an even capacity a queue that fills
	// from empty always fills at a pair boundary; odd capacities put the queue-full instant between
	// the two parts
	queue := []int{64, 63, 61}[(i/2)%3]
	httpflv.SubSessionWriteChanSize = queue
	httpts.SubSessionWriteChanSize = queue
	rtsp.VerifSetCmdWriteChanSize(queue)
	httpflv.SubSessionWriteTimeoutMs = wto
	httpts.SubSessionWriteTimeoutMs = wto
	rtmp.VerifSetServerWriteParams(queue, wto)
	base3 := i / 3
	k := []int{1, 4, 16}[i%3]
	r := c.Rng
	conf := srv.Conf{RtmpGop: 1, Flv: true, FlvGop: 1, Ts: true, TsGop: 1, Rtsp: true, WsRtsp: true}
	root := fmt.Sprintf("%s/c15-%d", c.Scratch, i)
	s, err := srv.Start(conf, root)
	if err != nil {
		c.Inconclusive("server start: %v", err)
		return
	}
	defer func() {
		s.Stop()
		if s.Wedged {
			c.RestartChild = true
			c.Violate("deadlock/dispose", "the server did not shut down within 10 s after the run with stalled consumers (Dispose blocked on its locks)\n"+goroutineSummary(), nil)
		}
	}()

	var plans []c15Plan
	stallPoints := []int{0, 1, 300, 5000, 40000, 150000}
	for j := 0; j < k; j++ {
		p := c15Plan{Kind: c15Kinds[(base3+j)%6], Mode: c15Modes[(base3+j/6+i/18)%3], Stream: "a"}
		if k >= 4 && j%4 == 3 {
			p.Stream = "b"
		}
		p.StallAt = stallPoints[r.Intn(len(stallPoints))]
		if p.StallAt > 1 {
			p.StallAt += r.Intn(p.StallAt)
		}
		p.StallMs = 300 + r.Intn(2200)
		p.SlowChunk = []int{4096, 16384, 32768}[r.Intn(3)]
		p.SlowSleepMs = 2 + r.Intn(19)
		plans = append(plans, p)
	}
	if i%2 == 1 {
		// multi-part writes (WebSocket header + payload) are exposed at the instants the queue
		// becomes full and while it hovers around full during a resume: four extra WebSocket
		// consumers that stall beyond the kernel's buffering and then resume
		for j := 0; j < 4; j++ {
			plans = append(plans, c15Plan{Kind: []string{"wsflv", "wsrtsp"}[j%2], Mode: []string{"stall-slow", "stall-resume"}[j/2], Stream: "a", StallAt: []int{1, 5000, 60000, 200000}[r.Intn(4)],
				StallMs: 1200 + r.Intn(2500), SlowChunk: []int{2048, 4096, 8192}[r.Intn(3)], SlowSleepMs: 2 + r.Intn(5)})
		}
	}
	if i%2 == 1 {
		// players that set up one track only of the audio+video stream and then stop reading: what lal
		// does not send them (the other track) must not count as "still writing" in the liveness sweep
		for _, kd := range []string{"rtsp", "wsrtsp"} {
			plans = append(plans, c15Plan{Kind: kd, Mode: "stall", Stream: "a", StallAt: []int{1, 5000, 60000}[r.Intn(3)], OneTrack: true})
		}
		// … and one that stops reading but goes on sending RTCP receiver reports
		plans = append(plans, c15Plan{Kind: "rtsp", Mode: "stall", Stream: "a", StallAt: []int{5000, 60000}[r.Intn(2)], Rtcp: true})
	}
	// RTMP players that talk while stalled (ping requests, createStream): lal's replies wait in the
	// queue behind the media; when the player reads again they must be whole and be the right ones
	// (odd cases only: with the 1 s write timeout of the even cases the player would be gone before it
	// reads again; here the writer blocks after ≈0.9 s, the player talks at ≈1.3 s and reads on at ≈2 s)
	for j := 0; j < 2 && i%2 == 1; j++ {
		plans = append(plans, c15Plan{Kind: "rtmp", Mode: "stall-resume", Stream: "a", StallAt: []int{5000, 60000}[j], StallMs: 1900 + r.Intn(300), Chatty: true})
	}
	c.Describe("k=%d write_timeout_ms=%d queue=%d plans=%+v", k, wto, queue, plans)

	nMedia := c15DisconnectFrames + c15MinFrames + 1500
	pubs := []*c15Pub{{name: "a"}, {name: "b"}}
	for n, pb := range pubs {
		pb.msgs = c15BuildStream(c, n+1, nMedia)
		pb.ix = gen.NewIndex(pb.msgs)
		pb.sentAt = make([]time.Time, len(pb.msgs))
		pb.sendDur = make([]time.Duration, len(pb.msgs))
		pb.pub, err = ref.StartRtmpPublisher(s.RtmpAddr(), "live", pb.name, 5*time.Second)
		if err != nil {
			c.Inconclusive("publisher %s: %v", pb.name, err)
			return
		}
		defer pb.pub.Close()
	}
	var frame int64
	stopPub := make(chan struct{})
	var pubWg sync.WaitGroup
	pubWg.Add(2)
	go pubs[0].run(stopPub, &frame, &pubWg)
	go pubs[1].run(stopPub, nil, &pubWg)
	pubStopped := false
	stopPublishers := func() {
		if !pubStopped {
			pubStopped = true
			close(stopPub)
			pubWg.Wait()
		}
	}
	defer stopPublishers()

	waitFrame := func(n int64) bool {
		for atomic.LoadInt64(&frame) < n {
			if pubs[0].getErr() != nil || int(atomic.LoadInt64(&pubs[0].sent)) >= len(pubs[0].msgs) {
				return false
			}
			time.Sleep(2 * time.Millisecond)
		}
		return true
	}
	waitFrame(20)
	// healthy witnesses
	wits := map[string]*c15Witness{}
	for _, pb := range pubs {
		w, err := c15StartWitness(s.RtmpAddr(), pb.name, pb.ix)
		if err != nil {
			c.Inconclusive("witness %s: %v", pb.name, err)
			return
		}
		defer w.rc.Close()
		wits[pb.name] = w
		pb.w.Store(w)
	}
	flvW, err := srv.StartHttpSub(s.HttpAddr(), "/live/a.flv", "flv", 5*time.Second)
	if err != nil {
		c.Inconclusive("flv witness: %v", err)
		return
	}
	defer flvW.Close()
	if !srv.WaitFor(5*time.Second, func() bool {
		return atomic.LoadInt64(&wits["a"].lastIdx) >= 0 && atomic.LoadInt64(&wits["b"].lastIdx) >= 0 && flvW.NumTags() > 3
	}) {
		c.Inconclusive("witnesses did not start receiving")
		return
	}
	atomic.StoreInt64(&pubs[0].flvBase, atomic.LoadInt64(&pubs[0].sent)-int64(flvW.NumTags()))
	pubs[0].flvW.Store(flvW)
	controlFrom := int(atomic.LoadInt64(&pubs[0].sent))
	controlFromB := int(atomic.LoadInt64(&pubs[1].sent))
	waitFrame(atomic.LoadInt64(&frame) + 200)
	controlTo := int(atomic.LoadInt64(&pubs[0].sent))
	controlToB := int(atomic.LoadInt64(&pubs[1].sent))

	// stalled consumers
	var clients []*c15Client
	var cwg sync.WaitGroup
	for _, p := range plans {
		cl := &c15Client{plan: p, joinedFrame: -1, stalledFrame: -1, stopFrame: -1, quit: make(chan struct{}), done: make(chan struct{})}
		clients = append(clients, cl)
		cwg.Add(1)
		go func() {
			defer cwg.Done()
			addr := s.HttpAddr()
			switch cl.plan.Kind {
			case "rtmp":
				addr = s.RtmpAddr()
			case "rtsp":
				addr = s.RtspAddr()
			case "wsrtsp":
				addr = fmt.Sprintf("127.0.0.1:%d", s.Ports.WsRtsp)
			}
			cl.from = s.Notify.Len()
			conn, err := c15DialSmall(addr)
			if err != nil {
				cl.hsErr = err
				close(cl.done)
				return
			}
			cl.conn = conn
			cl.local = srv.Key(conn)
			left, err := cl.handshake(s)
			if err != nil {
				cl.hsErr = err
				conn.Close()
				close(cl.done)
				return
			}
			cl.add(left)
			atomic.StoreInt64(&cl.joinedFrame, atomic.LoadInt64(&frame))
			cl.run(&frame)
		}()
	}

	// monitor: watch sub_stop notifications against the frame clock
	scanned := 0
	endReason := ""
	for {
		f := atomic.LoadInt64(&frame)
		evs := s.Notify.Snapshot()
		for ; scanned < len(evs); scanned++ {
			e := evs[scanned]
			if e.Kind != "sub_stop" {
				continue
			}
			for _, cl := range clients {
				if cl.local != "" && e.Seq >= cl.from && s.Notify.Match(e, cl.local) && atomic.LoadInt64(&cl.stopFrame) < 0 {
					atomic.StoreInt64(&cl.stopFrame, f)
				}
			}
		}
		allDecided := true
		for _, cl := range clients {
			select {
			case <-cl.done:
				continue // handshake failed or plan finished (connection closed)
			default:
			}
			sf := atomic.LoadInt64(&cl.stalledFrame)
			if sf < 0 {
				allDecided = false
				continue
			}
			if cl.plan.Mode == "stall" {
				if atomic.LoadInt64(&cl.stopFrame) < 0 && f-sf <= c15DisconnectFrames {
					allDecided = false
				}
			} else if f-sf < c15MinFrames {
				allDecided = false
			}
		}
		if allDecided && f >= c15MinFrames {
			endReason = "decided"
			break
		}
		if pubs[0].getErr() != nil || pubs[1].getErr() != nil {
			endReason = "publisher error"
			break
		}
		if int(atomic.LoadInt64(&pubs[0].sent)) >= len(pubs[0].msgs) {
			endReason = "stream exhausted"
			break
		}
		time.Sleep(5 * time.Millisecond)
	}
	endFrame := atomic.LoadInt64(&frame)
	stopPublishers()
	lastA := int(atomic.LoadInt64(&pubs[0].sent)) - 1
	lastB := int(atomic.LoadInt64(&pubs[1].sent)) - 1
	// witnesses must catch up
	caught := srv.WaitFor(5*time.Second, func() bool {
		return int(atomic.LoadInt64(&wits["a"].lastIdx)) >= lastMedia(pubs[0].msgs, lastA) && int(atomic.LoadInt64(&wits["b"].lastIdx)) >= lastMedia(pubs[1].msgs, lastB)
	})
	time.Sleep(100 * time.Millisecond)
	for _, cl := range clients {
		close(cl.quit)
	}
	cwg.Wait()
	// late notifications (sessions that ended while draining)
	for _, e := range s.Notify.Snapshot() {
		if e.Kind != "sub_stop" {
			continue
		}
		for _, cl := range clients {
			if cl.local != "" && e.Seq >= cl.from && s.Notify.Match(e, cl.local) && atomic.LoadInt64(&cl.stopFrame) < 0 {
				atomic.StoreInt64(&cl.stopFrame, endFrame+1)
			}
		}
	}
	c.Logf("case %d: k=%d end=%s frames=%d", i, k, endReason, endFrame)

	// ---- verdicts
	for _, pb := range pubs {
		if pb.getErr() != nil {
			// lal's liveness sweep (every 2 s here) is entitled to drop a publisher that itself
			// stopped sending for that long: only a publisher that kept sending counts
			var maxGap, maxSend time.Duration
			n := int(atomic.LoadInt64(&pb.sent))
			for k := 1; k <= n && k < len(pb.sentAt); k++ {
				if pb.sentAt[k].IsZero() {
					break
				}
				// time between the end of one send and the start of the next: the harness's own pause
				if g := pb.sentAt[k].Sub(pb.sentAt[k-1].Add(pb.sendDur[k-1])); g > maxGap {
					maxGap = g
				}
				if pb.sendDur[k] > maxSend {
					maxSend = pb.sendDur[k]
				}
			}
			if maxSend > c15DelayBound {
				c.Violate("delay/publisher-blocked", fmt.Sprintf("the publisher of stream %s was blocked for %v inside one send (lal stopped reading from it) while consumers were stalled: %v", pb.name, maxSend, pb.getErr()), plans)
				return
			}
			if maxGap > 1500*time.Millisecond {
				c.Inconclusive("publisher %s paused for %v by itself (loaded machine or pacing) and was dropped by the liveness sweep", pb.name, maxGap)
				return
			}
			c.Violate("publisher-disconnected/"+pb.name, fmt.Sprintf("publisher of stream %s lost its connection while consumers were stalled: %v", pb.name, pb.getErr()), plans)
			return
		}
	}
	// (1) delay clause
	type latStat struct {
		max   time.Duration
		at    int
		n     int
		maxSd time.Duration
	}
	lat := func(pb *c15Pub, w *c15Witness, from, to int) (st latStat, missing []int) {
		w.mu.Lock()
		defer w.mu.Unlock()
		for n := from; n < to; n++ {
			if !pb.msgs[n].IsMedia() {
				continue
			}
			at, ok := w.recvAt[n]
			if !ok {
				if len(missing) < 5 {
					missing = append(missing, n)
				}
				continue
			}
			st.n++
			if d := at.Sub(pb.sentAt[n]); d > st.max {
				st.max, st.at = d, n
			}
			if pb.sendDur[n] > st.maxSd {
				st.maxSd = pb.sendDur[n]
			}
		}
		return
	}
	ctlA, _ := lat(pubs[0], wits["a"], controlFrom, controlTo)
	ctlB, _ := lat(pubs[1], wits["b"], controlFromB, controlToB)
	runA, missA := lat(pubs[0], wits["a"], controlTo, lastA+1)
	runB, missB := lat(pubs[1], wits["b"], controlToB, lastB+1)
	c.Eval(runA.n + runB.n)
	c.Count("witness_frames_timed", runA.n+runB.n)
	c.Cell("delay/k=%d", k)
	if ctlA.max > c15ControlBound || ctlB.max > c15ControlBound {
		c.Inconclusive("control latency %v / %v exceeds %v: machine too loaded to judge delays", ctlA.max, ctlB.max, c15ControlBound)
	} else {
		for _, x := range []struct {
			name string
			st   latStat
			pace time.Duration
		}{{"same-stream", runA, pubs[0].maxPace}, {"other-stream", runB, pubs[1].maxPace}} {
			worst := x.st.max
			if x.st.maxSd > worst {
				worst = x.st.maxSd
			}
			if x.pace > worst {
				worst = x.pace
			}
			if worst > c15DelayBound {
				c.Violate("delay/"+x.name, fmt.Sprintf("with %d stalled consumers a healthy %s subscriber/publisher was delayed by %v (control %v; bound %v): latency max %v at message %d, publisher send max %v, pacing wait max %v",
					k, x.name, worst, ctlA.max, c15DelayBound, x.st.max, x.st.at, x.st.maxSd, x.pace), plans)
			}
		}
	}
	if !caught || len(missA) > 0 || len(missB) > 0 {
		c.Violate("witness-gap", fmt.Sprintf("healthy subscribers did not receive every message published after they joined: missing a=%v b=%v caughtUp=%v (last a=%d b=%d, witness last a=%d b=%d)",
			missA, missB, caught, lastA, lastB, atomic.LoadInt64(&wits["a"].lastIdx), atomic.LoadInt64(&wits["b"].lastIdx)), plans)
	}
	for name, w := range wits {
		w.mu.Lock()
		if w.bad != "" {
			c.Violate("witness-corrupt", fmt.Sprintf("healthy rtmp subscriber of %s received a media message that was never published: %s", name, w.bad), plans)
		}
		for n := 1; n < len(w.order); n++ {
			if w.order[n] <= w.order[n-1] {
				c.Violate("witness-order", fmt.Sprintf("healthy rtmp subscriber of %s received message %d after %d", name, w.order[n], w.order[n-1]), plans)
				break
			}
		}
		w.mu.Unlock()
	}
	if e := flvW.FlvErr(); e != nil {
		c.Violate("witness-flv-framing", fmt.Sprintf("healthy http-flv subscriber: %v", e), plans)
	} else {
		c15CheckTags(c, "witness-flv", flvW.Tags(), pubs[0].ix, pubs[0].msgs, true, lastA, plans)
	}

	// (2) disconnect clause and (3) framing, per stalled consumer
	for _, cl := range clients {
		p := cl.plan
		c.Cell("%s/%s/k=%d", p.Kind, p.Mode, k)
		if cl.hsErr != nil {
			c.Inconclusive("%s consumer could not join: %v", p.Kind, cl.hsErr)
			continue
		}
		sf, st := atomic.LoadInt64(&cl.stalledFrame), atomic.LoadInt64(&cl.stopFrame)
		if p.Mode == "stall" && sf >= 0 && sweep != 2 && (p.Kind == "rtsp" || p.Kind == "wsrtsp") {
			c.Count("stall_without_write_timeout_or_sweep_not_judged", 1)
		} else if p.Mode == "stall" && sf >= 0 {
			c.Count("pure_stall_consumers", 1)
			if st < 0 && endFrame-sf > c15DisconnectFrames {
				c.Violate("not-disconnected/"+p.Kind, fmt.Sprintf("%s consumer stopped reading at publisher frame %d and was still admitted %d frames (≥%d ms) later; write timeout %d ms, sweep %d s",
					p.Kind, sf, endFrame-sf, 2*(endFrame-sf), wto, sweep), p)
			} else if st >= 0 && st-sf > c15DisconnectFrames {
				c.Violate("not-disconnected/"+p.Kind, fmt.Sprintf("%s consumer stopped reading at publisher frame %d and was disconnected only %d frames later", p.Kind, sf, st-sf), p)
			} else if st >= 0 {
				c.Count("disconnects_observed", 1)
				cl.mu.Lock()
				eof := cl.eof
				cl.mu.Unlock()
				cl.mu.Lock()
				cut := cl.drainCut
				cl.mu.Unlock()
				if !eof && !cut {
					c.Violate("stopped-but-open/"+p.Kind, fmt.Sprintf("%s consumer: sub_stop was notified but the connection was not closed (drained to quiescence without EOF)", p.Kind), p)
				}
			}
		}
		c15CheckStream(c, cl, pubs, plans)
		c.Logf("client %s/%s stream=%s stallAt=%d chunk=%d sleep=%d stallMs=%d: joined=%d stalled=%d stop=%d end=%d bytes=%d eof=%v", p.Kind, p.Mode, p.Stream, p.StallAt, p.SlowChunk, p.SlowSleepMs, p.StallMs,
			atomic.LoadInt64(&cl.joinedFrame), sf, st, endFrame, cl.size(), cl.eof)
	}
	var pubBytes int
	for n := 0; n <= lastA; n++ {
		pubBytes += len(pubs[0].msgs[n].Payload)
	}
	c.Logf("published a: %d msgs %d bytes in %v", lastA+1, pubBytes, pubs[0].sentAt[lastA].Sub(pubs[0].sentAt[0]))
	c.Sample(map[string]interface{}{"k": k, "frames": endFrame, "control_latency_ms": ctlA.max.Milliseconds(), "max_latency_same_ms": runA.max.Milliseconds(),
		"max_latency_other_ms": runB.max.Milliseconds(), "end": endReason})
}

func lastMedia(msgs []gen.PubMsg, last int) int {
	for last >= 0 && !msgs[last].IsMedia() {
		last--
	}
	return last
}

// c15CheckTags: every audio/video unit must be a published message, in publish order; a
// healthy consumer (contiguous) must have all of them from its first one on.
func c15CheckTags(c *fw.Ctx, who string, tags []ref.FlvTag, ix *gen.Index, msgs []gen.PubMsg, contiguous bool, last int, data interface{}) (units, gaps int) {
	prev := -1
	for n, t := range tags {
		if t.Type != 8 && t.Type != 9 {
			continue
		}
		idx, ok := ix.Lookup(t.Type, t.Data)
		if !ok {
			c.Violate("corrupt-unit/"+who, fmt.Sprintf("%s: unit %d (type %d, %d bytes) is not a published message", who, n, t.Type, len(t.Data)), data)
			return
		}
		units++
		if !msgs[idx].IsMedia() {
			continue // sequence header (may be re-sent to a joiner)
		}
		if idx <= prev {
			c.Violate("order/"+who, fmt.Sprintf("%s: message %d delivered after %d", who, idx, prev), data)
			return
		}
		if prev >= 0 {
			for m := prev + 1; m < idx; m++ {
				if msgs[m].IsMedia() {
					gaps++
					if contiguous {
						c.Violate("witness-gap", fmt.Sprintf("%s: message %d missing between %d and %d", who, m, prev, idx), data)
						return
					}
					break
				}
			}
		}
		prev = idx
	}
	if contiguous && prev < lastMedia(msgs, last) {
		// allow the tail to be in flight only if nothing is missing before it
		if lastMedia(msgs, last)-prev > 4 {
			c.Violate("witness-gap", fmt.Sprintf("%s: stopped at message %d, publisher reached %d", who, prev, last), data)
		}
	}
	return
}

func c15CheckStream(c *fw.Ctx, cl *c15Client, pubs []*c15Pub, plans interface{}) {
	p := cl.plan
	pb := pubs[0]
	if p.Stream == "b" {
		pb = pubs[1]
	}
	cl.mu.Lock()
	stream := cl.stream
	eof := cl.eof
	// a close that follows ≥700 ms of silence on a drained connection is the idle sweep, not a
	// write cut short: the stream must then end on a unit boundary
	idleClose := cl.eof && !cl.lastByte.IsZero() && cl.emptyWait >= 700*time.Millisecond
	drainCut := cl.drainCut
	cl.mu.Unlock()
	c.Count("stalled_stream_bytes", len(stream))
	who := p.Kind + "/" + p.Mode
	bad := func(sig, format string, a ...interface{}) {
		c.Violate("framing/"+p.Kind+"/"+sig, fmt.Sprintf("%s consumer (%s, stall at byte %d, eof=%v, %d bytes read): ", p.Kind, p.Mode, p.StallAt, eof, len(stream))+fmt.Sprintf(format, a...), p)
	}
	partial := func(n int) {
		if n > 0 && drainCut {
			c.Count("drain_cut_short", 1)
			if cl.peerUnsent > 0 {
				c.Count("drain_ended_with_unsent_bytes_in_lals_kernel", 1)
			}
			return
		}
		if n > 0 && (!eof || idleClose) {
			tail := stream
			if len(tail) > n+24 {
				tail = tail[len(tail)-n-24:]
			}
			bad("partial-unit", "%d trailing bytes do not form a whole unit although the connection was idle (drained, no write in progress; socket empty for %v before the end); the 24 bytes before them and their first bytes: % x", n, cl.emptyWait, tail[:min(len(tail), 64)])
		}
	}
	httpBody := func() ([]byte, bool) {
		i := bytes.Index(stream, []byte("\r\n\r\n"))
		if i < 0 {
			if len(stream) > 0 && !eof && len(stream) >= 512 {
				bad("http-header", "no end of HTTP response header in %q", stream[:64])
			}
			return nil, false
		}
		if !bytes.HasPrefix(stream, []byte("HTTP/1.1 200")) && !bytes.HasPrefix(stream, []byte("HTTP/1.1 101")) {
			bad("http-status", "response starts with %q", stream[:min(40, len(stream))])
			return nil, false
		}
		return stream[i+4:], true
	}
	switch p.Kind {
	case "flv", "wsflv":
		body, ok := httpBody()
		if !ok {
			return
		}
		if p.Kind == "wsflv" {
			var wp ref.WsParser
			wp.Feed(body)
			if wp.Err != nil {
				bad("ws", "websocket framing: %v", wp.Err)
				return
			}
			var fb []byte
			for n, f := range wp.Frames {
				if f.Opcode != 2 || !f.Fin || f.Masked {
					bad("ws-frame", "frame %d: opcode %d fin %v masked %v", n, f.Opcode, f.Fin, f.Masked)
					return
				}
				fb = append(fb, f.Payload...)
			}
			c.Count("ws_frames_parsed", len(wp.Frames))
			partial(wp.Pending())
			body = fb
		}
		var fp ref.FlvParser
		fp.Feed(body)
		if fp.Err != nil {
			bad("flv", "%v", fp.Err)
			return
		}
		if p.Kind == "flv" {
			partial(fp.Pending())
		} else if fp.Pending() > 0 {
			// whole ws frames must carry whole tags
			bad("flv-in-ws", "whole websocket frames end with %d bytes of a partial FLV tag", fp.Pending())
		}
		u, g := c15CheckTags(c, who, fp.Tags, pb.ix, pb.msgs, false, 0, p)
		c.Count("stalled_units_parsed", u)
		c.Count("stalled_units_dropped_gaps", g)
	case "ts":
		body, ok := httpBody()
		if !ok {
			return
		}
		n := len(body) / 188
		for k := 0; k < n; k++ {
			if body[k*188] != 0x47 {
				bad("ts-sync", "packet %d does not start with 0x47 (got %#x): a partial packet was dropped or inserted", k, body[k*188])
				return
			}
		}
		// every packet must carry a known PID (PAT, PMT, video, audio)
		for k := 0; k < n; k++ {
			pid := int(body[k*188+1]&0x1f)<<8 | int(body[k*188+2])
			if pid != 0 && pid != 0x1001 && pid != 0x100 && pid != 0x101 {
				bad("ts-pid", "packet %d has unknown PID %#x", k, pid)
				return
			}
		}
		partial(len(body) % 188)
		c.Count("stalled_units_parsed", n)
	case "rtmp":
		rd := bytes.NewReader(stream)
		var tags []ref.FlvTag
		var pongs []uint32
		results := 0
		for {
			pos := len(stream) - rd.Len()
			m, err := cl.rc.R.ReadMsg(rd)
			if err != nil {
				if err == io.EOF || errors.Is(err, io.ErrUnexpectedEOF) {
					partial(len(stream) - pos)
					break
				}
				bad("chunk", "at offset %d: %v", pos, err)
				return
			}
			if p.Chatty && m.TypeID == 4 && len(m.Payload) >= 6 && m.Payload[0] == 0 && m.Payload[1] == 7 {
				pongs = append(pongs, binary.BigEndian.Uint32(m.Payload[2:6]))
			}
			if p.Chatty && m.TypeID == 20 {
				if vs, e := ref.AmfDecodeAll(m.Payload); e == nil && len(vs) >= 2 && vs[0].Str == "_result" && vs[1].Num == 77 {
					results++
				} else if e != nil {
					bad("reply-content", "a command message at offset %d does not decode: %v (% x)", pos, e, m.Payload[:min(len(m.Payload), 32)])
					return
				}
			}
			switch m.TypeID {
			case 8, 9:
				tags = append(tags, ref.FlvTag{Type: m.TypeID, Data: m.Payload})
			case 1, 2, 3, 4, 5, 6, 18, 20:
			default:
				bad("msg-type", "message type %d (len %d) at offset %d", m.TypeID, len(m.Payload), pos)
				return
			}
		}
		if p.Chatty && (len(pongs) > 0 || results > 0) {
			// replies that did arrive are the ones lal built: ping responses echo the request's timestamp
			c.Count("chatty_replies_checked", len(pongs)+results)
			for n, ts := range pongs {
				if n >= len(c15PingStamps) || ts != c15PingStamps[n] {
					bad("reply-content", "ping response %d echoes timestamp %#x, the requests carried %#x in that order (replies queued by reference to one buffer that the next reply overwrites)", n, ts, c15PingStamps)
					return
				}
			}
		}
		u, g := c15CheckTags(c, who, tags, pb.ix, pb.msgs, false, 0, p)
		c.Count("stalled_units_parsed", u)
		c.Count("stalled_units_dropped_gaps", g)
	case "rtsp", "wsrtsp":
		var units [][]byte
		if p.Kind == "wsrtsp" {
			var wp ref.WsParser
			wp.Feed(stream)
			if wp.Err != nil {
				bad("ws", "websocket framing: %v", wp.Err)
				return
			}
			for _, f := range wp.Frames {
				units = append(units, f.Payload)
			}
			c.Count("ws_frames_parsed", len(wp.Frames))
			partial(wp.Pending())
		} else {
			b := stream
			for len(b) > 0 {
				if b[0] == '$' {
					if len(b) < 4 || len(b) < 4+int(binary.BigEndian.Uint16(b[2:])) {
						partial(len(b))
						break
					}
					n := 4 + int(binary.BigEndian.Uint16(b[2:]))
					units = append(units, b[:n])
					b = b[n:]
					continue
				}
				if bytes.HasPrefix(b, []byte("RTSP/1.0 ")) {
					i := bytes.Index(b, []byte("\r\n\r\n"))
					if i < 0 {
						partial(len(b))
						break
					}
					units = append(units, b[:i+4])
					b = b[i+4:]
					continue
				}
				if len(b) < 9 && bytes.HasPrefix([]byte("RTSP/1.0 "), b) {
					partial(len(b))
					break
				}
				bad("interleaved", "at offset %d: expected '$' or an RTSP response, got % x", len(stream)-len(b), b[:min(16, len(b))])
				return
			}
		}
		lastSeq := map[byte]int{}
		nrtp := 0
		for n, u := range units {
			if bytes.HasPrefix(u, []byte("RTSP/1.0 ")) {
				continue
			}
			if len(u) < 4 || u[0] != '$' {
				bad("unit", "unit %d (%d bytes) is neither an interleaved packet nor a response: % x", n, len(u), u[:min(16, len(u))])
				return
			}
			if int(binary.BigEndian.Uint16(u[2:])) != len(u)-4 {
				bad("unit-length", "unit %d: interleaved length %d in a websocket frame of %d bytes", n, binary.BigEndian.Uint16(u[2:]), len(u))
				return
			}
			ch := u[1]
			if ch > 3 {
				bad("channel", "unit %d: channel %d was never set up", n, ch)
				return
			}
			if ch%2 == 0 {
				if len(u) < 16 || u[4]>>6 != 2 {
					bad("rtp", "unit %d on channel %d is not an RTP packet: % x", n, ch, u[4:min(20, len(u))])
					return
				}
				seq := int(binary.BigEndian.Uint16(u[6:]))
				if prev, ok := lastSeq[ch]; ok {
					if d := (seq - prev) & 0xffff; d == 0 || d > 0x8000 {
						bad("rtp-seq", "unit %d on channel %d: sequence number %d after %d", n, ch, seq, prev)
						return
					}
				}
				if prev, ok := lastSeq[ch]; ok && (seq-prev)&0xffff > 1 {
					c.Count("stalled_units_dropped_gaps", 1)
				}
				lastSeq[ch] = seq
				nrtp++
			}
		}
		c.Count("stalled_units_parsed", nrtp)
	}
}

func init() {
	fw.Register(&fw.Prop{
		ID: "C15",
		NumCases: func(tier string, seed int64) int {
			if tier == "thorough" {
				return 18*8 + 8
			}
			return 18 + 2
		},
		Setup:       c15Setup,
		Batches:     func(string) int { return 20 },
		CaseTimeout: func(string) time.Duration { return 3 * time.Minute },
		Rule: "whole-server runs with write queues of 64, 63 or 61 entries (multi-part writes come in pairs: an odd capacity puts the queue-full instant between the parts), write timeouts of 1000 ms (even cases; closes a blocked writer first) or 10 000 ms (odd cases; the 2 s liveness sweep disposes it while its writer is blocked). Two RTMP publishers send tagged H.264+AAC frames (6–30 KB video, ≤313 B audio) at ≤500 frames/s to streams a and b; healthy RTMP and HTTP-FLV witnesses time-stamp every frame. k ∈ {1,4,16} consumers join over RTMP, HTTP-FLV, WS-FLV, HTTP-TS, RTSP interleaved and WS-RTSP and stop reading for good / read 4–32 KiB every 2–20 ms (0.2 … 16 MB/s against ≈3.4 MB/s published per stream) / stop for 0.3–2.5 s and resume (the kernel absorbs ≈2.8 MB ≈ 0.9 s before the 64-entry queue starts to fill), from a seeded byte offset (0 … 300 000); odd cases add four WebSocket consumers (WS-FLV, WS-RTSP) that stall for 1.2–3.7 s and then resume at full speed or read at 0.3–4 MB/s (below the publishing rate, so that the queue hovers around full). Oracles: (1) every frame published after the witnesses joined reaches them, in order, with latency, publisher send time and pacing wait ≤ 3 s (control window before the consumers join must be ≤ 0.5 s, else inconclusive); (2) a consumer that never reads again gets sub_stop within 4000 publisher frames (each ≥ 2 ms) of stalling and its socket reaches EOF; (3) all bytes a stalled consumer read parse with the reference HTTP/FLV/WebSocket/TS/RTMP-chunk/interleaved parsers, every audio/video unit is byte-identical to a published message and units are in publish order (gaps allowed), TS packets stay 188-aligned with known PIDs, every WS-RTSP frame holds exactly one interleaved packet, RTP sequence numbers only move forward; a trailing partial unit is accepted only on a connection the server closed. cell = protocol × plan × k.",
		Assumptions: []string{"loopback TCP; the server-side send buffer is the kernel default (no hook), so the queue-full instants depend on kernel buffering", "delay bound 3 s and disconnect bound 2×(timeout+sweep)+3 s are this check's reading of 'a small bound'"},
		MinCells: 6,
		Run:      c15Run,
	})
}
