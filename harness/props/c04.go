package props

import (
	"crypto/rand"
	"encoding/hex"
	"fmt"
	"io"
	mrand "math/rand"
	"net"
	"os"
	"path/filepath"
	"runtime"
	"sync"
	"time"

	"lalverif/fw"
	"lalverif/gen"
	"lalverif/ref"
	"lalverif/srv"
)

// C04 — no byte sequence from an RTMP peer can terminate the server.
//
// The child runs the whole server in-process; every sub-input is one hostile TCP connection.
// The input is written to the result file before it is sent (fw.Ctx.Describe / Sub), so a
// process-fatal crash leaves the culprit on disk; a canary publisher+player proves the server
// still serves after each group of hostile connections.

var (
	crashSrvMu sync.Mutex
	crashSrv   *srv.Server
)

// crashServer returns the per-child server with every output enabled.
func crashServer(c *fw.Ctx, conf srv.Conf) *srv.Server {
	crashSrvMu.Lock()
	defer crashSrvMu.Unlock()
	if crashSrv != nil {
		return crashSrv
	}
	root := filepath.Join(c.Scratch, "crashsrv")
	os.MkdirAll(root, 0755)
	s, err := srv.Start(conf, root)
	if err != nil {
		c.Inconclusive("server start: %v", err)
		return nil
	}
	s.InstallHook(false)
	crashSrv = s
	return s
}

func fullConf() srv.Conf {
	return srv.Conf{RtmpGop: 1, Flv: true, FlvGop: 1, Ts: true, TsGop: 1, Hls: true, HlsMem: true, HlsFragMs: 1000, HlsFragNum: 3, HlsDelThr: 1, HlsCleanup: 2,
		Rtsp: true, RtspWaitKey: true, RecFlv: true, RecTs: true, Api: true}
}

// rtmpHandshakeBytes: C0+C1 (simple) and C2. lal does not verify C2 for the simple handshake,
// so a hostile client can send everything without reading.
func rtmpHandshakeBytes() []byte {
	b := make([]byte, 1537+1536)
	b[0] = 3
	rand.Read(b[9:1537])
	return b
}

type rtmpScript struct {
	w *ref.ChunkWriter
	b []byte
}

func newScript() *rtmpScript { return &rtmpScript{w: ref.NewChunkWriter(128)} }

func (s *rtmpScript) raw(b []byte) *rtmpScript { s.b = append(s.b, b...); return s }
func (s *rtmpScript) msg(csid int, typ uint8, msid uint32, ts uint32, payload []byte) *rtmpScript {
	m := ref.RtmpMsg{Csid: csid, TypeID: typ, StreamID: msid, Ts: ts, Payload: payload}
	for _, ch := range s.w.Encode(m, 0) {
		s.b = append(s.b, ch...)
	}
	return s
}
func (s *rtmpScript) cmd(msid uint32, vals ...ref.AmfValue) *rtmpScript {
	return s.msg(3, 20, msid, 0, ref.AmfEncodeAll(vals...))
}

var c04States = []string{"raw", "mid-handshake", "handshaken", "connected", "stream-created", "publishing", "playing"}

// prefix builds the bytes that bring a connection into the given state.
func (s *rtmpScript) prefix(state int, stream string) *rtmpScript {
	if state == 0 {
		return s
	}
	hs := rtmpHandshakeBytes()
	if state == 1 {
		return s.raw(hs[:1+700])
	}
	s.raw(hs)
	if state >= 3 {
		s.cmd(0, ref.AmfStr("connect"), ref.AmfNum(1), ref.AmfObj(ref.AmfPair{Key: "app", Val: ref.AmfStr("live")}, ref.AmfPair{Key: "tcUrl", Val: ref.AmfStr("rtmp://127.0.0.1/live")}))
	}
	if state >= 4 {
		s.cmd(0, ref.AmfStr("createStream"), ref.AmfNum(2), ref.AmfNul())
	}
	if state == 5 {
		s.msg(5, 20, 1, 0, ref.AmfEncodeAll(ref.AmfStr("publish"), ref.AmfNum(3), ref.AmfNul(), ref.AmfStr(stream), ref.AmfStr("live")))
	}
	if state == 6 {
		s.msg(5, 20, 1, 0, ref.AmfEncodeAll(ref.AmfStr("play"), ref.AmfNum(3), ref.AmfNul(), ref.AmfStr(stream)))
	}
	return s
}

// hostileConn sends data (optionally fragmented), half-closes and drains until lal closes.
func hostileConn(addr string, data []byte, frag int, rng *mrand.Rand) (closedByPeer bool, err error) {
	c, err := net.DialTimeout("tcp", addr, 3*time.Second)
	if err != nil {
		return false, err
	}
	defer c.Close()
	done := make(chan bool, 1)
	go func() {
		buf := make([]byte, 65536)
		for {
			c.SetReadDeadline(time.Now().Add(4 * time.Second))
			_, e := c.Read(buf)
			if e != nil {
				done <- e == io.EOF || isClosedErr(e)
				return
			}
		}
	}()
	tc := c.(*net.TCPConn)
	if frag > 0 {
		tc.SetNoDelay(true)
		for off := 0; off < len(data); {
			n := frag
			if frag == 9999 {
				n = 1 + rng.Intn(300)
			}
			if off+n > len(data) {
				n = len(data) - off
			}
			if _, e := c.Write(data[off : off+n]); e != nil {
				break
			}
			off += n
			if off%64 == 0 {
				time.Sleep(50 * time.Microsecond)
			}
		}
	} else {
		c.SetWriteDeadline(time.Now().Add(5 * time.Second))
		c.Write(data)
	}
	tc.CloseWrite()
	select {
	case r := <-done:
		return r, nil
	case <-time.After(5 * time.Second):
		return false, nil
	}
}

// canary: a well-formed publisher and player through the same server must still work.
func rtmpCanary(s *srv.Server, name string) error { return rtmpCanaryMin(s, name, 9) }

// rtmpCanaryMin: at least min of the 9 canary messages must arrive (merge-write configurations
// legitimately withhold a tail smaller than merge_write_size).
func rtmpCanaryMin(s *srv.Server, name string, min int) error {
	from := s.Notify.Len()
	sub, err := ref.StartRtmpSubscriber(s.RtmpAddr(), "live", name, 5*time.Second)
	if err != nil {
		return fmt.Errorf("canary subscriber: %w", err)
	}
	defer sub.Close()
	if _, ok := s.Notify.WaitSessionFrom(5*time.Second, from, "sub_start", srv.Key(sub.RC.Conn)); !ok {
		return fmt.Errorf("canary subscriber was not admitted within 5 s")
	}
	pub, err := ref.StartRtmpPublisher(s.RtmpAddr(), "live", name, 5*time.Second)
	if err != nil {
		return fmt.Errorf("canary publisher: %w", err)
	}
	defer pub.Close()
	r := mrand.New(mrand.NewSource(1))
	msgs := gen.Build(r, 9, gen.Shape{Video: true, Audio: true, Meta: true, Gops: 1, GopLen: 3, AudioPerVid: 1, Sizes: []int{3000}})
	for _, m := range msgs {
		if err := pub.RC.Send(ref.RtmpMsg{Csid: csidFor(m.Type), TypeID: m.Type, StreamID: pub.Msid, Ts: m.Ts, Payload: m.Payload}, 0); err != nil {
			return fmt.Errorf("canary send: %w", err)
		}
	}
	want := min
	if want > len(msgs) {
		want = len(msgs)
	}
	if !sub.Hist.WaitFor(5*time.Second, func(ms []ref.RtmpMsg) bool { return len(ms) >= want }) {
		return fmt.Errorf("canary player received %d of %d messages", sub.Hist.Len(), want)
	}
	return nil
}

type hostileInput struct {
	Class string
	State int
	Data  []byte
	Frag  int
}

// c04Inputs generates the sub-inputs of case i.
func c04Inputs(c *fw.Ctx, i int) []hostileInput {
	r := c.Rng
	var out []hostileInput
	name := fmt.Sprintf("h%d", i)
	add := func(class string, state int, s *rtmpScript) {
		out = append(out, hostileInput{Class: class, State: state, Data: s.b})
	}
	randBytes := func(n int) []byte {
		b := make([]byte, n)
		r.Read(b)
		return b
	}
	group := i % 8
	switch group {
	case 0:
		// raw bytes / handshake variants
		for k := 0; k < 40; k++ {
			switch k % 5 {
			case 0:
				add("raw/random", 0, newScript().raw(randBytes(r.Intn(4000))))
			case 1:
				add("raw/zeros", 0, newScript().raw(make([]byte, []int{0, 1, 1536, 1537, 3073, 5000}[r.Intn(6)])))
			case 2:
				b := make([]byte, 1537+r.Intn(3000))
				for x := range b {
					b[x] = 0xff
				}
				add("raw/ff", 0, newScript().raw(b))
			case 3:
				b := rtmpHandshakeBytes()
				b[0] = byte(r.Intn(256))
				if r.Intn(2) == 0 {
					copy(b[5:9], randBytes(4)) // non-zero version: complex-handshake digest search
				}
				add("handshake/c0-variant", 1, newScript().raw(b).raw(randBytes(r.Intn(200))))
			default:
				b := rtmpHandshakeBytes()
				add("handshake/truncated", 1, newScript().raw(b[:r.Intn(len(b))]))
			}
		}
	case 1:
		// every message type id × small payload families × state
		for typ := 0; typ < 256; typ++ {
			if typ > 24 && r.Intn(4) != 0 {
				continue
			}
			state := 2 + r.Intn(5)
			for _, pl := range [][]byte{nil, {0}, {0xff}, randBytes(2), randBytes(3), randBytes(4), randBytes(5), randBytes(6), randBytes(1 + r.Intn(16)), make([]byte, 8)} {
				s := newScript().prefix(state, name)
				s.msg(2+r.Intn(6), uint8(typ), uint32(r.Intn(2)), uint32(r.Intn(1000)), pl)
				add(fmt.Sprintf("msgtype/%d", typ), state, s)
			}
		}
	case 2:
		// control/user-control/ack messages with every truncation, in every state
		for state := 2; state <= 6; state++ {
			for _, typ := range []uint8{1, 2, 3, 4, 5, 6} {
				full := []byte{0, 6, 0, 0, 0, 1, 0, 0, 0, 0}
				if typ != 4 {
					full = []byte{0, 0, 0x10, 0, 2}
				}
				for n := 0; n <= len(full); n++ {
					s := newScript().prefix(state, name)
					s.msg(2, typ, 0, 0, full[:n])
					add(fmt.Sprintf("control/type=%d/len=%d", typ, n), state, s)
				}
			}
			// user control event types
			for ev := 0; ev < 10; ev++ {
				for _, n := range []int{2, 3, 5, 6, 10} {
					b := make([]byte, n)
					b[1] = byte(ev)
					s := newScript().prefix(state, name)
					s.msg(2, 4, 0, 0, b)
					add("control/user-control-event", state, s)
				}
			}
			// chunk size extremes followed by a message
			for _, cs := range []uint32{0, 1, 2, 127, 0x7fffffff, 0x80000000, 0xffffffff} {
				s := newScript().prefix(state, name)
				s.msg(2, 1, 0, 0, []byte{byte(cs >> 24), byte(cs >> 16), byte(cs >> 8), byte(cs)})
				if cs >= 1 && cs <= 0x7fffffff {
					s.w.ChunkSize = int(cs)
					if s.w.ChunkSize > 1<<20 {
						s.w.ChunkSize = 1 << 20
					}
				}
				s.msg(3, 20, 0, 0, ref.AmfEncodeAll(ref.AmfStr("createStream"), ref.AmfNum(9), ref.AmfNul()))
				s.msg(6, 9, 1, 0, randBytes(300))
				add("control/set-chunk-size-extreme", state, s)
			}
			// window ack sizes that make lal emit acknowledgements
			for _, w := range []uint32{0, 1, 2, 100, 0xffffffff} {
				s := newScript().prefix(state, name)
				s.msg(2, 5, 0, 0, []byte{byte(w >> 24), byte(w >> 16), byte(w >> 8), byte(w)})
				for k := 0; k < 5; k++ {
					s.msg(3, 20, 0, 0, ref.AmfEncodeAll(ref.AmfStr("FCPublish"), ref.AmfNum(float64(k)), ref.AmfNul(), ref.AmfStr("x")))
				}
				add("control/win-ack-size", state, s)
			}
		}
	case 3:
		// commands: valid bodies truncated at every offset / bit-flipped, in every state
		cmds := map[string][]ref.AmfValue{
			"connect":         {ref.AmfStr("connect"), ref.AmfNum(1), ref.AmfObj(ref.AmfPair{Key: "app", Val: ref.AmfStr("live")}, ref.AmfPair{Key: "tcUrl", Val: ref.AmfStr("rtmp://h/live")}, ref.AmfPair{Key: "objectEncoding", Val: ref.AmfNum(3)})},
			"createStream":    {ref.AmfStr("createStream"), ref.AmfNum(2), ref.AmfNul()},
			"publish":         {ref.AmfStr("publish"), ref.AmfNum(3), ref.AmfNul(), ref.AmfStr(name + "?a=b"), ref.AmfStr("live")},
			"play":            {ref.AmfStr("play"), ref.AmfNum(3), ref.AmfNul(), ref.AmfStr(name)},
			"releaseStream":   {ref.AmfStr("releaseStream"), ref.AmfNum(4), ref.AmfNul(), ref.AmfStr(name)},
			"deleteStream":    {ref.AmfStr("deleteStream"), ref.AmfNum(5), ref.AmfNul(), ref.AmfNum(1)},
			"getStreamLength": {ref.AmfStr("getStreamLength"), ref.AmfNum(6), ref.AmfNul(), ref.AmfStr(name)},
			"unknownCmd":      {ref.AmfStr("xyzzy"), ref.AmfNum(7), ref.AmfNul()},
		}
		names := []string{"connect", "createStream", "publish", "play", "releaseStream", "deleteStream", "getStreamLength", "unknownCmd"}
		cn := names[(i/8)%len(names)]
		body := ref.AmfEncodeAll(cmds[cn]...)
		for state := 2; state <= 6; state++ {
			for n := 0; n <= len(body); n++ {
				s := newScript().prefix(state, name)
				s.msg(3, 20, uint32(state%2), 0, body[:n])
				add("command/"+cn+"/truncated", state, s)
			}
			for k := 0; k < 24; k++ {
				b := append([]byte(nil), body...)
				for f := 0; f < 1+r.Intn(3); f++ {
					b[r.Intn(len(b))] ^= 1 << uint(r.Intn(8))
				}
				s := newScript().prefix(state, name)
				typ := uint8(20)
				if k%6 == 0 {
					typ = 17
					b = append([]byte{0}, b...)
				}
				s.msg(3, typ, 1, 0, b)
				add("command/"+cn+"/bitflip", state, s)
			}
			if state == 2 {
				// AMF3 command with empty / 1-byte payload
				s := newScript().prefix(state, name)
				s.msg(3, 17, 0, 0, nil)
				s.msg(3, 17, 0, 0, []byte{0})
				add("command/amf3-short", state, s)
			}
		}
	case 4:
		// commands with type confusion / containers / counts
		alts := []ref.AmfValue{ref.AmfNum(1), ref.AmfStr("s"), ref.AmfBool(true), ref.AmfNul(), {Kind: ref.AmfUndefined}, ref.AmfObj(), {Kind: ref.AmfEcmaArray}, {Kind: ref.AmfStrictArray, Items: []ref.AmfValue{ref.AmfNum(1)}},
			{Kind: ref.AmfStrictArray}, ref.AmfObj(ref.AmfPair{Key: "app", Val: ref.AmfObj(ref.AmfPair{Key: "x", Val: ref.AmfNul()})}), {Kind: ref.AmfDate}, {Kind: ref.AmfString, Str: string(make([]byte, 70000))}}
		for state := 2; state <= 6; state++ {
			for _, cn := range []string{"connect", "createStream", "publish", "play"} {
				for pos := 0; pos < 5; pos++ {
					for _, a := range alts {
						vals := []ref.AmfValue{ref.AmfStr(cn), ref.AmfNum(1), ref.AmfNul(), ref.AmfStr(name), ref.AmfStr("live")}
						if cn == "connect" {
							vals = []ref.AmfValue{ref.AmfStr(cn), ref.AmfNum(1), ref.AmfObj(ref.AmfPair{Key: "app", Val: ref.AmfStr("live")}), ref.AmfNul(), ref.AmfNul()}
						}
						vals[pos] = a
						if r.Intn(3) == 0 {
							vals = vals[:pos+1]
						}
						s := newScript().prefix(state, name)
						s.msg(3, 20, 1, 0, ref.AmfEncodeAll(vals...))
						add("command/"+cn+"/type-confusion", state, s)
					}
				}
			}
			// the connect object itself: every property lal (or any server) looks at, with every value type
			if state == 2 {
				for _, key := range []string{"app", "flashVer", "swfUrl", "tcUrl", "fpad", "capabilities", "audioCodecs", "videoCodecs", "videoFunction", "pageUrl", "objectEncoding", "type", "flashver", "fourCcList"} {
					for _, a := range alts {
						pairs := []ref.AmfPair{{Key: "app", Val: ref.AmfStr("live")}, {Key: "tcUrl", Val: ref.AmfStr("rtmp://127.0.0.1/live")}, {Key: "objectEncoding", Val: ref.AmfNum(0)}}
						replaced := false
						for x := range pairs {
							if pairs[x].Key == key {
								pairs[x].Val, replaced = a, true
							}
						}
						if !replaced {
							pairs = append(pairs, ref.AmfPair{Key: key, Val: a})
						}
						s := newScript().prefix(state, name)
						s.msg(3, 20, 0, 0, ref.AmfEncodeAll(ref.AmfStr("connect"), ref.AmfNum(1), ref.AmfObj(pairs...)))
						// follow up as a normal client would
						s.msg(3, 20, 0, 0, ref.AmfEncodeAll(ref.AmfStr("createStream"), ref.AmfNum(2), ref.AmfNul()))
						add("command/connect/property-type/"+key, state, s)
					}
				}
			}
			// raw AMF oddities as command bodies
			for _, b := range [][]byte{
				{2, 0xff, 0xff, 'a'}, {0x0c, 0xff, 0xff, 0xff, 0xff}, {0x0a, 0xff, 0xff, 0xff, 0xff, 5, 5, 5}, {8, 0xff, 0xff, 0xff, 0xff, 0, 1, 'a', 5},
				append(ref.AmfEncodeAll(ref.AmfStr("connect"), ref.AmfNum(1)), 3, 0xff, 0xff),
				append(ref.AmfEncodeAll(ref.AmfStr("publish"), ref.AmfNum(1), ref.AmfNul()), 0x0c, 0x7f, 0xff, 0xff, 0xff),
			} {
				s := newScript().prefix(state, name)
				s.msg(3, 20, 1, 0, b)
				add("command/raw-amf-oddity", state, s)
			}
		}
	case 5:
		// A/V and data messages in every role; named inputs; repeated publish/play
		for state := 2; state <= 6; state++ {
			for _, typ := range []uint8{8, 9, 18, 22, 15, 16, 19} {
				for _, pl := range [][]byte{nil, {0x17}, {0x17, 0}, {0x17, 1, 0, 0, 0}, {0xaf}, {0xaf, 0}, {0xaf, 1, 1}, gen.AvcSeqHeader(1, 0), gen.AacSeqHeader(1, 0), randBytes(40),
					gen.Metadata(1, 1, true), ref.AmfEncodeAll(ref.AmfNum(1)), ref.AmfEncodeAll(ref.AmfStr("|RtmpSampleAccess"), ref.AmfBool(true)), ref.AmfEncodeAll(ref.AmfStr("@setDataFrame")), {2, 0, 20, 'x'}} {
					s := newScript().prefix(state, name)
					s.msg(6, typ, 1, uint32(r.Intn(100000)), pl)
					s.msg(4, 8, 1, 5, []byte{0xaf, 1, 2, 3})
					add(fmt.Sprintf("media/type=%d", typ), state, s)
				}
			}
			// aggregates with bad sub-lengths
			for k := 0; k < 12; k++ {
				agg := ref.BuildAggregate([]ref.RtmpMsg{{TypeID: 9, Ts: 10, StreamID: 1, Payload: gen.VideoFrame(r, 1, k, true, 0, 40)}, {TypeID: 8, Ts: 12, StreamID: 1, Payload: gen.AudioFrame(r, 1, k, 20)}})
				switch k % 4 {
				case 1:
					agg[1], agg[2], agg[3] = 0xff, 0xff, 0xff
				case 2:
					agg = agg[:len(agg)-r.Intn(15)-1]
				case 3:
					agg[r.Intn(len(agg))] ^= 0xff
				}
				s := newScript().prefix(state, name)
				s.msg(6, 22, 1, 100, agg)
				add("media/aggregate", state, s)
			}
		}
		// aggregates cut at every offset (each sub-message header and body boundary), and complete
		// aggregates followed by 1..10 stray bytes; right after the handshake and while publishing
		for _, state := range []int{2, 3, 5} {
			agg := ref.BuildAggregate([]ref.RtmpMsg{{TypeID: 9, Ts: 10, StreamID: 1, Payload: gen.VideoFrame(r, 1, 77, true, 0, 12)}, {TypeID: 8, Ts: 12, StreamID: 1, Payload: gen.AudioFrame(r, 1, 77, 9)},
				{TypeID: 9, Ts: 14, StreamID: 1, Payload: gen.VideoFrame(r, 1, 78, false, 0, 10)}})
			for n := 0; n <= len(agg); n++ {
				s := newScript().prefix(state, name)
				s.msg(6, 22, 1, 100, agg[:n])
				add("media/aggregate-cut", state, s)
			}
			for extra := 1; extra <= 10; extra++ {
				s := newScript().prefix(state, name)
				s.msg(6, 22, 1, 100, append(append([]byte(nil), agg...), randBytes(extra)...))
				add("media/aggregate-stray-tail", state, s)
			}
		}
		// large media messages at extended timestamps while publishing (the server re-chunks every
		// published message whether or not anyone subscribes)
		for _, size := range []int{4097, 8193, 9000, 13000, 70000} {
			for _, ts := range []uint32{0xFFFFFE, 0xFFFFFF, 0x1000000, 0xFFFFFFFF} {
				s := newScript().prefix(5, name)
				s.msg(6, 9, 1, 0, gen.AvcSeqHeader(1, 0))
				s.msg(6, 9, 1, ts, gen.VideoFrame(r, 1, 79, true, 0, size))
				s.msg(4, 8, 1, ts, gen.AudioFrame(r, 1, 79, size))
				add("media/large-at-extended-timestamp", 5, s)
			}
		}
		// repeated / re-ordered session commands (well-formed messages in hostile order)
		for _, seq := range [][]string{{"publish", "publish"}, {"publish", "play"}, {"play", "publish"}, {"play", "play"}, {"connect", "connect"}, {"publish", "connect"}, {"play", "createStream", "publish"},
			{"publish", "deleteStream", "publish"}, {"publish", "FCUnpublish", "play"}} {
			s := newScript().prefix(4, name)
			for _, cn := range seq {
				switch cn {
				case "publish":
					s.msg(5, 20, 1, 0, ref.AmfEncodeAll(ref.AmfStr("publish"), ref.AmfNum(3), ref.AmfNul(), ref.AmfStr(name), ref.AmfStr("live")))
				case "play":
					s.msg(5, 20, 1, 0, ref.AmfEncodeAll(ref.AmfStr("play"), ref.AmfNum(3), ref.AmfNul(), ref.AmfStr(name)))
				case "connect":
					s.cmd(0, ref.AmfStr("connect"), ref.AmfNum(1), ref.AmfObj(ref.AmfPair{Key: "app", Val: ref.AmfStr("live")}))
				case "createStream":
					s.cmd(0, ref.AmfStr("createStream"), ref.AmfNum(2), ref.AmfNul())
				default:
					s.cmd(1, ref.AmfStr(cn), ref.AmfNum(4), ref.AmfNul(), ref.AmfStr(name))
				}
				s.msg(6, 9, 1, 0, gen.VideoFrame(r, 1, 1, true, 0, 40))
			}
			add("sequence/"+fmt.Sprint(seq), 4, s)
		}
	case 6:
		// chunk-level mutations: raw chunk headers after a valid prefix
		for state := 2; state <= 6; state++ {
			for k := 0; k < 60; k++ {
				s := newScript().prefix(state, name)
				var b []byte
				fmtv := r.Intn(4)
				csidForm := r.Intn(3)
				switch csidForm {
				case 0:
					b = append(b, byte(fmtv<<6|(2+r.Intn(62))))
				case 1:
					b = append(b, byte(fmtv<<6), byte(r.Intn(256)))
				default:
					b = append(b, byte(fmtv<<6|1), byte(r.Intn(256)), byte(r.Intn(256)))
				}
				ts := []uint32{0, 1, 0xfffffe, 0xffffff}[r.Intn(4)]
				ml := []uint32{0, 1, 5, 128, 129, 0xffffff, uint32(r.Intn(70000))}[r.Intn(7)]
				typ := []uint8{8, 9, 18, 20, 1, 4, 22, byte(r.Intn(256))}[r.Intn(8)]
				if fmtv <= 2 {
					b = append(b, byte(ts>>16), byte(ts>>8), byte(ts))
				}
				if fmtv <= 1 {
					b = append(b, byte(ml>>16), byte(ml>>8), byte(ml), typ)
				}
				if fmtv == 0 {
					b = append(b, randBytes(4)...)
				}
				if ts == 0xffffff && r.Intn(2) == 0 {
					b = append(b, randBytes(4)...)
				}
				b = append(b, randBytes(r.Intn(400))...)
				s.raw(b)
				add(fmt.Sprintf("chunk/fmt=%d/csidform=%d", fmtv, csidForm), state, s)
			}
			// all four formats after each other on one chunk stream, with a huge declared length
			s := newScript().prefix(state, name)
			s.raw([]byte{0x06, 0, 0, 0, 0xff, 0xff, 0xff, 9, 1, 0, 0, 0}).raw(randBytes(128))
			s.raw([]byte{0x46, 0, 0, 1, 0, 0, 2, 8}).raw(randBytes(2))
			s.raw([]byte{0x86, 0, 0, 1}).raw(randBytes(2)).raw([]byte{0xc6}).raw(randBytes(2))
			add("chunk/format-sequence", state, s)
			// many chunk streams each declaring a maximum-length message (bounded: 24 streams)
			s = newScript().prefix(state, name)
			for k := 0; k < 24; k++ {
				s.raw([]byte{byte(4 + k), 0, 0, 0, 0xff, 0xff, 0xff, 9, 1, 0, 0, 0}).raw(randBytes(128))
			}
			add("chunk/many-max-length-streams", state, s)
			// abort message
			s = newScript().prefix(state, name)
			s.raw([]byte{0x06, 0, 0, 0, 0, 1, 0, 9, 1, 0, 0, 0}).raw(randBytes(128))
			s.msg(2, 2, 0, 0, []byte{0, 0, 0, 6})
			s.msg(6, 9, 1, 0, gen.VideoFrame(r, 1, 1, true, 0, 30))
			add("chunk/abort", state, s)
		}
	case 7:
		// deeply nested AMF up to the 16 MiB message limit, as command and as data message
		levels := []int{1000, 40000, 1 << 20, 5500000}[(i/8)%4]
		var body []byte
		unit := [][]byte{{0x03, 0x00, 0x01, 'a'}, {0x0a, 0, 0, 0, 1}, {0x08, 0, 0, 0, 1, 0x00, 0x01, 'a'}}[(i/32)%3]
		for k := 0; k < levels && len(body) < (16<<20)-64; k++ {
			body = append(body, unit...)
		}
		// bare (the container chain is the command object itself) and as a property value inside the
		// command object / metadata object (where the parser accepts any value type)
		for _, wrap := range [][]byte{nil, {0x03, 0x00, 0x01, 'a'}, {0x08, 0, 0, 0, 1, 0x00, 0x01, 'a'}} {
			wb := append(append([]byte(nil), wrap...), body...)
			if len(wb) > (16<<20)-64 {
				wb = wb[:(16<<20)-64]
			}
			for _, st := range []int{3, 5} {
				s := newScript().prefix(st, name)
				s.msg(2, 1, 0, 0, []byte{0, 1, 0, 0}) // chunk size 65536 to keep the framing overhead low
				s.w.ChunkSize = 65536
				if st == 3 {
					s.msg(3, 20, 0, 0, append(ref.AmfEncodeAll(ref.AmfStr("connect"), ref.AmfNum(1)), wb...))
				} else {
					s.msg(5, 18, 1, 0, append(ref.AmfEncodeAll(ref.AmfStr("@setDataFrame"), ref.AmfStr("onMetaData")), wb...))
				}
				add(fmt.Sprintf("amf/deep-nesting/levels=%d/wrapped=%v", levels, wrap != nil), st, s)
			}
		}
		// the three inputs named with the property
		s := newScript().prefix(4, name)
		s.msg(6, 9, 1, 0, gen.VideoFrame(r, 1, 1, true, 0, 40))
		add("named/av-before-publish", 4, s)
		s = newScript().prefix(3, name)
		s.msg(2, 4, 0, 0, []byte{6})
		add("named/1-byte-user-control", 3, s)
	}
	// fragmentation of a sample of the inputs
	n0 := len(out)
	for k := 0; k < n0 && k < 12; k++ {
		in := out[r.Intn(n0)]
		if len(in.Data) > 20000 {
			continue
		}
		in.Frag = []int{1, 2, 7, 13, 9999}[r.Intn(5)]
		in.Class += "+fragmented"
		out = append(out, in)
	}
	return out
}

func c04Sizes(tier string) int {
	if tier == "thorough" {
		return 1600
	}
	return 96
}

func init() {
	fw.Register(&fw.Prop{
		ID:          "C04",
		NumCases:    func(tier string, seed int64) int { return c04Sizes(tier) },
		CaseTimeout: func(string) time.Duration { return 10 * time.Minute },
		Rule: "one sub-input = one hostile TCP connection to the RTMP listener of the whole in-process server (all outputs on): raw bytes and handshake variants; a valid prefix to each of 7 protocol states followed by every message type id × small payloads, control/user-control/ack messages truncated at every offset, Set Chunk Size / window-ack extremes, each known command truncated at every offset / bit-flipped / with every argument replaced by every AMF type, raw AMF oddities (huge counts, lengths beyond the buffer), A/V, data and aggregate messages in every role, aggregates cut at every offset or followed by stray bytes, multi-chunk media at extended timestamps while publishing, well-formed commands in hostile order (publish twice, play after publish…), raw chunk-header mutations (all formats, csid forms, extended timestamps, maximal declared lengths), AMF containers nested up to 5.5M levels in 16 MiB messages, and 1/2/7/13/random-byte fragmentation. " +
			"The input is logged before it is sent; the connection is half-closed and drained so lal has consumed it before the next one. monitors: process liveness (panic / fatal error text + innermost lal frame) and a canary publisher+player after every group. cell = state × input class.",
		Assumptions: []string{"a hostile connection that lal keeps open or closes is not judged; only process death or a failing canary is", "declared message lengths up to 16 MiB are sent for a bounded number of chunk streams per connection"},
		MinCells: 20,
		Run: func(c *fw.Ctx, i int) {
			s := crashServer(c, fullConf())
			if s == nil {
				return
			}
			ins := c04Inputs(c, i)
			rng := c.SubRng("frag")
			closed, open := 0, 0
			for k, in := range ins {
				if k < c.SubStart {
					continue
				}
				c.Sub(k)
				c.Describe("sub=%d class=%s state=%s frag=%d len=%d head=%s", k, in.Class, c04States[in.State], in.Frag, len(in.Data), hexHead(in.Data, in.State))
				cl, err := hostileConn(s.RtmpAddr(), in.Data, in.Frag, rng)
				if err != nil {
					c.Violate("canary/listener-refuses", fmt.Sprintf("RTMP listener does not accept connections any more: %v (after input class %s)", err, in.Class), nil)
					return
				}
				if cl {
					closed++
				} else {
					open++
				}
				c.Eval(1)
				c.Cell("%s/%s", c04States[in.State], in.Class)
				if k%100 == 99 {
					if err := rtmpCanary(s, fmt.Sprintf("canary%d_%d", i, k)); err != nil {
						c.Violate("canary/stopped-serving", fmt.Sprintf("%v (after input class %s)", err, in.Class), goroutineDump())
						return
					}
				}
			}
			if err := rtmpCanary(s, fmt.Sprintf("canary%d_end", i)); err != nil {
				c.Violate("canary/stopped-serving", err.Error(), goroutineDump())
			}
			if len(ins) > 0 {
				c13Spin(c, ins[len(ins)-1].Class) // a connection lal neither closes nor waits on, but spins on
			}
			c.Count("connections_closed_by_lal", closed)
			c.Count("connections_left_open", open)
			if i < 8 && len(ins) > 0 {
				in := ins[len(ins)/2]
				c.Sample(map[string]interface{}{"class": in.Class, "state": c04States[in.State], "bytes": len(in.Data), "tail_hex": hex.EncodeToString(in.Data[max(0, len(in.Data)-48):])})
			}
		},
	})
}

// hexHead prints the bytes after the state prefix (the hostile part), at most 96 of them.
func hexHead(b []byte, state int) string {
	skip := 0
	if state >= 2 {
		skip = 3073
	}
	if skip > len(b) {
		skip = 0
	}
	t := b[skip:]
	if len(t) > 96 {
		t = t[:96]
	}
	return hex.EncodeToString(t)
}

// goroutineDump returns the stacks of all goroutines (evidence for a failing canary).
func goroutineDump() string {
	for sz := 1 << 20; ; sz *= 4 {
		buf := make([]byte, sz)
		n := runtime.Stack(buf, true)
		if n < sz || sz >= 64<<20 {
			return string(buf[:n])
		}
	}
}
