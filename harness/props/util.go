package props

import (
	"regexp"
	"sort"

	"lalverif/gen"

	"github.com/q191201771/lal/pkg/base"
)

var reDigitsP = regexp.MustCompile(`[0-9]+`)

func sortStrings(s []string) { sort.Strings(s) }

// baseMsg converts a generated RTMP message into lal's message type (for FeedRtmpMsg).
func baseMsg(m gen.EsMsg) base.RtmpMsg {
	csid := 6
	if m.Type == 8 {
		csid = 4
	} else if m.Type == 18 {
		csid = 5
	}
	return base.RtmpMsg{Header: base.RtmpHeader{Csid: csid, MsgLen: uint32(len(m.Payload)), MsgTypeId: m.Type, MsgStreamId: 1, TimestampAbs: m.Ts}, Payload: m.Payload}
}
