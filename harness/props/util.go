package props

import (
	"regexp"
	"sort"
)

var reDigitsP = regexp.MustCompile(`[0-9]+`)

func sortStrings(s []string) { sort.Strings(s) }
