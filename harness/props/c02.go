package props

import (
	"bytes"
	"fmt"
	"os"
	"path/filepath"
	"time"

	"lalverif/fw"
	"lalverif/gen"
	"lalverif/ref"
	"lalverif/srv"
)

// C02 — every consumer starts decodable: headers, then a key frame, bounded GOP replay.
//
// One case = one whole-server run in which a joiner of each protocol is attached at EVERY
// message index of the publish sequence (publisher paused, admission observed, exact index).

type c02Case struct {
	Name   string
	Shapes []gen.Shape
	Gop    int
	Cap    int
	Kinds  []string
	Rot    int // rotates the other protocols' gop_num relative to rtmp's
	Merge  int // rtmp merge_write_size
	Rtmps  bool // rtmp.enable=false, rtmps_enable=true: publisher and RTMP joiners connect over TLS
	Https  bool // http-flv and http-ts are served on the https listener only (enable=false, enable_https=true)
}

func c02Catalogue() []c02Case {
	av := gen.Shape{Name: "av", Video: true, Audio: true, Meta: true, MetaSdf: true, Gops: 4, GopLen: 5, AudioPerVid: 1}
	vo := gen.Shape{Name: "video-only", Video: true, Meta: true, Gops: 4, GopLen: 5}
	ao := gen.Shape{Name: "audio-only", Audio: true, Meta: true, Gops: 3, GopLen: 6, AudioPerVid: 1}
	g711 := gen.Shape{Name: "g711", Audio: true, AudioCodec: "g711a", Gops: 3, GopLen: 6, AudioPerVid: 1}
	opus := gen.Shape{Name: "opus+video", Video: true, Audio: true, AudioCodec: "opus", Gops: 3, GopLen: 5, AudioPerVid: 1}
	hc := av
	hc.Name, hc.HdrChangeAt = "hdr-change-at-gop", 2
	hm := av
	hm.Name, hm.HdrChangeAt, hm.HdrChangeMid = "hdr-change-mid-gop", 2, true
	ha := av
	ha.Name, ha.HdrChangeAt, ha.HdrChangeMid, ha.HdrChangeAudioOnly = "aac-hdr-change-mid-gop", 2, true, true
	mm := av
	mm.Name, mm.MidMeta = "mid-gop-metadata", true
	long := av
	long.Name, long.GopLen, long.Gops = "long-gop", 14, 3
	hv := av
	hv.Name, hv.VideoCodec = "hevc", "hevc"
	he := av
	he.Name, he.VideoCodec = "hevc-enhanced", "hevc-enh"
	hx := av
	hx.Name, hx.VideoCodec, hx.NoCts = "hevc-enhanced-codedframesx", "hevc-enh", true
	var out []c02Case
	kinds := []string{"rtmp", "flv", "ts"}
	for _, g := range []int{0, 1, 2} {
		for _, cp := range []int{0, 3} {
			if g == 0 && cp != 0 {
				continue
			}
			for _, sh := range []gen.Shape{av, vo, ao, hc, hm, ha, mm, long, g711, opus, hv, he, hx} {
				out = append(out, c02Case{Name: sh.Name, Shapes: []gen.Shape{sh}, Gop: g, Cap: cp, Kinds: kinds})
			}
			// re-publish histories: same name, different tracks
			out = append(out, c02Case{Name: "republish av→audio-only", Shapes: []gen.Shape{av, ao}, Gop: g, Cap: cp, Kinds: kinds})
			out = append(out, c02Case{Name: "republish audio-only→av", Shapes: []gen.Shape{ao, av}, Gop: g, Cap: cp, Kinds: kinds})
			out = append(out, c02Case{Name: "republish av→av", Shapes: []gen.Shape{av, hc}, Gop: g, Cap: cp, Kinds: kinds})
		}
	}
	// https-only configurations of HTTP-FLV / HTTP-TS: the same joiners, over TLS
	for _, g := range []int{1, 2} {
		out = append(out, c02Case{Name: "av/https-only", Shapes: []gen.Shape{av}, Gop: g, Kinds: kinds, Https: true})
	}
	out = append(out, c02Case{Name: "mid-gop-metadata/https-only", Shapes: []gen.Shape{mm}, Gop: 1, Kinds: kinds, Https: true})
	for _, g := range []int{1, 2} {
		out = append(out, c02Case{Name: "av/rtmps-only", Shapes: []gen.Shape{av}, Gop: g, Kinds: kinds, Rtmps: true})
	}
	for k := range out {
		out[k].Rot = k % 3
		if (k/3)%2 == 1 {
			out[k].Merge = []int{512, 2048}[(k/6)%2]
		}
	}
	return out
}

// gopOf / capOf: each protocol has its own gop_num / frame cap in lal's configuration; two thirds of
// the catalogue give the three protocols different values (Rot = catalogue position % 3).
func (cs c02Case) gopOf(kind string) int {
	switch kind {
	case "flv", "wsflv":
		return (cs.Gop + cs.Rot) % 3
	case "ts":
		return (cs.Gop + 2*cs.Rot) % 3
	}
	return cs.Gop
}

func (cs c02Case) capOf(kind string) int {
	if cs.gopOf(kind) == 0 {
		return 0
	}
	if cs.Cap == 0 && cs.Rot == 1 && kind != "rtmp" {
		return 3
	}
	return cs.Cap
}

func c02Scenario(cs c02Case, i int) relayScenario {
	sc := relayScenario{Stream: fmt.Sprintf("j%d", i), FmtMode: 0, PubChunk: 4096}
	sc.Conf = srv.Conf{RtmpGop: cs.Gop, RtmpGopCap: cs.Cap, MergeWrite: cs.Merge, Flv: true, FlvGop: cs.gopOf("flv"), FlvGopCap: cs.capOf("flv"), Ts: true, TsGop: cs.gopOf("ts"), TsGopCap: cs.capOf("ts")}
	sc.Conf.FlvHttpsOnly, sc.Conf.TsHttpsOnly = cs.Https, cs.Https
	sc.Conf.RtmpsOnly = cs.Rtmps
	sc.Shape = cs.Shapes[0]
	sc.More = cs.Shapes[1:]
	return sc
}

// incOf returns the incarnation (0-based) and its start index for a join index j.
func incOf(incStart []int, j int) (int, int) {
	k := 0
	for x := range incStart {
		if incStart[x] <= j {
			k = x
		}
	}
	return k, incStart[k]
}

type c02Ctx struct {
	all   []*consumerRec
	c     *fw.Ctx
	cs    c02Case
	pub   []gen.PubMsg
	desc  string
	shape gen.Shape
}

func (x *c02Ctx) bad(kind, clause, format string, a ...interface{}) {
	x.c.Violate("start/"+clause+"/"+kind, fmt.Sprintf(format, a...)+" | "+x.desc, nil)
}

// c02JudgeMsgConsumer: RTMP / FLV joiner.
func c02JudgeMsgConsumer(x *c02Ctx, rec *consumerRec, sawVideoBefore bool) {
	c, pub := x.c, x.pub
	kind := rec.Kind
	j := rec.JoinK
	inc, start := incOf(rec.IncStart, j)
	end := len(pub)
	if inc+1 < len(rec.IncStart) {
		end = rec.IncStart[inc+1]
	}
	sh := x.cs.Shapes[inc]
	x.desc = fmt.Sprintf("case=%s gop=%d cap=%d consumer=%s join=%d (incarnation %d [%d,%d)) shape=%s", x.cs.Name, x.cs.gopOf(kind), x.cs.capOf(kind), kind, j, inc+1, start, end, sh.String())
	if rec.ParseErr != "" {
		x.bad(kind, "parse", "byte stream does not parse: %s", rec.ParseErr)
		return
	}
	// trigger: the fresh burst happens when the next non-empty message ≥ j is processed
	trigger := -1
	for i := j; i < len(pub); i++ {
		if len(pub[i].Payload) > 0 {
			trigger = i
			break
		}
	}
	if trigger < 0 {
		return // nothing was published after admission: nothing to judge
	}
	// restrict to what the consumer got up to the end of its first incarnation (later ones: C16)
	var items []recvItem
	for _, it := range rec.Items {
		if it.Idx >= 0 && it.Idx >= end {
			break
		}
		items = append(items, it)
	}
	for n, it := range items {
		if it.Idx < 0 {
			x.bad(kind, "unknown-message", "item %d (type %d len %d) matches no published message", n, it.Type, it.Len)
			return
		}
	}
	if trigger >= end {
		// joined at the very end of an incarnation; the burst is triggered by the next one
		return
	}
	// expected headers: latest of each kind published in [start, j)
	want := map[gen.Kind]int{gen.Meta: -1, gen.Vsh: -1, gen.Ash: -1}
	for i := start; i < j; i++ {
		k := pub[i].Kind
		if k == gen.Meta || k == gen.Vsh || k == gen.Ash {
			want[k] = i
		}
	}
	// R1 + "nothing else": prologue header items
	gotHdr := map[gen.Kind][]int{}
	firstMediaPos := -1
	for n, it := range items {
		p := pub[it.Idx]
		if p.IsMedia() && firstMediaPos < 0 {
			firstMediaPos = n
		}
		if it.Idx < j && !p.IsMedia() {
			gotHdr[p.Kind] = append(gotHdr[p.Kind], it.Idx)
			if firstMediaPos >= 0 {
				x.bad(kind, "header-after-media", "cached %s (published idx %d) arrives after media frames", p.Kind, it.Idx)
				return
			}
		}
	}
	for _, k := range []gen.Kind{gen.Meta, gen.Vsh, gen.Ash} {
		g := gotHdr[k]
		if want[k] >= 0 {
			if len(g) == 0 {
				x.bad(kind, "missing-"+k.String(), "joiner did not receive the %s in force (published idx %d) before media; received %v; note=%q", k, want[k], idxList(items, 12), rec.Note)
				return
			}
			if len(g) != 1 || g[0] != want[k] {
				x.bad(kind, "stale-"+k.String(), "joiner received %s idx %v, the latest published before admission is %d", k, g, want[k])
				return
			}
		} else if len(g) != 0 {
			x.bad(kind, "foreign-"+k.String(), "joiner received %s idx %v although none was published in this incarnation before admission (start %d)", k, g, start)
			return
		}
	}
	// R2 header in force
	hv, ha := -1, -1
	firstVideoSeen := false
	for n, it := range items {
		p := pub[it.Idx]
		switch p.Kind {
		case gen.Vsh:
			hv = it.Idx
		case gen.Ash:
			ha = it.Idx
		case gen.Key, gen.Inter:
			if p.VshIdx != hv {
				x.bad(kind, "video-header-in-force", "item %d: video frame idx %d was published under sequence header %d, consumer's latest is %d; received %v", n, it.Idx, p.VshIdx, hv, idxList(items, 16))
				return
			}
			if !firstVideoSeen {
				firstVideoSeen = true
				if p.Kind != gen.Key {
					x.bad(kind, "first-video-not-key", "first video frame received is idx %d (%s)", it.Idx, p.Kind)
					return
				}
			}
		case gen.Audio:
			if p.AshIdx != ha && sh.AudioCodec == "" {
				x.bad(kind, "audio-header-in-force", "item %d: audio frame idx %d was published under sequence header %d, consumer's latest is %d", n, it.Idx, p.AshIdx, ha)
				return
			}
		}
	}
	// R4/R5 replay
	var replay []int
	for _, it := range items {
		if it.Idx < j && pub[it.Idx].IsMedia() {
			replay = append(replay, it.Idx)
		}
	}
	var gops [][]int // published gops in [start, j): media frames from each key frame on
	hdrChanged := false
	lastV, lastA := -2, -2
	for i := start; i < j; i++ {
		p := pub[i]
		if p.Kind == gen.Vsh {
			if lastV != -2 {
				hdrChanged = true
			}
			lastV = i
		}
		if p.Kind == gen.Ash {
			// a new AAC sequence header is a header change too: GOPs cached before it hold audio frames
			// that the joiner could only decode with the header that is no longer in force
			if lastA != -2 {
				hdrChanged = true
			}
			lastA = i
		}
		if !p.IsMedia() || len(p.Payload) == 0 {
			continue
		}
		if p.Kind == gen.Key {
			gops = append(gops, []int{i})
		} else if len(gops) > 0 {
			gops[len(gops)-1] = append(gops[len(gops)-1], i)
		}
	}
	G, capn := x.cs.gopOf(kind), x.cs.capOf(kind)
	expect := len(gops)
	if expect > G {
		expect = G
	}
	// split replay into gops
	var rg [][]int
	for _, i := range replay {
		if pub[i].Kind == gen.Key {
			rg = append(rg, []int{i})
		} else if len(rg) > 0 {
			rg[len(rg)-1] = append(rg[len(rg)-1], i)
		} else {
			x.bad(kind, "replay-not-at-key", "replayed frames start with idx %d (%s), not a key frame", i, pub[i].Kind)
			return
		}
	}
	if !hdrChanged && len(rg) != expect {
		x.bad(kind, "replay-count", "replayed %d GOPs, expected min(gop_num=%d, %d key frames so far)=%d; replay=%v", len(rg), G, len(gops), expect, replay)
		return
	}
	if len(rg) > G {
		x.bad(kind, "replay-count", "replayed %d GOPs > gop_num %d", len(rg), G)
		return
	}
	for q, g := range rg {
		pg := gops[len(gops)-len(rg)+q]
		if g[0] != pg[0] {
			x.bad(kind, "replay-not-latest", "replayed GOP %d starts at idx %d; the most recent GOPs start at %v", q, g[0], gopStarts(gops))
			return
		}
		if len(g) > len(pg) {
			x.bad(kind, "replay-extra", "replayed GOP has %d frames, published %d", len(g), len(pg))
			return
		}
		for n := range g {
			if g[n] != pg[n] {
				x.bad(kind, "replay-not-prefix", "replayed GOP %v is not a prefix of published GOP %v", g, pg)
				return
			}
		}
		if len(g) < len(pg) && !(capn > 0 && (len(g) == capn || len(g) == capn+1)) {
			x.bad(kind, "replay-incomplete", "replayed GOP has %d of %d frames (frame cap %d)", len(g), len(pg), capn)
			return
		}
	}
	// R6 start of live part
	firstLive := -1
	for _, it := range items {
		if it.Idx >= j {
			firstLive = it.Idx
			break
		}
	}
	firstFwd, firstKey := trigger, -1
	for i := j; i < end; i++ {
		if pub[i].Kind == gen.Key {
			firstKey = i
			break
		}
	}
	videoSoFar := false
	for i := start; i < j; i++ {
		if pub[i].Kind == gen.Vsh {
			videoSoFar = true
		}
	}
	switch {
	case kind == "rtmp" && x.cs.Merge > 0 && firstLive < 0:
		// merge writing: live data reaches an RTMP consumer in batches of merge_write_size; nothing
		// live has been flushed to this joiner yet (what it did receive is judged above)
		c.Count("merge_write_live_part_withheld", 1)
	case len(rg) > 0 || !videoSoFar:
		// replayed GOPs, or a stream that has no video so far: delivery continues at once
		if !videoSoFar && len(rg) == 0 && sawVideoBefore {
			c.Cell("%s/republished-without-video", kind)
		}
		if firstLive != firstFwd {
			cl := "live-not-contiguous"
			if !videoSoFar {
				cl = "held-back-without-video"
			}
			// who else has the message this joiner lacks?
			have := ""
			for _, o := range x.all {
				if o == rec || o.Ts != nil || !o.Admitted {
					continue
				}
				if o.JoinK == j || o.JoinK == j-1 || o.JoinK == 0 || o.JoinK == j+1 {
					has := false
					for _, it := range o.Items {
						if it.Idx == firstFwd {
							has = true
						}
					}
					have += fmt.Sprintf("%s@%d has %d:%v; ", o.Kind, o.JoinK, firstFwd, has)
				}
			}
			x.bad(kind, cl, "first live item is idx %d, expected %d (replayed GOPs=%d, video sequence header published in this incarnation before admission=%v); received %v; others: %s note=%q", firstLive, firstFwd, len(rg), videoSoFar, idxList(items, 24), have, rec.Note)
			return
		}
	default:
		if firstKey >= 0 && firstLive != firstKey {
			// headers published between j and the key frame may legitimately arrive first (they are
			// what R2 needs); media must not
			ok := firstLive >= 0 && firstLive < firstKey && !pub[firstLive].IsMedia()
			if !ok {
				x.bad(kind, "live-start", "no GOP replayed: first live item is idx %d, expected the next key frame %d", firstLive, firstKey)
				return
			}
		}
	}
	// no-video clause, count based
	if !sh.Video {
		n := 0
		var next []int
		for i := j; i < end && len(next) < 3; i++ {
			if pub[i].Kind == gen.Audio {
				next = append(next, i)
			}
		}
		for _, it := range items {
			for _, w := range next {
				if it.Idx == w {
					n++
				}
			}
		}
		if len(next) == 3 && n == 0 {
			x.bad(kind, "held-back-without-video", "stream currently has no video, yet none of the next 3 audio frames %v was delivered", next)
			return
		}
	}
	c.Eval(1)
	jc := "mid-gop"
	switch {
	case j == start:
		jc = "before-first-message"
	case j <= start+3:
		jc = "between-headers"
	case j < len(pub) && pub[j].Kind == gen.Key:
		jc = "at-key-frame"
	}
	c.Cell("%s/%s/gop=%d/cap=%d/%s", kind, x.cs.Name, G, capn, jc)
}

func gopStarts(g [][]int) []int {
	var o []int
	for _, x := range g {
		o = append(o, x[0])
	}
	return o
}

func idxList(items []recvItem, n int) []int {
	var o []int
	for i, it := range items {
		if i >= n {
			break
		}
		o = append(o, it.Idx)
	}
	return o
}

// c02JudgeTs: HTTP-TS joiner.
func c02JudgeTs(x *c02Ctx, rec *consumerRec) {
	c, pub := x.c, x.pub
	j := rec.JoinK
	inc, start := incOf(rec.IncStart, j)
	end := len(pub)
	if inc+1 < len(rec.IncStart) {
		end = rec.IncStart[inc+1]
	}
	sh := x.cs.Shapes[inc]
	x.desc = fmt.Sprintf("case=%s gop=%d cap=%d consumer=ts join=%d (incarnation %d [%d,%d)) shape=%s", x.cs.Name, x.cs.gopOf("ts"), x.cs.capOf("ts"), j, inc+1, start, end, sh.String())
	d := rec.Ts.Demux
	if rec.Ts.Len == 0 {
		// nothing received: legal only if no TS boundary occurred after admission; require data
		// when ≥2 key frames (video) or ≥6 audio frames (audio only) were published after j
		keys, auds := 0, 0
		for i := j; i < end; i++ {
			if pub[i].Kind == gen.Key {
				keys++
			}
			if pub[i].Kind == gen.Audio {
				auds++
			}
		}
		if (sh.Video && keys >= 2) || (!sh.Video && sh.AudioCodec == "" && auds >= 24) {
			x.bad("ts", "nothing-delivered", "TS joiner received no bytes although %d key frames / %d audio frames were published after admission", keys, auds)
		}
		return
	}
	if rec.Ts.Len%188 != 0 {
		x.bad("ts", "not-188", "TS body length %d is not a multiple of 188", rec.Ts.Len)
		return
	}
	if len(d.Errs) > 0 {
		x.bad("ts", "demux", "reference demuxer: %s", d.Errs[0])
		return
	}
	if len(d.PsiIdx) < 2 || d.PsiIdx[0] != 0 || d.PsiIdx[1] != 1 || !d.PatSeen || !d.PmtSeen {
		x.bad("ts", "pat-pmt-first", "stream does not start with PAT, PMT (psi packet positions %v)", d.PsiIdx)
		return
	}
	// first incarnation only (the TS connection stays across re-publish; later content is C16's)
	wantV, wantA := uint8(0), uint8(0)
	hevc := sh.VideoCodec != ""
	if sh.Video {
		wantV = 0x1b
		if hevc {
			wantV = 0x24
		}
	}
	if sh.Audio && sh.AudioCodec == "" {
		wantA = 0x0f
	}
	if sh.Audio && sh.AudioCodec == "opus" {
		wantA = 0x06
	}
	{
		// the first PMT of the connection belongs to the incarnation of the join
		var v, a uint8
		if len(d.FirstPmt.Streams) > 0 || d.PmtSeen {
			for _, st := range d.FirstPmt.Streams {
				if st.PID == 0x100 {
					v = st.StreamType
				}
				if st.PID == 0x101 {
					a = st.StreamType
				}
			}
		}
		if v != wantV || a != wantA {
			x.bad("ts", "pmt-codecs", "first PMT declares video type %#x audio type %#x, stream has %#x / %#x", v, a, wantV, wantA)
			return
		}
	}
	// audio: whatever is replayed or forwarded belongs to the incarnation of the join (a batch of audio
	// the remuxer still held when the previous input left must not come back through the GOP cache)
audio:
	for _, p := range d.Out {
		if p.PID != 0x101 {
			continue
		}
		for _, t := range gen.FindTags(p.Data) {
			if t.Idx >= gen.SeqHdrTagBase {
				continue
			}
			if t.Idx >= end {
				break audio
			}
			if t.Idx < start {
				x.bad("ts", "replay-foreign-incarnation/audio", "an audio PES carries frame %d, published before this incarnation started at %d", t.Idx, start)
				return
			}
		}
	}
	firstVideo := true
	for _, p := range d.Out {
		tags := gen.FindTags(p.Data)
		if p.PID != 0x100 {
			continue
		}
		// frame tag: the one that is not a sequence-header tag
		frame, hdrTag := -1, -1
		for _, t := range tags {
			if t.Idx >= gen.SeqHdrTagBase {
				hdrTag = t.Idx
			} else {
				frame = t.Idx
			}
		}
		if frame < 0 || frame >= len(pub) {
			x.bad("ts", "unknown-frame", "video PES carries no published frame tag")
			return
		}
		if frame >= end {
			break
		}
		pm := pub[frame]
		if firstVideo {
			firstVideo = false
			if !p.RAI || pm.Kind != gen.Key {
				x.bad("ts", "first-video-not-key", "first video PES: random_access=%v, published frame %d is %s", p.RAI, frame, pm.Kind)
				return
			}
			if frame < start {
				x.bad("ts", "replay-foreign-incarnation", "first video PES carries frame %d, published before this incarnation started at %d", frame, start)
				return
			}
			// replay: the joiner starts at the oldest of the last min(gop_num, #key frames so far) GOPs,
			// or at the next key frame when nothing is cached. Not judged while lal still probes the
			// codecs (first messages of an incarnation are queued inside the remuxer, so "published"
			// and "cached" differ) nor after a sequence header change.
			var keysBefore []int
			vsh := 0
			for i := start; i < j; i++ {
				if pub[i].Kind == gen.Vsh {
					vsh++
				}
				if pub[i].Kind == gen.Key && len(pub[i].Payload) > 0 {
					keysBefore = append(keysBefore, i)
				}
			}
			if j-start >= 24 && vsh <= 1 {
				G := x.cs.gopOf("ts")
				exp := -1
				if G == 0 || len(keysBefore) == 0 {
					for i := j; i < end; i++ {
						if pub[i].Kind == gen.Key && len(pub[i].Payload) > 0 {
							exp = i
							break
						}
					}
				} else {
					k := len(keysBefore)
					if k > G {
						k = G
					}
					exp = keysBefore[len(keysBefore)-k]
				}
				if frame != exp {
					x.bad("ts", "replay-count", "first video PES carries key frame %d; with gop_num %d and key frames %v published before admission it should start at %d", frame, G, keysBefore, exp)
					return
				}
				c.Count("ts_replay_start_checked", 1)
			}
		}
		if pm.Kind == gen.Key {
			nals, err := ref.SplitAnnexB(p.Data)
			if err != nil {
				x.bad("ts", "annexb", "key frame PES is not Annex-B: %v", err)
				return
			}
			hasSps, hasIdr := false, false
			for _, n := range nals {
				if len(n) == 0 {
					continue
				}
				isSps, isIdr, want := n[0]&0x1f == 7, n[0]&0x1f == 5, gen.AvcSps
				if hevc {
					t := n[0] >> 1 & 0x3f
					isSps, isIdr, want = t == 33, t >= 16 && t <= 21, gen.HevcSps
				}
				if isSps {
					hasSps = true
					if !bytes.Equal(n, want) {
						x.bad("ts", "sps-differs", "SPS before key frame %d differs from the published one", frame)
						return
					}
				}
				if isIdr {
					hasIdr = true
				}
			}
			if !hasSps || !hasIdr || hdrTag < 0 {
				x.bad("ts", "key-without-parameter-sets", "key frame %d PES: sps=%v idr=%v pps-tag=%v", frame, hasSps, hasIdr, hdrTag >= 0)
				return
			}
			// in-force check: PPS tag must be the one of pub[pm.VshIdx]
			wt := gen.FindTags(pub[pm.VshIdx].Payload)
			if len(wt) == 0 || wt[0].Idx != hdrTag {
				x.bad("ts", "video-header-in-force", "key frame %d was published under sequence header idx %d (tag %v) but the PES carries parameter-set tag %d", frame, pm.VshIdx, wt, hdrTag)
				return
			}
		}
	}
	if sh.Video && firstVideo {
		keys := 0
		for i := j; i < end; i++ {
			if pub[i].Kind == gen.Key {
				keys++
			}
		}
		if keys >= 2 {
			x.bad("ts", "no-video-delivered", "TS joiner received no video PES although %d key frames were published after admission", keys)
			return
		}
	}
	c.Eval(1)
	c.Cell("ts/%s/gop=%d", x.cs.Name, x.cs.gopOf("ts"))
}

// c02RtspJoin: an RTSP publisher (interleaved TCP) whose frames are fragmented into many RTP
// packets, and RTSP subscribers whose PLAY completes between two packets of a frame - in particular
// between two fragments of a key frame. lal forwards an RTSP publisher's packets one by one, so the
// first video packet a subscriber gets must START a key-frame access unit (parameter set, or the
// first fragment / whole NAL of an IRAP slice), never a middle or last fragment.
func c02RtspJoin(c *fw.Ctx, k int) {
	r := c.Rng
	root := filepath.Join(c.Scratch, fmt.Sprintf("c02rtsp-%d", c.Index))
	os.MkdirAll(root, 0755)
	defer os.RemoveAll(root)
	s, err := srv.Start(srv.Conf{Rtsp: true, RtspWaitKey: true}, root)
	if err != nil {
		c.Inconclusive("server start: %v", err)
		return
	}
	defer s.Stop()
	vc := []string{"avc", "hevc"}[k%2]
	// audio: AAC, none, or G.711 whose frames begin with bytes that read as IDR / SPS / PPS NAL headers
	// (audio packets must never end a joiner's wait for a key frame)
	sp := gen.EsSpec{VCodec: vc, ACodec: []string{"aac", "", "g711a", "g711u"}[(k/2)%4], AacIdx: 4, AacChans: 2, AacObj: 2, NVideo: 36, GopLen: 6, AudioPer: 1 + (k/8)%2, MaxNals: 1, BigNals: true, NalLikeAudio: true}
	src := c07BuildInc(r, sp, 3)
	pk := c07RtspPackets(r, src, []int{200, 400, 1200}[k%3], false, 1, uint16(r.Intn(65536)))
	name := fmt.Sprintf("rj%d", c.Index)
	url := "rtsp://" + s.RtspAddr() + "/live/" + name
	pub, err := ref.DialRtsp(s.RtspAddr(), 3*time.Second)
	if err != nil {
		c.Inconclusive("rtsp publisher: %v", err)
		return
	}
	defer pub.Close()
	sdp, controls := c07Sdp(src)
	if err := pub.Announce(url, sdp, len(controls), controls, false, 3*time.Second); err != nil {
		c.Inconclusive("rtsp announce: %v", err)
		return
	}
	hevc := vc == "hevc"
	// classify each video packet: start of a key-frame access unit / other
	type cls struct{ video, fuMiddle, keyStart bool }
	classify := func(pkt []byte) cls {
		p, err := ref.ParseRtp(pkt)
		if err != nil || len(p.Payload) < 3 {
			return cls{}
		}
		b := p.Payload
		if !hevc {
			t := b[0] & 0x1f
			switch {
			case t == 28:
				it := b[1] & 0x1f
				return cls{video: true, fuMiddle: b[1]&0x80 == 0, keyStart: b[1]&0x80 != 0 && (it == 5 || it == 7 || it == 8)}
			case t == 24:
				it := b[3] & 0x1f
				return cls{video: true, keyStart: it == 5 || it == 7 || it == 8}
			default:
				return cls{video: true, keyStart: t == 5 || t == 7 || t == 8}
			}
		}
		t := b[0] >> 1 & 0x3f
		isKeyT := func(x byte) bool { return (x >= 16 && x <= 21) || (x >= 32 && x <= 34) }
		switch {
		case t == 49:
			it := b[2] & 0x3f
			return cls{video: true, fuMiddle: b[2]&0x80 == 0, keyStart: b[2]&0x80 != 0 && isKeyT(it)}
		case t == 48:
			return cls{video: true, keyStart: len(b) > 4 && isKeyT(b[4]>>1&0x3f)}
		default:
			return cls{video: true, keyStart: isKeyT(t)}
		}
	}
	// join positions: packets that are middle / last fragments of key frames first, then a seeded few others
	var midKey, others []int
	inKey := false
	for n, o := range pk {
		if o.track != 0 {
			continue
		}
		cl := classify(o.pkt)
		if cl.keyStart {
			inKey = true
		} else if !cl.fuMiddle {
			inKey = false
		}
		if n > 8 && cl.fuMiddle && inKey {
			midKey = append(midKey, n)
		} else if n > 8 {
			others = append(others, n)
		}
	}
	joinAt := map[int]bool{}
	for q := 0; q < 6 && len(midKey) > 0; q++ {
		joinAt[midKey[r.Intn(len(midKey))]] = true
	}
	for q := 0; q < 4 && len(others) > 0; q++ {
		joinAt[others[r.Intn(len(others))]] = true
	}
	var subs []*ref.RtspClient
	var joinedAt []int
	var split []bool
	defer func() {
		for _, x := range subs {
			x.Close()
		}
	}()
	// a joiner's handshake is not atomic: every other joiner sends DESCRIBE/SETUP at its join position
	// and PLAY only a few packets after the next key frame has started (the key frame passes while
	// the session is already known to the group but not yet playing)
	type waiting struct {
		x      *ref.RtspClient
		playAt int
	}
	var pend []waiting
	defer func() {
		for _, w := range pend {
			w.x.Close()
		}
	}()
	nj := 0
	for n, o := range pk {
		for q := 0; q < len(pend); q++ {
			if pend[q].playAt != n {
				continue
			}
			pub.Request("OPTIONS", url, nil, nil, 2*time.Second)
			if pend[q].x.StartPlay(url, 3*time.Second) == nil {
				subs, joinedAt, split = append(subs, pend[q].x), append(joinedAt, n), append(split, true)
			} else {
				pend[q].x.Close()
			}
			pend = append(pend[:q], pend[q+1:]...)
			q--
		}
		if joinAt[n] {
			// everything sent so far has been read by lal (a request/response round trip on the same
			// connection is ordered behind the interleaved data)
			pub.Request("OPTIONS", url, nil, nil, 2*time.Second)
			if x, err := ref.DialRtsp(s.RtspAddr(), 2*time.Second); err == nil {
				nj++
				playAt := -1
				if nj%2 == 0 {
					for m := n + 1; m < len(pk)-12; m++ {
						if pk[m].track == 0 && classify(pk[m].pkt).keyStart {
							playAt = m + 1 + r.Intn(8)
							break
						}
					}
				}
				if playAt > 0 {
					if _, err := x.Prepare(url, false, 3*time.Second); err == nil {
						pend = append(pend, waiting{x, playAt})
					} else {
						x.Close()
					}
				} else if _, err := x.Play(url, false, 3*time.Second); err == nil {
					subs, joinedAt, split = append(subs, x), append(joinedAt, n), append(split, false)
				} else {
					x.Close()
				}
			}
		}
		if pub.SendInterleaved(o.track*2, o.pkt) != nil {
			c.Inconclusive("publisher connection closed by lal at packet %d", n)
			return
		}
	}
	pub.Request("OPTIONS", url, nil, nil, 2*time.Second)
	time.Sleep(150 * time.Millisecond)
	for q, x := range subs {
		c.Eval(1)
		if split[q] {
			c.Cell("rtsp-join/%s/key-frame-between-setup-and-play", vc)
		}
		c.Cell("rtsp-join/%s/%s", vc, map[bool]string{true: "mid-key-frame", false: "elsewhere"}[func() bool {
			for _, m := range midKey {
				if m == joinedAt[q] {
					return true
				}
			}
			return false
		}()])
		// the key frame a joiner starts with is the first one that begins after its PLAY completed - other
		// clients of the stream (some of them set up and not playing yet) have no say in that
		wantSeq, keysAfter := -1, 0
		for m := joinedAt[q]; m < len(pk); m++ {
			if pk[m].track == 0 && classify(pk[m].pkt).keyStart {
				if keysAfter == 0 {
					if p, err := ref.ParseRtp(pk[m].pkt); err == nil {
						wantSeq = int(p.Seq)
					}
				}
				keysAfter++
				// skip the other packets of this key frame's access unit start (parameter sets + IDR all count as key starts)
				for m+1 < len(pk) && (pk[m+1].track != 0 || classify(pk[m+1].pkt).keyStart) {
					m++
				}
			}
		}
		gotVideo := false
		for _, rp := range x.Packets() {
			if rp.Channel == 0 && classify(rp.Data).video {
				gotVideo = true
				if p, err := ref.ParseRtp(rp.Data); err == nil && wantSeq >= 0 && keysAfter >= 2 && int(p.Seq) != wantSeq && classify(rp.Data).keyStart {
					c.Violate("start/rtsp-joiner-late", fmt.Sprintf("an RTSP subscriber whose PLAY completed before the publisher's packet %d started with RTP sequence number %d; the first key frame that began after its PLAY starts at %d (%d key frames began after it joined) | codec=%s", joinedAt[q], p.Seq, wantSeq, keysAfter, vc), nil)
					return
				}
				break
			}
		}
		if !gotVideo && keysAfter >= 2 {
			c.Violate("start/rtsp-joiner-starved", fmt.Sprintf("an RTSP subscriber whose PLAY completed before the publisher's packet %d received no video although %d key frames began after that | codec=%s", joinedAt[q], keysAfter, vc), nil)
			return
		}
		for _, rp := range x.Packets() {
			if rp.Channel != 0 {
				continue
			}
			cl := classify(rp.Data)
			if !cl.video {
				continue
			}
			if !cl.keyStart {
				c.Violate("start/first-video-not-key-start/rtsp", fmt.Sprintf("an RTSP subscriber (PLAY sent apart from SETUP, after a key frame had started: %v) whose PLAY completed before the publisher's packet %d received as its first video packet one that does not start a key-frame access unit (middle/last fragment=%v, payload head % x) | codec=%s max payload=%d", split[q], joinedAt[q], cl.fuMiddle, rp.Data[12:min(len(rp.Data), 16)], vc, []int{200, 400, 1200}[k%3]), nil)
				return
			}
			break
		}
		c.Count("rtsp_joiners_judged", 1)
	}
	if len(subs) == 0 {
		c.Inconclusive("no RTSP subscriber could join")
	}
}

func init() {
	fw.Register(&fw.Prop{
		ID: "C02",
		NumCases: func(tier string, seed int64) int {
			n := len(c02Catalogue())
			if tier == "thorough" {
				return n*6 + 48
			}
			return n + 8
		},
		CaseTimeout: func(string) time.Duration { return 5 * time.Minute },
		Rule: "one case = one whole-server run of a catalogue entry (stream shape × gop_num{0,1,2} × frame cap{0,3}, half of the entries with rtmp merge_write_size 512 or 2048; shapes: A/V (H.264, H.265 classic, H.265 enhanced-RTMP with and without composition offsets, i.e. CodedFrames / CodedFramesX packets), video-only, audio-only, G.711, Opus+video, sequence-header change at a GOP boundary and mid-GOP, a change of the AAC sequence header alone mid-GOP, mid-GOP metadata, long GOP, and re-publish histories A/V→audio-only, audio-only→A/V, A/V→A/V; three entries with HTTP-FLV / HTTP-TS enabled on the https listener only, the joiners connecting over TLS, and two with RTMP served as RTMPS only) in which an RTMP, an HTTP-FLV and an HTTP-TS joiner are attached at EVERY message index (publisher paused, exact admission index). " +
			"oracle (Appendix A.1 of DESIGN.md): latest metadata/sequence headers before media and nothing else; header-in-force register equals the header each frame was published under; first video frame is a key frame; replayed GOPs are the last min(gop_num, #keys) GOPs, oldest first, prefixes cut only at cap/cap+1; live continues at the next message (or next key frame when nothing was replayed and the incarnation has video); audio-only incarnations get one of the next 3 audio frames; TS: PAT,PMT first, first video PES random-access with SPS/PPS of the header in force and carrying the key frame the replay rule names (oldest of the last min(gop_num,#keys) GOPs, else the next key frame; never a frame of an earlier incarnation). rtmp, http-flv and http-ts get different gop_num / cap values in two thirds of the cases (each protocol has its own setting). cell = protocol × shape × gop × cap × join class. thorough repeats the catalogue with other seeds (frame sizes / timestamps). Plus RTSP-to-RTSP cases (audio: AAC, none, or G.711 whose frames begin with bytes that read as IDR/SPS/PPS NAL headers - an audio packet must never end a joiner's wait): a publisher over interleaved TCP whose frames span many RTP packets and up to 10 subscribers whose PLAY completes between two packets, six of them between two fragments of a key frame - the first video packet each receives must start a key-frame access unit.",
		Assumptions: []string{"reference RTMP/FLV/TS decoders (harness/ref)", "generated streams are decodable from their start (first video frame after a sequence header is a key frame)",
			"RTSP joiners of an RTMP-published stream are covered by C06's RTSP consumer start checks; RTSP joiners of an RTSP-published stream by the rtsp-join cases here"},
		MinCells: 20,
		Run: func(c *fw.Ctx, i int) {
			cat := c02Catalogue()
			if base := map[bool]int{true: len(cat) * 6, false: len(cat)}[c.Tier == "thorough"]; i >= base {
				c02RtspJoin(c, i-base)
				return
			}
			cs := cat[i%len(cat)]
			cs.Rot = (cs.Rot + i/len(cat)) % 3
			sc := c02Scenario(cs, i)
			// a joiner of each kind at every index of every incarnation
			rng := c.SubRng("relay")
			probe := relayScenario{Shape: sc.Shape, More: sc.More}
			total := 0
			{
				r2 := c.SubRng("relay")
				for k, sh := range append([]gen.Shape{probe.Shape}, probe.More...) {
					total += len(gen.BuildAt(r2, k+1, sh, total))
				}
			}
			for j := 0; j < total; j++ {
				for _, k := range cs.Kinds {
					sc.Consumers = append(sc.Consumers, consumerPlan{Kind: k, JoinAt: j, LeaveAt: -1})
				}
			}
			c.Describe("case=%s gop=%d cap=%d joiners=%d", cs.Name, cs.Gop, cs.Cap, len(sc.Consumers))
			res := runRelay(c, sc, rng)
			if res.Err != "" {
				c.Inconclusive("%s", res.Err)
				return
			}
			x := &c02Ctx{c: c, cs: cs, pub: res.Pub, all: res.Consumers}
			for _, rec := range res.Consumers {
				if !rec.Admitted {
					c.Inconclusive("joiner %s@%d: %s", rec.Kind, rec.Plan.JoinAt, rec.Note)
					continue
				}
				inc, _ := incOf(rec.IncStart, rec.JoinK)
				sawVideo := false
				for q := 0; q < inc; q++ {
					if cs.Shapes[q].Video {
						sawVideo = true
					}
				}
				if rec.Ts != nil {
					c02JudgeTs(x, rec)
				} else if rec.Kind == "rtmp" || rec.Kind == "flv" {
					c02JudgeMsgConsumer(x, rec, sawVideo)
				}
			}
			if i < 3 {
				c.Sample(map[string]interface{}{"case": cs.Name, "gop_num": cs.Gop, "cap": cs.Cap, "messages": total, "joiners": len(sc.Consumers)})
			}
		},
	})
}
