package props

import (
	"encoding/hex"
	"encoding/json"
	"fmt"
	"io"
	"math/rand"
	"net"
	"sort"
	"strings"
	"syscall"
	"time"

	"lalverif/fw"
	"lalverif/gen"
	"lalverif/ref"
	"lalverif/srv"
)

// C13 — no input on RTSP, RTP/RTCP, GB28181, WebSocket or HTTP surfaces terminates lal.
//
// Same monitors as C04 (process liveness + per-surface canary); one hostile sub-input is a TCP
// connection script, a burst of datagrams, an HTTP request or a scripted upstream reply.

func c13Conf() srv.Conf {
	c := fullConf()
	c.WsRtsp = true
	return c
}

// c13ConfFor: every second child process runs its server with RTSP Digest authentication on, so that
// Authorization headers are actually parsed (one server per child; a child handles the cases of one
// residue class modulo 16).
func c13ConfFor(i int) srv.Conf {
	c := c13Conf()
	if (i%16)%2 == 1 {
		c.RtspAuthEnable, c.RtspAuthMethod, c.RtspUser, c.RtspPass = true, 1, "verif", "pa:ss"
	}
	return c
}

// tcpScript sends data, half-closes and drains (like hostileConn) against any TCP address.
func tcpScript(addr string, data []byte) error {
	_, err := hostileConn(addr, data, 0, nil)
	return err
}

// tcpStaged writes first, waits for the peer's first reply bytes (at most 2 s), then writes rest:
// lal's WebSocket-RTSP listener hijacks the connection after net/http parsed the upgrade request
// and drops whatever arrived in the same segment, so frames must follow the 101 reply to be seen.
func tcpStaged(addr string, first, rest []byte) error {
	c, err := net.DialTimeout("tcp", addr, 3*time.Second)
	if err != nil {
		return err
	}
	defer c.Close()
	c.SetWriteDeadline(time.Now().Add(5 * time.Second))
	c.Write(first)
	buf := make([]byte, 65536)
	c.SetReadDeadline(time.Now().Add(2 * time.Second))
	c.Read(buf)
	c.Write(rest)
	c.(*net.TCPConn).CloseWrite()
	for {
		c.SetReadDeadline(time.Now().Add(3 * time.Second))
		if _, e := c.Read(buf); e != nil {
			return nil
		}
	}
}

func rtspReq(method, uri string, cseq int, headers []string, body []byte) []byte {
	var sb strings.Builder
	fmt.Fprintf(&sb, "%s %s RTSP/1.0\r\nCSeq: %d\r\n", method, uri, cseq)
	for _, h := range headers {
		sb.WriteString(h + "\r\n")
	}
	if body != nil {
		fmt.Fprintf(&sb, "Content-Length: %d\r\n", len(body))
	}
	sb.WriteString("\r\n")
	return append([]byte(sb.String()), body...)
}

func dollar(ch int, p []byte) []byte {
	return append([]byte{'$', byte(ch), byte(len(p) >> 8), byte(len(p))}, p...)
}

func goodSdp(r *rand.Rand) []byte {
	return ref.BuildSdp([]ref.SdpTrack{
		{Kind: "video", PT: 96, Codec: "H264", Clock: 90000, Sps: gen.AvcSps, Pps: []byte{0x68, 0xce, 0x3c, 0x80}, Control: "streamid=0"},
		{Kind: "audio", PT: 97, Codec: "MPEG4-GENERIC", Clock: 44100, Chans: 2, Asc: []byte{0x12, 0x10}, Control: "streamid=1"}})
}

// hostile RTP/RTCP payload families (complete datagrams / interleaved bodies)
func c13RtpPackets(r *rand.Rand) [][]byte {
	var out [][]byte
	rb := func(n int) []byte { b := make([]byte, n); r.Read(b); return b }
	mk := func(pt uint8, payload []byte, mod func(b []byte) []byte) {
		b := ref.BuildRtp(ref.RtpPkt{PT: pt, Seq: uint16(r.Intn(65536)), Ts: r.Uint32(), Ssrc: 7, Marker: r.Intn(2) == 0, Payload: payload})
		if mod != nil {
			b = mod(b)
		}
		out = append(out, b)
	}
	// video (pt 96) H.264 payload structures at extremes
	for _, pl := range [][]byte{{}, {0x65}, {0x18}, {0x18, 0xff}, {0x18, 0xff, 0xff}, {0x18, 0x00, 0x00}, {0x18, 0x00, 0x05, 0x65}, {0x18, 0, 1, 0x67, 0xff, 0xff, 1}, {0x1c}, {0x1c, 0x85}, {0x1c, 0x45}, {0x1c, 0xc5, 1}, {0x1c, 0x05, 1, 2},
		{0x19, 0, 0, 1}, {0x1d, 1, 2}, {0x1e}, {0x1f}, {0x00}, {0x7c, 0x85}, {0x3c, 0x81}, {0x78, 0, 2, 1, 2, 0, 200, 1}, {0x61}, {0x62, 0x01}, {0x62, 0x01, 0x85}, {0x60, 0x01}, {0x60, 0x01, 0, 5, 1}, {0x60, 0x01, 0xff, 0xff}} {
		mk(96, pl, nil)
	}
	// audio (pt 97) AAC AU-header structures at extremes
	for _, pl := range [][]byte{{}, {0}, {0, 0}, {0, 16}, {0, 16, 0xff}, {0, 16, 0xff, 0xf8}, {0, 16, 0xff, 0xf8, 1, 2}, {0xff, 0xff}, {0xff, 0xff, 0, 0}, {0, 32, 0, 8, 0xff, 0xf8, 1}, {0, 7, 1}, {0, 1, 0}, {0x7f, 0xf8, 1, 2, 3}, {0, 48, 0, 8, 0, 8, 0, 8, 1, 2, 3}} {
		mk(97, pl, nil)
	}
	good := gen.VideoFrame(r, 1, 1, true, 0, 60)[9:]
	// header-level: padding count, CSRC count, extension length, version
	mk(96, good, func(b []byte) []byte { b[0] |= 0x20; b[len(b)-1] = 0xff; return b })
	mk(96, good, func(b []byte) []byte { b[0] |= 0x20; b[len(b)-1] = byte(len(b)); return b })
	mk(96, good, func(b []byte) []byte { b[0] |= 0x20; b[len(b)-1] = 0; return b })
	mk(96, nil, func(b []byte) []byte { b[0] |= 0x20; return b })
	mk(96, good, func(b []byte) []byte { b[0] |= 0x0f; return b })
	mk(96, nil, func(b []byte) []byte { b[0] |= 0x0f; return b })
	mk(96, good, func(b []byte) []byte { b[0] |= 0x10; return b })
	mk(96, []byte{0xbe, 0xde, 0xff, 0xff, 1}, func(b []byte) []byte { b[0] |= 0x10; return b })
	mk(96, []byte{0xbe, 0xde, 0, 0}, func(b []byte) []byte { b[0] |= 0x10; return b })
	mk(96, good, func(b []byte) []byte { b[0] &= 0x3f; return b })
	// header extension with every interesting word count (the length is counted in 32-bit words:
	// counts ≥ 0x4000 overflow a 16-bit byte count), short and long packets
	for _, words := range []int{1, 2, 0x3fff, 0x4000, 0x4001, 0x4002, 0x7fff, 0x8000, 0x8001, 0xc000, 0xfffe, 0xffff} {
		for _, n := range []int{4, 12, 200, 1300} {
			pl := append([]byte{0xbe, 0xde, byte(words >> 8), byte(words)}, rb(n)...)
			mk([]uint8{96, 97}[r.Intn(2)], pl, func(b []byte) []byte { b[0] |= 0x10; return b })
		}
	}
	for _, pt := range []uint8{0, 8, 14, 95, 96, 97, 98, 101, 127} {
		mk(pt, rb(r.Intn(40)), nil)
	}
	// truncation of a valid packet at every offset < 16 and short datagrams
	full := ref.BuildRtp(ref.RtpPkt{PT: 96, Seq: 1, Ts: 1, Ssrc: 1, Payload: good})
	for n := 0; n <= 16 && n <= len(full); n++ {
		out = append(out, full[:n])
	}
	for k := 0; k < 20; k++ {
		out = append(out, rb(r.Intn(64)))
	}
	// RTCP: SR truncated at every offset, other types
	sr := []byte{0x80, 200, 0, 6, 0, 0, 0, 7, 1, 2, 3, 4, 5, 6, 7, 8, 0, 0, 0, 9, 0, 0, 0, 1, 0, 0, 0, 2}
	for n := 0; n <= len(sr); n++ {
		out = append(out, sr[:n])
	}
	for t := 190; t < 215; t++ {
		out = append(out, []byte{0x80, byte(t), 0, 1, 0, 0, 0, 7})
		out = append(out, []byte{0x80, byte(t)})
	}
	return out
}

// c13RtpSequences: short ordered runs of packets on one track (consecutive sequence numbers,
// shared timestamp) whose later members are only reached through depacketiser state left by
// the earlier ones: fragments announced longer than they are, continuations without headers.
func c13RtpSequences(r *rand.Rand) [][][]byte {
	var out [][][]byte
	seq := uint16(r.Intn(60000))
	run := func(pt uint8, payloads ...[]byte) {
		ts := r.Uint32()
		var pk [][]byte
		for k, pl := range payloads {
			pk = append(pk, ref.BuildRtp(ref.RtpPkt{PT: pt, Seq: seq, Ts: ts, Ssrc: 7, Marker: k == len(payloads)-1, Payload: pl}))
			seq++
		}
		out = append(out, pk)
	}
	fill := func(n int) []byte { b := make([]byte, n); r.Read(b); return b }
	// AAC (RFC 3640 hbr): AU-headers-length 16 bits, one AU header announcing `size` bytes
	aacFirst := func(size, present int) []byte {
		return append([]byte{0, 16, byte(size >> 5), byte(size << 3)}, fill(present)...)
	}
	for _, second := range [][]byte{nil, {0}, {0, 0}, {0, 0, 1, 2, 3}, {0, 16}, {0, 16, 0xff}, {0, 8, 1}, {0xff, 0xff}, aacFirst(10, 10), aacFirst(2000, 5)} {
		run(97, aacFirst(1000, 50), second)
		run(97, aacFirst(1000, 50), second, aacFirst(1000, 900))
		run(97, aacFirst(8191, 1), second, second)
	}
	// H.264 FU-A / H.265 FU: start, odd middles, end
	for _, mid := range [][]byte{nil, {0x7c}, {0x7c, 0x05}, {0x7c, 0x45}, {0x7c, 0x85, 1}, {0x65}, {0x18, 0, 1, 0x67}} {
		run(96, append([]byte{0x7c, 0x85}, fill(20)...), mid, append([]byte{0x7c, 0x45}, fill(5)...))
		run(96, append([]byte{0x62, 0x01, 0x93}, fill(20)...), mid, append([]byte{0x62, 0x01, 0x53}, fill(5)...))
	}
	return out
}

func c13SdpVariants(r *rand.Rand) [][]byte {
	base := string(goodSdp(r))
	var out [][]byte
	add := func(s string) { out = append(out, []byte(s)) }
	add(base)
	for _, clk := range []string{"0", "1", "999", "1000", "2147483648", "-1", "abc", "", "90000/x", "4294967296"} {
		add(strings.Replace(base, "H264/90000", "H264/"+clk, 1))
		add(strings.Replace(base, "MPEG4-GENERIC/44100/2", "MPEG4-GENERIC/"+clk+"/2", 1))
		add(strings.Replace(base, "MPEG4-GENERIC/44100/2", "MPEG4-GENERIC/"+clk, 1))
	}
	lines := strings.Split(base, "\r\n")
	for i := range lines {
		var l []string
		l = append(l, lines[:i]...)
		l = append(l, lines[i+1:]...)
		add(strings.Join(l, "\r\n"))
		var d []string
		d = append(d, lines[:i+1]...)
		d = append(d, lines[i:]...)
		add(strings.Join(d, "\r\n"))
	}
	for n := 0; n < len(base); n += 1 + r.Intn(7) {
		add(base[:n])
	}
	add(strings.Replace(base, "sprop-parameter-sets=", "sprop-parameter-sets=!!!,", 1))
	add(strings.Replace(base, "sprop-parameter-sets=", "sprop-parameter-sets=,", 1))
	add(strings.Replace(base, "config=1210", "config=", 1))
	add(strings.Replace(base, "config=1210", "config=zz", 1))
	add(strings.Replace(base, "config=1210", "config=1", 1))
	add(strings.Replace(base, "config=1210", "config="+strings.Repeat("ab", 40000), 1))
	add(strings.Replace(base, "a=fmtp:96 ", "a=fmtp:96 "+strings.Repeat("x=y;", 30000), 1))
	add(strings.Replace(base, "m=video 0 RTP/AVP 96", "m=video 0 RTP/AVP", 1))
	add(strings.Replace(base, "m=video 0 RTP/AVP 96", "m=video", 1))
	add(strings.Replace(base, "m=video 0 RTP/AVP 96", "m=video 0 RTP/AVP 96 97 98 abc", 1))
	add(strings.Replace(base, "a=rtpmap:96 H264/90000", "a=rtpmap:96", 1))
	add(strings.Replace(base, "a=rtpmap:96 H264/90000", "a=rtpmap:", 1))
	add(strings.Replace(base, "a=rtpmap:96 H264/90000", "a=rtpmap:x H264/90000", 1))
	add(strings.Replace(base, "a=rtpmap:96 H264/90000", "a=rtpmap:96 H265/90000", 1))
	add(strings.Replace(base, "a=control:streamid=0", "a=control:", 1))
	add(strings.Replace(base, "a=fmtp:96", "a=fmtp:", 1))
	add(strings.Replace(base, "a=fmtp:97 ", "a=fmtp:97", 1))
	// static payload types (RFC 3551) announced without an rtpmap line, audio and video, alone and next to
	// the other track; encoding names lal knows about but has no depacketiser for
	for _, pt := range []int{0, 3, 4, 5, 8, 9, 10, 11, 12, 13, 14, 15, 18, 25, 26, 28, 31, 32, 33, 34, 35, 71, 72, 95, 96, 127} {
		add(fmt.Sprintf("v=0\r\no=- 0 0 IN IP4 127.0.0.1\r\ns=x\r\nc=IN IP4 127.0.0.1\r\nt=0 0\r\nm=audio 0 RTP/AVP %d\r\na=control:streamid=0\r\n", pt))
		add(fmt.Sprintf("v=0\r\no=- 0 0 IN IP4 127.0.0.1\r\ns=x\r\nc=IN IP4 127.0.0.1\r\nt=0 0\r\nm=video 0 RTP/AVP %d\r\na=control:streamid=0\r\n", pt))
		add(strings.Replace(strings.Replace(base, "m=audio 0 RTP/AVP 97", fmt.Sprintf("m=audio 0 RTP/AVP %d", pt), 1), "a=rtpmap:97 MPEG4-GENERIC/44100/2\r\n", "", 1))
	}
	for _, enc := range []string{"MPA/90000", "MP2T/90000", "L16/44100/2", "G722/8000", "G729/8000", "GSM/8000", "AMR/8000", "AMR-WB/16000", "VP8/90000", "VP9/90000", "AV1/90000", "MP4V-ES/90000", "JPEG/90000", "H263-1998/90000", "telephone-event/8000", "speex/16000", "vorbis/44100/2", "ac3/48000", "mpeg4-generic/48000/2", "h264/90000"} {
		add(strings.Replace(base, "MPEG4-GENERIC/44100/2", enc, 1))
		add(strings.Replace(base, "H264/90000", enc, 1))
	}
	add("")
	add("v=0\r\n")
	add("\r\n\r\n")
	for k := 0; k < 20; k++ {
		b := []byte(base)
		for f := 0; f < 1+r.Intn(4); f++ {
			b[r.Intn(len(b))] = byte(r.Intn(256))
		}
		out = append(out, b)
	}
	return out
}

type c13Input struct {
	Class  string
	Run    func(s *srv.Server) error
	Desc   string
	Always bool // kept by the quick tier's sampling of upstream scripts
}

func c13Inputs(c *fw.Ctx, i int, s *srv.Server, bgName string) []c13Input {
	r := c.Rng
	var out []c13Input
	rb := func(n int) []byte { b := make([]byte, n); r.Read(b); return b }
	url := func(name string) string { return "rtsp://" + s.RtspAddr() + "/live/" + name }
	name := fmt.Sprintf("x%d", i)
	addTcp := func(class, addr string, data []byte) {
		d := data
		out = append(out, c13Input{Class: class, Desc: fmt.Sprintf("tcp %s len=%d head=%s", addr, len(d), hex.EncodeToString(d[:min(len(d), 160)])), Run: func(s *srv.Server) error { return tcpScript(addr, d) }})
	}
	switch i % 8 {
	case 0: // RTSP publisher flows with mutated SDP / order / transport headers
		for k, sdp := range c13SdpVariants(r) {
			var b []byte
			b = append(b, rtspReq("OPTIONS", url(name), 1, nil, nil)...)
			b = append(b, rtspReq("ANNOUNCE", url(fmt.Sprintf("%s_%d", name, k)), 2, []string{"Content-Type: application/sdp"}, sdp)...)
			b = append(b, rtspReq("SETUP", url(fmt.Sprintf("%s_%d", name, k))+"/streamid=0", 3, []string{"Transport: RTP/AVP/TCP;unicast;interleaved=0-1;mode=record"}, nil)...)
			b = append(b, rtspReq("SETUP", url(fmt.Sprintf("%s_%d", name, k))+"/streamid=1", 4, []string{"Transport: RTP/AVP/TCP;unicast;interleaved=2-3;mode=record"}, nil)...)
			b = append(b, rtspReq("RECORD", url(fmt.Sprintf("%s_%d", name, k)), 5, nil, nil)...)
			for _, p := range c13RtpPackets(r)[:30] {
				b = append(b, dollar(r.Intn(4), p)...)
			}
			addTcp("rtsp/announce-sdp-mutated", s.RtspAddr(), b)
		}
	case 1: // RTSP interleaved RTP/RTCP bodies on every channel, before/after SETUP
		// an RTSP player that stays attached without having been served a key frame (DESCRIBE+SETUP, no
		// PLAY) while publishers of its stream come and go: RTP that arrives when the stream has no
		// description (publisher gone / next publisher not described yet) must not hurt
		wname := name + "_w"
		rtpOf := func(seq int, nalType byte) []byte {
			return ref.BuildRtp(ref.RtpPkt{PT: 96, Seq: uint16(seq), Ts: uint32(seq * 3000), Ssrc: 7, Marker: true, Payload: append([]byte{nalType}, rb(40)...)})
		}
		waiter := func(s *srv.Server) *ref.RtspClient {
			rc, err := ref.DialRtsp(s.RtspAddr(), 3*time.Second)
			if err != nil {
				return nil
			}
			rc.User, rc.Pass = "verif", "pa:ss" // half of the children run with RTSP authentication on
			if _, err := rc.Prepare(url(wname), false, 3*time.Second); err != nil {
				rc.Close()
				return nil
			}
			c.Count("waiting_players_attached", 1)
			return rc
		}
		for _, udp := range []bool{true, false} {
			udp := udp
			out = append(out, c13Input{Class: fmt.Sprintf("rtsp/waiting-player/publisher-leaves-under-rtp/udp=%v", udp), Desc: "publisher announces, a player attaches without PLAY, the publisher closes its command connection while its RTP is still arriving; 4 rounds",
				Run: func(s *srv.Server) error {
					var w *ref.RtspClient
					defer func() {
						if w != nil {
							w.Close()
						}
					}()
					for round := 0; round < 4; round++ {
						pc, err := ref.DialRtsp(s.RtspAddr(), 3*time.Second)
						if err != nil {
							return err
						}
						if pc.Announce(url(wname), goodSdp(r), 2, []string{"streamid=0", "streamid=1"}, udp, 3*time.Second) != nil {
							pc.Close()
							continue
						}
						send := func(seq int, t byte) {
							if udp {
								pc.SendUdp(0, false, rtpOf(seq, t))
							} else {
								pc.SendInterleaved(0, rtpOf(seq, t))
							}
						}
						for q := 0; q < 5; q++ {
							send(q, 0x41)
						}
						if w == nil {
							w = waiter(s)
						}
						stop := make(chan struct{})
						done := make(chan struct{})
						go func() {
							defer close(done)
							for q := 5; ; q++ {
								select {
								case <-stop:
									return
								default:
								}
								send(q, 0x41)
								if q%16 == 0 {
									time.Sleep(200 * time.Microsecond)
								}
							}
						}()
						time.Sleep(time.Duration(20+round*15) * time.Millisecond)
						pc.CloseCommandOnly()
						time.Sleep(60 * time.Millisecond)
						close(stop)
						<-done
						pc.Close()
						time.Sleep(30 * time.Millisecond)
					}
					return nil
				}})
		}
		out = append(out, c13Input{Class: "rtsp/waiting-player/next-publisher-pipelines-rtp", Desc: "a player stays attached (no PLAY) after its publisher left; the next publisher sends ANNOUNCE and interleaved RTP in one segment",
			Run: func(s *srv.Server) error {
				pc, err := ref.DialRtsp(s.RtspAddr(), 3*time.Second)
				if err != nil {
					return err
				}
				if pc.Announce(url(wname), goodSdp(r), 2, []string{"streamid=0", "streamid=1"}, false, 3*time.Second) != nil {
					pc.Close()
					return nil
				}
				for q := 0; q < 5; q++ {
					pc.SendInterleaved(0, rtpOf(q, 0x41))
				}
				w := waiter(s)
				pc.Close()
				time.Sleep(80 * time.Millisecond)
				for round := 0; round < 6; round++ {
					var b []byte
					b = append(b, rtspReq("ANNOUNCE", url(wname), 1, []string{"Content-Type: application/sdp"}, goodSdp(r))...)
					for q := 0; q < 20; q++ {
						b = append(b, dollar(0, rtpOf(q, 0x41))...)
					}
					b = append(b, rtspReq("SETUP", url(wname)+"/streamid=0", 2, []string{"Transport: RTP/AVP/TCP;unicast;interleaved=0-1;mode=record"}, nil)...)
					b = append(b, rtspReq("RECORD", url(wname), 3, nil, nil)...)
					for q := 20; q < 40; q++ {
						b = append(b, dollar(0, rtpOf(q, 0x41))...)
					}
					tcpScript(s.RtspAddr(), b)
				}
				if w != nil {
					w.Close()
				}
				return nil
			}})
		pk := c13RtpPackets(r)
		for _, stage := range []int{0, 1, 2, 3} {
			var b []byte
			if stage >= 1 {
				b = append(b, rtspReq("ANNOUNCE", url(name+"_s"), 2, []string{"Content-Type: application/sdp"}, goodSdp(r))...)
			}
			if stage >= 2 {
				b = append(b, rtspReq("SETUP", url(name+"_s")+"/streamid=0", 3, []string{"Transport: RTP/AVP/TCP;unicast;interleaved=0-1;mode=record"}, nil)...)
				b = append(b, rtspReq("SETUP", url(name+"_s")+"/streamid=1", 4, []string{"Transport: RTP/AVP/TCP;unicast;interleaved=2-3;mode=record"}, nil)...)
			}
			if stage >= 3 {
				b = append(b, rtspReq("RECORD", url(name+"_s"), 5, nil, nil)...)
			}
			for _, p := range pk {
				for _, ch := range []int{0, 1, 2, 3, 4, 255} {
					if r.Intn(3) == 0 {
						addTcp(fmt.Sprintf("rtsp/interleaved/stage=%d", stage), s.RtspAddr(), append(append([]byte(nil), b...), dollar(ch, p)...))
					}
				}
			}
			if stage == 3 {
				for _, sq := range c13RtpSequences(r) {
					for _, ch := range []int{0, 2} {
						d := append([]byte(nil), b...)
						for _, p := range sq {
							d = append(d, dollar(ch, p)...)
						}
						addTcp("rtsp/interleaved/stateful-sequence", s.RtspAddr(), d)
					}
				}
			}
			// player side: interleaved data sent by a subscriber
			var pb []byte
			pb = append(pb, rtspReq("DESCRIBE", url(bgName), 1, []string{"Accept: application/sdp"}, nil)...)
			pb = append(pb, rtspReq("SETUP", url(bgName)+"/streamid=0", 2, []string{"Transport: RTP/AVP/TCP;unicast;interleaved=0-1"}, nil)...)
			pb = append(pb, rtspReq("PLAY", url(bgName), 3, nil, nil)...)
			for k := 0; k < 40; k++ {
				pb = append(pb, dollar(r.Intn(5), pk[r.Intn(len(pk))])...)
			}
			addTcp("rtsp/player-sends-interleaved", s.RtspAddr(), pb)
		}
	case 2: // RTSP requests: methods × headers × order
		methods := []string{"OPTIONS", "DESCRIBE", "ANNOUNCE", "SETUP", "PLAY", "RECORD", "TEARDOWN", "GET_PARAMETER", "PAUSE", "XYZ", ""}
		transports := []string{"", "RTP/AVP/TCP;unicast;interleaved=0-1", "RTP/AVP/TCP;unicast;interleaved=", "RTP/AVP/TCP;unicast;interleaved=a-b", "RTP/AVP/TCP;unicast;interleaved=0", "RTP/AVP/TCP;unicast;interleaved=70000-70001",
			"RTP/AVP/TCP;unicast;interleaved=-1--2", "RTP/AVP/UDP;unicast;client_port=0-0", "RTP/AVP/UDP;unicast;client_port=65535-65536", "RTP/AVP/UDP;unicast;client_port=", "RTP/AVP/UDP;unicast;client_port=x", "RTP/AVP;unicast;client_port=1-2;client_port=3",
			"client_port=5000-5001", strings.Repeat("a;", 20000)}
		// each Transport header cut at every offset (bare keys, dangling '=', half ranges)
		var cutTransports []string
		for _, full := range []string{"RTP/AVP/TCP;unicast;interleaved=0-1;mode=record", "RTP/AVP/UDP;unicast;client_port=5000-5001;server_port=6000-6001;mode=record", "RTP/AVP;unicast;client_port=5000-5001"} {
			for n := 1; n <= len(full); n++ {
				cutTransports = append(cutTransports, full[:n])
			}
		}
		cutTransports = append(cutTransports, "interleaved", "client_port", "server_port", "interleaved;client_port;server_port", ";interleaved", "unicast;interleaved;")
		for _, seq := range [][]string{{"SETUP"}, {"ANNOUNCE", "SETUP", "SETUP", "RECORD"}, {"DESCRIBE", "SETUP", "SETUP", "PLAY"}} {
			for _, tr := range cutTransports {
				var b []byte
				for k, m := range seq {
					uri := url(bgName)
					if seq[0] == "ANNOUNCE" {
						uri = url(name + "_ct")
					}
					var hs []string
					var body []byte
					switch m {
					case "ANNOUNCE":
						hs, body = []string{"Content-Type: application/sdp"}, goodSdp(r)
					case "SETUP":
						uri += "/streamid=" + fmt.Sprint((k+1)%2)
						hs = []string{"Transport: " + tr}
					}
					b = append(b, rtspReq(m, uri, k+1, hs, body)...)
				}
				addTcp("rtsp/transport-cut/"+strings.Join(seq, ","), s.RtspAddr(), b)
			}
		}
		// Authorization headers cut at every offset (inside keys, quoted values, the base64 blob), on
		// DESCRIBE and ANNOUNCE; they are parsed when the server runs with authentication on
		for _, full := range []string{`Digest username="verif", realm="lal", nonce="0123456789abcdef", uri="rtsp://127.0.0.1/live/x", response="00112233445566778899aabbccddeeff", algorithm="MD5"`,
			"Basic dmVyaWY6cGE6c3M=", `Digest username=verif, realm=, nonce="`, `Digest ="", ""=", ,,`} {
			for n := 0; n <= len(full); n++ {
				for _, m := range []string{"DESCRIBE", "ANNOUNCE"} {
					if m == "ANNOUNCE" && n%4 != 0 {
						continue
					}
					var body []byte
					hs := []string{"Authorization: " + full[:n]}
					if m == "ANNOUNCE" {
						hs, body = append(hs, "Content-Type: application/sdp"), goodSdp(r)
					}
					addTcp("rtsp/authorization-cut/"+m, s.RtspAddr(), rtspReq(m, url(bgName), 2, hs, body))
				}
			}
		}
		for _, seq := range [][]string{{"SETUP"}, {"PLAY"}, {"RECORD"}, {"TEARDOWN"}, {"DESCRIBE", "DESCRIBE"}, {"ANNOUNCE", "ANNOUNCE"}, {"ANNOUNCE", "DESCRIBE"}, {"DESCRIBE", "ANNOUNCE", "SETUP", "PLAY", "RECORD"}, {"DESCRIBE", "PLAY"}, {"DESCRIBE", "SETUP", "SETUP", "PLAY", "PLAY"},
			{"ANNOUNCE", "RECORD", "SETUP"}, {"ANNOUNCE", "SETUP", "PLAY"}, {"DESCRIBE", "SETUP", "RECORD"}, {"DESCRIBE", "TEARDOWN", "PLAY"}} {
			for _, tr := range transports {
				var b []byte
				for k, m := range seq {
					uri := url(bgName)
					if m == "ANNOUNCE" || (len(seq) > 0 && seq[0] == "ANNOUNCE") {
						uri = url(name + "_q")
					}
					var hs []string
					var body []byte
					switch m {
					case "ANNOUNCE":
						hs, body = []string{"Content-Type: application/sdp"}, goodSdp(r)
					case "SETUP":
						uri += "/streamid=" + fmt.Sprint(k%2)
						hs = []string{"Transport: " + tr}
					}
					b = append(b, rtspReq(m, uri, k+1, hs, body)...)
				}
				addTcp("rtsp/sequence/"+strings.Join(seq, ","), s.RtspAddr(), b)
			}
		}
		for _, m := range methods {
			for _, uri := range []string{url(bgName), "", "*", "/", "rtsp://", "rtsp://" + s.RtspAddr(), "rtsp://" + s.RtspAddr() + "/", "rtsp://" + s.RtspAddr() + "/live", "http://x/y", "rtsp://[::1", "rtsp://a:b:c/d", "rtsp://u:p@" + s.RtspAddr() + "/live/" + bgName, "rtsp://" + s.RtspAddr() + "/live/" + strings.Repeat("n", 5000), "rtsp://h/a?b?c", "%zz"} {
				for _, hs := range [][]string{nil, {"CSeq: x"}, {"Content-Length: -1"}, {"Content-Length: 99999999999"}, {"Content-Length: 10"}, {"Authorization: Basic"}, {"Authorization: Digest"}, {"Authorization: Basic !!!"}, {"Authorization: Digest username="}, {"Authorization: Digest " + strings.Repeat("a=\"b\",", 3000)}, {":"}, {"NoColon"}, {strings.Repeat("H: v\r\n", 500) + "Z: z"}} {
					var sb strings.Builder
					fmt.Fprintf(&sb, "%s %s RTSP/1.0\r\n", m, uri)
					for _, h := range hs {
						sb.WriteString(h + "\r\n")
					}
					sb.WriteString("\r\n")
					if r.Intn(4) == 0 {
						addTcp("rtsp/request/"+m, s.RtspAddr(), []byte(sb.String()))
					}
				}
			}
		}
		for k := 0; k < 60; k++ {
			addTcp("rtsp/raw-bytes", s.RtspAddr(), rb(r.Intn(300)))
		}
		addTcp("rtsp/raw-bytes", s.RtspAddr(), []byte("$"))
		addTcp("rtsp/raw-bytes", s.RtspAddr(), []byte{'$', 0, 0xff, 0xff, 1, 2})
		addTcp("rtsp/raw-bytes", s.RtspAddr(), []byte("OPTIONS"))
		addTcp("rtsp/raw-bytes", s.RtspAddr(), []byte("OPTIONS * RTSP/1.0\r\nCSeq"))
	case 3: // RTP/RTCP datagrams to the UDP ports of live RTSP pub and sub sessions
		pk := c13RtpPackets(r)
		out = append(out, c13Input{Class: "udp/rtp-rtcp-to-pub-session", Desc: fmt.Sprintf("%d hostile datagrams to the RTP and RTCP ports of a UDP RTSP publisher", len(pk)*2), Run: func(s *srv.Server) error {
			rc, err := ref.DialRtsp(s.RtspAddr(), 5*time.Second)
			if err != nil {
				return err
			}
			defer rc.Close()
			if err := rc.Announce(url(name+"_u"), goodSdp(r), 2, []string{"streamid=0", "streamid=1"}, true, 5*time.Second); err != nil {
				return nil // refused: nothing to attack
			}
			for _, p := range pk {
				for tr := 0; tr < 2; tr++ {
					rc.SendUdp(tr, false, p)
					rc.SendUdp(tr, true, p)
				}
			}
			for _, sq := range c13RtpSequences(r) {
				for tr := 0; tr < 2; tr++ {
					for _, p := range sq {
						rc.SendUdp(tr, false, p)
					}
				}
				time.Sleep(time.Millisecond)
			}
			time.Sleep(30 * time.Millisecond)
			return nil
		}})
		out = append(out, c13Input{Class: "udp/rtcp-to-partially-set-up-pub-session", Desc: "sender reports for either track (SSRC 0 = never seen, 7, random) to the RTCP port of a UDP RTSP publisher that set up only one of its two tracks", Run: func(s *srv.Server) error {
			for only := 0; only < 2; only++ {
				rc, err := ref.DialRtsp(s.RtspAddr(), 5*time.Second)
				if err != nil {
					return err
				}
				ctl := []string{"streamid=0", "streamid=1"}[only : only+1]
				if err := rc.Announce(url(fmt.Sprintf("%s_p%d", name, only)), goodSdp(r), 1, ctl, true, 5*time.Second); err != nil {
					rc.Close()
					continue
				}
				// media of both payload types arrives on the one RTP port that exists (lal dispatches
				// by payload type, not by socket), then sender reports for each SSRC
				seq := uint16(1)
				for _, ssrc := range []uint32{0, 7, 0x2222, r.Uint32()} {
					sr := []byte{0x80, 200, 0, 6, byte(ssrc >> 24), byte(ssrc >> 16), byte(ssrc >> 8), byte(ssrc), 1, 2, 3, 4, 5, 6, 7, 8, 0, 0, 0, 9, 0, 0, 0, 1, 0, 0, 0, 2}
					rc.SendUdp(0, true, sr)
					for _, pt := range []uint8{96, 97} {
						pl := gen.VideoFrame(r, 1, 1, true, 0, 60)[9:]
						if pt == 97 {
							pl = append([]byte{0, 16, 0, 20 << 3}, make([]byte, 20)...)
						}
						for k := 0; k < 3; k++ {
							rc.SendUdp(0, false, ref.BuildRtp(ref.RtpPkt{PT: pt, Seq: seq, Ts: uint32(seq) * 1000, Ssrc: ssrc, Marker: true, Payload: pl}))
							seq++
						}
						time.Sleep(2 * time.Millisecond)
						rc.SendUdp(0, true, sr)
					}
				}
				time.Sleep(30 * time.Millisecond)
				rc.Close()
			}
			return nil
		}})
		out = append(out, c13Input{Class: "udp/rtp-rtcp-to-sub-session", Desc: "hostile datagrams to the server ports of a UDP RTSP subscriber", Run: func(s *srv.Server) error {
			rc, err := ref.DialRtsp(s.RtspAddr(), 5*time.Second)
			if err != nil {
				return err
			}
			defer rc.Close()
			if _, err := rc.Play(url(bgName), true, 5*time.Second); err != nil {
				return nil
			}
			for _, p := range pk {
				for tr := 0; tr < 2; tr++ {
					rc.SendUdp(tr, false, p)
					rc.SendUdp(tr, true, p)
				}
			}
			time.Sleep(30 * time.Millisecond)
			return nil
		}})
	case 4: // GB28181 PS over RTP (UDP and TCP)
		for _, tcp := range []bool{false, true} {
			tcp := tcp
			var ps [][]byte
			good := append(ref.PsPackHeader(1000), ref.PsSystemHeader(true, true)...)
			good = append(good, ref.PsMap(0x1b, 0x0f)...)
			good = append(good, ref.PsPes(0xE0, 1000, 1000, false, append([]byte{0, 0, 0, 1}, gen.AvcSps...), 65000)...)
			good = append(good, ref.PsPes(0xE0, 1000, 1000, true, append([]byte{0, 0, 0, 1, 0x65}, rb(50)...), 65000)...)
			good = append(good, ref.PsPes(0xC0, 1000, 1000, false, append([]byte{0xff, 0xf1, 0x50, 0x80, 0x02, 0x1f, 0xfc}, rb(9)...), 65000)...)
			ps = append(ps, good)
			for n := 0; n < len(good); n += 1 + r.Intn(5) {
				ps = append(ps, good[:n])
			}
			for k := 0; k < 120; k++ {
				b := append([]byte(nil), good...)
				for f := 0; f < 1+r.Intn(4); f++ {
					b[r.Intn(len(b))] = []byte{0, 0xff, byte(r.Intn(256))}[r.Intn(3)]
				}
				ps = append(ps, b)
			}
			for _, code := range []byte{0xBA, 0xBB, 0xBC, 0xBD, 0xBE, 0xBF, 0xC0, 0xE0, 0xF0, 0xF1, 0xFF, 0xB9, 0x00} {
				for _, tail := range [][]byte{nil, {0}, {0, 0}, {0xff, 0xff}, {0, 1, 0}, {0, 3, 0x80, 0xc0, 0}, {0, 8, 0x80, 0x80, 5, 0x21}, {0xff, 0xff, 0x80, 0xc0, 0xff}, rb(20)} {
					ps = append(ps, append([]byte{0, 0, 1, code}, tail...))
				}
			}
			for _, b := range [][]byte{{}, {0}, {0, 0}, {0, 0, 1}, {0, 0, 1, 0xe0}, {1, 2, 3}} {
				ps = append(ps, b)
			}
			// after a valid pack header + system header + PSM (so that the elementary streams are
			// known): PES packets whose length fields contradict each other or the data
			prefix := append(ref.PsPackHeader(2000), ref.PsSystemHeader(true, true)...)
			prefix = append(prefix, ref.PsMap(0x1b, 0x0f)...)
			for _, sid := range []byte{0xE0, 0xC0, 0xBD} {
				for _, plen := range []int{0, 1, 2, 3, 4, 8, 13, 100, 0xffff} {
					for _, phdl := range []int{0, 1, 5, 10, 200, 255} {
						for _, flags := range []byte{0x00, 0x80, 0xc0, 0x40} {
							for _, have := range []int{0, 1, 3, 5, 12, 40} {
								if r.Intn(4) != 0 {
									continue
								}
								b := append([]byte(nil), prefix...)
								b = append(b, 0, 0, 1, sid, byte(plen>>8), byte(plen), 0x80, flags, byte(phdl))
								b = append(b, rb(have)...)
								ps = append(ps, b)
								// and followed by a well-formed PES, so that parsing goes on after it
								ps = append(ps, append(b, ref.PsPes(sid, 3000, 3000, false, append([]byte{0, 0, 0, 1, 0x65}, rb(20)...), 65000)...))
							}
						}
					}
				}
			}
			// program stream maps with inconsistent lengths
			for _, l := range []int{0, 1, 4, 6, 9, 10, 0xffff} {
				for _, il := range []int{0, 1, 0xffff} {
					for _, el := range []int{0, 3, 4, 5, 0xffff} {
						b := append([]byte(nil), ref.PsPackHeader(2000)...)
						b = append(b, 0, 0, 1, 0xBC, byte(l>>8), byte(l), 0xe0, 0xff, byte(il>>8), byte(il), byte(el>>8), byte(el), 0x1b, 0xe0, 0, 0, 0x0f, 0xc0, 0, 0, 1, 2, 3, 4)
						ps = append(ps, b[:len(b)-r.Intn(8)])
					}
				}
			}
			list := ps
			out = append(out, c13Input{Class: fmt.Sprintf("gb28181/ps/tcp=%v", tcp), Desc: fmt.Sprintf("%d hostile PS bodies over RTP", len(list)), Run: func(s *srv.Server) error {
				port := srv.FreeUdpPort()
				if tcp {
					port = srv.FreePort()
				}
				body, _ := json.Marshal(map[string]interface{}{"stream_name": fmt.Sprintf("%s_ps_%v", name, tcp), "port": port, "timeout_ms": 3000, "is_tcp_flag": map[bool]int{false: 0, true: 1}[tcp]})
				st, resp, err := srv.HttpPostJson(s.ApiAddr(), "/api/ctrl/start_rtp_pub", string(body), 5*time.Second)
				if err != nil {
					return err
				}
				if st != 200 || !strings.Contains(string(resp), `"error_code":0`) {
					return nil
				}
				var conn net.Conn
				if tcp {
					conn, err = net.DialTimeout("tcp", fmt.Sprintf("127.0.0.1:%d", port), 2*time.Second)
				} else {
					conn, err = net.Dial("udp", fmt.Sprintf("127.0.0.1:%d", port))
				}
				if err != nil {
					return nil
				}
				defer conn.Close()
				seq := uint16(1)
				send := func(pkt []byte) {
					if tcp {
						conn.Write(append([]byte{byte(len(pkt) >> 8), byte(len(pkt))}, pkt...))
					} else {
						conn.Write(pkt)
					}
				}
				for _, p := range list {
					send(ref.BuildRtp(ref.RtpPkt{PT: 96, Seq: seq, Ts: uint32(seq) * 3600, Ssrc: 9, Payload: p, Marker: true}))
					seq++
				}
				for _, p := range c13RtpPackets(r) {
					send(p)
				}
				if tcp {
					conn.Write([]byte{0, 0})
					conn.Write([]byte{0xff, 0xff, 1, 2, 3})
				}
				time.Sleep(20 * time.Millisecond)
				return nil
			}})
		}
		// reordering, gaps, duplicates and jumps in the RTP sequence numbers, mixed with bodies the PS
		// parser rejects: the jitter list's bookkeeping (size, done sequence) across resets
		for _, tcp := range []bool{false, true} {
			tcp := tcp
			goodB := append(ref.PsPackHeader(1000), ref.PsSystemHeader(true, true)...)
			goodB = append(goodB, ref.PsMap(0x1b, 0x0f)...)
			goodB = append(goodB, ref.PsPes(0xE0, 1000, 1000, true, append([]byte{0, 0, 0, 1, 0x65}, rb(30)...), 65000)...)
			bodies := [][]byte{goodB, ref.PsPackHeader(1000), {0, 0, 2, 0, 1, 2, 3, 4}, {9, 9, 9, 9, 9, 9}, {0, 0, 1, 0xE0, 0xff, 0xff, 0x80, 0xc0, 0xff}, {}}
			type pk struct {
				seq  uint16
				body []byte
			}
			var prog []pk
			base := uint16(r.Intn(65536))
			for ep := 0; ep < 14; ep++ {
				n := []int{3, 40, 100, 300, 999, 1023, 1024, 1100}[r.Intn(8)]
				run := bodies[r.Intn(len(bodies))]
				prog = append(prog, pk{base, goodB})
				for k := 0; k < n; k++ { // hole at base+1
					prog = append(prog, pk{base + 2 + uint16(k), run})
					if r.Intn(50) == 0 {
						prog = append(prog, pk{base + 2 + uint16(r.Intn(k+1)), run}) // duplicate
					}
				}
				if r.Intn(4) != 0 {
					prog = append(prog, pk{base + 1, bodies[r.Intn(len(bodies))]}) // fill the hole
				}
				switch r.Intn(3) {
				case 0:
					base += uint16(n) + 2
				case 1:
					base += uint16(2000 + r.Intn(30000))
				default:
					base -= uint16(r.Intn(3000))
				}
			}
			out = append(out, c13Input{Class: fmt.Sprintf("gb28181/reorder/tcp=%v", tcp), Desc: fmt.Sprintf("%d RTP packets with holes, duplicates, jumps and rejected bodies", len(prog)), Run: func(s *srv.Server) error {
				port := srv.FreeUdpPort()
				if tcp {
					port = srv.FreePort()
				}
				body, _ := json.Marshal(map[string]interface{}{"stream_name": fmt.Sprintf("%s_psr_%v", name, tcp), "port": port, "timeout_ms": 3000, "is_tcp_flag": map[bool]int{false: 0, true: 1}[tcp]})
				st, resp, err := srv.HttpPostJson(s.ApiAddr(), "/api/ctrl/start_rtp_pub", string(body), 5*time.Second)
				if err != nil {
					return err
				}
				if st != 200 || !strings.Contains(string(resp), `"error_code":0`) {
					return nil
				}
				var conn net.Conn
				if tcp {
					conn, err = net.DialTimeout("tcp", fmt.Sprintf("127.0.0.1:%d", port), 2*time.Second)
				} else {
					conn, err = net.Dial("udp", fmt.Sprintf("127.0.0.1:%d", port))
				}
				if err != nil {
					return nil
				}
				defer conn.Close()
				for k, p := range prog {
					pkt := ref.BuildRtp(ref.RtpPkt{PT: 96, Seq: p.seq, Ts: uint32(p.seq) * 3600, Ssrc: 9, Payload: p.body, Marker: true})
					if tcp {
						conn.Write(append([]byte{byte(len(pkt) >> 8), byte(len(pkt))}, pkt...))
					} else {
						conn.Write(pkt)
						if k%100 == 99 {
							time.Sleep(2 * time.Millisecond) // keep the UDP receive buffer from overflowing
						}
					}
				}
				time.Sleep(30 * time.Millisecond)
				return nil
			}})
		}
	case 5: // HTTP requests to the FLV/TS/HLS and API listeners
		paths := []string{"/", "/live", "/live/", "/live/x", "/live/x.flv", "/live/x.ts", "/live/.flv", "/live/x.flv?", "/live/x.flv?lal_secret", "/live/x.flv?%zz", "/live/" + strings.Repeat("a", 9000) + ".flv", "/hls/", "/hls/x.m3u8", "/hls/x/playlist.m3u8", "/hls/x/record.m3u8",
			"/hls/x-1-2.ts", "/hls/x/x-1-2.ts", "/hls/..-1-2.ts", "/hls/../../etc/passwd", "/hls/%2e%2e/%2e%2e/x.ts", "/hls/x.ts", "/hls/-.ts", "/hls/--.ts", "/hls/.m3u8", "/hls/a/b/c/d.m3u8", "/hls//x.m3u8", "/hls/x.m3u8?session_id=", "/hls/x.mp4", "*", "", "http://h/live/x.flv"}
		for _, p := range paths {
			for _, extra := range []string{"", "Upgrade: websocket\r\nConnection: Upgrade\r\nSec-WebSocket-Key: x\r\n", "Upgrade: websocket\r\n", "Connection: Upgrade\r\nUpgrade: websocket\r\nSec-WebSocket-Key: " + strings.Repeat("k", 5000) + "\r\n", "Content-Length: -5\r\n", "Range: bytes=0-\r\n"} {
				for _, ver := range []string{"HTTP/1.1", "HTTP/1.0", "HTTP/9.9", ""} {
					if r.Intn(3) != 0 {
						continue
					}
					addTcp("http/stream-listener", s.HttpAddr(), []byte("GET "+p+" "+ver+"\r\nHost: x\r\n"+extra+"\r\n"))
				}
			}
		}
		for k := 0; k < 40; k++ {
			addTcp("http/raw-bytes", s.HttpAddr(), rb(r.Intn(200)))
		}
		apis := []string{"/api/stat/group", "/api/stat/all_group", "/api/stat/lal_info", "/api/ctrl/start_relay_pull", "/api/ctrl/stop_relay_pull", "/api/ctrl/kick_session", "/api/ctrl/start_rtp_pub", "/api/ctrl/add_ip_blacklist", "/api/nope", "/"}
		bodies := []string{"", "{", "{}", "[]", "null", "1", `"s"`, `{"stream_name":1}`, `{"stream_name":null}`, `{"stream_name":"` + strings.Repeat("s", 70000) + `"}`, `{"stream_name":"a","session_id":[]}`, `{"url":"rtmp://"}`, `{"url":"rtmp://h/a?b?c","stream_name":"q1"}`,
			`{"url":"rtsp://127.0.0.1:1/a/b","stream_name":"q2","pull_retry_num":99999999999999999999}`, `{"url":"","stream_name":"q3","pull_timeout_ms":-1,"auto_stop_pull_after_no_out_ms":-5}`, `{"url":"http://x/y.flv","stream_name":"q4"}`, `{"url":"rtmp://127.0.0.1:1/live/q5","stream_name":"q5","rtsp_mode":7}`,
			`{"stream_name":"q6","port":-1}`, `{"stream_name":"q7","port":70000,"is_tcp_flag":1}`, `{"stream_name":"q8","port":1,"timeout_ms":-1}`, `{"ip":"","duration_sec":-1}`, `{"ip":"999.1.1.1","duration_sec":1e99}`, `{"stream_name":"a","session_id":"RTMPPUBSUB1"}`, `{"stream_name":"../../x","port":0}`}
		for _, a := range apis {
			for _, b := range bodies {
				for _, m := range []string{"POST", "GET"} {
					if r.Intn(2) == 0 {
						continue
					}
					q := ""
					if m == "GET" && r.Intn(2) == 0 {
						q = "?stream_name=" + name + "&x=%zz"
					}
					addTcp("http/api"+a, s.ApiAddr(), []byte(fmt.Sprintf("%s %s%s HTTP/1.1\r\nHost: x\r\nContent-Type: application/json\r\nContent-Length: %d\r\nConnection: close\r\n\r\n%s", m, a, q, len(b), b)))
				}
			}
		}
	case 6: // WebSocket-RTSP and WebSocket-FLV framing
		wsAddr := fmt.Sprintf("127.0.0.1:%d", s.Ports.WsRtsp)
		hs := "GET /live/" + bgName + " HTTP/1.1\r\nHost: x\r\nUpgrade: websocket\r\nConnection: Upgrade\r\nSec-WebSocket-Key: dGhlIHNhbXBsZSBub25jZQ==\r\nSec-WebSocket-Version: 13\r\nSec-WebSocket-Protocol: rtsp\r\n\r\n"
		mask := [4]byte{1, 2, 3, 4}
		addWs := func(class, addr, handshake string, rest []byte) {
			addTcp(class, addr, append([]byte(handshake), rest...))
			rr := rest
			out = append(out, c13Input{Class: class + "/staged", Desc: fmt.Sprintf("tcp %s handshake, then after the reply len=%d head=%s", addr, len(rr), hex.EncodeToString(rr[:min(len(rr), 160)])), Run: func(s *srv.Server) error { return tcpStaged(addr, []byte(handshake), rr) }})
		}
		opt := rtspReq("OPTIONS", url(bgName), 1, nil, nil)
		desc := rtspReq("DESCRIBE", url(bgName), 2, []string{"Accept: application/sdp"}, nil)
		frames := [][]byte{ref.WsEncode(2, true, opt, &mask), ref.WsEncode(2, true, desc, &mask), ref.WsEncode(1, true, opt, &mask), ref.WsEncode(2, true, opt, nil), ref.WsEncode(0, false, opt, &mask), ref.WsEncode(8, true, nil, &mask), ref.WsEncode(9, true, []byte("p"), &mask),
			{0x82, 0xff, 0x7f, 0xff, 0xff, 0xff, 0xff, 0xff, 0xff, 0xff, 1, 2, 3, 4}, {0x82, 0xff, 0xff, 0xff, 0xff, 0xff, 0xff, 0xff, 0xff, 0xff, 1, 2, 3, 4}, {0x82, 0xfe, 0xff, 0xff, 1, 2, 3, 4, 5}, {0x82, 0x7f, 0, 0, 0, 1, 0, 0, 0, 0}, {0x82, 0x7e}, {0x82}, {0x82, 0x80},
			ref.WsEncode(2, true, []byte("garbage\r\n\r\n"), &mask), ref.WsEncode(2, true, nil, &mask), ref.WsEncode(2, true, []byte("$\x00\x00\x01x"), &mask), ref.WsEncode(2, true, rb(500), &mask)}
		for _, f := range frames {
			addWs("ws-rtsp/frame", wsAddr, hs, f)
			addWs("ws-rtsp/frame-after-options", wsAddr, hs, append(append([]byte(nil), ref.WsEncode(2, true, opt, &mask)...), f...))
			addWs("ws-rtsp/frame-after-describe", wsAddr, hs, append(append([]byte(nil), ref.WsEncode(2, true, desc, &mask)...), f...))
		}
		setup := rtspReq("SETUP", url(bgName)+"/streamid=0", 3, []string{"Transport: RTP/AVP/TCP;unicast;interleaved=0-1"}, nil)
		play := rtspReq("PLAY", url(bgName), 4, nil, nil)
		full := append([]byte(nil), ref.WsEncode(2, true, desc, &mask)...)
		full = append(full, ref.WsEncode(2, true, setup, &mask)...)
		full = append(full, ref.WsEncode(2, true, play, &mask)...)
		addWs("ws-rtsp/full-play", wsAddr, hs, full)
		for n := 0; n < len(hs); n += 9 {
			addTcp("ws-rtsp/handshake-truncated", wsAddr, []byte(hs[:n]))
		}
		fh := "GET /live/" + bgName + ".flv HTTP/1.1\r\nHost: x\r\nUpgrade: websocket\r\nConnection: Upgrade\r\nSec-WebSocket-Key: dGhlIHNhbXBsZSBub25jZQ==\r\n\r\n"
		// 64-bit payload length forms, honest and not
		for _, l := range []uint64{0, 1, 125, 126, 65535, 65536, 1 << 20, 1 << 31, 1 << 32, 1 << 40, 1 << 62, 1 << 63, 0xffffffffffffffff} {
			for _, masked := range []byte{0x80, 0x00} {
				h := []byte{0x82, masked | 127, byte(l >> 56), byte(l >> 48), byte(l >> 40), byte(l >> 32), byte(l >> 24), byte(l >> 16), byte(l >> 8), byte(l)}
				if masked != 0 {
					h = append(h, 1, 2, 3, 4)
				}
				addWs("ws-rtsp/len64", wsAddr, hs, append(append([]byte(nil), h...), rb(300)...))
				addWs("ws-flv/len64", s.HttpAddr(), fh, append(append([]byte(nil), h...), rb(300)...))
			}
		}
		for _, l := range []int{0, 1, 125, 126, 300, 65535} {
			h := []byte{0x82, 0x80 | 126, byte(l >> 8), byte(l), 1, 2, 3, 4}
			addWs("ws-rtsp/len16", wsAddr, hs, append(append([]byte(nil), h...), rb(300)...))
		}
		addTcp("ws-rtsp/raw", wsAddr, rb(200))
		addTcp("ws-rtsp/no-key", wsAddr, []byte("GET / HTTP/1.1\r\nUpgrade: websocket\r\n\r\n"))
		// ws-flv on the http listener
		for _, f := range frames {
			addWs("ws-flv/client-frame", s.HttpAddr(), fh, f)
		}
	case 7: // upstream replies while lal is the client
		out = append(out, c13UpstreamInputs(c, i, name)...)
	}
	return out
}

func init() {
	fw.Register(&fw.Prop{
		ID: "C13",
		NumCases: func(tier string, seed int64) int {
			if tier == "thorough" {
				return 640
			}
			return 64
		},
		CaseTimeout: func(string) time.Duration { return 10 * time.Minute },
		Rule: "sub-inputs per surface against the whole in-process server: RTSP command connection (ANNOUNCE with ≈250 mutated SDP bodies — clock rates 0/1/999/2^31, removed/duplicated lines, truncations, static payload types without rtpmap, encoding names without a depacketiser, broken sprop/config/fmtp —, interleaved `$` frames with hostile RTP/RTCP bodies on every channel before/after SETUP/RECORD and from players, method sequences out of order with 14 Transport header variants, three Transport headers cut at every offset, Authorization headers cut at every offset (half of the child processes run the server with RTSP Digest authentication on), request lines × URIs × header oddities, raw bytes), UDP datagrams (RTP with padding/CSRC/extension/STAP/FU/AU-header extremes, truncated at every offset, RTCP SR truncated at every offset) to the RTP/RTCP ports of live UDP pub and sub sessions, GB28181 PS bodies (valid PS truncated/bit-mutated, every start code with short tails) over UDP and TCP framing, HTTP requests to the FLV/TS/HLS listener (path × Upgrade × version oddities) and every HTTP-API endpoint with malformed/typed-wrong JSON, WebSocket-RTSP / WebSocket-FLV frames (64-bit lengths, masks, opcodes, truncated handshakes), and scripted upstream replies while lal is RTMP pull / RTSP pull / HTTP-FLV pull client. " +
			"an RTSP player kept attached without PLAY while UDP / interleaved publishers of its stream leave with RTP still arriving, and while the next publisher pipelines RTP behind its ANNOUNCE; " +
			"monitors: process liveness (crash signature + resumption after the crashing input), a canary (RTMP publish+play and an RTSP DESCRIBE of a background stream) after every group, and an idle-CPU monitor at the same points: with no input in flight the process's own CPU time (getrusage) over 0.2 s and, if above half a core, over two further 0.7 s windows must stay below half a core - a session that spins instead of ending is reported with the running lal functions. cell = surface/input class.",
		Assumptions: []string{"an error reply, a closed session or a kept-open session are all fine; only process death / failing canary is judged"},
		MinCells:    12,
		// the surface of a case is chosen by i mod 8: with 16 children every hostile-upstream case (thousands of scripted
		// replies each) would land in the same two children; 15 spreads them
		Batches: func(string) int { return 15 },
		Run: func(c *fw.Ctx, i int) {
			s := crashServer(c, c13ConfFor(i))
			if s == nil {
				return
			}
			bg := c13Background(c, s)
			ins := c13Inputs(c, i, s, bg)
			for k, in := range ins {
				if k < c.SubStart {
					continue
				}
				c.Sub(k)
				c.Describe("sub=%d class=%s %s", k, in.Class, in.Desc)
				if err := in.Run(s); err != nil {
					if strings.Contains(err.Error(), "connection refused") {
						c.Violate("canary/listener-refuses", fmt.Sprintf("listener refuses connections: %v (class %s)", err, in.Class), nil)
						return
					}
				}
				c.Eval(1)
				c.Cell("%s", in.Class)
				if k%80 == 79 {
					if err := c13Canary(s, bg, fmt.Sprintf("c13c%d_%d", i, k)); err != nil {
						c.Violate("canary/stopped-serving", fmt.Sprintf("%v (after class %s)", err, in.Class), goroutineDump())
						return
					}
					if c13Spin(c, in.Class) {
						return
					}
				}
			}
			if err := c13Canary(s, bg, fmt.Sprintf("c13c%d_end", i)); err != nil {
				c.Violate("canary/stopped-serving", err.Error(), goroutineDump())
			}
			if len(ins) > 0 {
				c13Spin(c, ins[len(ins)-1].Class)
			}
			if i < 8 && len(ins) > 0 {
				c.Sample(map[string]interface{}{"class": ins[len(ins)/2].Class, "desc": trunc(ins[len(ins)/2].Desc, 300), "inputs_in_case": len(ins)})
			}
		},
	})
}

// c13Spin: "malformed input is answered with an error or by closing that session only" - a session that neither ends
// nor waits but keeps a core busy for ever is neither. With no input in flight the process (lal and the idle harness)
// must be nearly idle: its own CPU time (getrusage, so machine load can only lower it) is sampled over a short window
// and, if more than half a core is busy, over two longer ones. Only a sustained spin is reported; the witness names
// the lal functions that are running or runnable at that moment.
func c13Spin(c *fw.Ctx, after string) bool {
	busy := func(w time.Duration) float64 {
		var a, b syscall.Rusage
		syscall.Getrusage(syscall.RUSAGE_SELF, &a)
		t0 := time.Now()
		time.Sleep(w)
		syscall.Getrusage(syscall.RUSAGE_SELF, &b)
		cpu := time.Duration(b.Utime.Nano()+b.Stime.Nano()) - time.Duration(a.Utime.Nano()+a.Stime.Nano())
		return float64(cpu) / float64(time.Since(t0))
	}
	c.Count("idle_cpu_samples", 1)
	if busy(200*time.Millisecond) < 0.5 {
		return false
	}
	b1 := busy(700 * time.Millisecond)
	b2 := busy(700 * time.Millisecond)
	if b1 < 0.5 || b2 < 0.5 {
		return false
	}
	dump := goroutineDump()
	hot := map[string]int{}
	for _, g := range strings.Split(dump, "\n\n") {
		lines := strings.Split(g, "\n")
		if len(lines) < 2 || !(strings.Contains(lines[0], "[running") || strings.Contains(lines[0], "[runnable")) {
			continue
		}
		for _, l := range lines[1:] {
			if strings.HasPrefix(l, "github.com/q191201771/") {
				f := l
				if k := strings.LastIndex(f, "("); k > 0 {
					f = f[:k]
				}
				hot[strings.TrimPrefix(f, "github.com/q191201771/")]++
				break
			}
		}
	}
	var names []string
	for f := range hot {
		names = append(names, f)
	}
	sort.Strings(names)
	where := "unknown"
	if len(names) > 0 {
		where = names[0]
	}
	c.Violate("spin/"+where, fmt.Sprintf("with no input in flight the process keeps %.1f / %.1f cores busy (two 0.7 s windows, own CPU time); running or runnable lal functions: %v (after class %s)", b1, b2, hot, after), dump)
	return true
}

var c13Bg *ref.RtmpPublisher
var c13BgName string

// c13Background keeps one healthy RTMP publisher alive per child so that RTSP DESCRIBE / PLAY
// and HTTP subscribers have a real stream to attach to.
func c13Background(c *fw.Ctx, s *srv.Server) string {
	crashSrvMu.Lock()
	defer crashSrvMu.Unlock()
	if c13Bg != nil && !c13Bg.PeerClosed() {
		return c13BgName
	}
	name := fmt.Sprintf("bg%d", time.Now().UnixNano()%1000000)
	pub, err := ref.StartRtmpPublisher(s.RtmpAddr(), "live", name, 5*time.Second)
	if err != nil {
		return name
	}
	r := rand.New(rand.NewSource(5))
	msgs := gen.Build(r, 2, gen.Shape{Video: true, Audio: true, Meta: true, Gops: 3, GopLen: 5, AudioPerVid: 1})
	go func() {
		k := 0
		for !pub.PeerClosed() {
			m := msgs[k%len(msgs)]
			ts := uint32(k * 20)
			if pub.RC.Send(ref.RtmpMsg{Csid: csidFor(m.Type), TypeID: m.Type, StreamID: pub.Msid, Ts: ts, Payload: m.Payload}, 0) != nil {
				return
			}
			k++
			time.Sleep(5 * time.Millisecond)
		}
	}()
	c13Bg, c13BgName = pub, name
	time.Sleep(100 * time.Millisecond)
	return name
}

func c13Canary(s *srv.Server, bg, name string) error {
	if err := rtmpCanary(s, name); err != nil {
		return err
	}
	rc, err := ref.DialRtsp(s.RtspAddr(), 5*time.Second)
	if err != nil {
		return fmt.Errorf("rtsp canary dial: %w", err)
	}
	defer rc.Close()
	r, err := rc.Request("OPTIONS", "rtsp://"+s.RtspAddr()+"/live/"+bg, nil, nil, 5*time.Second)
	if err != nil || r.Status != 200 {
		return fmt.Errorf("rtsp canary OPTIONS: %v", err)
	}
	st, _, _, err := srv.HttpGet(s.ApiAddr(), "/api/stat/lal_info", 5*time.Second)
	if err != nil || st != 200 {
		return fmt.Errorf("http-api canary: status %d err %v", st, err)
	}
	return nil
}

var _ = io.EOF
