package props

import (
	"encoding/json"
	"fmt"
	"math/rand"
	"net"
	"os"
	"path/filepath"
	"regexp"
	"runtime"
	"sort"
	"strings"
	"sync"
	"sync/atomic"
	"time"

	"github.com/q191201771/lal/pkg/base"
	"github.com/q191201771/lal/pkg/logic"

	"lalverif/fw"
	"lalverif/gen"
	"lalverif/ref"
	"lalverif/srv"
)

// C20 — concurrent sessions, API calls, ticks and shutdown are race- and deadlock-free.
//
// The worker is built with -race. One case = one child process = one lal server (lal's logger
// and several package variables are process globals, so a second server in the same process
// would race with the first by construction of the harness, not of lal). GORACE keeps going
// after a report and does not change the exit code; the driver parses the child's log.

type c20Stats struct {
	ops map[string]*int64
	mu  sync.Mutex
}

func (s *c20Stats) inc(k string) {
	s.mu.Lock()
	p := s.ops[k]
	if p == nil {
		p = new(int64)
		s.ops[k] = p
	}
	s.mu.Unlock()
	atomic.AddInt64(p, 1)
}

// c20Borrow: the precisely scheduled whole-server scenarios of the other checks, run under the race
// detector. The C20 stress is random churn; these are the schedules the churn meets only by luck
// (a relay pull overtaken by a publisher, a kick between two handshake steps, a consumer stalled
// past its queue, an input ending at a chosen frame …). Only what C20 is about is taken from
// them: race reports and fatal errors in the child's log. Their behavioural verdicts belong to
// their own check (built without -race, on timing the race build does not have) and are only
// counted.
var c20BorrowFrom = []string{"C03", "C16", "C17", "C01", "C15", "C03", "C02", "C16", "C14", "C17", "C06", "C07"}

func c20NumStress(tier string) int {
	if tier == "thorough" {
		return 64
	}
	return 16
}

func c20Borrowed(c *fw.Ctx, j int) {
	c.RestartChild = true
	src := c20BorrowFrom[j%len(c20BorrowFrom)]
	p := fw.Get(src)
	if p == nil {
		c.Inconclusive("no property %s", src)
		return
	}
	n := p.NumCases("quick", c.Seed)
	idx := c.Rng.Intn(n)
	procs := []int{4, 16}[j%2]
	runtime.GOMAXPROCS(procs)
	c.Describe("borrowed scenario %s quick case %d (seed %d) under -race, GOMAXPROCS=%d", src, idx, c.Seed, procs)
	evals, viol, inc, finished := c.Borrow(src, "quick", idx, 150*time.Second)
	c.Cell("borrowed/%s", src)
	c.Count("borrowed_cases", 1)
	c.Count("borrowed_oracle_evaluations", evals)
	if !finished {
		c.Count("borrowed_unfinished", 1)
		fmt.Fprintf(os.Stderr, "BORROWED-UNFINISHED %s case %d\n", src, idx)
		return
	}
	for _, v := range viol {
		// not C20's verdict (see above); shown for whoever reads the log
		fmt.Fprintf(os.Stderr, "BORROWED-ORACLE %s case %d sig=%s %s\n", src, idx, v.Sig, trunc(v.What, 300))
		c.Count("borrowed_oracle_alarms_not_judged", 1)
	}
	c.Count("borrowed_inconclusive_parts", len(inc))
	c.Eval(1)
}

func c20Run(c *fw.Ctx, i int) {
	if ns := c20NumStress(c.Tier); i >= ns {
		c20Borrowed(c, i-ns)
		return
	}
	c.RestartChild = true
	r := c.Rng
	procs := []int{1, 2, 4, 16}[i%4]
	runtime.GOMAXPROCS(procs)
	dur := 12 * time.Second
	if c.Tier == "thorough" {
		dur = 40 * time.Second
	}
	// sweeps and liveness checks run often
	base.LogicCheckSessionAliveIntervalSec = uint32(2 + r.Intn(3))
	root := filepath.Join(c.Scratch, fmt.Sprintf("c20-%d", i))
	os.MkdirAll(root, 0755)
	defer os.RemoveAll(root)
	origin, _ := ref.NewRtmpStub(func(n int) ref.StubBehaviour {
		switch n % 4 {
		case 0:
			return ref.StubBehaviour{RefuseConnect: true}
		case 1:
			return ref.StubBehaviour{CloseAfterConn: true}
		}
		return ref.StubBehaviour{}
	})
	target, _ := ref.NewRtmpStub(func(n int) ref.StubBehaviour {
		if n%3 == 0 {
			return ref.StubBehaviour{RefuseConnect: true}
		}
		return ref.StubBehaviour{}
	})
	// a second push target that completes the publish handshake and then stops reading, socket open
	// (a hung downstream server): lal's push session must give up at its write timeout - writes to a
	// push target happen under the stream's lock
	staller, _ := ref.NewRtmpStubRcvBuf(func(n int) ref.StubBehaviour {
		return ref.StubBehaviour{StallAfterPublish: 120 * time.Second}
	}, 8192)
	if origin == nil || target == nil || staller == nil {
		c.Inconclusive("stubs")
		return
	}
	defer origin.Close()
	defer target.Close()
	defer staller.Close()
	logic.RelayPushWriteAvTimeoutMs = 1000
	conf := srv.Conf{RtmpGop: 1 + r.Intn(2), Flv: true, FlvGop: 1, Ts: true, TsGop: 1, Hls: true, HlsFragMs: 500, HlsFragNum: 3, HlsDelThr: 1, HlsCleanup: r.Intn(3),
		Rtsp: true, WsRtsp: true, RecFlv: true, RecTs: true, Api: true, PushAddrs: []string{target.Addr, staller.Addr}, MergeWrite: []int{0, 2048}[r.Intn(2)], DummyAudio: r.Intn(2) == 0,
		HlsHashKey: "k", GroupLogSec: 1}
	s, err := srv.Start(conf, root)
	if err != nil {
		c.Inconclusive("server start: %v", err)
		return
	}
	st := &c20Stats{ops: map[string]*int64{}}
	s.InstallHook(false)
	// an integrator-style notification handler that calls back into the server's API
	s.Notify.OnHlsMakeTsHook = func(info base.HlsMakeTsInfo) {
		s.Lal.StatGroup(info.StreamName)
		st.inc("api_from_notify_callback")
	}
	names := []string{"a", "b", "c"}
	c.Describe("GOMAXPROCS=%d duration=%v conf=%+v", procs, dur, conf)
	c.Cell("stress/procs=%d", procs)
	fatMsgs := gen.Build(c.SubRng("fat"), 9, gen.Shape{Name: "c20fat", Video: true, Audio: false, Gops: 40, GopLen: 8, Sizes: []int{32000}})
	deadline := time.Now().Add(dur)
	disposeAt := deadline.Add(-time.Duration(200+r.Intn(1500)) * time.Millisecond)
	var disposed int32
	alive := func() bool { return time.Now().Before(deadline) }
	var wg sync.WaitGroup
	var apiFail int32 // consecutive API timeouts while the server is up
	var maxApiFail int32
	actor := func(name string, f func(rr *rand.Rand)) {
		wg.Add(1)
		rr := c.SubRng(name)
		go func() {
			defer wg.Done()
			for alive() {
				f(rr)
				time.Sleep(time.Duration(5+rr.Intn(60)) * time.Millisecond)
			}
		}()
	}
	shape := gen.Shape{Name: "c20", Video: true, Audio: true, Gops: 30, GopLen: 5, AudioPerVid: 1, Sizes: []int{100, 400, 1500}}
	// ---- publishers
	for k := 0; k < 3; k++ {
		k := k
		actor(fmt.Sprintf("rtmp-pub-%d", k), func(rr *rand.Rand) {
			name := names[rr.Intn(len(names))]
			p, err := ref.StartRtmpPublisher(s.RtmpAddr(), "live", name+"?x=1", 2*time.Second)
			if err != nil {
				return
			}
			st.inc("rtmp_publish")
			msgs := gen.Build(rr, 1+k, shape)
			n := 10 + rr.Intn(len(msgs)-10)
			for _, m := range msgs[:n] {
				if p.RC.Send(ref.RtmpMsg{Csid: csidFor(m.Type), TypeID: m.Type, StreamID: p.Msid, Ts: m.Ts, Payload: m.Payload}, 0) != nil || !alive() {
					break
				}
				if rr.Intn(4) == 0 {
					time.Sleep(time.Duration(rr.Intn(8)) * time.Millisecond)
				}
			}
			p.Close()
		})
	}
	// a publisher with a real bit rate on a name of its own: enough bytes (≈10 MB per session) to fill
	// the kernel buffers towards the push target that never reads, so that lal's write to it really blocks
	// (built once, before the clock starts: generating ten megabytes of tagged payload under the race
	// detector takes seconds, during which a connected publisher would be dropped as idle)
	actor("rtmp-pub-fat", func(rr *rand.Rand) {
		p, err := ref.StartRtmpPublisher(s.RtmpAddr(), "live", "fat", 2*time.Second)
		if err != nil {
			return
		}
		defer p.Close()
		p.RC.SetChunkSize(60000)
		st.inc("rtmp_publish_fat")
		for _, m := range fatMsgs {
			p.RC.Conn.SetWriteDeadline(time.Now().Add(8 * time.Second))
			if e := p.RC.Send(ref.RtmpMsg{Csid: csidFor(m.Type), TypeID: m.Type, StreamID: p.Msid, Ts: m.Ts, Payload: m.Payload}, 0); e != nil || !alive() {
				if e != nil {
					st.inc("fat_sessions_cut_by_lal")
				}
				break
			}
			st.inc("fat_messages")
		}
	})
	for k := 0; k < 2; k++ {
		udp := k == 1
		actor(fmt.Sprintf("rtsp-pub-%d", k), func(rr *rand.Rand) {
			name := names[rr.Intn(len(names))]
			sp := gen.EsSpec{VCodec: "avc", ACodec: "aac", AacIdx: 4, AacChans: 2, AacObj: 2, NVideo: 40, GopLen: 5, AudioPer: 1, MaxNals: 1}
			src := c07BuildInc(rr, sp, 7)
			pk := c07RtspPackets(rr, src, 1200, false, 1, uint16(rr.Intn(65536)))
			rc, err := ref.DialRtsp(s.RtspAddr(), 2*time.Second)
			if err != nil {
				return
			}
			defer rc.Close()
			sdp, controls := c07Sdp(src)
			if rr.Intn(4) == 0 {
				// an odd but well-formed dialogue: SETUP requests whose URI names no track of the SDP,
				// UDP and TCP transports, then the connection just goes away
				u := "rtsp://" + s.RtspAddr() + "/live/" + name
				if r, err := rc.Request("ANNOUNCE", u, []string{"Content-Type: application/sdp"}, sdp, 2*time.Second); err == nil && r.Status == 200 {
					st.inc("rtsp_odd_setup")
					for q := 0; q < 1+rr.Intn(2); q++ {
						tr := "Transport: RTP/AVP/TCP;unicast;interleaved=0-1;mode=record"
						if rr.Intn(3) != 0 {
							tr = fmt.Sprintf("Transport: RTP/AVP/UDP;unicast;client_port=%d-%d;mode=record", 40000+rr.Intn(10000)*2, 40001+rr.Intn(10000)*2)
						}
						rc.Request("SETUP", u+"/"+[]string{"streamid=7", "nosuchtrack", "streamid=", ""}[rr.Intn(4)], []string{tr}, nil, time.Second)
					}
					time.Sleep(time.Duration(rr.Intn(30)) * time.Millisecond)
				}
				return
			}
			if rc.Announce("rtsp://"+s.RtspAddr()+"/live/"+name, sdp, len(controls), controls, udp, 2*time.Second) != nil {
				return
			}
			st.inc("rtsp_publish")
			n := 5 + rr.Intn(len(pk)-5)
			for j, p := range pk[:n] {
				if udp {
					if j%5 == 4 {
						// the same packet also on the other track's port: lal routes by payload type, so both of the
						// session's UDP read goroutines work on one depacketiser
						rc.SendUdpCross(p.track, p.pkt)
						st.inc("rtp_on_the_other_tracks_port")
					}
					err = rc.SendUdp(p.track, false, p.pkt)
				} else {
					err = rc.SendInterleaved(p.track*2, p.pkt)
				}
				if err != nil || !alive() {
					break
				}
				if j%8 == 7 {
					time.Sleep(time.Millisecond)
				}
			}
		})
	}
	var fresh int64
	actor("customize-pub", func(rr *rand.Rand) {
		if atomic.LoadInt32(&disposed) == 1 {
			return
		}
		name := names[rr.Intn(len(names))]
		if rr.Intn(2) == 0 {
			// a never-used stream name: creates (and later erases) a group
			name = fmt.Sprintf("fresh%d", atomic.AddInt64(&fresh, 1))
		}
		ctx, err := s.Lal.AddCustomizePubSession(name)
		if err != nil {
			return
		}
		st.inc("customize_publish")
		msgs := gen.Build(rr, 5, shape)
		for _, m := range msgs[:10+rr.Intn(60)] {
			var msg base.RtmpMsg
			msg.Header.MsgTypeId, msg.Header.TimestampAbs, msg.Header.MsgLen, msg.Header.MsgStreamId, msg.Header.Csid = m.Type, m.Ts, uint32(len(m.Payload)), 1, csidFor(m.Type)
			msg.Payload = m.Payload
			ctx.FeedRtmpMsg(msg)
			if rr.Intn(5) == 0 {
				time.Sleep(time.Millisecond)
			}
		}
		s.Lal.DelCustomizePubSession(ctx)
	})
	actor("rtp-pub", func(rr *rand.Rand) {
		name := "ps" + names[rr.Intn(len(names))]
		tcp := rr.Intn(2) == 0
		port := srv.FreeUdpPort()
		if tcp {
			port = srv.FreePort()
		}
		b, _ := json.Marshal(map[string]interface{}{"stream_name": name, "port": port, "timeout_ms": 2000, "is_tcp_flag": map[bool]int{false: 0, true: 1}[tcp]})
		_, resp, err := srv.HttpPostJson(s.ApiAddr(), "/api/ctrl/start_rtp_pub", string(b), 3*time.Second)
		if err != nil || !strings.Contains(string(resp), `"error_code":0`) {
			return
		}
		st.inc("rtp_pub")
		var conn net.Conn
		if tcp {
			conn, err = net.DialTimeout("tcp", fmt.Sprintf("127.0.0.1:%d", port), time.Second)
		} else {
			conn, err = net.Dial("udp", fmt.Sprintf("127.0.0.1:%d", port))
		}
		if err != nil {
			return
		}
		defer conn.Close()
		sp := gen.EsSpec{VCodec: "avc", NVideo: 30, GopLen: 5, MaxNals: 1}
		es := gen.BuildEs(rr, 8, sp)
		seq := uint16(rr.Intn(65536))
		for k, f := range es.Frames {
			ticks := uint64(k) * 3600
			ps := ref.PsPackHeader(ticks)
			nals := f.Nals
			if f.Key {
				ps = append(ps, ref.PsSystemHeader(true, false)...)
				ps = append(ps, ref.PsMap(0x1b, 0)...)
				nals = append([][]byte{es.Sps, es.Pps}, nals...)
			}
			var esb []byte
			for _, nal := range nals {
				esb = append(append(esb, 0, 0, 0, 1), nal...)
			}
			ps = append(ps, ref.PsPes(0xE0, ticks, ticks, false, esb, 65000)...)
			for off := 0; off < len(ps); {
				n := min(1400, len(ps)-off)
				pkt := ref.BuildRtp(ref.RtpPkt{Marker: off+n == len(ps), PT: 96, Seq: seq, Ts: uint32(ticks), Ssrc: 0x3333, Payload: ps[off : off+n]})
				seq++
				off += n
				if tcp {
					conn.Write(append([]byte{byte(len(pkt) >> 8), byte(len(pkt))}, pkt...))
				} else {
					conn.Write(pkt)
				}
			}
			time.Sleep(time.Millisecond)
		}
		// a second TCP connection to the same port while the first is open
		if tcp && rr.Intn(2) == 0 {
			if c2, err := net.DialTimeout("tcp", fmt.Sprintf("127.0.0.1:%d", port), time.Second); err == nil {
				c2.Write([]byte{0, 12, 0x80, 96, 0, 1, 0, 0, 0, 0, 0, 0, 0, 1})
				c2.Close()
			}
		}
	})
	// ---- subscribers
	for k := 0; k < 4; k++ {
		actor(fmt.Sprintf("sub-%d", k), func(rr *rand.Rand) {
			name := names[rr.Intn(len(names))]
			hold := time.Duration(20+rr.Intn(600)) * time.Millisecond
			switch rr.Intn(8) {
			case 0:
				if x, err := ref.StartRtmpSubscriber(s.RtmpAddr(), "live", name, 2*time.Second); err == nil {
					st.inc("rtmp_play")
					time.Sleep(hold)
					x.Close()
				}
			case 1, 2, 3:
				kind := []string{"flv", "wsflv", "ts"}[rr.Intn(3)]
				ext := map[string]string{"flv": "flv", "wsflv": "flv", "ts": "ts"}[kind]
				if x, err := srv.StartHttpSub(s.HttpAddr(), "/live/"+name+"."+ext, kind, 2*time.Second); err == nil {
					st.inc(kind + "_play")
					time.Sleep(hold)
					x.Close()
				}
			case 4, 5:
				if rc, err := ref.DialRtsp(s.RtspAddr(), 2*time.Second); err == nil {
					st.inc("rtsp_play")
					rc.Play("rtsp://"+s.RtspAddr()+"/live/"+name, rr.Intn(2) == 0, 1500*time.Millisecond)
					time.Sleep(hold)
					rc.Close()
				}
			case 6:
				// HLS: playlist (creates an hls sub session with the hash key), then its segments
				_, _, pl, err := srv.HttpGet(s.HttpAddr(), "/hls/"+name+".m3u8", 2*time.Second)
				st.inc("hls_playlist")
				if err == nil {
					if m3, e := ref.ParseM3u8(pl); e == nil {
						for _, en := range m3.Entries {
							u := en.URI
							if !strings.HasPrefix(u, "/") {
								u = "/hls/" + u
							}
							srv.HttpGet(s.HttpAddr(), u, 2*time.Second)
							st.inc("hls_segment")
						}
					}
				}
			default:
				// a stalled consumer
				cl := &c15Client{plan: c15Plan{Kind: []string{"flv", "rtmp", "ts"}[rr.Intn(3)], Mode: "stall", Stream: name}, quit: make(chan struct{}), done: make(chan struct{})}
				addr := s.HttpAddr()
				if cl.plan.Kind == "rtmp" {
					addr = s.RtmpAddr()
				}
				if conn, err := net.DialTimeout("tcp", addr, time.Second); err == nil {
					cl.conn = conn
					if _, err := cl.handshake(s); err == nil {
						st.inc("stalled_consumer")
						time.Sleep(hold * 3)
					}
					conn.Close()
				}
			}
		})
	}
	// ---- HLS pollers and a blacklist writer: every /hls/ request consults the ip blacklist (which
	// also expires entries), each request on a goroutine of its own
	for k := 0; k < 3; k++ {
		actor(fmt.Sprintf("hls-poll-%d", k), func(rr *rand.Rand) {
			if atomic.LoadInt32(&disposed) == 1 {
				return
			}
			name := names[rr.Intn(len(names))]
			// a player keeps polling under the session id lal redirected it to (the session table is read for every
			// such request) while other players arrive without one (entries are added) and old ones expire
			path := "/hls/" + name + ".m3u8"
			for q := 0; q < 10; q++ {
				code, hdr, _, err := srv.HttpGet(s.HttpAddr(), path, 2*time.Second)
				st.inc("hls_poll")
				if err == nil && code/100 == 3 {
					for _, l := range strings.Split(hdr, "\r\n") {
						if strings.HasPrefix(strings.ToLower(l), "location:") {
							loc := strings.TrimSpace(l[9:])
							if k := strings.Index(loc, "/hls/"); k >= 0 {
								path = loc[k:]
								st.inc("hls_session_redirect_followed")
							}
						}
					}
				}
			}
		})
	}
	actor("blacklist-writer", func(rr *rand.Rand) {
		if atomic.LoadInt32(&disposed) == 1 {
			return
		}
		b, _ := json.Marshal(map[string]interface{}{"ip": fmt.Sprintf("10.2.%d.%d", rr.Intn(255), rr.Intn(255)), "duration_sec": 1})
		srv.HttpPostJson(s.ApiAddr(), "/api/ctrl/add_ip_blacklist", string(b), 5*time.Second)
		st.inc("api_blacklist")
	})
	// ---- a relay pull on a name of its own (no publisher competes), attached, then kicked / stopped / left to the origin
	origin2, _ := ref.NewRtmpStub(func(n int) ref.StubBehaviour { return ref.StubBehaviour{} })
	if origin2 != nil {
		defer origin2.Close()
		actor("pull-kick", func(rr *rand.Rand) {
			if atomic.LoadInt32(&disposed) == 1 {
				return
			}
			from := s.Notify.Len()
			b, _ := json.Marshal(map[string]interface{}{"url": "rtmp://" + origin2.Addr + "/live/pk", "stream_name": "pk", "pull_retry_num": 0, "auto_stop_pull_after_no_out_ms": -1, "pull_timeout_ms": 1000})
			srv.HttpPostJson(s.ApiAddr(), "/api/ctrl/start_relay_pull", string(b), 5*time.Second)
			st.inc("api_start_pull")
			ev, ok := s.Notify.Wait(700*time.Millisecond, from, func(ev srv.Event) bool { return ev.Kind == "pull_start" })
			if !ok {
				srv.HttpGet(s.ApiAddr(), "/api/ctrl/stop_relay_pull?stream_name=pk", 5*time.Second)
				return
			}
			st.inc("pull_attached")
			time.Sleep(time.Duration(rr.Intn(40)) * time.Millisecond)
			if rr.Intn(3) != 0 {
				kb, _ := json.Marshal(map[string]string{"stream_name": "pk", "session_id": ev.SessionId})
				_, _, err := srv.HttpPostJson(s.ApiAddr(), "/api/ctrl/kick_session", string(kb), 5*time.Second)
				st.inc("api_kick_pull")
				if err != nil && atomic.LoadInt32(&disposed) == 0 {
					if n := atomic.AddInt32(&apiFail, 1); n > atomic.LoadInt32(&maxApiFail) {
						atomic.StoreInt32(&maxApiFail, n)
					}
				}
			} else {
				srv.HttpGet(s.ApiAddr(), "/api/ctrl/stop_relay_pull?stream_name=pk", 5*time.Second)
				st.inc("api_stop_pull")
			}
		})
	}
	// an RTSP relay pull, on a name of its own, towards an origin that accepts the TCP connection and
	// never answers: the attempt runs into its pull timeout (dispose from the timeout path while the
	// connect goroutine still owns the session), is stopped or kicked meanwhile, and is started again
	silent, _ := ref.NewRtmpStub(func(n int) ref.StubBehaviour { return ref.StubBehaviour{Hang: true} })
	if silent != nil {
		defer silent.Close()
		actor("rtsp-pull-timeout", func(rr *rand.Rand) {
			if atomic.LoadInt32(&disposed) == 1 {
				return
			}
			b, _ := json.Marshal(map[string]interface{}{"url": "rtsp://" + silent.Addr + "/live/rp", "stream_name": "rp", "pull_retry_num": rr.Intn(2), "auto_stop_pull_after_no_out_ms": -1,
				"pull_timeout_ms": 50 + rr.Intn(300), "rtsp_mode": rr.Intn(2)})
			srv.HttpPostJson(s.ApiAddr(), "/api/ctrl/start_relay_pull", string(b), 5*time.Second)
			st.inc("api_start_rtsp_pull_silent_origin")
			time.Sleep(time.Duration(rr.Intn(500)) * time.Millisecond)
			if rr.Intn(2) == 0 {
				srv.HttpGet(s.ApiAddr(), "/api/ctrl/stop_relay_pull?stream_name=rp", 5*time.Second)
			}
		})
	}
	// ---- API
	for k := 0; k < 4; k++ {
		actor(fmt.Sprintf("api-%d", k), func(rr *rand.Rand) {
			if atomic.LoadInt32(&disposed) == 1 {
				return
			}
			name := names[rr.Intn(len(names))]
			var err error
			var body []byte
			switch rr.Intn(8) {
			case 0:
				_, _, body, err = srv.HttpGet(s.ApiAddr(), "/api/stat/all_group", 5*time.Second)
				st.inc("api_all_group")
				// kick something listed
				var v struct {
					Data struct {
						Groups []struct {
							StreamName string `json:"stream_name"`
							Pub        struct{ SessionId string `json:"session_id"` } `json:"pub"`
							Subs       []struct{ SessionId string `json:"session_id"` } `json:"subs"`
							Pull       struct{ SessionId string `json:"session_id"` } `json:"pull"`
						} `json:"groups"`
					} `json:"data"`
				}
				if err == nil && json.Unmarshal(body, &v) == nil && len(v.Data.Groups) > 0 {
					g := v.Data.Groups[rr.Intn(len(v.Data.Groups))]
					ids := []string{g.Pub.SessionId, g.Pull.SessionId}
					for _, su := range g.Subs {
						ids = append(ids, su.SessionId)
					}
					id := ids[rr.Intn(len(ids))]
					if id != "" && rr.Intn(2) == 0 {
						b, _ := json.Marshal(map[string]string{"stream_name": g.StreamName, "session_id": id})
						_, _, err = srv.HttpPostJson(s.ApiAddr(), "/api/ctrl/kick_session", string(b), 5*time.Second)
						st.inc("api_kick")
					}
				}
			case 1:
				_, _, _, err = srv.HttpGet(s.ApiAddr(), "/api/stat/group?stream_name="+name, 5*time.Second)
				st.inc("api_group")
			case 2:
				_, _, _, err = srv.HttpGet(s.ApiAddr(), "/api/stat/lal_info", 5*time.Second)
				st.inc("api_lal_info")
			case 3, 4:
				b, _ := json.Marshal(map[string]interface{}{"url": "rtmp://" + origin.Addr + "/live/" + name, "stream_name": name, "pull_retry_num": rr.Intn(3) - 1, "auto_stop_pull_after_no_out_ms": []int{-1, 0, 500}[rr.Intn(3)], "pull_timeout_ms": 1000})
				_, _, err = srv.HttpPostJson(s.ApiAddr(), "/api/ctrl/start_relay_pull", string(b), 5*time.Second)
				st.inc("api_start_pull")
			case 5:
				_, _, _, err = srv.HttpGet(s.ApiAddr(), "/api/ctrl/stop_relay_pull?stream_name="+name, 5*time.Second)
				st.inc("api_stop_pull")
			case 6:
				b, _ := json.Marshal(map[string]interface{}{"ip": fmt.Sprintf("10.1.%d.%d", rr.Intn(255), rr.Intn(255)), "duration_sec": 1})
				_, _, err = srv.HttpPostJson(s.ApiAddr(), "/api/ctrl/add_ip_blacklist", string(b), 5*time.Second)
				st.inc("api_blacklist")
			default:
				_, _, _, err = srv.HttpGet(s.ApiAddr(), "/lal.html", 5*time.Second)
				st.inc("api_webui")
			}
			if atomic.LoadInt32(&disposed) == 1 {
				return
			}
			if err != nil && strings.Contains(err.Error(), "timeout") {
				n := atomic.AddInt32(&apiFail, 1)
				for {
					m := atomic.LoadInt32(&maxApiFail)
					if n <= m || atomic.CompareAndSwapInt32(&maxApiFail, m, n) {
						break
					}
				}
			} else if err == nil {
				atomic.StoreInt32(&apiFail, 0)
			}
		})
	}
	// ---- shutdown at a seeded instant while everything is running
	stopDone := make(chan struct{})
	go func() {
		time.Sleep(time.Until(disposeAt))
		atomic.StoreInt32(&disposed, 1)
		s.Stop()
		close(stopDone)
	}()
	// the actors' own network operations all carry deadlines of a few seconds; one that is still busy
	// 45 s after the end of the run sits in a call into lal that does not return (in-process API such
	// as AddCustomizePubSession / StatGroup, or an admission that never completes)
	actorsDone := make(chan struct{})
	go func() { wg.Wait(); close(actorsDone) }()
	select {
	case <-actorsDone:
	case <-time.After(time.Until(deadline) + 45*time.Second):
		c.Violate("deadlock/call-into-lal-does-not-return", "45 s after the end of the run an actor is still inside a call into lal (API call, admission or teardown that does not complete)\n"+goroutineSummary(), nil)
		c.ExitNow()
	}
	select {
	case <-stopDone:
	case <-time.After(20 * time.Second):
		c.Violate("deadlock/dispose", "ServerManager.Dispose / RunLoop did not return within 20 s of being asked to stop under load\n"+goroutineSummary(), nil)
	}
	// after the server has been disposed and every actor has closed its connections nothing holds a
	// lal lock for long: a goroutine that sits in a lal frame waiting for a mutex in two dumps 2.5 s
	// apart is stuck for good (its session's teardown never completes).
	if stuck := stuckOnMutex(); len(stuck) > 0 {
		time.Sleep(2500 * time.Millisecond)
		again := stuckOnMutex()
		for id, stack := range stuck {
			if _, ok := again[id]; ok {
				c.Violate("deadlock/goroutine-stuck-on-mutex", "a goroutine is still waiting for a lal mutex after the server was disposed and all peers are gone:\n"+stack, nil)
				break
			}
		}
	}
	c.Count("stuck_goroutine_scans", 1)
	if n := atomic.LoadInt32(&maxApiFail); n >= 3 {
		c.Violate("deadlock/api-unresponsive", fmt.Sprintf("%d consecutive HTTP-API calls timed out (5 s each) while the server was running\n%s", n, goroutineSummary()), nil)
	}
	tot := 0
	for k, p := range st.ops {
		c.Count(k, int(atomic.LoadInt64(p)))
		tot += int(atomic.LoadInt64(p))
	}
	c.Eval(tot)
	c.Sample(map[string]interface{}{"procs": procs, "operations": tot, "notifications": s.Notify.Len()})
}

// stuckOnMutex: goroutines blocked in sync.(*Mutex).Lock / RWMutex whose stack has a lal or naza
// frame; key = goroutine id, value = its stack.
func stuckOnMutex() map[string]string {
	out := map[string]string{}
	for _, g := range strings.Split(goroutineDump(), "\n\n") {
		nl := strings.IndexByte(g, '\n')
		if nl < 0 || !strings.HasPrefix(g, "goroutine ") {
			continue
		}
		head := g[:nl]
		if !strings.Contains(head, "sync.Mutex.Lock") && !strings.Contains(head, "sync.RWMutex") && !strings.Contains(head, "semacquire") {
			continue
		}
		if !strings.Contains(g, "q191201771/lal/pkg/") && !strings.Contains(g, "q191201771/naza/") {
			continue
		}
		if !strings.Contains(g, "sync.(*Mutex).Lock") && !strings.Contains(g, "sync.(*RWMutex)") {
			continue
		}
		id := strings.Fields(head)[1]
		out[id] = g
	}
	return out
}

// ---- race-report parsing (driver side)

var (
	reRaceFrame = regexp.MustCompile(`(?m)^  ([^\s(]+(?:\([^)]*\))?[^\s(]*)\(\)\n      ([^\s]+):(\d+)`)
)

// c20RaceSig: unordered pair of the innermost lal/naza functions of the two accesses.
func c20RaceSig(block string) (sig string, lal bool) {
	// split into the access sections: "Write at … by goroutine N:" / "Previous read at …"
	secs := regexp.MustCompile(`(?m)^(?:Read|Write|Previous read|Previous write|Atomic[^\n]*) at [^\n]*\n`).Split(block, -1)
	var fs []string
	for _, sec := range secs[1:] {
		// stop at the goroutine creation part
		if k := strings.Index(sec, "\nGoroutine "); k >= 0 {
			sec = sec[:k]
		}
		inner := ""
		for _, m := range reRaceFrame.FindAllStringSubmatch(sec, -1) {
			fn, file := m[1], m[2]
			if strings.Contains(file, "/repo/") || strings.Contains(file, "q191201771/naza") {
				inner = fn
				lal = true
				break
			}
		}
		if inner == "" {
			if m := reRaceFrame.FindStringSubmatch(sec); m != nil {
				inner = m[1]
			}
		}
		fs = append(fs, inner)
		if len(fs) == 2 {
			break
		}
	}
	sort.Strings(fs)
	return "race:" + strings.Join(fs, " <-> "), lal
}

func init() {
	fw.Register(&fw.Prop{
		ID: "C20",
		NumCases: func(tier string, seed int64) int {
			if tier == "thorough" {
				return 64 + 256
			}
			return 16 + 16
		},
		Batches:            func(string) int { return 16 },
		CaseTimeout:        func(tier string) time.Duration { return 3 * time.Minute },
		TimeoutIsViolation: true,
		Rule: "worker built with -race (checkptr on); one lal server per process with every output enabled (HLS with sub-session hash key, periodic group debug log every second, FLV/TS recording, RTSP, WS-RTSP, relay push to a stub target that refuses every third connection and to one that completes the handshake and then never reads (push write timeout 1 s), API); GOMAXPROCS ∈ {1,2,4,16}; liveness sweep every 2–4 s. For 12 s (thorough 40 s) concurrent actors churn on three stream names: 3 RTMP publishers, one more with ≈10 MB per session on a name of its own (fills the buffers towards the push target that never reads), RTSP publishers over TCP and UDP (the UDP one sends every fifth packet also to the other track's port; one in four sends SETUP requests naming no track of its SDP and goes away), a customize publisher, start_rtp_pub + PS over UDP/TCP (incl. a second TCP connection), 4 subscriber actors (RTMP, HTTP-FLV, WS-FLV, HTTP-TS, RTSP TCP/UDP, HLS playlist+segments, consumers that never read), 3 HLS pollers and a blacklist writer with 1 s entries (every /hls/ request consults and expires the ip blacklist), a relay pull on a name of its own that attaches and is then kicked or stopped, an RTSP relay pull towards an origin that never answers (pull timeouts of 50–350 ms, stopped meanwhile, started again), a notification handler that calls the stat API from inside OnHlsMakeTs, 4 API actors (stat group / all_group / lal_info, kick of listed pub/sub/pull ids, start/stop_relay_pull against an origin that refuses / closes / serves, add_ip_blacklist, web UI); Dispose at a seeded instant 0.2–1.7 s before the actors stop. Oracles: every `WARNING: DATA RACE` block in the child's log whose accesses touch lal or naza frames is a violation (signature = unordered pair of innermost lal/naza functions); `fatal error: concurrent map…`, `send on closed channel`, `all goroutines are asleep` are crashes; ≥3 consecutive API calls timing out (5 s each) while the server runs, an actor still inside a call into lal 45 s after the end of the run, Dispose not returning within 20 s, or a case exceeding its watchdog are deadlock violations with the goroutine dump; so is a goroutine that, after Dispose returned and all peers are gone, waits for a lal mutex in two dumps 2.5 s apart (a teardown that never completes). cell = GOMAXPROCS. In addition (quick 16, thorough 256 cases, each in a fresh child, GOMAXPROCS 4 or 16) the same race build runs seeded cases borrowed from the scenario lists of C03, C16, C17, C01, C15, C02, C14, C06 and C07 - precisely scheduled histories (relay pull overtaken by a publisher, kicks between handshake steps, consumers stalled past their queue, inputs ending at chosen frames, re-publishing) that random churn meets only by luck; from these only race reports and fatal errors are judged (their behavioural oracles belong to their own checks and are only counted: borrowed_oracle_alarms_not_judged). cell = borrowed/<property>.",
		Assumptions: []string{"GORACE=halt_on_error=0 exitcode=0 so that one report does not hide the rest", "a race between two harness-only frames is a harness fault, not a finding"},
		MinCells: 2,
		Run:      c20Run,
	})
	fw.PostLog["C20"] = func(log string, add func(v fw.Violation, count func(string, int))) {
		blocks := strings.Split(log, "WARNING: DATA RACE")
		seen := map[string]bool{}
		for _, b := range blocks[1:] {
			if k := strings.Index(b, "=================="); k >= 0 {
				b = b[:k]
			}
			if strings.Contains(b, "logic.LoadConfAndInitLog") || strings.Contains(b, "nazalog.(*logger).Init") {
				// srv.Start retried after a listen-port collision: a second server in one process
				// re-initialises lal's global logger while the first one still logs — harness artefact
				continue
			}
			sig, lal := c20RaceSig(b)
			if seen[sig] {
				continue
			}
			seen[sig] = true
			if !lal {
				// both accesses are in harness code: a harness fault, not a finding about lal. It is
				// printed to stderr (to be repaired in the harness) and not reported as a violation.
				fmt.Fprintf(os.Stderr, "HARNESS-RACE %s\n%s\n", sig, trunc(b, 3000))
				continue
			}
			add(fw.Violation{Sig: sig, What: "WARNING: DATA RACE" + trunc(b, 5000)}, nil)
		}
	}
	fw.TimeoutSig["C20"] = func(log, desc string) string {
		n := strings.Count(log, "sync.(*Mutex).Lock")
		if n >= 2 {
			return "deadlock/watchdog-mutex"
		}
		return "deadlock/watchdog"
	}
}
