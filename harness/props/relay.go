package props

import (
	"fmt"
	"math/rand"
	"os"
	"path/filepath"
	"time"

	"lalverif/fw"
	"lalverif/gen"
	"lalverif/ref"
	"lalverif/srv"
)

// relay.go — the shared whole-server scenario runner for C01 / C02 (and the FLV part of C11):
// a reference RTMP publisher sends a tagged stream through the real lal server while
// consumers of each kind join and leave at chosen message indices.

type consumerPlan struct {
	Kind    string // rtmp | flv | wsflv
	JoinAt  int    // message index before which the consumer joins (−1: before the publisher connects)
	LeaveAt int    // message index before which it leaves (−1: stays to the end)
}

type relayScenario struct {
	PushDead int // extra relay-push targets that refuse connections
	PushMore int // extra healthy relay-push targets (each must receive the whole stream)
	PreDelayMs int // consumers that joined before the publisher wait this long (housekeeping ticks pass) before it connects
	AckEvery int // RTMP consumers acknowledge (message type 3) after every AckEvery bytes received, as real players do (0 = never)
	Conf      srv.Conf
	Shape     gen.Shape
	More      []gen.Shape // further incarnations of the same stream name, published one after the other
	PubChunk  int
	Consumers []consumerPlan
	Push      bool
	Stream    string
	FmtMode   int // 0: always fmt 0; 1: random legal format (deltas below 0xFFFFFF); 2: the same, and deltas ≥ 0xFFFFFF sent as format-1 deltas with the extended field
}

type recvItem struct {
	Idx  int // published index, −1 if the content matches nothing published
	Type uint8
	Ts   uint32
	Len  int
}

// tsRec is what a TS consumer received, demultiplexed by the reference demuxer.
type tsRec struct {
	Demux *ref.TsDemux
	Len   int
}

type consumerRec struct {
	Plan     consumerPlan
	Kind     string
	JoinK    int // index of the first message published after admission (−1 unknown)
	LeftAt   int // index at which it left (−1 stayed)
	Items    []recvItem
	ParseErr string
	Admitted bool
	Note     string
	Ts       *tsRec
	IncStart []int // first global index of each incarnation
}

type relayResult struct {
	Pub       []gen.PubMsg
	Consumers []*consumerRec
	Err       string // harness-level failure → inconclusive
	PushSeen  bool
	PushTargetsSeen    int
	PushTargetsMissing []int
	ExtDeltas          int // messages the publisher sent as format-1 deltas ≥ 0xFFFFFF
}

func mapRtmp(ix *gen.Index, msgs []ref.RtmpMsg) []recvItem {
	var out []recvItem
	for _, m := range msgs {
		it := recvItem{Idx: -1, Type: m.TypeID, Ts: m.Ts, Len: len(m.Payload)}
		if i, ok := ix.Lookup(m.TypeID, m.Payload); ok {
			it.Idx = i
		}
		out = append(out, it)
	}
	return out
}

func mapFlv(ix *gen.Index, tags []ref.FlvTag) []recvItem {
	var out []recvItem
	for _, t := range tags {
		it := recvItem{Idx: -1, Type: t.Type, Ts: t.Ts, Len: len(t.Data)}
		if i, ok := ix.Lookup(t.Type, t.Data); ok {
			it.Idx = i
		}
		out = append(out, it)
	}
	return out
}

type liveConsumer struct {
	rec  *consumerRec
	rtmp *ref.RtmpSubscriber
	http *srv.HttpSub
	gone bool
	base int64 // bytes it had read when its admission was observed
	fed  bool  // a non-empty message was published after its admission
}

func (lc *liveConsumer) count() int {
	if lc.rtmp != nil {
		return lc.rtmp.Hist.Len()
	}
	if lc.http.Kind == "ts" {
		return lc.http.BodyLen() / 188
	}
	return lc.http.NumTags()
}

func (lc *liveConsumer) localAddr() string {
	if lc.rtmp != nil {
		return srv.Key(lc.rtmp.RC.Conn)
	}
	return srv.Key(lc.http.Conn)
}

func startConsumer(s *srv.Server, kind, stream string) (*liveConsumer, error) {
	return startConsumerAck(s, kind, stream, 0)
}

func startConsumerAck(s *srv.Server, kind, stream string, ackEvery int) (*liveConsumer, error) {
	lc := &liveConsumer{}
	var err error
	switch kind {
	case "rtmp":
		lc.rtmp, err = ref.StartRtmpSubscriber(s.RtmpAddr(), "live", stream, 5*time.Second)
		if err == nil && ackEvery > 0 {
			lc.rtmp.SetAckEvery(ackEvery)
		}
	case "flv", "wsflv":
		if s.Conf.FlvHttpsOnly {
			lc.http, err = srv.StartHttpsSub(s.HttpsAddr(), "/live/"+stream+".flv", kind, 5*time.Second)
		} else {
			lc.http, err = srv.StartHttpSub(s.HttpAddr(), "/live/"+stream+".flv", kind, 5*time.Second)
		}
	case "ts":
		if s.Conf.TsHttpsOnly {
			lc.http, err = srv.StartHttpsSub(s.HttpsAddr(), "/live/"+stream+".ts", "ts", 5*time.Second)
		} else {
			lc.http, err = srv.StartHttpSub(s.HttpAddr(), "/live/"+stream+".ts", "ts", 5*time.Second)
		}
	default:
		err = fmt.Errorf("unknown consumer kind %s", kind)
	}
	return lc, err
}

func (lc *liveConsumer) close() {
	if lc.rtmp != nil {
		lc.rtmp.Close()
	} else if lc.http != nil {
		lc.http.Close()
	}
}

// runRelay executes the scenario against a fresh in-process server.
func runRelay(c *fw.Ctx, sc relayScenario, rng *rand.Rand) (res relayResult) {
	if sc.Conf.RtmpsOnly {
		ref.RtmpOverTLS = true
		defer func() { ref.RtmpOverTLS = false }()
	}
	root := filepath.Join(c.Scratch, fmt.Sprintf("relay-%d", c.Index))
	os.MkdirAll(root, 0755)
	defer os.RemoveAll(root)
	conf := sc.Conf
	var stub *ref.RtmpStub
	var moreStubs []*ref.RtmpStub
	if sc.Push {
		var err error
		stub, err = ref.NewRtmpStub(nil)
		if err != nil {
			res.Err = "stub: " + err.Error()
			return
		}
		defer stub.Close()
		conf.PushAddrs = []string{stub.Addr}
		for k := 0; k < sc.PushMore; k++ {
			st2, err := ref.NewRtmpStub(nil)
			if err != nil {
				res.Err = "stub: " + err.Error()
				return
			}
			defer st2.Close()
			moreStubs = append(moreStubs, st2)
			conf.PushAddrs = append(conf.PushAddrs, st2.Addr)
		}
		// further targets that are down (nothing listens): they must not affect the healthy one
		for k := 0; k < sc.PushDead; k++ {
			port, release := srv.DeadPort()
			defer release()
			conf.PushAddrs = append(conf.PushAddrs, fmt.Sprintf("127.0.0.1:%d", port))
		}
	}
	s, err := srv.Start(conf, root)
	if err != nil {
		res.Err = "server start: " + err.Error()
		return
	}
	hooks := s.InstallHook(false)
	stopped := false
	defer func() {
		if !stopped {
			s.Stop()
		}
	}()
	shapes := append([]gen.Shape{sc.Shape}, sc.More...)
	var incStart []int
	for k, sh := range shapes {
		incStart = append(incStart, len(res.Pub))
		res.Pub = append(res.Pub, gen.BuildAt(rng, k+1, sh, len(res.Pub))...)
	}
	pub := res.Pub
	ix := gen.NewIndex(pub)
	var live []*liveConsumer
	var hook *srv.HookSession
	nonEmpty := 0
	lastTs := map[int]uint32{}
	extDeltas := 0
	join := func(p consumerPlan, k int) {
		rec := &consumerRec{Plan: p, Kind: p.Kind, JoinK: k, LeftAt: -1, IncStart: incStart}
		res.Consumers = append(res.Consumers, rec)
		lc, err := startConsumerAck(s, p.Kind, sc.Stream, sc.AckEvery)
		if err != nil {
			rec.Note = "join failed: " + err.Error()
			return
		}
		lc.rec = rec
		if _, ok := s.Notify.WaitSession(5*time.Second, "sub_start", lc.localAddr()); !ok {
			rec.Note = "admission (sub_start) not observed"
			lc.close()
			return
		}
		rec.Admitted = true
		if ev, ok := s.Notify.WaitSession(time.Millisecond, "sub_start", lc.localAddr()); ok {
			hc := -1
			if hook != nil {
				hc = hook.Count()
			}
			rec.Note = fmt.Sprintf("diag: consumer %s session %s sub_start event at %s, observed %s, hook count %d, nonEmpty %d; ", lc.localAddr(), ev.SessionId, ev.At.Format("15:04:05.000000"), time.Now().Format("05.000000"), hc, nonEmpty)
		}
		if lc.rtmp != nil {
			lc.base = lc.rtmp.RC.BytesRead()
		} else {
			lc.base = lc.http.RawBytes()
		}
		live = append(live, lc)
	}
	for _, p := range sc.Consumers {
		if p.JoinAt < 0 {
			join(p, 0)
		}
	}
	if sc.PreDelayMs > 0 {
		time.Sleep(time.Duration(sc.PreDelayMs) * time.Millisecond)
	}
	var pr *ref.RtmpPublisher
	connectPub := func() bool {
		var err error
		pr, err = ref.StartRtmpPublisher(s.RtmpAddr(), "live", sc.Stream, 5*time.Second)
		if err != nil {
			res.Err = "publisher: " + err.Error()
			return false
		}
		if _, ok := s.Notify.WaitSession(5*time.Second, "pub_start", srv.Key(pr.RC.Conn)); !ok {
			res.Err = "publisher not accepted (pub_start not observed)"
			return false
		}
		if sc.PubChunk > 0 && sc.PubChunk != 128 {
			pr.RC.SetChunkSize(sc.PubChunk)
		}
		hook = hooks.Latest(sc.Stream)
		if hook == nil {
			res.Err = "no hook session for the stream"
			return false
		}
		nonEmpty = 0
		return true
	}
	closePub := func() {
		paddr := srv.Key(pr.RC.Conn)
		pr.Close()
		s.Notify.WaitSession(5*time.Second, "pub_stop", paddr)
	}
	defer func() {
		if pr != nil {
			pr.Close()
		}
	}()
	waitProcessed := func() bool {
		return srv.WaitFor(10*time.Second, func() bool { return hook.Count() >= nonEmpty })
	}
	// quiescence: no consumer socket made progress for 300 ms (bytes, not messages), at most 15 s
	stable := func() {
		last := int64(-1)
		quiet := 0
		for k := 0; k < 750; k++ {
			var sum int64
			for _, lc := range live {
				if lc.rtmp != nil {
					sum += lc.rtmp.RC.BytesRead()
				} else {
					sum += lc.http.RawBytes()
				}
			}
			if stub != nil {
				for _, st := range append([]*ref.RtmpStub{stub}, moreStubs...) {
					for _, ss := range st.Snapshot() {
						sum += ss.RC.BytesRead()
					}
				}
			}
			if sum == last {
				quiet++
				if quiet >= 15 {
					return
				}
			} else {
				quiet = 0
			}
			last = sum
			t0 := time.Now()
			time.Sleep(20 * time.Millisecond)
			if time.Since(t0) > 60*time.Millisecond {
				// the scheduler itself is stalling (loaded machine): lal's writer goroutines share it,
				// so a quiet tick proves nothing - start counting again
				quiet = 0
			}
		}
	}
	// an admitted consumer that has not received a single byte since it joined although something
	// was published after its admission: wait (bounded) for its first byte before judging. This only
	// lengthens the wait - what it has at the end is judged as is.
	firstByte := func() {
		srv.WaitFor(1500*time.Millisecond, func() bool {
			for _, lc := range live {
				if lc.gone || !lc.fed {
					continue
				}
				var n int64
				if lc.rtmp != nil {
					n = lc.rtmp.RC.BytesRead()
				} else {
					n = lc.http.RawBytes()
				}
				if n <= lc.base {
					return false
				}
			}
			return true
		})
	}
	isIncStart := map[int]bool{}
	for _, x := range incStart {
		isIncStart[x] = true
	}
	for i, m := range pub {
		if isIncStart[i] {
			if i > 0 {
				if !waitProcessed() {
					res.Err = "lal did not process all messages of an incarnation"
					return
				}
				firstByte()
				stable()
				closePub()
			}
			if !connectPub() {
				return
			}
		}
		// joins / leaves scheduled before message i
		ev := false
		for _, p := range sc.Consumers {
			if p.JoinAt == i || p.LeaveAt == i {
				ev = true
			}
		}
		if ev {
			if !waitProcessed() {
				res.Err = fmt.Sprintf("lal did not process %d messages (hook saw %d)", nonEmpty, hook.Count())
				return
			}
			for _, lc := range live {
				if !lc.gone && lc.rec.Plan.LeaveAt == i {
					lc.gone = true
					lc.rec.LeftAt = i
					addr := lc.localAddr()
					// let what is already queued for it drain first
					time.Sleep(30 * time.Millisecond)
					lc.close()
					s.Notify.WaitSession(5*time.Second, "sub_stop", addr)
				}
			}
			for _, p := range sc.Consumers {
				if p.JoinAt == i {
					join(p, i)
				}
			}
		}
		f := 0
		if sc.FmtMode >= 1 {
			lf := pr.RC.W.LegalFormats(ref.RtmpMsg{Csid: csidFor(m.Type), TypeID: m.Type, StreamID: pr.Msid, Ts: m.Ts, Payload: m.Payload})
			f = lf[rng.Intn(len(lf))]
		}
		if prev, ok := lastTs[csidFor(m.Type)]; ok && sc.FmtMode == 2 && m.Ts >= prev && m.Ts-prev >= 0xFFFFFF {
			// a delta that does not fit 24 bits, sent as a delta all the same (format 1, extended
			// timestamp field carrying the delta - spec 5.3.1.3)
			f = 1
			extDeltas++
		}
		lastTs[csidFor(m.Type)] = m.Ts
		if err := pr.RC.Send(ref.RtmpMsg{Csid: csidFor(m.Type), TypeID: m.Type, StreamID: pr.Msid, Ts: m.Ts, Payload: m.Payload}, f); err != nil {
			res.Err = fmt.Sprintf("publisher send %d: %v", i, err)
			return
		}
		if len(m.Payload) > 0 {
			nonEmpty++
			for _, lc := range live {
				lc.fed = true
				if lc.rec.JoinK == i {
					lc.rec.Note += fmt.Sprintf("message %d sent at %s; ", i, time.Now().Format("05.000000"))
				}
			}
		}
		if i%96 == 95 {
			// pacing (never a verdict): stay far below lal's 1024-entry per-consumer queues
			waitProcessed()
			target := nonEmpty
			srv.WaitFor(500*time.Millisecond, func() bool {
				for _, lc := range live {
					if !lc.gone && lc.http != nil && lc.count() < target-900 {
						return false
					}
				}
				return true
			})
		}
	}
	if !waitProcessed() {
		res.Err = "lal did not process all messages"
		return
	}
	firstByte()
	stable()
	closePub()
	stable()
	for _, lc := range live {
		if lc.rtmp != nil {
			lc.rec.Items = mapRtmp(ix, lc.rtmp.Hist.Snapshot())
			if ts := lc.rtmp.Hist.Times(); len(ts) > 0 {
				lc.rec.Note += fmt.Sprintf("first item arrived %s, last %s; ", ts[0].Format("05.000000"), ts[len(ts)-1].Format("05.000000"))
			}
			if e := lc.rtmp.Hist.Err; e != nil && lc.rec.LeftAt < 0 && !isClosedErr(e) {
				lc.rec.ParseErr = e.Error()
			}
		} else if lc.http.Kind == "ts" {
			body := lc.http.Body()
			d := ref.NewTsDemux()
			d.Feed(body[:len(body)/188*188])
			d.Flush()
			lc.rec.Ts = &tsRec{Demux: d, Len: len(body)}
		} else {
			lc.rec.Items = mapFlv(ix, lc.http.Tags())
			if e := lc.http.FlvErr(); e != nil {
				lc.rec.ParseErr = e.Error()
			}
			if lc.rec.Kind == "wsflv" {
				for i, f := range lc.http.WsFrames() {
					if !f.Fin || f.Opcode != 2 || f.Masked {
						lc.rec.ParseErr = fmt.Sprintf("ws frame %d: fin=%v opcode=%d masked=%v", i, f.Fin, f.Opcode, f.Masked)
						break
					}
				}
			}
			if lc.rec.LeftAt < 0 {
				fp, wp := lc.http.FlvPending()
				if fp != 0 || wp != 0 {
					lc.rec.ParseErr = fmt.Sprintf("stream ends inside a unit: %d FLV bytes / %d WebSocket bytes pending after quiescence", fp, wp)
				}
			}
		}
		if !lc.gone {
			lc.close()
		}
	}
	if stub != nil {
		for ti, st := range append([]*ref.RtmpStub{stub}, moreStubs...) {
			got := false
			for _, ss := range st.Snapshot() {
				if role, _, _ := ss.GetRole(); role == "publish" {
					got = true
				}
			}
			if got {
				res.PushTargetsSeen++
			} else {
				res.PushTargetsMissing = append(res.PushTargetsMissing, ti)
			}
		}
	}
	res.ExtDeltas = extDeltas
	var allPush []*ref.StubSession
	if stub != nil {
		for _, st := range append([]*ref.RtmpStub{stub}, moreStubs...) {
			allPush = append(allPush, st.Snapshot()...)
		}
	}
	if stub != nil {
		for _, ss := range allPush {
			role, _, _ := ss.GetRole()
			if role != "publish" {
				continue
			}
			res.PushSeen = true
			rec := &consumerRec{Kind: "push", JoinK: -1, LeftAt: -1, Admitted: true}
			rec.Items = mapRtmp(ix, ss.Hist.Snapshot())
			if ss.RdErr != nil && !isClosedErr(ss.RdErr) {
				rec.ParseErr = "push target reader: " + ss.RdErr.Error()
			}
			rec.Note = fmt.Sprintf("stub read err=%v msgs=%d bytes=%d closedAt=%v", ss.RdErr, ss.Hist.Len(), ss.Hist.Bytes, ss.ClosedAt.Format("15:04:05.000"))
			res.Consumers = append(res.Consumers, rec)
		}
	}
	s.Stop()
	stopped = true
	if conf.RecFlv {
		files, _ := filepath.Glob(filepath.Join(s.FlvDir, "*.flv"))
		rec := &consumerRec{Kind: "record", JoinK: 0, LeftAt: -1, Admitted: true}
		if len(shapes) > 1 {
			// re-publishing within one second re-creates the same file name (name carries the unix
			// second): only parseability of whatever files exist is judged then
			rec.JoinK = -2
			for _, fn := range files {
				b, _ := os.ReadFile(fn)
				if _, err := ref.ParseFlvAll(b); err != nil {
					rec.ParseErr = err.Error()
				}
			}
		} else if len(files) != 1 {
			rec.ParseErr = fmt.Sprintf("%d record files", len(files))
		} else {
			b, _ := os.ReadFile(files[0])
			tags, err := ref.ParseFlvAll(b)
			if err != nil {
				rec.ParseErr = err.Error()
			}
			rec.Items = mapFlv(ix, tags)
		}
		res.Consumers = append(res.Consumers, rec)
	}
	return
}

func isClosedErr(e error) bool {
	s := e.Error()
	return contains(s, "use of closed network connection") || contains(s, "EOF") || contains(s, "connection reset")
}

func contains(s, sub string) bool {
	return len(sub) <= len(s) && (func() bool {
		for i := 0; i+len(sub) <= len(s); i++ {
			if s[i:i+len(sub)] == sub {
				return true
			}
		}
		return false
	})()
}

func csidFor(typ uint8) int {
	switch typ {
	case 8:
		return 4
	case 9:
		return 6
	}
	return 5
}

// forwardable: indices of non-empty published messages, in order, plus position lookup.
type fwdIndex struct {
	list []int
	pos  map[int]int
}

func newFwd(pub []gen.PubMsg) *fwdIndex {
	f := &fwdIndex{pos: map[int]int{}}
	for _, m := range pub {
		if len(m.Payload) > 0 {
			f.pos[m.Idx] = len(f.list)
			f.list = append(f.list, m.Idx)
		}
	}
	return f
}

// splitPrologueLive: live = maximal contiguous (in forwardable order) suffix of the history.
func splitPrologueLive(f *fwdIndex, items []recvItem) (prologue, live []recvItem) {
	n := len(items)
	if n == 0 {
		return nil, nil
	}
	i := n - 1
	for i > 0 {
		a, b := items[i-1].Idx, items[i].Idx
		if a < 0 || b < 0 {
			break
		}
		if f.pos[b] != f.pos[a]+1 {
			break
		}
		i--
	}
	return items[:i], items[i:]
}
