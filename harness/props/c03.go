package props

import (
	"bytes"
	"encoding/binary"
	"encoding/json"
	"fmt"
	"net"
	"os"
	"path/filepath"
	"sort"
	"strings"
	"sync"
	"time"

	"github.com/anishathalye/porcupine"
	"github.com/q191201771/lal/pkg/base"
	"github.com/q191201771/lal/pkg/logic"

	"lalverif/fw"
	"lalverif/gen"
	"lalverif/ref"
	"lalverif/srv"
)

// C03 — a stream has one input; foreign arrivals and departures never disturb it.
//
// Actors are inputs of five kinds (rtmp / rtsp publisher, customize publisher, start_rtp_pub,
// relay pull from a scripted stub origin). Every admission attempt and every end of an
// accepted input is recorded at the client boundary as a porcupine operation
// (Acquire(id) → ok/refused, Release(id)) and checked against a one-register model; every
// actor publishes frames tagged with its own id, two witness subscribers (RTMP, HTTP-FLV)
// stay attached, and the notification log and stat API are checked at quiescent points.

type c03Op struct {
	Acquire bool
	ID      int
}

var c03Model = porcupine.Model{
	Init: func() interface{} { return 0 },
	Step: func(st, in, out interface{}) (bool, interface{}) {
		op := in.(c03Op)
		holder := st.(int)
		if op.Acquire {
			if out.(bool) {
				return holder == 0, op.ID
			}
			return holder != 0 && holder != op.ID, holder
		}
		return holder == op.ID, 0
	},
	DescribeOperation: func(in, out interface{}) string {
		op := in.(c03Op)
		if op.Acquire {
			return fmt.Sprintf("acquire(%d)→%v", op.ID, out)
		}
		return fmt.Sprintf("release(%d)", op.ID)
	},
}

type c03Env struct {
	c    *fw.Ctx
	s    *srv.Server
	name string
	t0   time.Time
	mu   sync.Mutex
	ops  []porcupine.Operation
	log  []string

	stub     *ref.RtmpStub
	stubMu   sync.Mutex
	withhold map[int]chan struct{} // by accept index
	nextHold chan struct{}

	witR *ref.RtmpSubscriber
	witF *srv.HttpSub
	hook *srv.HookRecorder

	nextID int
	desc   string
	// actors whose media must never be seen (refused), and release-observed marks
	refused     map[int]bool
	otherStream map[int]bool
	undecided   int
	occupied    bool // sequenced scenarios: an accepted input is attached right now
}

func (e *c03Env) now() int64 { return int64(time.Since(e.t0)) }

func (e *c03Env) markRefused(id int) {
	e.mu.Lock()
	e.refused[id] = true
	e.mu.Unlock()
}

func (e *c03Env) isRefused(id int) bool {
	e.mu.Lock()
	defer e.mu.Unlock()
	return e.refused[id]
}

func (e *c03Env) incUndecided() {
	e.mu.Lock()
	e.undecided++
	e.mu.Unlock()
}

func (e *c03Env) logf(format string, a ...interface{}) {
	e.mu.Lock()
	e.log = append(e.log, fmt.Sprintf("%7.3f ", time.Since(e.t0).Seconds())+fmt.Sprintf(format, a...))
	e.mu.Unlock()
}

func (e *c03Env) record(client int, op c03Op, call int64, out interface{}, ret int64) {
	if e.otherStream[op.ID] {
		return // an input of another stream name: not part of this stream's slot history
	}
	e.mu.Lock()
	e.ops = append(e.ops, porcupine.Operation{ClientId: client, Input: op, Call: call, Output: out, Return: ret})
	e.mu.Unlock()
}

func (e *c03Env) trace() string {
	e.mu.Lock()
	defer e.mu.Unlock()
	return strings.Join(e.log, "\n")
}

type c03Actor struct {
	env    *c03Env
	id     int
	kind   string // rtmp rtsp customize rtppub pull
	stream string // stream name (default: the environment's)

	msgs []gen.PubMsg
	next int
	// rtsp
	src     *c07Src
	pkts    []rtpOut
	nextPkt int
	gop     int

	expected []int // unit ids handed to lal so far, in order

	accepted bool
	decided  bool
	released bool
	sid      string
	from     int

	pub     *ref.RtmpPublisher
	rc      *ref.RtmpConn
	msid    uint32
	rdDone  chan struct{}
	rtsp    *ref.RtspClient
	cctx    logic.ICustomizePubSessionContext
	stubIdx int
	sess    *ref.StubSession
}

const c03GopLen = 5

func (e *c03Env) newActor(kind string) *c03Actor {
	e.nextID++
	a := &c03Actor{env: e, id: e.nextID, kind: kind, stream: e.name}
	switch kind {
	case "rtsp":
		sp := gen.EsSpec{VCodec: "avc", ACodec: "aac", AacIdx: 4, AacChans: 2, AacObj: 2, NVideo: 40 * c03GopLen, GopLen: c03GopLen, AudioPer: 1, MaxNals: 1}
		a.src = c07BuildInc(e.c.SubRng(fmt.Sprintf("actor%d", a.id)), sp, a.id)
		a.pkts = c07RtspPackets(e.c.SubRng(fmt.Sprintf("pk%d", a.id)), a.src, 1200, false, 1, uint16(1000*a.id))
	case "rtppub":
	default:
		sh := gen.Shape{Name: "c03", Video: true, Audio: true, Gops: 40, GopLen: c03GopLen, AudioPerVid: 1, Sizes: []int{100, 300, 700}}
		a.msgs = gen.Build(e.c.SubRng(fmt.Sprintf("actor%d", a.id)), a.id, sh)
	}
	return a
}

func (a *c03Actor) String() string { return fmt.Sprintf("%s#%d", a.kind, a.id) }

// acquire performs the admission attempt and blocks until its outcome is observed.
// hold: for a pull, withhold the origin's Play.Start until releaseHold is called (the attempt
// then stays in flight and acquire returns immediately with decided=false).
func (a *c03Actor) acquire(hold bool) {
	e := a.env
	s := e.s
	a.from = s.Notify.Len()
	call := e.now()
	done := func(ok bool) {
		a.decided, a.accepted = true, ok
		e.record(a.id, c03Op{true, a.id}, call, ok, e.now())
		e.logf("%s acquire → accepted=%v sid=%s", a, ok, a.sid)
		if !ok {
			e.markRefused(a.id)
		}
	}
	undecided := func(why string) {
		e.incUndecided()
		e.logf("%s acquire → undecided: %s", a, why)
	}
	switch a.kind {
	case "rtmp":
		rc, err := ref.DialRtmp(s.RtmpAddr(), 3*time.Second)
		if err != nil {
			undecided(err.Error())
			return
		}
		a.rc = rc
		if err = rc.Connect("live", "rtmp://"+s.RtmpAddr()+"/live", 3*time.Second); err != nil {
			undecided(err.Error())
			return
		}
		a.msid, err = rc.CreateStream(3 * time.Second)
		if err != nil {
			undecided(err.Error())
			return
		}
		call = e.now()
		perr := rc.Publish(a.msid, a.stream, 3*time.Second)
		// push media right away, accepted or not: a refused publisher's frames must go nowhere
		if perr == nil {
			a.sendRtmp(3+2*c03GopLen, true)
		}
		a.rdDone = make(chan struct{})
		go func() {
			for {
				if _, err := rc.Read(); err != nil {
					close(a.rdDone)
					return
				}
			}
		}()
		local := srv.Key(rc.Conn)
		deadline := time.Now().Add(4 * time.Second)
		for time.Now().Before(deadline) {
			if ev, ok := s.Notify.WaitSessionFrom(20*time.Millisecond, a.from, "pub_start", local); ok {
				a.sid = ev.SessionId
				done(true)
				return
			}
			select {
			case <-a.rdDone:
				// closed by lal: refused — unless the start notification is merely late
				if ev, ok := s.Notify.WaitSessionFrom(300*time.Millisecond, a.from, "pub_start", local); ok {
					a.sid = ev.SessionId
					done(true)
					return
				}
				a.expected = nil
				done(false)
				return
			default:
			}
		}
		undecided("neither pub_start nor close within 4 s")
	case "rtsp":
		rc, err := ref.DialRtsp(s.RtspAddr(), 3*time.Second)
		if err != nil {
			undecided(err.Error())
			return
		}
		a.rtsp = rc
		sdp, controls := c07Sdp(a.src)
		call = e.now()
		err = rc.Announce("rtsp://"+s.RtspAddr()+"/live/"+a.stream, sdp, len(controls), controls, false, 3*time.Second)
		if err != nil {
			if srv.WaitFor(2*time.Second, rc.Closed) {
				done(false)
			} else {
				undecided("ANNOUNCE failed but the connection stays open: " + err.Error())
			}
			return
		}
		ev, ok := s.Notify.Wait(3*time.Second, a.from, func(ev srv.Event) bool {
			return ev.Kind == "pub_start" && ev.Protocol == "RTSP" && ev.StreamName == a.stream
		})
		if !ok {
			undecided("ANNOUNCE…RECORD answered 200 but no pub_start")
			return
		}
		a.sid = ev.SessionId
		done(true)
	case "customize":
		ctx, err := s.Lal.AddCustomizePubSession(a.stream)
		if err != nil {
			done(false)
			return
		}
		a.cctx = ctx
		a.sid = ctx.UniqueKey()
		done(true)
	case "rtppub":
		b, _ := json.Marshal(map[string]interface{}{"stream_name": a.stream, "port": 0, "timeout_ms": 60000})
		_, resp, err := srv.HttpPostJson(s.ApiAddr(), "/api/ctrl/start_rtp_pub", string(b), 3*time.Second)
		if err != nil {
			undecided(err.Error())
			return
		}
		var v struct {
			ErrorCode int `json:"error_code"`
			Data      struct {
				SessionId string `json:"session_id"`
			} `json:"data"`
		}
		json.Unmarshal(resp, &v)
		if v.ErrorCode == 0 {
			a.sid = v.Data.SessionId
			done(true)
		} else {
			done(false)
		}
	case "pull":
		e.stubMu.Lock()
		a.stubIdx = len(e.stub.Snapshot())
		var ch chan struct{}
		if hold {
			ch = make(chan struct{})
			e.withhold[a.stubIdx] = ch
		}
		e.stubMu.Unlock()
		b, _ := json.Marshal(map[string]interface{}{"url": "rtmp://" + e.stub.Addr + "/live/" + a.stream, "stream_name": a.stream, "pull_retry_num": 0, "auto_stop_pull_after_no_out_ms": -1, "pull_timeout_ms": 5000})
		_, resp, err := srv.HttpPostJson(s.ApiAddr(), "/api/ctrl/start_relay_pull", string(b), 3*time.Second)
		if err != nil {
			undecided(err.Error())
			return
		}
		var v struct {
			ErrorCode int `json:"error_code"`
			Data      struct {
				SessionId string `json:"session_id"`
			} `json:"data"`
		}
		json.Unmarshal(resp, &v)
		if v.ErrorCode != 0 {
			// the API itself refused to start an attempt
			// no attempt was made. This is not recorded as an operation on the slot: lal also
			// declines while another attempt is in flight or the retry budget is used up (C17's rules).
			e.stubMu.Lock()
			delete(e.withhold, a.stubIdx)
			e.stubMu.Unlock()
			a.decided = true
			e.markRefused(a.id)
			e.logf("%s pull not attempted: %s", a, trunc(string(resp), 160))
			return
		}
		if e.occupied {
			e.c.Violate("api-accepted-while-occupied/pull", fmt.Sprintf("start_relay_pull reported success (%s) while the stream had an accepted input\n%s\n%s", trunc(string(resp), 160), e.desc, e.trace()), nil)
		}
		a.sid = v.Data.SessionId
		if hold {
			e.logf("%s pull attempt in flight (origin withholds Play.Start) sid=%s", a, a.sid)
			return
		}
		a.awaitPull(call)
	}
}

// awaitPull waits for the pull attempt's outcome: pull_start (attached) or pull_stop without start.
func (a *c03Actor) awaitPull(call int64) {
	e := a.env
	ev, ok := e.s.Notify.Wait(6*time.Second, a.from, func(ev srv.Event) bool {
		return (ev.Kind == "pull_start" || ev.Kind == "pull_stop") && ev.SessionId == a.sid
	})
	if !ok {
		e.incUndecided()
		e.logf("%s pull attempt: neither pull_start nor pull_stop within 6 s", a)
		return
	}
	a.decided = true
	a.accepted = ev.Kind == "pull_start"
	e.record(a.id, c03Op{true, a.id}, call, a.accepted, e.now())
	e.logf("%s pull attempt → attached=%v", a, a.accepted)
	if !a.accepted {
		e.markRefused(a.id)
	}
	for _, ss := range e.stub.Snapshot() {
		if ss.N == a.stubIdx {
			a.sess = ss
		}
	}
}

func (a *c03Actor) unitOf(m gen.PubMsg) int {
	if m.IsMedia() {
		return m.Idx
	}
	return -1
}

// sendRtmp sends the next n messages of the actor's RTMP-level stream over its connection.
func (a *c03Actor) sendRtmp(n int, quiet bool) error {
	for k := 0; k < n && a.next < len(a.msgs); k++ {
		m := a.msgs[a.next]
		a.next++
		if err := a.rc.Send(ref.RtmpMsg{Csid: csidFor(m.Type), TypeID: m.Type, StreamID: a.msid, Ts: m.Ts, Payload: m.Payload}, 0); err != nil {
			return err
		}
		if u := a.unitOf(m); u >= 0 {
			a.expected = append(a.expected, u)
		}
	}
	return nil
}

// burst publishes the next GOP (plus the headers the first time) through the actor's ingest path.
func (a *c03Actor) burst() {
	e := a.env
	switch a.kind {
	case "rtmp":
		n := 2 * c03GopLen
		if a.next == 0 {
			n += 2
		} else if (a.next-2)%(2*c03GopLen) != 0 {
			n += 2*c03GopLen - (a.next-2)%(2*c03GopLen)
		}
		if err := a.sendRtmp(n, false); err != nil {
			e.logf("%s burst: send error %v", a, err)
		}
	case "customize", "pull":
		n := 2 * c03GopLen
		if a.next == 0 {
			n += 2
		}
		for k := 0; k < n && a.next < len(a.msgs); k++ {
			m := a.msgs[a.next]
			a.next++
			if a.kind == "customize" {
				var msg base.RtmpMsg
				msg.Header.MsgTypeId = m.Type
				msg.Header.TimestampAbs = m.Ts
				msg.Header.MsgLen = uint32(len(m.Payload))
				msg.Header.MsgStreamId = 1
				msg.Header.Csid = csidFor(m.Type)
				msg.Payload = m.Payload
				a.cctx.FeedRtmpMsg(msg)
			} else if a.sess != nil {
				a.sess.RC.Send(ref.RtmpMsg{Csid: csidFor(m.Type), TypeID: m.Type, StreamID: 1, Ts: m.Ts, Payload: m.Payload}, 0)
			}
			if u := a.unitOf(m); u >= 0 {
				a.expected = append(a.expected, u)
			}
		}
	case "rtsp":
		// all packets up to (not including) the first video packet of the next GOP
		a.gop++
		limit := uint32(a.src.vTicks[0]) + uint32(a.gop*c03GopLen)*3600
		for a.nextPkt < len(a.pkts) {
			p := a.pkts[a.nextPkt]
			if p.track == 0 && binary.BigEndian.Uint32(p.pkt[4:]) == limit {
				break
			}
			a.rtsp.SendInterleaved(p.track*2, p.pkt)
			a.nextPkt++
		}
		// frames handed over so far: video frames of the GOPs sent, audio frames whose media
		// time precedes the next GOP's first video frame (the packet list is interleaved by media time)
		a.expected = a.expected[:0]
		nv := a.gop * c03GopLen
		vt := float64(nv*3600) / 90000
		v, au := 0, 0
		for _, f := range a.src.es.Frames {
			if f.Video {
				if v < nv {
					a.expected = append(a.expected, f.Idx)
				}
				v++
			} else {
				if float64(a.src.aTicks[au]-a.src.aTicks[0])/float64(a.src.aClock) < vt {
					a.expected = append(a.expected, f.Idx)
				}
				au++
			}
		}
	}
}

func (a *c03Actor) slack() int {
	if a.kind == "rtsp" {
		return 2 // per track: the depacketiser releases a frame when the next one starts
	}
	return 0
}

// release ends an accepted input by the given way and waits for the observable end.
func (a *c03Actor) release(way string) {
	e := a.env
	s := e.s
	if !a.accepted || a.released {
		a.closeConn()
		return
	}
	a.released = true
	call := e.now()
	kick := func() {
		b, _ := json.Marshal(map[string]string{"stream_name": a.stream, "session_id": a.sid})
		_, resp, _ := srv.HttpPostJson(s.ApiAddr(), "/api/ctrl/kick_session", string(b), 3*time.Second)
		if !strings.Contains(string(resp), `"error_code":0`) {
			e.logf("%s kick answered %s — closing instead", a, trunc(string(resp), 120))
			a.closeConn()
		}
	}
	wait := func(kind string) bool {
		_, ok := s.Notify.Wait(5*time.Second, a.from, func(ev srv.Event) bool { return ev.Kind == kind && ev.SessionId == a.sid })
		return ok
	}
	ok := false
	switch a.kind {
	case "rtmp", "rtsp":
		if way == "kick" {
			kick()
		} else {
			a.closeConn()
		}
		ok = wait("pub_stop")
	case "customize":
		s.Lal.DelCustomizePubSession(a.cctx)
		ok = true
	case "rtppub":
		kick()
		// no notification for ps pub sessions: the stat API is the observation
		ok = srv.WaitFor(5*time.Second, func() bool { return !strings.Contains(c03Stat(e), a.sid) })
	case "pull":
		switch way {
		case "kick":
			kick()
		case "origin-close":
			if a.sess != nil {
				a.sess.RC.Close()
			}
		default:
			b, _ := json.Marshal(map[string]string{"stream_name": a.stream})
			srv.HttpGet(s.ApiAddr(), "/api/ctrl/stop_relay_pull?stream_name="+a.stream, 3*time.Second)
			_ = b
		}
		ok = wait("pull_stop")
	}
	if !ok {
		e.incUndecided()
		e.logf("%s release(%s): end not observed", a, way)
		a.closeConn()
		return
	}
	e.record(a.id, c03Op{false, a.id}, call, true, e.now())
	e.logf("%s released (%s)", a, way)
	a.closeConn()
}

func (a *c03Actor) closeConn() {
	if a.rc != nil {
		a.rc.Close()
	}
	if a.rtsp != nil {
		a.rtsp.Close()
	}
	if a.sess != nil {
		a.sess.RC.Close()
	}
}

func c03Stat(e *c03Env) string {
	_, _, body, _ := srv.HttpGet(e.s.ApiAddr(), "/api/stat/group?stream_name="+e.name, 2*time.Second)
	return string(body)
}

// disablePullIfIdle: start_relay_pull leaves pulling enabled for the stream even when the call
// itself reports failure, and lal's tick then starts an attempt on its own as soon as the
// stream has no input. Whenever none of the harness's pull actors is attached, pulling is
// switched off again so that no input appears that the recorded history does not know.
func (e *c03Env) disablePullIfIdle(all []*c03Actor) {
	for _, a := range all {
		if a.kind == "pull" && a.stream == e.name && (a.accepted && !a.released || a.sid != "" && !a.decided) {
			return
		}
	}
	srv.HttpGet(e.s.ApiAddr(), "/api/ctrl/stop_relay_pull?stream_name="+e.name, 2*time.Second)
}

// ---- witnesses

type c03Tag struct{ Inc, Unit int }

func c03Units(payloads [][]byte, esInc map[int]bool) []c03Tag {
	var out []c03Tag
	for _, p := range payloads {
		last := -1
		for _, t := range gen.FindTags(p) {
			if t.Idx >= gen.SeqHdrTagBase {
				out = append(out, c03Tag{t.Inc, -1})
				continue
			}
			u := t.Idx
			if esInc[t.Inc] {
				u = t.Idx / 8
			}
			if u != last {
				out = append(out, c03Tag{t.Inc, u})
				last = u
			}
		}
	}
	return out
}

func (e *c03Env) witness(kind string, esInc map[int]bool) []c03Tag {
	var ps [][]byte
	if kind == "rtmp" {
		for _, m := range e.witR.Hist.Snapshot() {
			ps = append(ps, m.Payload)
		}
	} else {
		for _, t := range e.witF.Tags() {
			ps = append(ps, t.Data)
		}
	}
	return c03Units(ps, esInc)
}

func (e *c03Env) esIncs(actors []*c03Actor) map[int]bool {
	m := map[int]bool{}
	for _, a := range actors {
		if a.kind == "rtsp" {
			m[a.id] = true
		}
	}
	return m
}

// checkDelivered: the witness history restricted to actor a equals a prefix of what a handed
// to lal, and lacks at most slack units of it (waits up to 3 s for that). For RTSP ingest the
// two tracks are depacketised independently, so the comparison is per track.
func (e *c03Env) checkDelivered(a *c03Actor, all []*c03Actor, when string) {
	if !a.accepted || a.kind == "rtppub" {
		return
	}
	es := e.esIncs(all)
	tracks := []string{"all"}
	isVideo := func(u int) bool { return true }
	if a.kind == "rtsp" {
		tracks = []string{"video", "audio"}
		isVideo = func(u int) bool { return u < len(a.src.es.Frames) && a.src.es.Frames[u].Video }
	}
	for _, kind := range []string{"rtmp", "flv"} {
		for _, tr := range tracks {
			want := a.expected
			if tr != "all" {
				want = nil
				for _, u := range a.expected {
					if isVideo(u) == (tr == "video") {
						want = append(want, u)
					}
				}
			}
			var got []int
			ok := srv.WaitFor(3*time.Second, func() bool {
				got = got[:0]
				for _, t := range e.witness(kind, es) {
					if t.Inc == a.id && t.Unit >= 0 && (tr == "all" || isVideo(t.Unit) == (tr == "video")) {
						got = append(got, t.Unit)
					}
				}
				return len(got) >= len(want)-a.slack()
			})
			e.c.Eval(1)
			for k := range got {
				if k >= len(want) || got[k] != want[k] {
					e.c.Violate("disturbed/"+a.kind+"/order", fmt.Sprintf("%s: the %s witness's history (%s) of accepted input %s is not a prefix of what it published (position %d: got %v, published %v)\n%s\n%s",
						when, kind, tr, a, k, tail(got, k), tail(want, k), e.desc, e.trace()), nil)
					return
				}
			}
			if !ok {
				e.c.Violate("disturbed/"+a.kind+"/missing", fmt.Sprintf("%s: the %s witness received %d of the %d %s units accepted input %s published (slack %d)\n%s\n%s",
					when, kind, len(got), len(want), tr, a, a.slack(), e.desc, e.trace()), nil)
				return
			}
		}
	}
}

func tail(x []int, k int) []int {
	lo, hi := k-2, k+3
	if lo < 0 {
		lo = 0
	}
	if hi > len(x) {
		hi = len(x)
	}
	if lo > hi {
		lo = hi
	}
	return x[lo:hi]
}

// checkForeign: no unit of a refused actor, and nothing of a released actor after its release.
func (e *c03Env) checkForeign(all []*c03Actor) {
	es := e.esIncs(all)
	for _, kind := range []string{"rtmp", "flv"} {
		for _, t := range e.witness(kind, es) {
			if e.isRefused(t.Inc) {
				var who *c03Actor
				for _, a := range all {
					if a.id == t.Inc {
						who = a
					}
				}
				e.c.Violate("forwarded-refused/"+who.kind, fmt.Sprintf("the %s witness received media tagged with refused input %s\n%s\n%s", kind, who, e.desc, e.trace()), nil)
				return
			}
		}
	}
}

// ---- environment

func c03Start(c *fw.Ctx, i int) *c03Env {
	root := filepath.Join(c.Scratch, fmt.Sprintf("c03-%d", i))
	os.MkdirAll(root, 0755)
	e := &c03Env{c: c, name: fmt.Sprintf("s%d", i), t0: time.Now(), withhold: map[int]chan struct{}{}, refused: map[int]bool{}, otherStream: map[int]bool{}}
	var err error
	e.stub, err = ref.NewRtmpStub(func(n int) ref.StubBehaviour {
		e.stubMu.Lock()
		defer e.stubMu.Unlock()
		return ref.StubBehaviour{WithholdStatus: e.withhold[n]}
	})
	if err != nil {
		c.Inconclusive("stub origin: %v", err)
		return nil
	}
	conf := srv.Conf{RtmpGop: 1, Flv: true, FlvGop: 1, Ts: true, Hls: true, HlsFragMs: 1000, Rtsp: true, RecFlv: true, Api: true}
	e.s, err = srv.Start(conf, root)
	if err != nil {
		e.stub.Close()
		c.Inconclusive("server start: %v", err)
		return nil
	}
	e.hook = e.s.InstallHook(false)
	e.witR, err = ref.StartRtmpSubscriber(e.s.RtmpAddr(), "live", e.name, 3*time.Second)
	if err == nil {
		e.witF, err = srv.StartHttpSub(e.s.HttpAddr(), "/live/"+e.name+".flv", "flv", 3*time.Second)
	}
	if err != nil {
		e.stop()
		c.Inconclusive("witness: %v", err)
		return nil
	}
	_, ok1 := e.s.Notify.WaitSessionFrom(3*time.Second, 0, "sub_start", srv.Key(e.witF.Conn))
	_, ok2 := e.s.Notify.WaitSessionFrom(3*time.Second, 0, "sub_start", srv.Key(e.witR.RC.Conn))
	if !ok1 || !ok2 {
		e.stop()
		c.Inconclusive("witnesses not admitted")
		return nil
	}
	return e
}

func (e *c03Env) stop() {
	if e.witR != nil {
		e.witR.Close()
	}
	if e.witF != nil {
		e.witF.Close()
	}
	e.s.Stop()
	e.stub.Close()
	os.RemoveAll(e.s.Root)
}

// finish: linearizability of the recorded history, notification pairing, final stat.
func (e *c03Env) finish(all []*c03Actor) {
	c := e.c
	for _, a := range all {
		a.closeConn()
		if a.cctx != nil && !a.released {
			e.s.Lal.DelCustomizePubSession(a.cctx)
		}
	}
	e.witR.Close()
	e.witF.Close()
	time.Sleep(400 * time.Millisecond)
	known := map[string]bool{}
	for _, a := range all {
		if a.kind == "pull" && a.sid != "" {
			known[a.sid] = true
		}
	}
	for _, ev := range e.s.Notify.Snapshot() {
		if ev.Kind == "pull_start" && !known[ev.SessionId] {
			c.Inconclusive("lal's tick started relay pull %s on its own (pulling stays enabled after a start_relay_pull call): the recorded history does not cover this input\n%s", ev.SessionId, e.trace())
			return
		}
	}
	if e.undecided > 0 {
		c.Inconclusive("%d operations without an observed outcome\n%s", e.undecided, e.trace())
	} else {
		e.mu.Lock()
		ops := append([]porcupine.Operation(nil), e.ops...)
		e.mu.Unlock()
		res, info := porcupine.CheckOperationsVerbose(c03Model, ops, 60*time.Second)
		c.Count("porcupine_operations", len(ops))
		switch res {
		case porcupine.Illegal:
			var lines []string
			sort.Slice(ops, func(i, j int) bool { return ops[i].Call < ops[j].Call })
			for _, op := range ops {
				lines = append(lines, fmt.Sprintf("  [%7.3f,%7.3f] %s", float64(op.Call)/1e9, float64(op.Return)/1e9, c03Model.DescribeOperation(op.Input, op.Output)))
			}
			_ = info
			c.Violate("not-linearizable", fmt.Sprintf("the admission history is not linearizable against a single input slot (two inputs accepted at once, an arrival refused while the slot was free, or a release of a non-holder):\n%s\n%s\n%s",
				strings.Join(lines, "\n"), e.desc, e.trace()), nil)
		case porcupine.Unknown:
			c.Inconclusive("porcupine timed out on %d operations", len(ops))
		default:
			c.Count("histories_linearizable", 1)
		}
	}
	// notification pairing
	type st struct{ start, stop, startAt, stopAt int }
	by := map[string]*st{}
	evs := e.s.Notify.Snapshot()
	for k, ev := range evs {
		var fam string
		switch ev.Kind {
		case "pub_start", "pub_stop":
			fam = "pub"
		case "sub_start", "sub_stop":
			fam = "sub"
		case "pull_start", "pull_stop":
			fam = "pull"
		default:
			continue
		}
		x := by[fam+"/"+ev.SessionId]
		if x == nil {
			x = &st{}
			by[fam+"/"+ev.SessionId] = x
		}
		if strings.HasSuffix(ev.Kind, "_start") {
			x.start++
			x.startAt = k
		} else {
			x.stop++
			x.stopAt = k
		}
	}
	c.Count("notification_sessions", len(by))
	for key, x := range by {
		fam := key[:strings.IndexByte(key, '/')]
		bad := ""
		switch {
		case x.start > 1 || x.stop > 1:
			bad = fmt.Sprintf("%d start and %d stop notifications", x.start, x.stop)
		case x.stop == 1 && x.start == 0 && fam != "pull":
			bad = "a stop notification without a start (refused or never admitted session)"
		case x.start == 1 && x.stop == 1 && x.stopAt < x.startAt:
			bad = "stop notified before start"
		case x.start == 1 && x.stop == 0:
			bad = "started, connection gone, but no stop notification"
		}
		if bad != "" {
			c.Violate("notify-pairing/"+fam, fmt.Sprintf("session %s: %s\n%s\n%s", key, bad, e.desc, e.trace()), nil)
		}
	}
}

// statCheck: the stat API lists exactly the attached input.
func (e *c03Env) statCheck(holder *c03Actor, when string) {
	var v struct {
		Data struct {
			Pub struct {
				SessionId string `json:"session_id"`
			} `json:"pub"`
			Pull struct {
				SessionId string `json:"session_id"`
			} `json:"pull"`
			Subs []struct {
				SessionId string `json:"session_id"`
			} `json:"subs"`
		} `json:"data"`
	}
	body := c03Stat(e)
	if json.Unmarshal([]byte(body), &v) != nil {
		return
	}
	e.c.Count("stat_checks", 1)
	wantPub, wantPull := "", ""
	if holder != nil {
		switch holder.kind {
		case "rtmp", "rtsp", "rtppub":
			wantPub = holder.sid
		case "pull":
			wantPull = holder.sid
		}
	}
	if v.Data.Pub.SessionId != wantPub || v.Data.Pull.SessionId != wantPull {
		e.c.Violate("stat-input", fmt.Sprintf("%s: stat lists pub=%q pull=%q, the attached input is %v (pub=%q pull=%q)\n%s\n%s", when, v.Data.Pub.SessionId, v.Data.Pull.SessionId, holder, wantPub, wantPull, e.desc, e.trace()), nil)
	}
	// listed subscribers must be admitted and not yet stopped
	live := map[string]bool{}
	for _, ev := range e.s.Notify.Snapshot() {
		if ev.Kind == "sub_start" {
			live[ev.SessionId] = true
		}
	}
	for _, su := range v.Data.Subs {
		if !live[su.SessionId] {
			e.c.Violate("stat-sub", fmt.Sprintf("%s: stat lists subscriber %s for which no sub_start was notified\n%s", when, su.SessionId, e.desc), nil)
		}
	}
}

var c03Kinds = []string{"rtmp", "rtsp", "customize", "rtppub", "pull"}

// scenario 1: holder × intruder matrix
func c03Matrix(c *fw.Ctx, i int, hk, ik string) {
	e := c03Start(c, i)
	if e == nil {
		return
	}
	defer e.stop()
	r := c.Rng
	e.desc = fmt.Sprintf("matrix holder=%s intruder=%s", hk, ik)
	c.Describe("%s", e.desc)
	c.Cell("matrix/%s-holds/%s-arrives", hk, ik)
	h := e.newActor(hk)
	all := []*c03Actor{h}
	h.acquire(false)
	if !h.decided {
		e.finish(all)
		return
	}
	if !h.accepted {
		c.Violate("refused-while-free/"+hk, fmt.Sprintf("the first input of a stream was refused\n%s\n%s", e.desc, e.trace()), nil)
		e.finish(all)
		return
	}
	h.burst()
	e.checkDelivered(h, all, "before any foreign event")
	hookBefore := 0
	if hs := e.hook.Latest(e.name); hs != nil {
		hookBefore = hs.Stops()
	}
	nIntr := 1 + r.Intn(2)
	e.occupied = true
	var intr []*c03Actor
	for k := 0; k < nIntr; k++ {
		x := e.newActor(ik)
		all = append(all, x)
		intr = append(intr, x)
		x.acquire(false)
		e.disablePullIfIdle(all)
		if x.decided && x.accepted {
			// recorded; porcupine will object. Let it publish so that the witness sees the damage.
			x.burst()
		}
		h.burst()
		e.checkDelivered(h, all, fmt.Sprintf("after %s arrived", x))
		e.statCheck(h, fmt.Sprintf("after %s arrived", x))
	}
	// foreign departures
	for _, x := range intr {
		if x.accepted {
			x.release("close")
		} else {
			x.closeConn()
		}
		time.Sleep(50 * time.Millisecond)
		h.burst()
		e.checkDelivered(h, all, fmt.Sprintf("after %s left", x))
	}
	if hs := e.hook.Latest(e.name); hs != nil && hs.Stops() != hookBefore {
		c.Violate("pipeline-torn-down", fmt.Sprintf("the accepted input's stream hook was told to stop (%d→%d) by foreign arrivals/departures\n%s\n%s", hookBefore, hs.Stops(), e.desc, e.trace()), nil)
	}
	e.checkForeign(all)
	e.statCheck(h, "before the holder leaves")
	e.occupied = false
	h.release([]string{"close", "kick"}[r.Intn(2)])
	time.Sleep(100 * time.Millisecond)
	e.statCheck(nil, "after the holder left")
	// the slot is free again: the intruder kind must now be admitted
	y := e.newActor(ik)
	all = append(all, y)
	y.acquire(false)
	if y.decided && !y.accepted {
		c.Violate("refused-while-free/"+ik, fmt.Sprintf("an input arriving after the previous one had left was refused\n%s\n%s", e.desc, e.trace()), nil)
	} else if y.accepted {
		y.burst()
		e.checkDelivered(y, all, "successor input")
		if hk == "customize" && h.cctx != nil {
			// the departed customize publisher's context keeps feeding: nothing of it may be forwarded
			n0 := len(h.expected)
			h.burst()
			h.expected = h.expected[:n0]
			e.logf("%s (departed) fed another GOP through its stale context", h)
			y.burst()
			e.checkDelivered(y, all, "after the departed input kept feeding")
			es := e.esIncs(all)
			for _, kind := range []string{"rtmp", "flv"} {
				n := 0
				for _, t := range e.witness(kind, es) {
					if t.Inc == h.id && t.Unit >= 0 {
						n++
					}
				}
				if n > n0 {
					c.Violate("forwarded-departed/customize", fmt.Sprintf("the %s witness received %d units of departed input %s, which had published %d before it was deleted\n%s\n%s", kind, n, h, n0, e.desc, e.trace()), nil)
					break
				}
			}
			c.Count("stale_feed_checks", 1)
		}
		y.release("close")
	}
	e.finish(all)
}

// scenario 5: a second ANNOUNCE / DESCRIBE on one RTSP connection; afterwards the slot must not be stuck
// and nothing may stay listed.
func c03RtspRepeat(c *fw.Ctx, i int, mode string) {
	e := c03Start(c, i)
	if e == nil {
		return
	}
	defer e.stop()
	e.desc = "rtsp-repeat " + mode
	c.Describe("%s", e.desc)
	c.Cell("rtsp-repeat/%s", mode)
	var all []*c03Actor
	url := "rtsp://" + e.s.RtspAddr() + "/live/" + e.name
	switch mode {
	case "announce-twice", "announce-other-stream", "announce-then-describe":
		h := e.newActor("rtsp")
		all = append(all, h)
		h.acquire(false)
		if !h.accepted {
			e.finish(all)
			return
		}
		h.burst()
		e.checkDelivered(h, all, "before the repeated request")
		sdp, _ := c07Sdp(h.src)
		var resp *ref.RtspResp
		var err error
		switch mode {
		case "announce-twice":
			resp, err = h.rtsp.Request("ANNOUNCE", url, []string{"Content-Type: application/sdp"}, sdp, 2*time.Second)
		case "announce-other-stream":
			resp, err = h.rtsp.Request("ANNOUNCE", url+"other", []string{"Content-Type: application/sdp"}, sdp, 2*time.Second)
		default:
			resp, err = h.rtsp.Request("DESCRIBE", url, []string{"Accept: application/sdp"}, nil, 2*time.Second)
		}
		st := 0
		if resp != nil {
			st = resp.Status
		}
		e.logf("repeated request answered status=%d err=%v", st, err)
		time.Sleep(100 * time.Millisecond)
		// whatever lal answered: once the connection is closed the input must be released exactly once
		h.released = true
		call := e.now()
		h.closeConn()
		_, ok := e.s.Notify.Wait(5*time.Second, h.from, func(ev srv.Event) bool { return ev.Kind == "pub_stop" && ev.SessionId == h.sid })
		if !ok {
			c.Violate("stuck-input/rtsp-"+mode, fmt.Sprintf("the accepted RTSP publisher's connection is closed but no pub_stop was notified for %s within 5 s\n%s\n%s", h.sid, e.desc, e.trace()), nil)
		} else {
			e.record(h.id, c03Op{false, h.id}, call, true, e.now())
		}
		time.Sleep(100 * time.Millisecond)
		e.statCheck(nil, "after the connection was closed")
		if mode == "announce-other-stream" {
			if body := func() string {
				_, _, b, _ := srv.HttpGet(e.s.ApiAddr(), "/api/stat/group?stream_name="+e.name+"other", 2*time.Second)
				return string(b)
			}(); strings.Contains(body, `"session_id":"RTSPPUB`) {
				c.Violate("stat-ghost/rtsp-"+mode, fmt.Sprintf("stream %sother still lists an RTSP publisher after its connection was closed: %s\n%s", e.name, trunc(body, 300), e.trace()), nil)
			}
		}
		y := e.newActor("rtmp")
		all = append(all, y)
		y.acquire(false)
		if y.decided && !y.accepted {
			c.Violate("refused-while-free/rtmp", fmt.Sprintf("a publisher arriving after the RTSP publisher's connection was closed is refused: the slot is stuck\n%s\n%s", e.desc, e.trace()), nil)
		} else if y.accepted {
			y.burst()
			e.checkDelivered(y, all, "successor input")
			y.release("close")
		}
	case "describe-twice":
		h := e.newActor("rtmp")
		all = append(all, h)
		h.acquire(false)
		if !h.accepted {
			e.finish(all)
			return
		}
		h.burst()
		rc, err := ref.DialRtsp(e.s.RtspAddr(), 3*time.Second)
		if err != nil {
			c.Inconclusive("rtsp dial: %v", err)
			e.finish(all)
			return
		}
		rc.Request("DESCRIBE", url, []string{"Accept: application/sdp"}, nil, 2*time.Second)
		rc.Request("DESCRIBE", url, []string{"Accept: application/sdp"}, nil, 2*time.Second)
		time.Sleep(50 * time.Millisecond)
		rc.Close()
		time.Sleep(300 * time.Millisecond)
		h.burst()
		e.checkDelivered(h, all, "after a subscriber sent DESCRIBE twice and left")
		if body := c03Stat(e); strings.Contains(body, `"session_id":"RTSPSUB`) {
			c.Violate("stat-ghost/rtsp-describe-twice", fmt.Sprintf("stat still lists an RTSP subscriber after its only connection was closed: %s\n%s", trunc(body, 400), e.trace()), nil)
		}
		h.release("close")
	}
	e.finish(all)
}

// scenario 2: pull attempt in flight while a publisher arrives; then the origin answers.
func c03PullRace(c *fw.Ctx, i int, pk string) {
	e := c03Start(c, i)
	if e == nil {
		return
	}
	defer e.stop()
	e.desc = fmt.Sprintf("pull-race publisher=%s", pk)
	c.Describe("%s", e.desc)
	c.Cell("pull-in-flight/%s-arrives", pk)
	p := e.newActor("pull")
	all := []*c03Actor{p}
	callPull := e.now()
	p.acquire(true)
	if p.sid == "" {
		c.Inconclusive("pull attempt did not start\n%s", e.trace())
		e.finish(all)
		return
	}
	// wait until the origin has the play request (attempt really in flight)
	srv.WaitFor(3*time.Second, func() bool {
		for _, ss := range e.stub.Snapshot() {
			if ss.N == p.stubIdx {
				role, _, _ := ss.GetRole()
				return role == "play"
			}
		}
		return false
	})
	h := e.newActor(pk)
	all = append(all, h)
	h.acquire(false)
	if h.decided && h.accepted {
		h.burst()
		e.checkDelivered(h, all, "publisher accepted while a pull was in flight")
	}
	hookBefore := -1
	if hs := e.hook.Latest(e.name); hs != nil {
		hookBefore = hs.Stops()
	}
	// the origin now answers
	e.stubMu.Lock()
	close(e.withhold[p.stubIdx])
	e.stubMu.Unlock()
	p.awaitPull(callPull)
	e.disablePullIfIdle(all)
	if p.accepted {
		p.burst()
	}
	time.Sleep(100 * time.Millisecond)
	if h.accepted {
		h.burst()
		e.checkDelivered(h, all, "after the overtaken pull attempt completed")
		if hs := e.hook.Latest(e.name); hs != nil && hookBefore >= 0 && hs.Stops() != hookBefore {
			c.Violate("pipeline-torn-down", fmt.Sprintf("the accepted publisher's stream hook was told to stop (%d→%d) when the overtaken pull attempt ended\n%s\n%s", hookBefore, hs.Stops(), e.desc, e.trace()), nil)
		}
		e.statCheck(h, "after the overtaken pull attempt completed")
		// the slot is still taken: another publisher must be refused
		x := e.newActor("rtmp")
		all = append(all, x)
		x.acquire(false)
		h.burst()
		e.checkDelivered(h, all, "after a further publisher arrived")
		x.closeConn()
		e.checkForeign(all)
		h.release("close")
	}
	if p.accepted && !p.released {
		p.release("stop")
	}
	e.finish(all)
}


// ---- a TCP relay whose server→client direction can be held back (orders an RTSP relay pull's
// DESCRIBE reply against a publisher's arrival without touching lal)
type gateProxy struct {
	ln      net.Listener
	Addr    string
	mu      sync.Mutex
	gate    chan struct{} // closed = open
	sawReq  chan struct{} // closed once the trigger request passed
	trigger []byte
	once    sync.Once
	conns   []net.Conn
}

func newGateProxy(target string, trigger string) (*gateProxy, error) {
	ln, err := net.Listen("tcp", "127.0.0.1:0")
	if err != nil {
		return nil, err
	}
	g := &gateProxy{ln: ln, Addr: ln.Addr().String(), gate: make(chan struct{}), sawReq: make(chan struct{}), trigger: []byte(trigger)}
	go func() {
		for {
			c, err := ln.Accept()
			if err != nil {
				return
			}
			u, err := net.DialTimeout("tcp", target, 2*time.Second)
			if err != nil {
				c.Close()
				continue
			}
			g.mu.Lock()
			g.conns = append(g.conns, c, u)
			g.mu.Unlock()
			held := make(chan struct{}) // closed when replies must wait for the gate
			go func() { // client → server
				defer u.Close()
				buf := make([]byte, 8192)
				var seen []byte
				for {
					n, err := c.Read(buf)
					if n > 0 {
						seen = append(seen, buf[:n]...)
						if bytes.Contains(seen, g.trigger) {
							select {
							case <-held:
							default:
								close(held)
							}
							g.once.Do(func() { close(g.sawReq) })
						}
						if _, werr := u.Write(buf[:n]); werr != nil {
							return
						}
					}
					if err != nil {
						return
					}
				}
			}()
			go func() { // server → client
				defer c.Close()
				buf := make([]byte, 8192)
				for {
					n, err := u.Read(buf)
					if n > 0 {
						select {
						case <-held:
							<-g.gate
						default:
						}
						if _, werr := c.Write(buf[:n]); werr != nil {
							return
						}
					}
					if err != nil {
						return
					}
				}
			}()
		}
	}()
	return g, nil
}

func (g *gateProxy) Release() {
	g.mu.Lock()
	select {
	case <-g.gate:
	default:
		close(g.gate)
	}
	g.mu.Unlock()
}

func (g *gateProxy) Close() {
	g.Release()
	g.ln.Close()
	g.mu.Lock()
	for _, c := range g.conns {
		c.Close()
	}
	g.mu.Unlock()
}

const c03SrcInc = 90 // incarnation id of the origin stream an RTSP relay pull fetches

// scenario 2d: an RTSP relay pull (origin: lal's own RTSP server serving another stream, reached
// through a relay that holds back the DESCRIBE reply) is in flight while a publisher arrives and is
// accepted; then the origin's reply arrives. The attempt must end as refused (one pull_stop, no
// pull_start) and nothing of it may reach the stream: no frame, no sequence header built from the
// origin's parameter sets, and RTSP subscribers joining afterwards are described the accepted
// publisher's stream, not the origin's.
func c03RtspPullRace(c *fw.Ctx, i int, pk string) {
	e := c03Start(c, i)
	if e == nil {
		return
	}
	defer e.stop()
	mode := i / 7 % 2
	e.desc = fmt.Sprintf("rtsp-pull-race publisher=%s rtsp_mode=%d", pk, mode)
	c.Describe("%s", e.desc)
	c.Cell("rtsp-pull-in-flight/%s-arrives", pk)
	s := e.s
	srcName := e.name + "src"
	sh := gen.Shape{Name: "c03src", Video: true, Audio: true, Gops: 200, GopLen: c03GopLen, AudioPerVid: 1, Sizes: []int{100, 300, 700}}
	srcMsgs := gen.Build(c.SubRng("src"), c03SrcInc, sh)
	sp, err := ref.StartRtmpPublisher(s.RtmpAddr(), "live", srcName, 3*time.Second)
	if err != nil {
		c.Inconclusive("origin publisher: %v", err)
		return
	}
	stopSrc := make(chan struct{})
	srcDone := make(chan struct{})
	go func() {
		defer close(srcDone)
		for n, m := range srcMsgs {
			if n > 3+2*c03GopLen {
				select {
				case <-stopSrc:
					return
				case <-time.After(40 * time.Millisecond):
				}
			}
			if sp.RC.Send(ref.RtmpMsg{Csid: csidFor(m.Type), TypeID: m.Type, StreamID: sp.Msid, Ts: m.Ts, Payload: m.Payload}, 0) != nil {
				return
			}
		}
	}()
	endSrc := func() {
		select {
		case <-stopSrc:
		default:
			close(stopSrc)
		}
		<-srcDone
		sp.Close()
	}
	defer endSrc()
	gp, err := newGateProxy(s.RtspAddr(), "DESCRIBE ")
	if err != nil {
		c.Inconclusive("relay: %v", err)
		return
	}
	defer gp.Close()
	p := e.newActor("pull")
	p.stubIdx = -1
	p.from = s.Notify.Len()
	all := []*c03Actor{p}
	callPull := e.now()
	b, _ := json.Marshal(map[string]interface{}{"url": "rtsp://" + gp.Addr + "/live/" + srcName, "stream_name": e.name, "pull_retry_num": 0, "auto_stop_pull_after_no_out_ms": -1, "pull_timeout_ms": 20000, "rtsp_mode": mode})
	_, resp, err := srv.HttpPostJson(s.ApiAddr(), "/api/ctrl/start_relay_pull", string(b), 3*time.Second)
	var v struct {
		ErrorCode int `json:"error_code"`
		Data      struct {
			SessionId string `json:"session_id"`
		} `json:"data"`
	}
	json.Unmarshal(resp, &v)
	if err != nil || v.ErrorCode != 0 || v.Data.SessionId == "" {
		c.Inconclusive("rtsp pull attempt did not start: %v %s", err, trunc(string(resp), 160))
		return
	}
	p.sid = v.Data.SessionId
	e.logf("%s rtsp pull attempt started sid=%s", p, p.sid)
	select {
	case <-gp.sawReq:
	case <-time.After(4 * time.Second):
		c.Inconclusive("the pull attempt never sent DESCRIBE\n%s", e.trace())
		return
	}
	e.logf("DESCRIBE reply is being held back")
	h := e.newActor(pk)
	all = append(all, h)
	h.acquire(false)
	if !(h.decided && h.accepted) {
		c.Inconclusive("the publisher arriving while the rtsp pull was in flight was not accepted (decided=%v)\n%s", h.decided, e.trace())
		gp.Release()
		p.awaitPull(callPull)
		e.disablePullIfIdle(all)
		endSrc()
		e.finish(all)
		return
	}
	h.burst()
	e.checkDelivered(h, all, "publisher accepted while an rtsp pull was in flight")
	hookBefore := -1
	if hs := e.hook.Latest(e.name); hs != nil {
		hookBefore = hs.Stops()
	}
	nBefore := e.witR.Hist.Len()
	gp.Release()
	e.logf("DESCRIBE reply released")
	p.awaitPull(callPull)
	e.disablePullIfIdle(all)
	if p.decided && p.accepted {
		c.Violate("two-inputs/rtsp-pull-attached", fmt.Sprintf("the overtaken rtsp pull attempt attached (pull_start) although %s is the accepted input\n%s\n%s", h, e.desc, e.trace()), nil)
	}
	time.Sleep(150 * time.Millisecond)
	h.burst()
	e.checkDelivered(h, all, "after the overtaken rtsp pull attempt was answered")
	if hs := e.hook.Latest(e.name); hs != nil && hookBefore >= 0 && hs.Stops() != hookBefore {
		c.Violate("pipeline-torn-down", fmt.Sprintf("the accepted publisher's stream hook was told to stop (%d→%d) when the overtaken rtsp pull attempt ended\n%s\n%s", hookBefore, hs.Stops(), e.desc, e.trace()), nil)
	}
	e.statCheck(h, "after the overtaken rtsp pull attempt was answered")
	// nothing of the origin stream may have reached the witnesses: frames …
	for _, kind := range []string{"rtmp", "flv"} {
		for _, t := range e.witness(kind, map[int]bool{c03SrcInc: true}) {
			if t.Inc == c03SrcInc {
				c.Violate("forwarded-refused/rtsp-pull/"+kind, fmt.Sprintf("the %s witness received a frame of the origin stream of the refused rtsp pull (unit %d)\n%s\n%s", kind, t.Unit, e.desc, e.trace()), nil)
				break
			}
		}
	}
	// … and sequence headers built from the origin's parameter sets
	msgs := e.witR.Hist.Snapshot()
	for k := nBefore; k < len(msgs); k++ {
		m := msgs[k]
		if (m.TypeID == 9 && len(m.Payload) > 1 && m.Payload[0] == 0x17 && m.Payload[1] == 0) || (m.TypeID == 8 && len(m.Payload) > 1 && m.Payload[0]>>4 == 10 && m.Payload[1] == 0) {
			for _, t := range gen.FindTags(m.Payload) {
				if t.Inc == c03SrcInc {
					c.Violate("forwarded-refused/rtsp-pull/seq-header", fmt.Sprintf("after the refused rtsp pull was answered the rtmp witness received a type-%d sequence header built from the origin's configuration (tag of incarnation %d)\n%s\n%s", m.TypeID, t.Inc, e.desc, e.trace()), nil)
				}
			}
		}
	}
	// an RTSP subscriber joining now is described the accepted publisher's stream
	if rc, err := ref.DialRtsp(s.RtspAddr(), 3*time.Second); err == nil {
		sdp, err := rc.Play("rtsp://"+s.RtspAddr()+"/live/"+e.name, false, 4*time.Second)
		if err == nil {
			own, foreign := 0, 0
			for _, t := range gen.FindTags([]byte(sdpParamBytes(sdp))) {
				if t.Inc == c03SrcInc {
					foreign++
				} else if t.Inc == h.id {
					own++
				}
			}
			c.Count("rtsp_joiner_sdp_checked", 1)
			if foreign > 0 {
				c.Violate("disturbed/sdp-of-refused-rtsp-pull", fmt.Sprintf("an RTSP subscriber joining %s after the refused rtsp pull was answered is described the ORIGIN's parameter sets (%d tags of the origin, %d of the accepted publisher %s) - the refused input replaced the stream description\n%s\n%s", e.name, foreign, own, h, e.desc, e.trace()), nil)
			}
		} else {
			e.logf("rtsp joiner: %v", err)
		}
		rc.Close()
	}
	// the slot is still taken
	x := e.newActor("rtmp")
	all = append(all, x)
	x.acquire(false)
	h.burst()
	e.checkDelivered(h, all, "after a further publisher arrived")
	x.closeConn()
	e.checkForeign(all)
	h.release("close")
	endSrc()
	time.Sleep(300 * time.Millisecond)
	e.finish(all)
}

// sdpParamBytes: the decoded parameter sets / configs of every media section, concatenated.
func sdpParamBytes(sdp ref.Sdp) string {
	var out []byte
	for _, m := range sdp.Media {
		if sets, err := m.H264ParamSets(); err == nil {
			for _, x := range sets {
				out = append(out, x...)
			}
		}
		if cfg, err := m.AacConfig(); err == nil {
			out = append(out, cfg...)
		}
	}
	return string(out)
}

// scenario 2b: a pull attempt stays in flight across several of lal's 1 s ticks while NOBODY else is
// on the name (the attempt is the only thing that keeps the stream's state alive); it then attaches.
// From then on it is the accepted input like any other: witnesses joining get its media, the stat
// API lists it, and a publisher arriving now is refused.
// c03PullMediaBeforeStart: the origin of a relay pull sends its stream right after the play command, before (here:
// without ever) answering NetStream.Play.Start. Until that answer the attempt is not the stream's input - no
// pull_start, nothing in the stat - so none of its frames may reach the stream's subscribers.
func c03PullMediaBeforeStart(c *fw.Ctx, i int) {
	e := c03Start(c, i)
	if e == nil {
		return
	}
	defer e.stop()
	e.desc = "the origin of a relay pull sends media before answering Play.Start"
	c.Describe("%s", e.desc)
	c.Cell("pull-media-before-play-start")
	p := e.newActor("pull")
	all := []*c03Actor{p}
	p.acquire(true)
	if p.sid == "" {
		c.Inconclusive("pull attempt did not start\n%s", e.trace())
		e.finish(all)
		return
	}
	if !srv.WaitFor(3*time.Second, func() bool {
		for _, ss := range e.stub.Snapshot() {
			if ss.N == p.stubIdx {
				if role, _, _ := ss.GetRole(); role == "play" {
					p.sess = ss
					return true
				}
			}
		}
		return false
	}) {
		c.Inconclusive("origin never saw the play request\n%s", e.trace())
		e.finish(all)
		return
	}
	p.burst()
	e.logf("origin sent %d media units without having answered Play.Start", len(p.expected))
	time.Sleep(400 * time.Millisecond)
	c.Eval(1)
	if _, attached := e.s.Notify.Wait(0, p.from, func(ev srv.Event) bool { return ev.Kind == "pull_start" && ev.SessionId == p.sid }); attached {
		// lal took the attempt for attached without the origin's answer: then it is the input and its media belongs there
		c.Count("attached_without_play_start", 1)
	} else {
		e.markRefused(p.id)
		e.checkForeign(all)
	}
	// the attempt stays open (undecided) until the end of the history: close it and do not ask porcupine about it
	p.closeConn()
	if p.sess != nil {
		p.sess.RC.Conn.Close()
	}
	e.witR.Close()
	e.witF.Close()
}

func c03PullAlone(c *fw.Ctx, i int, pk string) {
	e := c03Start(c, i)
	if e == nil {
		return
	}
	defer e.stop()
	e.desc = fmt.Sprintf("pull-in-flight-alone publisher=%s", pk)
	c.Describe("%s", e.desc)
	c.Cell("pull-in-flight-alone/%s-arrives", pk)
	for _, addr := range []string{srv.Key(e.witR.RC.Conn), srv.Key(e.witF.Conn)} {
		if addr == srv.Key(e.witR.RC.Conn) {
			e.witR.Close()
		} else {
			e.witF.Close()
		}
		e.s.Notify.WaitSessionFrom(3*time.Second, 0, "sub_stop", addr)
	}
	p := e.newActor("pull")
	all := []*c03Actor{p}
	callPull := e.now()
	p.acquire(true)
	if p.sid == "" {
		c.Inconclusive("pull attempt did not start\n%s", e.trace())
		e.finish(all)
		return
	}
	inFlight := srv.WaitFor(3*time.Second, func() bool {
		for _, ss := range e.stub.Snapshot() {
			if ss.N == p.stubIdx {
				role, _, _ := ss.GetRole()
				return role == "play"
			}
		}
		return false
	})
	if !inFlight {
		c.Inconclusive("origin never saw the play request\n%s", e.trace())
		e.finish(all)
		return
	}
	// workload delay, not a verdict: long enough for at least two of lal's 1 s housekeeping ticks
	from := e.s.Notify.Len()
	time.Sleep(1200 * time.Millisecond)
	// a foreign start_relay_pull for the same name (other url, retry budget 0, stop as soon as nobody
	// watches) arrives meanwhile: it is refused - and a refusal changes nothing about the attempt
	{
		b, _ := json.Marshal(map[string]interface{}{"url": "rtmp://127.0.0.1:1/live/nowhere", "stream_name": e.name, "pull_retry_num": 0, "auto_stop_pull_after_no_out_ms": 0, "pull_timeout_ms": 1000})
		_, resp, _ := srv.HttpPostJson(e.s.ApiAddr(), "/api/ctrl/start_relay_pull", string(b), 3*time.Second)
		e.logf("second start_relay_pull while the attempt is in flight → %s", trunc(string(resp), 120))
		if strings.Contains(string(resp), `"error_code":0`) {
			c.Violate("api-accepted-while-occupied/pull", fmt.Sprintf("a second start_relay_pull reported success while an attempt for the stream was in flight\n%s\n%s", e.desc, e.trace()), nil)
		}
	}
	time.Sleep(1300 * time.Millisecond)
	e.logf("pull attempt was in flight, alone on the name, for 2.5 s")
	var err error
	e.witR, err = ref.StartRtmpSubscriber(e.s.RtmpAddr(), "live", e.name, 3*time.Second)
	if err == nil {
		e.witF, err = srv.StartHttpSub(e.s.HttpAddr(), "/live/"+e.name+".flv", "flv", 3*time.Second)
	}
	if err != nil {
		c.Inconclusive("witnesses could not re-attach: %v", err)
		e.finish(all)
		return
	}
	e.s.Notify.WaitSessionFrom(3*time.Second, from, "sub_start", srv.Key(e.witF.Conn))
	e.s.Notify.WaitSessionFrom(3*time.Second, from, "sub_start", srv.Key(e.witR.RC.Conn))
	e.stubMu.Lock()
	close(e.withhold[p.stubIdx])
	e.stubMu.Unlock()
	p.awaitPull(callPull)
	if !p.decided {
		e.finish(all)
		return
	}
	if !p.accepted {
		c.Violate("refused-while-free/pull", fmt.Sprintf("a pull attempt that was alone on the name ended without attaching although the origin answered\n%s\n%s", e.desc, e.trace()), nil)
		e.finish(all)
		return
	}
	p.burst()
	e.checkDelivered(p, all, "pull attached after being in flight alone across ticks")
	e.statCheck(p, "pull attached after being in flight alone across ticks")
	// two more ticks: the attached pull is still the input (the refused call's "stop when nobody
	// watches" must not have become its setting - the witnesses only just re-attached)
	e.witR.Close()
	e.witF.Close()
	time.Sleep(2300 * time.Millisecond)
	if ev, stopped := e.s.Notify.Wait(0, from, func(ev srv.Event) bool { return ev.Kind == "pull_stop" && ev.SessionId == p.sid }); stopped {
		c.Violate("disturbed/pull/stopped-by-refused-call", fmt.Sprintf("the attached relay pull %s was stopped although nobody stopped it: a start_relay_pull that had been answered with an error while it was connecting left its auto-stop setting behind\n%s\n%s", ev.SessionId, e.desc, e.trace()), nil)
		e.finish(all)
		return
	}
	{
		var err error
		e.witR, err = ref.StartRtmpSubscriber(e.s.RtmpAddr(), "live", e.name, 3*time.Second)
		if err == nil {
			e.witF, err = srv.StartHttpSub(e.s.HttpAddr(), "/live/"+e.name+".flv", "flv", 3*time.Second)
		}
		if err != nil {
			c.Inconclusive("witnesses could not re-attach: %v", err)
			e.finish(all)
			return
		}
		time.Sleep(200 * time.Millisecond)
	}
	e.occupied = true
	h := e.newActor(pk)
	all = append(all, h)
	h.acquire(false)
	if h.decided && h.accepted {
		h.burst()
	}
	p.burst()
	e.checkDelivered(p, all, "after a publisher arrived")
	e.statCheck(p, "after a publisher arrived")
	if h.accepted {
		h.release("close")
	} else {
		h.closeConn()
	}
	e.checkForeign(all)
	e.occupied = false
	p.release("stop")
	e.finish(all)
}

// scenario 2c: start_rtp_pub on a port that is in use reports failure - and then there is no input:
// the stat API lists none, and the next publisher is admitted.
func c03RtpPubBusyPort(c *fw.Ctx, i int, tcp bool) {
	e := c03Start(c, i)
	if e == nil {
		return
	}
	defer e.stop()
	e.desc = fmt.Sprintf("start_rtp_pub on a busy port (tcp=%v), then a publisher", tcp)
	c.Describe("%s", e.desc)
	c.Cell("rtppub-busy-port/tcp=%v", tcp)
	var port int
	if tcp {
		ln, err := net.Listen("tcp", "0.0.0.0:0")
		if err != nil {
			c.Inconclusive("listen: %v", err)
			return
		}
		defer ln.Close()
		port = ln.Addr().(*net.TCPAddr).Port
	} else {
		pc, err := net.ListenPacket("udp", "0.0.0.0:0")
		if err != nil {
			c.Inconclusive("listen: %v", err)
			return
		}
		defer pc.Close()
		port = pc.LocalAddr().(*net.UDPAddr).Port
	}
	b, _ := json.Marshal(map[string]interface{}{"stream_name": e.name, "port": port, "timeout_ms": 60000, "is_tcp_flag": map[bool]int{false: 0, true: 1}[tcp]})
	_, resp, err := srv.HttpPostJson(e.s.ApiAddr(), "/api/ctrl/start_rtp_pub", string(b), 3*time.Second)
	if err != nil {
		c.Inconclusive("start_rtp_pub: %v", err)
		return
	}
	e.logf("start_rtp_pub port %d (in use) → %s", port, trunc(string(resp), 160))
	var all []*c03Actor
	c.Eval(1)
	if strings.Contains(string(resp), `"error_code":0`) {
		// the kernel let lal share the port (SO_REUSEPORT-style): not the case under test
		c.Count("busy_port_was_granted", 1)
		e.finish(all)
		return
	}
	e.statCheck(nil, "after start_rtp_pub reported failure")
	h := e.newActor("rtmp")
	all = append(all, h)
	h.acquire(false)
	if h.decided && !h.accepted {
		c.Violate("refused-while-free/rtmp", fmt.Sprintf("a publisher was refused after a start_rtp_pub call that had itself reported failure (nothing may be left attached)\n%s\n%s", e.desc, e.trace()), nil)
	} else if h.accepted {
		h.burst()
		e.checkDelivered(h, all, "publisher after a failed start_rtp_pub")
		e.statCheck(h, "publisher after a failed start_rtp_pub")
		h.release("close")
	}
	e.finish(all)
}

// scenario 3: foreign subscribers come, go and are kicked; stale and foreign ids are kicked.
func c03ForeignSubs(c *fw.Ctx, i int, hk string) {
	e := c03Start(c, i)
	if e == nil {
		return
	}
	defer e.stop()
	_ = c.Rng
	e.desc = fmt.Sprintf("foreign-subscribers holder=%s", hk)
	c.Describe("%s", e.desc)
	c.Cell("foreign-subs/%s", hk)
	h := e.newActor(hk)
	all := []*c03Actor{h}
	h.acquire(false)
	if !h.accepted {
		if h.decided {
			c.Violate("refused-while-free/"+hk, fmt.Sprintf("the first input of a stream was refused\n%s\n%s", e.desc, e.trace()), nil)
		}
		e.finish(all)
		return
	}
	h.burst()
	kickID := func(id string) {
		b, _ := json.Marshal(map[string]string{"stream_name": e.name, "session_id": id})
		srv.HttpPostJson(e.s.ApiAddr(), "/api/ctrl/kick_session", string(b), 2*time.Second)
	}
	var stale []string
	for round := 0; round < 4; round++ {
		kind := []string{"rtmp", "flv", "ts", "rtsp"}[(round+i)%4]
		from := e.s.Notify.Len()
		var closeFn func()
		var local string
		switch kind {
		case "rtmp":
			x, err := ref.StartRtmpSubscriber(e.s.RtmpAddr(), "live", e.name, 3*time.Second)
			if err != nil {
				continue
			}
			closeFn, local = x.Close, srv.Key(x.RC.Conn)
		case "rtsp":
			rc, err := ref.DialRtsp(e.s.RtspAddr(), 3*time.Second)
			if err != nil {
				continue
			}
			go rc.Play("rtsp://"+e.s.RtspAddr()+"/live/"+e.name, false, 3*time.Second)
			closeFn = rc.Close
		default:
			x, err := srv.StartHttpSub(e.s.HttpAddr(), "/live/"+e.name+"."+kind, kind, 3*time.Second)
			if err != nil {
				continue
			}
			closeFn, local = x.Close, srv.Key(x.Conn)
		}
		ev, ok := e.s.Notify.Wait(3*time.Second, from, func(ev srv.Event) bool {
			return ev.Kind == "sub_start" && (local == "" || e.s.Notify.Match(ev, local))
		})
		e.logf("foreign %s subscriber joined (admitted=%v)", kind, ok)
		h.burst()
		e.checkDelivered(h, all, "after a foreign "+kind+" subscriber joined")
		switch (round + i) % 3 { // every way at least once per case
		case 0:
			closeFn()
			e.logf("foreign %s subscriber left", kind)
		case 1:
			if ok {
				kickID(ev.SessionId)
				stale = append(stale, ev.SessionId)
				e.logf("foreign %s subscriber kicked", kind)
			}
			closeFn()
		default:
			// kick ids that do not belong here: a stale one, a made-up one, the wrong family
			ids := append(stale, "RTMPPUBSUB999999", "FLVSUB0", "PSPUB1", "RTSPPUB77", "garbage", "RTMPPULL999999", "RTSPPULL1", "RTMPPULL0", "RTMPPUSH1")
			if h.kind == "pull" && h.sid != "" {
				// the pull family with a neighbouring number (an earlier / later pull of the server)
				pre := strings.TrimRight(h.sid, "0123456789")
				var n int
				fmt.Sscanf(h.sid[len(pre):], "%d", &n)
				ids = append(ids, fmt.Sprintf("%s%d", pre, n+1), fmt.Sprintf("%s%d", pre, n+7))
				if n > 0 {
					ids = append(ids, fmt.Sprintf("%s%d", pre, n-1))
				}
			}
			for _, id := range ids {
				kickID(id)
			}
			e.logf("stale/foreign ids kicked")
			closeFn()
		}
		// an input on another stream name comes and goes
		if round%2 == 1 {
			o := e.newActor([]string{"rtmp", "customize", "rtsp"}[(round/2+i)%3])
			o.stream = e.name + "x"
			e.otherStream[o.id] = true
			all = append(all, o)
			o.acquire(false)
			e.markRefused(o.id) // its media belongs to another stream
			if o.accepted {
				o.burst()
				h.burst()
				e.checkDelivered(h, all, "while another stream had an input")
				o.accepted = false // not part of this stream's slot history
				if o.cctx != nil {
					e.s.Lal.DelCustomizePubSession(o.cctx)
				}
				o.closeConn()
			}
		}
		time.Sleep(30 * time.Millisecond)
		h.burst()
		e.checkDelivered(h, all, "after the foreign "+kind+" subscriber was gone")
		e.statCheck(h, "after the foreign "+kind+" subscriber was gone")
	}
	h.release("close")
	e.finish(all)
}


// scenario 6: sessions refused by access control. Simple-auth is on for every protocol and direction;
// publishers and players with a missing or wrong secret are turned away while an authorised publisher
// and an authorised player of each protocol are attached. Refused sessions get no notification at all
// (in particular no stop without a start), admitted ones exactly one pair, and the stat API lists only
// the admitted ones.
func c03AuthRefusals(c *fw.Ctx, i int) {
	root := filepath.Join(c.Scratch, fmt.Sprintf("c03auth-%d", i))
	os.MkdirAll(root, 0755)
	defer os.RemoveAll(root)
	auth := srv.SimpleAuth{Key: c14Key, PubRtmp: true, SubRtmp: true, SubHttpflv: true, SubHttpts: true, PubRtsp: true, SubRtsp: true, HlsM3u8: true}
	conf := srv.Conf{RtmpGop: 1, Flv: true, FlvGop: 1, Ts: true, Hls: true, HlsFragMs: 1000, Rtsp: true, Api: true, Auth: auth}
	s, err := srv.Start(conf, root)
	if err != nil {
		c.Inconclusive("server start: %v", err)
		return
	}
	defer s.Stop()
	c.Describe("refusals by access control on every protocol while an authorised publisher and players are attached")
	c.Cell("auth-refusals")
	e := &c14Env{c: c, s: s, cell: c14Flags{Name: "all", Auth: auth}, bg: fmt.Sprintf("ar%d", i)}
	pub, err := c14StartBg(s, e.bg, "lal_secret="+c14Secret(e.bg), c.SubRng("bg"))
	if err != nil {
		c.Inconclusive("authorised publisher: %v", err)
		return
	}
	k := 0
	outcomes := map[string]int{}
	for round := 0; round < 2; round++ {
		for _, proto := range c14Protos {
			for _, q := range []string{"", "lal_secret=00112233445566778899aabbccddeeff", "lal_secret=" + c14Secret(e.bg+"x"), "RIGHT"} {
				k++
				stream := e.bg
				if proto == "rtmp-pub" {
					stream = fmt.Sprintf("%s_p%d", e.bg, k)
				}
				if proto == "rtsp-pub" {
					stream = fmt.Sprintf("%s_rp%d", e.bg, k)
				}
				if q == "RIGHT" {
					q = "lal_secret=" + c14Secret(stream)
				}
				out, _ := e.attempt(proto, q, k)
				outcomes[out.String()]++
				c.Eval(1)
			}
		}
	}
	pub.Close()
	time.Sleep(600 * time.Millisecond)
	c.Count("auth_attempts_refused", outcomes["refused"])
	c.Count("auth_attempts_admitted", outcomes["admitted"])
	if outcomes["refused"] < 10 || outcomes["admitted"] < 5 {
		c.Inconclusive("too few decided attempts: %v", outcomes)
		return
	}
	type st struct{ start, stop int }
	by := map[string]*st{}
	for _, ev := range s.Notify.Snapshot() {
		var fam string
		switch ev.Kind {
		case "pub_start", "pub_stop":
			fam = "pub"
		case "sub_start", "sub_stop":
			fam = "sub"
		default:
			continue
		}
		x := by[fam+"/"+ev.SessionId]
		if x == nil {
			x = &st{}
			by[fam+"/"+ev.SessionId] = x
		}
		if strings.HasSuffix(ev.Kind, "_start") {
			x.start++
		} else {
			x.stop++
		}
	}
	c.Count("notification_sessions", len(by))
	for key, x := range by {
		fam := key[:strings.IndexByte(key, '/')]
		bad := ""
		switch {
		case x.start > 1 || x.stop > 1:
			bad = fmt.Sprintf("%d start and %d stop notifications", x.start, x.stop)
		case x.stop == 1 && x.start == 0:
			bad = "a stop notification without a start (a session refused by access control)"
		case x.start == 1 && x.stop == 0:
			bad = "started, connection gone, but no stop notification"
		}
		if bad != "" {
			c.Violate("notify-pairing/"+fam+"/auth-refusal", fmt.Sprintf("session %s: %s | %d refused and %d admitted attempts over %v", key, bad, outcomes["refused"], outcomes["admitted"], c14Protos), nil)
		}
	}
}


// scenario 7: an accepted RTMP publisher sends a second publish command naming ANOTHER stream. lal
// refuses that and closes the connection - the departure belongs to the stream the session was
// accepted on: its pub_stop is notified, the stat API forgets it, the next publisher of the name is
// admitted, and nothing ever shows up under the other name.
func c03PublishTwiceOtherName(c *fw.Ctx, i int) {
	e := c03Start(c, i)
	if e == nil {
		return
	}
	defer e.stop()
	e.desc = "an accepted rtmp publisher sends a second publish naming another stream"
	c.Describe("%s", e.desc)
	c.Cell("publish-twice-other-name")
	h := e.newActor("rtmp")
	all := []*c03Actor{h}
	h.acquire(false)
	if !(h.decided && h.accepted) {
		c.Inconclusive("publisher not accepted\n%s", e.trace())
		e.finish(all)
		return
	}
	h.burst()
	e.checkDelivered(h, all, "publisher accepted")
	other := e.name + "x"
	call := e.now()
	h.rc.SendCommand(3, h.msid, ref.AmfStr("publish"), ref.AmfNum(9), ref.AmfNul(), ref.AmfStr(other), ref.AmfStr("live"))
	e.logf("%s sent a second publish for %q", h, other)
	closed := false
	select {
	case <-h.rdDone:
		closed = true
	case <-time.After(3 * time.Second):
	}
	c.Eval(1)
	if !closed {
		// lal may also just ignore the command: then the session simply goes on
		h.burst()
		e.checkDelivered(h, all, "after a second publish command that lal ignored")
		h.release("close")
		e.finish(all)
		return
	}
	_, ok := e.s.Notify.Wait(4*time.Second, h.from, func(ev srv.Event) bool { return ev.Kind == "pub_stop" && ev.SessionId == h.sid })
	h.released = true
	if ok {
		e.record(h.id, c03Op{false, h.id}, call, true, e.now())
		e.logf("%s: connection closed by lal, pub_stop notified", h)
	} else {
		c.Violate("notify-pairing/pub/second-publish", fmt.Sprintf("lal closed the publisher's connection after its second publish command but no pub_stop was notified for its session %s on %s\n%s\n%s", h.sid, e.name, e.desc, e.trace()), nil)
	}
	e.statCheck(nil, "after the publisher's connection was closed")
	if st := e.s.Lal.StatGroup(other); st != nil && st.StatPub.SessionId != "" {
		c.Violate("stat-input", fmt.Sprintf("the stat API lists a publisher (%s) on %q, a name nobody was accepted on\n%s", st.StatPub.SessionId, other, e.trace()), nil)
	}
	x := e.newActor("rtmp")
	all = append(all, x)
	x.acquire(false)
	if x.decided && !x.accepted && ok {
		c.Violate("refused-while-free/rtmp", fmt.Sprintf("after the publisher had gone (pub_stop notified) the next publisher of %s was refused\n%s\n%s", e.name, e.desc, e.trace()), nil)
	}
	if x.accepted {
		x.burst()
		e.checkDelivered(x, all, "next publisher after the closed one")
		x.release("close")
	}
	e.finish(all)
}

// scenario 4: concurrent arrivals on one name, several rounds.
func c03Race(c *fw.Ctx, i int) {
	e := c03Start(c, i)
	if e == nil {
		return
	}
	defer e.stop()
	r := c.Rng
	n := 2 + r.Intn(3)
	rounds := 3
	var kinds []string
	for k := 0; k < n; k++ {
		kinds = append(kinds, c03Kinds[r.Intn(len(c03Kinds))])
	}
	e.desc = fmt.Sprintf("race actors=%v rounds=%d", kinds, rounds)
	c.Describe("%s", e.desc)
	c.Cell("race/n=%d", n)
	var all []*c03Actor
	for round := 0; round < rounds; round++ {
		var as []*c03Actor
		for _, k := range kinds {
			a := e.newActor(k)
			as = append(as, a)
			all = append(all, a)
		}
		start := make(chan struct{})
		var wg sync.WaitGroup
		for _, a := range as {
			wg.Add(1)
			go func(a *c03Actor) {
				defer wg.Done()
				<-start
				a.acquire(false)
			}(a)
		}
		close(start)
		wg.Wait()
		var winners []*c03Actor
		for _, a := range as {
			if a.accepted {
				winners = append(winners, a)
			}
		}
		if len(winners) >= 1 {
			c.Count("race_won_by_"+winners[0].kind, 1)
		}
		for _, w := range winners {
			w.burst()
		}
		if len(winners) == 1 {
			e.checkDelivered(winners[0], all, fmt.Sprintf("round %d winner", round))
			e.statCheck(winners[0], fmt.Sprintf("round %d", round))
		}
		e.checkForeign(all)
		for _, a := range as {
			if !a.accepted {
				a.closeConn()
			}
		}
		for _, w := range winners {
			w.release([]string{"close", "kick"}[r.Intn(2)])
		}
		e.disablePullIfIdle(all)
		time.Sleep(50 * time.Millisecond)
	}
	e.finish(all)
}

func init() {
	type sc struct {
		kind string
		a, b string
	}
	var cat []sc
	for _, h := range c03Kinds {
		for _, x := range c03Kinds {
			cat = append(cat, sc{"matrix", h, x})
		}
	}
	for _, p := range []string{"rtmp", "rtsp", "customize", "rtppub"} {
		cat = append(cat, sc{"pullrace", p, ""})
	}
	for _, p := range []string{"rtmp", "rtsp"} {
		cat = append(cat, sc{"pullalone", p, ""})
	}
	for _, p := range []string{"rtmp", "rtsp", "customize"} {
		cat = append(cat, sc{"rtsppullrace", p, ""})
	}
	cat = append(cat, sc{"rtppub-busy", "udp", ""}, sc{"rtppub-busy", "tcp", ""})
	for _, h := range []string{"rtmp", "rtsp", "customize", "pull"} {
		cat = append(cat, sc{"subs", h, ""})
	}
	cat = append(cat, sc{"auth-refusals", "", ""}, sc{"publish-twice-other-name", "", ""}, sc{"pull-media-before-play-start", "", ""})
	for _, m := range []string{"announce-twice", "announce-other-stream", "announce-then-describe", "describe-twice"} {
		cat = append(cat, sc{"rtsprepeat", m, ""})
	}
	nCat := len(cat)
	fw.Register(&fw.Prop{
		ID: "C03",
		NumCases: func(tier string, seed int64) int {
			if tier == "thorough" {
				return nCat*4 + 400
			}
			return nCat + 43
		},
		CaseTimeout: func(string) time.Duration { return 4 * time.Minute },
		Rule:        "whole-server runs on one stream name with an RTMP and an HTTP-FLV witness attached throughout and HLS, FLV recording and the stream hook on. Inputs of five kinds (RTMP publisher, RTSP publisher, customize publisher, start_rtp_pub, relay pull from a scripted stub origin) publish frames tagged with their own id. Catalogue: 5×5 holder × intruder matrix (holder accepted and publishing; 1–2 intruders arrive, try to publish, leave; holder leaves by close or kick; the intruder kind arrives again and must now be admitted), a pull attempt kept in flight by the origin while each publisher kind arrives and is then overtaken, an RTSP relay pull (origin = lal's own RTSP server serving another stream, behind a TCP relay that holds back the DESCRIBE reply) overtaken by an RTMP / RTSP / customize publisher: the attempt must end refused and neither frames, nor sequence headers built from the origin's parameter sets, nor the origin's SDP (RTSP subscriber joining afterwards) may reach the stream, a pull attempt kept in flight across ≥3 of lal's ticks with nobody else on the name which then attaches and must be the one input (witnesses joining get its media, stat lists it, a publisher is refused), start_rtp_pub on a UDP / TCP port that is in use (failure reported → nothing attached, next publisher admitted), publishers and players refused by access control (simple-auth on for every protocol, missing / wrong secrets) next to authorised ones - no notification at all for the refused, foreign subscribers of four protocols joining/leaving/kicked plus kicks of stale, made-up and wrong-family ids; plus seeded concurrent races of 2–4 actors released by a barrier over 3 rounds. Oracles: (1) porcupine linearizability of Acquire/Release operations (call = request sent, return = outcome observed via notification, reply or connection close) against a one-register model; (2) after every foreign event the holder publishes another GOP and both witnesses' histories restricted to the holder's tag must be an exact prefix of what it handed over, complete up to the depacketiser's slack; no unit of a refused input ever reaches a witness; the holder's stream hook is not told to stop; (3) notification pairing per session id (≤1 start, ≤1 stop, stop after start, no stop without start except for pull attempts, every started session stopped once all connections are closed); (4) stat API pub/pull session id = the attached input, listed subscribers were admitted. cell = scenario × kinds.",
		Assumptions: []string{"an operation whose outcome is not observed within its bound makes the case inconclusive (never a violation)", "start_rtp_pub inputs publish no media (admission and stat only)"},
		MinCells:    10,
		Run: func(c *fw.Ctx, i int) {
			if i%(nCat+43) < nCat || (c.Tier == "thorough" && i < nCat*4) {
				x := cat[i%nCat]
				switch x.kind {
				case "matrix":
					c03Matrix(c, i, x.a, x.b)
				case "pullrace":
					c03PullRace(c, i, x.a)
				case "pullalone":
					c03PullAlone(c, i, x.a)
				case "rtsppullrace":
					c03RtspPullRace(c, i, x.a)
				case "rtppub-busy":
					c03RtpPubBusyPort(c, i, x.a == "tcp")
				case "rtsprepeat":
					c03RtspRepeat(c, i, x.a)
				case "auth-refusals":
					c03AuthRefusals(c, i)
				case "publish-twice-other-name":
					c03PublishTwiceOtherName(c, i)
				case "pull-media-before-play-start":
					c03PullMediaBeforeStart(c, i)
				default:
					c03ForeignSubs(c, i, x.a)
				}
				return
			}
			c03Race(c, i)
		},
	})
}
