package props

import (
	"bytes"
	"fmt"
	"github.com/q191201771/lal/pkg/base"
	"github.com/q191201771/lal/pkg/hls"
	"github.com/q191201771/lal/pkg/remux"
	"lalverif/gen"
	"lalverif/srv"
	"strings"
	"time"

	"lalverif/fw"
	"lalverif/ref"

	"github.com/q191201771/lal/pkg/mpegts"
)

// C09 — MPEG-TS packetisation is well-formed and lossless for every frame.
//
// Oracle: the bytes returned by Frame.Pack / PackPat / PackPmt are parsed by the reference
// demultiplexer (ref/ts.go) and compared field by field with the frame that went in.

const c09Delay = 63000 // lal's fixed PCR/PTS delay (allowed by the property: "+lal's fixed delay")

type c09Frame struct {
	Len   int    `json:"len"`
	Key   bool   `json:"key"`
	Audio bool   `json:"audio"`
	Pts   uint64 `json:"pts"`
	Dts   uint64 `json:"dts"`
	Cc    uint8  `json:"cc"`
}

func c09Fill(n int, salt uint32) []byte {
	b := make([]byte, n)
	x := salt*2654435761 + 12345
	for i := range b {
		x = x*1664525 + 1013904223
		b[i] = byte(x >> 24)
	}
	return b
}

// c09CheckFrame packs one frame with lal and checks every clause. Returns the cc after.
func c09CheckFrame(c *fw.Ctx, f c09Frame) uint8 {
	raw := c09Fill(f.Len, uint32(f.Len)*31+uint32(f.Cc))
	fr := mpegts.Frame{Pts: f.Pts, Dts: f.Dts, Cc: f.Cc, Key: f.Key, Raw: raw}
	if f.Audio {
		fr.Pid, fr.Sid = mpegts.PidAudio, mpegts.StreamIdAudio
	} else {
		fr.Pid, fr.Sid = mpegts.PidVideo, mpegts.StreamIdVideo
	}
	out := fr.Pack()
	c.Eval(1)
	class := "nonkey"
	if f.Key {
		class = "key"
	}
	first := 188 - 4 - 14
	if f.Key {
		first -= 8
	}
	if f.Pts != f.Dts {
		first -= 5
	}
	shape := "multi"
	if f.Len < first {
		shape = "short" // fits in the first packet with stuffing
	} else if f.Len == first {
		shape = "exact"
	}
	ptsdts := "pts=dts"
	if f.Pts != f.Dts {
		ptsdts = "pts!=dts"
	}
	trk := "video"
	if f.Audio {
		trk = "audio"
	}
	c.Cell("pack/%s/%s/%s/%s", class, shape, ptsdts, trk)
	bad := func(clause, format string, a ...interface{}) {
		c.Violate(fmt.Sprintf("pack/%s/%s/%s", clause, class, shape), fmt.Sprintf(format, a...)+fmt.Sprintf(" | frame=%+v", f), f)
	}
	if len(out) == 0 || len(out)%188 != 0 {
		bad("not-188", "output length %d is not a positive multiple of 188", len(out))
		return fr.Cc
	}
	np := len(out) / 188
	d := ref.NewTsDemux()
	var payload []byte
	for i := 0; i < np; i++ {
		p, err := ref.ParseTsPacket(out[i*188 : (i+1)*188])
		if err != nil {
			bad("packet-syntax", "packet %d/%d: %v", i, np, err)
			return fr.Cc
		}
		if p.PID != fr.Pid {
			bad("pid", "packet %d PID %#x want %#x", i, p.PID, fr.Pid)
		}
		if p.PUSI != (i == 0) {
			bad("pusi", "packet %d PUSI=%v", i, p.PUSI)
		}
		if want := (f.Cc + 1 + uint8(i)) & 15; p.CC != want {
			bad("continuity", "packet %d cc=%d want %d (incoming %d)", i, p.CC, want, f.Cc)
		}
		wantMark := i == 0 && f.Key
		if p.RAI != wantMark || p.PCRFlag != wantMark {
			bad("rai-pcr", "packet %d random_access=%v pcr=%v want %v", i, p.RAI, p.PCRFlag, wantMark)
		}
		if !p.StuffingOK {
			bad("stuffing", "packet %d adaptation stuffing bytes are not 0xFF", i)
		}
		if p.TEI || p.Scrambling != 0 {
			bad("ts-header", "packet %d tei/scrambling set", i)
		}
		if p.AFC&1 == 0 {
			bad("no-payload", "packet %d carries no payload", i)
		}
		payload = append(payload, p.Payload...)
	}
	_ = d
	h, err := ref.ParsePesHeader(payload)
	if err != nil {
		bad("pes-header", "%v (first bytes % x)", err, payload[:min(len(payload), 24)])
		return fr.Cc
	}
	if h.StreamID != fr.Sid {
		bad("stream-id", "stream id %#x want %#x", h.StreamID, fr.Sid)
	}
	const m33 = (uint64(1) << 33) - 1
	if !h.HasPTS || h.PTS != (f.Pts+c09Delay)&m33 {
		bad("pts", "PTS %d want %d", h.PTS, (f.Pts+c09Delay)&m33)
	}
	if f.Pts != f.Dts {
		if !h.HasDTS || h.DTS != (f.Dts+c09Delay)&m33 {
			bad("dts", "DTS present=%v %d want %d", h.HasDTS, h.DTS, (f.Dts+c09Delay)&m33)
		}
	} else if h.HasDTS {
		bad("dts", "DTS present although PTS==DTS")
	}
	es := payload[h.HdrLen:]
	if h.PacketLen != 0 {
		if want := h.PacketLen - (h.HdrLen - 6); want != len(es) {
			bad("pes-length", "PES_packet_length implies %d payload bytes, stream has %d", want, len(es))
		}
	} else if f.Len+h.HdrLen-6 <= 0xFFFF && f.Audio {
		bad("pes-length", "PES_packet_length 0 on an audio PES that fits 16 bits")
	}
	if !bytes.Equal(es, raw) {
		at := 0
		for at < len(es) && at < len(raw) && es[at] == raw[at] {
			at++
		}
		bad("payload", "elementary payload differs: got %d bytes want %d, first difference at %d", len(es), len(raw), at)
	}
	if want := f.Cc + uint8(np); fr.Cc != want {
		bad("cc-out", "Frame.Cc after Pack = %d want %d", fr.Cc, want)
	}
	return fr.Cc
}

func c09Psi(c *fw.Ctx) {
	pat := mpegts.PackPat()
	c.Eval(1)
	chk := func(name string, b []byte, pid uint16) (ref.Psi, bool) {
		if len(b) != 188 {
			c.Violate("psi/"+name+"/len", fmt.Sprintf("%s length %d", name, len(b)), nil)
			return ref.Psi{}, false
		}
		p, err := ref.ParseTsPacket(b)
		if err != nil {
			c.Violate("psi/"+name+"/packet", err.Error(), nil)
			return ref.Psi{}, false
		}
		if p.PID != pid || !p.PUSI || p.AFC != 1 {
			c.Violate("psi/"+name+"/header", fmt.Sprintf("pid=%#x pusi=%v afc=%d", p.PID, p.PUSI, p.AFC), nil)
		}
		s, err := ref.ParsePsi(p.Payload)
		if err != nil {
			c.Violate("psi/"+name+"/syntax", err.Error(), nil)
			return s, false
		}
		if !s.CrcOK {
			c.Violate("psi/"+name+"/crc", fmt.Sprintf("%s CRC-32/MPEG-2 mismatch: % x", name, b[:40]), nil)
		}
		return s, true
	}
	if s, ok := chk("pat", pat, 0); ok {
		if s.TableID != 0 || len(s.Programs) != 1 || s.Programs[1] != mpegts.PidPmt {
			c.Violate("psi/pat/content", fmt.Sprintf("PAT programs %v", s.Programs), nil)
		}
		c.Cell("pat")
	}
	// all codec pairs incl. unknown ids
	vids := []int{-1, 0, 2, 7, 12, 13, 255}
	auds := []int{-1, 0, 2, 7, 8, 10, 13, 14, 255}
	for _, v := range vids {
		for _, a := range auds {
			b := mpegts.PackPmt(v, a)
			c.Eval(1)
			s, ok := chk(fmt.Sprintf("pmt(v=%d,a=%d)", v, a), b, mpegts.PidPmt)
			if !ok {
				continue
			}
			var want []ref.PmtStream
			switch v {
			case 7:
				want = append(want, ref.PmtStream{StreamType: 0x1b, PID: 0x100})
			case 12:
				want = append(want, ref.PmtStream{StreamType: 0x24, PID: 0x100})
			}
			switch a {
			case 10:
				want = append(want, ref.PmtStream{StreamType: 0x0f, PID: 0x101})
			case 13:
				want = append(want, ref.PmtStream{StreamType: 0x06, PID: 0x101})
			}
			okc := s.TableID == 2 && len(s.Streams) == len(want)
			if okc {
				for i := range want {
					if s.Streams[i].StreamType != want[i].StreamType || s.Streams[i].PID != want[i].PID {
						okc = false
					}
					if want[i].StreamType == 0x06 {
						// Opus in TS: registration descriptor 'Opus'
						if !bytes.Contains(s.Streams[i].Descriptors, []byte{0x05, 0x04, 'O', 'p', 'u', 's'}) {
							okc = false
						}
					}
				}
			}
			if !okc {
				c.Violate("psi/pmt/content", fmt.Sprintf("PMT(v=%d,a=%d) declares %+v want %+v", v, a, s.Streams, want), nil)
			}
			if len(want) > 0 && s.PcrPID != 0x100 {
				c.Violate("psi/pmt/pcrpid", fmt.Sprintf("PCR pid %#x", s.PcrPID), nil)
			}
			c.Cell("pmt/v=%d/a=%d", v, a)
		}
	}
}

const c09RangeCases = 48 // lengths 1..2400 in chunks of 50

func c09Sizes(tier string) (nBoundary, nRandom int) {
	if tier == "thorough" {
		return 400, 80
	}
	return 40, 16
}

func init() {
	fw.Register(&fw.Prop{
		ID: "C09",
		NumCases: func(tier string, seed int64) int {
			nb, nr := c09Sizes(tier)
			return c09RangeCases + nb + nr + 2 + c09RemuxCases
		},
		CaseTimeout: func(string) time.Duration { return 10 * time.Minute },
		Rule: "cases: (a) every length 1..2400 × key/non-key × PTS=DTS/PTS≠DTS × audio/video pid × incoming cc 0..15; " +
			"(b) every length within ±376 of seeded multiples of 184 up to 200 KiB with seeded flags; (c) seeded lengths up to 300 KiB in chains of 3 frames; " +
			"(d) PTS/DTS at 0 and around 2^33; (e) PackPat and PackPmt for all codec id pairs; (f) 12 streams (audio-only, AVC, HEVC, video-only; sparse audio, timestamp jumps) through the real RTMP→TS remuxer wired to the HLS muxer as logic.Group wires them: continuity counters over everything handed to the muxer advance by one per payload packet per PID; the PAT/PMT block handed over for a stream stays unchanged while a second stream with other codecs is remuxed in the same process; (g) probe sweep: the first message of the audio (video) track placed at message #2 … #16 of a video (audio) stream - the PMT declares both tracks. A cell is (clause-class: key × short/exact/multi × pts/dts × track) or a PMT codec pair; " +
			"non-trivial = the frame was packed by lal and fully re-parsed by the reference demuxer.",
		Assumptions: []string{"reference demuxer ref/ts.go follows ISO/IEC 13818-1; its self-test runs in setup_cmd",
			"lal's constant 63000-tick PTS/DTS delay is permitted by the property text"},
		Exhaustive: func(string) bool { return false },
		MinCells:   20,
		Run:        c09Run,
	})
}

const c09RemuxCases = 12

// c09Remux: the continuity clause across frames as the real producer drives it — the RTMP→TS
// remuxer wired to the HLS muxer exactly as logic.Group wires them (a fragment opened by an
// audio frame flushes the audio batch re-entrantly). Over everything handed to the muxer, the
// continuity counter of every PID must advance by one per payload-carrying packet.
func c09Remux(c *fw.Ctx, k int) {
	r := c.Rng
	vc := []string{"", "avc", "hevc", "avc", "hevc-enh", "avc", "hevc-enh", "hevc"}[k%8]
	ac := "aac"
	if k%6 == 5 && vc != "" {
		ac = ""
	}
	if k%12 == 7 && vc != "" {
		// an audio codec MPEG-TS output does not carry: the PMT must not declare it and nothing may be sent on its PID
		ac = []string{"g711a", "g711u"}[(k/12)%2]
	}
	sp := gen.EsSpec{VCodec: vc, ACodec: ac, AacIdx: 4, AacChans: 2, AacObj: 2, NVideo: 150 + r.Intn(150), GopLen: 5 + r.Intn(10), AudioPer: 1 + r.Intn(3), MaxNals: 1 + r.Intn(2),
		VideoMs: []int{20, 40, 100}[r.Intn(3)], AudioGap: r.Intn(3) == 0, TsJump: k%3 == 1, TsStart: []uint32{0, 5000, 0xFFFFFF - 3000}[r.Intn(3)]}
	c.Describe("remuxer continuity: spec=%+v", sp)
	c.Cell("remuxer-cc/%s+%s", vc, ac)
	fs := srv.NewRecFs()
	fs.KeepOps = false
	hls.VerifSetFsl(fs)
	cfg := hls.MuxerConfig{OutPath: "/c09/", FragmentDurationMs: []int{500, 1000, 3000}[k%3], FragmentNum: 3, DeleteThreshold: 1, CleanupMode: 0}
	rig := &c10Rig{c: c, fs: fs, cfg: cfg, name: fmt.Sprintf("cc%d", k), closed: map[string][]byte{}, hasVideo: vc != ""}
	rig.dir = "/c09/" + rig.name
	rig.keepGiven = true
	fs.OnOp = func(op srv.FsOp, _ *srv.RecFs) {
		if op.Op == "create" && strings.HasSuffix(op.Path, ".ts") {
			rig.started = true
		}
	}
	rig.startIncarnation()
	es := gen.BuildEs(c.SubRng("es"), 1, sp)
	for _, m := range es.RtmpMessages(true) {
		var msg base.RtmpMsg
		msg.Header.MsgTypeId, msg.Header.TimestampAbs, msg.Header.MsgLen, msg.Header.MsgStreamId, msg.Header.Csid = m.Type, m.Ts, uint32(len(m.Payload)), 1, csidFor(m.Type)
		msg.Payload = m.Payload
		rig.remuxer.FeedRtmpMessage(msg)
	}
	rig.remuxer.Dispose()
	rig.muxer.Dispose()
	// the memory handed to OnTsPackets belongs to the receiver: later frames must not overwrite it
	for k := range rig.given {
		if !bytes.Equal(rig.given[k], rig.givenCopy[k]) {
			c.Violate("remux/output-overwritten", fmt.Sprintf("the TS packets handed over in callback %d of %d were changed afterwards (the remuxer reuses the memory it gave away) | spec=%+v", k, len(rig.given), sp), nil)
			return
		}
	}
	c.Count("remuxer_callbacks_retained", len(rig.given))
	// so does the PAT/PMT block: receivers keep it for joiners and new segments. Another stream with
	// other codecs, remuxed in the same process afterwards, must not change it.
	{
		vc2, ac2 := "hevc", ""
		if vc == "hevc" || vc == "hevc-enh" {
			vc2 = "avc"
		}
		if vc == "" {
			vc2, ac2 = "avc", "aac"
		}
		if ac == "" {
			ac2 = "aac"
		}
		other := &c09Sink{}
		rm := remux.NewRtmp2MpegtsRemuxer(other)
		es2 := gen.BuildEs(c.SubRng("es2"), 2, gen.EsSpec{VCodec: vc2, ACodec: ac2, AacIdx: 4, AacChans: 2, AacObj: 2, NVideo: 30, GopLen: 5, AudioPer: 1, MaxNals: 1})
		for _, m := range es2.RtmpMessages(true) {
			var msg base.RtmpMsg
			msg.Header.MsgTypeId, msg.Header.TimestampAbs, msg.Header.MsgLen, msg.Header.MsgStreamId, msg.Header.Csid = m.Type, m.Ts, uint32(len(m.Payload)), 1, csidFor(m.Type)
			msg.Payload = m.Payload
			rm.FeedRtmpMessage(msg)
		}
		rm.Dispose()
		c.Count("second_streams_remuxed", 1)
		if !bytes.Equal(rig.patpmtGiven, rig.patpmt) {
			c.Violate("remux/patpmt-overwritten", fmt.Sprintf("the PAT/PMT block handed over for the first stream (%s/%s) was changed when a second stream (%s/%s) was remuxed in the same process (the block is kept by HTTP-TS groups and the HLS muxer) | spec=%+v", vc, ac, vc2, ac2, sp), nil)
			return
		}
	}
	// the PAT/PMT the remuxer announced declares exactly the stream's codecs
	{
		d := ref.NewTsDemux()
		d.Feed(rig.patpmt)
		wantV, wantA := uint8(0), uint8(0)
		switch vc {
		case "avc":
			wantV = 0x1b
		case "hevc", "hevc-enh":
			wantV = 0x24
		}
		if ac == "aac" {
			wantA = 0x0f
		}
		var v, a uint8
		for _, st := range d.FirstPmt.Streams {
			if st.PID == 0x100 {
				v = st.StreamType
			}
			if st.PID == 0x101 {
				a = st.StreamType
			}
		}
		c.Eval(1)
		if len(rig.patpmt) != 376 || !d.PatSeen || !d.PmtSeen || len(d.Errs) > 0 {
			c.Violate("remux/patpmt", fmt.Sprintf("announced PAT/PMT (%d bytes) does not parse: pat=%v pmt=%v errs=%v | spec=%+v", len(rig.patpmt), d.PatSeen, d.PmtSeen, d.Errs, sp), nil)
			return
		} else if v != wantV || a != wantA || len(d.FirstPmt.Streams) != btoi(wantV != 0)+btoi(wantA != 0) {
			c.Violate("remux/pmt-codecs", fmt.Sprintf("PMT declares video %#x audio %#x (%d streams), the stream carries %s/%s = %#x/%#x | spec=%+v", v, a, len(d.FirstPmt.Streams), vc, ac, wantV, wantA, sp), nil)
			return
		}
	}
	last := map[uint16]int{}
	n := 0
	declared := map[uint16]bool{}
	{
		d := ref.NewTsDemux()
		d.Feed(rig.patpmt)
		for _, st := range d.FirstPmt.Streams {
			declared[st.PID] = true
		}
	}
	for idx, pk := range rig.produced {
		p, err := ref.ParseTsPacket(pk)
		if err != nil {
			c.Violate("remux/packet", fmt.Sprintf("packet %d handed to the muxer does not parse: %v", idx, err), nil)
			return
		}
		if (p.PID == 0x100 || p.PID == 0x101) && !declared[p.PID] {
			c.Violate("remux/pid-not-in-pmt", fmt.Sprintf("packet %d of the remuxer's output is on PID %#x, which the announced PMT does not declare | spec=%+v", idx, p.PID, sp), nil)
			return
		}
		if p.AFC&1 == 0 {
			continue // no payload: the counter does not advance
		}
		n++
		if prev, ok := last[p.PID]; ok && int(p.CC) != (prev+1)&15 {
			c.Violate("remux/continuity", fmt.Sprintf("PID %#x: continuity_counter %d follows %d at packet %d of the remuxer's output (a frame was emitted twice or its counter was not carried over) | spec=%+v", p.PID, p.CC, prev, idx, sp), nil)
			return
		}
		last[p.PID] = int(p.CC)
	}
	c.Eval(n)
	c.Count("remuxer_packets_checked", n)
}

// c09Sink is a remuxer observer that only keeps the announced PAT/PMT.
type c09Sink struct{ patpmt []byte }

func (k *c09Sink) OnPatPmt(b []byte) { k.patpmt = append([]byte(nil), b...) }
func (k *c09Sink) OnTsPackets(tsPackets []byte, frame *mpegts.Frame, boundary bool) {
}

// c09ProbeSweep: lal decides the program map from the first messages of a stream (at most 16). A
// track whose first message is the 2nd … 16th message of the stream is inside that window: the
// PMT must declare it (both directions: audio joining a video stream, video joining an audio stream).
func c09ProbeSweep(c *fw.Ctx) {
	es := gen.BuildEs(c.SubRng("probe"), 1, gen.EsSpec{VCodec: "avc", ACodec: "aac", AacIdx: 4, AacChans: 2, AacObj: 2, NVideo: 60, GopLen: 6, AudioPer: 1, MaxNals: 1})
	var vs, as []gen.EsMsg
	for _, m := range es.RtmpMessages(false) {
		if m.Type == 8 {
			as = append(as, m)
		} else if m.Type == 9 {
			vs = append(vs, m)
		}
	}
	for _, lateAudio := range []bool{true, false} {
		first, late := vs, as
		if !lateAudio {
			first, late = as, vs
		}
		for pos := 2; pos <= 16; pos++ {
			c.Describe("probe sweep: first %s message is message #%d of the stream", map[bool]string{true: "audio", false: "video"}[lateAudio], pos)
			var msgs []gen.EsMsg
			msgs = append(msgs, first[:pos-1]...)
			a, b := first[pos-1:], late
			for len(a) > 0 || len(b) > 0 {
				if len(b) > 0 {
					msgs = append(msgs, b[0])
					b = b[1:]
				}
				if len(a) > 0 {
					msgs = append(msgs, a[0])
					a = a[1:]
				}
			}
			sink := &c09Sink{}
			rm := remux.NewRtmp2MpegtsRemuxer(sink)
			for _, m := range msgs {
				var msg base.RtmpMsg
				msg.Header.MsgTypeId, msg.Header.TimestampAbs, msg.Header.MsgLen, msg.Header.MsgStreamId, msg.Header.Csid = m.Type, m.Ts, uint32(len(m.Payload)), 1, csidFor(m.Type)
				msg.Payload = m.Payload
				rm.FeedRtmpMessage(msg)
			}
			rm.Dispose()
			d := ref.NewTsDemux()
			d.Feed(sink.patpmt)
			var v, a8 uint8
			for _, st := range d.FirstPmt.Streams {
				if st.PID == 0x100 {
					v = st.StreamType
				}
				if st.PID == 0x101 {
					a8 = st.StreamType
				}
			}
			c.Eval(1)
			c.Cell("remuxer-probe/late-%s", map[bool]string{true: "audio", false: "video"}[lateAudio])
			if v != 0x1b || a8 != 0x0f {
				c.Violate(fmt.Sprintf("remux/pmt-codecs/track-starts-at-message-%d", pos), fmt.Sprintf("the %s track starts with message #%d of the stream (inside the 16-message probe), the PMT declares video %#x audio %#x (want 0x1b / 0xf)", map[bool]string{true: "audio", false: "video"}[lateAudio], pos, v, a8), nil)
				return
			}
		}
	}
}

func c09Run(c *fw.Ctx, i int) {
	nb, nr := c09Sizes(c.Tier)
	switch {
	case i < c09RangeCases:
		lo, hi := 1+i*50, (i+1)*50
		c.Describe("exhaustive lengths %d..%d × flags × cc", lo, hi)
		for l := lo; l <= hi; l++ {
			for k := 0; k < 2; k++ {
				for pd := 0; pd < 2; pd++ {
					for a := 0; a < 2; a++ {
						for cc := 0; cc < 16; cc++ {
							f := c09Frame{Len: l, Key: k == 1, Audio: a == 1, Cc: uint8(cc), Dts: 900000 + uint64(l)*90}
							f.Pts = f.Dts
							if pd == 1 {
								f.Pts = f.Dts + 3600
							}
							c09CheckFrame(c, f)
						}
					}
				}
			}
		}
		c.Sample(map[string]interface{}{"kind": "exhaustive-range", "lengths": []int{lo, hi}, "flags": "key×ptsdts×pid×cc(16)"})
	case i < c09RangeCases+nb:
		// one multiple of 184 (seeded), every length within ±376 of it
		maxM := 200 * 1024 / 184
		m := 1 + c.Rng.Intn(maxM)
		if k := i - c09RangeCases; k < 14 {
			m = []int{13, 14, 15, 16, 17, 27, 28, 355, 356, 357, 712, 1112, 1113, 1114}[k]
		}
		c.Describe("lengths within ±376 of %d×184", m)
		for l := m*184 - 376; l <= m*184+376; l++ {
			if l < 1 {
				continue
			}
			r := c.Rng.Intn(64)
			f := c09Frame{Len: l, Key: r&1 != 0, Audio: r&2 != 0, Cc: uint8(r >> 2), Dts: uint64(c.Rng.Int63n(1 << 33))}
			f.Pts = f.Dts
			if c.Rng.Intn(2) == 0 {
				f.Pts = f.Dts + uint64(c.Rng.Intn(90000))
			}
			c09CheckFrame(c, f)
		}
		c.Sample(map[string]interface{}{"kind": "stuffing-boundary", "multiple_of_184": m})
	case i < c09RangeCases+nb+nr:
		// chains of 3 frames of seeded lengths: continuity across frames
		for rep := 0; rep < 40; rep++ {
			cc := uint8(c.Rng.Intn(256))
			var lens []int
			for k := 0; k < 3; k++ {
				var l int
				switch c.Rng.Intn(4) {
				case 0:
					l = 1 + c.Rng.Intn(400)
				case 1:
					l = 1 + c.Rng.Intn(4000)
				case 2:
					l = 1 + c.Rng.Intn(70000)
				default:
					l = 1 + c.Rng.Intn(300*1024)
				}
				lens = append(lens, l)
				f := c09Frame{Len: l, Key: c.Rng.Intn(2) == 0, Audio: c.Rng.Intn(3) == 0, Cc: cc, Dts: uint64(c.Rng.Int63n(1 << 33))}
				f.Pts = f.Dts
				if c.Rng.Intn(2) == 0 {
					f.Pts += uint64(c.Rng.Intn(90000))
				}
				cc = c09CheckFrame(c, f)
			}
			if rep == 0 {
				c.Sample(map[string]interface{}{"kind": "chain-of-3", "lengths": lens})
			}
		}
		c.Cell("chain-of-3")
	case i == c09RangeCases+nb+nr:
		c.Describe("PTS/DTS extremes")
		const t33 = uint64(1) << 33
		for _, d := range []uint64{0, 1, c09Delay - 1, c09Delay, c09Delay + 1, t33 - c09Delay - 2, t33 - c09Delay - 1, t33 - c09Delay, t33 - 2, t33 - 1} {
			for _, off := range []uint64{0, 1, 90, 90000} {
				for _, l := range []int{1, 100, 170, 184, 1000} {
					for k := 0; k < 2; k++ {
						c09CheckFrame(c, c09Frame{Len: l, Key: k == 1, Dts: d, Pts: d + off, Cc: 15})
					}
				}
			}
		}
		c.Cell("ts-extremes")
		c.Sample(map[string]interface{}{"kind": "timestamp-extremes", "dts": []string{"0", "delay±1", "2^33-delay±1", "2^33-1"}})
	case i > c09RangeCases+nb+nr+1:
		c09Remux(c, i-(c09RangeCases+nb+nr+2))
	default:
		c.Describe("PackPat/PackPmt")
		c09Psi(c)
		c09ProbeSweep(c)
		c.Sample(map[string]interface{}{"kind": "psi", "video_ids": []int{-1, 0, 2, 7, 12, 13, 255}, "audio_ids": []int{-1, 0, 2, 7, 8, 10, 13, 14, 255}})
	}
}

func min(a, b int) int {
	if a < b {
		return a
	}
	return b
}

func btoi(b bool) int {
	if b {
		return 1
	}
	return 0
}
