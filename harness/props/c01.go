package props

import (
	"fmt"
	"math/rand"
	"time"

	"lalverif/fw"
	"lalverif/gen"
	"lalverif/srv"
)

// C01 — live relay delivers the publisher's messages intact to RTMP/FLV consumers.

func c01Scenario(r *rand.Rand, i int) relayScenario {
	merges := []int{0, 1, 1024, 8192, 65536}
	gops := []int{0, 1, 2, 3}
	caps := []int{0, 1, 3, 10}
	sc := relayScenario{Stream: fmt.Sprintf("s%d", i), FmtMode: i % 3}
	sc.Conf = srv.Conf{
		RtmpGop: gops[i%4], RtmpGopCap: caps[(i/4)%4], MergeWrite: merges[(i/16)%5],
		Flv: true, FlvGop: []int{0, 1, 2}[r.Intn(3)], FlvGopCap: caps[r.Intn(4)],
		RecFlv: r.Intn(2) == 0,
	}
	sc.Push = r.Intn(2) == 0
	if sc.Push {
		sc.PushDead = []int{0, 1, 0, 2}[(i/2)%4]
		sc.PushMore = []int{0, 0, 1, 2}[(i/3)%4] // several healthy targets: each gets the whole stream
	}
	// RTMP players acknowledge what they received (here far more often than the announced window asks for)
	sc.AckEvery = []int{0, 3000, 40000}[(i/5)%3]
	sc.PubChunk = []int{128, 129, 1000, 4096, 60000}[r.Intn(5)]
	sh := gen.Shape{Name: "av", Video: true, Audio: true, Meta: true, MetaSdf: r.Intn(2) == 0, Gops: 4 + r.Intn(5), GopLen: 4 + r.Intn(12), AudioPerVid: r.Intn(3),
		MidMeta: r.Intn(2) == 0, Empties: r.Intn(2) == 0, TsMode: r.Intn(5)}
	switch r.Intn(8) {
	case 0:
		sh.Name, sh.Video = "audio-only", false
		sh.AudioPerVid = 1 + r.Intn(2)
	case 1:
		sh.Name, sh.Audio = "video-only", false
	case 2:
		sh.Name, sh.HdrChangeAt = "hdr-change", 2
	}
	// payload lengths on both sides of multiples of the out-chunk size (4096) and the publisher's chunk size
	sizes := []int{22, 30, 100, 127, 128, 129, 4095, 4096, 4097, 8191, 8192, 8193, 12288, 12289, 20000,
		65519, 65520, 65521, 65535, 65536} // 65520: the FLV tag (11+payload+4) is exactly 65535 bytes, the largest 16-bit WebSocket frame
	for _, k := range []int{1, 2, 3} {
		sizes = append(sizes, k*sc.PubChunk-1, k*sc.PubChunk, k*sc.PubChunk+1)
	}
	var ok []int
	for _, s := range sizes {
		if s >= 22 && s <= 200000 {
			ok = append(ok, s)
		}
	}
	sh.Sizes = ok
	sc.Shape = sh
	// rough message count to place joins/leaves
	per := 1 + sh.AudioPerVid
	if !sh.Video {
		per = sh.AudioPerVid
	}
	total := 3 + sh.Gops*sh.GopLen*per
	nc := 3 + r.Intn(5)
	kinds := []string{"rtmp", "flv", "wsflv"}
	for k := 0; k < nc; k++ {
		p := consumerPlan{Kind: kinds[(k+i)%3], JoinAt: -1, LeaveAt: -1}
		if k >= 2 {
			p.JoinAt = r.Intn(total)
			if r.Intn(3) == 0 {
				p.LeaveAt = p.JoinAt + 1 + r.Intn(total-p.JoinAt)
			}
		} else if r.Intn(4) == 0 {
			p.LeaveAt = 1 + r.Intn(total)
		}
		sc.Consumers = append(sc.Consumers, p)
	}
	if i%8 == 3 {
		// players that are on the name well before the publisher (two housekeeping ticks pass), of one
		// protocol family only: whoever waits for a stream must still be there, and be served, when it starts
		fam := [][]string{{"flv", "wsflv"}, {"rtmp"}, {"wsflv"}, {"flv"}}[(i/8)%4]
		for k := range sc.Consumers {
			sc.Consumers[k].Kind = fam[k%len(fam)]
		}
		sc.PreDelayMs = 2300
	}
	if i%8 == 5 {
		// a second publisher takes over the name while consumers stay: joiners that arrive between
		// the two (placed by the Run function at the exact boundary) must get a run of the second
		// publisher's messages only
		sh2 := sh
		sh2.Name, sh2.Gops, sh2.HdrChangeAt = "republish", 2+r.Intn(3), 0
		sc.More = []gen.Shape{sh2}
		sc.Conf.RecFlv = false
	}
	return sc
}

func scenarioDesc(sc relayScenario) map[string]interface{} {
	var cons []string
	for _, p := range sc.Consumers {
		cons = append(cons, fmt.Sprintf("%s@%d..%d", p.Kind, p.JoinAt, p.LeaveAt))
	}
	return map[string]interface{}{"rtmp_gop": sc.Conf.RtmpGop, "gop_cap": sc.Conf.RtmpGopCap, "merge_write": sc.Conf.MergeWrite, "flv_gop": sc.Conf.FlvGop,
		"record": sc.Conf.RecFlv, "push": sc.Push, "push_dead_targets": sc.PushDead, "push_healthy_targets_extra": sc.PushMore, "rtmp_ack_every": sc.AckEvery, "wait_before_publisher_ms": sc.PreDelayMs, "pub_chunk": sc.PubChunk, "shape": sc.Shape.String(), "consumers": cons, "fmt_mode": sc.FmtMode}
}

// c01Judge applies the C01 oracle to one consumer history.
func c01Judge(c *fw.Ctx, sc relayScenario, res *relayResult, rec *consumerRec, prefix string) {
	pub := res.Pub
	f := newFwd(pub)
	kind := rec.Kind
	bad := func(clause, format string, a ...interface{}) {
		c.Violate(prefix+clause+"/"+kind, fmt.Sprintf(format, a...)+fmt.Sprintf(" | consumer=%s join=%d left=%d scenario=%v", kind, rec.JoinK, rec.LeftAt, scenarioDesc(sc)), nil)
	}
	if rec.ParseErr != "" {
		bad("parse", "consumer byte stream does not parse: %s", rec.ParseErr)
		return
	}
	if !rec.Admitted {
		c.Inconclusive("consumer %s: %s", kind, rec.Note)
		return
	}
	if rec.JoinK == -2 || rec.Ts != nil {
		return // parse-only record / TS consumer (judged elsewhere)
	}
	for n, it := range rec.Items {
		if it.Idx < 0 {
			bad("unknown-message", "item %d (type %d ts %d len %d) matches no published message: payload altered or foreign", n, it.Type, it.Ts, it.Len)
			return
		}
		p := pub[it.Idx]
		if it.Type != p.Type {
			bad("type", "item %d: type %d, published %d", n, it.Type, p.Type)
		}
		if it.Ts != p.Ts {
			bad("timestamp", "item %d (published idx %d, kind %s): timestamp %d, published %d", n, it.Idx, p.Kind, it.Ts, p.Ts)
			return
		}
	}
	var live []recvItem
	if rec.JoinK >= 0 {
		seenLive := false
		seenPro := map[int]bool{}
		for n, it := range rec.Items {
			if it.Idx < rec.JoinK && pub[it.Idx].IsMedia() {
				// what was published before admission reaches a joiner through the GOP cache only: once
				if seenPro[it.Idx] {
					bad("duplicate", "published message %d (before admission) delivered twice to the joiner", it.Idx)
					return
				}
				seenPro[it.Idx] = true
			}
			if it.Idx >= rec.JoinK {
				seenLive = true
				live = append(live, it)
			} else if seenLive {
				bad("order", "item %d (published idx %d) was published before admission but arrives after live data", n, it.Idx)
				return
			}
		}
	} else {
		var pro []recvItem
		pro, live = splitPrologueLive(f, rec.Items)
		seen := map[int]bool{}
		for _, it := range pro {
			if seen[it.Idx] {
				bad("duplicate", "published message %d delivered twice before the live run", it.Idx)
				return
			}
			seen[it.Idx] = true
			if len(live) > 0 && it.Idx >= live[0].Idx {
				bad("gap-or-reorder", "published message %d arrives before a live run starting at %d (gap, duplicate or reordering)", it.Idx, live[0].Idx)
				return
			}
		}
	}
	// header messages forwarded to a joiner that is still waiting for its first key frame belong
	// to the start-up prologue: the contiguous run is judged from the first media item on
	for len(live) > 1 && !pub[live[0].Idx].IsMedia() && f.pos[live[1].Idx] != f.pos[live[0].Idx]+1 {
		if live[1].Idx <= live[0].Idx {
			bad("order", "header messages delivered out of order before the live run: %d then %d", live[0].Idx, live[1].Idx)
			return
		}
		live = live[1:]
	}
	for n := 1; n < len(live); n++ {
		a, b := live[n-1].Idx, live[n].Idx
		if f.pos[b] != f.pos[a]+1 {
			what := "skipped"
			if f.pos[b] <= f.pos[a] {
				what = "duplicated or reordered"
			}
			var seq []int
			for _, it := range rec.Items {
				seq = append(seq, it.Idx)
			}
			if len(seq) > 120 {
				seq = seq[:120]
			}
			bad("contiguity", "live run: published %d (%s) followed by %d (%s): %s; received idx sequence %v", a, pub[a].Kind, b, pub[b].Kind, what, seq)
			return
		}
	}
	// start bound
	if rec.JoinK >= 0 {
		firstFwd, firstKey := -1, -1
		for _, m := range pub {
			if m.Idx >= rec.JoinK && len(m.Payload) > 0 {
				if firstFwd < 0 {
					firstFwd = m.Idx
				}
				if m.Kind == gen.Key && firstKey < 0 {
					firstKey = m.Idx
				}
			}
		}
		end := len(pub)
		if rec.LeftAt >= 0 {
			end = rec.LeftAt
		}
		bound := firstKey
		if !sc.Shape.Video {
			bound = firstFwd
		}
		if bound >= 0 && bound < end-1 && kind != "record" {
			if len(live) == 0 {
				withheld := 0
				for p := f.pos[bound]; p < len(f.list); p++ {
					withheld += len(pub[f.list[p]].Payload) + 12
				}
				if rec.LeftAt < 0 && !(kind == "rtmp" && sc.Conf.MergeWrite > 0 && withheld < sc.Conf.MergeWrite) {
					bad("nothing-delivered", "no live message delivered although deliverable message %d was published after admission", bound)
				}
			} else if live[0].Idx > bound {
				bad("late-start", "live run starts at %d, but message %d (%s) was deliverable", live[0].Idx, bound, pub[bound].Kind)
			}
		}
		if kind == "record" && len(f.list) > 0 && (len(live) == 0 || live[0].Idx != f.list[0]) {
			bad("record-start", "recording does not start with the first published message")
		}
	}
	// end bound (not for a joiner that is legitimately still waiting for a key frame: no media
	// item received at all and no key frame published after its admission)
	anyMedia := false
	for _, it := range rec.Items {
		if pub[it.Idx].IsMedia() {
			anyMedia = true
		}
	}
	keyAfter := false
	if rec.JoinK >= 0 {
		for _, m := range pub {
			if m.Idx >= rec.JoinK && m.Kind == gen.Key {
				keyAfter = true
			}
		}
	}
	stillWaiting := sc.Shape.Video && !anyMedia && !keyAfter && rec.JoinK >= 0
	if rec.LeftAt < 0 && len(f.list) > 0 && len(live) > 0 && !stillWaiting {
		last := f.list[len(f.list)-1]
		got := live[len(live)-1].Idx
		if got != last {
			missing := 0
			for p := f.pos[got] + 1; p < len(f.list); p++ {
				l := len(pub[f.list[p]].Payload)
				if pub[f.list[p]].Type == 18 {
					l = len(gen.StripSdf(pub[f.list[p]].Payload))
				}
				missing += l + 12 + l/4096
			}
			if kind == "rtmp" && sc.Conf.MergeWrite > 0 && missing < sc.Conf.MergeWrite {
				c.Count("merge_write_tail_withheld", 1)
			} else {
				bad("truncated", "run ends at published %d but the publisher's last forwardable message is %d (%d bytes undelivered, merge_write_size %d) %s", got, last, missing, sc.Conf.MergeWrite, rec.Note)
			}
		}
	}
	c.Eval(1)
	c.Count("consumer_histories", 1)
	c.Count("messages_checked", len(rec.Items))
}

func c01Sizes(tier string) int {
	if tier == "thorough" {
		return 2400
	}
	return 160
}

func init() {
	fw.Register(&fw.Prop{
		ID:          "C01",
		NumCases:    func(tier string, seed int64) int { return c01Sizes(tier) },
		CaseTimeout: func(string) time.Duration { return 3 * time.Minute },
		Rule: "one case = one whole-server scenario: seeded config (rtmp gop_num 0..3 × per-GOP cap {0,1,3,10} × merge_write_size {0,1,1024,8192,65536}, flv gop, recording, relay push to a stub target, in half of those cases next to one or two targets that are down and/or one or two further healthy targets, each of which must get the whole stream); RTMP consumers that acknowledge received bytes (message type 3) every 3 000 / 40 000 bytes in two thirds of the cases, a reference RTMP publisher with its own chunk size and header formats sending 60–400 tagged messages (A/V/metadata with and without @setDataFrame, zero-length messages, lengths around multiples of 4096 and of the publisher's chunk size, timestamps across 0xFFFFFF / 2^32 / non-monotonic / one forward jump of ≥ 0xFFFFFF ms which a third of the publishers send as a format-1 delta with the extended timestamp field), 3–7 RTMP / HTTP-FLV / WS-FLV consumers joining and leaving at seeded message indices (exact admission index via the stream hook's processed-count clock). " +
			"one case in eight has players of one protocol family only that wait on the name for two housekeeping ticks before the publisher arrives; one case in eight adds a second publisher taking over the name, with RTMP/FLV/WS-FLV joiners placed exactly between the two: none of their items may be a message of the first publisher. oracle per consumer: every item matches a published message (content hash), same type and ms timestamp, items published after admission form one contiguous in-order run without duplicates that starts no later than the first deliverable key frame and ends at the publisher's last message (RTMP: minus < merge_write_size). cell = consumer kind × config cell × join class.",
		Assumptions: []string{"reference RTMP client/chunk codec, FLV and WebSocket parsers (harness/ref)", "publisher is paced so that no 1024-entry consumer queue can fill (no back-pressure)",
			"the stream hook's OnMsg is called inside lal's fan-out critical section (read from the code); used only as a clock"},
		MinCells: 10,
		Run: func(c *fw.Ctx, i int) {
			sc := c01Scenario(c.Rng, i)
			boundary := -1
			if len(sc.More) > 0 {
				boundary = len(gen.BuildAt(c.SubRng("relay"), 1, sc.Shape, 0))
				for k, kd := range []string{"rtmp", "flv", "wsflv", "rtmp", "flv"} {
					sc.Consumers = append(sc.Consumers, consumerPlan{Kind: kd, JoinAt: boundary + []int{0, 0, 0, 1, 2}[k], LeaveAt: -1})
				}
			}
			c.Describe("%v", scenarioDesc(sc))
			res := runRelay(c, sc, c.SubRng("relay"))
			if res.Err != "" {
				c.Inconclusive("%s", res.Err)
				return
			}
			if sc.Push && !res.PushSeen {
				c.Violate("push/never-attached", fmt.Sprintf("relay push target never received a publish although a publisher was accepted | %v", scenarioDesc(sc)), nil)
			} else if sc.Push && len(res.PushTargetsMissing) > 0 {
				c.Violate("push/target-never-attached", fmt.Sprintf("%d of %d healthy relay push targets never received a publish (targets %v) | %v", len(res.PushTargetsMissing), 1+sc.PushMore, res.PushTargetsMissing, scenarioDesc(sc)), nil)
			}
			c.Count("push_targets_served", res.PushTargetsSeen)
			c.Count("messages_published_as_extended_timestamp_deltas", res.ExtDeltas)
			for _, rec := range res.Consumers {
				if boundary >= 0 {
					// only the consumers that joined the second publisher are judged here (what the
					// others see across the hand-over is C16's subject)
					if rec.JoinK < boundary || !rec.Admitted {
						c.Count("republish_consumers_not_judged", 1)
						continue
					}
					foreign := false
					for n, it := range rec.Items {
						if it.Idx >= 0 && it.Idx < boundary {
							c.Violate("foreign-publisher/"+rec.Kind, fmt.Sprintf("item %d is message %d of the previous publisher (the current one's messages start at %d); consumer joined at %d | scenario=%v", n, it.Idx, boundary, rec.JoinK, scenarioDesc(sc)), nil)
							foreign = true
							break
						}
					}
					if foreign {
						continue
					}
					c.Count("republish_joiners_judged", 1)
				}
				c01Judge(c, sc, &res, rec, "")
				jc := "pre-publisher"
				if rec.Plan.JoinAt >= 0 {
					jc = "mid-stream"
				}
				if rec.Admitted && len(rec.Items) > 0 {
					c.Cell("%s/gop=%d/cap=%d/merge=%d/%s/%s", rec.Kind, sc.Conf.RtmpGop, sc.Conf.RtmpGopCap, sc.Conf.MergeWrite, jc, sc.Shape.Name)
				}
			}
			if i < 3 {
				c.Sample(scenarioDesc(sc))
			}
		},
	})
}
