package props

import (
	"bytes"
	"fmt"
	"math"
	"math/rand"
	"strings"
	"sync"
	"time"

	"lalverif/fw"
	"lalverif/ref"

	"github.com/q191201771/lal/pkg/rtmp"
)

// C18 — AMF0 encode/decode is exact, total and bounded.

// lalToRef converts what lal's readers return into the reference value model.
func lalToRef(v interface{}) ref.AmfValue {
	switch x := v.(type) {
	case float64:
		return ref.AmfNum(x)
	case bool:
		return ref.AmfBool(x)
	case string:
		return ref.AmfStr(x)
	case rtmp.ObjectPairArray:
		o := ref.AmfValue{Kind: ref.AmfObject}
		for _, p := range x {
			o.Pairs = append(o.Pairs, ref.AmfPair{Key: p.Key, Val: lalToRef(p.Value)})
		}
		return o
	}
	return ref.AmfValue{Kind: ref.AmfUnsupported, Str: fmt.Sprintf("%T", v)}
}

// normalize maps a reference value tree to what lal's reader model can express: containers
// become ordered pair lists (strict-array items get key ""), null/undefined members vanish.
func amfNormalize(v ref.AmfValue) (ref.AmfValue, bool) {
	switch v.Kind {
	case ref.AmfNull, ref.AmfUndefined, ref.AmfUnsupported:
		return v, false
	case ref.AmfObject, ref.AmfEcmaArray:
		o := ref.AmfValue{Kind: ref.AmfObject}
		for _, p := range v.Pairs {
			if n, ok := amfNormalize(p.Val); ok {
				o.Pairs = append(o.Pairs, ref.AmfPair{Key: p.Key, Val: n})
			}
		}
		return o, true
	case ref.AmfStrictArray:
		o := ref.AmfValue{Kind: ref.AmfObject}
		for _, it := range v.Items {
			if n, ok := amfNormalize(it); ok {
				o.Pairs = append(o.Pairs, ref.AmfPair{Key: "", Val: n})
			}
		}
		return o, true
	}
	v.ForceLong = false
	return v, true
}

func amfDesc(v ref.AmfValue, depth int) string {
	switch v.Kind {
	case ref.AmfNumber:
		return fmt.Sprintf("num(%x)", math.Float64bits(v.Num))
	case ref.AmfBoolean:
		return fmt.Sprintf("bool(%v)", v.Bool)
	case ref.AmfString:
		return fmt.Sprintf("str(len=%d)", len(v.Str))
	case ref.AmfNull:
		return "null"
	case ref.AmfUndefined:
		return "undef"
	case ref.AmfObject, ref.AmfEcmaArray:
		k := "obj"
		if v.Kind == ref.AmfEcmaArray {
			k = "ecma"
		}
		if depth > 3 {
			return k + "{…}"
		}
		var s []string
		for _, p := range v.Pairs {
			s = append(s, fmt.Sprintf("%q:%s", trunc(p.Key, 12), amfDesc(p.Val, depth+1)))
		}
		return k + "{" + strings.Join(s, ",") + "}"
	case ref.AmfStrictArray:
		if depth > 3 {
			return "arr[…]"
		}
		var s []string
		for _, it := range v.Items {
			s = append(s, amfDesc(it, depth+1))
		}
		return "arr[" + strings.Join(s, ",") + "]"
	}
	return "?"
}

func trunc(s string, n int) string {
	if len(s) > n {
		return s[:n] + "…"
	}
	return s
}

var c18StrLens = []int{0, 1, 2, 13, 255, 256, 65534, 65535, 65536, 65537, 70000}

func c18RandStr(r *rand.Rand, n int) string {
	b := make([]byte, n)
	for i := range b {
		b[i] = byte(r.Intn(256))
	}
	return string(b)
}

func c18RandNum(r *rand.Rand) float64 {
	switch r.Intn(10) {
	case 0:
		return 0
	case 1:
		return math.Copysign(0, -1)
	case 2:
		return math.Inf(1)
	case 3:
		return math.Inf(-1)
	case 4:
		return math.Float64frombits(0x7ff8000000000001 | uint64(r.Int63())&0xfffffffffffff) // NaN with payload
	case 5:
		return float64(r.Intn(100000))
	}
	return math.Float64frombits(r.Uint64())
}

// c18FlatObject: what lal's WriteObject can encode: string / number / bool members.
func c18FlatObject(r *rand.Rand, allowLong bool) (rtmp.ObjectPairArray, ref.AmfValue) {
	n := r.Intn(8)
	var opa rtmp.ObjectPairArray
	want := ref.AmfValue{Kind: ref.AmfObject}
	for i := 0; i < n; i++ {
		key := c18RandStr(r, []int{0, 1, 5, 20, 300}[r.Intn(5)])
		if i == 0 && key == "" {
			// a leading member with empty key and a value whose marker is 0x09 would read as
			// object end; empty keys are legal AMF0 but ambiguous next to the end marker — keep.
		}
		switch r.Intn(4) {
		case 0:
			l := c18StrLens[r.Intn(len(c18StrLens))]
			if !allowLong && l > 65535 {
				l = 65535
			}
			s := c18RandStr(r, l)
			opa = append(opa, rtmp.ObjectPair{Key: key, Value: s})
			want.Pairs = append(want.Pairs, ref.AmfPair{Key: key, Val: ref.AmfStr(s)})
		case 1:
			f := c18RandNum(r)
			opa = append(opa, rtmp.ObjectPair{Key: key, Value: f})
			want.Pairs = append(want.Pairs, ref.AmfPair{Key: key, Val: ref.AmfNum(f)})
		case 2:
			iv := r.Intn(1<<31) - 1<<30
			opa = append(opa, rtmp.ObjectPair{Key: key, Value: iv})
			want.Pairs = append(want.Pairs, ref.AmfPair{Key: key, Val: ref.AmfNum(float64(iv))})
		default:
			b := r.Intn(2) == 0
			opa = append(opa, rtmp.ObjectPair{Key: key, Value: b})
			want.Pairs = append(want.Pairs, ref.AmfPair{Key: key, Val: ref.AmfBool(b)})
		}
	}
	return opa, want
}

func c18Tree(r *rand.Rand, depth int, readSide bool) ref.AmfValue {
	k := r.Intn(10)
	if depth <= 0 && k >= 4 {
		k = r.Intn(4)
	}
	switch k {
	case 0:
		return ref.AmfNum(c18RandNum(r))
	case 1:
		return ref.AmfBool(r.Intn(2) == 0)
	case 2, 3:
		l := []int{0, 1, 7, 100}[r.Intn(4)]
		if r.Intn(40) == 0 {
			l = c18StrLens[r.Intn(len(c18StrLens))]
		}
		v := ref.AmfStr(c18RandStr(r, l))
		if r.Intn(20) == 0 {
			v.ForceLong = true
		}
		return v
	case 4:
		if r.Intn(2) == 0 {
			return ref.AmfNul()
		}
		return ref.AmfValue{Kind: ref.AmfUndefined}
	case 5, 6, 7:
		v := ref.AmfValue{Kind: ref.AmfObject}
		if k == 7 {
			v.Kind = ref.AmfEcmaArray
		}
		n := r.Intn(5)
		for i := 0; i < n; i++ {
			key := c18RandStr(r, 1+r.Intn(12))
			v.Pairs = append(v.Pairs, ref.AmfPair{Key: key, Val: c18Tree(r, depth-1, readSide)})
		}
		return v
	default:
		v := ref.AmfValue{Kind: ref.AmfStrictArray}
		n := r.Intn(5)
		for i := 0; i < n; i++ {
			v.Items = append(v.Items, c18Tree(r, depth-1, readSide))
		}
		return v
	}
}

// guard runs f under recover; a panic is a violation (out-of-bounds read, nil deref, …).
func c18Guard(c *fw.Ctx, what string, input []byte, f func()) {
	defer func() {
		if r := recover(); r != nil {
			msg := fmt.Sprint(r)
			cat := reDigitsP.ReplaceAllString(msg, "N")
			c.Violate("panic/"+what+"/"+trunc(cat, 60), fmt.Sprintf("%s panicked: %v | input(%d bytes) % x", what, r, len(input), input[:min(len(input), 48)]), nil)
		}
	}()
	f()
}

func c18LalDecoders() map[string]func(b []byte) (interface{}, int, error) {
	return map[string]func(b []byte) (interface{}, int, error){
		"ReadString":        func(b []byte) (interface{}, int, error) { return rtmp.Amf0.ReadString(b) },
		"ReadNumber":        func(b []byte) (interface{}, int, error) { return rtmp.Amf0.ReadNumber(b) },
		"ReadBoolean":       func(b []byte) (interface{}, int, error) { return rtmp.Amf0.ReadBoolean(b) },
		"ReadNull":          func(b []byte) (interface{}, int, error) { n, e := rtmp.Amf0.ReadNull(b); return nil, n, e },
		"ReadObject":        func(b []byte) (interface{}, int, error) { return rtmp.Amf0.ReadObject(b) },
		"ReadArray":         func(b []byte) (interface{}, int, error) { return rtmp.Amf0.ReadArray(b) },
		"ReadStrictArray":   func(b []byte) (interface{}, int, error) { return rtmp.Amf0.ReadStrictArray(b) },
		"ReadObjectOrArray": func(b []byte) (interface{}, int, error) { return rtmp.Amf0.ReadObjectOrArray(b) },
		"ParseMetadata":     func(b []byte) (interface{}, int, error) { v, e := rtmp.ParseMetadata(b); return v, 0, e },
		"MetadataEnsureWithSdf": func(b []byte) (interface{}, int, error) {
			v, e := rtmp.MetadataEnsureWithSdf(b)
			return v, 0, e
		},
		"MetadataEnsureWithoutSdf": func(b []byte) (interface{}, int, error) {
			v, e := rtmp.MetadataEnsureWithoutSdf(b)
			return v, 0, e
		},
	}
}

var c18DeepKinds = []string{"object", "strict-array", "ecma-array", "mixed"}
var c18DeepLevels = []int{1000, 32768, 1 << 20, 5500000}

func c18Sizes(tier string) (nRound, nBytes int) {
	if tier == "thorough" {
		return 320, 320
	}
	return 24, 24
}

func init() {
	fw.Register(&fw.Prop{
		ID: "C18",
		NumCases: func(tier string, seed int64) int {
			a, b := c18Sizes(tier)
			return a + b + 2 + len(c18DeepKinds)*len(c18DeepLevels)
		},
		CaseTimeout:        func(string) time.Duration { return 3 * time.Minute },
		TimeoutIsViolation: true,
		Rule: "round-trip: values lal's writers can encode (flat objects, strings 0..70000 incl. 65535/65536, numbers incl. NaN payloads/±0/±Inf, booleans, null) decoded by lal and by the reference decoder; reference-encoded trees (object, ECMA array, strict array, null/undefined, nesting ≤ 6, forced long strings) decoded by lal; " +
			"arbitrary bytes: random, mutated valid encodings, every truncation of small encodings, count fields 2^32−1, lengths beyond the buffer, through every public reader incl. metadata helpers, under recover with a watchdog; " +
			"deep nesting 1k/32k/1M/5.5M levels (16 MiB) of objects / strict arrays / ECMA arrays in a child with the default Go stack limit; @setDataFrame ensure/strip byte equality; BuildMetadata read-back. cell = clause × value-shape class.",
		Assumptions: []string{"reference AMF0 codec ref/amf0.go (self-tested)", "null/undefined members are dropped by lal's reader model and lal cannot write them: not judged",
			"a run-away decode is judged by a 3-minute per-case watchdog (termination clause)"},
		MinCells: 15,
		Run:      c18Run,
	})
	fw.TimeoutSig["C18"] = func(log, desc string) string { return "timeout/decode" }
}

func c18Run(c *fw.Ctx, i int) {
	nR, nB := c18Sizes(c.Tier)
	switch {
	case i < nR:
		c18RoundTrip(c)
	case i < nR+nB:
		c18Arbitrary(c)
	case i == nR+nB:
		c18Sdf(c)
	case i == nR+nB+1:
		c18BuildMetadata(c)
	default:
		k := i - nR - nB - 2
		c18Deep(c, c18DeepKinds[k/len(c18DeepLevels)], c18DeepLevels[k%len(c18DeepLevels)])
	}
}

func c18RoundTrip(c *fw.Ctx) {
	r := c.Rng
	for rep := 0; rep < 400; rep++ {
		// (1) lal writer → lal reader and reference reader
		opa, want := c18FlatObject(r, true)
		var buf bytes.Buffer
		c.Describe("WriteObject %s", amfDesc(want, 0))
		if err := rtmp.Amf0.WriteObject(&buf, opa); err != nil {
			c.Violate("roundtrip/write-error", err.Error(), nil)
			continue
		}
		enc := buf.Bytes()
		c.Eval(1)
		shape := "short"
		for _, p := range want.Pairs {
			if p.Val.Kind == ref.AmfString && len(p.Val.Str) > 65535 {
				shape = "long-string"
			}
		}
		rv, rn, rerr := ref.AmfDecode(enc)
		if rerr != nil || rn != len(enc) || !rv.Equal(want) {
			c.Violate("roundtrip/lal-writer->ref/"+shape, fmt.Sprintf("reference decoder: err=%v consumed=%d/%d equal=%v | %s", rerr, rn, len(enc), rv.Equal(want), amfDesc(want, 0)), nil)
		}
		c18Guard(c, "ReadObject", enc, func() {
			got, n, err := rtmp.Amf0.ReadObject(enc)
			if err != nil {
				c.Violate("roundtrip/lal-writer->lal/"+shape, fmt.Sprintf("ReadObject of lal's own encoding fails: %v | %s", err, amfDesc(want, 0)), nil)
				return
			}
			if n != len(enc) {
				c.Violate("roundtrip/consumed/"+shape, fmt.Sprintf("consumed %d of %d | %s", n, len(enc), amfDesc(want, 0)), nil)
			}
			if g := lalToRef(got); !g.Equal(want) {
				c.Violate("roundtrip/value/"+shape, fmt.Sprintf("decoded %s want %s", amfDesc(g, 0), amfDesc(want, 0)), nil)
			}
		})
		c.Cell("roundtrip/lal-object/%s/members=%d", shape, len(want.Pairs))
		// (1b) the same encoding through rtmp.Buffer, the way MessagePacker builds commands
		// (12 bytes reserved for the chunk header, then AMF0 values appended)
		c18Guard(c, "rtmp.Buffer", nil, func() {
			pb := rtmp.NewBuffer([]int{12, 16, 256, 300}[r.Intn(4)])
			pb.ModWritePos(12)
			pre := c18RandStr(r, []int{0, 10, 200, 500, 5000, 70000}[r.Intn(6)])
			rtmp.Amf0.WriteString(pb, pre)
			rtmp.Amf0.WriteNumber(pb, 1)
			rtmp.Amf0.WriteObject(pb, opa)
			var wantB bytes.Buffer
			rtmp.Amf0.WriteString(&wantB, pre)
			rtmp.Amf0.WriteNumber(&wantB, 1)
			rtmp.Amf0.WriteObject(&wantB, opa)
			got := pb.Bytes()
			c.Eval(1)
			cl := "small"
			if wantB.Len() > 500 {
				cl = "grows"
			}
			c.Cell("packer-buffer/%s", cl)
			if len(got) != 12+wantB.Len() || !bytes.Equal(got[12:], wantB.Bytes()) {
				c.Violate("packer-buffer/content/"+cl, fmt.Sprintf("rtmp.Buffer holds %d bytes, want 12+%d; content equal=%v (first string %d bytes)", len(got), wantB.Len(), len(got) == 12+wantB.Len() && bytes.Equal(got[12:], wantB.Bytes()), len(pre)), nil)
			}
		})
		// scalars
		s := c18RandStr(r, c18StrLens[r.Intn(len(c18StrLens))])
		buf.Reset()
		rtmp.Amf0.WriteString(&buf, s)
		enc = append([]byte(nil), buf.Bytes()...)
		c18Guard(c, "ReadString", enc, func() {
			got, n, err := rtmp.Amf0.ReadString(enc)
			if err != nil || n != len(enc) || got != s {
				c.Violate("roundtrip/string", fmt.Sprintf("string len %d: err=%v consumed=%d/%d equal=%v", len(s), err, n, len(enc), got == s), nil)
			}
		})
		if v, n, err := ref.AmfDecode(enc); err != nil || n != len(enc) || v.Str != s {
			c.Violate("roundtrip/string-ref", fmt.Sprintf("reference decoder on lal's string len %d: %v", len(s), err), nil)
		}
		form := "short"
		if len(s) > 65535 {
			form = "long"
		}
		c.Cell("roundtrip/string/%s", form)
		f := c18RandNum(r)
		buf.Reset()
		rtmp.Amf0.WriteNumber(&buf, f)
		enc = append([]byte(nil), buf.Bytes()...)
		got, n, err := rtmp.Amf0.ReadNumber(enc)
		if err != nil || n != 9 || math.Float64bits(got) != math.Float64bits(f) {
			c.Violate("roundtrip/number", fmt.Sprintf("number %x: got %x err=%v n=%d", math.Float64bits(f), math.Float64bits(got), err, n), nil)
		}
		c.Cell("roundtrip/number")
		bv := r.Intn(2) == 0
		buf.Reset()
		rtmp.Amf0.WriteBoolean(&buf, bv)
		if g, n, err := rtmp.Amf0.ReadBoolean(buf.Bytes()); err != nil || n != 2 || g != bv {
			c.Violate("roundtrip/boolean", "boolean mismatch", nil)
		}
		buf.Reset()
		rtmp.Amf0.WriteNull(&buf)
		if n, err := rtmp.Amf0.ReadNull(buf.Bytes()); err != nil || n != 1 {
			c.Violate("roundtrip/null", "null mismatch", nil)
		}
		c.Eval(4)
		// (2) reference-encoded trees → lal reader
		tree := c18Tree(r, 1+r.Intn(5), true)
		top := ref.AmfValue{Kind: []ref.AmfKind{ref.AmfObject, ref.AmfEcmaArray, ref.AmfStrictArray}[r.Intn(3)]}
		if top.Kind == ref.AmfStrictArray {
			top.Items = []ref.AmfValue{tree, c18Tree(r, 2, true)}
		} else {
			top.Pairs = []ref.AmfPair{{Key: "k", Val: tree}, {Key: c18RandStr(r, 3), Val: c18Tree(r, 2, true)}}
		}
		enc = ref.AmfEncode(nil, top)
		wantN, _ := amfNormalize(top)
		kind := map[ref.AmfKind]string{ref.AmfObject: "object", ref.AmfEcmaArray: "ecma", ref.AmfStrictArray: "strict"}[top.Kind]
		c.Describe("ref tree %s", amfDesc(top, 0))
		c18Guard(c, "Read-"+kind, enc, func() {
			var got rtmp.ObjectPairArray
			var n int
			var err error
			switch top.Kind {
			case ref.AmfObject:
				got, n, err = rtmp.Amf0.ReadObject(enc)
			case ref.AmfEcmaArray:
				got, n, err = rtmp.Amf0.ReadArray(enc)
			default:
				got, n, err = rtmp.Amf0.ReadStrictArray(enc)
			}
			c.Eval(1)
			hasLong := bytes.Contains(enc, []byte{0x0c})
			if err != nil {
				c.Violate("tree/"+kind+"/error", fmt.Sprintf("lal fails on a valid encoding: %v | %s", err, amfDesc(top, 0)), nil)
				return
			}
			if n != len(enc) {
				c.Violate("tree/"+kind+"/consumed", fmt.Sprintf("consumed %d of %d | %s", n, len(enc), amfDesc(top, 0)), nil)
			}
			if g := lalToRef(got); !g.Equal(wantN) {
				c.Violate("tree/"+kind+"/value", fmt.Sprintf("decoded %s want %s", amfDesc(g, 0), amfDesc(wantN, 0)), nil)
			}
			_ = hasLong
			c.Cell("tree/%s", kind)
		})
		if rep == 0 {
			c.Sample(map[string]interface{}{"kind": "round-trip", "lal_object": amfDesc(want, 0), "ref_tree": trunc(amfDesc(top, 0), 300)})
		}
	}
}

func c18Arbitrary(c *fw.Ctx) {
	r := c.Rng
	decs := c18LalDecoders()
	names := make([]string, 0, len(decs))
	for k := range decs {
		names = append(names, k)
	}
	sortStrings(names)
	run := func(class string, b []byte) {
		for _, name := range names {
			f := decs[name]
			c18Guard(c, name, b, func() {
				_, n, _ := f(b)
				if n < 0 || n > len(b) {
					c.Violate("arbitrary/consumed-out-of-range/"+name, fmt.Sprintf("%s reports %d consumed of %d bytes | % x", name, n, len(b), b[:min(len(b), 48)]), nil)
				}
			})
		}
		c.Eval(len(names))
		c.Cell("arbitrary/%s", class)
	}
	markers := []byte{0, 1, 2, 3, 5, 6, 8, 9, 0x0a, 0x0b, 0x0c, 0x0d, 0xff}
	for rep := 0; rep < 1500; rep++ {
		var b []byte
		class := ""
		switch rep % 6 {
		case 0:
			class = "random"
			b = []byte(c18RandStr(r, r.Intn(64)))
			if len(b) > 0 && r.Intn(2) == 0 {
				b[0] = markers[r.Intn(len(markers))]
			}
		case 1:
			class = "truncated-valid"
			enc := ref.AmfEncode(nil, c18TopContainer(r))
			b = enc[:r.Intn(len(enc)+1)]
		case 2:
			class = "mutated-valid"
			b = ref.AmfEncode(nil, c18TopContainer(r))
			for k := 0; k < 1+r.Intn(3); k++ {
				if len(b) > 0 {
					b[r.Intn(len(b))] = byte(r.Intn(256))
				}
			}
		case 3:
			class = "huge-count"
			mk := []byte{0x08, 0x0a}[r.Intn(2)]
			b = []byte{mk, 0xff, 0xff, 0xff, 0xff}
			fill := [][]byte{{5}, {6}, {0, 0, 5}, {0, 1, 'a', 5}, {0x0a, 0xff, 0xff, 0xff, 0xff}}[r.Intn(5)]
			for k := 0; k < r.Intn(2000); k++ {
				b = append(b, fill...)
			}
		case 4:
			class = "length-beyond-buffer"
			switch r.Intn(3) {
			case 0:
				b = []byte{0x0c, 0xff, 0xff, 0xff, byte(r.Intn(256)), 'a', 'b'}
			case 1:
				b = []byte{0x02, 0xff, byte(r.Intn(256)), 'a'}
			default:
				b = []byte{0x03, 0xff, 0xff, 'k'}
			}
			// also as metadata: string then container with bad length
			b = append(ref.AmfEncode(nil, ref.AmfStr("onMetaData")), b...)
			if r.Intn(2) == 0 {
				b = b[13:]
			}
		default:
			class = "sdf-prefix+garbage"
			b = ref.AmfEncode(nil, ref.AmfStr("@setDataFrame"))
			b = append(b, []byte(c18RandStr(r, r.Intn(20)))...)
		}
		c.Describe("%s % x", class, b[:min(len(b), 64)])
		run(class, b)
	}
	// every truncation of a few small encodings
	for _, v := range []ref.AmfValue{
		ref.AmfObj(ref.AmfPair{Key: "a", Val: ref.AmfNum(1)}, ref.AmfPair{Key: "b", Val: ref.AmfStr("xy")}, ref.AmfPair{Key: "c", Val: ref.AmfObj(ref.AmfPair{Key: "d", Val: ref.AmfBool(true)})}),
		{Kind: ref.AmfEcmaArray, Pairs: []ref.AmfPair{{Key: "w", Val: ref.AmfNum(2)}, {Key: "s", Val: ref.AmfValue{Kind: ref.AmfStrictArray, Items: []ref.AmfValue{ref.AmfNul(), ref.AmfStr("z")}}}}},
	} {
		enc := ref.AmfEncode(nil, v)
		meta := append(ref.AmfEncodeAll(ref.AmfStr("@setDataFrame"), ref.AmfStr("onMetaData")), enc...)
		for _, e := range [][]byte{enc, meta} {
			for n := 0; n <= len(e); n++ {
				run("every-truncation", e[:n])
			}
		}
	}
	c.Sample(map[string]interface{}{"kind": "arbitrary-bytes", "classes": []string{"random", "truncated-valid", "mutated-valid", "huge-count", "length-beyond-buffer", "sdf-prefix+garbage", "every-truncation"}, "decoders": names})
}

func c18TopContainer(r *rand.Rand) ref.AmfValue {
	v := ref.AmfValue{Kind: []ref.AmfKind{ref.AmfObject, ref.AmfEcmaArray, ref.AmfStrictArray}[r.Intn(3)]}
	if v.Kind == ref.AmfStrictArray {
		v.Items = []ref.AmfValue{c18Tree(r, 3, true), c18Tree(r, 2, true)}
	} else {
		v.Pairs = []ref.AmfPair{{Key: "k", Val: c18Tree(r, 3, true)}, {Key: "j", Val: c18Tree(r, 2, true)}}
	}
	return v
}

func c18Sdf(c *fw.Ctx) {
	r := c.Rng
	sdf := ref.AmfEncode(nil, ref.AmfStr("@setDataFrame"))
	for rep := 0; rep < 3000; rep++ {
		first := []string{"onMetaData", "onTextData", "", "@setDataFram", "@setDataFrame2", c18RandStr(r, r.Intn(30))}[r.Intn(6)]
		body := ref.AmfEncodeAll(ref.AmfStr(first))
		if r.Intn(8) == 0 {
			v := ref.AmfStr(first)
			v.ForceLong = true
			body = ref.AmfEncode(nil, v)
		}
		// remaining bytes are opaque to the helpers: valid container or arbitrary bytes
		if r.Intn(2) == 0 {
			body = append(body, ref.AmfEncode(nil, c18TopContainer(r))...)
		} else {
			body = append(body, []byte(c18RandStr(r, r.Intn(200)))...)
		}
		with := append(append([]byte(nil), sdf...), body...)
		// the same prefix in its long-string encoding (marker 0x0c, 32-bit length): present is present,
		// stripping removes exactly the prefix, ensuring leaves the bytes alone
		lv := ref.AmfStr("@setDataFrame")
		lv.ForceLong = true
		withLong := append(ref.AmfEncode(nil, lv), body...)
		if rep%4 == 0 {
			c.Describe("sdf long-form input % x", withLong[:min(len(withLong), 48)])
			c18Guard(c, "MetadataEnsure", withLong, func() {
				w, err1 := rtmp.MetadataEnsureWithSdf(withLong)
				wo, err2 := rtmp.MetadataEnsureWithoutSdf(withLong)
				c.Eval(2)
				if err1 != nil || err2 != nil {
					// a reader that does not take the long form at all answers with an error: recorded
					c.Count("sdf_long_form_refused", 1)
					return
				}
				if !bytes.Equal(w, withLong) && !bytes.Equal(w, with) {
					c.Violate("sdf/ensure-with", fmt.Sprintf("EnsureWithSdf on a long-form prefix: got %d bytes, input %d | first string %q", len(w), len(withLong), first), nil)
				}
				if !bytes.Equal(wo, body) && !bytes.Equal(wo, withLong) {
					c.Violate("sdf/ensure-without", fmt.Sprintf("EnsureWithoutSdf on a long-form prefix: got %d bytes, want the %d bytes behind the prefix (or the input untouched) | first string %q", len(wo), len(body), first), nil)
				}
			})
			c.Cell("sdf/long-form-prefix")
		}
		for _, in := range [][]byte{body, with} {
			c.Describe("sdf input % x", in[:min(len(in), 48)])
			c18Guard(c, "MetadataEnsure", in, func() {
				w, err1 := rtmp.MetadataEnsureWithSdf(in)
				wo, err2 := rtmp.MetadataEnsureWithoutSdf(in)
				c.Eval(2)
				if err1 != nil || err2 != nil {
					c.Violate("sdf/error", fmt.Sprintf("helpers fail on metadata starting with a string: %v %v | % x", err1, err2, in[:min(len(in), 48)]), nil)
					return
				}
				if !bytes.Equal(w, with) {
					c.Violate("sdf/ensure-with", fmt.Sprintf("EnsureWithSdf altered the bytes: got %d bytes want %d | first string %q", len(w), len(with), first), nil)
				}
				if !bytes.Equal(wo, body) {
					c.Violate("sdf/ensure-without", fmt.Sprintf("EnsureWithoutSdf altered the bytes: got %d bytes want %d | first string %q", len(wo), len(body), first), nil)
				}
			})
		}
		c.Cell("sdf/first=%s", map[bool]string{true: "known", false: "random"}[rep%6 < 5])
	}
	c.Cell("sdf/both-directions")
	c.Sample(map[string]interface{}{"kind": "setDataFrame", "inputs": 6000})
}

func c18BuildMetadata(c *fw.Ctx) {
	vals := []int{-1, 0, 1, 7, 10, 12, 1920, 65536, 1<<31 - 1}
	for _, w := range vals {
		for _, h := range vals {
			for _, a := range []int{-1, 0, 7, 8, 10, 13} {
				for _, v := range []int{-1, 0, 7, 12} {
					b, err := rtmp.BuildMetadata(w, h, a, v)
					c.Eval(1)
					if err != nil {
						c.Violate("buildmetadata/error", err.Error(), nil)
						continue
					}
					want := map[string]int{"width": w, "height": h, "audiocodecid": a, "videocodecid": v}
					vs, err := ref.AmfDecodeAll(b)
					if err != nil || len(vs) != 2 || vs[0].Str != "onMetaData" || (vs[1].Kind != ref.AmfObject && vs[1].Kind != ref.AmfEcmaArray) {
						c.Violate("buildmetadata/ref-parse", fmt.Sprintf("reference decoder: %v values=%d", err, len(vs)), nil)
						continue
					}
					opa, err := rtmp.ParseMetadata(b)
					if err != nil {
						c.Violate("buildmetadata/lal-parse", err.Error(), nil)
						continue
					}
					for k, x := range want {
						rv, ok := vs[1].Get(k)
						lv, lerr := opa.FindNumber(k)
						if x == -1 {
							if ok || lerr == nil {
								c.Violate("buildmetadata/field", fmt.Sprintf("field %s present although not given", k), nil)
							}
							continue
						}
						if !ok || rv.Kind != ref.AmfNumber || rv.Num != float64(x) || lerr != nil || lv != x {
							c.Violate("buildmetadata/field", fmt.Sprintf("field %s: ref=%v lal=%v(%v) want %d", k, rv.Num, lv, lerr, x), nil)
						}
					}
				}
			}
		}
	}
	c.Cell("buildmetadata/all-present")
	c.Cell("buildmetadata/some-absent")
	c18Concurrent(c)
	c.Sample(map[string]interface{}{"kind": "BuildMetadata", "grid": "9×9×6×4"})
}

// c18Concurrent: every session encodes its own commands and metadata on its own goroutine. Encoders running at the
// same time, each into its own writer, must produce what they produce alone (no state shared between calls).
func c18Concurrent(c *fw.Ctx) {
	const workers, per = 12, 4000
	type out struct {
		bad  int
		what string
	}
	res := make([]out, workers)
	var wg sync.WaitGroup
	for w := 0; w < workers; w++ {
		wg.Add(1)
		go func(w int) {
			defer wg.Done()
			for k := 0; k < per; k++ {
				x := float64(w*1000003 + k)
				var buf bytes.Buffer
				_ = rtmp.Amf0.WriteNumber(&buf, x)
				_ = rtmp.Amf0.WriteString(&buf, fmt.Sprintf("w%d-%d", w, k))
				_ = rtmp.Amf0.WriteObject(&buf, rtmp.ObjectPairArray{{Key: "n", Value: x}, {Key: "s", Value: fmt.Sprintf("s%d", k)}, {Key: "b", Value: k%2 == 0}})
				want := ref.AmfEncodeAll(ref.AmfNum(x), ref.AmfStr(fmt.Sprintf("w%d-%d", w, k)),
					ref.AmfValue{Kind: ref.AmfObject, Pairs: []ref.AmfPair{{Key: "n", Val: ref.AmfNum(x)}, {Key: "s", Val: ref.AmfStr(fmt.Sprintf("s%d", k))}, {Key: "b", Val: ref.AmfBool(k%2 == 0)}}})
				if !bytes.Equal(buf.Bytes(), want) {
					if res[w].bad == 0 {
						res[w].what = fmt.Sprintf("worker %d value %d: lal wrote % x, alone it writes % x", w, k, buf.Bytes(), want)
					}
					res[w].bad++
				}
				if k%8 == 0 {
					b, err := rtmp.BuildMetadata(w+1, k+1, 10, 7)
					if err == nil {
						if opa, err := rtmp.ParseMetadata(b); err == nil {
							if wv, e1 := opa.FindNumber("width"); e1 != nil || wv != w+1 {
								if res[w].bad == 0 {
									res[w].what = fmt.Sprintf("worker %d: BuildMetadata(width=%d) reads back width=%d", w, w+1, wv)
								}
								res[w].bad++
							}
						}
					}
				}
			}
		}(w)
	}
	wg.Wait()
	c.Eval(workers * per)
	c.Count("concurrent_encodings", workers*per)
	total, first := 0, ""
	for _, o := range res {
		total += o.bad
		if first == "" {
			first = o.what
		}
	}
	if total > 0 {
		c.Violate("concurrent/encoders-share-state", fmt.Sprintf("%d of %d encodings done by %d goroutines at the same time differ from the same encoding done alone; first: %s", total, workers*per, workers, trunc(first, 400)), nil)
	}
	c.Cell("concurrent/encoders")
}

// c18Deep: containers nested `levels` deep, decoded with the process's default stack limit.
// Unbounded recursion ends the process with "fatal error: stack overflow", which the driver
// records as a crash of this case.
func c18Deep(c *fw.Ctx, kind string, levels int) {
	var b []byte
	unit := func(k int) []byte {
		switch kind {
		case "object":
			return []byte{0x03, 0x00, 0x01, 'a'} // object marker, then key "a" whose value is the next object
		case "strict-array":
			return []byte{0x0a, 0, 0, 0, 1}
		case "ecma-array":
			return []byte{0x08, 0, 0, 0, 1, 0x00, 0x01, 'a'}
		}
		if k%2 == 0 {
			return []byte{0x03, 0x00, 0x01, 'a'}
		}
		return []byte{0x0a, 0, 0, 0, 1}
	}
	for k := 0; k < levels && len(b) < 16<<20; k++ {
		b = append(b, unit(k)...)
	}
	real := len(b) / len(unit(0))
	c.Describe("deep nesting kind=%s levels=%d bytes=%d", kind, real, len(b))
	// as a bare value and as metadata (the path a publisher's data message takes)
	meta := append(ref.AmfEncodeAll(ref.AmfStr("onMetaData")), b...)
	c18Guard(c, "deep", b[:16], func() {
		switch kind {
		case "strict-array":
			rtmp.Amf0.ReadStrictArray(b)
		case "ecma-array":
			rtmp.Amf0.ReadArray(b)
		default:
			rtmp.Amf0.ReadObject(b)
		}
		rtmp.ParseMetadata(meta)
		rtmp.Amf0.ReadObjectOrArray(b)
	})
	c.Eval(3)
	c.Cell("deep/%s/levels=%d", kind, levels)
	c.Sample(map[string]interface{}{"kind": "deep-nesting", "container": kind, "levels": real, "bytes": len(b)})
}
