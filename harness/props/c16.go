package props

import (
	"bytes"
	"encoding/json"
	"fmt"
	"os"
	"path/filepath"
	"runtime"
	"strings"
	"sync"
	"sync/atomic"
	"time"

	"github.com/q191201771/lal/pkg/base"

	"lalverif/fw"
	"lalverif/gen"
	"lalverif/ref"
	"lalverif/srv"
)

// C16 — when an input ends every output is finalised once and the name starts clean.
//
// Finalise scenarios: one server with every per-stream output on (HLS on disk, FLV and TS
// recorders, relay push to a stub target, the stream hook, RTMP/FLV/TS consumers); K
// incarnations of one stream name with changing codecs; each is cut at a seeded instant of its
// message sequence by a seeded way (client close, API kick, going silent, server Dispose).
// After each end the harness inspects what the outputs look like *at that moment*: hook calls,
// push target, recordings, playlist and segments; then what the joiners and long-lived
// consumers of the next incarnation receive (tags carry the incarnation id).
//
// Resource scenarios: warm-up cycles, baseline goroutine / descriptor counts with no session
// left, M churn cycles over every protocol incl. abandoned RTSP handshakes, counts again.

func c16Setup(c *fw.Ctx) {
	base.LogicCheckSessionAliveIntervalSec = 2
}

const c16IdleBound = 2*2*time.Second + 3*time.Second // 2·interval + 3 ticks

var c16Codecs = [][2]string{{"avc", "aac"}, {"hevc", "aac"}, {"", "aac"}, {"avc", ""}, {"hevc-enh", "aac"}, {"avc", "aac"}, {"hevc", ""}}

type c16Cons struct {
	kind string
	rtmp *ref.RtmpSubscriber
	http *srv.HttpSub
	inc  int // incarnation it joined in (0 = long-lived)
}

func (x *c16Cons) close() {
	if x.rtmp != nil {
		x.rtmp.Close()
	}
	if x.http != nil {
		x.http.Close()
	}
}

func (x *c16Cons) closed() bool {
	if x.rtmp != nil {
		return x.rtmp.Hist.IsClosed()
	}
	return x.http.Closed()
}

// incs returns the incarnation ids of all tags the consumer has received so far, in order
// (consecutive duplicates collapsed).
func (x *c16Cons) incs() []int {
	var out []int
	add := func(b []byte) {
		for _, t := range gen.FindTags(b) {
			if len(out) == 0 || out[len(out)-1] != t.Inc {
				out = append(out, t.Inc)
			}
		}
	}
	switch {
	case x.rtmp != nil:
		for _, m := range x.rtmp.Hist.Snapshot() {
			add(m.Payload)
		}
	case x.kind == "flv":
		for _, t := range x.http.Tags() {
			add(t.Data)
		}
	default:
		// a PES is complete only when the next one starts on its PID, so completion order mixes
		// the PIDs: list the video PID's tags first, then the audio PID's (each in stream order)
		d := ref.NewTsDemux()
		body := x.http.Body()
		d.Feed(body[:len(body)/188*188])
		d.Flush()
		for _, pid := range []uint16{0x100, 0x101} {
			out = append(out, -1) // separator
			for _, p := range d.Out {
				if p.PID == pid {
					add(p.Data)
				}
			}
		}
	}
	return out
}

// mediaOf counts the media frames (not sequence headers) of incarnation inc received so far.
func (x *c16Cons) mediaOf(inc int) int {
	n := 0
	add := func(b []byte) {
		for _, t := range gen.FindTags(b) {
			if t.Inc == inc && t.Idx < gen.SeqHdrTagBase {
				n++
			}
		}
	}
	switch {
	case x.rtmp != nil:
		for _, m := range x.rtmp.Hist.Snapshot() {
			add(m.Payload)
		}
	case x.kind == "flv":
		for _, t := range x.http.Tags() {
			add(t.Data)
		}
	}
	return n
}

func c16StartCons(s *srv.Server, kind, name string, inc int) (*c16Cons, error) {
	x := &c16Cons{kind: kind, inc: inc}
	var err error
	from := s.Notify.Len()
	var local string
	switch kind {
	case "rtmp":
		x.rtmp, err = ref.StartRtmpSubscriber(s.RtmpAddr(), "live", name, 5*time.Second)
		if err == nil {
			local = srv.Key(x.rtmp.RC.Conn)
		}
	default:
		x.http, err = srv.StartHttpSub(s.HttpAddr(), "/live/"+name+"."+kind, kind, 5*time.Second)
		if err == nil {
			local = srv.Key(x.http.Conn)
		}
	}
	if err != nil {
		return nil, err
	}
	s.Notify.WaitSessionFrom(5*time.Second, from, "sub_start", local)
	return x, nil
}

func c16Spec(r interface{ Intn(int) int }, codec [2]string) gen.EsSpec {
	sp := gen.EsSpec{VCodec: codec[0], ACodec: codec[1], NVideo: 30 + r.Intn(60), GopLen: 5 + r.Intn(8), AudioPer: 1 + r.Intn(3), MaxNals: 1 + r.Intn(3),
		InBandPS: r.Intn(2) == 0, AudSei: r.Intn(3) == 0, BFrames: r.Intn(2) == 0, TsStart: []uint32{0, 1000, 0xFFFFFF - 500}[r.Intn(3)], AudioGap: r.Intn(3) == 0, LonePS: r.Intn(3) == 0}
	if codec[1] == "aac" {
		sp.AacIdx = []int{3, 4, 8, 11}[r.Intn(4)]
		sp.AacChans = 1 + r.Intn(2)
		sp.AacObj = 2
	}
	return sp
}

// truncated copy of es containing only the frames carried by msgs[:n]
func c16Truncate(es *gen.EsStream, msgs []gen.EsMsg, n int) *gen.EsStream {
	last := -1
	for _, m := range msgs[:n] {
		if m.Frame > last {
			last = m.Frame
		}
	}
	cp := *es
	cp.Frames = es.Frames[:last+1]
	return &cp
}

func c16Finalise(c *fw.Ctx, i int) {
	r := c.Rng
	K := 3
	if c.Tier == "thorough" {
		K = 3 + r.Intn(3)
	}
	root := filepath.Join(c.Scratch, fmt.Sprintf("c16-%d", i))
	os.MkdirAll(root, 0755)
	defer os.RemoveAll(root)
	stub, err := ref.NewRtmpStub(nil)
	if err != nil {
		c.Inconclusive("push stub: %v", err)
		return
	}
	defer stub.Close()
	conf := srv.Conf{RtmpGop: 1 + r.Intn(2), Flv: true, FlvGop: 1, Ts: true, TsGop: i % 2, Hls: true, HlsFragMs: 1000, HlsFragNum: 4000, HlsDelThr: 4000, HlsCleanup: 0,
		Rtsp: true, RecFlv: true, RecTs: true, Api: true, PushAddrs: []string{stub.Addr}, MergeWrite: []int{0, 0, 2048}[r.Intn(3)], HlsHttpsOnly: i%6 == 1}
	if i%4 == 0 {
		// the first incarnation of these cases ends while mid-GOP joiners are still waiting for a key
		// frame: without GOP caches the RTMP and HTTP-FLV joiners wait too (and stay for the successor)
		conf.RtmpGop, conf.FlvGop = 0, 0
	}
	s, err := srv.Start(conf, root)
	if err != nil {
		c.Inconclusive("server start: %v", err)
		return
	}
	hooks := s.InstallHook(false)
	stopped := false
	defer func() {
		if !stopped {
			s.Stop()
		}
	}()
	name := fmt.Sprintf("f%d", i)
	ways := []string{"close", "kick", "idle"}
	var long []*c16Cons
	defer func() {
		for _, x := range long {
			x.close()
		}
	}()
	ensureLong := func() {
		kinds := []string{"rtmp", "flv", "ts"}
		for k, kind := range kinds {
			if k < len(long) && long[k] != nil && !long[k].closed() {
				continue
			}
			x, err := c16StartCons(s, kind, name, 0)
			if err != nil {
				c.Inconclusive("long-lived %s consumer: %v", kind, err)
				continue
			}
			for len(long) <= k {
				long = append(long, nil)
			}
			if long[k] != nil {
				long[k].close()
			}
			long[k] = x
		}
	}
	var carry, nextCarry []*c16Cons
	defer func() {
		for _, x := range append(carry, nextCarry...) {
			x.close()
		}
	}()
	for cyc := 0; cyc < K; cyc++ {
		inc := cyc + 1
		codec := c16Codecs[(i/5+cyc*3+r.Intn(2))%len(c16Codecs)]
		if i%8 == 0 && cyc < 2 {
			// players left waiting for a key frame by a video incarnation, then an audio-only successor
			codec = [][2]string{{"avc", "aac"}, {"", "aac"}}[cyc]
		}
		sp := c16Spec(r, codec)
		es := gen.BuildEs(c.SubRng(fmt.Sprintf("es%d", cyc)), inc, sp)
		msgs := es.RtmpMessages(true)
		nHdr := 0
		for _, m := range msgs {
			if m.Frame < 0 {
				nHdr++
			}
		}
		// end instant
		var n int
		cls := ""
		forceJoin := -1
		endClass := r.Intn(8)
		if i%4 == 0 && cyc == 0 {
			endClass = 7 // (http-ts gop_num is 0 in these cases: a mid-GOP joiner has nothing to start from)
		}
		switch endClass {
		case 7:
			// the input ends a few messages after the mid-GOP joiners attached, before the next key frame:
			// they are still waiting for one when the successor arrives
			// (after lal's 16-message codec probe, so that the joiners really are served and waiting)
			kk := -1
			for k, m := range msgs {
				if k >= nHdr+17 && m.Frame >= 0 && es.Frames[m.Frame].Video && es.Frames[m.Frame].Key {
					kk = k
					break
				}
			}
			if kk >= 0 && kk+5 <= len(msgs) {
				forceJoin = kk + 2
				n, cls = kk+4, "shortly-after-join"
			} else {
				n, cls = len(msgs), "complete"
			}
		case 0:
			n, cls = 0, "nothing-sent"
		case 1:
			n, cls = nHdr, "headers-only"
		case 2:
			// right after a key frame
			var ks []int
			for k, m := range msgs {
				if m.Frame >= 0 && es.Frames[m.Frame].Video && es.Frames[m.Frame].Key {
					ks = append(ks, k+1)
				}
			}
			if len(ks) > 0 {
				n, cls = ks[r.Intn(len(ks))], "after-key"
			} else {
				n, cls = len(msgs), "complete"
			}
		case 3:
			// after an audio frame (batched audio pending)
			var as []int
			for k, m := range msgs {
				if k > nHdr+10 && m.Frame >= 0 && !es.Frames[m.Frame].Video {
					as = append(as, k+1)
				}
			}
			if len(as) > 0 {
				n, cls = as[r.Intn(len(as))], "after-audio"
			} else {
				n, cls = len(msgs), "complete"
			}
		case 4:
			n, cls = len(msgs), "complete"
		default:
			n, cls = nHdr+1+r.Intn(len(msgs)-nHdr-1), "mid-stream"
		}
		way := ways[(i/5+cyc)%3]
		if cyc == K-1 && (i/5)%3 == 0 {
			way = "dispose"
		}
		desc := fmt.Sprintf("cycle %d/%d inc=%d codec=%v end=%s@%d/%d way=%s merge=%d", cyc+1, K, inc, codec, cls, n, len(msgs), way, conf.MergeWrite)
		c.Describe("%s spec=%+v", desc, sp)
		c.Cell("%s/%s/%s+%s", way, cls, codec[0], codec[1])
		ensureLong()
		// players that arrive while the name has no input (between two publishers): they belong
		// to the next incarnation and must be served by it like anybody else
		var gapJoin []*c16Cons
		if cyc > 0 {
			for _, kind := range []string{"rtmp", "flv"} {
				if x, err := c16StartCons(s, kind, name, inc); err == nil {
					gapJoin = append(gapJoin, x)
				}
			}
		}

		// … and an RTSP player whose DESCRIBE arrives in the gap: lal holds it until the stream has a
		// description, which must then be the successor's
		var gapRtsp *ref.RtspClient
		var gapSdp ref.Sdp
		var gapErr error
		gapDone := make(chan struct{})
		if cyc > 0 {
			if rc, err := ref.DialRtsp(s.RtspAddr(), 3*time.Second); err == nil {
				gapRtsp = rc
				go func() {
					defer close(gapDone)
					gapSdp, gapErr = rc.Play("rtsp://"+s.RtspAddr()+"/live/"+name, false, 6*time.Second)
				}()
				time.Sleep(40 * time.Millisecond)
			}
		}
		defer func() {
			if gapRtsp != nil {
				gapRtsp.Close()
			}
		}()

		from := s.Notify.Len()
		nStubBefore := len(stub.Snapshot())
		pub, err := ref.StartRtmpPublisher(s.RtmpAddr(), "live", name, 5*time.Second)
		if err != nil {
			c.Inconclusive("publisher: %v | %s", err, desc)
			return
		}
		paddr := srv.Key(pub.RC.Conn)
		ev, ok := s.Notify.WaitSessionFrom(5*time.Second, from, "pub_start", paddr)
		if !ok {
			pub.Close()
			c.Inconclusive("publisher not accepted | %s", desc)
			return
		}
		pub.RC.SetChunkSize(60000)
		hook := hooks.Latest(name)
		sent := 0
		waitProcessed := func() bool {
			return srv.WaitFor(10*time.Second, func() bool { return hook != nil && hook.Count() >= sent })
		}
		var joiners []*c16Cons
		joinAt := nHdr + 1 + r.Intn(8)
		if forceJoin >= 0 {
			joinAt = forceJoin
		}
		statChecked := false
		// an input that goes silent has usually been healthy for a long time first: in half of the
		// "idle" endings the last messages are spread over more than two check periods (2 s each)
		slowTail := way == "idle" && (i+inc)%2 == 0 && n > nHdr+4
		for k, m := range msgs[:n] {
			if slowTail && k >= n-16 {
				time.Sleep(300 * time.Millisecond)
			}
			if k == joinAt {
				waitProcessed()
				for _, kind := range []string{"rtmp", "flv", "ts"} {
					x, err := c16StartCons(s, kind, name, inc)
					if err != nil {
						c.Inconclusive("joiner %s: %v", kind, err)
						continue
					}
					joiners = append(joiners, x)
				}
			}
			if err := pub.RC.Send(ref.RtmpMsg{Csid: csidFor(m.Type), TypeID: m.Type, StreamID: pub.Msid, Ts: m.Ts, Payload: m.Payload}, 0); err != nil {
				c.Inconclusive("publisher send: %v | %s", err, desc)
				pub.Close()
				return
			}
			sent++
			if k%16 == 15 {
				waitProcessed()
			}
			if k == nHdr+25 && !statChecked {
				statChecked = true
				waitProcessed()
				c16CheckStat(c, s, name, codec, desc)
			}
		}
		if !waitProcessed() {
			c.Violate("stalled", "lal did not process all published messages within 10 s | "+desc, nil)
			pub.Close()
			return
		}
		if gapRtsp != nil {
			select {
			case <-gapDone:
				if gapErr == nil {
					foreign, own := 0, 0
					for _, t := range gen.FindTags([]byte(sdpParamBytes(gapSdp))) {
						if t.Inc == inc {
							own++
						} else {
							foreign++
						}
					}
					hasVideo := false
					for _, m := range gapSdp.Media {
						if m.Kind == "video" {
							hasVideo = true
						}
					}
					c.Count("gap_rtsp_descriptions_judged", 1)
					if foreign > 0 || (hasVideo && codec[0] == "") {
						c.Violate("leak/gap-joiner-rtsp-sdp", fmt.Sprintf("an RTSP player whose DESCRIBE arrived while the name had no input was described a predecessor's stream (parameter-set tags: %d of other incarnations, %d of incarnation %d; video section=%v, this incarnation's codecs %v) | %s", foreign, own, inc, hasVideo, codec, desc), nil)
					}
				}
			default:
				// still pending (this incarnation never produced a description) - nothing to judge
			}
			gapRtsp.Close()
		}
		// ---- end the input
		t0 := time.Now()
		switch way {
		case "close":
			pub.Close()
		case "kick":
			b, _ := json.Marshal(map[string]string{"stream_name": name, "session_id": ev.SessionId})
			_, resp, _ := srv.HttpPostJson(s.ApiAddr(), "/api/ctrl/kick_session", string(b), 3*time.Second)
			if !strings.Contains(string(resp), `"error_code":0`) {
				c.Violate("kick-refused", fmt.Sprintf("kick_session of the publisher answered %s | %s", trunc(string(resp), 200), desc), nil)
				pub.Close()
			}
		case "idle":
			// stay connected, send nothing
		case "dispose":
			stopped = true
			go s.Stop()
		}
		bound := 5 * time.Second
		if way == "idle" {
			bound = c16IdleBound + 2*time.Second
		}
		_, gotStop := s.Notify.WaitSessionFrom(bound, from, "pub_stop", paddr)
		took := time.Since(t0)
		if way == "idle" {
			c.Count("idle_disconnects", 1)
			if !gotStop {
				c.Violate("idle-not-disconnected", fmt.Sprintf("a publisher that stopped sending was still admitted after %v (check interval 2 s, bound %v) | %s", took, c16IdleBound+2*time.Second, desc), nil)
				pub.Close()
				s.Notify.WaitSessionFrom(5*time.Second, from, "pub_stop", paddr)
			} else if !srv.WaitFor(2*time.Second, pub.PeerClosed) {
				c.Violate("idle-socket-open", "pub_stop was notified for the silent publisher but its connection was not closed | "+desc, nil)
			}
		} else if !gotStop && way != "dispose" {
			c.Violate("no-pub-stop/"+way, fmt.Sprintf("no pub_stop notification within %v after the input ended | %s", bound, desc), nil)
		}
		if way == "kick" && !srv.WaitFor(3*time.Second, pub.PeerClosed) {
			c.Violate("kick-socket-open", "kicked publisher's connection still open after 3 s | "+desc, nil)
		}
		// every output told to stop: wait for the hook (it is the second step of lal's teardown)
		srv.WaitFor(3*time.Second, func() bool { return hook != nil && hook.Stops() >= 1 })
		time.Sleep(150 * time.Millisecond)
		pub.Close()
		c.Eval(1)

		// (a) hook
		if hook == nil {
			c.Violate("hook-missing", "no stream hook session was created for the input | "+desc, nil)
		} else {
			if hook.Stops() != 1 {
				c.Violate("hook-stop-count/"+way, fmt.Sprintf("stream hook OnStop called %d times, expected exactly 1 | %s", hook.Stops(), desc), nil)
			}
			if hook.Count() != sent {
				c.Violate("hook-msg-count", fmt.Sprintf("stream hook saw %d messages, %d were published | %s", hook.Count(), sent, desc), nil)
			}
		}
		// (b) relay push target
		var tgt *ref.StubSession
		for _, ss := range stub.Snapshot()[nStubBefore:] {
			tgt = ss
		}
		if tgt == nil {
			if !srv.WaitFor(1*time.Second, func() bool { return len(stub.Snapshot()) > nStubBefore }) {
				c.Count("push_never_connected", 1)
			}
		} else if !srv.WaitFor(3*time.Second, tgt.IsClosed) {
			c.Violate("push-not-closed/"+way, "the relay-push session to the target is still open 3 s after its publisher ended | "+desc, nil)
		} else {
			c.Count("push_closed", 1)
		}
		// (c) recordings, (d) HLS
		tes := c16Truncate(es, msgs, n)
		jd := &c06Judge{c: c, es: tes, desc: desc}
		c16CheckFlvRec(c, s, name, msgs[:n], desc)
		c16CheckTsRec(c, jd, s, name, desc)
		c16CheckHls(c, jd, s, name, tes, desc)
		// (e) consumers of this incarnation
		for _, x := range joiners {
			for _, got := range x.incs() {
				if got >= 0 && got != inc {
					c.Violate("leak/joiner-"+x.kind, fmt.Sprintf("a %s consumer that joined incarnation %d received data tagged with incarnation %d | %s", x.kind, inc, got, desc), nil)
					break
				}
			}
			if (x.kind == "ts" || cls == "shortly-after-join") && way != "dispose" {
				// an HTTP-TS player that joined mid-GOP stays for the next incarnation too: it may still be
				// waiting for a key frame when the input changes. So do the RTMP / HTTP-FLV players of the
				// "shortly-after-join" endings: whatever they were waiting for belongs to a stream that is
				// gone, the successor (possibly audio only) must serve them like anybody else
				nextCarry = append(nextCarry, x)
				continue
			}
			x.close()
		}
		// gap joiners: only this incarnation's data, and they do get it (the first deliverable frame
		// is a key frame when the incarnation has video, any audio frame when it has not)
		deliverable := 0
		for _, m := range msgs[:n] {
			if m.Frame < 0 {
				continue
			}
			f := es.Frames[m.Frame]
			if (codec[0] == "" && !f.Video) || (codec[0] != "" && f.Video && f.Key) || (deliverable > 0) {
				deliverable++
			}
		}
		for _, x := range gapJoin {
			x := x
			if way != "dispose" && deliverable >= 6 && !(x.kind == "rtmp" && conf.MergeWrite > 0) {
				got := srv.WaitFor(2*time.Second, func() bool {
					for _, g := range x.incs() {
						if g == inc {
							return true
						}
					}
					return false
				})
				c.Count("gap_joiners_judged", 1)
				if !got {
					c.Violate("gap-joiner-starved/"+x.kind, fmt.Sprintf("a %s consumer that joined while the name had no input received nothing of the next publisher although %d deliverable frames were published | %s", x.kind, deliverable, desc), nil)
				}
			}
			for _, got := range x.incs() {
				if got >= 0 && got != inc {
					c.Violate("leak/gap-joiner-"+x.kind, fmt.Sprintf("a %s consumer that joined before incarnation %d started received data tagged with incarnation %d | %s", x.kind, inc, got, desc), nil)
					break
				}
			}
			x.close()
		}
		for _, x := range carry {
			x := x
			if x.kind == "ts" || way == "dispose" || deliverable < 6 || (x.kind == "rtmp" && conf.MergeWrite > 0) || x.closed() {
				continue
			}
			got := srv.WaitFor(2*time.Second, func() bool { return x.mediaOf(inc) > 0 })
			c.Count("carried_waiting_players_judged", 1)
			if !got {
				c.Violate("carried-joiner-starved/"+x.kind, fmt.Sprintf("a %s consumer that joined incarnation %d mid-GOP and was still waiting for a key frame when that input ended received no frame of the next publisher although %d deliverable frames were published (it keeps waiting for a key frame of a stream that is gone) | %s", x.kind, x.inc, deliverable, desc), nil)
			}
		}
		if way != "dispose" {
			// the long-lived HTTP-TS consumer: frames of this incarnation travel under a PMT that
			// declares this incarnation's codecs (it joined before the first one, so a new PAT/PMT has
			// to reach it whenever the tracks change)
			for _, x := range append(append([]*c16Cons(nil), long...), carry...) {
				if x == nil || x.kind != "ts" {
					continue
				}
				d := ref.NewTsDemux()
				body := x.http.Body()
				d.Feed(body[:len(body)/188*188])
				d.Flush()
				wantV, wantA := uint8(0), uint8(0)
				switch codec[0] {
				case "avc":
					wantV = 0x1b
				case "hevc", "hevc-enh":
					wantV = 0x24
				}
				if codec[1] == "aac" {
					wantA = 0x0f
				}
				for _, pes := range d.Out {
					mine := false
					for _, t := range gen.FindTags(pes.Data) {
						if t.Inc == inc {
							mine = true
						}
					}
					if !mine {
						continue
					}
					pmt, ok := d.PmtInForce(pes.FirstIdx)
					var v, a uint8
					for _, st := range pmt.Streams {
						if st.PID == 0x100 {
							v = st.StreamType
						}
						if st.PID == 0x101 {
							a = st.StreamType
						}
					}
					c.Count("long_ts_pes_checked_against_pmt", 1)
					if !ok || (pes.PID == 0x100 && v != wantV) || (pes.PID == 0x101 && a != wantA) {
						c.Violate("leak/long-ts-pmt", fmt.Sprintf("an HTTP-TS consumer attached since an earlier incarnation receives incarnation %d's frames (PID %#x) under a PMT declaring video %#x audio %#x; this incarnation is %v (%#x/%#x) | %s", inc, pes.PID, v, a, codec, wantV, wantA, desc), nil)
						break
					}
				}
			}
			for _, x := range long {
				if x == nil {
					continue
				}
				seq := x.incs()
				for k := 1; k < len(seq); k++ {
					if seq[k] >= 0 && seq[k] < seq[k-1] {
						c.Violate("leak/long-"+x.kind, fmt.Sprintf("a long-lived %s consumer received data of incarnation %d after data of incarnation %d (sequence %v) | %s", x.kind, seq[k], seq[k-1], seq, desc), nil)
						break
					}
				}
			}
		}
		for _, x := range carry {
			x.close()
		}
		carry, nextCarry = nextCarry, nil
		if way == "dispose" {
			return
		}
		// isolate the next cycle's files
		os.RemoveAll(filepath.Join(s.HlsDir, name))
		c16RemoveMatching(s.FlvDir, name+"-")
		c16RemoveMatching(s.TsDir, name+"-")
	}
	// group removal once nobody is left
	for _, x := range long {
		if x != nil {
			x.close()
		}
	}
	gone := srv.WaitFor(8*time.Second, func() bool {
		_, _, body, err := srv.HttpGet(s.ApiAddr(), "/api/stat/all_group", 2*time.Second)
		return err == nil && !bytes.Contains(body, []byte(`"stream_name":"`+name+`"`))
	})
	c.Cell("group-removal")
	if !gone {
		c.Violate("group-not-removed", fmt.Sprintf("stream %s still listed by /api/stat/all_group 8 s after its last session left", name), nil)
	}
}

// c16FinaliseRtsp: the same end ways for an RTSP publisher (interleaved or UDP): the remuxed
// payloads differ from the source bytes, so outputs are checked structurally (parse to EOF,
// ENDLIST, hook, push) and for incarnation leakage, not for byte identity.
func c16FinaliseRtsp(c *fw.Ctx, i int) {
	r := c.Rng
	K := 3
	root := filepath.Join(c.Scratch, fmt.Sprintf("c16-%d", i))
	os.MkdirAll(root, 0755)
	defer os.RemoveAll(root)
	stub, err := ref.NewRtmpStub(nil)
	if err != nil {
		c.Inconclusive("push stub: %v", err)
		return
	}
	defer stub.Close()
	conf := srv.Conf{RtmpGop: 1, Flv: true, FlvGop: 1, Ts: true, TsGop: 1, Hls: true, HlsFragMs: 1000, HlsFragNum: 4000, HlsDelThr: 4000, HlsCleanup: 0,
		Rtsp: true, RecFlv: true, RecTs: true, Api: true, PushAddrs: []string{stub.Addr}}
	s, err := srv.Start(conf, root)
	if err != nil {
		c.Inconclusive("server start: %v", err)
		return
	}
	hooks := s.InstallHook(false)
	defer s.Stop()
	name := fmt.Sprintf("q%d", i)
	ways := []string{"close", "kick", "idle", "teardown"}
	if i%10 == 3 {
		// the name has a history: an RTMP publisher was here before (its RTMP→RTSP remuxer included) and a
		// player that stays attached has kept the stream's state alive since
		if keep, err := c16StartCons(s, "rtmp", name, 0); err == nil {
			defer keep.close()
			if p0, err := ref.StartRtmpPublisher(s.RtmpAddr(), "live", name, 5*time.Second); err == nil {
				es0 := gen.BuildEs(c.SubRng("rtmp-before"), 9, gen.EsSpec{VCodec: "avc", ACodec: "aac", AacIdx: 4, AacChans: 2, AacObj: 2, NVideo: 24, GopLen: 6, AudioPer: 1, MaxNals: 1})
				for _, m := range es0.RtmpMessages(true) {
					if p0.RC.Send(ref.RtmpMsg{Csid: csidFor(m.Type), TypeID: m.Type, StreamID: p0.Msid, Ts: m.Ts, Payload: m.Payload}, 0) != nil {
						break
					}
				}
				time.Sleep(150 * time.Millisecond)
				k0 := srv.Key(p0.RC.Conn)
				p0.Close()
				s.Notify.WaitSession(3*time.Second, "pub_stop", k0)
				c.Count("rtsp_cycles_after_an_rtmp_publisher", 1)
			}
		}
	}
	for cyc := 0; cyc < K; cyc++ {
		inc := cyc + 1
		codec := [][2]string{{"avc", "aac"}, {"hevc", "aac"}, {"avc", ""}, {"", "aac"}, {"hevc", ""}}[(i/5+cyc*2+r.Intn(2))%5]
		sp := c16Spec(r, codec)
		sp.TsStart = 0
		udp := r.Intn(2) == 0
		src := c07BuildInc(c.SubRng(fmt.Sprintf("es%d", cyc)), sp, inc)
		pkts := c07RtspPackets(r, src, 1200, false, 1, uint16(r.Intn(65536)))
		n := []int{0, 1 + r.Intn(5), len(pkts) / 2, len(pkts)}[r.Intn(4)]
		way := ways[(i/5+cyc)%4]
		desc := fmt.Sprintf("rtsp ingest udp=%v cycle %d/%d inc=%d codec=%v end@%d/%d packets way=%s", udp, cyc+1, K, inc, codec, n, len(pkts), way)
		c.Describe("%s", desc)
		c.Cell("rtsp-ingest/%s/udp=%v/%s+%s", way, udp, codec[0], codec[1])
		// an RTSP player whose DESCRIBE arrives while the name has no input: it is answered once there
		// is a description, and that is the next publisher's (an RTSP publisher hands lal its SDP as it is)
		var gapRtsp *ref.RtspClient
		var gapSdp ref.Sdp
		var gapErr error
		gapDone := make(chan struct{})
		if cyc > 0 {
			if g, err := ref.DialRtsp(s.RtspAddr(), 3*time.Second); err == nil {
				gapRtsp = g
				go func() {
					defer close(gapDone)
					gapSdp, gapErr = g.Play("rtsp://"+s.RtspAddr()+"/live/"+name, false, 6*time.Second)
				}()
				time.Sleep(40 * time.Millisecond)
			}
		}
		from := s.Notify.Len()
		nStubBefore := len(stub.Snapshot())
		rc, err := ref.DialRtsp(s.RtspAddr(), 5*time.Second)
		if err != nil {
			c.Inconclusive("rtsp dial: %v", err)
			return
		}
		sdp, controls := c07Sdp(src)
		url := "rtsp://" + s.RtspAddr() + "/live/" + name
		if err := rc.Announce(url, sdp, len(controls), controls, udp, 5*time.Second); err != nil {
			rc.Close()
			c.Inconclusive("rtsp announce: %v | %s", err, desc)
			return
		}
		ev, ok := s.Notify.Wait(5*time.Second, from, func(e srv.Event) bool { return e.Kind == "pub_start" && e.StreamName == name })
		if !ok {
			rc.Close()
			c.Inconclusive("rtsp publisher not admitted | %s", desc)
			return
		}
		hook := hooks.Latest(name)
		var joiners []*c16Cons
		var rtspPlayer *ref.RtspClient
		for k, p := range pkts[:n] {
			if k == len(pkts)/3 {
				for _, kind := range []string{"rtmp", "flv", "ts"} {
					if x, err := c16StartCons(s, kind, name, inc); err == nil {
						joiners = append(joiners, x)
					}
				}
				// an RTSP player of this incarnation: one RTP source per track, whatever was on the name before
				if pl, err := ref.DialRtsp(s.RtspAddr(), 3*time.Second); err == nil {
					if _, err := pl.Play(url, false, 3*time.Second); err == nil {
						rtspPlayer = pl
					} else {
						pl.Close()
					}
				}
			}
			if udp {
				err = rc.SendUdp(p.track, false, p.pkt)
			} else {
				err = rc.SendInterleaved(p.track*2, p.pkt)
			}
			if err != nil {
				break
			}
			if k%8 == 7 {
				time.Sleep(time.Millisecond)
			}
		}
		time.Sleep(150 * time.Millisecond)
		if rtspPlayer != nil {
			ssrc := map[int]map[uint32]int{}
			for _, rp := range rtspPlayer.Packets() {
				if rp.Channel%2 != 0 {
					continue
				}
				if p, err := ref.ParseRtp(rp.Data); err == nil {
					if ssrc[rp.Channel] == nil {
						ssrc[rp.Channel] = map[uint32]int{}
					}
					ssrc[rp.Channel][p.Ssrc]++
				}
			}
			c.Count("rtsp_players_ssrc_checked", 1)
			for ch, m := range ssrc {
				if len(m) > 1 {
					c.Violate("leak/rtsp-second-source", fmt.Sprintf("an RTSP player of incarnation %d received RTP from %d sources on channel %d (packets per SSRC %v): something left over from an earlier input of the name is still packetising this stream | %s", inc, len(m), ch, m, desc), nil)
					break
				}
			}
			rtspPlayer.Close()
		}
		if gapRtsp != nil {
			select {
			case <-gapDone:
				if gapErr == nil {
					foreign, own := 0, 0
					for _, t := range gen.FindTags([]byte(sdpParamBytes(gapSdp))) {
						if t.Inc == inc {
							own++
						} else {
							foreign++
						}
					}
					hasVideo := false
					for _, m := range gapSdp.Media {
						if m.Kind == "video" {
							hasVideo = true
						}
					}
					c.Count("gap_rtsp_descriptions_judged", 1)
					if foreign > 0 || (hasVideo && codec[0] == "") {
						c.Violate("leak/gap-joiner-rtsp-sdp", fmt.Sprintf("an RTSP player whose DESCRIBE arrived while the name had no input was described a predecessor's stream (parameter-set tags: %d of other incarnations, %d of incarnation %d; video section=%v, this incarnation's codecs %v) | %s", foreign, own, inc, hasVideo, codec, desc), nil)
					}
				}
			default:
			}
			gapRtsp.Close()
		}
		t0 := time.Now()
		switch way {
		case "close":
			rc.Close()
		case "kick":
			b, _ := json.Marshal(map[string]string{"stream_name": name, "session_id": ev.SessionId})
			_, resp, _ := srv.HttpPostJson(s.ApiAddr(), "/api/ctrl/kick_session", string(b), 3*time.Second)
			if !strings.Contains(string(resp), `"error_code":0`) {
				c.Violate("kick-refused", fmt.Sprintf("kick_session of the rtsp publisher answered %s | %s", trunc(string(resp), 200), desc), nil)
				rc.Close()
			}
		case "teardown":
			rc.Request("TEARDOWN", url, nil, nil, 2*time.Second)
			time.Sleep(50 * time.Millisecond)
			rc.Close()
		}
		bound := 5 * time.Second
		if way == "idle" {
			bound = c16IdleBound + 2*time.Second
		}
		_, gotStop := s.Notify.Wait(bound, from, func(e srv.Event) bool { return e.Kind == "pub_stop" && e.SessionId == ev.SessionId })
		if !gotStop {
			sig := "no-pub-stop/rtsp-" + way
			if way == "idle" {
				sig = "idle-not-disconnected/rtsp"
			}
			c.Violate(sig, fmt.Sprintf("no pub_stop within %v (waited %v) after the rtsp input ended | %s", bound, time.Since(t0), desc), nil)
			rc.Close()
			s.Notify.Wait(5*time.Second, from, func(e srv.Event) bool { return e.Kind == "pub_stop" && e.SessionId == ev.SessionId })
		} else if way == "idle" || way == "kick" {
			if !srv.WaitFor(3*time.Second, rc.Closed) {
				c.Violate("socket-open/rtsp-"+way, "pub_stop was notified but the rtsp publisher's connection was not closed | "+desc, nil)
			}
			c.Count("idle_disconnects", 1)
		}
		srv.WaitFor(3*time.Second, func() bool { return hook != nil && hook.Stops() >= 1 })
		time.Sleep(150 * time.Millisecond)
		rc.Close()
		c.Eval(1)
		if hook == nil {
			c.Violate("hook-missing", "no stream hook session was created for the rtsp input | "+desc, nil)
		} else if hook.Stops() != 1 {
			c.Violate("hook-stop-count/rtsp-"+way, fmt.Sprintf("stream hook OnStop called %d times, expected exactly 1 | %s", hook.Stops(), desc), nil)
		}
		var tgt *ref.StubSession
		for _, ss := range stub.Snapshot()[nStubBefore:] {
			tgt = ss
		}
		if tgt != nil {
			if !srv.WaitFor(3*time.Second, tgt.IsClosed) {
				c.Violate("push-not-closed/rtsp-"+way, "the relay-push session to the target is still open 3 s after its rtsp publisher ended | "+desc, nil)
			} else {
				c.Count("push_closed", 1)
			}
		}
		// recordings parse to EOF
		for _, dir := range []string{s.FlvDir, s.TsDir} {
			es, _ := os.ReadDir(dir)
			for _, e := range es {
				if !strings.HasPrefix(e.Name(), name+"-") {
					continue
				}
				b, _ := os.ReadFile(filepath.Join(dir, e.Name()))
				if strings.HasSuffix(e.Name(), ".flv") {
					if _, err := ref.ParseFlvAll(b); err != nil {
						c.Violate("rec-flv/parse", fmt.Sprintf("FLV recording does not parse completely after the rtsp input ended: %v | %s", err, desc), nil)
					}
				} else {
					d := ref.NewTsDemux()
					if len(b)%188 != 0 {
						c.Violate("rec-ts/not-188", fmt.Sprintf("TS recording length %d is not a multiple of 188 | %s", len(b), desc), nil)
					} else {
						d.Feed(b)
						d.Flush()
						if len(d.Errs) > 0 {
							c.Violate("rec-ts/demux", fmt.Sprintf("TS recording: %s | %s", d.Errs[0], desc), nil)
						}
					}
				}
			}
		}
		if pl, err := os.ReadFile(filepath.Join(s.HlsDir, name, "playlist.m3u8")); err == nil {
			if _, perr := ref.ParseM3u8(pl); perr != nil {
				c.Violate("hls/playlist-parse", fmt.Sprintf("live playlist after the end: %v | %s", perr, desc), nil)
			} else if k := bytes.Count(pl, []byte("#EXT-X-ENDLIST")); k != 1 {
				c.Violate("hls/endlist-count", fmt.Sprintf("live playlist has %d #EXT-X-ENDLIST lines after the rtsp input ended | %s", k, desc), nil)
			} else {
				c.Count("hls_endlist_seen", 1)
			}
		}
		for _, x := range joiners {
			for _, got := range x.incs() {
				if got >= 0 && got != inc {
					c.Violate("leak/joiner-"+x.kind, fmt.Sprintf("a %s consumer that joined incarnation %d received data tagged with incarnation %d | %s", x.kind, inc, got, desc), nil)
					break
				}
			}
			x.close()
		}
		os.RemoveAll(filepath.Join(s.HlsDir, name))
		c16RemoveMatching(s.FlvDir, name+"-")
		c16RemoveMatching(s.TsDir, name+"-")
	}
	gone := srv.WaitFor(8*time.Second, func() bool {
		_, _, body, err := srv.HttpGet(s.ApiAddr(), "/api/stat/all_group", 2*time.Second)
		return err == nil && !bytes.Contains(body, []byte(`"stream_name":"`+name+`"`))
	})
	c.Cell("group-removal")
	if !gone {
		c.Violate("group-not-removed", fmt.Sprintf("stream %s still listed by /api/stat/all_group 8 s after its last session left", name), nil)
	}
}

// c16Republish: delayed HLS directory cleanup (cleanup_mode 1/2) against a second publisher of
// the same name that arrives before the cleanup timer of the first one fires and is still live
// when it does.
func c16Republish(c *fw.Ctx, i int) {
	r := c.Rng
	mode := 1 + r.Intn(2)
	fragMs, num, del := 500, 2, 1
	root := filepath.Join(c.Scratch, fmt.Sprintf("c16-%d", i))
	os.MkdirAll(root, 0755)
	defer os.RemoveAll(root)
	s, err := srv.Start(srv.Conf{Hls: true, HlsFragMs: fragMs, HlsFragNum: num, HlsDelThr: del, HlsCleanup: mode, Api: true}, root)
	if err != nil {
		c.Inconclusive("server start: %v", err)
		return
	}
	defer s.Stop()
	name := fmt.Sprintf("rp%d", i)
	delay := time.Duration(fragMs*(num+del)) * time.Millisecond
	desc := fmt.Sprintf("re-publish before the delayed HLS cleanup: cleanup_mode=%d delay=%v", mode, delay)
	c.Describe("%s", desc)
	c.Cell("republish-vs-cleanup/mode=%d", mode)
	dir := filepath.Join(s.HlsDir, name)
	playlistOK := func() (bool, string) {
		pl, err := os.ReadFile(filepath.Join(dir, "playlist.m3u8"))
		if err != nil {
			return false, "no live playlist on disk"
		}
		m3, perr := ref.ParseM3u8(pl)
		if perr != nil {
			return false, "live playlist does not parse: " + perr.Error()
		}
		for _, e := range m3.Entries {
			if _, err := os.Stat(filepath.Join(dir, filepath.Base(e.URI))); err != nil {
				return false, "listed segment " + e.URI + " is not on disk"
			}
		}
		return true, string(pl)
	}
	for inc := 1; inc <= 2; inc++ {
		sp := gen.EsSpec{VCodec: "avc", ACodec: "aac", AacIdx: 4, AacChans: 2, AacObj: 2, NVideo: []int{50, 110}[inc-1], GopLen: 5, AudioPer: 1, MaxNals: 1, VideoMs: 40}
		es := gen.BuildEs(c.SubRng(fmt.Sprintf("es%d", inc)), inc, sp)
		from := s.Notify.Len()
		pub, err := ref.StartRtmpPublisher(s.RtmpAddr(), "live", name, 3*time.Second)
		if err != nil {
			c.Inconclusive("publisher: %v", err)
			return
		}
		paddr := srv.Key(pub.RC.Conn)
		if _, ok := s.Notify.WaitSessionFrom(3*time.Second, from, "pub_start", paddr); !ok {
			pub.Close()
			c.Inconclusive("publisher not accepted")
			return
		}
		pub.RC.SetChunkSize(60000)
		t0 := time.Now()
		checked := false
		for _, m := range es.RtmpMessages(true) {
			pub.RC.Send(ref.RtmpMsg{Csid: csidFor(m.Type), TypeID: m.Type, StreamID: pub.Msid, Ts: m.Ts, Payload: m.Payload}, 0)
			if inc == 2 {
				// real-time pacing: the second incarnation is live across the first one's cleanup timer
				if d := time.Duration(m.Ts)*time.Millisecond - time.Since(t0); d > 0 {
					time.Sleep(d)
				}
				if !checked && time.Since(t0) > delay+700*time.Millisecond {
					checked = true
					c.Eval(1)
					if ok, why := playlistOK(); !ok {
						c.Violate("hls/live-stream-cleaned", fmt.Sprintf("while the second publisher of the name is live (%v after it started): %s | %s", time.Since(t0), why, desc), nil)
					}
				}
			}
		}
		time.Sleep(100 * time.Millisecond)
		pub.Close()
		s.Notify.WaitSessionFrom(3*time.Second, from, "pub_stop", paddr)
		time.Sleep(100 * time.Millisecond)
		c.Eval(1)
		ok, what := playlistOK()
		if !ok {
			c.Violate("hls/no-playlist/republish", fmt.Sprintf("after incarnation %d ended: %s | %s", inc, what, desc), nil)
			return
		}
		if strings.Count(what, "#EXT-X-ENDLIST") != 1 {
			c.Violate("hls/endlist-count", fmt.Sprintf("after incarnation %d ended the live playlist has %d ENDLIST markers | %s", inc, strings.Count(what, "#EXT-X-ENDLIST"), desc), nil)
		}
	}
	// after the last end the directory is cleaned up
	if !srv.WaitFor(delay+3*time.Second, func() bool {
		es, err := os.ReadDir(dir)
		return err != nil || len(es) == 0
	}) {
		c.Violate("hls/cleanup-missing", fmt.Sprintf("cleanup_mode=%d: HLS files still present %v after the last publisher left | %s", mode, delay+3*time.Second, desc), nil)
	}
}

// c16LatePush: the relay-push target answers the publish command only AFTER the input has left
// (push sessions are established asynchronously, so this is the slow-target case of an ordinary
// publisher that leaves early). Whatever lal does with the late session, once the input is gone no
// push connection may stay open and the target must not be left with a publisher.
func c16LatePush(c *fw.Ctx, i int) {
	r := c.Rng
	root := filepath.Join(c.Scratch, fmt.Sprintf("c16lp-%d", i))
	os.MkdirAll(root, 0755)
	defer os.RemoveAll(root)
	var mu sync.Mutex
	hold := map[int]chan struct{}{}
	holdNext := false
	stub, err := ref.NewRtmpStub(func(n int) ref.StubBehaviour {
		mu.Lock()
		defer mu.Unlock()
		if holdNext {
			ch := make(chan struct{})
			hold[n] = ch
			return ref.StubBehaviour{WithholdStatus: ch}
		}
		return ref.StubBehaviour{}
	})
	if err != nil {
		c.Inconclusive("push stub: %v", err)
		return
	}
	defer stub.Close()
	conf := srv.Conf{RtmpGop: 1, Flv: true, Api: true, PushAddrs: []string{stub.Addr}}
	s, err := srv.Start(conf, root)
	if err != nil {
		c.Inconclusive("server start: %v", err)
		return
	}
	defer s.Stop()
	name := fmt.Sprintf("lp%d", i)
	rounds := 6
	for k := 0; k < rounds; k++ {
		late := k%3 != 2
		// a subscriber that stays keeps the stream's state alive across the gap; without one lal
		// discards that state on its next 1 s tick, and the long delay lets that happen first
		keeper := k%2 == 0
		delay := time.Duration(r.Intn(40)) * time.Millisecond
		if !keeper && k%3 == 1 {
			delay = 1600 * time.Millisecond
		}
		way := []string{"close", "kick"}[r.Intn(2)]
		desc := fmt.Sprintf("round %d: target answers %s the publisher left (%s), subscriber staying=%v, answer delayed %v", k, map[bool]string{true: "after", false: "before"}[late], way, keeper, delay)
		c.Describe("%s", desc)
		c.Cell("late-push/late=%v/%s/keeper=%v/long-delay=%v", late, way, keeper, delay > time.Second)
		var keep *ref.RtmpSubscriber
		if keeper {
			keep, _ = ref.StartRtmpSubscriber(s.RtmpAddr(), "live", name, 3*time.Second)
		}
		mu.Lock()
		holdNext = true
		mu.Unlock()
		nBefore := len(stub.Snapshot())
		from := s.Notify.Len()
		pr, err := ref.StartRtmpPublisher(s.RtmpAddr(), "live", name, 5*time.Second)
		if err != nil {
			c.Inconclusive("publisher: %v", err)
			return
		}
		paddr := srv.Key(pr.RC.Conn)
		ev, ok := s.Notify.WaitSessionFrom(5*time.Second, from, "pub_start", paddr)
		if !ok {
			pr.Close()
			c.Inconclusive("publisher not accepted")
			return
		}
		msgs := gen.BuildAt(c.SubRng(fmt.Sprintf("m%d", k)), k+1, gen.Shape{Name: "lp", Video: true, Audio: true, Meta: true, Gops: 2, GopLen: 4, AudioPerVid: 1}, 0)
		for _, m := range msgs {
			pr.RC.Send(ref.RtmpMsg{Csid: csidFor(m.Type), TypeID: m.Type, StreamID: pr.Msid, Ts: m.Ts, Payload: m.Payload}, 0)
		}
		// the push attempt is in flight: the target has the publish command and withholds its answer
		var tgt *ref.StubSession
		inFlight := srv.WaitFor(4*time.Second, func() bool {
			for _, ss := range stub.Snapshot()[nBefore:] {
				if role, _, _ := ss.GetRole(); role == "publish" {
					tgt = ss
					return true
				}
			}
			return false
		})
		if !inFlight {
			pr.Close()
			c.Inconclusive("the relay push never reached the target's publish stage | %s", desc)
			return
		}
		release := func() {
			mu.Lock()
			if ch, ok := hold[tgt.N]; ok {
				close(ch)
				delete(hold, tgt.N)
			}
			mu.Unlock()
		}
		if !late {
			release()
			srv.WaitFor(2*time.Second, func() bool { _, _, st := tgt.GetRole(); return st })
			time.Sleep(20 * time.Millisecond)
		}
		if way == "kick" {
			b, _ := json.Marshal(map[string]string{"stream_name": name, "session_id": ev.SessionId})
			srv.HttpPostJson(s.ApiAddr(), "/api/ctrl/kick_session", string(b), 3*time.Second)
		} else {
			pr.Close()
		}
		if _, ok := s.Notify.WaitSessionFrom(5*time.Second, from, "pub_stop", paddr); !ok {
			pr.Close()
			c.Inconclusive("pub_stop not observed | %s", desc)
			return
		}
		pr.Close()
		if late {
			time.Sleep(delay)
			release()
		}
		c.Eval(1)
		closed := srv.WaitFor(4*time.Second, tgt.IsClosed)
		if keep != nil {
			keep.Close()
		}
		if !closed {
			c.Violate("push-not-closed/late-target", fmt.Sprintf("the relay-push connection to the target is still open 4 s after the input had left and the target had answered | %s", desc), nil)
			return
		}
		c.Count("late_push_closed", 1)
		mu.Lock()
		holdNext = false
		mu.Unlock()
		time.Sleep(50 * time.Millisecond)
	}
}

// c16PullDispose: the stream's input is a relay pull and the server is shut down. The pull
// connection to the origin is a per-stream resource like any other: it must be closed, whether the
// pull is attached or its attempt is still in flight.
func c16PullDispose(c *fw.Ctx, i int) {
	root := filepath.Join(c.Scratch, fmt.Sprintf("c16pd-%d", i))
	os.MkdirAll(root, 0755)
	defer os.RemoveAll(root)
	inFlight := (i/2)%2 == 1
	hold := make(chan struct{})
	msgs := gen.Build(c.SubRng("origin"), 9, gen.Shape{Name: "pd", Video: true, Audio: true, Gops: 200, GopLen: 5, AudioPerVid: 1, Sizes: []int{100, 300}})
	var pm []ref.RtmpMsg
	for _, m := range msgs {
		pm = append(pm, ref.RtmpMsg{Csid: csidFor(m.Type), TypeID: m.Type, StreamID: 1, Ts: m.Ts, Payload: m.Payload})
	}
	origin, err := ref.NewRtmpStub(func(n int) ref.StubBehaviour {
		b := ref.StubBehaviour{PlayMsgs: pm, PlayInterval: 20 * time.Millisecond}
		if inFlight {
			b.WithholdStatus = hold
		}
		return b
	})
	if err != nil {
		c.Inconclusive("origin stub: %v", err)
		return
	}
	defer origin.Close()
	defer close(hold)
	s, err := srv.Start(srv.Conf{RtmpGop: 1, Flv: true, Hls: true, HlsFragMs: 1000, RecFlv: true, Api: true}, root)
	if err != nil {
		c.Inconclusive("server start: %v", err)
		return
	}
	stopped := false
	defer func() {
		if !stopped {
			s.Stop()
		}
	}()
	name := fmt.Sprintf("pd%d", i)
	desc := fmt.Sprintf("relay pull as the input (attempt in flight=%v), then server shutdown", inFlight)
	c.Describe("%s", desc)
	c.Cell("pull-dispose/in-flight=%v", inFlight)
	sub, err := srv.StartHttpSub(s.HttpAddr(), "/live/"+name+".flv", "flv", 3*time.Second)
	if err == nil {
		defer sub.Close()
	}
	from := s.Notify.Len()
	b, _ := json.Marshal(map[string]interface{}{"url": "rtmp://" + origin.Addr + "/live/" + name, "stream_name": name, "pull_retry_num": -1, "auto_stop_pull_after_no_out_ms": -1, "pull_timeout_ms": 10000})
	srv.HttpPostJson(s.ApiAddr(), "/api/ctrl/start_relay_pull", string(b), 3*time.Second)
	if !srv.WaitFor(3*time.Second, func() bool { return len(origin.Snapshot()) > 0 }) {
		c.Inconclusive("the pull never connected to the origin | %s", desc)
		return
	}
	if inFlight {
		srv.WaitFor(2*time.Second, func() bool { role, _, _ := origin.Snapshot()[0].GetRole(); return role == "play" })
	} else if _, ok := s.Notify.Wait(4*time.Second, from, func(ev srv.Event) bool { return ev.Kind == "pull_start" }); !ok {
		c.Inconclusive("the pull did not attach | %s", desc)
		return
	} else {
		time.Sleep(300 * time.Millisecond)
	}
	stopped = true
	s.Stop()
	c.Eval(1)
	if !srv.WaitFor(4*time.Second, func() bool {
		for _, ss := range origin.Snapshot() {
			if !ss.IsClosed() {
				return false
			}
		}
		return true
	}) {
		open := 0
		for _, ss := range origin.Snapshot() {
			if !ss.IsClosed() {
				open++
			}
		}
		c.Violate("pull-not-closed/dispose", fmt.Sprintf("%d connection(s) to the relay-pull origin are still open 4 s after the server was shut down | %s", open, desc), nil)
	}
}

// c16RtspPullEnd: the stream's input is a relay pull over RTSP (lal pulls from its own RTSP server,
// interleaved TCP or UDP) and that input ends - by stop_relay_pull, by kick, or because the origin
// stream ends. It is an input like any other: hook told to stop once, playlist finalised, group
// removed, and the name is free for a publisher afterwards.
func c16RtspPullEnd(c *fw.Ctx, i int) {
	root := filepath.Join(c.Scratch, fmt.Sprintf("c16rp-%d", i))
	os.MkdirAll(root, 0755)
	defer os.RemoveAll(root)
	s, err := srv.Start(srv.Conf{RtmpGop: 1, Flv: true, Rtsp: true, Hls: true, HlsFragMs: 500, HlsFragNum: 4000, HlsDelThr: 4000, RecFlv: true, Api: true}, root)
	if err != nil {
		c.Inconclusive("server start: %v", err)
		return
	}
	defer s.Stop()
	hooks := s.InstallHook(false)
	way := []string{"stop", "kick", "origin-ends"}[(i/2)%3]
	mode := i % 2
	src, dst := fmt.Sprintf("rpsrc%d", i), fmt.Sprintf("rpdst%d", i)
	desc := fmt.Sprintf("rtsp relay pull (rtsp_mode=%d) as the input of %s, ended by %s", mode, dst, way)
	c.Describe("%s", desc)
	c.Cell("rtsp-pull-end/%s/mode=%d", way, mode)
	pub, err := ref.StartRtmpPublisher(s.RtmpAddr(), "live", src, 3*time.Second)
	if err != nil {
		c.Inconclusive("origin publisher: %v", err)
		return
	}
	defer pub.Close()
	msgs := gen.Build(c.SubRng("src"), 1, gen.Shape{Name: "rp", Video: true, Audio: true, Meta: true, Gops: 400, GopLen: 5, AudioPerVid: 1, Sizes: []int{200, 600}})
	var stopPub int32
	pubDone := make(chan struct{})
	go func() {
		defer close(pubDone)
		t0 := time.Now()
		for _, m := range msgs {
			if atomic.LoadInt32(&stopPub) != 0 {
				return
			}
			if pub.RC.Send(ref.RtmpMsg{Csid: csidFor(m.Type), TypeID: m.Type, StreamID: pub.Msid, Ts: m.Ts, Payload: m.Payload}, 0) != nil {
				return
			}
			if d := time.Duration(m.Ts)*time.Millisecond - time.Since(t0); d > 0 {
				time.Sleep(d) // real-time pacing
			}
		}
	}()
	defer func() { atomic.StoreInt32(&stopPub, 1); <-pubDone }()
	time.Sleep(400 * time.Millisecond)
	from := s.Notify.Len()
	b, _ := json.Marshal(map[string]interface{}{"url": "rtsp://" + s.RtspAddr() + "/live/" + src, "stream_name": dst, "pull_retry_num": 0, "auto_stop_pull_after_no_out_ms": -1, "pull_timeout_ms": 4000, "rtsp_mode": mode})
	srv.HttpPostJson(s.ApiAddr(), "/api/ctrl/start_relay_pull", string(b), 3*time.Second)
	ev, ok := s.Notify.Wait(5*time.Second, from, func(ev srv.Event) bool { return ev.Kind == "pull_start" })
	if !ok {
		c.Inconclusive("the rtsp relay pull did not attach | %s", desc)
		return
	}
	time.Sleep(1500 * time.Millisecond)
	switch way {
	case "stop":
		srv.HttpGet(s.ApiAddr(), "/api/ctrl/stop_relay_pull?stream_name="+dst, 3*time.Second)
	case "kick":
		kb, _ := json.Marshal(map[string]string{"stream_name": dst, "session_id": ev.SessionId})
		srv.HttpPostJson(s.ApiAddr(), "/api/ctrl/kick_session", string(kb), 3*time.Second)
	default:
		atomic.StoreInt32(&stopPub, 1)
		<-pubDone
		pub.Close()
	}
	c.Eval(1)
	if _, ok := s.Notify.Wait(6*time.Second, from, func(e srv.Event) bool { return e.Kind == "pull_stop" && e.SessionId == ev.SessionId }); !ok {
		c.Violate("rtsp-pull/no-pull-stop/"+way, "no relay_pull_stop notification within 6 s after the rtsp pull input ended | "+desc, nil)
		return
	}
	hk := hooks.Latest(dst)
	if hk == nil {
		c.Inconclusive("no stream hook session for the pulled stream | %s", desc)
		return
	}
	if !srv.WaitFor(3*time.Second, func() bool { return hk.Stops() >= 1 }) || hk.Stops() != 1 {
		c.Violate("hook-stop-count/rtsp-pull-"+way, fmt.Sprintf("stream hook OnStop called %d times after the rtsp pull input ended, expected exactly 1 | %s", hk.Stops(), desc), nil)
		return
	}
	pl, err := os.ReadFile(filepath.Join(s.HlsDir, dst, "playlist.m3u8"))
	if err == nil && !bytes.Contains(pl, []byte("#EXT-X-ENDLIST")) {
		c.Violate("hls/endlist-count/rtsp-pull-"+way, "the live playlist of the pulled stream has no ENDLIST after its input ended | "+desc, nil)
		return
	}
	gone := srv.WaitFor(8*time.Second, func() bool {
		_, _, body, err := srv.HttpGet(s.ApiAddr(), "/api/stat/all_group", 2*time.Second)
		return err == nil && !bytes.Contains(body, []byte(`"stream_name":"`+dst+`"`))
	})
	if !gone {
		c.Violate("group-not-removed/rtsp-pull-"+way, "the pulled stream is still listed 8 s after its input ended and nobody is attached | "+desc, nil)
		return
	}
	from2 := s.Notify.Len()
	p2, err := ref.StartRtmpPublisher(s.RtmpAddr(), "live", dst, 3*time.Second)
	if err == nil {
		defer p2.Close()
		if _, ok := s.Notify.WaitSessionFrom(3*time.Second, from2, "pub_start", srv.Key(p2.RC.Conn)); !ok {
			c.Violate("successor-refused/rtsp-pull-"+way, "a publisher of the name was not accepted after the rtsp pull input had ended | "+desc, nil)
		}
	}
	c.Count("rtsp_pull_ends_judged", 1)
}

func c16RemoveMatching(dir, prefix string) {
	es, _ := os.ReadDir(dir)
	for _, e := range es {
		if strings.HasPrefix(e.Name(), prefix) {
			os.Remove(filepath.Join(dir, e.Name()))
		}
	}
}

func c16CheckStat(c *fw.Ctx, s *srv.Server, name string, codec [2]string, desc string) {
	_, _, body, err := srv.HttpGet(s.ApiAddr(), "/api/stat/group?stream_name="+name, 2*time.Second)
	if err != nil {
		return
	}
	var v struct {
		Data struct {
			AudioCodec string `json:"audio_codec"`
			VideoCodec string `json:"video_codec"`
		} `json:"data"`
	}
	if json.Unmarshal(body, &v) != nil {
		return
	}
	wantV := map[string]string{"avc": "H264", "hevc": "H265", "hevc-enh": "H265", "": ""}[codec[0]]
	wantA := map[string]string{"aac": "AAC", "": ""}[codec[1]]
	c.Count("stat_checks", 1)
	if v.Data.VideoCodec != wantV || v.Data.AudioCodec != wantA {
		c.Violate("stat-codec", fmt.Sprintf("stat reports video=%q audio=%q while the current input publishes video=%q audio=%q | %s", v.Data.VideoCodec, v.Data.AudioCodec, wantV, wantA, desc), nil)
	}
}

func c16CheckFlvRec(c *fw.Ctx, s *srv.Server, name string, msgs []gen.EsMsg, desc string) {
	es, _ := os.ReadDir(s.FlvDir)
	var files []string
	for _, e := range es {
		if strings.HasPrefix(e.Name(), name+"-") {
			files = append(files, e.Name())
		}
	}
	if len(files) != 1 {
		c.Violate("rec-flv/file-count", fmt.Sprintf("%d FLV recording files for one incarnation (%v) | %s", len(files), files, desc), nil)
		return
	}
	b, _ := os.ReadFile(filepath.Join(s.FlvDir, files[0]))
	tags, err := ref.ParseFlvAll(b)
	if err != nil {
		c.Violate("rec-flv/parse", fmt.Sprintf("FLV recording does not parse completely after the input ended: %v | %s", err, desc), nil)
		return
	}
	var want []gen.EsMsg
	for _, m := range msgs {
		if m.Type == 8 || m.Type == 9 {
			want = append(want, m)
		}
	}
	var got []ref.FlvTag
	for _, t := range tags {
		if t.Type == 8 || t.Type == 9 {
			got = append(got, t)
		}
	}
	c.Count("rec_flv_tags", len(got))
	if len(got) != len(want) {
		c.Violate("rec-flv/count", fmt.Sprintf("FLV recording holds %d audio/video tags, %d were published | %s", len(got), len(want), desc), nil)
		return
	}
	for k := range got {
		if got[k].Type != want[k].Type || !bytes.Equal(got[k].Data, want[k].Payload) {
			c.Violate("rec-flv/content", fmt.Sprintf("FLV recording tag %d differs from the published message | %s", k, desc), nil)
			return
		}
	}
}

func c16CheckTsRec(c *fw.Ctx, jd *c06Judge, s *srv.Server, name string, desc string) {
	es, _ := os.ReadDir(s.TsDir)
	var files []string
	for _, e := range es {
		if strings.HasPrefix(e.Name(), name+"-") {
			files = append(files, e.Name())
		}
	}
	if len(files) != 1 {
		c.Violate("rec-ts/file-count", fmt.Sprintf("%d TS recording files for one incarnation (%v) | %s", len(files), files, desc), nil)
		return
	}
	b, _ := os.ReadFile(filepath.Join(s.TsDir, files[0]))
	c.Count("rec_ts_bytes", len(b))
	jd.judgeTs("rec-ts", b, true, false)
	c16CheckTsCounts(c, "rec-ts", jd.es, b, desc)
}

// c16CheckTsCounts: every published frame that TS can carry must be in the finalised output
// exactly once (judgeTs checks content and order of what is there; this checks that it is all there).
func c16CheckTsCounts(c *fw.Ctx, kind string, es *gen.EsStream, body []byte, desc string) {
	wantV, wantA := 0, 0
	for _, f := range es.Frames {
		if f.Video {
			wantV++
		} else if es.Spec.ACodec == "aac" {
			wantA++
		}
	}
	d := ref.NewTsDemux()
	d.Feed(body[:len(body)/188*188])
	d.Flush()
	gotV, gotA := 0, 0
	for _, p := range d.Out {
		switch p.PID {
		case 0x100:
			gotV++
		case 0x101:
			if afs, err := ref.SplitAdts(p.Data); err == nil {
				gotA += len(afs)
			}
		}
	}
	c.Count(kind+"_frames_expected", wantV+wantA)
	if gotV != wantV || gotA != wantA {
		c.Violate(kind+"/incomplete", fmt.Sprintf("finalised %s output holds %d video and %d audio frames, the input published %d and %d before it ended | %s", kind, gotV, gotA, wantV, wantA, desc), nil)
	}
}

func c16CheckHls(c *fw.Ctx, jd *c06Judge, s *srv.Server, name string, tes *gen.EsStream, desc string) {
	dir := filepath.Join(s.HlsDir, name)
	pl, err := os.ReadFile(filepath.Join(dir, "playlist.m3u8"))
	hasMedia := false
	for _, f := range tes.Frames {
		if f.Video || tes.Spec.ACodec == "aac" {
			hasMedia = true
		}
		_ = f
	}
	if err != nil {
		if hasMedia && len(tes.Frames) > 0 {
			c.Violate("hls/no-playlist/"+strings.Fields(desc)[len(strings.Fields(desc))-2], "no live playlist on disk after an input with media ended | "+desc, nil)
		}
		return
	}
	m3, perr := ref.ParseM3u8(pl)
	if perr != nil {
		c.Violate("hls/playlist-parse", fmt.Sprintf("live playlist after the end: %v | %s", perr, desc), nil)
		return
	}
	if n := bytes.Count(pl, []byte("#EXT-X-ENDLIST")); n != 1 {
		c.Violate("hls/endlist-count", fmt.Sprintf("live playlist has %d #EXT-X-ENDLIST lines after the input ended, expected 1 | %s", n, desc), nil)
		return
	}
	c.Count("hls_endlist_seen", 1)
	// every .ts on disk must be listed (the open segment is closed *and listed*), every listed one must exist
	listed := map[string]bool{}
	var body []byte
	for _, e := range m3.Entries {
		fn := filepath.Base(e.URI)
		listed[fn] = true
		seg, err := os.ReadFile(filepath.Join(dir, fn))
		if err != nil {
			c.Violate("hls/listed-missing", fmt.Sprintf("segment %s is listed but not on disk | %s", fn, desc), nil)
			return
		}
		body = append(body, seg...)
	}
	des, _ := os.ReadDir(dir)
	for _, e := range des {
		if strings.HasSuffix(e.Name(), ".ts") && !listed[e.Name()] {
			c.Violate("hls/unlisted-segment", fmt.Sprintf("segment file %s exists but the final playlist does not list it | %s", e.Name(), desc), nil)
			return
		}
	}
	if rec, err := os.ReadFile(filepath.Join(dir, "record.m3u8")); err == nil {
		if _, perr := ref.ParseM3u8(rec); perr != nil {
			c.Violate("hls/record-playlist-parse", fmt.Sprintf("record playlist after the end: %v | %s", perr, desc), nil)
		} else if n := bytes.Count(rec, []byte("#EXT-X-ENDLIST")); n != 1 {
			c.Violate("hls/record-endlist-count", fmt.Sprintf("record playlist has %d #EXT-X-ENDLIST lines, expected 1 | %s", n, desc), nil)
		}
	}
	c.Count("hls_segments", len(m3.Entries))
	jd.judgeTs("hls-final", body, true, true)
	c16CheckTsCounts(c, "hls-final", tes, body, desc)
}

// ---------------------------------------------------------------------------------------
// resources

// goroutineSummary groups the goroutine dump by state and innermost non-runtime frames.
func goroutineSummary() string {
	cnt := map[string]int{}
	for _, g := range strings.Split(goroutineDump(), "\n\n") {
		lines := strings.Split(g, "\n")
		if len(lines) < 2 {
			continue
		}
		var fr []string
		for _, l := range lines[1:] {
			if strings.HasPrefix(l, "\t") || strings.HasPrefix(l, "runtime.") || strings.HasPrefix(l, "internal/") || strings.HasPrefix(l, "sync.") || strings.HasPrefix(l, "created by") {
				if strings.HasPrefix(l, "created by") {
					fr = append(fr, l[:min(len(l), 90)])
				}
				continue
			}
			if i := strings.LastIndexByte(l, '('); i > 0 {
				l = l[:i]
			}
			if len(fr) < 3 {
				fr = append(fr, l)
			}
		}
		st := ""
		if i := strings.IndexByte(lines[0], '['); i >= 0 {
			st = strings.TrimRight(lines[0][i:], ":")
			if j := strings.IndexByte(st, ','); j > 0 {
				st = st[:j] + "]"
			}
		}
		cnt[st+" "+strings.Join(fr, " < ")]++
	}
	var keys []string
	for k := range cnt {
		keys = append(keys, k)
	}
	sortStrings(keys)
	var sb strings.Builder
	for _, k := range keys {
		fmt.Fprintf(&sb, "%3d × %s\n", cnt[k], k)
	}
	return sb.String()
}

func c16Counts() (g, fd int) {
	es, _ := os.ReadDir("/proc/self/fd")
	return runtime.NumGoroutine(), len(es)
}

// c16Stable polls until both counts are unchanged for 6 polls (or 10 s) and returns the minimum seen
// over the last stable window.
func c16Stable() (g, fd int) {
	lg, lf, same := -1, -1, 0
	for k := 0; k < 200; k++ {
		g, fd = c16Counts()
		if k%5 == 0 && k < 180 && strings.Contains(goroutineDump(), "defertaskthread") {
			// lal's delayed HLS file deletions run on short-lived sleeping goroutines
			same = 0
			time.Sleep(100 * time.Millisecond)
			continue
		}
		if g == lg && fd == lf {
			same++
			if same >= 6 {
				return
			}
		} else {
			same = 0
		}
		lg, lf = g, fd
		time.Sleep(100 * time.Millisecond)
	}
	return
}

func c16Resources(c *fw.Ctx, i int) {
	r := c.Rng
	root := filepath.Join(c.Scratch, fmt.Sprintf("c16-%d", i))
	os.MkdirAll(root, 0755)
	defer os.RemoveAll(root)
	stub, err := ref.NewRtmpStub(nil)
	if err != nil {
		c.Inconclusive("push stub: %v", err)
		return
	}
	defer stub.Close()
	conf := srv.Conf{RtmpGop: 1, Flv: true, FlvGop: 1, Ts: true, TsGop: 1, Hls: true, HlsFragMs: 1000, HlsFragNum: 3, HlsDelThr: 3, HlsCleanup: 2,
		Rtsp: true, WsRtsp: true, RecFlv: true, RecTs: true, Api: true, PushAddrs: []string{stub.Addr}}
	s, err := srv.Start(conf, root)
	if err != nil {
		c.Inconclusive("server start: %v", err)
		return
	}
	s.InstallHook(false)
	defer s.Stop()
	name := fmt.Sprintf("r%d", i)
	M := 6
	if c.Tier == "thorough" {
		M = 12
	}
	cycle := func(cyc int) {
		codec := c16Codecs[(cyc+i)%len(c16Codecs)]
		sp := c16Spec(r, codec)
		sp.NVideo = 40
		es := gen.BuildEs(c.SubRng(fmt.Sprintf("res%d", cyc)), 1+cyc%100, sp)
		msgs := es.RtmpMessages(true)
		from := s.Notify.Len()
		pub, err := ref.StartRtmpPublisher(s.RtmpAddr(), "live", name, 5*time.Second)
		if err != nil {
			c.Inconclusive("publisher: %v", err)
			return
		}
		paddr := srv.Key(pub.RC.Conn)
		ev, ok := s.Notify.WaitSessionFrom(5*time.Second, from, "pub_start", paddr)
		if !ok {
			pub.Close()
			c.Inconclusive("publisher not accepted (cycle %d)", cyc)
			return
		}
		pub.RC.SetChunkSize(60000)
		var cons []*c16Cons
		var rtsps []*ref.RtspClient
		var wg sync.WaitGroup
		var mu sync.Mutex
		for k, m := range msgs {
			if k == 6 {
				for _, kind := range []string{"rtmp", "flv", "ts"} {
					if x, err := c16StartCons(s, kind, name, 0); err == nil {
						cons = append(cons, x)
					}
				}
				for _, udp := range []bool{false, true} {
					wg.Add(1)
					go func(udp bool) {
						defer wg.Done()
						rc, err := ref.DialRtsp(s.RtspAddr(), 3*time.Second)
						if err != nil {
							return
						}
						mu.Lock()
						rtsps = append(rtsps, rc)
						mu.Unlock()
						rc.Play("rtsp://"+s.RtspAddr()+"/live/"+name, udp, 5*time.Second)
					}(udp)
				}
				// abandoned handshakes
				wg.Add(1)
				go func() {
					defer wg.Done()
					for k := 0; k < 3; k++ {
						rc, err := ref.DialRtsp(s.RtspAddr(), 3*time.Second)
						if err != nil {
							return
						}
						rc.Request("DESCRIBE", "rtsp://"+s.RtspAddr()+"/live/"+name, []string{"Accept: application/sdp"}, nil, 3*time.Second)
						if k > 0 {
							rc.Request("SETUP", "rtsp://"+s.RtspAddr()+"/live/"+name+"/streamid=0", []string{fmt.Sprintf("Transport: RTP/AVP;unicast;client_port=%d-%d", 40000+2*k, 40001+2*k)}, nil, 3*time.Second)
						}
						rc.Close()
					}
					// half an RTMP handshake, a half HTTP request
					if cn, err := ref.DialRtmp(s.RtmpAddr(), 2*time.Second); err == nil {
						cn.Close()
					}
					srv.HttpGet(s.HttpAddr(), "/hls/"+name+".m3u8", 2*time.Second)
					srv.HttpGet(s.ApiAddr(), "/api/stat/all_group", 2*time.Second)
				}()
			}
			if err := pub.RC.Send(ref.RtmpMsg{Csid: csidFor(m.Type), TypeID: m.Type, StreamID: pub.Msid, Ts: m.Ts, Payload: m.Payload}, 0); err != nil {
				break
			}
			if k%8 == 7 {
				time.Sleep(2 * time.Millisecond)
			}
		}
		wg.Wait()
		time.Sleep(50 * time.Millisecond)
		switch cyc % 3 {
		case 0:
			pub.Close()
		case 1:
			b, _ := json.Marshal(map[string]string{"stream_name": name, "session_id": ev.SessionId})
			srv.HttpPostJson(s.ApiAddr(), "/api/ctrl/kick_session", string(b), 3*time.Second)
		case 2:
			// consumers leave first, then the publisher
			for _, x := range cons {
				x.close()
			}
			time.Sleep(30 * time.Millisecond)
			pub.Close()
		}
		s.Notify.WaitSessionFrom(5*time.Second, from, "pub_stop", paddr)
		pub.Close()
		for _, x := range cons {
			x.close()
		}
		for _, rc := range rtsps {
			rc.Close()
		}
	}
	waitGone := func() bool {
		return srv.WaitFor(10*time.Second, func() bool {
			_, _, body, err := srv.HttpGet(s.ApiAddr(), "/api/stat/all_group", 2*time.Second)
			return err == nil && !bytes.Contains(body, []byte(`"stream_name":"`+name+`"`))
		})
	}
	for w := 0; w < 3; w++ {
		cycle(w)
	}
	if !waitGone() {
		c.Violate("group-not-removed", "stream still listed 10 s after its last session left (warm-up)", nil)
		return
	}
	g0, f0 := c16Stable()
	for cyc := 0; cyc < M; cyc++ {
		cycle(3 + cyc)
	}
	if !waitGone() {
		c.Violate("group-not-removed", fmt.Sprintf("stream still listed 10 s after its last session left (after %d cycles)", M), nil)
		return
	}
	g1, f1 := c16Stable()
	c.Eval(M)
	c.Cell("resources/cycles=%d", M)
	c.Count("resource_cycles", M)
	c.Sample(map[string]interface{}{"kind": "resources", "cycles": M, "goroutines_before": g0, "goroutines_after": g1, "fds_before": f0, "fds_after": f1})
	if g1-g0 >= M/2 {
		c.Violate("leak/goroutines", fmt.Sprintf("goroutine count grew from %d to %d over %d publish/subscribe cycles with no session left (≥1 per 2 cycles)\n%s", g0, g1, M, goroutineSummary()), nil)
	}
	if f1-f0 >= M/2 {
		c.Violate("leak/descriptors", fmt.Sprintf("open descriptors grew from %d to %d over %d cycles with no session left", f0, f1, M), nil)
	}
}

func init() {
	fw.Register(&fw.Prop{
		ID: "C16",
		NumCases: func(tier string, seed int64) int {
			if tier == "thorough" {
				return 660
			}
			return 52
		},
		Setup:       c16Setup,
		CaseTimeout: func(string) time.Duration { return 4 * time.Minute },
		Rule:        "whole-server runs with HLS (disk), FLV and TS recorders, relay push to a stub target, the stream hook and RTMP/FLV/TS consumers. Finalise scenarios (3 of 5 cases with an RTMP publisher; 1 of 5 with an RTSP publisher over interleaved TCP or UDP ended by close / kick / silence / TEARDOWN, outputs checked structurally): 3–5 incarnations of one stream name with changing codec pairs (AVC/HEVC/enhanced HEVC/none × AAC/none); each incarnation is cut at a seeded instant (nothing sent, headers only, right after a key frame, after an audio frame with batched audio pending, a few messages after mid-GOP joiners attached, mid-stream, complete) by close / API kick / going silent (check interval 2 s; in half of these after having trickled its last messages over 4.8 s, i.e. after being found alive by at least two checks) / server Dispose. Observed right after each end: stream-hook OnStop calls = 1 and OnMsg calls = messages published; push target connection closed; exactly one FLV and one TS recording, FLV parses to EOF and equals the published audio/video messages, TS passes the C06 frame oracle to the last video and audio frame (flush); live and record playlists parse, one ENDLIST, every segment file listed and present, segments pass the frame oracle to the last frame; idle publisher gets pub_stop ≤ 2·interval+3 s+2 s and its socket closes; joiners of an incarnation see only its tags; players that join while the name has no input see only the next incarnation's tags and do receive its frames; long-lived consumers never see an older incarnation after a newer one, and the long-lived HTTP-TS consumer sees each incarnation's frames under a PMT that declares that incarnation's codecs; stat codec fields equal the current input's; the group leaves /api/stat/all_group ≤ 8 s after the last session. Re-publish scenarios (1 of 10): cleanup_mode 1/2 with a 1.5 s delayed directory cleanup, a second publisher of the name arriving at once and staying live across the first one's cleanup timer — live playlist and listed segments must be on disk while it is live and finalised when it ends, directory removed after the last end. RTSP-pull scenarios (4 extra cases, thorough 20): lal relay-pulls a stream from its own RTSP server (TCP/UDP) into another name; the pull ends by stop_relay_pull / kick / end of the origin stream — relay_pull_stop ≤ 6 s, hook OnStop exactly once, ENDLIST in the pulled stream's playlist, group removed ≤ 8 s, a publisher of the name admitted. Late-push scenarios (4 extra cases, thorough 20): the push target withholds its answer to `publish` until the publisher has left by close or kick (and, alternately, answers in time) — its connection must be closed within 4 s either way. Pull-dispose scenarios (4 extra cases, thorough 20): the input is a relay pull (attached, or its attempt held in flight by the origin) and the server is shut down — the origin connection must be closed within 4 s. Resource scenarios (1 of 5): 3 warm-up cycles, baseline goroutines and /proc/self/fd with no session left, 6 (thorough 12) cycles with RTMP/FLV/TS/RTSP-TCP/RTSP-UDP consumers, abandoned RTSP DESCRIBE/SETUP, aborted RTMP handshakes, HLS and API requests, ends by close/kick/consumers-first; growth ≥ 1 per 2 cycles is a leak. cell = end way × end instant × codec pair. Mid-GOP RTMP / HTTP-FLV / HTTP-TS joiners of an incarnation that ends before its next key frame (GOP caches off in those cases) stay attached: the successor - audio only in every eighth case - must serve them (carried-joiner-starved). An RTSP player whose DESCRIBE arrives between two publishers (RTMP or RTSP) is described the successor's stream, never a predecessor's. In half of the RTSP-publisher cases the name was used by an RTMP publisher before and kept alive by a player: an RTSP player of the RTSP incarnation gets one RTP source per track.",
		Assumptions: []string{"recording and HLS files of one incarnation are inspected and then removed by the harness before the next incarnation starts (lal names recordings by second, so back-to-back incarnations would otherwise share a file name)", "goroutine and descriptor counts include the harness's own; every harness connection is closed before counting and only growth proportional to the number of cycles is judged"},
		MinCells:    10,
		Run: func(c *fw.Ctx, i int) {
			if base := map[bool]int{true: 600, false: 40}[c.Tier == "thorough"]; i >= base {
				// the two scenarios added later have case indices of their own
				switch (i - base) % 3 {
				case 0:
					c16LatePush(c, i)
				case 1:
					c16PullDispose(c, i)
				default:
					c16RtspPullEnd(c, i)
				}
				return
			}
			if i%5 == 4 {
				c16Resources(c, i)
			} else if i%5 == 3 {
				c16FinaliseRtsp(c, i)
			} else if i%10 == 7 {
				c16Republish(c, i)

			} else {
				c16Finalise(c, i)
			}
		},
	})
}
