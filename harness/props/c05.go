package props

import (
	"strings"
	"fmt"
	"math/rand"
	"os"
	"path/filepath"
	"sync"
	"time"

	"lalverif/fw"
	"lalverif/gen"
	"lalverif/ref"
	"lalverif/srv"
)

// C05 — no published media payload can terminate the server (or stall it).

type c05Cell struct {
	Name string
	Conf srv.Conf
}

func c05Cells() []c05Cell {
	all := fullConf()
	mk := func(name string, f func(c *srv.Conf)) c05Cell {
		c := all
		f(&c)
		return c05Cell{name, c}
	}
	return []c05Cell{
		mk("all-outputs/gop=1", func(c *srv.Conf) {}),
		mk("all-outputs/gop=0", func(c *srv.Conf) { c.RtmpGop, c.FlvGop, c.TsGop = 0, 0, 0 }),
		mk("all-outputs/gop=2/dummy-audio", func(c *srv.Conf) { c.RtmpGop, c.FlvGop, c.TsGop, c.DummyAudio = 2, 2, 2, true }),
		mk("rtmp+flv-only", func(c *srv.Conf) { c.Ts, c.Hls, c.Rtsp, c.RecFlv, c.RecTs = false, false, false, false, false }),
		mk("ts+hls-only/dummy-audio", func(c *srv.Conf) { c.Flv, c.Rtsp, c.RecFlv, c.DummyAudio = false, false, false, true }),
		mk("rtsp-only", func(c *srv.Conf) { c.Flv, c.Ts, c.Hls, c.RecFlv, c.RecTs = false, false, false, false, false }),
		mk("all-but-rtsp/merge-write", func(c *srv.Conf) { c.Rtsp, c.MergeWrite = false, 4096 }),
		mk("record-only", func(c *srv.Conf) { c.Flv, c.Ts, c.Hls, c.Rtsp = false, false, false, false }),
	}
}

var (
	cellSrvMu sync.Mutex
	cellSrv   = map[string]*srv.Server{}
	cellHooks = map[string]*srv.HookRecorder{}
)

func cellServer(c *fw.Ctx, cell c05Cell) (*srv.Server, *srv.HookRecorder) {
	cellSrvMu.Lock()
	defer cellSrvMu.Unlock()
	if s, ok := cellSrv[cell.Name]; ok {
		return s, cellHooks[cell.Name]
	}
	root := filepath.Join(c.Scratch, "cell-"+sanitizeName(cell.Name))
	os.MkdirAll(root, 0755)
	s, err := srv.Start(cell.Conf, root)
	if err != nil {
		c.Inconclusive("server start: %v", err)
		return nil, nil
	}
	h := s.InstallHook(false)
	cellSrv[cell.Name] = s
	cellHooks[cell.Name] = h
	return s, h
}

func sanitizeName(s string) string {
	b := []byte(s)
	for i := range b {
		if !(b[i] >= 'a' && b[i] <= 'z' || b[i] >= '0' && b[i] <= '9') {
			b[i] = '_'
		}
	}
	return string(b)
}

type hostileMsg struct {
	Class   string
	Type    uint8
	Ts      uint32
	Payload []byte
	Seq     []seqMsg // if set: a whole side session (own stream name) of well-formed messages in an unusual order
}

type seqMsg struct {
	Type    uint8
	Ts      uint32
	Payload []byte
}

// c05Messages generates the hostile messages of case i.
func c05Messages(r *rand.Rand, i int) []hostileMsg {
	var out []hostileMsg
	add := func(class string, typ uint8, p []byte) {
		out = append(out, hostileMsg{Class: class, Type: typ, Payload: p})
	}
	randBytes := func(n int) []byte {
		b := make([]byte, n)
		r.Read(b)
		return b
	}
	firstBytes := []byte{0x17, 0x27, 0x1c, 0x2c, 0x90, 0x91, 0x92, 0x93, 0xa0, 0xa1, 0xa3, 0x9f, 0x80, 0xaf, 0xa0, 0x72, 0x82, 0xdf, 0x00, 0xff, 0x12, 0x22, 0x47, 0x57}
	switch i % 8 {
	case 0:
		// all one-byte payloads × {audio, video}; two-byte payloads over the codec-relevant set
		for b := 0; b < 256; b++ {
			add("1-byte", 9, []byte{byte(b)})
			add("1-byte", 8, []byte{byte(b)})
		}
		for _, f := range firstBytes {
			for s := 0; s < 256; s += 1 + r.Intn(3) {
				add("2-byte", []uint8{8, 9}[r.Intn(2)], []byte{f, byte(s)})
			}
		}
	case 1:
		// 3..5(..12)-byte payloads: first byte × packet type × filler
		for _, f := range firstBytes {
			for pt := 0; pt < 5; pt++ {
				for n := 3; n <= 12; n++ {
					p := append([]byte{f, byte(pt)}, randBytes(n-2)...)
					if f&0x80 != 0 && n >= 5 && r.Intn(2) == 0 {
						copy(p[1:], "hvc1")
					}
					add(fmt.Sprintf("%d-byte", n), []uint8{9, 9, 8}[r.Intn(3)], p)
				}
			}
		}
	case 2:
		// sequence headers truncated at every offset: AVC, HEVC classic, HEVC enhanced, AAC
		for _, h := range [][]byte{gen.AvcSeqHeader(1, 7), gen.HevcSeqHeader(1, 7, false), gen.HevcSeqHeader(1, 7, true)} {
			for n := 1; n <= len(h); n++ {
				add("seq-header-truncated/video", 9, h[:n])
			}
			// corrupt internal lengths / counts
			for k := 0; k < 60; k++ {
				b := append([]byte(nil), h...)
				pos := 5 + r.Intn(len(b)-5)
				b[pos] = []byte{0, 0xff, 0x7f, byte(r.Intn(256))}[r.Intn(4)]
				add("seq-header-corrupt/video", 9, b)
			}
		}
		// sequence-header payloads that carry Annex-B data instead of a configuration record
		// (lal falls back to a start-code scan for HEVC): start codes back to back, at the very
		// end, 3-byte codes, parameter-set and other NAL types, empty units
		for k := 0; k < 150; k++ {
			for _, hdr := range [][]byte{{0x1c, 0, 0, 0, 0}, {0x17, 0, 0, 0, 0}, {0x90, 'h', 'v', 'c', '1'}} {
				p := append([]byte(nil), hdr...)
				p = append(p, randBytes(r.Intn(30))...)
				for u := 0; u < 1+r.Intn(6); u++ {
					if r.Intn(4) == 0 {
						p = append(p, 0, 0, 1)
					} else {
						p = append(p, 0, 0, 0, 1)
					}
					switch r.Intn(6) {
					case 0: // empty unit
					case 1:
						p = append(p, []byte{0x40, 0x42, 0x44, 0x67, 0x68, 0x26}[r.Intn(6)])
					case 2:
						p = append(p, 0x40, 0x01)
					default:
						p = append(p, []byte{0x40, 0x42, 0x44, 0x4e, 0x26, 0x02, 0x67, 0x68}[r.Intn(8)], 0x01)
						p = append(p, randBytes(r.Intn(40))...)
					}
				}
				if r.Intn(3) == 0 {
					p = append(p, make([]byte, r.Intn(4))...)
				}
				for len(p) < 33 && r.Intn(2) == 0 {
					p = append(p, 0)
				}
				add("seq-header-annexb/video", 9, p)
			}
		}
		a := gen.AacSeqHeader(1, 3)
		for n := 1; n <= len(a); n++ {
			add("seq-header-truncated/aac", 8, a[:n])
		}
		for v := 0; v < 256; v++ {
			add("asc-2-bytes", 8, []byte{0xaf, 0, byte(v), byte(r.Intn(256))})
			add("asc-1-byte", 8, []byte{0xaf, 0, byte(v)})
		}
		for _, fourcc := range []string{"hvc1", "av01", "vp09", "avc1", "xxxx", "\x00\x00\x00\x00"} {
			for pt := 0; pt < 16; pt++ {
				for _, n := range []int{5, 6, 8, 9, 20} {
					p := append([]byte{0x90 | byte(pt), fourcc[0], fourcc[1], fourcc[2], fourcc[3]}, randBytes(n-5)...)
					add("enhanced-header/"+fmt.Sprintf("%q", fourcc), 9, p)
				}
			}
		}
	case 3:
		// frames whose NAL length fields lie: beyond the end, zero, 2^32−1; zero-length NALs
		for _, hdr := range [][]byte{{0x17, 1, 0, 0, 0}, {0x27, 1, 0, 0, 0}, {0x1c, 1, 0, 0, 0}, {0x2c, 1, 0, 0, 0}, {0x91, 'h', 'v', 'c', '1', 0, 0, 0}, {0x93, 'h', 'v', 'c', '1'}} {
			for _, ln := range []uint32{0, 1, 2, 3, 5, 100, 0xffff, 0x10000, 0x7fffffff, 0x80000000, 0xffffffff} {
				for _, body := range [][]byte{nil, {0x65}, {0x26, 0x01}, randBytes(3), randBytes(40)} {
					p := append([]byte(nil), hdr...)
					p = append(p, byte(ln>>24), byte(ln>>16), byte(ln>>8), byte(ln))
					p = append(p, body...)
					add("nal-length-lies", 9, p)
				}
			}
			// several NALs incl. zero-length ones and truncated length fields
			p := append([]byte(nil), hdr...)
			p = append(p, 0, 0, 0, 0, 0, 0, 0, 1, 0x65, 0, 0, 0, 0, 0, 0)
			add("zero-length-nal", 9, p)
			p2 := append([]byte(nil), hdr...)
			p2 = append(p2, 0, 0, 0, 2, 0x09, 0xf0, 0, 0, 0, 1, 0x67, 0, 0, 0, 1, 0x68, 0, 0, 0, 1, 0x65)
			add("aud-sps-pps-1-byte-nals", 9, p2)
			p3 := append([]byte(nil), hdr...)
			p3 = append(p3, 0, 0, 0, 2, 0x40, 0x01, 0, 0, 0, 2, 0x42, 0x01, 0, 0, 0, 2, 0x44, 0x01, 0, 0, 0, 2, 0x26, 0x01)
			add("hevc-parameter-set-stubs", 9, p3)
		}
		// honest lengths, tiny NAL units of every type: RTP aggregation / fragmentation type codes
		// (H.264 24..29, H.265 48..50) have a structure of their own that the RTP side may look into
		for _, hdr := range [][]byte{{0x17, 1, 0, 0, 0}, {0x27, 1, 0, 0, 0}} {
			for t := 0; t < 32; t++ {
				for n := 1; n <= 5; n++ {
					for _, fill := range []byte{0x00, 0x01, 0xff} {
						p := append([]byte(nil), hdr...)
						p = append(p, 0, 0, 0, byte(n), byte(0x60|t))
						for q := 1; q < n; q++ {
							p = append(p, fill)
						}
						add("short-nal-every-type/avc", 9, p)
					}
				}
			}
		}
		for _, hdr := range [][]byte{{0x1c, 1, 0, 0, 0}, {0x2c, 1, 0, 0, 0}, {0x93, 'h', 'v', 'c', '1'}} {
			for t := 0; t < 64; t++ {
				for n := 1; n <= 5; n++ {
					p := append([]byte(nil), hdr...)
					p = append(p, 0, 0, 0, byte(n), byte(t<<1))
					for q := 1; q < n; q++ {
						p = append(p, []byte{0x01, 0x00, 0xff, 0x01}[q-1])
					}
					add("short-nal-every-type/hevc", 9, p)
				}
			}
		}
		// sequence headers whose SPS announces huge counts and then ends: every loop the parser runs
		// "as often as the SPS says" must be bounded by what the SPS holds
		for _, huge := range []uint64{1 << 16, 1 << 24, 1<<32 - 2} {
			for variant := 0; variant < 6; variant++ {
				w := &bitW{}
				w.u(8, 0x67)
				w.u(8, []uint64{66, 100, 66, 77, 100, 66}[variant]) // profile_idc
				w.u(8, 0)
				w.u(8, 30)
				w.ue(0) // sps id
				if variant == 1 || variant == 4 {
					w.ue(1) // chroma_format_idc
					w.ue(0)
					w.ue(0)
					w.u(1, 0)
					if variant == 4 {
						w.u(1, 1) // seq_scaling_matrix_present: 8 lists follow
						for k := 0; k < 8; k++ {
							w.u(1, 1)
							w.se(int64(huge % 1000))
						}
					} else {
						w.u(1, 0)
					}
				}
				w.ue(0) // log2_max_frame_num_minus4
				switch variant {
				case 0, 1: // pic_order_cnt_type 1 with a huge reference cycle
					w.ue(1)
					w.u(1, 0)
					w.se(0)
					w.se(0)
					w.ue(huge)
				case 2: // huge log2_max_pic_order_cnt
					w.ue(0)
					w.ue(huge)
				case 3: // huge max_num_ref_frames, then huge dimensions
					w.ue(2)
					w.ue(huge)
					w.u(1, 0)
					w.ue(huge)
					w.ue(huge)
				default:
					w.ue(huge) // pic_order_cnt_type itself
				}
				sps := append([]byte(nil), w.b...)
				for _, tail := range [][]byte{nil, {0x80}, randBytes(6)} {
					sp := append(append([]byte(nil), sps...), tail...)
					p := []byte{0x17, 0, 0, 0, 0, 1, sp[1], sp[2], sp[3], 0xff, 0xe1, byte(len(sp) >> 8), byte(len(sp))}
					p = append(p, sp...)
					p = append(p, 1, 0, 4, 0x68, 0xce, 0x3c, 0x80)
					add("sps-huge-counts", 9, p)
				}
			}
		}
	case 4:
		// unknown codec ids, metadata that is not AMF, big random payloads
		for id := 0; id < 16; id++ {
			for ft := 0; ft < 8; ft++ {
				add("unknown-video-codec", 9, append([]byte{byte(ft<<4 | id), byte(r.Intn(3))}, randBytes(r.Intn(60))...))
			}
			add("unknown-audio-codec", 8, append([]byte{byte(id<<4 | 0xf), byte(r.Intn(2))}, randBytes(r.Intn(60))...))
		}
		for k := 0; k < 40; k++ {
			add("metadata-not-amf", 18, randBytes(1+r.Intn(80)))
		}
		for _, p := range [][]byte{{2}, {2, 0}, {2, 0, 0}, {2, 0, 5, 'a'}, {0x0c, 0, 0, 0, 1}, ref.AmfEncodeAll(ref.AmfStr("@setDataFrame")), ref.AmfEncodeAll(ref.AmfStr("@setDataFrame"), ref.AmfNum(1)),
			ref.AmfEncodeAll(ref.AmfStr("onMetaData")), ref.AmfEncodeAll(ref.AmfStr("onMetaData"), ref.AmfNum(3)), append(ref.AmfEncodeAll(ref.AmfStr("onMetaData")), 8, 0xff, 0xff, 0xff, 0xff),
			append(ref.AmfEncodeAll(ref.AmfStr("onMetaData")), 3, 0, 5, 'w', 'i', 'd', 't', 'h', 2, 0xff, 0xff)} {
			add("metadata-odd", 18, p)
		}
		for k := 0; k < 30; k++ {
			add("random-large", []uint8{8, 9}[r.Intn(2)], randBytes(100+r.Intn(70000)))
		}
		// metadata whose containers are nested up to the 16 MiB message limit (parsed on every
		// metadata message, under the group lock)
		for _, unit := range [][]byte{{0x03, 0x00, 0x01, 'a'}, {0x0a, 0, 0, 0, 1}, {0x08, 0, 0, 0, 1, 0x00, 0x01, 'a'}} {
			for _, levels := range []int{41, 1000, 40001, 3300000} {
				body := ref.AmfEncodeAll(ref.AmfStr("onMetaData"))
				if levels%2 == 0 && levels < 3300000 {
					body = ref.AmfEncodeAll(ref.AmfStr("@setDataFrame"), ref.AmfStr("onMetaData"))
				}
				// the chain hangs below a property of the metadata object / ECMA array (the top-level
				// value itself has to be one of those two to be parsed at all)
				if levels%3 != 1 {
					body = append(body, [][]byte{{0x03, 0x00, 0x01, 'a'}, {0x08, 0, 0, 0, 1, 0x00, 0x01, 'a'}}[levels%2]...)
				}
				for k := 0; k < levels && len(body) < (16<<20)-64; k++ {
					body = append(body, unit...)
				}
				add("metadata-deep-nesting", 18, body)
			}
		}
		// well-formed messages in unusual orders, each order as a session of its own
		vf := func(k int, key bool) []byte { return gen.VideoFrame(r, 6, 5000+k, key, 0, 80) }
		af := func(k int) []byte { return gen.AudioFrame(r, 6, 6000+k, 40) }
		for _, vsh := range [][]byte{gen.AvcSeqHeader(6, 0), gen.HevcSeqHeader(6, 0, false), gen.HevcSeqHeader(6, 0, true)} {
			ash := gen.AacSeqHeader(6, 0)
			var q []seqMsg
			seq := func(class string) {
				out = append(out, hostileMsg{Class: "valid-order/" + class, Type: 9, Payload: vsh[:5], Seq: q})
				q = nil
			}
			// headers, a long run of audio, only then the first key frame
			q = append(q, seqMsg{18, 0, gen.Metadata(6, 0, true)}, seqMsg{9, 0, vsh}, seqMsg{8, 0, ash})
			for k := 0; k < 40; k++ {
				q = append(q, seqMsg{8, uint32(k * 23), af(k)})
			}
			q = append(q, seqMsg{9, 930, vf(0, true)}, seqMsg{9, 970, vf(1, false)}, seqMsg{8, 980, af(50)})
			seq("audio-run-before-first-key")
			// headers, inter frames without any key frame, audio in between
			q = append(q, seqMsg{9, 0, vsh}, seqMsg{8, 0, ash})
			for k := 0; k < 25; k++ {
				q = append(q, seqMsg{9, uint32(k * 40), vf(k, false)})
				if k%3 == 0 {
					q = append(q, seqMsg{8, uint32(k*40 + 5), af(k)})
				}
			}
			q = append(q, seqMsg{9, 1000, vf(30, true)}, seqMsg{8, 1010, af(60)})
			seq("inter-frames-before-first-key")
			// audio only for a while, video header and key frame late
			q = append(q, seqMsg{8, 0, ash})
			for k := 0; k < 40; k++ {
				q = append(q, seqMsg{8, uint32(k * 23), af(k)})
			}
			q = append(q, seqMsg{9, 920, vsh}, seqMsg{9, 920, vf(0, true)}, seqMsg{8, 943, af(41)}, seqMsg{9, 960, vf(1, false)})
			seq("late-video")
			// video only for a while, audio header late
			q = append(q, seqMsg{9, 0, vsh}, seqMsg{9, 0, vf(0, true)})
			for k := 1; k < 30; k++ {
				q = append(q, seqMsg{9, uint32(k * 40), vf(k, k%10 == 0)})
			}
			q = append(q, seqMsg{8, 1200, ash}, seqMsg{8, 1200, af(0)}, seqMsg{9, 1240, vf(31, false)}, seqMsg{8, 1223, af(1)})
			seq("late-audio")
			// frames before any sequence header, headers afterwards
			q = append(q, seqMsg{8, 0, af(0)}, seqMsg{9, 0, vf(0, true)}, seqMsg{8, 23, af(1)}, seqMsg{9, 40, vf(1, false)}, seqMsg{9, 80, vsh}, seqMsg{8, 80, ash}, seqMsg{9, 80, vf(2, true)}, seqMsg{8, 90, af(2)})
			seq("frames-before-headers")
			// single-media streams that end while lal is still probing the codecs (fewer than 16 messages)
			q = append(q, seqMsg{9, 0, vsh}, seqMsg{9, 0, vf(0, true)}, seqMsg{9, 40, vf(1, false)}, seqMsg{9, 80, vf(2, false)})
			seq("short-video-only")
			q = append(q, seqMsg{8, 0, ash}, seqMsg{8, 0, af(0)}, seqMsg{8, 23, af(1)})
			seq("short-audio-only")
			q = append(q, seqMsg{18, 0, gen.Metadata(6, 0, true)}, seqMsg{9, 0, vsh})
			seq("headers-only")
			// timestamps that do not advance at all, then jump
			q = append(q, seqMsg{9, 500, vsh}, seqMsg{8, 500, ash}, seqMsg{9, 500, vf(0, true)})
			for k := 0; k < 60; k++ {
				q = append(q, seqMsg{8, 500, af(k)}, seqMsg{9, 500, vf(k+1, false)})
			}
			q = append(q, seqMsg{9, 5000, vf(70, true)}, seqMsg{8, 5000, af(70)})
			seq("timestamps-stand-still")
			// audio codecs without a sequence header from the first message on (the TS program map and
			// the SDP are built for them), with and without video
			for _, ac := range []string{"opus", "g711a", "g711u"} {
				oa := func(k int) []byte { return gen.AudioFrameCodec(r, 6, 6500+k, 40, ac) }
				q = append(q, seqMsg{9, 0, vsh}, seqMsg{9, 0, vf(0, true)})
				for k := 0; k < 24; k++ {
					q = append(q, seqMsg{8, uint32(k * 20), oa(k)}, seqMsg{9, uint32(k*20 + 10), vf(k+1, k%12 == 11)})
				}
				seq(ac + "-with-video")
				for k := 0; k < 30; k++ {
					q = append(q, seqMsg{8, uint32(k * 20), oa(k)})
				}
				seq(ac + "-only")
				for k := 0; k < 4; k++ {
					q = append(q, seqMsg{8, uint32(k * 20), oa(k)})
				}
				seq(ac + "-only-short")
			}
		}
		// a video configuration lal can use only in part (parameter set of length zero), audio frames
		// that never get a sequence header, and enough messages to end every codec probe
		for _, mode := range []int{0, 1, 2, 3} {
			var q []seqMsg
			v := gen.AvcSeqHeader(6, 3)
			switch mode {
			case 0: // SPS present, PPS count 1 with length 0
				v = append(append([]byte(nil), v[:13+len(gen.AvcSps)]...), 1, 0, 0)
			case 1: // SPS length 0
				v = []byte{0x17, 0, 0, 0, 0, 1, 0x42, 0xc0, 0x1e, 0xff, 0xe1, 0, 0, 1, 0, 4, 0x68, 0xce, 0x3c, 0x80}
			case 2: // no PPS at all (count 0)
				v = append(append([]byte(nil), v[:13+len(gen.AvcSps)]...), 0)
			}
			q = append(q, seqMsg{9, 0, v}, seqMsg{8, 0, af(0)})
			for k := 0; k < 24; k++ {
				q = append(q, seqMsg{9, uint32(k * 40), vf(k, k%10 == 0)})
				if mode == 3 && k%2 == 0 {
					q = append(q, seqMsg{8, uint32(k * 40), af(k)})
				}
			}
			out = append(out, hostileMsg{Class: fmt.Sprintf("valid-order/partial-video-config-%d+headerless-aac", mode), Type: 9, Payload: v[:5], Seq: q})
		}
	case 5:
		// valid-looking frames with hostile timestamps (filled in by the caller from Class)
		for _, ts := range []uint32{0, 1, 0xfffffe, 0xffffff, 0x1000000, 0x1000001, 0x7fffffff, 0x80000000, 0xfffffffe, 0xffffffff, 5, 0x80000005, 100} {
			for k := 0; k < 6; k++ {
				var p []byte
				typ := uint8(9)
				switch k {
				case 0:
					p = gen.VideoFrame(r, 5, int(ts>>8)+k, true, 0, 60)
				case 1:
					p = gen.VideoFrame(r, 5, int(ts>>8)+k, false, 0xffffff, 60)
				case 2:
					p, typ = gen.AudioFrame(r, 5, int(ts>>8)+k, 40), 8
				case 3:
					p = gen.AvcSeqHeader(5, 9)
				case 4:
					p, typ = gen.Metadata(5, 2, true), 18
				default:
					p = gen.HevcFrame(r, 5, int(ts>>8)+k, true, 0x7fffff, 60, 1)
				}
				out = append(out, hostileMsg{Class: "timestamp-extreme", Type: typ, Ts: ts, Payload: p})
			}
		}
		// multi-chunk frames at extreme timestamps (continuation chunks repeat the extended timestamp)
		for _, ts := range []uint32{0xfffffe, 0xffffff, 0x1000000, 0x7fffffff, 0xfffffff0} {
			for _, size := range []int{4096, 4097, 8192, 8193, 9000, 12289, 70000} {
				out = append(out, hostileMsg{Class: "timestamp-extreme/multi-chunk", Type: 9, Ts: ts, Payload: gen.VideoFrame(r, 5, int(ts>>8)+size, size%2 == 0, 0, size)})
			}
			out = append(out, hostileMsg{Class: "timestamp-extreme/multi-chunk", Type: 8, Ts: ts, Payload: gen.AudioFrame(r, 5, int(ts>>8), 9000)})
		}
		// runs of frames a few milliseconds apart just below 2^32 and across the wrap
		for _, start := range []uint32{0xffffffd0, 0xffffffe0, 0xfffffff0, 0xfffffff8} {
			ts := start
			for k := 0; k < 8; k++ {
				out = append(out, hostileMsg{Class: "timestamp-extreme/near-wrap-run", Type: 9, Ts: ts, Payload: gen.VideoFrame(r, 5, int(start>>4)+k, k == 0, 0, 60)})
				ts += uint32(3 + r.Intn(12))
			}
		}
	case 6:
		// bit-flipped valid frames and headers
		for k := 0; k < 500; k++ {
			var p []byte
			typ := uint8(9)
			switch k % 6 {
			case 0:
				p = gen.VideoFrame(r, 6, k, true, 0, 40+r.Intn(200))
			case 1:
				p = gen.HevcFrame(r, 6, k, k%4 == 1, 0, 40+r.Intn(200), k%3)
			case 2:
				p, typ = gen.AudioFrame(r, 6, k, 20+r.Intn(100)), 8
			case 3:
				p = gen.AvcSeqHeader(6, k)
			case 4:
				p = gen.HevcSeqHeader(6, k, k%2 == 0)
			default:
				p, typ = gen.AacSeqHeader(6, k), 8
			}
			for f := 0; f < 1+r.Intn(4); f++ {
				pos := r.Intn(min(len(p), 24))
				p[pos] ^= 1 << uint(r.Intn(8))
			}
			add("bit-flipped", typ, p)
		}
	default:
		// codec switches mid-stream and header/frame mismatches (well-formed pieces, hostile order)
		pieces := [][]byte{gen.AvcSeqHeader(7, 1), gen.HevcSeqHeader(7, 1, false), gen.HevcSeqHeader(7, 2, true), gen.VideoFrame(r, 7, 1, true, 0, 50), gen.HevcFrame(r, 7, 2, true, 0, 50, 0),
			gen.HevcFrame(r, 7, 3, true, 10, 50, 1), gen.HevcFrame(r, 7, 4, false, 0, 50, 2), gen.VideoFrame(r, 7, 5, false, 5, 50), {0x17, 2, 0, 0, 0}, {0x1c, 2, 0, 0, 0}}
		for k := 0; k < 300; k++ {
			add("codec-switch", 9, pieces[r.Intn(len(pieces))])
			if k%3 == 0 {
				a := [][]byte{gen.AacSeqHeader(7, k), gen.AudioFrame(r, 7, k, 30), gen.AudioFrameCodec(r, 7, k, 30, "g711a"), gen.AudioFrameCodec(r, 7, k, 30, "opus"), {0xaf, 1}, {0xaf, 0}}
				add("audio-codec-switch", 8, a[r.Intn(len(a))])
			}
		}
	}
	return out
}

func c05Sizes(tier string) int {
	if tier == "thorough" {
		return 1536
	}
	return 64
}

func init() {
	fw.Register(&fw.Prop{
		ID:          "C05",
		NumCases:    func(tier string, seed int64) int { return c05Sizes(tier) },
		CaseTimeout: func(string) time.Duration { return 10 * time.Minute },
		Rule: "one sub-input = one well-framed audio/video/metadata message with a hostile payload sent by an accepted reference publisher to the whole in-process server under one of 8 output configurations (all outputs, gop 0/1/2, dummy audio, single outputs, merge write): all 256 one-byte payloads × audio/video, 2..12-byte payloads over the codec-relevant first bytes × packet types, AVC/HEVC(classic+enhanced)/AAC sequence headers truncated at every offset and with corrupted inner lengths, all 2-byte ASCs, enhanced-RTMP headers with other fourccs, AVC sequence headers whose SPS announces huge counts (reference cycle, scaling lists, dimensions) and then ends, NAL length fields that lie (0, beyond the end, 2^31, 2^32−1), zero-length NALs, unknown codec ids, non-AMF metadata, large random payloads, extreme and backward timestamps, bit-flipped valid frames, codec switches mid-stream, metadata nested up to the 16 MiB message limit, and whole side sessions of well-formed messages in unusual orders (long audio run before the first key frame, inter frames before any key frame, late video, late audio, frames before headers, timestamps that stand still, single-media streams of 3–4 messages, headers only, Opus / G.711 from the first message on with and without video, AVC configurations with an empty or missing parameter set followed by AAC frames that never get a header; RTSP players whose DESCRIBE is pending before such a stream starts) × AVC / HEVC / enhanced HEVC. honest tiny NAL units of every H.264/H.265 type code incl. the RTP aggregation/fragmentation codes; every hostile sequence header is also sent as the opening message of a stream of its own (configuration is parsed only there); RTMP/FLV/TS joiners attach between messages, RTSP (TCP and UDP) subscribers re-join mid-GOP every 10 messages so that the wait-for-key-frame path inspects the hostile NALs. " +
			"monitors: process liveness (crash signature = panic text + innermost lal frame; driver resumes after the crashing message), a marker frame after each hostile message must reach a pre-attached FLV witness (else, with the publisher connection still open, the stream is stalled), amplification counter (tags delivered between consecutive markers), canary stream on another name after each case. cell = config cell × input class.",
		Assumptions: []string{"lal closing the publisher's connection on an uninterpretable payload is allowed (the case reconnects)", "amplification bound: 8 + size/100 deliveries per input message, or 10 000 when dummy audio is on (intended gap filling)"},
		MinCells: 20,
		Run:      c05Run,
	})
}

type c05Session struct {
	pub     *ref.RtmpPublisher
	witness *srv.HttpSub
	name    string
	ts      uint32
	idx     int
}

func c05Open(s *srv.Server, name string, flv bool, r *rand.Rand) (*c05Session, error) {
	return c05OpenEx(s, name, flv, r, false)
}

// c05OpenEx: videoOnly publishes a video-only prologue long enough for the dummy-audio filter
// (when configured) to start inserting audio.
func c05OpenEx(s *srv.Server, name string, flv bool, r *rand.Rand, videoOnly bool) (*c05Session, error) {
	ss := &c05Session{name: name, ts: 1000}
	var err error
	from := s.Notify.Len()
	if flv {
		ss.witness, err = srv.StartHttpSub(s.HttpAddr(), "/live/"+name+".flv", "flv", 5*time.Second)
		if err != nil {
			return nil, fmt.Errorf("witness: %w", err)
		}
		if _, ok := s.Notify.WaitSessionFrom(5*time.Second, from, "sub_start", srv.Key(ss.witness.Conn)); !ok {
			return nil, fmt.Errorf("witness not admitted")
		}
	}
	ss.pub, err = ref.StartRtmpPublisher(s.RtmpAddr(), "live", name, 5*time.Second)
	if err != nil {
		return nil, fmt.Errorf("publisher: %w", err)
	}
	if _, ok := s.Notify.WaitSessionFrom(5*time.Second, from, "pub_start", srv.Key(ss.pub.RC.Conn)); !ok {
		return nil, fmt.Errorf("publisher not accepted")
	}
	ss.pub.RC.SetChunkSize(4096)
	// healthy prologue
	type pm struct {
		t uint8
		p []byte
	}
	pro := []pm{{18, gen.Metadata(3, 0, true)}, {9, gen.AvcSeqHeader(3, 0)}, {8, gen.AacSeqHeader(3, 0)}, {9, gen.VideoFrame(r, 3, 900000, true, 0, 60)}, {8, gen.AudioFrame(r, 3, 900001, 30)}}
	if videoOnly {
		pro = []pm{{18, gen.Metadata(3, 0, true)}, {9, gen.AvcSeqHeader(3, 0)}, {9, gen.VideoFrame(r, 3, 900000, true, 0, 60)}}
		for k := 0; k < 12; k++ {
			pro = append(pro, pm{9, gen.VideoFrame(r, 3, 900010+k, false, 0, 60)})
		}
	}
	for _, m := range pro {
		ss.pub.RC.Send(ref.RtmpMsg{Csid: csidFor(m.t), TypeID: m.t, StreamID: ss.pub.Msid, Ts: ss.ts, Payload: m.p}, 0)
		ss.ts += 20
	}
	return ss, nil
}

func (ss *c05Session) close() {
	if ss.pub != nil {
		ss.pub.Close()
	}
	if ss.witness != nil {
		ss.witness.Close()
	}
}

func c05Run(c *fw.Ctx, i int) {
	cells := c05Cells()
	cell := cells[(i/8)%len(cells)]
	s, hooks := cellServer(c, cell)
	if s == nil {
		return
	}
	r := c.Rng
	msgs := c05Messages(r, i)
	name := fmt.Sprintf("p%d", i)
	flv := cell.Conf.Flv
	var ss *c05Session
	reopen := func(k int) bool {
		if ss != nil {
			ss.close()
			// let lal tear the old session down before the name is re-used
			time.Sleep(20 * time.Millisecond)
		}
		var err error
		ss, err = c05OpenEx(s, fmt.Sprintf("%s_%d", name, k), flv, r, cell.Conf.DummyAudio && i%2 == 1)
		if err != nil {
			c.Inconclusive("open at sub %d: %v", k, err)
			return false
		}
		return true
	}
	if !reopen(c.SubStart) {
		return
	}
	defer func() { ss.close() }()
	closedByLal, stalls := 0, 0
	markerIdx := 1000000 + i*100000
	lastWitness := 0
	var joiners []*liveConsumer
	var rtspJoiners []*ref.RtspClient
	defer func() {
		for _, rc := range rtspJoiners {
			rc.Close()
		}
	}()
	for k, hm := range msgs {
		if k < c.SubStart {
			continue
		}
		c.Sub(k)
		if cell.Conf.Rtsp && k%10 == 1 {
			// an RTSP subscriber that joined mid-GOP (the marker key frame comes every 10th message):
			// while it waits for a key frame lal inspects every RTP packet made from the publisher's NALs
			for _, rc := range rtspJoiners {
				rc.Close()
			}
			rtspJoiners = nil
			for _, udp := range []bool{false, true} {
				if rc, err := ref.DialRtsp(s.RtspAddr(), 2*time.Second); err == nil {
					if _, err := rc.Play("rtsp://"+s.RtspAddr()+"/live/"+ss.name, udp, 2*time.Second); err == nil {
						c.Count("rtsp_joiners_waiting_for_key", 1)
					}
					rtspJoiners = append(rtspJoiners, rc)
				}
			}
		}
		c.Describe("sub=%d cell=%s class=%s type=%d ts=%d len=%d payload=%x", k, cell.Name, hm.Class, hm.Type, hm.Ts, len(hm.Payload), hm.Payload[:min(len(hm.Payload), 64)])
		if k%25 == 0 {
			// joiners of each protocol so that fresh-session / wait-for-key paths see the hostile message
			for _, j := range joiners {
				j.close()
			}
			joiners = nil
			kinds := []string{"rtmp"}
			if cell.Conf.Flv {
				kinds = append(kinds, "flv", "wsflv")
			}
			if cell.Conf.Ts {
				kinds = append(kinds, "ts")
			}
			for _, kd := range kinds {
				if lc, err := startConsumer(s, kd, ss.name); err == nil {
					joiners = append(joiners, lc)
				}
			}
		}
		// codec configuration is parsed (picture size for the stat, SDP, PMT probe) only when it is the
		// FIRST of a stream: hostile sequence headers are therefore also sent as the opening message of
		// a stream of their own, followed by ordinary frames
		light := false
		if hm.Seq == nil && (strings.HasPrefix(hm.Class, "seq-header") || strings.HasPrefix(hm.Class, "sps-huge") || strings.HasPrefix(hm.Class, "asc-") ||
			strings.HasPrefix(hm.Class, "enhanced-header") || hm.Class == "hevc-parameter-set-stubs" || hm.Class == "aud-sps-pps-1-byte-nals") {
			light = true
			hm.Seq = []seqMsg{{hm.Type, 0, hm.Payload}, {9, 0, gen.VideoFrame(r, 6, 7000+k, true, 0, 60)}, {8, 10, gen.AudioFrame(r, 6, 7000+k, 30)}, {9, 40, gen.VideoFrame(r, 6, 7001+k, false, 0, 60)}}
		}
		if hm.Seq != nil {
			// the side session: its own publisher and name, joiners attached from its start
			sideName := fmt.Sprintf("%s_seq%d", name, k)
			var sideJoin []*liveConsumer
			for _, kd := range []string{"rtmp", "flv", "ts"} {
				if light {
					break
				}
				if (kd == "flv" && !cell.Conf.Flv) || (kd == "ts" && !cell.Conf.Ts) {
					continue
				}
				if lc, err := startConsumer(s, kd, sideName); err == nil {
					sideJoin = append(sideJoin, lc)
				}
			}
			// RTSP players that ask for the stream before it exists: lal answers their DESCRIBE once it
			// has built (or failed to build) a description from the first messages
			var early []*ref.RtspClient
			if cell.Conf.Rtsp && !light {
				for _, udp := range []bool{false, true} {
					if rc, err := ref.DialRtsp(s.RtspAddr(), 2*time.Second); err == nil {
						early = append(early, rc)
						go func(rc *ref.RtspClient, udp bool) {
							rc.Play("rtsp://"+s.RtspAddr()+"/live/"+sideName, udp, 8*time.Second)
						}(rc, udp)
					}
				}
				c.Count("rtsp_players_before_the_stream", len(early))
				time.Sleep(15 * time.Millisecond)
			}
			sideFrom := s.Notify.Len()
			if sp, err := ref.StartRtmpPublisher(s.RtmpAddr(), "live", sideName, 5*time.Second); err == nil {
				sp.RC.SetChunkSize(4096)
				for _, m := range hm.Seq {
					if sp.RC.Send(ref.RtmpMsg{Csid: csidFor(m.Type), TypeID: m.Type, StreamID: sp.Msid, Ts: m.Ts, Payload: m.Payload}, 0) != nil {
						break
					}
				}
				if !light {
					time.Sleep(30 * time.Millisecond)
				}
				// lal handles a connection's messages in order, so the pub_stop that follows our close
				// tells that every message of the side session has been dealt with: bounded time
				sideKey := srv.Key(sp.RC.Conn)
				sp.Close()
				if _, ok := s.Notify.WaitSessionFrom(15*time.Second, sideFrom, "pub_stop", sideKey); !ok {
					if _, started := s.Notify.WaitSessionFrom(0, sideFrom, "pub_start", sideKey); started {
						c.Violate("stall/"+hm.Class, fmt.Sprintf("a stream opened with this message was not finished 15 s after its publisher had closed the connection (lal still busy with its messages) | cell=%s class=%s payload=%x", cell.Name, hm.Class, hm.Payload[:min(len(hm.Payload), 48)]), nil)
						c.ExitNow() // whatever holds that session holds its stream's lock: an orderly stop would block too
					}
				}
				sp.Close()
				c.Count("valid_order_sessions", 1)
			}
			for _, lc := range sideJoin {
				lc.close()
			}
			for _, rc := range early {
				rc.Close()
			}
		}
		hookBefore := -1
		if h := hooks.Latest(ss.name); h != nil {
			hookBefore = h.Count()
		}
		ts := ss.ts
		if strings.HasPrefix(hm.Class, "timestamp-extreme") {
			ts = hm.Ts
		}
		err1 := ss.pub.RC.Send(ref.RtmpMsg{Csid: csidFor(hm.Type), TypeID: hm.Type, StreamID: ss.pub.Msid, Ts: ts, Payload: hm.Payload}, 0)
		// marker: a healthy inter frame (key frame every 10th) right after the hostile message
		markerIdx++
		ss.ts += 40
		marker := gen.VideoFrame(r, 4, markerIdx, k%10 == 0, 0, 50)
		markerTs := ss.ts
		if hm.Class == "timestamp-extreme/near-wrap-run" {
			markerTs = hm.Ts + 1 // keep the whole run (markers included) just below / across 2^32
		}
		err2 := ss.pub.RC.Send(ref.RtmpMsg{Csid: 6, TypeID: 9, StreamID: ss.pub.Msid, Ts: markerTs, Payload: marker}, 0)
		c.Eval(1)
		c.Cell("%s/%s", cell.Name, hm.Class)
		delivered := false
		if flv && err1 == nil && err2 == nil {
			want := gen.KeyOf(9, marker)
			delivered = srv.WaitFor(15*time.Second, func() bool {
				if ss.pub.PeerClosed() {
					return true
				}
				tags := ss.witness.Tags()
				for n := len(tags) - 1; n >= lastWitness && n >= 0; n-- {
					if tags[n].Type == 9 && gen.KeyOf(9, tags[n].Data) == want {
						return true
					}
				}
				return false
			})
			if !delivered && !ss.pub.PeerClosed() {
				stalls++
				c.Violate("stall/"+hm.Class, fmt.Sprintf("marker frame sent after the hostile message was not delivered within 15 s although the publisher connection is still open | cell=%s class=%s type=%d ts=%d payload=%x", cell.Name, hm.Class, hm.Type, ts, hm.Payload[:min(len(hm.Payload), 48)]), nil)
				c.ExitNow() // lal is wedged: an orderly stop would block too
			}
			n := ss.witness.NumTags()
			amp := n - lastWitness
			lastWitness = n
			bound := 8 + len(hm.Payload)/100
			if cell.Conf.DummyAudio {
				bound = 10000
			}
			if amp > bound {
				c.Violate("amplification/"+hm.Class, fmt.Sprintf("%d tags delivered for one %d-byte input message (bound %d) | cell=%s class=%s ts=%d", amp, len(hm.Payload), bound, cell.Name, hm.Class, ts), nil)
			}
		} else if !flv {
			// no witness in this cell: the processed-count clock of the stream hook
			h := hooks.Latest(ss.name)
			if h != nil && hookBefore >= 0 {
				// the marker is non-empty, so the processed count must move past the value read before sending
				ok := srv.WaitFor(15*time.Second, func() bool { return ss.pub.PeerClosed() || h.Count() >= hookBefore+1 || h.Stops() > 0 })
				if !ok {
					stalls++
					c.Violate("stall/"+hm.Class, fmt.Sprintf("neither the hostile message nor the marker frame was processed within 15 s although the publisher connection is still open | cell=%s class=%s type=%d ts=%d payload=%x", cell.Name, hm.Class, hm.Type, ts, hm.Payload[:min(len(hm.Payload), 48)]), nil)
					c.ExitNow() // lal is wedged: an orderly stop would block too
				}
			}
		}
		if err1 != nil || err2 != nil || ss.pub.PeerClosed() {
			closedByLal++
			lastWitness = 0
			if !reopen(k + 1) {
				return
			}
		}
	}
	for _, j := range joiners {
		j.close()
	}
	c.Count("publisher_connections_closed_by_lal", closedByLal)
	// canary on another name
	cmin := 9
	if cell.Conf.MergeWrite > 0 {
		cmin = 5
	}
	if err := rtmpCanaryMin(s, fmt.Sprintf("c05canary%d", i), cmin); err != nil {
		c.Violate("canary/other-stream-stalled", err.Error(), nil)
	}
	c13Spin(c, "end of case "+cell.Name)
	if i < 8 {
		m := msgs[len(msgs)/2]
		c.Sample(map[string]interface{}{"cell": cell.Name, "class": m.Class, "type": m.Type, "payload_hex": fmt.Sprintf("%x", m.Payload[:min(len(m.Payload), 40)]), "messages_in_case": len(msgs)})
	}
}
