package props

import (
	"bytes"
	"fmt"
	"math/rand"
	"time"

	"lalverif/fw"
	"lalverif/ref"

	"github.com/q191201771/lal/pkg/base"
	"github.com/q191201771/lal/pkg/rtprtcp"
)

// C12 — RTP packetise/depacketise is lossless under size, reordering and wrap-around.

type c12Codec int

const (
	c12Avc c12Codec = iota
	c12Hevc
	c12Aac
	c12Pcm
	c12Opus
)

func (k c12Codec) String() string { return []string{"avc", "hevc", "aac", "pcm", "opus"}[k] }

func (k c12Codec) pt() base.AvPacketPt {
	return []base.AvPacketPt{base.AvPacketPtAvc, base.AvPacketPtHevc, base.AvPacketPtAac, base.AvPacketPtG711A, base.AvPacketPtOpus}[k]
}

// mode: 1 nalu, 2 avcc, 3 annexb (video only)
func c12NewPacker(k c12Codec, mode int, clock int, limit int, firstSeq uint16) *rtprtcp.RtpPacker {
	var pp rtprtcp.IRtpPackerPayload
	mod := func(o *rtprtcp.RtpPackerPayloadAvcHevcOption) { o.Typ = rtprtcp.RtpPackerPayloadAvcHevcType(mode) }
	switch k {
	case c12Avc:
		pp = rtprtcp.NewRtpPackerPayloadAvc(mod)
	case c12Hevc:
		pp = rtprtcp.NewRtpPackerPayloadHevc(mod)
	case c12Aac:
		pp = rtprtcp.NewRtpPackerPayloadAac()
	case c12Pcm:
		pp = rtprtcp.NewRtpPackerPayloadPcm()
	default:
		pp = rtprtcp.NewRtpPackerPayloadOpus()
	}
	return rtprtcp.NewRtpPacker(pp, clock, 0x11223344, func(o *rtprtcp.RtpPackerOption) {
		o.MaxPayloadSize = limit
		o.FirstSeq = firstSeq
	})
}

// c12Unit builds one NAL unit / audio frame of n bytes with the given header bytes.
func c12Unit(k c12Codec, n int, h0, h1 byte, salt uint32) []byte {
	b := c09Fill(n, salt)
	switch k {
	case c12Avc:
		if n >= 1 {
			b[0] = h0
		}
	case c12Hevc:
		if n >= 1 {
			b[0] = h0
		}
		if n >= 2 {
			b[1] = h1
		}
	}
	return b
}

type c12Frame struct {
	units [][]byte // NAL units (video) or a single audio frame
	ts    int64    // ms
}

func c12FramePayload(k c12Codec, mode int, f c12Frame) []byte {
	if k >= c12Aac || mode == 1 {
		return f.units[0]
	}
	var b []byte
	for i, u := range f.units {
		if mode == 2 {
			b = append(b, byte(len(u)>>24), byte(len(u)>>16), byte(len(u)>>8), byte(len(u)))
		} else {
			if i%2 == 0 {
				b = append(b, 0, 0, 0, 1)
			} else {
				b = append(b, 0, 0, 1)
			}
		}
		b = append(b, u...)
	}
	return b
}

type c12Session struct {
	c      *fw.Ctx
	k      c12Codec
	mode   int
	clock  int
	limit  int
	packer *rtprtcp.RtpPacker
	seq    uint16
	first  bool
	info   string
}

// packFrames packs frames with lal and checks the packet-level clauses with the reference
// parser. Returns raw packets per frame.
func (s *c12Session) pack(frames []c12Frame) (pkts [][]byte, perFrame []int) {
	c := s.c
	for fi, f := range frames {
		out := s.packer.Pack(base.AvPacket{PayloadType: s.k.pt(), Timestamp: f.ts, Payload: c12FramePayload(s.k, s.mode, f)})
		if len(out) == 0 {
			c.Violate("pack/no-packets/"+s.k.String(), fmt.Sprintf("frame %d produced no packets | %s", fi, s.info), nil)
			continue
		}
		perFrame = append(perFrame, len(out))
		wantTs := uint32(uint64(f.ts) * uint64(s.clock) / 1000)
		for i, p := range out {
			rp, err := ref.ParseRtp(p.Raw)
			if err != nil {
				c.Violate("pack/rtp-syntax/"+s.k.String(), fmt.Sprintf("%v | %s", err, s.info), nil)
				continue
			}
			if rp.Marker != (i == len(out)-1) {
				c.Violate("pack/marker/"+s.k.String(), fmt.Sprintf("frame %d packet %d/%d marker=%v | %s", fi, i, len(out), rp.Marker, s.info), nil)
			}
			if rp.Seq != s.seq {
				c.Violate("pack/seq/"+s.k.String(), fmt.Sprintf("frame %d packet %d seq=%d want %d | %s", fi, i, rp.Seq, s.seq, s.info), nil)
			}
			s.seq++
			if rp.Ts != wantTs {
				c.Violate("pack/timestamp/"+s.k.String(), fmt.Sprintf("rtp ts %d want %d (media %d ms at %d Hz) | %s", rp.Ts, wantTs, f.ts, s.clock, s.info), nil)
			}
			if s.k <= c12Hevc && len(rp.Payload) > s.limit {
				c.Violate("pack/payload-limit/"+s.k.String(), fmt.Sprintf("payload %d bytes > limit %d | %s", len(rp.Payload), s.limit, s.info), nil)
			}
			if rp.PT != uint8(s.k.pt()) || rp.Ssrc != 0x11223344 || rp.Padding != 0 || rp.HasExt || len(rp.Csrc) != 0 {
				c.Violate("pack/header/"+s.k.String(), fmt.Sprintf("header pt=%d ssrc=%#x | %s", rp.PT, rp.Ssrc, s.info), nil)
			}
			pkts = append(pkts, p.Raw)
		}
	}
	return
}

func c12AllUnits(frames []c12Frame) (u [][]byte) {
	for _, f := range frames {
		u = append(u, f.units...)
	}
	return
}

func unitsEq(got, want [][]byte) string {
	if len(got) != len(want) {
		var gl, wl []string
		for _, g := range got {
			gl = append(gl, fmt.Sprintf("%d:%x", len(g), g[:min(len(g), 2)]))
		}
		for _, g := range want {
			wl = append(wl, fmt.Sprintf("%d:%x", len(g), g[:min(len(g), 2)]))
		}
		if len(gl) > 14 {
			gl = gl[:14]
		}
		if len(wl) > 14 {
			wl = wl[:14]
		}
		return fmt.Sprintf("%d units, want %d (got len:hdr %v want %v)", len(got), len(want), gl, wl)
	}
	for i := range want {
		if !bytes.Equal(got[i], want[i]) {
			hd := func(b []byte) string { return fmt.Sprintf("% x", b[:min(len(b), 3)]) }
			return fmt.Sprintf("unit %d differs: len %d vs %d, header bytes [%s] vs [%s]", i, len(got[i]), len(want[i]), hd(got[i]), hd(want[i]))
		}
	}
	return ""
}

// refDepack runs the reference depacketiser over in-order packets.
func c12RefDepack(k c12Codec, pkts [][]byte) ([][]byte, []string) {
	var h4 ref.H264Depack
	var h5 ref.H265Depack
	var aa ref.AacDepack
	var raw [][]byte
	for _, b := range pkts {
		rp, err := ref.ParseRtp(b)
		if err != nil {
			return nil, []string{err.Error()}
		}
		switch k {
		case c12Avc:
			h4.Feed(rp.Payload)
		case c12Hevc:
			h5.Feed(rp.Payload)
		case c12Aac:
			aa.Feed(rp.Payload)
		default:
			raw = append(raw, rp.Payload)
		}
	}
	switch k {
	case c12Avc:
		return h4.Units, h4.Errors
	case c12Hevc:
		return h5.Units, h5.Errors
	case c12Aac:
		return aa.Frames, aa.Errors
	}
	return raw, nil
}

// lalUnpack feeds packets in the given arrival order to lal's container; returns units.
func c12LalUnpack(k c12Codec, clock, window int, arrival [][]byte) (units [][]byte, tss []int64, err string) {
	u := rtprtcp.DefaultRtpUnpackerFactory(k.pt(), clock, window, func(pkt base.AvPacket) {
		if k <= c12Hevc {
			nals, e := ref.SplitAvcc(pkt.Payload)
			if e != nil {
				err = "unpacked payload is not AVCC: " + e.Error()
				return
			}
			for _, n := range nals {
				units = append(units, append([]byte(nil), n...))
				tss = append(tss, pkt.Timestamp)
			}
		} else {
			units = append(units, append([]byte(nil), pkt.Payload...))
			tss = append(tss, pkt.Timestamp)
		}
	})
	for _, b := range arrival {
		p, e := rtprtcp.ParseRtpPacket(b)
		if e != nil {
			return nil, nil, "ParseRtpPacket: " + e.Error()
		}
		u.Feed(p)
	}
	return
}

func c12SizeClass(n, limit int) string {
	switch {
	case n <= limit:
		return "single"
	case n <= 2*limit:
		return "2-fragments"
	default:
		return "n-fragments"
	}
}

// c12RoundTrip: pack frames, depacketise with ref and lal (in order), compare.
func c12RoundTrip(c *fw.Ctx, k c12Codec, mode, clock, limit int, firstSeq uint16, frames []c12Frame, cell string) [][]byte {
	s := &c12Session{c: c, k: k, mode: mode, clock: clock, limit: limit, packer: c12NewPacker(k, mode, clock, limit, firstSeq), seq: firstSeq}
	u0 := frames[0].units[0]
	s.info = fmt.Sprintf("codec=%s mode=%d clock=%d limit=%d firstSeq=%d frames=%d firstUnit(len=%d hdr=% x)", k, mode, clock, limit, firstSeq, len(frames), len(u0), u0[:min(len(u0), 2)])
	pkts, _ := s.pack(frames)
	want := c12AllUnits(frames)
	c.Eval(1)
	got, errs := c12RefDepack(k, pkts)
	if len(errs) > 0 {
		c.Violate("roundtrip/ref-depack-error/"+k.String()+"/"+cell, fmt.Sprintf("reference depacketiser: %v | %s", errs[0], s.info), nil)
	} else if d := unitsEq(got, want); d != "" {
		c.Violate("roundtrip/ref/"+k.String()+"/"+cell, fmt.Sprintf("reference depacketiser: %s | %s", d, s.info), nil)
	}
	got2, _, e := c12LalUnpack(k, clock, 1024, pkts)
	if e != "" {
		c.Violate("roundtrip/lal-error/"+k.String()+"/"+cell, e+" | "+s.info, nil)
	} else if d := unitsEq(got2, want); d != "" {
		c.Violate("roundtrip/lal/"+k.String()+"/"+cell, fmt.Sprintf("lal's depacketiser: %s | %s", d, s.info), nil)
	}
	c.Cell("roundtrip/%s/mode=%d/%s", k, mode, cell)
	return pkts
}

func permutations(n int, f func(p []int)) {
	p := make([]int, n)
	for i := range p {
		p[i] = i
	}
	var rec func(k int)
	rec = func(k int) {
		if k == n {
			f(p)
			return
		}
		for i := k; i < n; i++ {
			p[k], p[i] = p[i], p[k]
			rec(k + 1)
			p[k], p[i] = p[i], p[k]
		}
	}
	rec(0)
}

// c12Reorder: pack a lock frame + test frames; feed lal with perturbed arrival orders.
func c12Reorder(c *fw.Ctx, k c12Codec, r *rand.Rand, exhaustive bool) {
	limit := []int{100, 1200}[r.Intn(2)]
	clock := 90000
	if k == c12Aac {
		clock = 44100
	}
	firstSeq := []uint16{0, 65530, 65531, 65532, 65533, 65534, 65535, uint16(r.Intn(65536))}[r.Intn(8)]
	window := 16
	var frames []c12Frame
	hdr := func() (byte, byte) {
		if k == c12Avc {
			return byte(1+r.Intn(23)) | byte(r.Intn(4))<<5, 0
		}
		return byte(r.Intn(48)) << 1, byte(1 + r.Intn(7))
	}
	h0, h1 := hdr()
	frames = append(frames, c12Frame{units: [][]byte{c12Unit(k, 10, h0, h1, 1)}, ts: 0}) // lock packet
	nf := 1 + r.Intn(3)
	if !exhaustive {
		nf = 10 + r.Intn(60)
	}
	for i := 0; i < nf; i++ {
		h0, h1 = hdr()
		sz := []int{5, limit, limit + 1, 2*limit + 7}[r.Intn(4)]
		if k == c12Aac {
			sz = 1 + r.Intn(300)
		}
		frames = append(frames, c12Frame{units: [][]byte{c12Unit(k, sz, h0, h1, uint32(i+2))}, ts: int64(40 * (i + 1))})
	}
	s := &c12Session{c: c, k: k, mode: 1, clock: clock, limit: limit, packer: c12NewPacker(k, 1, clock, limit, firstSeq), seq: firstSeq}
	s.info = fmt.Sprintf("reorder codec=%s limit=%d firstSeq=%d frames=%d", k, limit, firstSeq, len(frames))
	pkts, _ := s.pack(frames)
	want := c12AllUnits(frames)
	base0, _, e0 := c12LalUnpack(k, clock, window, pkts)
	if e0 != "" || unitsEq(base0, want) != "" {
		c.Violate("reorder/in-order-baseline/"+k.String(), fmt.Sprintf("in-order feed already differs: %s %s | %s", e0, unitsEq(base0, want), s.info), nil)
		return
	}
	rest := pkts[1:]
	try := func(order []int, kind string) {
		arr := [][]byte{pkts[0]}
		for _, i := range order {
			arr = append(arr, rest[i])
		}
		got, _, e := c12LalUnpack(k, clock, window, arr)
		c.Eval(1)
		if e != "" {
			c.Violate("reorder/"+kind+"/error/"+k.String(), e+" | "+s.info, nil)
			return
		}
		if d := unitsEq(got, want); d != "" {
			c.Violate("reorder/"+kind+"/"+k.String(), fmt.Sprintf("arrival order %v changes the output: %s | %s", trimInts(order, 40), d, s.info), nil)
		}
	}
	if exhaustive && len(rest) <= 6 {
		permutations(len(rest), func(p []int) { try(append([]int(nil), p...), "permutation") })
		c.Cell("reorder/all-permutations/%s/n=%d", k, len(rest))
	} else {
		for rep := 0; rep < 40; rep++ {
			order := make([]int, len(rest))
			for i := range order {
				order[i] = i
			}
			// bounded displacement (< window/2) swaps
			for sw := 0; sw < len(order)/2; sw++ {
				i := r.Intn(len(order))
				j := i + r.Intn(window/2-1)
				if j >= len(order) {
					j = len(order) - 1
				}
				// keep total displacement bounded: only swap untouched positions
				if order[i] == i && order[j] == j {
					order[i], order[j] = order[j], order[i]
				}
			}
			// duplicates: re-deliver some packets shortly after their first arrival
			var withDup []int
			for i, x := range order {
				withDup = append(withDup, x)
				if r.Intn(5) == 0 {
					withDup = append(withDup, order[max(0, i-r.Intn(3))])
				}
			}
			try(withDup, "swap+dup")
		}
		c.Cell("reorder/swap+dup/%s/wrap=%v", k, int(firstSeq)+len(pkts) > 65535)
	}
}

func trimInts(a []int, n int) []int {
	if len(a) > n {
		return a[:n]
	}
	return a
}

func max(a, b int) int {
	if a > b {
		return a
	}
	return b
}

var c12Clocks = []int{8000, 11025, 16000, 22050, 32000, 44100, 48000, 90000, 96000}

func c12Sizes(tier string) (nSweep, nMisc int) {
	if tier == "thorough" {
		return 96, 4000
	}
	return 48, 360
}

func init() {
	fw.Register(&fw.Prop{
		ID: "C12",
		NumCases: func(tier string, seed int64) int {
			a, b := c12Sizes(tier)
			return a + b + 3
		},
		CaseTimeout: func(string) time.Duration { return 10 * time.Minute },
		Rule: "RtpPacker with every payload packer (AVC/HEVC in NALU, AVCC and Annex-B modes; AAC; PCM; Opus): unit sizes 1..4·limit+3 for limit∈{100,1200,1400} (exhaustive), sampled sizes to 300 KiB; every H.264 header (type 1..23 × NRI) and H.265 header (type 0..47 × layer × tid 1..7); clock rates 8000..96000 incl. 44100; FirstSeq at 0 and 65530..65535; ≥70000-packet chain; packets parsed by a reference RTP parser (marker, seq, timestamp, payload limit) and depacketised by RFC 6184/7798/3640 reference depacketisers and by lal's RtpUnpackContainer; arrival orders: all permutations for ≤6 packets after a lock packet, bounded swaps+duplicates for longer chains. " +
			"AUD NAL units are excluded in AVCC/Annex-B modes (lal drops them by design); H.264 F bit not judged. cell = clause × codec × mode × size class.",
		Assumptions: []string{"ref/rtp.go reference parser/depacketisers", "the first packet of a chain arrives first (the reorder window exists once the receiver is locked)", "AAC frames ≤ 8191 bytes (13-bit AU size)"},
		MinCells: 20,
		Run:      c12Run,
	})
}

func c12Run(c *fw.Ctx, i int) {
	nS, _ := c12Sizes(c.Tier)
	r := c.Rng
	switch {
	case i < nS:
		// exhaustive size sweep slice
		k := 0
		for _, limit := range []int{100, 1200, 1400} {
			for n := 1; n <= 4*limit+3; n++ {
				k++
				if k%nS != i {
					continue
				}
				ts := int64(r.Intn(1 << 24))
				for _, cod := range []c12Codec{c12Avc, c12Hevc} {
					if cod == c12Hevc && n < 2 {
						continue
					}
					h0, h1 := byte(0x65), byte(0)
					if cod == c12Hevc {
						h0, h1 = 19<<1, 1
					}
					c.Describe("size sweep %s n=%d limit=%d", cod, n, limit)
					c12RoundTrip(c, cod, 1, 90000, limit, uint16(r.Intn(65536)), []c12Frame{{units: [][]byte{c12Unit(cod, n, h0, h1, uint32(n))}, ts: ts}}, c12SizeClass(n, limit))
				}
			}
		}
		c.Sample(map[string]interface{}{"kind": "size-sweep-slice", "slice": i, "of": nS, "limits": []int{100, 1200, 1400}})
	case i == nS:
		c.Describe("H.264 header sweep")
		for typ := 1; typ <= 23; typ++ {
			for nri := 0; nri < 4; nri++ {
				for _, n := range []int{1, 2, 50, 105, 250, 1300} {
					h := byte(typ) | byte(nri)<<5
					c12RoundTrip(c, c12Avc, 1, 90000, 100, 7, []c12Frame{{units: [][]byte{c12Unit(c12Avc, n, h, 0, uint32(typ*4+nri))}, ts: 1000}}, fmt.Sprintf("hdr-sweep/%s", c12SizeClass(n, 100)))
				}
			}
		}
		c.Sample(map[string]interface{}{"kind": "h264-header-sweep", "types": "1..23", "nri": "0..3"})
	case i == nS+1:
		c.Describe("H.265 header sweep")
		for typ := 0; typ <= 47; typ++ {
			for _, layer := range []int{0, 1, 31, 32, 63} {
				for tid := 1; tid <= 7; tid++ {
					for _, n := range []int{2, 50, 105, 250} {
						h0 := byte(typ)<<1 | byte(layer>>5)
						h1 := byte(layer&31)<<3 | byte(tid)
						cl := "layer0-tid1"
						if layer != 0 || tid != 1 {
							cl = "layer/tid-other"
						}
						c12RoundTrip(c, c12Hevc, 1, 90000, 100, 9, []c12Frame{{units: [][]byte{c12Unit(c12Hevc, n, h0, h1, uint32(typ))}, ts: 1000}}, fmt.Sprintf("hdr-sweep/%s/%s", cl, c12SizeClass(n, 100)))
					}
				}
			}
		}
		c.Sample(map[string]interface{}{"kind": "h265-header-sweep", "types": "0..47", "layers": []int{0, 1, 31, 32, 63}, "tid": "1..7"})
	case i == nS+2:
		c.Describe("long chain across two sequence wraps")
		// ≥70000 packets in one chain
		k := c12Avc
		var frames []c12Frame
		for f := 0; f < 24000; f++ {
			frames = append(frames, c12Frame{units: [][]byte{c12Unit(k, 250, byte(1+f%23), 0, uint32(f))}, ts: int64(f * 40)})
		}
		pk := c12RoundTrip(c, k, 1, 90000, 100, 65000, frames, "long-chain")
		c.Count("long_chain_packets", len(pk))
		c.Sample(map[string]interface{}{"kind": "long-chain", "packets": len(pk), "first_seq": 65000})
	default:
		m := i - nS - 3
		switch m % 6 {
		case 0, 1:
			// multi-NAL frames in AVCC / Annex-B mode, several frames, seeded sizes up to 300 KiB
			cod := []c12Codec{c12Avc, c12Hevc}[r.Intn(2)]
			mode := 2 + m%2
			limit := []int{100, 1200, 1400}[r.Intn(3)]
			var frames []c12Frame
			for f := 0; f < 1+r.Intn(5); f++ {
				var fr c12Frame
				fr.ts = int64(f*40) + int64(r.Intn(1<<20))
				for u := 0; u < 1+r.Intn(6); u++ {
					n := []int{1, 2, 3, 20, limit - 1, limit, limit + 1, 3 * limit, 1 + r.Intn(5000), 1 + r.Intn(300*1024)}[r.Intn(10)]
					if n > 900*(limit-3) {
						// premise: a unit must fit lal's 1024-packet reassembly window
						n = 900 * (limit - 3)
					}
					var h0, h1 byte
					if cod == c12Avc {
						t := 1 + r.Intn(23)
						for t == 9 {
							t = 1 + r.Intn(23)
						}
						h0 = byte(t) | byte(r.Intn(4))<<5
					} else {
						t := r.Intn(48)
						for t == 35 {
							t = r.Intn(48)
						}
						h0, h1 = byte(t)<<1, byte(1+r.Intn(7))
						if n < 2 {
							n = 2
						}
					}
					unit := c12Unit(cod, n, h0, h1, uint32(f*10+u))
					if mode == 3 {
						// Annex-B framing cannot carry start-code emulation or trailing zeros
						for x := 1; x < len(unit); x++ {
							if unit[x] == 0 {
								unit[x] = 0x80
							}
						}
					}
					fr.units = append(fr.units, unit)
				}
				frames = append(frames, fr)
			}
			c.Describe("multi-NAL %s mode=%d frames=%d", cod, mode, len(frames))
			c12RoundTrip(c, cod, mode, 90000, limit, uint16(r.Intn(65536)), frames, "multi-nal")
			if m < 12 {
				c.Sample(map[string]interface{}{"kind": "multi-nal", "codec": cod.String(), "mode": mode, "frames": len(frames)})
			}
		case 2:
			// audio: all clock rates, sizes
			for _, cod := range []c12Codec{c12Aac, c12Pcm, c12Opus} {
				clock := c12Clocks[r.Intn(len(c12Clocks))]
				var frames []c12Frame
				t := int64(r.Intn(100000))
				for f := 0; f < 50; f++ {
					n := 1 + r.Intn(1500)
					if f%10 == 0 {
						n = []int{1, 2, 31, 32, 255, 256, 1200, 1201, 4000, 8191}[r.Intn(10)]
					}
					if cod != c12Aac && n > 1400 {
						n = 1400
					}
					frames = append(frames, c12Frame{units: [][]byte{c09Fill(n, uint32(f))}, ts: t})
					t += int64(r.Intn(50))
				}
				c.Describe("audio %s clock=%d", cod, clock)
				c12RoundTrip(c, cod, 1, clock, 1200, uint16(r.Intn(65536)), frames, fmt.Sprintf("audio/clock=%d", clock))
			}
		case 3:
			cod := []c12Codec{c12Avc, c12Hevc, c12Aac}[r.Intn(3)]
			c.Describe("reorder exhaustive %s", cod)
			c12Reorder(c, cod, r, true)
		case 4:
			cod := []c12Codec{c12Avc, c12Hevc, c12Aac}[r.Intn(3)]
			c.Describe("reorder swap+dup %s", cod)
			c12Reorder(c, cod, r, false)
		default:
			// first-seq boundary + clock rate timestamps for video
			cod := []c12Codec{c12Avc, c12Hevc}[r.Intn(2)]
			for _, fs := range []uint16{0, 65530, 65531, 65532, 65533, 65534, 65535} {
				clock := c12Clocks[r.Intn(len(c12Clocks))]
				var frames []c12Frame
				for f := 0; f < 6; f++ {
					h0, h1 := byte(0x41), byte(0)
					if cod == c12Hevc {
						h0, h1 = 1<<1, 1
					}
					frames = append(frames, c12Frame{units: [][]byte{c12Unit(cod, 2+r.Intn(400), h0, h1, uint32(f))}, ts: []int64{0, 1, 1 << 24, 1 << 31, 47721858, 47721859, 1<<32 - 1}[r.Intn(7)]})
				}
				c12RoundTrip(c, cod, 1, clock, 100, fs, frames, fmt.Sprintf("firstseq-boundary/clock=%d", clock))
			}
		}
	}
}
