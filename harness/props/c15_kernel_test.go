package props

import (
	"net"
	"testing"
	"time"
)

// the kernel query used by C15's idleness judgement: a writer whose peer does not read has bytes
// queued on its side; after the peer drained everything it has none
func TestTcpPeerSendQueue(t *testing.T) {
	ln, err := net.Listen("tcp", "127.0.0.1:0")
	if err != nil {
		t.Fatal(err)
	}
	defer ln.Close()
	done := make(chan int, 1)
	go func() {
		c, err := ln.Accept()
		if err != nil {
			return
		}
		c.SetWriteDeadline(time.Now().Add(2 * time.Second))
		n, _ := c.Write(make([]byte, 32<<20)) // blocks once both kernel buffers are full
		done <- n
		time.Sleep(3 * time.Second)
		c.Close()
	}()
	conn, err := net.Dial("tcp", ln.Addr().String())
	if err != nil {
		t.Fatal(err)
	}
	defer conn.Close()
	n := <-done
	q, ok := tcpPeerSendQueue(conn)
	if !ok || q <= 0 {
		t.Fatalf("writer blocked after %d bytes but peer send queue = %d ok=%v", n, q, ok)
	}
	buf := make([]byte, 1<<20)
	got := 0
	for got < n {
		conn.SetReadDeadline(time.Now().Add(2 * time.Second))
		k, err := conn.Read(buf)
		got += k
		if err != nil {
			break
		}
	}
	if got != n {
		t.Fatalf("read %d of %d", got, n)
	}
	if q, ok := tcpPeerSendQueue(conn); !ok || q != 0 {
		t.Fatalf("after draining: peer send queue = %d ok=%v", q, ok)
	}
}
