package props

import (
	"crypto/md5"
	"encoding/base64"
	"encoding/hex"
	"encoding/json"
	"fmt"
	"math/rand"
	"os"
	"path/filepath"
	"strings"
	"time"

	"lalverif/fw"
	"lalverif/gen"
	"lalverif/ref"
	"lalverif/srv"

	"github.com/q191201771/lal/pkg/hls"
)

// C14 — access control admits exactly the authorised requests.

const c14Key = "verif_key_q19"

func c14Secret(stream string) string {
	x := md5.Sum([]byte(c14Key + stream))
	return hex.EncodeToString(x[:])
}

type c14Flags struct {
	Name     string
	Auth     srv.SimpleAuth
	Override string
}

func c14Cells() []c14Flags {
	mk := func(name string, f func(a *srv.SimpleAuth)) c14Flags {
		a := srv.SimpleAuth{Key: c14Key}
		f(&a)
		return c14Flags{Name: name, Auth: a, Override: a.DangerousSecret}
	}
	all := func(a *srv.SimpleAuth) {
		a.PubRtmp, a.SubRtmp, a.SubHttpflv, a.SubHttpts, a.PubRtsp, a.SubRtsp, a.HlsM3u8 = true, true, true, true, true, true, true
	}
	return []c14Flags{
		mk("all-off", func(a *srv.SimpleAuth) {}),
		mk("all-on", all),
		mk("all-on+override-lower", func(a *srv.SimpleAuth) { all(a); a.DangerousSecret = "pengrl" }),
		mk("all-on+override-MixedCase", func(a *srv.SimpleAuth) { all(a); a.DangerousSecret = "PengRL_77" }),
		mk("only-pub-rtmp", func(a *srv.SimpleAuth) { a.PubRtmp = true }),
		mk("only-sub-rtmp", func(a *srv.SimpleAuth) { a.SubRtmp = true }),
		mk("only-sub-httpflv", func(a *srv.SimpleAuth) { a.SubHttpflv = true }),
		mk("only-sub-httpts", func(a *srv.SimpleAuth) { a.SubHttpts = true }),
		mk("only-pub-rtsp", func(a *srv.SimpleAuth) { a.PubRtsp = true }),
		mk("only-sub-rtsp", func(a *srv.SimpleAuth) { a.SubRtsp = true }),
		mk("only-hls-m3u8", func(a *srv.SimpleAuth) { a.HlsM3u8 = true }),
		mk("subs-on/pubs-off+override", func(a *srv.SimpleAuth) {
			a.SubRtmp, a.SubHttpflv, a.SubHttpts, a.SubRtsp, a.HlsM3u8, a.DangerousSecret = true, true, true, true, true, "over_ride"
		}),
	}
}

type secretForm struct {
	Name  string
	Query func(stream, override string) string
	// Right: 1 must admit when the flag is on, 0 must refuse, −1 unspecified (recorded, not judged)
	Right int
}

func c14Forms() []secretForm {
	return []secretForm{
		{"absent", func(s, o string) string { return "" }, 0},
		{"empty", func(s, o string) string { return "lal_secret=" }, 0},
		{"wrong", func(s, o string) string { return "lal_secret=00112233445566778899aabbccddeeff" }, 0},
		{"right-lower", func(s, o string) string { return "lal_secret=" + c14Secret(s) }, 1},
		{"right-UPPER", func(s, o string) string { return "lal_secret=" + strings.ToUpper(c14Secret(s)) }, 1},
		{"right-for-other-stream", func(s, o string) string { return "lal_secret=" + c14Secret(s+"x") }, 0},
		{"other-params-around", func(s, o string) string { return "a=1&lal_secret=" + c14Secret(s) + "&b=%20x" }, 1},
		{"other-param-named-alike", func(s, o string) string { return "xlal_secret=" + c14Secret(s) }, 0},
		{"duplicated-both-right", func(s, o string) string { return "lal_secret=" + c14Secret(s) + "&lal_secret=" + c14Secret(s) }, 1},
		{"duplicated-both-wrong", func(s, o string) string { return "lal_secret=aa&lal_secret=bb" }, 0},
		{"duplicated-right+wrong", func(s, o string) string { return "lal_secret=" + c14Secret(s) + "&lal_secret=bb" }, -1},
		{"malformed-query-no-right", func(s, o string) string { return "x=%zz&lal_secret=nope" }, 0},
		// parameters that other layers give a meaning to must not stand in for the secret
		{"absent+session_id", func(s, o string) string { return "session_id=1" }, 0},
		{"wrong+session_id", func(s, o string) string { return "session_id=abcdef0123456789&lal_secret=00112233445566778899aabbccddeeff" }, 0},
		{"empty+session_id", func(s, o string) string { return "lal_secret=&session_id=x" }, 0},
		{"right+session_id", func(s, o string) string { return "session_id=1&lal_secret=" + c14Secret(s) }, -1},
		{"malformed-query+right", func(s, o string) string { return "x=%zz&lal_secret=" + c14Secret(s) }, -1},
		{"override-exact", func(s, o string) string {
			if o == "" {
				return "lal_secret=override_not_configured"
			}
			return "lal_secret=" + o
		}, 2}, // 2: admit iff an override is configured
	}
}

type c14Env struct {
	c     *fw.Ctx
	s     *srv.Server
	cell  c14Flags
	bg    string // live stream with SDP and HLS playlist
	bgPub *ref.RtmpPublisher
}

// c14StartBg publishes a short A/V stream so that SDP and an HLS playlist exist, and keeps the
// publisher connected.
func c14StartBg(s *srv.Server, name, query string, r *rand.Rand) (*ref.RtmpPublisher, error) {
	n := name
	if query != "" {
		n += "?" + query
	}
	pub, err := ref.StartRtmpPublisher(s.RtmpAddr(), "live", n, 5*time.Second)
	if err != nil {
		return nil, err
	}
	es := gen.BuildEs(r, 1, gen.EsSpec{VCodec: "avc", ACodec: "aac", AacIdx: 4, AacChans: 2, AacObj: 2, NVideo: 100, GopLen: 10, AudioPer: 1})
	for _, m := range es.RtmpMessages(true) {
		if err := pub.RC.Send(ref.RtmpMsg{Csid: csidFor(m.Type), TypeID: m.Type, StreamID: pub.Msid, Ts: m.Ts, Payload: m.Payload}, 0); err != nil {
			return nil, err
		}
	}
	time.Sleep(150 * time.Millisecond)
	return pub, nil
}

type c14Outcome int

const (
	c14Refused c14Outcome = iota
	c14Admitted
	c14Unknown
)

func (o c14Outcome) String() string { return []string{"refused", "admitted", "undetermined"}[o] }

// attempt performs one request of the given protocol/direction with the query.
func (e *c14Env) attempt(proto, query string, k int) (out c14Outcome, detail string) {
	s := e.s
	from := s.Notify.Len()
	q := ""
	if query != "" {
		q = "?" + query
	}
	switch proto {
	case "rtmp-pub":
		name := fmt.Sprintf("%s_p%d", e.bg, k)
		pub, err := ref.StartRtmpPublisher(s.RtmpAddr(), "live", name+q, 3*time.Second)
		if err != nil {
			return c14Refused, "publish handshake failed: " + err.Error()
		}
		defer pub.Close()
		addr := srv.Key(pub.RC.Conn)
		ok := srv.WaitFor(2*time.Second, func() bool {
			_, st := s.Notify.WaitSessionFrom(0, from, "pub_start", addr)
			return st || pub.PeerClosed()
		})
		_, started := s.Notify.WaitSessionFrom(0, from, "pub_start", addr)
		if started {
			return c14Admitted, ""
		}
		if ok && pub.PeerClosed() {
			// refused: must not be listed
			if g := s.Lal.StatGroup(name); g != nil && g.StatPub.SessionId != "" {
				return c14Admitted, "refused connection but the stat API lists a publisher"
			}
			return c14Refused, ""
		}
		return c14Unknown, "neither pub_start nor close within 2 s"
	case "rtmp-sub":
		sub, err := ref.StartRtmpSubscriber(s.RtmpAddr(), "live", e.bg+q, 3*time.Second)
		if err != nil {
			return c14Refused, err.Error()
		}
		defer sub.Close()
		addr := srv.Key(sub.RC.Conn)
		srv.WaitFor(2*time.Second, func() bool {
			_, st := s.Notify.WaitSessionFrom(0, from, "sub_start", addr)
			return st || sub.Hist.IsClosed()
		})
		if _, st := s.Notify.WaitSessionFrom(0, from, "sub_start", addr); st {
			return c14Admitted, ""
		}
		if sub.Hist.IsClosed() {
			if sub.Hist.Len() > 0 {
				return c14Admitted, "connection closed but media was delivered"
			}
			return c14Refused, ""
		}
		return c14Unknown, "neither sub_start nor close within 2 s"
	case "flv-sub", "wsflv-sub", "ts-sub":
		kind, ext := "flv", ".flv"
		if proto == "wsflv-sub" {
			kind = "wsflv"
		}
		if proto == "ts-sub" {
			kind, ext = "ts", ".ts"
		}
		h, err := srv.StartHttpSub(s.HttpAddr(), "/live/"+e.bg+ext+q, kind, 3*time.Second)
		if err != nil {
			return c14Refused, err.Error()
		}
		defer h.Close()
		if h.Status == 200 || h.Status == 101 {
			return c14Admitted, ""
		}
		return c14Refused, fmt.Sprintf("status %d", h.Status)
	case "rtsp-pub":
		name := fmt.Sprintf("%s_rp%d", e.bg, k)
		rc, err := ref.DialRtsp(s.RtspAddr(), 3*time.Second)
		if err != nil {
			return c14Unknown, err.Error()
		}
		defer rc.Close()
		r, err := rc.Request("ANNOUNCE", "rtsp://"+s.RtspAddr()+"/live/"+name+q, []string{"Content-Type: application/sdp"}, goodSdp(nil), 3*time.Second)
		if err != nil {
			return c14Refused, err.Error()
		}
		if r.Status == 200 {
			return c14Admitted, ""
		}
		return c14Refused, fmt.Sprintf("status %d", r.Status)
	case "rtsp-sub":
		rc, err := ref.DialRtsp(s.RtspAddr(), 3*time.Second)
		if err != nil {
			return c14Unknown, err.Error()
		}
		defer rc.Close()
		r, err := rc.Request("DESCRIBE", "rtsp://"+s.RtspAddr()+"/live/"+e.bg+q, []string{"Accept: application/sdp"}, nil, 3*time.Second)
		if err != nil {
			return c14Refused, err.Error()
		}
		if r.Status == 200 && strings.Contains(string(r.Body), "m=") {
			return c14Admitted, ""
		}
		return c14Refused, fmt.Sprintf("status %d", r.Status)
	case "hls-m3u8", "hls-playlist":
		path := "/hls/" + e.bg + ".m3u8"
		if proto == "hls-playlist" {
			path = "/hls/" + e.bg + "/playlist.m3u8"
		}
		_, _, body, err := srv.HttpGet(s.HttpAddr(), path+q, 3*time.Second)
		if err != nil {
			return c14Refused, err.Error()
		}
		if strings.Contains(string(body), "#EXTM3U") {
			return c14Admitted, ""
		}
		return c14Refused, ""
	}
	return c14Unknown, "unknown protocol"
}

func c14FlagOn(a srv.SimpleAuth, proto string) bool {
	switch proto {
	case "rtmp-pub":
		return a.PubRtmp
	case "rtmp-sub":
		return a.SubRtmp
	case "flv-sub", "wsflv-sub":
		return a.SubHttpflv
	case "ts-sub":
		return a.SubHttpts
	case "rtsp-pub":
		return a.PubRtsp
	case "rtsp-sub":
		return a.SubRtsp
	case "hls-m3u8", "hls-playlist":
		return a.HlsM3u8
	}
	return false
}

var c14Protos = []string{"rtmp-pub", "rtmp-sub", "flv-sub", "wsflv-sub", "ts-sub", "rtsp-pub", "rtsp-sub", "hls-m3u8", "hls-playlist"}

func c14StartServer(c *fw.Ctx, conf srv.Conf, tag string) (*srv.Server, func()) {
	root := filepath.Join(c.Scratch, fmt.Sprintf("c14-%d-%s", c.Index, tag))
	os.MkdirAll(root, 0755)
	s, err := srv.Start(conf, root)
	if err != nil {
		c.Inconclusive("server start: %v", err)
		return nil, func() {}
	}
	return s, func() { s.Stop(); os.RemoveAll(root) }
}

func c14AuthMatrix(c *fw.Ctx, cell c14Flags) {
	conf := srv.Conf{Flv: true, Ts: true, Hls: true, HlsFragMs: 1000, HlsFragNum: 6, HlsDelThr: 6, HlsCleanup: 0, Rtsp: true, Api: true, Auth: cell.Auth}
	s, stop := c14StartServer(c, conf, "auth")
	if s == nil {
		return
	}
	defer stop()
	e := &c14Env{c: c, s: s, cell: cell, bg: fmt.Sprintf("au%d", c.Index)}
	bgq := ""
	if cell.Auth.PubRtmp {
		bgq = "lal_secret=" + c14Secret(e.bg)
	}
	pub, err := c14StartBg(s, e.bg, bgq, c.SubRng("bg"))
	if err != nil {
		c.Inconclusive("background publisher: %v", err)
		return
	}
	defer pub.Close()
	k := 0
	for _, proto := range c14Protos {
		for _, f := range c14Forms() {
			k++
			stream := e.bg
			if proto == "rtmp-pub" {
				stream = fmt.Sprintf("%s_p%d", e.bg, k)
			}
			if proto == "rtsp-pub" {
				stream = fmt.Sprintf("%s_rp%d", e.bg, k)
			}
			query := f.Query(stream, cell.Override)
			c.Describe("cell=%s proto=%s form=%s query=%s", cell.Name, proto, f.Name, query)
			out, detail := e.attempt(proto, query, k)
			on := c14FlagOn(cell.Auth, proto)
			want := c14Admitted
			judged := true
			if on {
				switch f.Right {
				case 0:
					want = c14Refused
				case 1:
					want = c14Admitted
				case 2:
					if cell.Override == "" {
						want = c14Refused
					}
				default:
					judged = false
				}
			}
			c.Eval(1)
			c.Cell("auth/%s/%s/flag=%v", proto, f.Name, on)
			if out == c14Unknown {
				c.Inconclusive("cell=%s proto=%s form=%s: %s", cell.Name, proto, f.Name, detail)
				continue
			}
			if !judged {
				c.Count("unspecified_"+f.Name+"_"+out.String(), 1)
				continue
			}
			if out != want {
				dir := "refused-but-authorised"
				if want == c14Refused {
					dir = "admitted-but-unauthorised"
				}
				if !on {
					dir = "flag-off-but-refused"
				}
				sig := fmt.Sprintf("auth/%s/%s/%s", dir, proto, f.Name)
				if f.Right == 2 {
					sig += "/" + map[bool]string{true: "override-has-uppercase", false: "override-lowercase"}[cell.Override != strings.ToLower(cell.Override)]
				}
				c.Violate(sig, fmt.Sprintf("config %s (flag for %s = %v): request with secret form %q (query %q) was %s, expected %s. %s", cell.Name, proto, on, f.Name, query, out, want, detail), nil)
			}
		}
	}
}

// ------------------------------------------------------------------------------------------

func c14RtspAuth(c *fw.Ctx, method int) {
	// (RFC 7617: the user-id cannot contain ':', the password can - the first colon separates them)
	user, pass := "verifuser", "p@ss:word"
	conf := srv.Conf{Rtsp: true, RtspAuthEnable: true, RtspAuthMethod: method, RtspUser: user, RtspPass: pass, Flv: true}
	s, stop := c14StartServer(c, conf, "rtspauth")
	if s == nil {
		return
	}
	defer stop()
	bg := fmt.Sprintf("ra%d", c.Index)
	pub, err := c14StartBg(s, bg, "", c.SubRng("bg"))
	if err != nil {
		c.Inconclusive("background publisher: %v", err)
		return
	}
	defer pub.Close()
	url := "rtsp://" + s.RtspAddr() + "/live/" + bg
	mname := []string{"Basic", "Digest"}[method]
	h := func(x string) string { v := md5.Sum([]byte(x)); return hex.EncodeToString(v[:]) }
	type sc struct {
		name string
		run  func(rc *ref.RtspClient) (*ref.RtspResp, error)
		want string // "sdp" | "401" | "refuse" (401 or close; anything but the SDP)
	}
	describe := func(rc *ref.RtspClient, auth string) (*ref.RtspResp, error) {
		hs := []string{"Accept: application/sdp"}
		if auth != "" {
			hs = append(hs, "Authorization: "+auth)
		}
		return rc.RawRequest("DESCRIBE", url, hs, nil, 3*time.Second)
	}
	basic := func(u, p string) string { return "Basic " + base64.StdEncoding.EncodeToString([]byte(u+":"+p)) }
	digest := func(u, p, realm, nonce, uri string) string {
		resp := h(h(u+":"+realm+":"+p) + ":" + nonce + ":" + h("DESCRIBE:"+uri))
		return fmt.Sprintf(`Digest username="%s", realm="%s", nonce="%s", uri="%s", response="%s"`, u, realm, nonce, uri, resp)
	}
	challenge := func(rc *ref.RtspClient) (realm, nonce string, r *ref.RtspResp, err error) {
		r, err = describe(rc, "")
		if err != nil {
			return
		}
		wa := r.Headers["www-authenticate"]
		realm = betweenS(wa, `realm="`, `"`)
		nonce = betweenS(wa, `nonce="`, `"`)
		return
	}
	var scs []sc
	scs = append(scs, sc{"no-credentials", func(rc *ref.RtspClient) (*ref.RtspResp, error) { return describe(rc, "") }, "401"})
	if method == 0 {
		scs = append(scs,
			sc{"right", func(rc *ref.RtspClient) (*ref.RtspResp, error) { return describe(rc, basic(user, pass)) }, "sdp"},
			sc{"right-after-401", func(rc *ref.RtspClient) (*ref.RtspResp, error) {
				if _, err := describe(rc, ""); err != nil {
					return nil, err
				}
				return describe(rc, basic(user, pass))
			}, "sdp"},
			sc{"wrong-password", func(rc *ref.RtspClient) (*ref.RtspResp, error) { return describe(rc, basic(user, "nope")) }, "refuse"},
			sc{"wrong-user", func(rc *ref.RtspClient) (*ref.RtspResp, error) { return describe(rc, basic("other", pass)) }, "refuse"},
			sc{"empty-password", func(rc *ref.RtspClient) (*ref.RtspResp, error) { return describe(rc, basic(user, "")) }, "refuse"},
			sc{"other-method-digest", func(rc *ref.RtspClient) (*ref.RtspResp, error) {
				return describe(rc, digest(user, pass, "lal", "abcdef", url))
			}, "refuse"},
			sc{"malformed-base64", func(rc *ref.RtspClient) (*ref.RtspResp, error) { return describe(rc, "Basic !!!notbase64") }, "refuse"},
			sc{"malformed-no-colon", func(rc *ref.RtspClient) (*ref.RtspResp, error) {
				return describe(rc, "Basic "+base64.StdEncoding.EncodeToString([]byte(user+pass)))
			}, "refuse"},
		)
	} else {
		scs = append(scs,
			sc{"right", func(rc *ref.RtspClient) (*ref.RtspResp, error) {
				realm, nonce, _, err := challenge(rc)
				if err != nil {
					return nil, err
				}
				return describe(rc, digest(user, pass, realm, nonce, url))
			}, "sdp"},
			sc{"right-via-client-helper", func(rc *ref.RtspClient) (*ref.RtspResp, error) {
				rc.User, rc.Pass = user, pass
				return rc.Request("DESCRIBE", url, []string{"Accept: application/sdp"}, nil, 3*time.Second)
			}, "sdp"},
			sc{"wrong-password", func(rc *ref.RtspClient) (*ref.RtspResp, error) {
				realm, nonce, _, err := challenge(rc)
				if err != nil {
					return nil, err
				}
				return describe(rc, digest(user, "nope", realm, nonce, url))
			}, "refuse"},
			sc{"wrong-user", func(rc *ref.RtspClient) (*ref.RtspResp, error) {
				realm, nonce, _, err := challenge(rc)
				if err != nil {
					return nil, err
				}
				return describe(rc, digest("other", pass, realm, nonce, url))
			}, "refuse"},
			sc{"other-method-basic", func(rc *ref.RtspClient) (*ref.RtspResp, error) { return describe(rc, basic(user, pass)) }, "refuse"},
			sc{"malformed-digest", func(rc *ref.RtspClient) (*ref.RtspResp, error) { return describe(rc, `Digest username="`) }, "refuse"},
			sc{"response-for-other-uri", func(rc *ref.RtspClient) (*ref.RtspResp, error) {
				realm, nonce, _, err := challenge(rc)
				if err != nil {
					return nil, err
				}
				a := digest(user, pass, realm, nonce, url+"_other")
				return describe(rc, a)
			}, "unspecified"},
			sc{"replayed-foreign-nonce", func(rc *ref.RtspClient) (*ref.RtspResp, error) {
				return describe(rc, digest(user, pass, "lal", "00000000000000000000000000000000", url))
			}, "unspecified"},
		)
	}
	for _, x := range scs {
		c.Describe("rtsp auth method=%s scenario=%s", mname, x.name)
		rc, err := ref.DialRtsp(s.RtspAddr(), 3*time.Second)
		if err != nil {
			c.Inconclusive("rtsp dial: %v", err)
			continue
		}
		r, err := x.run(rc)
		rc.Close()
		got := "closed"
		if err == nil && r != nil {
			switch {
			case r.Status == 200 && strings.Contains(string(r.Body), "m="):
				got = "sdp"
			case r.Status == 401:
				got = "401"
			default:
				got = fmt.Sprintf("status-%d", r.Status)
			}
		}
		c.Eval(1)
		c.Cell("rtsp-auth/%s/%s", mname, x.name)
		ok := true
		switch x.want {
		case "sdp":
			ok = got == "sdp"
		case "401":
			ok = got == "401" && r != nil && strings.HasPrefix(r.Headers["www-authenticate"], mname)
		case "refuse":
			ok = got != "sdp"
		case "unspecified":
			c.Count("unspecified_rtsp_"+x.name+"_"+got, 1)
		}
		if !ok {
			c.Violate(fmt.Sprintf("rtsp-auth/%s/%s", mname, x.name), fmt.Sprintf("RTSP auth method %s, scenario %s: DESCRIBE outcome %q, expected %q", mname, x.name, got, x.want), nil)
		}
	}
}

func betweenS(s, a, b string) string {
	i := strings.Index(s, a)
	if i < 0 {
		return ""
	}
	s = s[i+len(a):]
	j := strings.Index(s, b)
	if j < 0 {
		return s
	}
	return s[:j]
}

// ------------------------------------------------------------------------------------------

func c14Kick(c *fw.Ctx) {
	conf := srv.Conf{Flv: true, Ts: true, Rtsp: true, Api: true}
	s, stop := c14StartServer(c, conf, "kick")
	if s == nil {
		return
	}
	defer stop()
	bg := fmt.Sprintf("kk%d", c.Index)
	pub, err := c14StartBg(s, bg, "", c.SubRng("bg"))
	if err != nil {
		c.Inconclusive("background publisher: %v", err)
		return
	}
	defer pub.Close()
	kick := func(stream, sid string) string {
		b, _ := json.Marshal(map[string]string{"stream_name": stream, "session_id": sid})
		_, resp, _ := srv.HttpPostJson(s.ApiAddr(), "/api/ctrl/kick_session", string(b), 3*time.Second)
		return string(resp)
	}
	type victim struct {
		kind   string
		start  func() (addr string, closed func() bool, closeFn func(), err error)
		evKind string
	}
	vs := []victim{
		{"rtmp-sub", func() (string, func() bool, func(), error) {
			x, err := ref.StartRtmpSubscriber(s.RtmpAddr(), "live", bg, 3*time.Second)
			if err != nil {
				return "", nil, nil, err
			}
			return srv.Key(x.RC.Conn), x.Hist.IsClosed, x.Close, nil
		}, "sub_start"},
		{"flv-sub", func() (string, func() bool, func(), error) {
			x, err := srv.StartHttpSub(s.HttpAddr(), "/live/"+bg+".flv", "flv", 3*time.Second)
			if err != nil {
				return "", nil, nil, err
			}
			return srv.Key(x.Conn), x.Closed, x.Close, nil
		}, "sub_start"},
		{"ts-sub", func() (string, func() bool, func(), error) {
			x, err := srv.StartHttpSub(s.HttpAddr(), "/live/"+bg+".ts", "ts", 3*time.Second)
			if err != nil {
				return "", nil, nil, err
			}
			return srv.Key(x.Conn), x.Closed, x.Close, nil
		}, "sub_start"},
		{"rtsp-sub", func() (string, func() bool, func(), error) {
			x, err := ref.DialRtsp(s.RtspAddr(), 3*time.Second)
			if err != nil {
				return "", nil, nil, err
			}
			if _, err := x.Play("rtsp://"+s.RtspAddr()+"/live/"+bg, false, 3*time.Second); err != nil {
				x.Close()
				return "", nil, nil, err
			}
			return srv.Key(x.Conn), x.Closed, x.Close, nil
		}, "sub_start"},
		{"rtmp-pub", func() (string, func() bool, func(), error) {
			x, err := ref.StartRtmpPublisher(s.RtmpAddr(), "live", bg+"_kp", 3*time.Second)
			if err != nil {
				return "", nil, nil, err
			}
			return srv.Key(x.RC.Conn), x.PeerClosed, x.Close, nil
		}, "pub_start"},
		{"rtsp-pub", func() (string, func() bool, func(), error) {
			x, err := ref.DialRtsp(s.RtspAddr(), 3*time.Second)
			if err != nil {
				return "", nil, nil, err
			}
			if err := x.Announce("rtsp://"+s.RtspAddr()+"/live/"+bg+"_krp", goodSdp(nil), 2, []string{"streamid=0", "streamid=1"}, false, 3*time.Second); err != nil {
				x.Close()
				return "", nil, nil, err
			}
			return srv.Key(x.Conn), x.Closed, x.Close, nil
		}, "pub_start"},
	}
	for _, v := range vs {
		c.Describe("kick %s", v.kind)
		from := s.Notify.Len()
		addr, closed, closeFn, err := v.start()
		if err != nil {
			c.Inconclusive("kick %s: start: %v", v.kind, err)
			continue
		}
		ev, ok := s.Notify.WaitSessionFrom(3*time.Second, from, v.evKind, addr)
		if !ok {
			c.Inconclusive("kick %s: session not admitted", v.kind)
			closeFn()
			continue
		}
		resp := kick(ev.StreamName, ev.SessionId)
		gone := srv.WaitFor(3*time.Second, closed)
		c.Eval(1)
		c.Cell("kick/%s", v.kind)
		if !strings.Contains(resp, `"error_code":0`) {
			c.Violate("kick/api-refused/"+v.kind, fmt.Sprintf("kick_session of a live %s session %s answered %s", v.kind, ev.SessionId, trunc(resp, 200)), nil)
		} else if !gone {
			c.Violate("kick/still-connected/"+v.kind, fmt.Sprintf("%s session %s was kicked (API said ok) but its connection is still open after 3 s", v.kind, ev.SessionId), nil)
		}
		closeFn()
	}
}

// c14KickHls: HLS sub sessions exist only with sub_session_hash_key; a kicked session keeps
// polling with its session id and must be refused from then on.
func c14KickHls(c *fw.Ctx) {
	conf := srv.Conf{Hls: true, HlsFragMs: 1000, HlsFragNum: 6, HlsDelThr: 6, HlsHashKey: "c14", Api: true}
	s, stop := c14StartServer(c, conf, "kickhls")
	if s == nil {
		return
	}
	defer stop()
	bg := fmt.Sprintf("kh%d", c.Index)
	pub, err := c14StartBg(s, bg, "", c.SubRng("bg"))
	if err != nil {
		c.Inconclusive("background publisher: %v", err)
		return
	}
	defer pub.Close()
	c.Describe("kick hls-sub")
	from := s.Notify.Len()
	var loc string
	ok := srv.WaitFor(5*time.Second, func() bool {
		st, hdr, _, err := srv.HttpGet(s.HttpAddr(), "/hls/"+bg+".m3u8", 2*time.Second)
		if err != nil || st != 302 {
			return false
		}
		loc = betweenS(hdr, "Location: ", "\r\n")
		return loc != ""
	})
	if !ok {
		c.Inconclusive("kick hls-sub: no redirect to a session url")
		return
	}
	ev, ok := s.Notify.Wait(3*time.Second, from, func(e srv.Event) bool { return e.Kind == "sub_start" && e.Protocol == "HLS" })
	if !ok {
		c.Inconclusive("kick hls-sub: no sub_start for the hls session")
		return
	}
	if st, _, _, _ := srv.HttpGet(s.HttpAddr(), loc, 2*time.Second); st != 200 {
		c.Inconclusive("kick hls-sub: session url answers %d before the kick", st)
		return
	}
	b, _ := json.Marshal(map[string]string{"stream_name": ev.StreamName, "session_id": ev.SessionId})
	_, resp, _ := srv.HttpPostJson(s.ApiAddr(), "/api/ctrl/kick_session", string(b), 3*time.Second)
	c.Eval(1)
	c.Cell("kick/hls-sub")
	if !strings.Contains(string(resp), `"error_code":0`) {
		c.Violate("kick/api-refused/hls-sub", fmt.Sprintf("kick_session of a live hls session %s answered %s", ev.SessionId, trunc(string(resp), 200)), nil)
		return
	}
	// the player keeps polling every 200 ms; after at most 4 s (the sweep runs once per second) it must be refused
	served := 0
	refused := srv.WaitFor(4*time.Second, func() bool {
		st, _, _, err := srv.HttpGet(s.HttpAddr(), loc, 2*time.Second)
		if err == nil && st == 200 {
			served++
			time.Sleep(180 * time.Millisecond)
			return false
		}
		return err == nil
	})
	if !refused {
		c.Violate("kick/still-served/hls-sub", fmt.Sprintf("hls session %s was kicked (API said ok) but its session url was still served %d times during the following 4 s", ev.SessionId, served), nil)
	}
}

func c14Blacklist(c *fw.Ctx) {
	conf := srv.Conf{Hls: true, HlsFragMs: 1000, HlsFragNum: 6, HlsDelThr: 6, Api: true, Flv: true, HttpDualStack: true}
	s, stop := c14StartServer(c, conf, "bl")
	if s == nil {
		return
	}
	defer stop()
	bg := fmt.Sprintf("bl%d", c.Index)
	pub, err := c14StartBg(s, bg, "", c.SubRng("bg"))
	if err != nil {
		c.Inconclusive("background publisher: %v", err)
		return
	}
	defer pub.Close()
	get := func() (int, bool) {
		st, _, body, err := srv.HttpGet(s.HttpAddr(), "/hls/"+bg+".m3u8", 3*time.Second)
		if err != nil {
			return 0, false
		}
		return st, strings.Contains(string(body), "#EXTM3U")
	}
	if _, ok := get(); !ok {
		c.Inconclusive("playlist not served before the blacklist test")
		return
	}
	c.Describe("blacklist 127.0.0.1 for 2 s")
	t0 := time.Now()
	srv.HttpPostJson(s.ApiAddr(), "/api/ctrl/add_ip_blacklist", `{"ip":"127.0.0.1","duration_sec":2}`, 3*time.Second)
	// decide only outside the guard band: ≤ 0.9 s after the call must be blocked, ≥ 4.2 s must be served
	for time.Since(t0) < 900*time.Millisecond {
		st, served := get()
		if time.Since(t0) >= 900*time.Millisecond {
			break
		}
		c.Eval(1)
		if served || st == 200 {
			c.Violate("blacklist/served-before-expiry", fmt.Sprintf("black-listed address got the playlist %.2f s after add_ip_blacklist(2 s) (status %d)", time.Since(t0).Seconds(), st), nil)
			return
		}
		time.Sleep(100 * time.Millisecond)
	}
	c.Cell("blacklist/blocked-before-expiry")
	time.Sleep(time.Until(t0.Add(4200 * time.Millisecond)))
	if _, served := get(); !served {
		c.Violate("blacklist/still-blocked-after-expiry", fmt.Sprintf("playlist still refused %.2f s after add_ip_blacklist(2 s)", time.Since(t0).Seconds()), nil)
		return
	}
	c.Eval(1)
	c.Cell("blacklist/served-after-expiry")
	c14BlacklistV6(c, s, bg)
}

// c14BlacklistV6: the same rule for a client that arrives over IPv6 (the listener is dual-stack): the address is
// black-listed in the form the API documents (a bare address, no brackets).
func c14BlacklistV6(c *fw.Ctx, s *srv.Server, bg string) {
	addr6 := fmt.Sprintf("[::1]:%d", s.Ports.Http)
	get := func() (int, bool) {
		st, _, body, err := srv.HttpGet(addr6, "/hls/"+bg+".m3u8", 3*time.Second)
		if err != nil {
			return 0, false
		}
		return st, strings.Contains(string(body), "#EXTM3U")
	}
	if _, ok := get(); !ok {
		c.Count("ipv6_not_available", 1)
		return // no IPv6 loopback here, or the listener is not reachable over it: nothing to judge
	}
	t0 := time.Now()
	srv.HttpPostJson(s.ApiAddr(), "/api/ctrl/add_ip_blacklist", `{"ip":"::1","duration_sec":2}`, 3*time.Second)
	for time.Since(t0) < 900*time.Millisecond {
		st, served := get()
		if time.Since(t0) >= 900*time.Millisecond {
			break
		}
		c.Eval(1)
		if served || st == 200 {
			c.Violate("blacklist/served-before-expiry/ipv6", fmt.Sprintf("client ::1 got the playlist %.2f s after add_ip_blacklist(\"::1\", 2 s) (status %d)", time.Since(t0).Seconds(), st), nil)
			return
		}
		time.Sleep(100 * time.Millisecond)
	}
	c.Cell("blacklist/blocked-before-expiry/ipv6")
	// the IPv4 client is not affected by that entry
	if st, _, body, err := srv.HttpGet(s.HttpAddr(), "/hls/"+bg+".m3u8", 3*time.Second); time.Since(t0) < 1800*time.Millisecond && (err != nil || st != 200 || !strings.Contains(string(body), "#EXTM3U")) {
		c.Violate("blacklist/other-address-refused", fmt.Sprintf("127.0.0.1 was refused the playlist (status %d, err %v) while only ::1 is black-listed", st, err), nil)
	}
}

// c14BlacklistReadd: an address that is black-listed again while still listed. Whatever the merge
// rule (latest call wins, or the later expiry wins), after add(1 s) immediately followed by
// add(6 s) the address is listed for 6 s: blocked at 2.5..4.2 s (well past the first entry's expiry,
// well before the second's), served again ≥ 8.2 s.
func c14BlacklistReadd(c *fw.Ctx) {
	conf := srv.Conf{Hls: true, HlsFragMs: 1000, HlsFragNum: 6, HlsDelThr: 6, Api: true, Flv: true}
	s, stop := c14StartServer(c, conf, "blr")
	if s == nil {
		return
	}
	defer stop()
	bg := fmt.Sprintf("blr%d", c.Index)
	pub, err := c14StartBg(s, bg, "", c.SubRng("bg"))
	if err != nil {
		c.Inconclusive("background publisher: %v", err)
		return
	}
	defer pub.Close()
	get := func() (int, bool) {
		st, _, body, err := srv.HttpGet(s.HttpAddr(), "/hls/"+bg+".m3u8", 3*time.Second)
		if err != nil {
			return 0, false
		}
		return st, strings.Contains(string(body), "#EXTM3U")
	}
	if _, ok := get(); !ok {
		c.Inconclusive("playlist not served before the blacklist test")
		return
	}
	c.Describe("blacklist 127.0.0.1 for 1 s, then again for 6 s; another address for 1 s")
	// an unrelated address whose entry expires while ours is still listed: its expiry must not touch ours
	srv.HttpPostJson(s.ApiAddr(), "/api/ctrl/add_ip_blacklist", `{"ip":"10.254.1.2","duration_sec":1}`, 3*time.Second)
	srv.HttpPostJson(s.ApiAddr(), "/api/ctrl/add_ip_blacklist", `{"ip":"127.0.0.1","duration_sec":1}`, 3*time.Second)
	t0 := time.Now()
	srv.HttpPostJson(s.ApiAddr(), "/api/ctrl/add_ip_blacklist", `{"ip":"127.0.0.1","duration_sec":6}`, 3*time.Second)
	if time.Since(t0) > 500*time.Millisecond {
		c.Inconclusive("second add_ip_blacklist call took %.2f s", time.Since(t0).Seconds())
		return
	}
	time.Sleep(time.Until(t0.Add(2500 * time.Millisecond)))
	for time.Since(t0) < 4200*time.Millisecond {
		st, served := get()
		if time.Since(t0) >= 4200*time.Millisecond {
			break
		}
		c.Eval(1)
		if served || st == 200 {
			c.Violate("blacklist/readd-served-before-expiry", fmt.Sprintf("address black-listed for 1 s and then again for 6 s got the playlist %.2f s after the second call (status %d)", time.Since(t0).Seconds(), st), nil)
			return
		}
		time.Sleep(200 * time.Millisecond)
	}
	c.Cell("blacklist/readd-blocked-before-expiry")
	time.Sleep(time.Until(t0.Add(8200 * time.Millisecond)))
	if _, served := get(); !served {
		c.Violate("blacklist/readd-still-blocked-after-expiry", fmt.Sprintf("playlist still refused %.2f s after add_ip_blacklist(6 s)", time.Since(t0).Seconds()), nil)
		return
	}
	c.Eval(1)
	c.Cell("blacklist/readd-served-after-expiry")
}

// ------------------------------------------------------------------------------------------

func insideRoot(root, p string) bool {
	rel, err := filepath.Rel(filepath.Clean(root), filepath.Clean(p))
	if err != nil {
		return false
	}
	return rel != ".." && !strings.HasPrefix(rel, "../")
}

func c14HlsPaths(c *fw.Ctx) {
	fs := srv.NewRecFs()
	conf := srv.Conf{Hls: true, HlsFragMs: 1000, HlsFragNum: 6, HlsDelThr: 6, Flv: true}
	s, stop := c14StartServer(c, conf, "paths")
	if s == nil {
		return
	}
	defer stop()
	hls.VerifSetFsl(fs)
	bg := fmt.Sprintf("hp%d", c.Index)
	pub, err := c14StartBg(s, bg, "", c.SubRng("bg"))
	if err != nil {
		c.Inconclusive("background publisher: %v", err)
		return
	}
	defer pub.Close()
	// a decoy file outside the root that traversal would reach
	fs.WriteFile(filepath.Join(filepath.Dir(filepath.Clean(s.HlsDir)), "secret-1-2.ts"), []byte("TOPSECRET"), 0644)
	fs.WriteFile(filepath.Join(filepath.Dir(filepath.Clean(s.HlsDir)), "playlist.m3u8"), []byte("#EXTM3U-SECRET"), 0644)
	r := c.Rng
	segs := []string{"..", ".", "%2e%2e", "%2E%2E", "..%2f", "%2e%2e%2f", "....", "..;", "a", bg, "", "\x00"}
	var paths []string
	for k := 0; k < 300; k++ {
		p := "/hls"
		for d := 0; d < 1+r.Intn(4); d++ {
			p += "/" + segs[r.Intn(len(segs))]
		}
		p += []string{"/playlist.m3u8", "/record.m3u8", ".m3u8", "/x-1-2.ts", "-1-2.ts", "/..-1-2.ts", "/secret-1-2.ts", ".ts", "/../secret-1-2.ts", "/../playlist.m3u8"}[r.Intn(10)]
		paths = append(paths, p)
	}
	paths = append(paths, "/hls/..-1-2.ts", "/hls/../secret-1-2.ts", "/hls/..%2fsecret-1-2.ts", "/hls/%2e%2e/secret-1-2.ts", "/hls/..-0-0.ts", "/hls/../playlist.m3u8", "/hls/%2e%2e/playlist.m3u8", "/hls//..//playlist.m3u8",
		"/hls/"+bg+"/../../secret-1-2.ts", "/hls/"+bg+"/..%2f..%2fsecret-1-2.ts", "/hls/.."+"/"+".."+"/"+".."+"/etc/passwd-1-2.ts", "/hls/"+strings.Repeat("../", 20)+"etc/passwd.m3u8", "/hls/"+bg+".m3u8/../../secret-1-2.ts")
	before := len(fs.OpsSnapshot())
	leaked := 0
	for _, p := range paths {
		c.Describe("hls request %q", p)
		// raw request line: the HTTP client must not normalise the path
		err := func() error {
			st, _, body, err := srv.HttpGet(s.HttpAddr(), p, 3*time.Second)
			if err == nil && (strings.Contains(string(body), "TOPSECRET") || strings.Contains(string(body), "EXTM3U-SECRET")) {
				leaked++
				c.Violate("hls-path/file-outside-root-returned", fmt.Sprintf("request %q returned the content of a file outside the HLS root (status %d)", p, st), nil)
			}
			return err
		}()
		_ = err
		c.Eval(1)
	}
	for _, op := range fs.OpsSnapshot()[before:] {
		if op.Op == "readfile" && !insideRoot(s.HlsDir, op.Path) {
			c.Violate("hls-path/opens-file-outside-root", fmt.Sprintf("the HLS handler opened %q, outside its root %q", op.Path, s.HlsDir), nil)
			break
		}
	}
	c.Cell("hls-path/traversal-grammar")
	c.Cell("hls-path/decoy-probes")
}

func c14StreamNames(c *fw.Ctx) {
	fs := srv.NewRecFs()
	conf := srv.Conf{Hls: true, HlsFragMs: 1000, HlsFragNum: 6, HlsDelThr: 6, HlsCleanup: 0, Flv: true, RecFlv: true, RecTs: true, Rtsp: true, Api: true}
	s, stop := c14StartServer(c, conf, "names")
	if s == nil {
		return
	}
	defer stop()
	hls.VerifSetFsl(fs)
	names := []string{"../x", "a/../../b", "../../../esc", "/abs", "..", ".", "a/b", "..-1-2", "n-1-2.ts", "x/../../../../tmp/lalverif_escape", "..\\win", "%2e%2e/y", "a//b", "good"}
	listAll := func() map[string]bool {
		m := map[string]bool{}
		filepath.Walk(s.Root, func(p string, info os.FileInfo, err error) error {
			if err == nil && !info.IsDir() {
				m[p] = true
			}
			return nil
		})
		// also one level above the scratch root (escapes further up)
		ents, _ := os.ReadDir(filepath.Dir(s.Root))
		for _, e := range ents {
			if !e.IsDir() {
				m[filepath.Join(filepath.Dir(s.Root), e.Name())] = true
			}
		}
		return m
	}
	before := listAll()
	r := c.SubRng("names")
	for k, n := range names {
		for _, via := range []string{"rtmp", "rtsp", "customize"} {
			c.Describe("hostile stream name %q via %s", n, via)
			es := gen.BuildEs(r, 1, gen.EsSpec{VCodec: "avc", ACodec: "aac", AacIdx: 4, AacChans: 2, AacObj: 2, NVideo: 60, GopLen: 10, AudioPer: 1})
			switch via {
			case "rtmp":
				pub, err := ref.StartRtmpPublisher(s.RtmpAddr(), "live", n, 3*time.Second)
				if err != nil {
					continue
				}
				for _, m := range es.RtmpMessages(true) {
					if pub.RC.Send(ref.RtmpMsg{Csid: csidFor(m.Type), TypeID: m.Type, StreamID: pub.Msid, Ts: m.Ts, Payload: m.Payload}, 0) != nil {
						break
					}
				}
				time.Sleep(60 * time.Millisecond)
				pub.Close()
			case "rtsp":
				rc, err := ref.DialRtsp(s.RtspAddr(), 3*time.Second)
				if err != nil {
					continue
				}
				url := "rtsp://" + s.RtspAddr() + "/live/" + n
				if err := rc.Announce(url, goodSdp(nil), 2, []string{"streamid=0", "streamid=1"}, false, 2*time.Second); err == nil {
					seq := uint16(1)
					for _, f := range es.Frames {
						if !f.Video {
							continue
						}
						for _, pl := range ref.H264Packetize(f.Nals, 1200, false) {
							rc.SendInterleaved(0, ref.BuildRtp(ref.RtpPkt{PT: 96, Seq: seq, Ts: uint32(f.Ts) * 90, Ssrc: 1, Payload: pl}))
							seq++
						}
					}
					time.Sleep(60 * time.Millisecond)
				}
				rc.Close()
			case "customize":
				ctx, err := s.Lal.AddCustomizePubSession(n)
				if err != nil {
					continue
				}
				for _, m := range es.RtmpMessages(true) {
					ctx.FeedRtmpMsg(baseMsg(m))
				}
				time.Sleep(30 * time.Millisecond)
				s.Lal.DelCustomizePubSession(ctx)
			}
			c.Eval(1)
			c.Cell("stream-name/%s/%d", via, k)
			time.Sleep(20 * time.Millisecond)
		}
	}
	time.Sleep(200 * time.Millisecond)
	// HLS writes (through the instrumented layer)
	for _, op := range fs.OpsSnapshot() {
		switch op.Op {
		case "create", "writefile", "rename", "mkdir", "remove", "removeall":
			for _, p := range []string{op.Path, op.Path2} {
				if p != "" && !insideRoot(s.HlsDir, p) {
					c.Violate("write-confinement/hls-outside-root", fmt.Sprintf("HLS output touched %q (%s), outside the configured HLS root %q — caused by a client-chosen stream name", p, op.Op, s.HlsDir), nil)
					goto recorders
				}
			}
		}
	}
recorders:
	after := listAll()
	for p := range after {
		if before[p] || strings.HasPrefix(p, filepath.Join(s.Root, "logs")) {
			continue
		}
		if strings.HasSuffix(p, ".flv") && !insideRoot(s.FlvDir, p) {
			c.Violate("write-confinement/flv-record-outside-root", fmt.Sprintf("FLV recording created %q, outside the configured directory %q", p, s.FlvDir), nil)
		}
		if strings.HasSuffix(p, ".ts") && !insideRoot(s.TsDir, p) {
			c.Violate("write-confinement/ts-record-outside-root", fmt.Sprintf("TS recording created %q, outside the configured directory %q", p, s.TsDir), nil)
		}
		if !insideRoot(s.Root, p) {
			os.Remove(p)
		}
	}
}

func init() {
	fw.Register(&fw.Prop{
		ID: "C14",
		NumCases: func(tier string, seed int64) int {
			n := len(c14Cells()) + 2 + 1 + 1 + 1 + 1 + 1
			if tier == "thorough" {
				return n * 4
			}
			return n
		},
		CaseTimeout: func(string) time.Duration { return 5 * time.Minute },
		Rule: "whole-server runs: (a) simple-auth matrix: 12 flag configurations (each flag alone, all on/off, override secret lower-case and with upper-case letters) × 9 protocol/direction requests (rtmp pub/sub, http-flv, ws-flv, http-ts, rtsp ANNOUNCE/DESCRIBE, hls m3u8 in both URL shapes) × 18 secret forms (absent, absent/wrong/empty next to a session_id parameter, empty, wrong, right lower/UPPER, right for another stream, surrounded by other parameters, look-alike parameter name, duplicated right/wrong, malformed %zz query, override); expected outcome from a table written from the property text (three-valued: duplicated right+wrong and right-next-to-malformed are recorded, not judged); a refused publisher must not be listed by the stat API; (b) RTSP auth: Basic and Digest × none / right / right after 401 / wrong password / wrong user / other method / malformed (foreign nonce and other-uri replay recorded only); (c) kick of each session kind → socket EOF; kick of an HLS sub session (hash key on) that keeps polling → refused within 4 s; (d) blacklist 2 s: blocked ≤0.9 s, served ≥4.2 s, nothing judged in between; re-listing (1 s then at once 6 s): blocked at 2.5–4.2 s, served ≥8.2 s; (e) HLS file server: ≈300 traversal paths sent as raw HTTP with decoy files outside the root — no outside content returned, no outside path opened (instrumented file-system layer); (f) 14 hostile stream names via RTMP, RTSP and the customize API with HLS and both recorders on — no file created outside the configured directories. cell = clause × protocol × form.",
		Assumptions: []string{"admission is observed as pub_start/sub_start notification, HTTP status line, RTSP status, or playlist bytes; refusal as connection close / non-200 / no playlist bytes", "case variants of the override secret and Digest nonce freshness are not defined by the property: recorded, not judged"},
		MinCells: 20,
		Run: func(c *fw.Ctx, i int) {
			cells := c14Cells()
			n := len(cells) + 7
			k := i % n
			switch {
			case k < len(cells):
				c14AuthMatrix(c, cells[k])
				c.Sample(map[string]interface{}{"kind": "auth-matrix", "config": cells[k].Name})
			case k == len(cells):
				c14RtspAuth(c, 0)
				c.Sample(map[string]interface{}{"kind": "rtsp-auth", "method": "Basic"})
			case k == len(cells)+1:
				c14RtspAuth(c, 1)
			case k == len(cells)+2:
				c14Kick(c)
				c14KickHls(c)
			case k == len(cells)+3:
				c14Blacklist(c)
			case k == len(cells)+5:
				c14BlacklistReadd(c)
			case k == len(cells)+4:
				c14HlsPaths(c)
				c.Sample(map[string]interface{}{"kind": "hls-path-confinement"})
			default:
				c14StreamNames(c)
			}
		},
	})
}
