package props

import (
	"bytes"
	"encoding/json"
	"fmt"
	"github.com/q191201771/lal/pkg/rtsp"
	"os"
	"path/filepath"
	"sort"
	"strings"
	"sync"
	"time"

	"lalverif/fw"
	"lalverif/gen"
	"lalverif/ref"
	"lalverif/srv"
)

// C06 — RTMP ingest reaches TS, HLS and RTSP consumers with the same frames.

type c06Consumer struct {
	Kind   string // ts | rtsp-tcp | rtsp-udp | hls
	JoinAt int    // message index before which it joins (≥ number of header messages)
	http   *srv.HttpSub
	rtsp   *ref.RtspClient // set by the join goroutine; read through live() until joinWg.Wait()
	rtspMu sync.Mutex
	sdp    ref.Sdp
	err    string
	udpErr [2]int64
}

// normalizeNals drops AUD, parameter sets equal to the ones in force for frame fi and (tsSide)
// HEVC SEI. A parameter set that was published but is NOT in force for that frame (the stream
// changes its PPS once when Spec.PsChange is set) is reported as stale, anything else as foreign.
func (cn *c06Consumer) live() *ref.RtspClient {
	cn.rtspMu.Lock()
	defer cn.rtspMu.Unlock()
	return cn.rtsp
}

func c06Normalize(es *gen.EsStream, nals [][]byte, dropHevcSei bool) (out [][]byte, foreignPS bool) {
	out, foreignPS, _ = c06NormalizeAt(es, -1, nals, dropHevcSei)
	return
}

func c06NormalizeAt(es *gen.EsStream, fi int, nals [][]byte, dropHevcSei bool) (out [][]byte, foreignPS, stalePS bool) {
	hevc := es.Spec.VCodec != "avc"
	for _, n := range nals {
		switch gen.NalClass(hevc, n) {
		case "aud":
			continue
		case "vps":
			if bytes.Equal(n, es.Vps) {
				continue
			}
			foreignPS = true
		case "sps":
			if bytes.Equal(n, es.Sps) {
				continue
			}
			foreignPS = true
		case "pps":
			if fi < 0 {
				// consumer without a per-frame in-force notion (RTSP: parameter sets travel as published)
				if bytes.Equal(n, es.Pps) || (es.Pps2 != nil && bytes.Equal(n, es.Pps2)) {
					continue
				}
			} else if bytes.Equal(n, es.PpsAt(fi)) {
				continue
			} else if bytes.Equal(n, es.Pps) || (es.Pps2 != nil && bytes.Equal(n, es.Pps2)) {
				stalePS = true
				continue
			}
			foreignPS = true
		case "sei":
			if hevc && dropHevcSei {
				continue
			}
		case "empty":
			continue
		}
		out = append(out, n)
	}
	return
}

func nalListEq(a, b [][]byte) string {
	if len(a) != len(b) {
		var la, lb []int
		for _, x := range a {
			la = append(la, len(x))
		}
		for _, x := range b {
			lb = append(lb, len(x))
		}
		return fmt.Sprintf("%d NAL units (sizes %v), published %d (sizes %v)", len(a), la, len(b), lb)
	}
	for i := range a {
		if !bytes.Equal(a[i], b[i]) {
			return fmt.Sprintf("NAL %d differs: %d bytes [% x…] vs published %d bytes [% x…]", i, len(a[i]), a[i][:min(len(a[i]), 4)], len(b[i]), b[i][:min(len(b[i]), 4)])
		}
	}
	return ""
}

// frameOfTags: the published frame index a NAL list / audio frame belongs to (by its tags).
func c06FrameOf(es *gen.EsStream, data [][]byte) int {
	for _, d := range data {
		for _, t := range gen.FindTags(d) {
			if t.Idx < gen.SeqHdrTagBase && t.Inc == es.Inc {
				return t.Idx / 8
			}
		}
	}
	return -1
}

// c06TinyNext: a one- or two-byte audio frame cannot carry a tag; it is identified as the next
// expected audio frame if that one is as short and has the same bytes.
func c06TinyNext(es *gen.EsStream, aFrames []int, last int, a []byte) int {
	if len(a) > 2 || last+1 >= len(aFrames) || last < 0 {
		return -1
	}
	fi := aFrames[last+1]
	if bytes.Equal(es.Frames[fi].Audio, a) {
		return fi
	}
	return -1
}

type c06Judge struct {
	c    *fw.Ctx
	es   *gen.EsStream
	desc string
}

func (j *c06Judge) bad(kind, clause, format string, a ...interface{}) {
	sig := "frames/" + clause + "/" + kind
	if j.es.Spec.LateAudio > 0 {
		// input class: audio track that first appears after lal's 16-message codec probe
		sig += "/late-audio"
	}
	j.c.Violate(sig, fmt.Sprintf(format, a...)+" | "+j.desc, nil)
}

// judgeTs checks a demuxed TS byte stream (HTTP-TS body or concatenated HLS segments).
func (j *c06Judge) judgeTs(kind string, body []byte, fromStart bool, allowCC bool) {
	es := j.es
	if len(body)%188 != 0 {
		j.bad(kind, "not-188", "length %d is not a multiple of 188", len(body))
		return
	}
	d := ref.NewTsDemux()
	d.Feed(body)
	d.Flush()
	if len(d.Errs) > 0 {
		j.bad(kind, "demux", "reference demuxer: %s", d.Errs[0])
		return
	}
	if !allowCC && len(d.CCErrs) > 0 {
		j.bad(kind, "continuity", "%s", d.CCErrs[0])
		return
	}
	if len(body) == 0 {
		return
	}
	if !d.PatSeen || !d.PmtSeen {
		j.bad(kind, "no-pat-pmt", "no PAT/PMT in the stream")
		return
	}
	hevc := es.Spec.VCodec == "hevc" || es.Spec.VCodec == "hevc-enh"
	// a conforming demuxer only follows PIDs the PMT declares
	for _, p := range d.Out {
		if _, ok := d.StreamTypes[p.PID]; !ok {
			j.bad(kind, "pid-not-in-pmt", "PES packets on PID %#x, which no PMT of the stream declares (declared: %v)", p.PID, d.StreamTypes)
			return
		}
	}
	// expected per-track frame lists
	var vFrames, aFrames []int
	for i, f := range es.Frames {
		if f.Video {
			vFrames = append(vFrames, i)
		} else {
			aFrames = append(aFrames, i)
		}
	}
	vpos := map[int]int{}
	for p, i := range vFrames {
		vpos[i] = p
	}
	apos := map[int]int{}
	for p, i := range aFrames {
		apos[i] = p
	}
	const m33 = uint64(1)<<33 - 1
	lastV, lastA := -1, -1
	var vConst, aConst uint64
	vSet, aSet := false, false
	nv, na := 0, 0
	for _, p := range d.Out {
		switch p.PID {
		case 0x100:
			nals, err := ref.SplitAnnexB(p.Data)
			if err != nil {
				j.bad(kind, "annexb", "video PES is not an Annex-B byte stream: %v", err)
				return
			}
			fi := c06FrameOf(es, nals)
			if fi < 0 || fi >= len(es.Frames) || !es.Frames[fi].Video {
				j.bad(kind, "unknown-video-frame", "video PES (%d bytes, %d NAL units) carries no published frame tag", len(p.Data), len(nals))
				return
			}
			f := es.Frames[fi]
			if lastV >= 0 && vpos[fi] != lastV+1 {
				j.bad(kind, "video-order", "video frame %d follows frame %d (published order position %d after %d): missing, duplicated or reordered", fi, vFrames[lastV], vpos[fi], lastV)
				return
			}
			if lastV < 0 && fromStart && vpos[fi] != 0 {
				j.bad(kind, "video-start", "first video frame is published frame %d, expected the first one", fi)
				return
			}
			lastV = vpos[fi]
			got, foreign, stale := c06NormalizeAt(es, fi, nals, true)
			want, _, _ := c06NormalizeAt(es, fi, f.Nals, true)
			if foreign {
				j.bad(kind, "foreign-parameter-set", "frame %d carries a parameter set that differs from the published ones", fi)
				return
			}
			if stale {
				j.bad(kind, "stale-parameter-set", "frame %d carries a PPS that is not the one in force for it (the stream changed its PPS in-band at frame %d)", fi, es.PsChangeFrame)
				return
			}
			if dd := nalListEq(got, want); dd != "" {
				j.bad(kind, "video-nals", "frame %d: %s", fi, dd)
				return
			}
			if f.Key {
				// parameter sets must precede the first IDR/IRAP
				seen := map[string]bool{}
				for _, n := range nals {
					cl := gen.NalClass(hevc, n)
					if cl == "vcl" {
						break
					}
					seen[cl] = true
				}
				havePS := seen["sps"] && seen["pps"] && (!hevc || seen["vps"])
				if !havePS || !p.RAI {
					j.bad(kind, "key-frame-marking", "key frame %d: parameter sets before it: vps=%v sps=%v pps=%v (a decoder starting here needs all of them) random_access=%v", fi, seen["vps"], seen["sps"], seen["pps"], p.RAI)
					return
				}
			}
			dts := (p.Hdr.DTS - 90*uint64(f.Ts)) & m33
			pts := (p.Hdr.PTS - 90*uint64(int64(f.Ts)+int64(f.Cts))) & m33
			if !vSet {
				vConst, vSet = dts, true
			}
			if dts != vConst || pts != vConst {
				j.bad(kind, "video-timestamp", "frame %d (ts=%d cts=%d): DTS−90·ts=%d PTS−90·(ts+cts)=%d, track constant %d", fi, f.Ts, f.Cts, dts, pts, vConst)
				return
			}
			nv++
		case 0x101:
			var frames [][]byte
			if es.Spec.ACodec == "aac" {
				afs, err := ref.SplitAdts(p.Data)
				if err != nil {
					j.bad(kind, "adts", "audio PES is not a sequence of ADTS frames: %v", err)
					return
				}
				for _, a := range afs {
					asc := es.Asc
					if fa := c06FrameOf(es, [][]byte{a.Payload}); fa >= 0 {
						asc = es.AscAt(fa) // the config in force when this frame was published
					}
					if a.Profile+1 != int(asc[0]>>3) || a.SampIdx != es.Spec.AacIdx || a.ChannelConf != int(asc[1]>>3&0xf) {
						j.bad(kind, "adts-header", "ADTS header object=%d sampling index=%d channels=%d, the AudioSpecificConfig in force says %d/%d/%d", a.Profile+1, a.SampIdx, a.ChannelConf, asc[0]>>3, es.Spec.AacIdx, asc[1]>>3&0xf)
						return
					}
					frames = append(frames, a.Payload)
				}
			} else {
				frames = [][]byte{p.Data}
			}
			for k, a := range frames {
				fi := c06FrameOf(es, [][]byte{a})
				if fi < 0 {
					fi = c06TinyNext(es, aFrames, lastA, a)
				}
				if fi < 0 && lastA < 0 && len(a) <= 2 && es.Spec.TinyAudio {
					j.c.Count("leading_untagged_audio_frames_skipped", 1)
					continue
				}
				if fi < 0 || fi >= len(es.Frames) || es.Frames[fi].Video {
					j.bad(kind, "unknown-audio-frame", "audio frame (%d bytes) carries no published frame tag", len(a))
					return
				}
				if !bytes.Equal(a, es.Frames[fi].Audio) {
					j.bad(kind, "audio-bytes", "audio frame %d differs (%d vs %d bytes)", fi, len(a), len(es.Frames[fi].Audio))
					return
				}
				if lastA >= 0 && apos[fi] != lastA+1 {
					j.bad(kind, "audio-order", "audio frame %d follows %d: missing, duplicated or reordered", fi, aFrames[lastA])
					return
				}
				if lastA < 0 && fromStart && apos[fi] != 0 {
					j.bad(kind, "audio-start", "first audio frame is published frame %d, expected the first one", fi)
					return
				}
				lastA = apos[fi]
				if k == 0 {
					ac := (p.Hdr.PTS - 90*uint64(es.Frames[fi].Ts)) & m33
					if !aSet {
						aConst, aSet = ac, true
					}
					if ac != aConst {
						j.bad(kind, "audio-timestamp", "audio PES starting at frame %d (ts=%d): PTS−90·ts=%d, track constant %d", fi, es.Frames[fi].Ts, ac, aConst)
						return
					}
				}
				na++
			}
		}
	}
	// completeness to the end: video must reach the last frame; audio may lack the last batch only at teardown (it is flushed on Dispose)
	if len(vFrames) > 0 && nv > 0 && lastV != len(vFrames)-1 {
		j.bad(kind, "video-truncated", "last video frame received is %d of %d", lastV+1, len(vFrames))
		return
	}
	if len(aFrames) > 0 && na > 0 && es.Spec.ACodec != "g711a" && lastA != len(aFrames)-1 {
		j.bad(kind, "audio-truncated", "last audio frame received is %d of %d (pending audio must be flushed when the stream ends)", lastA+1, len(aFrames))
		return
	}
	j.c.Eval(1)
	j.c.Count("ts_video_frames", nv)
	j.c.Count("ts_audio_frames", na)
	if nv+na > 0 {
		j.c.Cell("%s/%s+%s", kind, es.Spec.VCodec, es.Spec.ACodec)
	}
}

func seqLess(a, b uint16) bool { return int16(a-b) < 0 }

// judgeRtsp checks the RTP packets an RTSP subscriber received.
func (j *c06Judge) judgeRtsp(kind string, cons *c06Consumer) {
	es := j.es
	sdp := cons.sdp
	pk := cons.rtsp.Packets()
	hevc := es.Spec.VCodec == "hevc" || es.Spec.VCodec == "hevc-enh"
	// SDP content
	for _, m := range sdp.Media {
		switch m.Kind {
		case "video":
			if hevc {
				v, s, p, err := m.H265ParamSets()
				if m.Codec != "H265" || err != nil || !bytes.Equal(v, es.Vps) || !bytes.Equal(s, es.Sps) || !bytes.Equal(p, es.Pps) || m.Clock != 90000 {
					j.bad(kind, "sdp-video", "SDP video: codec=%s clock=%d sprop equal=%v err=%v", m.Codec, m.Clock, bytes.Equal(s, es.Sps) && bytes.Equal(p, es.Pps) && bytes.Equal(v, es.Vps), err)
					return
				}
			} else {
				sets, err := m.H264ParamSets()
				if m.Codec != "H264" || err != nil || len(sets) != 2 || !bytes.Equal(sets[0], es.Sps) || !bytes.Equal(sets[1], es.Pps) || m.Clock != 90000 {
					j.bad(kind, "sdp-video", "SDP video: codec=%s clock=%d sprop-parameter-sets count=%d err=%v", m.Codec, m.Clock, len(sets), err)
					return
				}
			}
		case "audio":
			switch es.Spec.ACodec {
			case "aac":
				cfg, err := m.AacConfig()
				// (a subscriber that joins after the stream changed its AudioSpecificConfig is described the new one)
				if m.Codec != "MPEG4-GENERIC" || err != nil || !(bytes.Equal(cfg, es.Asc) || (es.Asc2 != nil && bytes.Equal(cfg, es.Asc2))) || m.Clock != es.AClock {
					j.bad(kind, "sdp-audio", "SDP audio: codec=%s clock=%d (stream %d) config=%x (ASC %x) err=%v", m.Codec, m.Clock, es.AClock, cfg, es.Asc, err)
					return
				}
			case "opus":
				if m.Codec != "OPUS" || m.Clock != 48000 {
					j.bad(kind, "sdp-audio", "SDP audio: codec=%s clock=%d, stream is Opus", m.Codec, m.Clock)
					return
				}
			case "g711a", "g711u":
				want := map[string]string{"g711a": "PCMA", "g711u": "PCMU"}[es.Spec.ACodec]
				if m.Codec != want {
					j.bad(kind, "sdp-audio", "SDP audio: codec=%s, stream is %s", m.Codec, want)
					return
				}
			}
		}
	}
	wantTracks := 0
	if es.Spec.VCodec != "" {
		wantTracks++
	}
	if es.Spec.ACodec != "" {
		wantTracks++
	}
	if len(sdp.Media) != wantTracks {
		j.bad(kind, "sdp-tracks", "SDP describes %d media, the stream has %d tracks", len(sdp.Media), wantTracks)
		return
	}
	for ti, m := range sdp.Media {
		var rp []ref.RtpPkt
		for _, p := range pk {
			if p.Channel != ti*2 {
				continue
			}
			x, err := ref.ParseRtp(p.Data)
			if err != nil {
				j.bad(kind, "rtp-syntax", "track %d: %v", ti, err)
				return
			}
			rp = append(rp, x)
		}
		if kind == "rtsp-udp" {
			sort.SliceStable(rp, func(a, b int) bool { return seqLess(rp[a].Seq, rp[b].Seq) })
		}
		for k := 1; k < len(rp); k++ {
			if rp[k].Seq != rp[k-1].Seq+1 {
				if kind == "rtsp-udp" {
					j.c.Inconclusive("%s: RTP sequence gap on UDP (%d → %d): datagram loss cannot be told from a defect", kind, rp[k-1].Seq, rp[k].Seq)
					return
				}
				j.bad(kind, "rtp-seq", "track %d: sequence %d follows %d", ti, rp[k].Seq, rp[k-1].Seq)
				return
			}
		}
		clock := m.Clock
		if m.Kind == "video" {
			var h4 ref.H264Depack
			var h5 ref.H265Depack
			type fr struct {
				ts   uint32
				nals [][]byte
			}
			var frames []fr
			cur := -1
			lastUnits := 0
			for _, p := range rp {
				if hevc {
					h5.Feed(p.Payload)
				} else {
					h4.Feed(p.Payload)
				}
				units := h4.Units
				errs := h4.Errors
				if hevc {
					units, errs = h5.Units, h5.Errors
				}
				if len(errs) > 0 {
					// packets before the subscriber's first complete unit may be continuation fragments
					if len(frames) == 0 && strings.Contains(errs[0], "continuation without start") {
						h4.Errors, h5.Errors = nil, nil
						continue
					}
					j.bad(kind, "rtp-depacketise", "track %d: %s", ti, errs[0])
					return
				}
				if len(units) > lastUnits {
					if cur < 0 || frames[cur].ts != p.Ts {
						frames = append(frames, fr{ts: p.Ts})
						cur = len(frames) - 1
					}
					frames[cur].nals = append(frames[cur].nals, units[lastUnits:]...)
					lastUnits = len(units)
				}
			}
			last := -1
			nf := 0
			var vFrames []int
			for i, f := range es.Frames {
				if f.Video {
					vFrames = append(vFrames, i)
				}
			}
			vpos := map[int]int{}
			for p, i := range vFrames {
				vpos[i] = p
			}
			for n, f := range frames {
				fi := c06FrameOf(es, f.nals)
				if fi < 0 {
					if n == 0 {
						continue // parameter-set-only access unit at the subscriber's start
					}
					j.bad(kind, "unknown-video-frame", "access unit with RTP ts %d carries no published frame tag", f.ts)
					return
				}
				pf := es.Frames[fi]
				if last >= 0 && vpos[fi] != last+1 {
					j.bad(kind, "video-order", "video frame %d follows %d: missing, duplicated or reordered", fi, vFrames[last])
					return
				}
				got, _ := c06Normalize(es, f.nals, false)
				want, _ := c06Normalize(es, pf.Nals, false)
				if n == 0 && last < 0 && len(got) < len(want) {
					// the subscriber may start inside an access unit (first NALs before its admission)
					want = want[len(want)-len(got):]
				}
				if dd := nalListEq(got, want); dd != "" {
					j.bad(kind, "video-nals", "frame %d: %s", fi, dd)
					return
				}
				wantTs := uint32(uint64(pf.Ts) * uint64(clock) / 1000)
				if d := int32(f.ts - wantTs); d < -1 || d > 1 {
					j.bad(kind, "rtp-timestamp", "frame %d: RTP timestamp %d, published %d ms = %d ticks at %d Hz", fi, f.ts, pf.Ts, wantTs, clock)
					return
				}
				last = vpos[fi]
				nf++
			}
			if nf > 0 && last != len(vFrames)-1 {
				j.bad(kind, "video-truncated", "last video frame received is position %d of %d", last+1, len(vFrames))
				return
			}
			j.c.Count("rtsp_video_frames", nf)
		} else {
			var ad ref.AacDepack
			var aFrames []int
			for i, f := range es.Frames {
				if !f.Video {
					aFrames = append(aFrames, i)
				}
			}
			apos := map[int]int{}
			for p, i := range aFrames {
				apos[i] = p
			}
			last := -1
			na := 0
			for _, p := range rp {
				var frames [][]byte
				if es.Spec.ACodec == "aac" {
					before := len(ad.Frames)
					ad.Feed(p.Payload)
					if len(ad.Errors) > 0 {
						j.bad(kind, "rtp-depacketise", "audio: %s", ad.Errors[0])
						return
					}
					frames = ad.Frames[before:]
				} else {
					frames = [][]byte{p.Payload}
				}
				for _, a := range frames {
					fi := c06FrameOf(es, [][]byte{a})
					if fi < 0 {
						fi = c06TinyNext(es, aFrames, last, a)
					}
					if fi < 0 && last < 0 && len(a) <= 2 && es.Spec.TinyAudio {
						// an untagged frame before the first identifiable one (mid-stream joiner): it cannot be placed
						j.c.Count("leading_untagged_audio_frames_skipped", 1)
						continue
					}
					if fi < 0 || !bytes.Equal(a, es.Frames[fi].Audio) {
						j.bad(kind, "audio-bytes", "audio frame (%d bytes) is not a published frame (tag frame %d)", len(a), fi)
						return
					}
					if last >= 0 && apos[fi] != last+1 {
						j.bad(kind, "audio-order", "audio frame %d follows %d: missing, duplicated or reordered", fi, aFrames[last])
						return
					}
					last = apos[fi]
					wantTs := uint32(uint64(es.Frames[fi].Ts) * uint64(clock) / 1000)
					if d := int32(p.Ts - wantTs); d < -1 || d > 1 {
						j.bad(kind, "rtp-timestamp", "audio frame %d: RTP timestamp %d, published %d ms = %d ticks at %d Hz", fi, p.Ts, es.Frames[fi].Ts, wantTs, clock)
						return
					}
					na++
				}
			}
			if na > 0 && last != len(aFrames)-1 {
				j.bad(kind, "audio-truncated", "last audio frame received is position %d of %d", last+1, len(aFrames))
				return
			}
			j.c.Count("rtsp_audio_frames", na)
		}
	}
	j.c.Eval(1)
	j.c.Cell("%s/%s+%s", kind, es.Spec.VCodec, es.Spec.ACodec)
}

func c06Spec(c *fw.Ctx, i int) gen.EsSpec {
	r := c.Rng
	v := []string{"avc", "avc", "hevc", "hevc-enh", "avc", ""}[i%6]
	a := []string{"aac", "aac", "aac", "opus", "g711a", "aac", ""}[(i/6)%7]
	if v == "" && a == "" {
		a = "aac"
	}
	sp := gen.EsSpec{VCodec: v, ACodec: a, NVideo: 60 + r.Intn(80), GopLen: 6 + r.Intn(12), AudioPer: 1 + r.Intn(3), MaxNals: 1 + r.Intn(6), BigNals: r.Intn(3) == 0,
		InBandPS: r.Intn(2) == 0, AudSei: r.Intn(2) == 0, BFrames: r.Intn(2) == 0, TsStart: []uint32{0, 1000, 0xFFFFFF - 1000, 0x7fffff00}[r.Intn(4)], TsJump: r.Intn(4) == 0, AudioGap: r.Intn(4) == 0, LonePS: r.Intn(3) == 0, PsChange: r.Intn(3) == 0, PartialPS: r.Intn(3) == 0, AscChange: r.Intn(3) == 0, TinyAudio: r.Intn(2) == 0}
	sp.PsChangeLone = sp.PsChange && r.Intn(2) == 0
	if a == "aac" {
		sp.AacIdx = r.Intn(13)
		sp.AacChans = 1 + r.Intn(7)
		sp.AacObj = 1 + r.Intn(4)
	}
	if v == "" {
		sp.NVideo = 100
	}
	// what encoders put into onMetaData about the audio track: its codec id, and often the sampling
	// rate of the SOURCE (an RTP clock is a property of the payload format: 48 kHz for Opus, 8 kHz
	// for G.711, whatever the metadata says)
	sp.MetaAudio = (i / 2) % 3
	switch i % 11 {
	case 7:
		if v != "" && a != "" {
			sp.LateAudio = 20 + r.Intn(20)
		}
	case 9:
		if sp.TsStart >= 1000 {
			sp.TsBack = true
		}
	}
	return sp
}

func init() {
	fw.Register(&fw.Prop{
		ID: "C06",
		NumCases: func(tier string, seed int64) int {
			if tier == "thorough" {
				return 1200
			}
			return 84
		},
		CaseTimeout: func(string) time.Duration { return 5 * time.Minute },
		Rule: "one case = one whole-server run: a seeded elementary stream (AVC / HEVC classic / HEVC enhanced-RTMP / no video × AAC (13 sampling indices × 1–7 channels × object types 1–4) / Opus / G.711 / no audio; 1–6 tagged NAL units per frame sized 1 B…400 KiB around multiples of 184/1200/4096; in-band parameter sets (complete, partial, on their own, and one in-band change of the PPS, the new PPS arriving next to its SPS or on its own), a second AAC sequence header with another configuration, one-byte Opus / G.711 frames, AUD, SEI, B-frame composition offsets, timestamp start near 0xFFFFFF / 2^31, a forward jump, sparse audio; metadata that names the audio codec id, with or without the source's sampling rate - 16 kHz for Opus) is published by the reference RTMP client; consumers: HTTP-TS from the start, RTSP over interleaved TCP and over UDP joining mid-stream, HLS (playlist + every segment fetched after the stream ends). " +
			"oracle: reference TS demuxer / ADTS / Annex-B splitters and RFC 6184/7798/3640 depacketisers recover frames which must equal the published ones per track (after dropping AUD, re-inserted parameter sets, H.265 SEI on TS), in order, exactly once, to the end; DTS/PTS−90·ts constant per track per consumer; RTP timestamp within one tick; ADTS header = ASC; SDP sprop/config = published parameter sets. cell = consumer × codec pair.",
		Assumptions: []string{"reference demuxer / depacketisers (harness/ref)", "a UDP consumer with an RTP sequence gap is inconclusive (kernel drop cannot be told apart)", "G.711 is not carried in TS (audio PID absent is accepted)"},
		MinCells:    8,
		Run:         c06Run,
	})
}

func c06Run(c *fw.Ctx, i int) {
	// premise: this property is about what the remuxers produce, not about what a full write queue
	// drops (C15). The publisher runs far ahead of real time, so the interleaved consumer's queue
	// (1024 packets by default) is made large enough never to overflow.
	rtsp.VerifSetCmdWriteChanSize(200000)
	sp := c06Spec(c, i)
	r := c.SubRng("es")
	es := gen.BuildEs(r, 1, sp)
	msgs := es.RtmpMessages(true)
	root := filepath.Join(c.Scratch, fmt.Sprintf("c06-%d", i))
	os.MkdirAll(root, 0755)
	defer os.RemoveAll(root)
	conf := srv.Conf{Ts: true, Hls: true, HlsMem: i%2 == 0, HlsFragMs: 1000, HlsFragNum: 4000, HlsDelThr: 4000, HlsCleanup: 0, Rtsp: true, RtspWaitKey: true, Flv: true, Api: true}
	s, err := srv.Start(conf, root)
	if err != nil {
		c.Inconclusive("server start: %v", err)
		return
	}
	hooks := s.InstallHook(false)
	defer s.Stop()
	name := fmt.Sprintf("m%d", i)
	desc := fmt.Sprintf("spec=%+v", sp)
	// every seventh case the stream enters the server under test through an RTMP relay pull from a second lal (the
	// pull session is an RTMP *client* session: other buffers, other life times than the publish path)
	viaPull := i%7 == 5
	ingest := s
	if viaPull {
		root2 := filepath.Join(c.Scratch, fmt.Sprintf("c06-%d-origin", i))
		os.MkdirAll(root2, 0755)
		defer os.RemoveAll(root2)
		o, err := srv.Start(srv.Conf{}, root2)
		if err != nil {
			c.Inconclusive("origin server start: %v", err)
			return
		}
		defer o.Stop()
		ingest = o
		desc = "ingest=relay-pull " + desc
		c.Count("cases_via_relay_pull", 1)
	}
	c.Describe("%s", desc)
	jd := &c06Judge{c: c, es: es, desc: desc}
	nHdr := 0
	for _, m := range msgs {
		if m.Frame < 0 {
			nHdr++
		}
	}
	// consumers
	tsSub, err := srv.StartHttpSub(s.HttpAddr(), "/live/"+name+".ts", "ts", 5*time.Second)
	if err != nil {
		c.Inconclusive("ts sub: %v", err)
		return
	}
	defer tsSub.Close()
	s.Notify.WaitSession(5*time.Second, "sub_start", srv.Key(tsSub.Conn))
	cons := []*c06Consumer{{Kind: "rtsp-tcp", JoinAt: nHdr + c.Rng.Intn(len(msgs)/2)}, {Kind: "rtsp-udp", JoinAt: nHdr + c.Rng.Intn(len(msgs)/2)}, {Kind: "ts-late", JoinAt: nHdr + c.Rng.Intn(len(msgs)/2)}}
	pub, err := ref.StartRtmpPublisher(ingest.RtmpAddr(), "live", name, 5*time.Second)
	if err != nil {
		c.Inconclusive("publisher: %v", err)
		return
	}
	defer pub.Close()
	if _, ok := ingest.Notify.WaitSession(5*time.Second, "pub_start", srv.Key(pub.RC.Conn)); !ok {
		c.Inconclusive("publisher not accepted")
		return
	}
	pub.RC.SetChunkSize(60000)
	if viaPull {
		from := s.Notify.Len()
		body, _ := json.Marshal(map[string]interface{}{"url": "rtmp://" + ingest.RtmpAddr() + "/live/" + name, "stream_name": name, "pull_timeout_ms": 5000, "pull_retry_num": 0, "auto_stop_pull_after_no_out_ms": -1})
		srv.HttpPostJson(s.ApiAddr(), "/api/ctrl/start_relay_pull", string(body), 3*time.Second)
		if _, ok := s.Notify.Wait(6*time.Second, from, func(ev srv.Event) bool { return ev.Kind == "pull_start" && ev.StreamName == name }); !ok {
			c.Inconclusive("relay pull did not attach")
			return
		}
	}
	hook := hooks.Latest(name)
	sent := 0
	waitProcessed := func() bool {
		return srv.WaitFor(10*time.Second, func() bool { return hook != nil && hook.Count() >= sent })
	}
	udpBefore := udpErrors()
	burst := 0
	var joinWg sync.WaitGroup
	for k, m := range msgs {
		for _, cn := range cons {
			if cn.JoinAt != k {
				continue
			}
			waitProcessed()
			switch cn.Kind {
			case "ts-late":
				cn.http, err = srv.StartHttpSub(s.HttpAddr(), "/live/"+name+".ts", "ts", 5*time.Second)
				if err != nil {
					cn.err = err.Error()
				} else {
					s.Notify.WaitSession(5*time.Second, "sub_start", srv.Key(cn.http.Conn))
				}
			default:
				// asynchronous: DESCRIBE is answered only once lal has built the SDP, which may need
				// more published messages
				joinWg.Add(1)
				go func(cn *c06Consumer) {
					defer joinWg.Done()
					rc, err := ref.DialRtsp(s.RtspAddr(), 5*time.Second)
					if err != nil {
						cn.err = err.Error()
						return
					}
					cn.rtspMu.Lock()
					cn.rtsp = rc
					cn.rtspMu.Unlock()
					cn.sdp, err = rc.Play("rtsp://"+s.RtspAddr()+"/live/"+name, cn.Kind == "rtsp-udp", 20*time.Second)
					if err != nil {
						cn.err = err.Error()
					}
				}(cn)
			}
		}
		if err := pub.RC.Send(ref.RtmpMsg{Csid: csidFor(m.Type), TypeID: m.Type, StreamID: pub.Msid, Ts: m.Ts, Payload: m.Payload}, 0); err != nil {
			c.Inconclusive("publisher send: %v", err)
			return
		}
		sent++
		burst += len(m.Payload)
		if k%16 == 15 {
			waitProcessed()
			time.Sleep(2 * time.Millisecond) // keep UDP bursts small
		}
		if burst > 400000 {
			// premise, not verdict: lal queues at most 1024 RTP packets per interleaved consumer and
			// drops when the queue is full (that behaviour is C15's subject); a publisher running far
			// ahead of real time must let the consumers drain before the next burst
			burst = 0
			waitProcessed()
			last, still := -1, 0
			for w := 0; w < 400 && still < 5; w++ {
				n := 0
				for _, cn := range cons {
					if rc := cn.live(); rc != nil {
						n += rc.NumPackets()
					}
				}
				if n == last {
					still++
				} else {
					still = 0
				}
				last = n
				time.Sleep(5 * time.Millisecond)
			}
		}
	}
	joinWg.Wait()
	if !waitProcessed() {
		// 10 s without the last message being processed: on a loaded machine that is not yet a stall (seen once with two
		// thorough sweeps running beside this check). Only a server that has still not caught up a minute later is reported.
		c.Count("slow_to_process_last_message", 1)
		if !srv.WaitFor(60*time.Second, func() bool { return hook != nil && hook.Count() >= sent }) {
			c.Violate("frames/stalled", "lal did not process all published messages within 70 s | "+desc, nil)
			return
		}
	}
	// quiescence on all consumer sockets
	quiet := func() {
		last, q := int64(-1), 0
		for k := 0; k < 500; k++ {
			sum := tsSub.RawBytes()
			for _, cn := range cons {
				if cn.http != nil {
					sum += cn.http.RawBytes()
				}
				if cn.rtsp != nil {
					sum += int64(cn.rtsp.NumPackets())
				}
			}
			if sum == last {
				q++
				if q >= 10 {
					return
				}
			} else {
				q = 0
			}
			last = sum
			time.Sleep(20 * time.Millisecond)
		}
	}
	quiet()
	paddr := srv.Key(pub.RC.Conn)
	pub.Close()
	if viaPull {
		// the origin keeps its subscribers when its publisher leaves; the input of the server under test ends when
		// the pull is stopped
		ingest.Notify.WaitSession(5*time.Second, "pub_stop", paddr)
		from := s.Notify.Len()
		srv.HttpGet(s.ApiAddr(), "/api/ctrl/stop_relay_pull?stream_name="+name, 3*time.Second)
		s.Notify.Wait(5*time.Second, from, func(ev srv.Event) bool { return ev.Kind == "pull_stop" && ev.StreamName == name })
	} else {
		s.Notify.WaitSession(5*time.Second, "pub_stop", paddr)
	}
	quiet()
	udpAfter := udpErrors()
	// HLS: playlist and segments through lal's own HTTP handler
	var hlsBody []byte
	hlsOK := false
	if st, _, pl, err := srv.HttpGet(s.HttpAddr(), "/hls/"+name+".m3u8", 5*time.Second); err == nil && st == 200 {
		m3, perr := ref.ParseM3u8(pl)
		if perr != nil {
			c.Violate("frames/hls-playlist", fmt.Sprintf("playlist does not parse: %v | %s", perr, desc), nil)
		} else {
			hlsOK = true
			for _, e := range m3.Entries {
				u := e.URI
				if !strings.HasPrefix(u, "/") {
					u = "/hls/" + u
				}
				st, _, seg, err := srv.HttpGet(s.HttpAddr(), u, 5*time.Second)
				if err != nil || st != 200 {
					c.Violate("frames/hls-segment-missing", fmt.Sprintf("segment %s listed in the playlist: status %d err %v | %s", e.URI, st, err, desc), nil)
					hlsOK = false
					break
				}
				hlsBody = append(hlsBody, seg...)
			}
			if !m3.EndList {
				c.Violate("frames/hls-no-endlist", "playlist has no ENDLIST after the stream ended | "+desc, nil)
			}
		}
	} else if es.Spec.VCodec != "" || es.Spec.ACodec == "aac" {
		c.Violate("frames/hls-no-playlist", fmt.Sprintf("no playlist after the stream ended (status %d err %v) | %s", st, err, desc), nil)
	}
	// judge
	jd.judgeTs("ts", tsSub.Body(), true, false)
	if hlsOK {
		jd.judgeTs("hls", hlsBody, true, true)
	}
	for _, cn := range cons {
		if cn.err != "" {
			c.Inconclusive("%s join: %s", cn.Kind, cn.err)
			continue
		}
		switch cn.Kind {
		case "ts-late":
			if cn.http != nil {
				jd.judgeTs("ts-late", cn.http.Body(), false, false)
				cn.http.Close()
			}
		default:
			if cn.rtsp != nil {
				if cn.Kind == "rtsp-udp" && udpAfter != udpBefore {
					c.Inconclusive("rtsp-udp: kernel UDP error counters moved (%d → %d)", udpBefore, udpAfter)
				} else {
					jd.judgeRtsp(cn.Kind, cn)
				}
				cn.rtsp.Close()
			}
		}
	}
	if i < 4 {
		c.Sample(map[string]interface{}{"spec": fmt.Sprintf("%+v", sp), "frames": len(es.Frames), "rtmp_messages": len(msgs)})
	}
}

// udpErrors sums the kernel's UDP InErrors + RcvbufErrors (from /proc/net/snmp).
func udpErrors() int64 {
	b, err := os.ReadFile("/proc/net/snmp")
	if err != nil {
		return -1
	}
	var hdr, val []string
	for _, l := range strings.Split(string(b), "\n") {
		if strings.HasPrefix(l, "Udp:") {
			if hdr == nil {
				hdr = strings.Fields(l)
			} else {
				val = strings.Fields(l)
			}
		}
	}
	var sum int64
	for i, h := range hdr {
		if (h == "InErrors" || h == "RcvbufErrors") && i < len(val) {
			var v int64
			fmt.Sscanf(val[i], "%d", &v)
			sum += v
		}
	}
	return sum
}
