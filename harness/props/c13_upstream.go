package props

import (
	"encoding/json"
	"fmt"
	"io"
	"math/rand"
	"net"
	"strings"
	"sync"
	"time"

	"lalverif/fw"
	"lalverif/gen"
	"lalverif/ref"
	"lalverif/srv"

	"github.com/q191201771/lal/pkg/httpflv"
)

// rawStub accepts TCP connections and runs a script on each.
type rawStub struct {
	ln     net.Listener
	addr   string
	mu     sync.Mutex
	script func(c net.Conn)
	n      int
}

func newRawStub() (*rawStub, error) {
	ln, err := net.Listen("tcp", "127.0.0.1:0")
	if err != nil {
		return nil, err
	}
	st := &rawStub{ln: ln, addr: ln.Addr().String()}
	go func() {
		for {
			c, err := ln.Accept()
			if err != nil {
				return
			}
			st.mu.Lock()
			f := st.script
			st.n++
			st.mu.Unlock()
			go func() {
				defer c.Close()
				if f != nil {
					f(c)
				}
			}()
		}
	}()
	return st, nil
}

func (st *rawStub) set(f func(c net.Conn)) {
	st.mu.Lock()
	st.script = f
	st.mu.Unlock()
}

func (st *rawStub) accepts() int {
	st.mu.Lock()
	defer st.mu.Unlock()
	return st.n
}

// rtmpServerHandshake plays the server side of the simple handshake on a raw connection.
func rtmpServerHandshake(c net.Conn) bool {
	c.SetDeadline(time.Now().Add(3 * time.Second))
	buf := make([]byte, 1537)
	if _, err := io.ReadFull(c, buf); err != nil {
		return false
	}
	s := make([]byte, 3073)
	s[0] = 3
	copy(s[1537:], buf[1:])
	if _, err := c.Write(s); err != nil {
		return false
	}
	c2 := make([]byte, 1536)
	if _, err := io.ReadFull(c, c2); err != nil {
		return false
	}
	c.SetDeadline(time.Now().Add(3 * time.Second))
	go io.Copy(io.Discard, c)
	return true
}

func okConnectResult(tid float64) []ref.AmfValue {
	return []ref.AmfValue{ref.AmfStr("_result"), ref.AmfNum(tid), ref.AmfObj(ref.AmfPair{Key: "fmsVer", Val: ref.AmfStr("FMS/3,0,1,123")}),
		ref.AmfObj(ref.AmfPair{Key: "level", Val: ref.AmfStr("status")}, ref.AmfPair{Key: "code", Val: ref.AmfStr("NetConnection.Connect.Success")})}
}

// c13RtmpReplyScripts: byte strings a hostile RTMP origin / push target sends after the handshake.
func c13RtmpReplyScripts(r *rand.Rand, play bool) [][]byte {
	var out [][]byte
	rb := func(n int) []byte { b := make([]byte, n); r.Read(b); return b }
	status := "NetStream.Publish.Start"
	if play {
		status = "NetStream.Play.Start"
	}
	valid := func(s *rtmpScript, upto int) {
		// upto: 1 after control msgs, 2 after connect result, 3 after createStream result, 4 after onStatus
		s.msg(2, 5, 0, 0, []byte{0, 0x4c, 0x4b, 0x40})
		s.msg(2, 6, 0, 0, []byte{0, 0x4c, 0x4b, 0x40, 2})
		if upto >= 2 {
			s.msg(3, 20, 0, 0, ref.AmfEncodeAll(okConnectResult(1)...))
		}
		if upto >= 3 {
			s.msg(3, 20, 0, 0, ref.AmfEncodeAll(ref.AmfStr("_result"), ref.AmfNum(2), ref.AmfNul(), ref.AmfNum(1)))
		}
		if upto >= 4 {
			s.msg(5, 20, 1, 0, ref.AmfEncodeAll(ref.AmfStr("onStatus"), ref.AmfNum(0), ref.AmfNul(), ref.AmfObj(ref.AmfPair{Key: "code", Val: ref.AmfStr(status)})))
		}
	}
	for upto := 0; upto <= 4; upto++ {
		// every message type id with short payloads
		for typ := 0; typ < 256; typ++ {
			if typ > 24 && r.Intn(5) != 0 {
				continue
			}
			s := newScript()
			valid(s, upto)
			s.msg(2+r.Intn(5), uint8(typ), uint32(r.Intn(2)), 0, [][]byte{nil, {0}, {0, 0}, {0, 0, 0}, rb(4), rb(6), rb(1 + r.Intn(12))}[r.Intn(7)])
			out = append(out, s.b)
		}
		// command replies truncated / type-confused
		cmds := [][]ref.AmfValue{okConnectResult(1), {ref.AmfStr("_result"), ref.AmfNum(2), ref.AmfNul(), ref.AmfNum(1)}, {ref.AmfStr("onStatus"), ref.AmfNum(0), ref.AmfNul(), ref.AmfObj(ref.AmfPair{Key: "code", Val: ref.AmfStr(status)})},
			{ref.AmfStr("_error"), ref.AmfNum(1), ref.AmfNul(), ref.AmfObj(ref.AmfPair{Key: "description", Val: ref.AmfStr("[ AccessManager.Reject ] : [ code=403 need auth; authmod=adobe ] : ")})},
			{ref.AmfStr("_error"), ref.AmfNum(1), ref.AmfNul(), ref.AmfObj(ref.AmfPair{Key: "description", Val: ref.AmfStr("[ AccessManager.Reject ] : [ authmod=adobe ] : ?reason=needauth&user=u&salt=s&challenge=c&opaque=o")})},
			{ref.AmfStr("_error"), ref.AmfNum(1), ref.AmfNul(), ref.AmfObj(ref.AmfPair{Key: "description", Val: ref.AmfStr("a:b?reason=needauth")})},
			{ref.AmfStr("_error"), ref.AmfNum(1), ref.AmfNul(), ref.AmfObj()}, {ref.AmfStr("onBWDone"), ref.AmfNum(0)}, {ref.AmfStr("whatever"), ref.AmfNum(0)},
			{ref.AmfStr("_result"), ref.AmfNum(1)}, {ref.AmfStr("_result"), ref.AmfNum(1), ref.AmfNul()}, {ref.AmfStr("_result"), ref.AmfNum(1), ref.AmfObj(), ref.AmfObj()}, {ref.AmfStr("_result"), ref.AmfNum(2), ref.AmfNul()},
			{ref.AmfStr("_result"), ref.AmfNum(2), ref.AmfNum(1), ref.AmfNum(1)}, {ref.AmfStr("_result"), ref.AmfNum(99), ref.AmfNul()}, {ref.AmfStr("onStatus"), ref.AmfNum(0)}, {ref.AmfStr("onStatus"), ref.AmfNum(0), ref.AmfNul(), ref.AmfObj()},
			{ref.AmfStr("onStatus"), ref.AmfNum(0), ref.AmfObj(), ref.AmfObj()}, {ref.AmfNum(1)}, {ref.AmfStr("_result")}}
		for _, cv := range cmds {
			body := ref.AmfEncodeAll(cv...)
			for n := 0; n <= len(body); n += 1 + r.Intn(3) {
				s := newScript()
				valid(s, upto)
				s.msg(3, 20, uint32(r.Intn(2)), 0, body[:n])
				out = append(out, s.b)
			}
			s := newScript()
			valid(s, upto)
			s.msg(3, 20, 1, 0, body)
			s.msg(3, 17, 1, 0, append([]byte{0}, body...))
			out = append(out, s.b)
		}
		// media / data / aggregate oddities after the session is (or is not) established
		for _, pl := range [][]byte{nil, {0x17}, {0xaf}, {0x17, 0}, gen.AvcSeqHeader(1, 1), rb(30), ref.AmfEncodeAll(ref.AmfNum(1)), {2}, ref.BuildAggregate([]ref.RtmpMsg{{TypeID: 9, Payload: rb(20)}})[:18]} {
			for _, typ := range []uint8{8, 9, 18, 22} {
				s := newScript()
				valid(s, upto)
				s.msg(6, typ, 1, uint32(r.Intn(1000)), pl)
				out = append(out, s.b)
			}
		}
		// chunk-size extremes and raw chunk garbage
		for _, cs := range []uint32{0, 1, 0x7fffffff, 0xffffffff} {
			s := newScript()
			valid(s, upto)
			s.msg(2, 1, 0, 0, []byte{byte(cs >> 24), byte(cs >> 16), byte(cs >> 8), byte(cs)})
			s.raw(rb(200))
			out = append(out, s.b)
		}
		s := newScript()
		valid(s, upto)
		s.raw(rb(300))
		out = append(out, s.b)
	}
	return out
}

func c13UpstreamInputs(c *fw.Ctx, i int, name string) []c13Input {
	r := c.Rng
	var out []c13Input
	stub, err := newRawStub()
	if err != nil {
		return nil
	}
	rb := func(n int) []byte { b := make([]byte, n); r.Read(b); return b }
	startPull := func(s *srv.Server, url, stream string) {
		body, _ := json.Marshal(map[string]interface{}{"url": url, "stream_name": stream, "pull_timeout_ms": 1500, "pull_retry_num": 0, "auto_stop_pull_after_no_out_ms": -1})
		srv.HttpPostJson(s.ApiAddr(), "/api/ctrl/start_relay_pull", string(body), 3*time.Second)
	}
	stopPull := func(s *srv.Server, stream string) {
		srv.HttpGet(s.ApiAddr(), "/api/ctrl/stop_relay_pull?stream_name="+stream, 3*time.Second)
	}
	waitAccept := func(before int) {
		srv.WaitFor(2*time.Second, func() bool { return stub.accepts() > before })
	}
	switch (i / 8) % 4 {
	case 3: // RTMP push target answering lal's relay push
		out = append(out, c13PushInputs(c, r, name)...)
	case 0: // RTMP origin answering lal's relay pull
		for k, sc := range c13RtmpReplyScripts(r, true) {
			sc := sc
			stream := fmt.Sprintf("%s_pull%d", name, k)
			out = append(out, c13Input{Class: "upstream/rtmp-pull-reply", Desc: fmt.Sprintf("origin reply %d bytes tail=%x", len(sc), sc[max(0, len(sc)-48):]), Run: func(s *srv.Server) error {
				done := make(chan struct{}, 1)
				stub.set(func(cn net.Conn) {
					defer func() {
						select {
						case done <- struct{}{}:
						default:
						}
					}()
					if !rtmpServerHandshake(cn) {
						return
					}
					cn.Write(sc)
					time.Sleep(15 * time.Millisecond)
				})
				before := stub.accepts()
				startPull(s, "rtmp://"+stub.addr+"/live/"+stream, stream)
				waitAccept(before)
				select {
				case <-done:
				case <-time.After(2 * time.Second):
				}
				time.Sleep(10 * time.Millisecond)
				stopPull(s, stream)
				return nil
			}})
		}
		// handshake-level garbage
		for _, hs := range [][]byte{nil, {3}, rb(100), rb(3073), make([]byte, 3073), append([]byte{3}, rb(3072)...), append([]byte{9}, make([]byte, 4000)...)} {
			hs := hs
			stream := fmt.Sprintf("%s_hs%d", name, len(out))
			out = append(out, c13Input{Class: "upstream/rtmp-handshake-reply", Desc: fmt.Sprintf("%d handshake bytes", len(hs)), Run: func(s *srv.Server) error {
				stub.set(func(cn net.Conn) { cn.Write(hs); time.Sleep(20 * time.Millisecond) })
				before := stub.accepts()
				startPull(s, "rtmp://"+stub.addr+"/live/"+stream, stream)
				waitAccept(before)
				time.Sleep(40 * time.Millisecond)
				stopPull(s, stream)
				return nil
			}})
		}
	case 1: // RTSP origin answering lal's relay pull
		sdp := string(goodSdp(r))
		reply := func(status string, headers []string, body string) string {
			h := "RTSP/1.0 " + status + "\r\nCSeq: 1\r\n"
			for _, x := range headers {
				h += x + "\r\n"
			}
			if body != "" {
				h += fmt.Sprintf("Content-Length: %d\r\n", len(body))
			}
			return h + "\r\n" + body
		}
		var scripts [][]string // per request index the reply
		goodSeq := []string{reply("200 OK", []string{"Public: DESCRIBE, SETUP, PLAY"}, ""), reply("200 OK", []string{"Content-Type: application/sdp", "Content-Base: rtsp://x/"}, sdp),
			reply("200 OK", []string{"Session: 1234;timeout=60", "Transport: RTP/AVP/TCP;unicast;interleaved=0-1"}, ""), reply("200 OK", []string{"Session: 1234", "Transport: RTP/AVP/TCP;unicast;interleaved=2-3"}, ""), reply("200 OK", []string{"Session: 1234"}, "")}
		scripts = append(scripts, goodSeq)
		for _, v := range c13SdpVariants(r) {
			sq := append([]string(nil), goodSeq...)
			sq[1] = reply("200 OK", []string{"Content-Type: application/sdp"}, string(v))
			scripts = append(scripts, sq)
		}
		for pos := 0; pos < 5; pos++ {
			for _, bad := range []string{"", "RTSP/1.0\r\n\r\n", "RTSP/1.0 abc OK\r\n\r\n", "RTSP/1.0 401 Unauthorized\r\nCSeq: 1\r\nWWW-Authenticate: Digest realm=\r\n\r\n", "RTSP/1.0 401 Unauthorized\r\nCSeq: 1\r\nWWW-Authenticate: Basic\r\n\r\n",
				"RTSP/1.0 401 Unauthorized\r\nCSeq: 1\r\nWWW-Authenticate: Digest realm=\"r\", nonce=\"n\"\r\n\r\n", "RTSP/1.0 200 OK\r\nContent-Length: -1\r\n\r\n", "RTSP/1.0 200 OK\r\nContent-Length: 99999\r\n\r\nxx", "RTSP/1.0 200 OK\r\nTransport: RTP/AVP;unicast;server_port=x-y\r\n\r\n",
				"RTSP/1.0 200 OK\r\nTransport: RTP/AVP/TCP;interleaved=9\r\n\r\n", "RTSP/1.0 302 Moved\r\nLocation: rtsp://127.0.0.1:1/x\r\n\r\n", "$\x00\x00\x05abcde", "$\x05\xff\xff", string(rb(100)), "RTSP/1.0 200 OK\r\n" + strings.Repeat("X: y\r\n", 2000) + "\r\n"} {
				sq := append([]string(nil), goodSeq...)
				sq[pos] = bad
				scripts = append(scripts, sq)
			}
		}
		// 401 answers whose WWW-Authenticate header is cut at every offset (lal then computes credentials from it)
		for _, full := range []string{`Digest realm="lal", nonce="0123456789abcdef", algorithm="MD5", stale="FALSE"`, `Basic realm="lal"`} {
			for n := 0; n <= len(full); n++ {
				for _, pos := range []int{0, 1} {
					sq := append([]string(nil), goodSeq...)
					sq[pos] = "RTSP/1.0 401 Unauthorized\r\nCSeq: 1\r\nWWW-Authenticate: " + full[:n] + "\r\n\r\n"
					scripts = append(scripts, sq)
				}
			}
		}
		// the SETUP answer's Transport header cut at every offset (lal reads server_port / interleaved from it)
		for _, full := range []string{"RTP/AVP/TCP;unicast;interleaved=0-1", "RTP/AVP/UDP;unicast;client_port=5000-5001;server_port=6000-6001", "RTP/AVP;unicast;server_port=6000-6001;ssrc=1"} {
			for n := 1; n <= len(full); n++ {
				sq := append([]string(nil), goodSeq...)
				sq[2] = reply("200 OK", []string{"Session: 1234;timeout=60", "Transport: " + full[:n]}, "")
				scripts = append(scripts, sq)
			}
		}
		// a complete exchange followed by bytes that are not an interleaved frame (a stray reply, line noise, a frame
		// whose length field is short so that the next "frame" starts inside its payload): sent after the PLAY answer
		for _, tail := range []string{"RTSP/1.0 200 OK\r\nCSeq: 9\r\n\r\n", "x", "\r\n\r\n", "$\x00\x00\x02abcd", "RTSP/1.0 200 OK\r\nContent-Length: 5\r\n\r\nab", "\x00\x00\x00"} {
			for _, public := range []string{"Public: DESCRIBE, SETUP, PLAY", "Public: DESCRIBE, SETUP, PLAY, GET_PARAMETER"} {
				sq := append([]string(nil), goodSeq...)
				sq[0] = reply("200 OK", []string{public}, "")
				scripts = append(scripts, append(sq, tail), append(sq, tail)) // once per rtsp_mode (k%2)
			}
		}
		pk := c13RtpPackets(r)
		for k, sq := range scripts {
			sq := sq
			k := k
			stream := fmt.Sprintf("%s_rp%d", name, k)
			out = append(out, c13Input{Class: "upstream/rtsp-pull-reply", Always: len(sq) > 5, Desc: fmt.Sprintf("rtsp origin script: %q", trunc(strings.Join(sq, "|"), 300)), Run: func(s *srv.Server) error {
				done := make(chan struct{}, 2)
				stub.set(func(cn net.Conn) {
					cn.SetDeadline(time.Now().Add(3 * time.Second))
					buf := make([]byte, 8192)
					for ri, rp := range sq {
						if ri >= 5 {
							cn.Write([]byte(rp)) // unsolicited bytes after the PLAY answer
							continue
						}
						// wait for a request (ends with CRLFCRLF) — best effort
						got := ""
						for !strings.Contains(got, "\r\n\r\n") {
							n, err := cn.Read(buf)
							if err != nil {
								return
							}
							got += string(buf[:n])
						}
						cseq := "1"
						for _, l := range strings.Split(got, "\r\n") {
							if strings.HasPrefix(strings.ToLower(l), "cseq:") {
								cseq = strings.TrimSpace(l[5:])
							}
						}
						cn.Write([]byte(strings.Replace(rp, "CSeq: 1", "CSeq: "+cseq, 1)))
					}
					for pi, p := range pk {
						cn.Write(dollar((k+pi)%5, p))
					}
					time.Sleep(15 * time.Millisecond)
					select {
					case done <- struct{}{}:
					default:
					}
				})
				before := stub.accepts()
				// lal pulls RTSP over TCP or UDP (rtsp_mode): the answers are read differently
				body, _ := json.Marshal(map[string]interface{}{"url": "rtsp://" + []string{"", "", "user:pa:ss@", "user@"}[(k/2)%4] + stub.addr + "/live/" + stream, "stream_name": stream, "pull_timeout_ms": 1500, "pull_retry_num": 0, "auto_stop_pull_after_no_out_ms": -1, "rtsp_mode": k % 2})
				srv.HttpPostJson(s.ApiAddr(), "/api/ctrl/start_relay_pull", string(body), 3*time.Second)
				waitAccept(before)
				select {
				case <-done:
				case <-time.After(400 * time.Millisecond):
				}
				time.Sleep(10 * time.Millisecond)
				stopPull(s, stream)
				return nil
			}})
		}
	default: // httpflv.PullSession (library client) against a hostile HTTP server
		var tags []byte
		for k := 0; k < 5; k++ {
			tags = append(tags, httpflv.PackHttpflvTag(9, uint32(k*40), gen.VideoFrame(r, 1, k, k == 0, 0, 50))...)
		}
		good := append(append([]byte(nil), httpflv.FlvHeader...), tags...)
		var bodies [][]byte
		for n := 0; n <= len(good); n += 1 + r.Intn(6) {
			bodies = append(bodies, good[:n])
		}
		for k := 0; k < 80; k++ {
			b := append([]byte(nil), good...)
			for f := 0; f < 1+r.Intn(3); f++ {
				b[r.Intn(min(len(b), 60))] = byte(r.Intn(256))
			}
			bodies = append(bodies, b)
		}
		bodies = append(bodies, append(append([]byte(nil), httpflv.FlvHeader...), 9, 0xff, 0xff, 0xff, 0, 0, 0, 0, 0, 0, 0, 1, 2), rb(500), nil)
		heads := []string{"HTTP/1.1 200 OK\r\nContent-Type: video/x-flv\r\n\r\n", "HTTP/1.1 200 OK\r\n\r\n", "HTTP/1.1 302 Found\r\nLocation: http://127.0.0.1:1/x.flv\r\n\r\n", "HTTP/1.1 302 Found\r\n\r\n", "HTTP/1.1 404 Not Found\r\nContent-Length: 0\r\n\r\n",
			"HTTP/1.1\r\n\r\n", "garbage\r\n\r\n", "", "HTTP/1.1 200 OK\r\nTransfer-Encoding: chunked\r\n\r\n5\r\nFLV\x01\x05\r\n", "HTTP/1.1 200 OK\r\n" + strings.Repeat("A: b\r\n", 3000) + "\r\n"}
		for _, h := range heads {
			for _, b := range bodies {
				if r.Intn(4) != 0 && h != heads[0] {
					continue
				}
				h, b := h, b
				out = append(out, c13Input{Class: "upstream/httpflv-pull-reply", Desc: fmt.Sprintf("http head %q body %d bytes head=%x", trunc(h, 60), len(b), b[:min(len(b), 32)]), Run: func(s *srv.Server) error {
					stub.set(func(cn net.Conn) {
						cn.SetDeadline(time.Now().Add(2 * time.Second))
						buf := make([]byte, 4096)
						cn.Read(buf)
						cn.Write([]byte(h))
						cn.Write(b)
						time.Sleep(20 * time.Millisecond)
					})
					ps := httpflv.NewPullSession(func(o *httpflv.PullSessionOption) {
						o.PullTimeoutMs = 1000
						o.ReadTimeoutMs = 500
					})
					done := make(chan struct{})
					go func() {
						defer close(done)
						if err := ps.Pull("http://"+stub.addr+"/live/x.flv", func(tag httpflv.Tag) {}); err != nil {
							return
						}
						select {
						case <-ps.WaitChan():
						case <-time.After(1500 * time.Millisecond):
						}
					}()
					select {
					case <-done:
					case <-time.After(4 * time.Second):
					}
					ps.Dispose()
					return nil
				}})
			}
		}
	}
	if c.Tier != "thorough" {
		// quick: a seeded eighth of the upstream scripts (thorough runs them all)
		var sel []c13Input
		off := r.Intn(8)
		for k, in := range out {
			if k%8 == off || in.Always {
				sel = append(sel, in)
			}
		}
		out = sel
	}
	return out
}

var _ = fw.Get

var (
	c13PushStub *rawStub
)

// c13PushInputs: a second in-process server whose relay-push target is a hostile stub.
func c13PushInputs(c *fw.Ctx, r *rand.Rand, name string) []c13Input {
	crashSrvMu.Lock()
	if c13PushStub == nil {
		c13PushStub, _ = newRawStub()
	}
	stub := c13PushStub
	crashSrvMu.Unlock()
	if stub == nil {
		return nil
	}
	conf := srv.Conf{Flv: true, Api: true, PushAddrs: []string{stub.addr}}
	ps, _ := cellServer(c, c05Cell{Name: "c13-push-to-stub", Conf: conf})
	if ps == nil {
		return nil
	}
	var out []c13Input
	for k, sc := range c13RtmpReplyScripts(r, false) {
		sc := sc
		stream := fmt.Sprintf("%s_push%d", name, k)
		out = append(out, c13Input{Class: "upstream/rtmp-push-reply", Desc: fmt.Sprintf("push target reply %d bytes tail=%x", len(sc), sc[max(0, len(sc)-48):]), Run: func(_ *srv.Server) error {
			done := make(chan struct{}, 4)
			stub.set(func(cn net.Conn) {
				defer func() {
					select {
					case done <- struct{}{}:
					default: // a later connection of lal's push retries: nobody waits for it any more
					}
				}()
				if !rtmpServerHandshake(cn) {
					return
				}
				cn.Write(sc)
				time.Sleep(15 * time.Millisecond)
			})
			pub, err := ref.StartRtmpPublisher(ps.RtmpAddr(), "live", stream, 3*time.Second)
			if err != nil {
				if strings.Contains(err.Error(), "connection refused") {
					return err
				}
				return nil
			}
			rr := rand.New(rand.NewSource(1))
			for _, m := range gen.Build(rr, 3, gen.Shape{Video: true, Audio: true, Meta: true, Gops: 1, GopLen: 3, AudioPerVid: 1}) {
				pub.RC.Send(ref.RtmpMsg{Csid: csidFor(m.Type), TypeID: m.Type, StreamID: pub.Msid, Ts: m.Ts, Payload: m.Payload}, 0)
			}
			select {
			case <-done:
			case <-time.After(2 * time.Second):
			}
			time.Sleep(10 * time.Millisecond)
			pub.Close()
			// the push server must still serve
			if st, _, _, err := srv.HttpGet(ps.ApiAddr(), "/api/stat/lal_info", 3*time.Second); err != nil || st != 200 {
				return fmt.Errorf("connection refused: push server api: %v", err)
			}
			return nil
		}})
	}
	return out
}
