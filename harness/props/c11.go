package props

import (
	"bufio"
	"bytes"
	"fmt"
	"io"
	"net"
	"os"
	"path/filepath"
	"runtime"
	"strings"
	"sync/atomic"
	"time"

	"lalverif/fw"
	"lalverif/gen"
	"lalverif/ref"
	"lalverif/srv"

	"github.com/q191201771/lal/pkg/base"
	"github.com/q191201771/lal/pkg/httpflv"
	"github.com/q191201771/lal/pkg/remux"
)

// C11 — FLV output (HTTP-FLV, WebSocket-FLV, recordings) is a valid FLV byte stream.

var c11Ts = []uint32{0, 1, 0xFFFFFE, 0xFFFFFF, 0x1000000, 0x1000001, 0x7FFFFFFF, 0x80000000, 0xFFFFFFFF}

func c11TagEq(t ref.FlvTag, typ uint8, ts uint32, data []byte) string {
	if t.Type != typ {
		return fmt.Sprintf("type %d want %d", t.Type, typ)
	}
	if t.Ts != ts {
		return fmt.Sprintf("timestamp %d want %d", t.Ts, ts)
	}
	if !bytes.Equal(t.Data, data) {
		return fmt.Sprintf("data differs (%d vs %d bytes)", len(t.Data), len(data))
	}
	return ""
}

func c11LenClass(l int) string {
	switch {
	case l == 0:
		return "len=0"
	case l < 126:
		return "len<126"
	case l <= 65535:
		return "len<=65535"
	default:
		return "len>65535"
	}
}

func c11PackOne(c *fw.Ctx, typ uint8, ts uint32, l int) {
	data := c09Fill(l, uint32(l)+uint32(typ))
	raw := httpflv.PackHttpflvTag(typ, ts, data)
	c.Eval(1)
	cls := c11LenClass(l) + "/" + tsClass(ts)
	c.Cell("pack/type=%d/%s", typ, cls)
	p := ref.FlvParser{NoHeader: true}
	p.Feed(raw)
	if p.Err != nil || len(p.Tags) != 1 || p.Pending() != 0 {
		c.Violate("pack/parse/"+cls, fmt.Sprintf("PackHttpflvTag(type=%d ts=%d len=%d): reference parser: err=%v tags=%d pending=%d", typ, ts, l, p.Err, len(p.Tags), p.Pending()), nil)
		return
	}
	if d := c11TagEq(p.Tags[0], typ, ts, data); d != "" {
		c.Violate("pack/content/"+cls, fmt.Sprintf("PackHttpflvTag(type=%d ts=%d len=%d): %s", typ, ts, l, d), nil)
	}
	// lal's own reader
	tag, err := httpflv.ReadTag(bytes.NewReader(raw))
	if err != nil || tag.Header.Type != typ || tag.Header.Timestamp != ts || int(tag.Header.DataSize) != l || !bytes.Equal(tag.Payload(), data) || !bytes.Equal(tag.Raw, raw) {
		c.Violate("pack/lal-read/"+cls, fmt.Sprintf("ReadTag of PackHttpflvTag(type=%d ts=%d len=%d): err=%v header=%+v", typ, ts, l, err, tag.Header), nil)
	}
	// remux helpers
	msg := base.RtmpMsg{Header: base.RtmpHeader{MsgLen: uint32(l), MsgTypeId: typ, MsgStreamId: 1, TimestampAbs: ts}, Payload: data}
	t2 := remux.RtmpMsg2FlvTag(msg)
	if !bytes.Equal(t2.Raw, raw) || t2.Header.Timestamp != ts || t2.Header.Type != typ {
		c.Violate("remux/rtmp2flv/"+cls, fmt.Sprintf("RtmpMsg2FlvTag differs from PackHttpflvTag (type=%d ts=%d len=%d)", typ, ts, l), nil)
	}
	back := remux.FlvTag2RtmpMsg(tag)
	if back.Header.MsgTypeId != typ || back.Header.TimestampAbs != ts || int(back.Header.MsgLen) != l || !bytes.Equal(back.Payload, data) {
		c.Violate("remux/flv2rtmp/"+cls, fmt.Sprintf("FlvTag2RtmpMsg(type=%d ts=%d len=%d) header=%+v", typ, ts, l, back.Header), nil)
	}
	// ModTagTimestamp
	nts := ts ^ 0x01000001
	tag.ModTagTimestamp(nts)
	p2 := ref.FlvParser{NoHeader: true}
	p2.Feed(tag.Raw)
	if p2.Err != nil || len(p2.Tags) != 1 || c11TagEq(p2.Tags[0], typ, nts, data) != "" {
		c.Violate("pack/mod-timestamp/"+cls, fmt.Sprintf("ModTagTimestamp(%d→%d): err=%v", ts, nts, p2.Err), nil)
	}
}

func c11Ws(c *fw.Ctx, l uint64, flags int) {
	h := base.WsHeader{Fin: flags&1 != 0, Rsv1: flags&2 != 0, Rsv2: flags&4 != 0, Rsv3: flags&8 != 0, Opcode: uint8(flags >> 4 & 15), PayloadLength: l, Masked: flags&256 != 0, MaskKey: 0xA1B2C3D4}
	b := base.MakeWsFrameHeader(h)
	c.Eval(1)
	f, err := ref.ParseWsHeader(b)
	cls := "7bit"
	if l >= 126 {
		cls = "16bit"
	}
	if l > 65535 {
		cls = "64bit"
	}
	c.Cell("wsheader/%s/masked=%v", cls, h.Masked)
	if err != nil {
		c.Violate("wsheader/parse/"+cls, fmt.Sprintf("MakeWsFrameHeader(len=%d flags=%#x): %v | % x", l, flags, err, b), nil)
		return
	}
	rsv := uint8(0)
	if h.Rsv1 {
		rsv |= 4
	}
	if h.Rsv2 {
		rsv |= 2
	}
	if h.Rsv3 {
		rsv |= 1
	}
	if f.HeaderLen != len(b) || f.PayloadLen != l || f.Fin != h.Fin || f.Rsv != rsv || f.Opcode != h.Opcode || f.Masked != h.Masked {
		c.Violate("wsheader/fields/"+cls, fmt.Sprintf("MakeWsFrameHeader(len=%d flags=%#x) parsed as %+v | % x", l, flags, f, b), nil)
	}
}

// c11Session: drive a real httpflv.SubSession over a loopback TCP pair and parse what arrives.
func c11Session(c *fw.Ctx, ws bool) {
	ln, err := net.Listen("tcp", "127.0.0.1:0")
	if err != nil {
		c.Inconclusive("listen: %v", err)
		return
	}
	defer ln.Close()
	cli, err := net.Dial("tcp", ln.Addr().String())
	if err != nil {
		c.Inconclusive("dial: %v", err)
		return
	}
	defer cli.Close()
	srv, err := ln.Accept()
	if err != nil {
		c.Inconclusive("accept: %v", err)
		return
	}
	recv := make(chan []byte, 1)
	var nrecv int64
	go func() {
		var all []byte
		buf := make([]byte, 65536)
		for {
			n, err := cli.Read(buf)
			all = append(all, buf[:n]...)
			atomic.AddInt64(&nrecv, int64(n))
			if err != nil {
				break
			}
		}
		recv <- all
	}()
	key := "dGhlIHNhbXBsZSBub25jZQ=="
	s := httpflv.NewSubSession(srv, base.UrlContext{}, ws, key)
	s.WriteHttpResponseHeader()
	s.WriteFlvHeader()
	type wt struct {
		typ  uint8
		ts   uint32
		data []byte
	}
	var want []wt
	r := c.Rng
	lens := []int{0, 1, 100, 113, 114, 115, 125 - 15, 126 - 15, 127 - 15, 128 - 15, 1000, 65535 - 15, 65536 - 15, 65537 - 15, 70000, 200000}
	n := 0
	for _, l := range lens {
		for k := 0; k < 3; k++ {
			if n%200 == 199 {
				time.Sleep(20 * time.Millisecond) // stay far below the 1024-entry write queue
			}
			typ := []uint8{8, 9, 18}[r.Intn(3)]
			ts := c11Ts[r.Intn(len(c11Ts))]
			data := c09Fill(l, uint32(n))
			want = append(want, wt{typ, ts, data})
			if k == 0 {
				s.WriteTag(remux.RtmpMsg2FlvTag(base.RtmpMsg{Header: base.RtmpHeader{MsgTypeId: typ, TimestampAbs: ts, MsgLen: uint32(l)}, Payload: data}))
			} else {
				s.Write(httpflv.PackHttpflvTag(typ, ts, data))
			}
			n++
		}
	}
	// let the async writer drain (received byte count ≥ payload bytes and stable), then close
	total := int64(0)
	for _, w := range want {
		total += int64(15 + len(w.data))
	}
	deadline := time.Now().Add(30 * time.Second)
	last := int64(-1)
	for time.Now().Before(deadline) {
		time.Sleep(100 * time.Millisecond)
		cur := atomic.LoadInt64(&nrecv)
		if cur >= total && cur == last {
			break
		}
		last = cur
	}
	s.Dispose()
	var got []byte
	select {
	case got = <-recv:
	case <-time.After(20 * time.Second):
		c.Inconclusive("loopback reader did not finish")
		return
	}
	idx := bytes.Index(got, []byte("\r\n\r\n"))
	mode := "http-flv"
	if ws {
		mode = "ws-flv"
	}
	if idx < 0 {
		c.Violate("session/"+mode+"/no-http-header", "no HTTP response header terminator", nil)
		return
	}
	head := string(got[:idx])
	body := got[idx+4:]
	if ws {
		if !strings.HasPrefix(head, "HTTP/1.1 101") || !strings.Contains(strings.ReplaceAll(head, " ", ""), "Sec-WebSocket-Accept:"+ref.WsAccept(key)) {
			c.Violate("session/ws-flv/handshake", "upgrade response lacks 101 / correct Sec-WebSocket-Accept: "+head, nil)
		}
		var wp ref.WsParser
		wp.Feed(body)
		if wp.Err != nil {
			c.Violate("session/ws-flv/frame", wp.Err.Error(), nil)
			return
		}
		var cat []byte
		for i, f := range wp.Frames {
			if !f.Fin || f.Opcode != 2 || f.Masked || f.Rsv != 0 {
				c.Violate("session/ws-flv/frame-flags", fmt.Sprintf("frame %d: fin=%v opcode=%d masked=%v rsv=%d", i, f.Fin, f.Opcode, f.Masked, f.Rsv), nil)
			}
			// each unit lal writes = one frame: frame 0 is the FLV header, frame k the k-th tag
			if i == 0 && len(f.Payload) != 13 {
				c.Violate("session/ws-flv/unit", fmt.Sprintf("first frame carries %d bytes, want the 13-byte FLV header", len(f.Payload)), nil)
			}
			if i > 0 && i-1 < len(want) && len(f.Payload) != 15+len(want[i-1].data) {
				c.Violate("session/ws-flv/unit", fmt.Sprintf("frame %d carries %d bytes, want one whole tag of %d", i, len(f.Payload), 15+len(want[i-1].data)), nil)
			}
			c.Cell("session/ws-flv/lenform=%d", f.LenForm)
			cat = append(cat, f.Payload...)
		}
		if wp.Pending() != 0 {
			c.Violate("session/ws-flv/trailing", fmt.Sprintf("%d trailing bytes that are not a whole frame", wp.Pending()), nil)
		}
		body = cat
	} else if !strings.HasPrefix(head, "HTTP/1.1 200") {
		c.Violate("session/http-flv/status", head, nil)
	}
	tags, err := ref.ParseFlvAll(body)
	c.Eval(len(tags))
	if err != nil {
		c.Violate("session/"+mode+"/flv", err.Error(), nil)
		return
	}
	if len(tags) != len(want) {
		c.Violate("session/"+mode+"/count", fmt.Sprintf("%d tags received, %d written (no back-pressure: queue 1024, %d writes)", len(tags), len(want), 2*len(want)+2), nil)
		return
	}
	for i := range want {
		if d := c11TagEq(tags[i], want[i].typ, want[i].ts, want[i].data); d != "" {
			c.Violate("session/"+mode+"/tag", fmt.Sprintf("tag %d: %s", i, d), nil)
			break
		}
	}
	c.Cell("session/%s", mode)
}

// c11File: 1–3 recordings written one after the other to the SAME path (lal names recordings
// <stream>-<unix second>.flv, so a publisher that reconnects within the second re-opens the file):
// after each, the file must be exactly that recording - also when it is shorter than its predecessor.
func c11File(c *fw.Ctx) {
	path := filepath.Join(c.Scratch, fmt.Sprintf("rec-%d.flv", c.Index))
	defer os.Remove(path)
	passes := 1 + c.Index%3
	prev := 0
	for p := 0; p < passes; p++ {
		n := 20 + c.Rng.Intn(200)
		if p > 0 && c.Rng.Intn(3) != 0 {
			n = 1 + c.Rng.Intn(prev) // shorter than the recording it replaces
		}
		if !c11FileOnce(c, path, n, p) {
			return
		}
		prev = n
	}
}

func c11FileOnce(c *fw.Ctx, path string, n int, pass int) bool {
	r := c.Rng
	var w httpflv.FlvFileWriter
	if err := w.Open(path); err != nil {
		c.Inconclusive("open: %v", err)
		return false
	}
	w.WriteFlvHeader()
	type wt struct {
		typ  uint8
		ts   uint32
		data []byte
	}
	var want []wt
	for i := 0; i < n; i++ {
		typ := []uint8{8, 9, 18}[r.Intn(3)]
		ts := c11Ts[r.Intn(len(c11Ts))]
		if r.Intn(2) == 0 {
			ts = r.Uint32()
		}
		l := []int{0, 1, 5, 100, 4096, 65535, 65536, 70000}[r.Intn(8)]
		if r.Intn(3) == 0 {
			l = r.Intn(3000)
		}
		data := c09Fill(l, uint32(i))
		want = append(want, wt{typ, ts, data})
		switch i % 3 {
		case 0:
			w.WriteRaw(httpflv.PackHttpflvTag(typ, ts, data))
		case 1:
			w.WriteTag(*remux.RtmpMsg2FlvTag(base.RtmpMsg{Header: base.RtmpHeader{MsgTypeId: typ, TimestampAbs: ts, MsgLen: uint32(l)}, Payload: data}))
		default:
			var lz remux.LazyRtmpMsg2FlvTag
			lz.Init(base.RtmpMsg{Header: base.RtmpHeader{MsgTypeId: typ, TimestampAbs: ts, MsgLen: uint32(l)}, Payload: data})
			if typ == 18 {
				// metadata goes through the @setDataFrame strip: give it a leading string
				md := ref.AmfEncodeAll(ref.AmfStr("@setDataFrame"), ref.AmfStr("onMetaData"), ref.AmfObj(ref.AmfPair{Key: "n", Val: ref.AmfNum(float64(i))}))
				lz.Init(base.RtmpMsg{Header: base.RtmpHeader{MsgTypeId: typ, TimestampAbs: ts, MsgLen: uint32(len(md))}, Payload: md})
				want[len(want)-1].data = md[16:]
			}
			w.WriteRaw(lz.GetEnsureWithoutSdf())
		}
	}
	w.Dispose()
	b, _ := os.ReadFile(path)
	tags, err := ref.ParseFlvAll(b)
	c.Eval(len(tags))
	if err != nil {
		c.Violate("file/ref-parse", fmt.Sprintf("recording %d written to the same path (%d tags): %v", pass+1, n, err), nil)
		return false
	}
	if len(tags) != len(want) {
		c.Violate("file/count", fmt.Sprintf("recording %d written to the same path: %d tags in file, %d written", pass+1, len(tags), len(want)), nil)
		return false
	}
	for i := range want {
		if d := c11TagEq(tags[i], want[i].typ, want[i].ts, want[i].data); d != "" {
			c.Violate("file/tag", fmt.Sprintf("tag %d: %s", i, d), nil)
			return false
		}
	}
	// lal's reader
	var rd httpflv.FlvFileReader
	if err := rd.Open(path); err != nil {
		c.Violate("file/lal-open", err.Error(), nil)
		return false
	}
	defer rd.Dispose()
	if pass%2 == 1 || len(want)%2 == 1 {
		// the two-step use of the reader (lal's own flv tools): header first, then tags
		h, err := rd.ReadFlvHeader()
		if err != nil || len(h) != 13 || !bytes.Equal(h[:3], []byte("FLV")) {
			c.Violate("file/lal-read-header", fmt.Sprintf("FlvFileReader.ReadFlvHeader: err=%v header=% x", err, h), nil)
			return false
		}
		c.Count("files_read_header_first", 1)
	}
	for i := range want {
		t, err := rd.ReadTag()
		if err != nil || t.Header.Type != want[i].typ || t.Header.Timestamp != want[i].ts || !bytes.Equal(t.Payload(), want[i].data) {
			c.Violate("file/lal-read", fmt.Sprintf("FlvFileReader tag %d: err=%v header=%+v", i, err, t.Header), nil)
			return false
		}
	}
	if _, err := rd.ReadTag(); err != io.EOF {
		c.Violate("file/lal-eof", fmt.Sprintf("FlvFileReader after last tag of recording %d on the same path: %v", pass+1, err), nil)
		return false
	}
	if pass == 0 {
		c.Cell("file/roundtrip")
	} else {
		c.Cell("file/roundtrip/path-reused")
	}
	_ = bufio.NewReader
	return true
}

func c11Storms(tier string) int {
	if tier == "thorough" {
		return 16
	}
	return 4
}

// c11JoinStorm: whole server, a publisher that sends back to back, and HTTP-FLV / WS-FLV players
// joining at arbitrary instants of the broadcast. Whatever the interleaving, the first bytes a
// player reads are the HTTP status line, and the first body bytes (first WebSocket payload) are the
// 9-byte FLV header and the zero back-pointer.
func c11JoinStorm(c *fw.Ctx, k int) {
	root := filepath.Join(c.Scratch, fmt.Sprintf("c11storm-%d", c.Index))
	os.MkdirAll(root, 0755)
	defer os.RemoveAll(root)
	s, err := srv.Start(srv.Conf{Flv: true, FlvGop: k % 3, RtmpGop: k % 2}, root)
	if err != nil {
		c.Inconclusive("server start: %v", err)
		return
	}
	defer s.Stop()
	name := fmt.Sprintf("storm%d", c.Index)
	pr, err := ref.StartRtmpPublisher(s.RtmpAddr(), "live", name, 5*time.Second)
	if err != nil {
		c.Inconclusive("publisher: %v", err)
		return
	}
	defer pr.Close()
	msgs := gen.Build(c.SubRng("storm"), 1, gen.Shape{Name: "storm", Video: true, Audio: true, Meta: true, Gops: 100, GopLen: 5, AudioPerVid: 1, Sizes: []int{60, 200, 900}})
	var stop int32
	pubDone := make(chan struct{})
	pace := []time.Duration{0, 0, 50 * time.Microsecond, 300 * time.Microsecond}[k%4]
	go func() {
		defer close(pubDone)
		span := msgs[len(msgs)-1].Ts + 40
		for cycle := uint32(0); cycle < 200; cycle++ {
			for k, m := range msgs {
				if atomic.LoadInt32(&stop) != 0 {
					return
				}
				if cycle > 0 && !m.IsMedia() && (int(cycle)+k)%3 != 0 {
					continue // header messages keep coming now and then (players waiting for a key frame get them at once)
				}
				if pr.RC.Send(ref.RtmpMsg{Csid: csidFor(m.Type), TypeID: m.Type, StreamID: pr.Msid, Ts: m.Ts + cycle*span, Payload: m.Payload}, 0) != nil {
					return
				}
				if pace > 0 {
					time.Sleep(pace)
				} else if k%64 == 63 {
					runtime.Gosched()
				}
			}
		}
	}()
	joins := 0
	for n := 0; n < 400; n++ {
		select {
		case <-pubDone:
			n = 400
			continue
		default:
		}
		ws := n%2 == 1
		conn, err := net.DialTimeout("tcp", s.HttpAddr(), 2*time.Second)
		if err != nil {
			continue
		}
		req := "GET /live/" + name + ".flv HTTP/1.1\r\nHost: x\r\n"
		if ws {
			// browsers differ in the Connection header list (Firefox sends "keep-alive, Upgrade")
			connHdr := []string{"Upgrade", "keep-alive, Upgrade", "Upgrade, keep-alive"}[(n/2)%3]
			req += "Upgrade: websocket\r\nConnection: " + connHdr + "\r\nSec-WebSocket-Key: dGhlIHNhbXBsZSBub25jZQ==\r\nSec-WebSocket-Version: 13\r\n"
		}
		conn.Write([]byte(req + "\r\n"))
		var got []byte
		buf := make([]byte, 8192)
		conn.SetReadDeadline(time.Now().Add(700 * time.Millisecond))
		for len(got) < 1500 {
			m, e := conn.Read(buf)
			got = append(got, buf[:m]...)
			if e != nil {
				break
			}
		}
		conn.Close()
		if len(got) < 9 {
			continue // nothing (or next to nothing) arrived in time: nothing to judge
		}
		joins++
		c.Eval(1)
		kind := map[bool]string{false: "http-flv", true: "ws-flv"}[ws]
		c.Cell("join-storm/%s/pace=%v", kind, pace)
		if !bytes.HasPrefix(got, []byte("HTTP/1.1 ")) {
			c.Violate("join/bytes-before-http-header/"+kind, fmt.Sprintf("join %d: the response does not start with the HTTP status line: first bytes %q", n, got[:min(len(got), 40)]), nil)
			return
		}
		he := bytes.Index(got, []byte("\r\n\r\n"))
		if he < 0 {
			continue
		}
		if ws && !bytes.HasPrefix(got, []byte("HTTP/1.1 101")) {
			c.Violate("join/ws-upgrade-refused/"+kind, fmt.Sprintf("join %d: a WebSocket upgrade request was answered with %q", n, got[:min(len(got), 30)]), nil)
			return
		}
		body := got[he+4:]
		if ws {
			var wp ref.WsParser
			wp.Feed(body)
			if wp.Err != nil {
				c.Violate("join/ws-frame/"+kind, fmt.Sprintf("join %d: first WebSocket frames do not parse: %v", n, wp.Err), nil)
				return
			}
			body = nil
			for _, f := range wp.Frames {
				body = append(body, f.Payload...)
			}
		}
		if len(body) >= 13 && !bytes.Equal(body[:13], []byte{'F', 'L', 'V', 1, body[4], 0, 0, 0, 9, 0, 0, 0, 0}) {
			c.Violate("join/flv-header-not-first/"+kind, fmt.Sprintf("join %d: the body does not start with the FLV header and the zero back-pointer: % x", n, body[:13]), nil)
			return
		}
		if len(body) >= 13 {
			// every complete tag that arrived: type 8/9/18, stream id 0, back-pointer = 11 + data size
			off := 13
			for off+11 <= len(body) {
				ds := int(body[off+1])<<16 | int(body[off+2])<<8 | int(body[off+3])
				if t := body[off]; (t != 8 && t != 9 && t != 18) || body[off+8] != 0 || body[off+9] != 0 || body[off+10] != 0 {
					c.Violate("join/flv-tag/"+kind, fmt.Sprintf("join %d: at body offset %d: not an FLV tag header: % x", n, off, body[off:off+11]), nil)
					return
				}
				if off+11+ds+4 > len(body) {
					break
				}
				if bp := int(body[off+11+ds])<<24 | int(body[off+12+ds])<<16 | int(body[off+13+ds])<<8 | int(body[off+14+ds]); bp != 11+ds {
					c.Violate("join/flv-tag/"+kind, fmt.Sprintf("join %d: tag at body offset %d (data size %d) is followed by back-pointer %d", n, off, ds, bp), nil)
					return
				}
				off += 11 + ds + 4
			}
		}
	}
	atomic.StoreInt32(&stop, 1)
	<-pubDone
	c.Count("storm_joins_judged", joins)
	if joins < 20 {
		c.Inconclusive("only %d joins produced data", joins)
	}
}

func c11Sizes(tier string) (nPack, nFile, nSess int) {
	if tier == "thorough" {
		return 64, 64, 16
	}
	return 32, 8, 4
}

func init() {
	fw.Register(&fw.Prop{
		ID: "C11",
		NumCases: func(tier string, seed int64) int {
			a, b, s := c11Sizes(tier)
			return a + b + s + 1 + c11Storms(tier)
		},
		CaseTimeout: func(string) time.Duration { return 5 * time.Minute },
		Rule: "PackHttpflvTag / RtmpMsg2FlvTag / FlvTag2RtmpMsg / ModTagTimestamp / ReadTag for tag types 8,9,18 × lengths (all 0..4200, strided to 70000, boundaries to 2^24−1) × timestamps across the 24-bit boundary and up to 2^32−1, parsed by a strict FLV parser; FlvFileWriter→file→strict parser and FlvFileReader, incl. 2–3 recordings written to the same path one after the other (later ones shorter); MakeWsFrameHeader for every length 0..70000 and 2^16±1, 2^31, 2^32, 2^63−1 × flag combinations parsed by an RFC 6455 parser; real httpflv.SubSession (plain and WebSocket) over loopback TCP with tag sizes around 125/126/127 and 65535/65536; whole-server join storms: up to 400 HTTP-FLV / WS-FLV players joining while a publisher sends back to back (or 50/300 µs apart) — status line first, FLV header and zero back-pointer first in the body. cell = API × length class × timestamp class.",
		Assumptions: []string{"ref/flv.go and ref/ws.go are strict parsers written from the specifications", "loopback session writes stay far below the 1024-entry queue (no back-pressure)"},
		MinCells: 12,
		Run: func(c *fw.Ctx, i int) {
			nP, nF, nS := c11Sizes(c.Tier)
			switch {
			case i < nP:
				// slice of the length grid
				var lens []int
				for l := 0; l <= 4200; l++ {
					lens = append(lens, l)
				}
				stride := 7
				if c.Tier == "thorough" {
					stride = 1
				}
				for l := 4201; l <= 70000; l += stride {
					lens = append(lens, l)
				}
				lens = append(lens, 65534, 65535, 65536, 65537, 1<<20, 1<<24-1)
				k := 0
				for _, l := range lens {
					k++
					if k%nP != i {
						continue
					}
					for _, typ := range []uint8{8, 9, 18} {
						ts := c11Ts[(k+int(typ))%len(c11Ts)]
						c11PackOne(c, typ, ts, l)
						if l < 300 {
							for _, ts2 := range c11Ts {
								c11PackOne(c, typ, ts2, l)
							}
						}
					}
				}
				c.Sample(map[string]interface{}{"kind": "pack-grid-slice", "slice": i, "of": nP})
			case i < nP+nF:
				c.Describe("flv file round trip")
				c11File(c)
				c.Sample(map[string]interface{}{"kind": "file-roundtrip"})
			case i < nP+nF+nS:
				ws := (i-nP-nF)%2 == 1
				c.Describe("loopback session ws=%v", ws)
				c11Session(c, ws)
				c.Sample(map[string]interface{}{"kind": "loopback-session", "websocket": ws})
			case i >= nP+nF+nS+1:
				c.Describe("join storm %d", i-(nP+nF+nS+1))
				c11JoinStorm(c, i-(nP+nF+nS+1))
			default:
				c.Describe("ws header grid")
				for l := uint64(0); l <= 70000; l++ {
					c11Ws(c, l, 1|2<<4)
					if l < 200 || l%1000 < 3 || (l > 65500 && l < 65600) {
						for fl := 0; fl < 512; fl += 7 {
							c11Ws(c, l, fl)
						}
					}
				}
				for _, l := range []uint64{1<<16 - 1, 1 << 16, 1<<16 + 1, 1 << 31, 1 << 32, 1<<63 - 1} {
					for fl := 0; fl < 512; fl++ {
						c11Ws(c, l, fl)
					}
				}
				c.Sample(map[string]interface{}{"kind": "ws-header-grid", "lengths": "0..70000 + 2^16±1, 2^31, 2^32, 2^63-1"})
			}
		},
	})
}
