package props

import (
	"bytes"
	"encoding/base64"
	"encoding/hex"
	"fmt"
	"math/rand"
	"path/filepath"
	"strings"
	"sync"
	"time"

	"github.com/q191201771/lal/pkg/aac"
	"github.com/q191201771/lal/pkg/avc"
	"github.com/q191201771/lal/pkg/base"
	"github.com/q191201771/lal/pkg/hevc"
	"github.com/q191201771/lal/pkg/remux"
	"github.com/q191201771/lal/pkg/rtprtcp"
	"github.com/q191201771/lal/pkg/sdp"

	"lalverif/fw"
	"lalverif/gen"
	"lalverif/ref"
	"lalverif/srv"
)

// C19 — codec configuration survives every re-encoding; SDP and SPS info are right.
//
// Generated inputs are pushed through lal's real conversion functions; an oracle compares the
// outputs with the input bytes (or with the ground truth of a bit-exact SPS encoder model).
// Picture dimensions are read where lal reports them: the stat of a stream whose sequence
// header was fed through the customize-publisher API of a running server.

// ---- bit writer / H.264 / H.265 SPS encoder model

type bitW struct {
	b    []byte
	nbit int
}

func (w *bitW) u(n int, v uint64) {
	for k := n - 1; k >= 0; k-- {
		if w.nbit%8 == 0 {
			w.b = append(w.b, 0)
		}
		if v>>uint(k)&1 == 1 {
			w.b[len(w.b)-1] |= 1 << uint(7-w.nbit%8)
		}
		w.nbit++
	}
}

func (w *bitW) ue(v uint64) {
	x := v + 1
	n := 0
	for t := x; t > 1; t >>= 1 {
		n++
	}
	w.u(n, 0)
	w.u(n+1, x)
}

func (w *bitW) se(v int64) {
	if v > 0 {
		w.ue(uint64(2*v - 1))
	} else {
		w.ue(uint64(-2 * v))
	}
}

func (w *bitW) trailing() []byte {
	w.u(1, 1)
	for w.nbit%8 != 0 {
		w.u(1, 0)
	}
	return w.b
}

// escape inserts emulation-prevention bytes.
func epbEscape(rbsp []byte) []byte {
	var out []byte
	z := 0
	for _, x := range rbsp {
		if z >= 2 && x <= 3 {
			out = append(out, 3)
			z = 0
		}
		out = append(out, x)
		if x == 0 {
			z++
		} else {
			z = 0
		}
	}
	return out
}

type spsTruth struct {
	W, H   int
	Desc   string
	HasEpb bool
}

var avcHighProfiles = []int{100, 110, 122, 244, 44, 83, 86, 118, 128, 138, 139, 134, 135}
var avcPlainProfiles = []int{66, 77, 88}

func c19AvcSps(r *rand.Rand) ([]byte, spsTruth) {
	w := &bitW{}
	var profile int
	high := r.Intn(2) == 0
	if high {
		profile = avcHighProfiles[r.Intn(len(avcHighProfiles))]
	} else {
		profile = avcPlainProfiles[r.Intn(len(avcPlainProfiles))]
	}
	w.u(8, uint64(profile))
	w.u(8, uint64(r.Intn(256))&0xfc)
	w.u(8, uint64([]int{10, 11, 12, 13, 20, 21, 22, 30, 31, 32, 40, 41, 42, 50, 51, 52}[r.Intn(16)]))
	w.ue(uint64(r.Intn(32)))
	chroma, sep := 1, 0
	scaling := false
	if high {
		chroma = r.Intn(4)
		w.ue(uint64(chroma))
		if chroma == 3 {
			sep = r.Intn(2)
			w.u(1, uint64(sep))
		}
		w.ue(uint64(r.Intn(7)))
		w.ue(uint64(r.Intn(7)))
		w.u(1, uint64(r.Intn(2)))
		scaling = r.Intn(3) == 0
		w.u(1, b2u(scaling))
		if scaling {
			n := 8
			if chroma == 3 {
				n = 12
			}
			for i := 0; i < n; i++ {
				present := r.Intn(2) == 0
				w.u(1, b2u(present))
				if !present {
					continue
				}
				size := 16
				if i >= 6 {
					size = 64
				}
				last, next := 8, 8
				for j := 0; j < size; j++ {
					if next != 0 {
						d := r.Intn(41) - 20
						if r.Intn(20) == 0 {
							d = -last // ends the explicit list
						}
						w.se(int64(d))
						next = (last + d + 256) % 256
					}
					if next != 0 {
						last = next
					}
				}
			}
		}
	}
	w.ue(uint64(r.Intn(13)))
	poc := r.Intn(3)
	w.ue(uint64(poc))
	switch poc {
	case 0:
		w.ue(uint64(r.Intn(13)))
	case 1:
		w.u(1, uint64(r.Intn(2)))
		big := r.Intn(4) == 0
		off := func() int64 {
			if big {
				return int64(r.Intn(1<<30)) - (1 << 29)
			}
			return int64(r.Intn(200)) - 100
		}
		w.se(off())
		w.se(off())
		n := r.Intn(6)
		if r.Intn(10) == 0 {
			n = 50 + r.Intn(200)
		}
		w.ue(uint64(n))
		for k := 0; k < n; k++ {
			w.se(off())
		}
	}
	w.ue(uint64(r.Intn(17)))
	w.u(1, uint64(r.Intn(2)))
	wmb := 1 + r.Intn(512)
	if r.Intn(3) == 0 {
		wmb = []int{1, 11, 20, 22, 40, 45, 80, 120, 240, 512}[r.Intn(10)]
	}
	hmu := 1 + r.Intn(288)
	if r.Intn(3) == 0 {
		hmu = []int{1, 9, 15, 18, 30, 34, 45, 68, 135, 288}[r.Intn(10)]
	}
	w.ue(uint64(wmb - 1))
	w.ue(uint64(hmu - 1))
	frameOnly := 1
	if r.Intn(4) == 0 {
		frameOnly = 0
	}
	w.u(1, uint64(frameOnly))
	if frameOnly == 0 {
		w.u(1, uint64(r.Intn(2)))
	}
	w.u(1, uint64(r.Intn(2)))
	width := wmb * 16
	height := (2 - frameOnly) * hmu * 16
	cat := chroma
	if sep == 1 {
		cat = 0
	}
	cux, cuy := 1, 2-frameOnly
	switch cat {
	case 1:
		cux, cuy = 2, 2*(2-frameOnly)
	case 2:
		cux, cuy = 2, 2-frameOnly
	}
	crop := r.Intn(2) == 0
	w.u(1, b2u(crop))
	var cl, cr, ct, cb int
	if crop {
		cl, cr = r.Intn(4), r.Intn(8)
		ct, cb = r.Intn(4), r.Intn(8)
		for cux*(cl+cr) >= width {
			cl, cr = cl/2, cr/2
		}
		for cuy*(ct+cb) >= height {
			ct, cb = ct/2, cb/2
		}
		w.ue(uint64(cl))
		w.ue(uint64(cr))
		w.ue(uint64(ct))
		w.ue(uint64(cb))
		width -= cux * (cl + cr)
		height -= cuy * (ct + cb)
	}
	vui := r.Intn(2) == 0
	w.u(1, b2u(vui))
	if vui {
		w.u(1, 0) // aspect_ratio_info_present_flag
		w.u(1, 0) // overscan_info_present_flag
		w.u(1, 0) // video_signal_type_present_flag
		w.u(1, 0) // chroma_loc_info_present_flag
		timing := r.Intn(2) == 0
		w.u(1, b2u(timing))
		if timing {
			w.u(32, uint64([]int{1, 1000, 1001}[r.Intn(3)]))
			w.u(32, uint64([]int{50, 60, 30000, 60000}[r.Intn(4)]))
			w.u(1, 1)
		}
		w.u(1, 0) // nal_hrd
		w.u(1, 0) // vcl_hrd
		w.u(1, 0) // pic_struct_present_flag
		w.u(1, 0) // bitstream_restriction_flag
	}
	rbsp := w.trailing()
	esc := epbEscape(rbsp)
	nal := append([]byte{0x67}, esc...)
	return nal, spsTruth{W: width, H: height, HasEpb: len(esc) != len(rbsp),
		Desc: fmt.Sprintf("profile=%d chroma_format_idc=%d separate_colour_plane=%d scaling_lists=%v poc_type=%d %dx%d mbs/map-units frame_mbs_only=%d crop=%v(l%d r%d t%d b%d) vui=%v", profile, chroma, sep, scaling, poc, wmb, hmu, frameOnly, crop, cl, cr, ct, cb, vui)}
}

func b2u(b bool) uint64 {
	if b {
		return 1
	}
	return 0
}

func c19HevcSps(r *rand.Rand) ([]byte, spsTruth) {
	w := &bitW{}
	w.u(4, 0)
	// temporal sub-layers (two or three are common with hierarchical-P / SVC-T encoders)
	m := 0
	if r.Intn(3) == 0 {
		m = 1 + r.Intn(6)
	}
	w.u(3, uint64(m)) // sps_max_sub_layers_minus1
	w.u(1, 1)
	// profile_tier_level(1, 0)
	w.u(2, 0)
	w.u(1, uint64(r.Intn(2)))
	w.u(5, uint64(1+r.Intn(2)))
	w.u(32, 0x60000000)
	w.u(1, 1)
	w.u(1, 0)
	w.u(1, 0)
	w.u(1, 1)
	w.u(32, 0)
	w.u(11, 0)
	w.u(1, 0)
	w.u(8, uint64([]int{30, 60, 63, 90, 93, 120, 123, 150, 153}[r.Intn(9)]))
	// sub-layer part of profile_tier_level (H.265 7.3.3)
	var subProf, subLev []bool
	for i := 0; i < m; i++ {
		subProf = append(subProf, r.Intn(2) == 0)
		subLev = append(subLev, r.Intn(2) == 0)
		w.u(1, b2u(subProf[i]))
		w.u(1, b2u(subLev[i]))
	}
	if m > 0 {
		for i := m; i < 8; i++ {
			w.u(2, 0)
		}
	}
	for i := 0; i < m; i++ {
		if subProf[i] {
			w.u(2, 0)
			w.u(1, uint64(r.Intn(2)))
			w.u(5, uint64(1+r.Intn(2)))
			w.u(32, uint64(r.Uint32()))
			w.u(4, uint64(r.Intn(16)))
			w.u(32, uint64(r.Uint32()))
			w.u(11, uint64(r.Intn(2048)))
			w.u(1, uint64(r.Intn(2)))
		}
		if subLev[i] {
			w.u(8, uint64([]int{30, 60, 63, 90, 93, 120, 123, 150, 153, 0x55, 0xaa, 0xfd}[r.Intn(12)]))
		}
	}
	w.ue(uint64(r.Intn(16)))
	chroma := r.Intn(4)
	if r.Intn(2) == 0 {
		chroma = 1
	}
	w.ue(uint64(chroma))
	sep := 0
	if chroma == 3 {
		sep = r.Intn(2)
		w.u(1, uint64(sep))
	}
	width := 8 * (1 + r.Intn(1024))
	height := 8 * (1 + r.Intn(540))
	if r.Intn(3) == 0 {
		width, height = []int{176, 352, 640, 1280, 1920, 3840, 7680}[r.Intn(7)], []int{144, 288, 360, 720, 1088, 2160, 4320}[r.Intn(7)]
	}
	w.ue(uint64(width))
	w.ue(uint64(height))
	sw, sh := 1, 1
	if sep == 0 {
		switch chroma {
		case 1:
			sw, sh = 2, 2
		case 2:
			sw, sh = 2, 1
		}
	}
	cw := r.Intn(2) == 0
	w.u(1, b2u(cw))
	var l, rr, t, b int
	if cw {
		l, rr, t, b = r.Intn(3), r.Intn(6), r.Intn(3), r.Intn(6)
		for sw*(l+rr) >= width {
			l, rr = l/2, rr/2
		}
		for sh*(t+b) >= height {
			t, b = t/2, b/2
		}
		w.ue(uint64(l))
		w.ue(uint64(rr))
		w.ue(uint64(t))
		w.ue(uint64(b))
	}
	w.ue(uint64(r.Intn(3)))
	w.ue(uint64(r.Intn(3)))
	w.ue(uint64(r.Intn(13)))
	ordPresent := m == 0 || r.Intn(2) == 0
	w.u(1, b2u(ordPresent)) // sps_sub_layer_ordering_info_present_flag
	first := m
	if ordPresent {
		first = 0
	}
	for i := first; i <= m; i++ {
		w.ue(uint64(1 + r.Intn(5)))
		w.ue(uint64(r.Intn(3)))
		w.ue(uint64(r.Intn(3)))
	}
	w.ue(0)
	w.ue(uint64(r.Intn(4)))
	w.ue(0)
	w.ue(uint64(r.Intn(4)))
	w.ue(uint64(r.Intn(4)))
	w.ue(uint64(r.Intn(4)))
	w.u(1, 0) // scaling_list_enabled_flag
	w.u(1, uint64(r.Intn(2)))
	w.u(1, uint64(r.Intn(2)))
	w.u(1, 0) // pcm_enabled_flag
	w.ue(0)   // num_short_term_ref_pic_sets
	w.u(1, 0)
	w.u(1, uint64(r.Intn(2)))
	w.u(1, uint64(r.Intn(2)))
	w.u(1, 0) // vui
	w.u(1, 0) // extension
	rbsp := w.trailing()
	esc := epbEscape(rbsp)
	nal := append([]byte{0x42, 0x01}, esc...)
	return nal, spsTruth{W: width - sw*(l+rr), H: height - sh*(t+b), HasEpb: len(esc) != len(rbsp),
		Desc: fmt.Sprintf("chroma_format_idc=%d separate_colour_plane=%d pic=%dx%d conformance_window=%v(l%d r%d t%d b%d)", chroma, sep, width, height, cw, l, rr, t, b)}
}

// ---- parameter-set generators

// c19ParamSet: a NAL-like byte string of length n with the given header; no start-code emulation
// (zero runs are broken by emulation-prevention bytes, as in a real stream).
func c19ParamSet(r *rand.Rand, hdr []byte, n int) []byte {
	if n < len(hdr) {
		n = len(hdr)
	}
	b := append([]byte(nil), hdr...)
	for len(b) < n {
		switch r.Intn(12) {
		case 0:
			if len(b)+3 <= n {
				b = append(b, 0, 0, 3) // escaped zero run
				continue
			}
			fallthrough
		default:
			b = append(b, byte(1+r.Intn(255)))
		}
	}
	// a NAL never ends with a zero byte
	return b
}

// c19Cut truncates a NAL to n bytes; a NAL never ends with 0x00, so trailing zeros go too.
func c19Cut(b []byte, n int) []byte {
	b = b[:n]
	for len(b) > 1 && b[len(b)-1] == 0 {
		b = b[:len(b)-1]
	}
	return b
}

func c19Len(r *rand.Rand) int {
	switch r.Intn(6) {
	case 0:
		return []int{4, 5, 8, 16, 254, 255, 256, 257, 1023, 1024, 4095, 4096, 4097, 65534, 65535}[r.Intn(15)]
	case 1:
		return 4 + r.Intn(65532)
	default:
		return 4 + r.Intn(200)
	}
}

type c19Judge struct {
	c    *fw.Ctx
	kind string
}

func (j *c19Judge) bad(sig, format string, a ...interface{}) {
	j.c.Violate(j.kind+"/"+sig, fmt.Sprintf(format, a...), nil)
}

func hx(b []byte) string {
	if len(b) > 24 {
		return fmt.Sprintf("%s…(%d bytes)", hex.EncodeToString(b[:24]), len(b))
	}
	return hex.EncodeToString(b)
}

// ---- groups

func c19AvcSeqHeader(c *fw.Ctx, n int) {
	r := c.Rng
	j := &c19Judge{c, "avc-seq-header"}
	c.Cell("avc-seq-header")
	for k := 0; k < n && !c.Violated(); k++ {
		c.Sub(k)
		var sps, pps []byte
		if k%3 == 0 {
			sps, _ = c19AvcSps(r)
			if r.Intn(2) == 0 {
				sps = append(sps, c19ParamSet(r, nil, r.Intn(30))...)
			}
		} else if k%3 == 1 && k%2 == 0 {
			// a model SPS cut short: exact round trip or explicit error, never a crash
			sps, _ = c19AvcSps(r)
			sps = c19Cut(sps, 1+r.Intn(len(sps)))
		} else {
			sps = c19ParamSet(r, []byte{0x67, byte(66 + r.Intn(60)), byte(r.Intn(256)), byte(10 + r.Intn(42))}, c19Len(r))
		}
		pps = c19ParamSet(r, []byte{0x68}, 1+c19Len(r)%3000)
		if k%50 == 7 {
			pps = c19ParamSet(r, []byte{0x68}, c19Len(r))
		}
		c.Eval(1)
		sh, err := avc.BuildSeqHeaderFromSpsPps(sps, pps)
		if err != nil {
			c.Count("explicit_errors", 1)
			continue
		}
		s2, p2, err := avc.ParseSpsPpsFromSeqHeader(sh)
		if err != nil {
			j.bad("parse-own-output", "BuildSeqHeaderFromSpsPps(sps %s, pps %s) succeeded but ParseSpsPpsFromSeqHeader fails on it: %v", hx(sps), hx(pps), err)
			return
		}
		if !bytes.Equal(s2, sps) || !bytes.Equal(p2, pps) {
			j.bad("roundtrip", "sequence header round trip changed the parameter sets: sps %s → %s, pps %s → %s", hx(sps), hx(s2), hx(pps), hx(p2))
			return
		}
		s3, p3, err := avc.ParseSpsPpsFromSeqHeaderWithoutMalloc(sh)
		if err != nil || !bytes.Equal(s3, sps) || !bytes.Equal(p3, pps) {
			j.bad("roundtrip-nomalloc", "ParseSpsPpsFromSeqHeaderWithoutMalloc: err=%v sps %s → %s", err, hx(sps), hx(s3))
			return
		}
		ab, err := avc.SpsPpsSeqHeader2Annexb(sh)
		want := append(append(append([]byte{0, 0, 0, 1}, sps...), 0, 0, 0, 1), pps...)
		if err != nil || !bytes.Equal(ab, want) {
			j.bad("annexb", "SpsPpsSeqHeader2Annexb: err=%v, %d bytes, expected start code+sps+start code+pps (%d bytes)", err, len(ab), len(want))
			return
		}
		if nl, e := ref.SplitAnnexB(ab); e != nil || len(nl) != 2 || !bytes.Equal(nl[0], sps) || !bytes.Equal(nl[1], pps) {
			j.bad("annexb-split", "reference Annex-B splitter on lal's output: err=%v, %d units", e, len(nl))
			return
		}
		if ab2 := avc.BuildSpsPps2Annexb(sps, pps); !bytes.Equal(ab2, want) {
			j.bad("annexb-build", "BuildSpsPps2Annexb differs from start code+sps+start code+pps")
			return
		}
	}
}

func c19HevcSeqHeader(c *fw.Ctx, n int) {
	r := c.Rng
	j := &c19Judge{c, "hevc-seq-header"}
	c.Cell("hevc-seq-header")
	for k := 0; k < n && !c.Violated(); k++ {
		c.Sub(k)
		vps := append([]byte(nil), gen.HevcVps...)
		sps, _ := c19HevcSps(r)
		if k%4 == 0 {
			sps = append([]byte(nil), gen.HevcSps...)
		}
		if k%5 == 1 {
			sps = c19Cut(sps, 2+r.Intn(len(sps)-1)) // cut short
		}
		if k%11 == 2 {
			vps = c19Cut(vps, 2+r.Intn(len(vps)-1))
		}
		pps := c19ParamSet(r, []byte{0x44, 0x01}, 2+c19Len(r)%2000)
		if k%40 == 3 {
			pps = c19ParamSet(r, []byte{0x44, 0x01}, c19Len(r))
		}
		if k%7 == 0 {
			vps = append(vps, c19ParamSet(r, nil, r.Intn(40))...)
		}
		c.Eval(1)
		sh, err := hevc.BuildSeqHeaderFromVpsSpsPps(vps, sps, pps)
		if err != nil {
			c.Count("explicit_errors", 1)
			continue
		}
		v2, s2, p2, err := hevc.ParseVpsSpsPpsFromSeqHeader(sh)
		if err != nil {
			j.bad("parse-own-output", "BuildSeqHeaderFromVpsSpsPps succeeded but ParseVpsSpsPpsFromSeqHeader fails on it: %v (vps %s sps %s pps %s)", err, hx(vps), hx(sps), hx(pps))
			return
		}
		if !bytes.Equal(v2, vps) || !bytes.Equal(s2, sps) || !bytes.Equal(p2, pps) {
			j.bad("roundtrip", "sequence header round trip changed the parameter sets: vps %s → %s, sps %s → %s, pps %s → %s", hx(vps), hx(v2), hx(sps), hx(s2), hx(pps), hx(p2))
			return
		}
		ab, err := hevc.VpsSpsPpsSeqHeader2Annexb(sh)
		var want []byte
		for _, x := range [][]byte{vps, sps, pps} {
			want = append(append(want, 0, 0, 0, 1), x...)
		}
		if err != nil || !bytes.Equal(ab, want) {
			j.bad("annexb", "VpsSpsPpsSeqHeader2Annexb: err=%v, %d bytes, expected %d", err, len(ab), len(want))
			return
		}
		if ab2, e := hevc.BuildVpsSpsPps2Annexb(vps, sps, pps); e != nil || !bytes.Equal(ab2, want) {
			j.bad("annexb-build", "BuildVpsSpsPps2Annexb: err=%v", e)
			return
		}
		// enhanced-RTMP header: same record after the 5-byte tag header
		enh := append([]byte{0x90, 'h', 'v', 'c', '1'}, sh[5:]...)
		v3, s3, p3, err := hevc.ParseVpsSpsPpsFromEnhancedSeqHeader(enh)
		if err != nil || !bytes.Equal(v3, vps) || !bytes.Equal(s3, sps) || !bytes.Equal(p3, pps) {
			j.bad("roundtrip-enhanced", "ParseVpsSpsPpsFromEnhancedSeqHeader: err=%v", err)
			return
		}
	}
}

func c19Framing(c *fw.Ctx, n int) {
	r := c.Rng
	j := &c19Judge{c, "framing"}
	c.Cell("framing")
	for k := 0; k < n && !c.Violated(); k++ {
		c.Sub(k)
		nn := r.Intn(6)
		if k%10 == 0 {
			nn = 1 + r.Intn(40)
		}
		var nals [][]byte
		for x := 0; x < nn; x++ {
			l := 1 + r.Intn(300)
			if r.Intn(20) == 0 {
				l = 60000 + r.Intn(80000)
			}
			nals = append(nals, c19ParamSet(r, []byte{byte(1 + r.Intn(31))}, l))
		}
		c.Eval(1)
		// AVCC → Annex-B
		var avcc []byte
		for _, x := range nals {
			avcc = append(avcc, byte(len(x)>>24), byte(len(x)>>16), byte(len(x)>>8), byte(len(x)))
			avcc = append(avcc, x...)
		}
		if len(nals) > 0 {
			ab, err := avc.Avcc2Annexb(avcc)
			if err != nil {
				j.bad("avcc2annexb-error", "Avcc2Annexb failed on a well-formed list of %d units: %v", len(nals), err)
				return
			}
			got, e := ref.SplitAnnexB(ab)
			if e != nil || nalListEq(got, nals) != "" {
				j.bad("avcc2annexb", "Avcc2Annexb changed the unit list: %v %s", e, nalListEq(got, nals))
				return
			}
			var it [][]byte
			if err := avc.IterateNaluAvcc(avcc, func(nal []byte) { it = append(it, append([]byte(nil), nal...)) }); err != nil || nalListEq(it, nals) != "" {
				j.bad("iterate-avcc", "IterateNaluAvcc: err=%v %s", err, nalListEq(it, nals))
				return
			}
			if sl, err := avc.SplitNaluAvcc(avcc); err != nil || nalListEq(sl, nals) != "" {
				j.bad("split-avcc", "SplitNaluAvcc: err=%v %s", err, nalListEq(sl, nals))
				return
			}
		}
		// Annex-B with 3- and 4-byte start codes, leading zeros, trailing zeros → AVCC
		var ab []byte
		ab = append(ab, make([]byte, r.Intn(3))...)
		for _, x := range nals {
			if r.Intn(2) == 0 {
				ab = append(ab, 0, 0, 1)
			} else {
				ab = append(ab, 0, 0, 0, 1)
			}
			ab = append(ab, x...)
		}
		trailing := 0
		if len(nals) > 0 && r.Intn(3) == 0 {
			trailing = 1 + r.Intn(3)
			ab = append(ab, make([]byte, trailing)...)
		}
		if len(nals) == 0 {
			continue
		}
		var it [][]byte
		err := avc.IterateNaluAnnexb(ab, func(nal []byte) { it = append(it, append([]byte(nil), nal...)) })
		if err != nil {
			j.bad("iterate-annexb-error", "IterateNaluAnnexb failed on %d units (trailing zeros %d): %v", len(nals), trailing, err)
			return
		}
		if trailing == 0 || true {
			// trailing_zero_8bits are not part of a NAL unit
			if d := nalListEq(it, nals); d != "" {
				j.bad("iterate-annexb", "IterateNaluAnnexb changed the unit list (trailing zeros %d): %s", trailing, d)
				return
			}
		}
		a2, err := avc.Annexb2Avcc(ab)
		if err != nil {
			j.bad("annexb2avcc-error", "Annexb2Avcc failed: %v", err)
			return
		}
		got, e := ref.SplitAvcc(a2)
		if e != nil || nalListEq(got, nals) != "" {
			j.bad("annexb2avcc", "Annexb2Avcc changed the unit list (trailing zeros %d): %v %s", trailing, e, nalListEq(got, nals))
			return
		}
	}
}

func c19Aac(c *fw.Ctx) {
	j := &c19Judge{c, "aac"}
	c.Cell("aac")
	for obj := 1; obj <= 31; obj++ {
		for idx := 0; idx <= 12; idx++ {
			for ch := 0; ch <= 7; ch++ {
				c.Eval(1)
				asc := []byte{byte(obj<<3 | idx>>1), byte(idx<<7 | ch<<3)}
				ctx, err := aac.NewAscContext(asc)
				if err != nil {
					c.Count("explicit_errors", 1)
					continue
				}
				if int(ctx.AudioObjectType) != obj || int(ctx.SamplingFrequencyIndex) != idx || int(ctx.ChannelConfiguration) != ch {
					j.bad("asc-unpack", "ASC %x parsed as object=%d index=%d channels=%d", asc, ctx.AudioObjectType, ctx.SamplingFrequencyIndex, ctx.ChannelConfiguration)
					return
				}
				if p := ctx.Pack(); !bytes.Equal(p, asc) {
					j.bad("asc-pack", "ASC %x re-packed as %x", asc, p)
					return
				}
				sh, err := aac.MakeAudioDataSeqHeaderWithAsc(asc)
				if err != nil || !bytes.Equal(sh, append([]byte{0xAF, 0x00}, asc...)) {
					j.bad("seq-header", "MakeAudioDataSeqHeaderWithAsc(%x) = %x err=%v", asc, sh, err)
					return
				}
				// longer configs (explicit SBR/PS signalling, GASpecificConfig extensions, program config
				// elements): the sequence header carries every byte
				if (obj+idx+ch)%7 == 0 {
					for _, extra := range []int{1, 3, 5, 14, 62} {
						long := append(append([]byte(nil), asc...), c09Fill(extra, uint32(obj*1000+idx*10+ch))...)
						if extra == 3 {
							long = append(append([]byte(nil), asc...), 0x56, 0xe5, 0xa0) // sync extension 0x2b7, SBR present
						}
						c.Eval(1)
						sh, err := aac.MakeAudioDataSeqHeaderWithAsc(long)
						if err != nil || !bytes.Equal(sh, append([]byte{0xAF, 0x00}, long...)) {
							j.bad("seq-header-long-asc", "MakeAudioDataSeqHeaderWithAsc(%x) = %x err=%v", long, sh, err)
							return
						}
					}
				}
				if obj > 4 {
					continue // ADTS carries object types 1–4 only
				}
				for _, fl := range []int{0, 1, 100, 1000, 8184} {
					h := ctx.PackAdtsHeader(fl)
					fr, err := ref.SplitAdts(append(append([]byte(nil), h...), make([]byte, fl)...))
					if err != nil || len(fr) != 1 {
						j.bad("adts", "ADTS header %x for a %d-byte frame does not parse: %v", h, fl, err)
						return
					}
					if fr[0].Profile+1 != obj || fr[0].SampIdx != idx || fr[0].ChannelConf != ch {
						j.bad("adts-fields", "ASC object=%d index=%d channels=%d → ADTS object=%d index=%d channels=%d", obj, idx, ch, fr[0].Profile+1, fr[0].SampIdx, fr[0].ChannelConf)
						return
					}
					a2, err := aac.MakeAscWithAdtsHeader(h)
					if err != nil || !bytes.Equal(a2, asc) {
						j.bad("adts2asc", "ADTS header %x → ASC %x (err %v), original %x", h, a2, err, asc)
						return
					}
				}
			}
		}
	}
}

func c19Sdp(c *fw.Ctx, n int) {
	r := c.Rng
	j := &c19Judge{c, "sdp"}
	for k := 0; k < n && !c.Violated(); k++ {
		c.Sub(k)
		vi := sdp.VideoInfo{VideoPt: base.AvPacketPtUnknown}
		ai := sdp.AudioInfo{AudioPt: base.AvPacketPtUnknown} // (the zero value of AvPacketPt is PCMU)
		vk, ak := k%3, (k/3)%5
		wantV, wantA := "", ""
		switch vk {
		case 1:
			vi.VideoPt = base.AvPacketPtAvc
			vi.Sps, _ = c19AvcSps(r)
			vi.Pps = c19ParamSet(r, []byte{0x68}, 2+r.Intn(60))
			if r.Intn(10) == 0 {
				vi.Sps = c19ParamSet(r, []byte{0x67, 100, 0, 31}, c19Len(r))
			}
			wantV = "H264"
		case 2:
			vi.VideoPt = base.AvPacketPtHevc
			vi.Vps = append([]byte(nil), gen.HevcVps...)
			vi.Sps, _ = c19HevcSps(r)
			vi.Pps = c19ParamSet(r, []byte{0x44, 0x01}, 3+r.Intn(60))
			wantV = "H265"
		}
		clock := 0
		switch ak {
		case 1:
			idx := r.Intn(13)
			ai = sdp.AudioInfo{AudioPt: base.AvPacketPtAac, SamplingFrequency: gen.AacRates[idx], Asc: []byte{byte(2<<3 | idx>>1), byte(idx<<7 | (1+r.Intn(7))<<3)}}
			if r.Intn(3) == 0 {
				ai.Asc = append(ai.Asc, [][]byte{{0x56, 0xe5, 0xa0}, {0x56, 0xe5, 0x00}, {0x00}}[r.Intn(3)]...) // explicit SBR signalling / padding
			}
			wantA, clock = "MPEG4-GENERIC", gen.AacRates[idx]
		case 2:
			ai = sdp.AudioInfo{AudioPt: base.AvPacketPtG711A, SamplingFrequency: 8000}
			wantA, clock = "PCMA", 8000
		case 3:
			ai = sdp.AudioInfo{AudioPt: base.AvPacketPtG711U, SamplingFrequency: 8000}
			wantA, clock = "PCMU", 8000
		case 4:
			ai = sdp.AudioInfo{AudioPt: base.AvPacketPtOpus, SamplingFrequency: 48000}
			wantA, clock = "OPUS", 48000
		}
		if vk == 0 && ak == 0 {
			continue
		}
		c.Eval(1)
		c.Cell("sdp/%s+%s", wantV, wantA)
		lc, err := sdp.Pack(vi, ai)
		if err != nil {
			j.bad("pack-error", "sdp.Pack failed for video=%q audio=%q: %v", wantV, wantA, err)
			return
		}
		// lal's own reading
		if !bytes.Equal(lc.Sps, vi.Sps) || !bytes.Equal(lc.Pps, vi.Pps) || !bytes.Equal(lc.Vps, vi.Vps) || !bytes.Equal(lc.Asc, ai.Asc) {
			j.bad("lal-parse-paramsets", "lal parses its own SDP to other parameter sets: sps %s → %s, pps %s → %s, vps %s → %s, asc %x → %x\n%s", hx(vi.Sps), hx(lc.Sps), hx(vi.Pps), hx(lc.Pps), hx(vi.Vps), hx(lc.Vps), ai.Asc, lc.Asc, trunc(string(lc.RawSdp), 600))
			return
		}
		if wantV != "" && (lc.GetVideoPayloadTypeBase() != vi.VideoPt || lc.VideoClockRate != 90000) {
			j.bad("lal-parse-video", "lal parses its own SDP to video type %d clock %d, packed %d/90000", lc.GetVideoPayloadTypeBase(), lc.VideoClockRate, vi.VideoPt)
			return
		}
		if wantA != "" && (lc.GetAudioPayloadTypeBase() != ai.AudioPt || lc.AudioClockRate != clock) {
			j.bad("lal-parse-audio", "lal parses its own SDP to audio type %d clock %d, packed %d/%d\n%s", lc.GetAudioPayloadTypeBase(), lc.AudioClockRate, ai.AudioPt, clock, trunc(string(lc.RawSdp), 600))
			return
		}
		// the reference reader
		rs, err := ref.ParseSdp(lc.RawSdp)
		if err != nil {
			j.bad("ref-parse", "RFC 4566 reader rejects lal's SDP: %v\n%s", err, trunc(string(lc.RawSdp), 800))
			return
		}
		nm := 0
		for _, m := range rs.Media {
			nm++
			switch m.Kind {
			case "video":
				if !strings.EqualFold(m.Codec, wantV) || m.Clock != 90000 || !lc.IsVideoPayloadTypeOrigin(m.PTs[0]) || !lc.IsVideoUri("rtsp://x/live/s/"+m.Control) {
					j.bad("ref-video", "reference reader: video codec=%q pt=%d clock=%d control=%q; packed %q, lal pt match=%v control match=%v", m.Codec, m.PTs[0], m.Clock, m.Control, wantV, lc.IsVideoPayloadTypeOrigin(m.PTs[0]), lc.IsVideoUri("rtsp://x/live/s/"+m.Control))
					return
				}
				if wantV == "H264" {
					sets, err := m.H264ParamSets()
					if err != nil || len(sets) != 2 || !bytes.Equal(sets[0], vi.Sps) || !bytes.Equal(sets[1], vi.Pps) {
						j.bad("ref-sprop", "reference reader: sprop-parameter-sets → %d sets (err %v), packed sps %s pps %s", len(sets), err, hx(vi.Sps), hx(vi.Pps))
						return
					}
				} else {
					v, s, p, err := m.H265ParamSets()
					if err != nil || !bytes.Equal(v, vi.Vps) || !bytes.Equal(s, vi.Sps) || !bytes.Equal(p, vi.Pps) {
						j.bad("ref-sprop", "reference reader: sprop-vps/sps/pps differ from the packed sets (err %v)", err)
						return
					}
				}
			case "audio":
				if !strings.EqualFold(m.Codec, wantA) || m.Clock != clock || !lc.IsAudioPayloadTypeOrigin(m.PTs[0]) || !lc.IsAudioUri("rtsp://x/live/s/"+m.Control) {
					j.bad("ref-audio", "reference reader: audio codec=%q pt=%d clock=%d control=%q; packed %q/%d", m.Codec, m.PTs[0], m.Clock, m.Control, wantA, clock)
					return
				}
				if wantA == "MPEG4-GENERIC" {
					cfg, err := m.AacConfig()
					if err != nil || !bytes.Equal(cfg, ai.Asc) {
						j.bad("ref-config", "reference reader: config=%x (err %v), packed ASC %x", cfg, err, ai.Asc)
						return
					}
				}
			}
		}
		want := 0
		if wantV != "" {
			want++
		}
		if wantA != "" {
			want++
		}
		if nm != want {
			j.bad("ref-media-count", "reference reader finds %d media sections, %d were packed\n%s", nm, want, trunc(string(lc.RawSdp), 800))
			return
		}
		_ = base64.StdEncoding
	}
}

// c19Remuxer: parameter sets fed to the AvPacket→RTMP remuxer in separate packets whose buffer
// the caller reuses (the API contract: the payload is not held after the call returns); the
// sequence header lal emits must carry the sets as they were fed.
func c19Remuxer(c *fw.Ctx, n int) {
	r := c.Rng
	j := &c19Judge{c, "remuxer"}
	for k := 0; k < n && !c.Violated(); k++ {
		c.Sub(k)
		hevcMode := k%2 == 1
		separate := k%4 < 2
		annexb := k%8 >= 4
		var sets [][]byte
		if hevcMode {
			sps, _ := c19HevcSps(r)
			sets = [][]byte{append([]byte(nil), gen.HevcVps...), sps, c19ParamSet(r, []byte{0x44, 0x01}, 4+r.Intn(40))}
		} else {
			sps, _ := c19AvcSps(r)
			sets = [][]byte{sps, c19ParamSet(r, []byte{0x68}, 3+r.Intn(40))}
		}
		slice := c19ParamSet(r, []byte{0x65}, 30+r.Intn(100))
		if hevcMode {
			slice = c19ParamSet(r, []byte{0x26, 0x01}, 30+r.Intn(100))
		}
		c.Eval(1)
		c.Cell("remuxer/hevc=%v/separate=%v/annexb=%v", hevcMode, separate, annexb)
		var got [][]byte
		rm := remux.NewAvPacket2RtmpRemuxer()
		rm.WithOption(func(o *base.AvPacketStreamOption) {
			if annexb {
				o.VideoFormat = base.AvPacketStreamVideoFormatAnnexb
			}
		})
		rm.WithOnRtmpMsg(func(msg base.RtmpMsg) {
			if msg.Header.MsgTypeId == 9 && (msg.IsAvcKeySeqHeader() || msg.IsHevcKeySeqHeader()) {
				got = append(got, append([]byte(nil), msg.Payload...))
			}
		})
		pt := base.AvPacketPtAvc
		if hevcMode {
			pt = base.AvPacketPtHevc
		}
		frame := func(nals ...[]byte) []byte {
			var b []byte
			for _, x := range nals {
				if annexb {
					b = append(b, 0, 0, 0, 1)
				} else {
					b = append(b, byte(len(x)>>24), byte(len(x)>>16), byte(len(x)>>8), byte(len(x)))
				}
				b = append(b, x...)
			}
			return b
		}
		buf := make([]byte, 0, 70000) // the caller's one buffer, reused for every packet
		feed := func(p []byte) {
			buf = append(buf[:0], p...)
			rm.FeedAvPacket(base.AvPacket{PayloadType: pt, Timestamp: 1000, Pts: 1000, Payload: buf})
			for x := range buf {
				buf[x] = 0xEE // the caller is free to scribble over its buffer afterwards
			}
		}
		if separate {
			for _, x := range sets {
				feed(frame(x))
			}
			feed(frame(slice))
		} else {
			feed(frame(append(append([][]byte(nil), sets...), slice)...))
		}
		if len(got) == 0 {
			j.bad("no-seq-header", "no video sequence header was emitted after the parameter sets and a key frame were fed (hevc=%v separate=%v annexb=%v)", hevcMode, separate, annexb)
			return
		}
		var back [][]byte
		var err error
		if hevcMode {
			var v, sp, pp []byte
			v, sp, pp, err = hevc.ParseVpsSpsPpsFromSeqHeader(got[0])
			back = [][]byte{v, sp, pp}
		} else {
			var sp, pp []byte
			sp, pp, err = avc.ParseSpsPpsFromSeqHeader(got[0])
			back = [][]byte{sp, pp}
		}
		if err != nil {
			j.bad("seq-header-parse", "the emitted sequence header does not parse: %v", err)
			return
		}
		for x := range sets {
			if !bytes.Equal(back[x], sets[x]) {
				j.bad("paramset-changed", "parameter set %d fed as %s came out of the sequence header as %s (hevc=%v, sets fed in separate packets=%v, annexb=%v, caller reuses its buffer)", x, hx(sets[x]), hx(back[x]), hevcMode, separate, annexb)
				return
			}
		}
	}
}


// c19Rtmp2Rtsp: the RTMP→RTSP remuxer fed from a message buffer that the caller reuses and
// overwrites (lal's own relay pull reads every message into one buffer): the SDP it hands over
// later - once audio has shown up or the probe has run out - must carry the parameter sets of the
// sequence header as they were published.
func c19Rtmp2Rtsp(c *fw.Ctx, n int) {
	r := c.Rng
	j := &c19Judge{c, "rtmp2rtsp"}
	for k := 0; k < n && !c.Violated(); k++ {
		c.Sub(k)
		mode := []string{"avc", "hevc", "hevc-enh"}[k%3]
		audio := []string{"none", "aac-late", "aac-first", "g711a-late", "g711u-late", "g711a-first"}[(k/3)%6]
		c.Eval(1)
		c.Cell("rtmp2rtsp/%s/%s", mode, audio)
		var vsh []byte
		var want [][]byte
		switch mode {
		case "avc":
			vsh = gen.AvcSeqHeader(3, k)
			want = [][]byte{gen.AvcSps, append([]byte{0x68, 0xce, 0x3c, 0x80}, gen.Tag(3, gen.SeqHdrTagBase+k)...)}
		default:
			vsh = gen.HevcSeqHeader(3, k, mode == "hevc-enh")
			want = [][]byte{gen.HevcVps, gen.HevcSps, gen.HevcPpsVer(3, k)}
		}
		ash := gen.AacSeqHeader(3, k)
		var sdps [][]byte
		rm := remux.NewRtmp2RtspRemuxer(func(ctx sdp.LogicContext) { sdps = append(sdps, append([]byte(nil), ctx.RawSdp...)) }, func(pkt rtprtcp.RtpPacket) {})
		buf := make([]byte, 0, 8192) // the caller's one read buffer
		feed := func(typ uint8, ts uint32, p []byte) {
			buf = append(buf[:0], p...)
			var msg base.RtmpMsg
			msg.Header.MsgTypeId, msg.Header.TimestampAbs, msg.Header.MsgLen, msg.Header.MsgStreamId, msg.Header.Csid = typ, ts, uint32(len(p)), 1, csidFor(typ)
			msg.Payload = buf
			rm.FeedRtmpMsg(msg)
			for x := range buf {
				buf[x] = 0xEE
			}
		}
		g711 := func(f int) []byte {
			lead := byte(0x72)
			if strings.HasPrefix(audio, "g711u") {
				lead = 0x82
			}
			return append([]byte{lead}, gen.Tag(3, 9000+f)...)
		}
		if audio == "aac-first" {
			feed(8, 0, ash)
		}
		if audio == "g711a-first" {
			feed(8, 0, g711(0))
		}
		feed(9, 0, vsh)
		for f := 0; f < 24; f++ {
			var p []byte
			if mode == "avc" {
				p = gen.VideoFrame(r, 3, 100+f, f%8 == 0, 0, 200+r.Intn(3000))
			} else {
				p = gen.HevcFrame(r, 3, 100+f, f%8 == 0, 0, 200+r.Intn(3000), map[string]int{"hevc": 0, "hevc-enh": 1 + f%2}[mode])
			}
			feed(9, uint32(f*40), p)
			if audio == "aac-late" && f == 5 {
				feed(8, uint32(f*40), ash)
			}
			if strings.HasPrefix(audio, "aac") && f > 5 {
				feed(8, uint32(f*40), gen.AudioFrame(r, 3, 500+f, 60))
			}
			if strings.HasPrefix(audio, "g711") && f > 5 {
				// no metadata names the codec (lal's own GB28181 / customize publishers send none for G.711): the first
				// audio message is what tells
				feed(8, uint32(f*40), g711(f))
			}
		}
		if len(sdps) == 0 {
			j.bad("no-sdp", "no SDP was handed over after a %s sequence header and 24 frames (audio: %s)", mode, audio)
			return
		}
		sd, err := ref.ParseSdp(sdps[0])
		if err != nil {
			j.bad("sdp-parse", "the SDP does not parse: %v\n%s", err, sdps[0])
			return
		}
		if strings.HasPrefix(audio, "g711") {
			found := false
			for _, m := range sd.Media {
				if m.Kind != "audio" {
					continue
				}
				found = true
				wantCodec := map[bool]string{true: "PCMU", false: "PCMA"}[strings.HasPrefix(audio, "g711u")]
				// static payload types 0 / 8 may go without rtpmap; if one is given it must say 8000
				if (m.Codec != "" && m.Codec != wantCodec) || (m.Clock != 0 && m.Clock != 8000) || strings.Contains(string(sdps[0]), "/-1") {
					j.bad("sdp-g711", "%s video, %s without metadata: the SDP's audio section says codec %q clock %d, want %s/8000\n%s", mode, audio, m.Codec, m.Clock, wantCodec, sdps[0])
					return
				}
			}
			if !found {
				j.bad("sdp-g711", "%s video, %s: the SDP has no audio section\n%s", mode, audio, sdps[0])
				return
			}
		}
		var got [][]byte
		for _, m := range sd.Media {
			if m.Kind != "video" {
				continue
			}
			if mode == "avc" {
				got, err = m.H264ParamSets()
			} else {
				var v, sp, pp []byte
				v, sp, pp, err = m.H265ParamSets()
				got = [][]byte{v, sp, pp}
			}
		}
		if err != nil || len(got) != len(want) {
			j.bad("sdp-paramsets", "the SDP's video section does not yield %d parameter sets: %v\n%s", len(want), err, sdps[0])
			return
		}
		for x := range want {
			if !bytes.Equal(got[x], want[x]) {
				j.bad("paramset-changed", "%s, audio %s: parameter set %d published as %s is %s in the SDP (the remuxer kept a reference into the caller's message buffer, which is reused for the next message)", mode, audio, x, hx(want[x]), hx(got[x]))
				return
			}
		}
	}
}

var (
	c19SrvMu sync.Mutex
	c19Srv   *srv.Server
)

func c19Server(c *fw.Ctx) *srv.Server {
	c19SrvMu.Lock()
	defer c19SrvMu.Unlock()
	if c19Srv != nil {
		return c19Srv
	}
	s, err := srv.Start(srv.Conf{}, filepath.Join(c.Scratch, "c19srv"))
	if err != nil {
		c.Inconclusive("server start: %v", err)
		return nil
	}
	c19Srv = s
	return s
}

func c19Dims(c *fw.Ctx, n int, hevcMode bool) {
	r := c.Rng
	s := c19Server(c)
	if s == nil {
		return
	}
	kind := "dims-avc"
	if hevcMode {
		kind = "dims-hevc"
	}
	j := &c19Judge{c, kind}
	for k := 0; k < n && !c.Violated(); k++ {
		c.Sub(k)
		var sps []byte
		var tr spsTruth
		var sh []byte
		var err error
		if hevcMode {
			sps, tr = c19HevcSps(r)
			sh, err = hevc.BuildSeqHeaderFromVpsSpsPps(gen.HevcVps, sps, gen.HevcPps)
		} else {
			sps, tr = c19AvcSps(r)
			sh, err = avc.BuildSeqHeaderFromSpsPps(sps, []byte{0x68, 0xce, 0x3c, 0x80})
		}
		if err != nil {
			c.Count("explicit_errors", 1)
			continue
		}
		c.Eval(1)
		cls := strings.Fields(tr.Desc)
		c.Cell("%s/%s/epb=%v", kind, cls[0]+" "+cls[1], tr.HasEpb)
		if !hevcMode {
			var ctx avc.Context
			if err := avc.ParseSps(sps, &ctx); err != nil {
				j.bad("parse-error", "avc.ParseSps fails on a specification-conforming SPS (%s): %v | %s", hx(sps), err, tr.Desc)
				return
			}
		}
		name := fmt.Sprintf("d%d-%d", c.Index, k)
		cctx, err := s.Lal.AddCustomizePubSession(name)
		if err != nil {
			c.Inconclusive("AddCustomizePubSession: %v", err)
			return
		}
		var msg base.RtmpMsg
		msg.Header.MsgTypeId, msg.Header.MsgLen, msg.Header.MsgStreamId, msg.Header.Csid = 9, uint32(len(sh)), 1, 6
		msg.Payload = sh
		cctx.FeedRtmpMsg(msg)
		st := s.Lal.StatGroup(name)
		s.Lal.DelCustomizePubSession(cctx)
		if st == nil {
			c.Inconclusive("StatGroup: no such group")
			return
		}
		if st.VideoWidth != tr.W || st.VideoHeight != tr.H {
			sig := "mismatch"
			if tr.HasEpb {
				sig = "mismatch-epb"
			}
			j.bad(sig, "lal reports %dx%d, the SPS encodes %dx%d | %s | emulation-prevention bytes: %v | sps %s", st.VideoWidth, st.VideoHeight, tr.W, tr.H, tr.Desc, tr.HasEpb, hx(sps))
			return
		}
	}
}

func init() {
	fw.Register(&fw.Prop{
		ID: "C19",
		NumCases: func(tier string, seed int64) int {
			if tier == "thorough" {
				return 16 * 7 * 6
			}
			return 16 * 7
		},
		CaseTimeout: func(string) time.Duration { return 5 * time.Minute },
		Rule: "generated inputs through lal's real conversion functions, output compared with the input bytes: (1) AVC sequence header build → parse (both parsers) → Annex-B for SPS from a bit-exact H.264 SPS encoder model or arbitrary NAL-like byte strings of 4…65 535 bytes with emulation-prevention bytes, PPS up to 65 535 bytes; (2) HEVC classic and enhanced-RTMP sequence headers likewise (model SPS, real VPS, PPS up to 65 535 bytes); (3) NAL lists of 0–40 units (1 B…140 KB) AVCC → Annex-B → reference splitter, Annex-B with 3/4-byte start codes, leading and trailing zeros → IterateNaluAnnexb / Annexb2Avcc → reference splitter, IterateNaluAvcc, SplitNaluAvcc; (4) every 2-byte AudioSpecificConfig (object 1–31 × 13 indices × 0–7 channels): unpack/pack, RTMP sequence header, ADTS header for object 1–4 parsed by the reference ADTS reader and converted back; (5) sdp.Pack for H264/H265/none × AAC (13 rates)/PCMA/PCMU/Opus/none: lal's own LogicContext and the reference RFC 4566/6184/7798/3640 reader must both return the packed codec, payload type, clock, control and parameter sets; (6) the AvPacket→RTMP remuxer fed with parameter sets in one packet or in separate packets (AVCC and Annex-B) from a buffer the caller reuses and overwrites: the emitted sequence header must carry the sets as fed; (6b) the RTMP→RTSP remuxer fed AVC / HEVC classic / enhanced-RTMP HEVC sequence headers and frames from one message buffer that is overwritten after every call (as lal's relay pull does): the SDP handed over later carries the published sets; (7) picture dimensions: an SPS from the H.264 model (13 high + 3 plain profiles, chroma formats 0–3 with separate colour planes, scaling lists, POC types 0/1/2 with small and 30-bit offsets, frame/field coding, cropping in all four directions, VUI with timing) or the H.265 model (chroma formats, conformance window) is fed as a sequence header through the customize-publisher API of a running server and the stat's video_width/height must equal the model's ground truth. Acceptable outcomes for (1)–(3): byte-exact or an explicit error. cell = group (× codec pair / profile class).",
		Assumptions: []string{"parameter-set byte strings contain no start-code emulation (zero runs are broken by emulation-prevention bytes), as in any conforming stream"},
		MinCells: 6,
		Run: func(c *fw.Ctx, i int) {
			n := 3000
			if c.Tier == "thorough" {
				n = 12000
			}
			switch i % 7 {
			case 0:
				c19AvcSeqHeader(c, n)
			case 1:
				c19HevcSeqHeader(c, n)
			case 2:
				c19Framing(c, n)
			case 3:
				if i < 7 {
					c19Aac(c)
				} else if i%14 == 3 {
					c19Remuxer(c, n)
					c19Rtmp2Rtsp(c, n)
				} else {
					c19Sdp(c, n)
				}
			case 4:
				c19Sdp(c, n)
			case 5:
				c19Dims(c, n, false)
			default:
				c19Dims(c, n, true)
			}
		},
	})
}
