package props

import (
	"bytes"
	"fmt"
	"io"
	"math/rand"
	"time"

	"lalverif/fw"
	"lalverif/ref"

	"github.com/q191201771/lal/pkg/base"
	"github.com/q191201771/lal/pkg/rtmp"
)

// C08 — RTMP chunk stream encode/decode is exact for every size, timestamp and chunking.
//
// Writer direction: lal's message2Chunks (via the verif hook, so that the chunk size can be
// chosen) → reference reader and → lal's ChunkComposer.
// Reader direction: reference writer (every legal header-format assignment, interleavings,
// Set Chunk Size changes, extended timestamps, aggregates) → lal's ChunkComposer.

// slicedReader hands out data in pieces decided by mode: 0 all, 1 byte-by-byte, 2 random.
type slicedReader struct {
	b    []byte
	mode int
	rng  *rand.Rand
}

func (r *slicedReader) Read(p []byte) (int, error) {
	if len(r.b) == 0 {
		return 0, io.EOF
	}
	n := len(p)
	switch r.mode {
	case 1:
		n = 1
	case 2:
		n = 1 + r.rng.Intn(97)
	}
	if n > len(p) {
		n = len(p)
	}
	if n > len(r.b) {
		n = len(r.b)
	}
	copy(p, r.b[:n])
	r.b = r.b[n:]
	return n, nil
}

// lalCompose feeds bytes to lal's ChunkComposer and returns the completed messages.
func lalCompose(data []byte, peerChunkSize int, mode int, rng *rand.Rand) (out []ref.RtmpMsg, err error) {
	cc := rtmp.NewChunkComposer()
	if peerChunkSize > 0 {
		cc.SetPeerChunkSize(uint32(peerChunkSize))
	}
	err = cc.RunLoop(&slicedReader{b: data, mode: mode, rng: rng}, func(s *rtmp.Stream) error {
		m := s.VerifMsg()
		out = append(out, ref.RtmpMsg{Csid: m.Header.Csid, TypeID: m.Header.MsgTypeId, StreamID: uint32(m.Header.MsgStreamId),
			Ts: m.Header.TimestampAbs, Payload: append([]byte(nil), m.Payload...)})
		if int(m.Header.MsgLen) != len(m.Payload) {
			return fmt.Errorf("header MsgLen %d != payload %d", m.Header.MsgLen, len(m.Payload))
		}
		return nil
	})
	return
}

func refReadAll(data []byte, chunkSize int) (out []ref.RtmpMsg, err error) {
	cr := ref.NewChunkReader()
	cr.ChunkSize = chunkSize
	r := bytes.NewReader(data)
	for {
		m, e := cr.ReadMsg(r)
		if e == io.EOF {
			return out, nil
		}
		if e != nil {
			return out, e
		}
		out = append(out, m)
	}
}

func msgEq(a, b ref.RtmpMsg, csid bool) string {
	if csid && a.Csid != b.Csid {
		return fmt.Sprintf("csid %d != %d", a.Csid, b.Csid)
	}
	if a.TypeID != b.TypeID {
		return fmt.Sprintf("type %d != %d", a.TypeID, b.TypeID)
	}
	if a.StreamID != b.StreamID {
		return fmt.Sprintf("msid %d != %d", a.StreamID, b.StreamID)
	}
	if a.Ts != b.Ts {
		return fmt.Sprintf("timestamp %d != %d", a.Ts, b.Ts)
	}
	if !bytes.Equal(a.Payload, b.Payload) {
		return fmt.Sprintf("payload differs (len %d vs %d)", len(a.Payload), len(b.Payload))
	}
	return ""
}

func msgsEq(got, want []ref.RtmpMsg) string {
	if len(got) != len(want) {
		return fmt.Sprintf("%d messages, want %d", len(got), len(want))
	}
	for i := range want {
		if d := msgEq(got[i], want[i], true); d != "" {
			return fmt.Sprintf("message %d: %s", i, d)
		}
	}
	return ""
}

func tsClass(ts uint32) string {
	switch {
	case ts < 0xFFFFFF:
		return "ts<0xFFFFFF"
	case ts == 0xFFFFFF:
		return "ts=0xFFFFFF"
	default:
		return "ts>0xFFFFFF"
	}
}

func lenClass(l, cs int) string {
	switch {
	case l == 0:
		return "len=0"
	case l < cs:
		return "len<cs"
	case l%cs == 0:
		return "len=k*cs"
	default:
		return "len>cs"
	}
}

var c08BoundaryTs = []uint32{0, 1, 0xFFFFFE, 0xFFFFFF, 0x1000000, 0x1000001, 1 << 31, 0xFFFFFFFF}
var c08Csids = []int{2, 3, 6, 63, 64, 65, 319, 320, 321, 65598, 65599}
var c08Types = []uint8{8, 9, 18, 20, 3, 4, 5, 6, 15, 17, 0, 255}
var c08Msids = []uint32{0, 1, 5, 1 << 31, 0xFFFFFFFF}

// writer direction: one message
func c08Writer(c *fw.Ctx, m ref.RtmpMsg, cs int) {
	h := base.RtmpHeader{Csid: m.Csid, MsgLen: uint32(len(m.Payload)), MsgTypeId: m.TypeID, MsgStreamId: int(m.StreamID), TimestampAbs: m.Ts}
	out := rtmp.VerifMessage2Chunks(m.Payload, &h, nil, cs)
	c.Eval(1)
	cell := tsClass(m.Ts) + "/" + lenClass(len(m.Payload), cs)
	c.Cell("writer/%s", cell)
	info := fmt.Sprintf("msg=%v chunkSize=%d", m, cs)
	// a Set Chunk Size message re-configures any reader: keep the comparison about chunking only
	if m.TypeID == 1 {
		return
	}
	got, err := refReadAll(out, cs)
	if err != nil {
		c.Violate("writer->ref/"+cell, fmt.Sprintf("reference reader fails on lal's chunks: %v | %s | first bytes % x", err, info, out[:min(len(out), 24)]), nil)
	} else if d := msgsEq(got, []ref.RtmpMsg{m}); d != "" {
		c.Violate("writer->ref/"+cell, fmt.Sprintf("reference reader decodes a different message: %s | %s", d, info), nil)
	}
	got2, err := lalCompose(out, cs, 0, nil)
	if err != io.EOF {
		c.Violate("writer->lal/"+cell, fmt.Sprintf("lal's reader fails on lal's chunks: %v | %s", err, info), nil)
	} else if d := msgsEq(got2, []ref.RtmpMsg{m}); d != "" {
		c.Violate("writer->lal/"+cell, fmt.Sprintf("lal's reader decodes a different message: %s | %s", d, info), nil)
	}
}

// c08ReaderList: ref writer chunking of a message list with a given format assignment and
// interleaving plan → lal reader.
type c08Plan struct {
	Msgs     []ref.RtmpMsg
	Fmts     []int
	Cs       int
	NewCs    int // if >0 a Set Chunk Size to NewCs is sent at ScsAt (chunk step index)
	ScsAt    int
	Order    []int // interleaving: sequence of message indices, one entry per chunk emitted
	ReadMode int
}

// c08RunPlan encodes per plan and compares. Messages on the same csid must not overlap.
func c08RunPlan(c *fw.Ctx, p c08Plan, rng *rand.Rand, tag string) {
	w := ref.NewChunkWriter(p.Cs)
	var data []byte
	pend := make([]*ref.PendingMsg, len(p.Msgs))
	var want []ref.RtmpMsg
	cs := p.Cs
	step := 0
	emitScs := func() {
		if p.NewCs > 0 && step == p.ScsAt {
			scs := ref.RtmpMsg{Csid: 2, TypeID: 1, StreamID: 0, Ts: 0, Payload: []byte{byte(p.NewCs >> 24), byte(p.NewCs >> 16), byte(p.NewCs >> 8), byte(p.NewCs)}}
			// protocol control on csid 2 must not collide with a pending message on csid 2
			for _, ch := range w.Encode(scs, 0) {
				data = append(data, ch...)
			}
			want = append(want, scs)
			cs = p.NewCs
			w.ChunkSize = cs
		}
	}
	for _, mi := range p.Order {
		emitScs()
		if pend[mi] == nil {
			pend[mi] = w.Start(p.Msgs[mi], p.Fmts[mi])
		}
		data = append(data, pend[mi].Next(cs)...)
		if pend[mi].Done() {
			want = append(want, p.Msgs[mi])
		}
		step++
	}
	emitScs()
	c.Eval(1)
	// sanity: the reference reader must read its own writer's output
	self, err := refReadAll(data, p.Cs)
	if err != nil || msgsEq(self, want) != "" {
		c.Violate("harness/ref-self-check", fmt.Sprintf("reference reader disagrees with reference writer: %v %s plan=%+v", err, msgsEq(self, want), planStr(p)), nil)
		return
	}
	got, err := lalCompose(data, p.Cs, p.ReadMode, rng)
	sig := "reader/" + tag
	if err != io.EOF {
		c.Violate(sig, fmt.Sprintf("lal's reader returns %v on a conforming chunk stream | %s", err, planStr(p)), nil)
		return
	}
	if d := msgsEq(got, want); d != "" {
		c.Violate(sig, fmt.Sprintf("lal's reader: %s | %s", d, planStr(p)), nil)
	}
}

func planStr(p c08Plan) string {
	s := fmt.Sprintf("cs=%d newCs=%d@%d fmts=%v order=%v read=%d msgs=", p.Cs, p.NewCs, p.ScsAt, p.Fmts, p.Order, p.ReadMode)
	for _, m := range p.Msgs {
		s += m.String()
	}
	return s
}

// sequentialOrder: message 0's chunks, then message 1's, …
func c08SeqOrder(msgs []ref.RtmpMsg, cs int) []int {
	var o []int
	for i, m := range msgs {
		n := (len(m.Payload) + cs - 1) / cs
		if n == 0 {
			n = 1
		}
		for k := 0; k < n; k++ {
			o = append(o, i)
		}
	}
	return o
}

// enumerate all legal format assignments of a sequential message list
func c08EnumFormats(msgs []ref.RtmpMsg, cs int, f func(fmts []int)) {
	var rec func(i int, w *ref.ChunkWriter, fmts []int)
	rec = func(i int, w *ref.ChunkWriter, fmts []int) {
		if i == len(msgs) {
			f(append([]int(nil), fmts...))
			return
		}
		for _, fv := range w.LegalFormats(msgs[i]) {
			// clone writer state by replaying
			w2 := ref.NewChunkWriter(cs)
			for k := 0; k < i; k++ {
				w2.Start(msgs[k], fmts[k])
			}
			w2.Start(msgs[i], fv)
			rec(i+1, w2, append(fmts, fv))
		}
	}
	rec(0, ref.NewChunkWriter(cs), nil)
}

func c08Sizes(tier string) (wSlices, rCases int) {
	if tier == "thorough" {
		return 64, 600
	}
	return 64, 60
}

func init() {
	fw.Register(&fw.Prop{
		ID: "C08",
		NumCases: func(tier string, seed int64) int {
			w, r := c08Sizes(tier)
			return w + r + 3
		},
		CaseTimeout: func(string) time.Duration { return 15 * time.Minute },
		Rule: "writer: lal message2Chunks for all lengths 0..3cs+2, cs∈{1,2,127,128,129,4096}, boundary+seeded timestamps, csid/type/msid cycling, plus large boundary lengths, read back by the reference reader and by lal's ChunkComposer; " +
			"lal's command serialiser: connect/play/publish of its pull and push client sessions with application names and stream queries of 8..40000 bytes (single- and multi-chunk), decoded by the reference peer; " +
			"reader: reference writer output for message lists ≤3 with every legal header-format assignment, chunk interleavings across chunk streams, Set Chunk Size changes between/inside messages, extended timestamps and aggregates, fed to ChunkComposer in one piece, byte-wise and in random slices. " +
			"cell = direction × timestamp class × length class / reader scenario class; non-trivial = message decoded and compared field by field.",
		Assumptions: []string{"reference chunk reader/writer ref/rtmpchunk.go follows RTMP 1.0 §5.3 incl. extended timestamp on type-3 chunks",
			"hook rtmp.VerifMessage2Chunks / Stream.VerifMsg are thin shims over the private functions",
			"timestamp deltas ≥ 0xFFFFFF are outside the property"},
		MinCells: 12,
		Run:      c08Run,
	})
}

func c08Run(c *fw.Ctx, i int) {
	wS, _ := c08Sizes(c.Tier)
	rng := c.Rng
	switch {
	case i < wS:
		// slice i of the (chunk size, length) grid
		css := []int{1, 2, 127, 128, 129, 4096}
		k := 0
		n := 0
		c.Describe("writer grid slice %d/%d", i, wS)
		for _, cs := range css {
			for l := 0; l <= 3*cs+2; l++ {
				k++
				if k%wS != i {
					continue
				}
				tss := append([]uint32(nil), c08BoundaryTs...)
				tss = append(tss, rng.Uint32(), uint32(rng.Intn(1<<25)))
				if c.Tier == "thorough" {
					for j := 0; j < 6; j++ {
						tss = append(tss, rng.Uint32())
					}
				}
				for _, ts := range tss {
					n++
					m := ref.RtmpMsg{Csid: c08Csids[n%len(c08Csids)], TypeID: c08Types[n%len(c08Types)], StreamID: c08Msids[n%len(c08Msids)], Ts: ts,
						Payload: c09Fill(l, uint32(n))}
					c08Writer(c, m, cs)
				}
			}
		}
		c.Sample(map[string]interface{}{"kind": "writer-grid", "slice": i, "messages": n})
	case i == wS:
		c.Describe("writer: large boundary lengths")
		for _, l := range []int{65535, 65536, 65537, 1<<24 - 1} {
			for _, cs := range []int{128, 4096, 65536} {
				for _, ts := range []uint32{0, 0xFFFFFF, 0x1000000} {
					c08Writer(c, ref.RtmpMsg{Csid: 6, TypeID: 9, StreamID: 1, Ts: ts, Payload: c09Fill(l, 7)}, cs)
				}
			}
		}
		// public API path (default chunk size 4096, prevHeader nil)
		for _, l := range []int{0, 1, 4095, 4096, 4097, 8192, 10000} {
			for _, ts := range c08BoundaryTs {
				m := ref.RtmpMsg{Csid: 6, TypeID: 9, StreamID: 1, Ts: ts, Payload: c09Fill(l, 9)}
				h := base.RtmpHeader{Csid: m.Csid, MsgLen: uint32(l), MsgTypeId: m.TypeID, MsgStreamId: 1, TimestampAbs: ts}
				out := rtmp.Message2Chunks(m.Payload, &h)
				c.Eval(1)
				got, err := refReadAll(out, 4096)
				cell := tsClass(ts) + "/" + lenClass(l, 4096)
				c.Cell("public-writer/%s", cell)
				if err != nil {
					c.Violate("writer->ref/"+cell, fmt.Sprintf("Message2Chunks: reference reader fails: %v | msg=%v", err, m), nil)
				} else if d := msgsEq(got, []ref.RtmpMsg{m}); d != "" {
					c.Violate("writer->ref/"+cell, fmt.Sprintf("Message2Chunks: %s | msg=%v", d, m), nil)
				}
			}
		}
		c.Sample(map[string]interface{}{"kind": "writer-large", "lengths": []int{65535, 65536, 65537, 1<<24 - 1}})
	case i == wS+1:
		c.Describe("reader: aggregates")
		c08Aggregates(c)
	case i == wS+2:
		c.Describe("writer: lal's own command serialiser (MessagePacker) through its client sessions")
		c08ClientCommands(c)
	default:
		c08ReaderCase(c, i-wS-3)
	}
}

// c08ClientCommands: lal's pull and push client sessions serialise connect / play / publish with
// MessagePacker; long application names and stream-name queries make those commands span several
// chunks. The reference stub decodes what arrives: the fields must be the ones in the url.
func c08ClientCommands(c *fw.Ctx) {
	stub, err := ref.NewRtmpStub(nil)
	if err != nil {
		c.Inconclusive("stub: %v", err)
		return
	}
	defer stub.Close()
	word := func(n int) string {
		b := make([]byte, n)
		for k := range b {
			b[k] = "abcdefghijklmnopqrstuvwxyz0123456789"[c.Rng.Intn(36)]
		}
		return string(b)
	}
	lens := []int{8, 3800, 3900, 3950, 4000, 4040, 4070, 4090, 4096, 4100, 4200, 5000, 8100, 8192, 8300, 12300, 20000, 40000}
	for _, role := range []string{"play", "publish"} {
		for _, where := range []string{"app", "query"} {
			for _, L := range lens {
				app, name := "live", "n"+word(6)
				if where == "app" {
					app = "a" + word(L)
				} else {
					name += "?token=" + word(L)
				}
				url := "rtmp://" + stub.Addr + "/" + app + "/" + name
				n := len(stub.Snapshot())
				var dispose func()
				var serr error
				if role == "play" {
					ps := rtmp.NewPullSession(func(o *rtmp.PullSessionOption) { o.PullTimeoutMs = 3000 })
					serr = ps.Pull(url)
					dispose = func() { ps.Dispose() }
				} else {
					ps := rtmp.NewPushSession(func(o *rtmp.PushSessionOption) { o.PushTimeoutMs = 3000 })
					serr = ps.Push(url)
					dispose = func() { ps.Dispose() }
				}
				var ss *ref.StubSession
				for _, x := range stub.Snapshot() {
					if x.N == n {
						ss = x
					}
				}
				c.Eval(1)
				cell := fmt.Sprintf("packer/%s/long-%s/%s", role, where, lenClass(L, 4096))
				c.Cell("%s", cell)
				if ss == nil {
					c.Inconclusive("client session %s never connected to the stub: %v", role, serr)
					dispose()
					continue
				}
				gotRole, gotApp, _, gotName := ss.GetConn()
				if serr != nil || gotRole != role || gotApp != app || gotName != name {
					c.Violate("writer/"+cell, fmt.Sprintf("lal's %s session with a %d-byte %s: the reference peer decoded role=%q app(len %d)==sent:%v name(len %d)==sent:%v, session error=%v",
						role, L, where, gotRole, len(gotApp), gotApp == app, len(gotName), gotName == name, serr), nil)
				}
				dispose()
			}
		}
	}
	c.Sample(map[string]interface{}{"kind": "packer-client-commands", "lengths": lens})
}

func c08Aggregates(c *fw.Ctx) {
	rng := c.Rng
	for rep := 0; rep < 200; rep++ {
		n := 1 + rng.Intn(5)
		baseTs := []uint32{0, 1000, 0xFFFFFE, 0xFFFFFF, 0x1000000, 0x7fffffff}[rng.Intn(6)]
		subBase := uint32(rng.Intn(1 << 20))
		if rep%5 == 2 {
			// the sub-message timestamps (24 bits + an extension byte, as in an FLV tag) cross a multiple of 2^24
			subBase = uint32(1+rng.Intn(3))<<24 - uint32(1+rng.Intn(60))
			c.Count("aggregates_crossing_2^24", 1)
		}
		// FLV-tag layout: encoders write stream id 0 into the sub-message headers; the aggregate's own id counts
		subSid := uint32(1)
		if rep%3 == 1 {
			subSid = 0
		}
		var subs []ref.RtmpMsg
		t := subBase
		for k := 0; k < n; k++ {
			typ := uint8(8 + rng.Intn(2))
			subs = append(subs, ref.RtmpMsg{Csid: 4, TypeID: typ, StreamID: subSid, Ts: t, Payload: c09Fill(1+rng.Intn(300), uint32(rep*10+k))})
			t += uint32(rng.Intn(50))
		}
		agg := ref.RtmpMsg{Csid: 4, TypeID: 22, StreamID: 1, Ts: baseTs, Payload: ref.BuildAggregate(subs)}
		cs := []int{128, 4096, 200}[rng.Intn(3)]
		w := ref.NewChunkWriter(cs)
		var data []byte
		var want []ref.RtmpMsg
		// in a third of the runs one or two other aggregates precede it on the same connection
		for pre := 0; pre < []int{0, 0, 1, 2}[rep%4]; pre++ {
			var ps []ref.RtmpMsg
			pt := uint32(rng.Intn(1 << 18))
			for k := 0; k < 1+rng.Intn(3); k++ {
				ps = append(ps, ref.RtmpMsg{Csid: 4, TypeID: uint8(8 + rng.Intn(2)), StreamID: 1, Ts: pt, Payload: c09Fill(1+rng.Intn(200), uint32(rep*1000+pre*10+k))})
				pt += uint32(rng.Intn(40))
			}
			pa := ref.RtmpMsg{Csid: 4, TypeID: 22, StreamID: 1, Ts: uint32(rng.Intn(1 << 20)), Payload: ref.BuildAggregate(ps)}
			for _, ch := range w.Encode(pa, 0) {
				data = append(data, ch...)
			}
			pw, _ := ref.SplitAggregate(pa)
			want = append(want, pw...)
		}
		// the aggregate itself may travel under any header format the chunk stream's history allows: in
		// half of the runs an ordinary message a little earlier on the same chunk stream makes the delta
		// formats legal (the sub-messages' timestamps are relative to the aggregate's ABSOLUTE timestamp)
		if rep%2 == 1 && baseTs >= 1000 {
			m0 := ref.RtmpMsg{Csid: 4, TypeID: 9, StreamID: 1, Ts: baseTs - uint32(rng.Intn(900)), Payload: c09Fill(1+rng.Intn(100), uint32(rep*7))}
			l0 := w.LegalFormats(m0)
			for _, ch := range w.Encode(m0, l0[rng.Intn(len(l0))]) {
				data = append(data, ch...)
			}
			want = append(want, m0)
		}
		al := w.LegalFormats(agg)
		af := al[rng.Intn(len(al))]
		if af != 0 {
			c.Count("aggregates_under_delta_headers", 1)
		}
		for _, ch := range w.Encode(agg, af) {
			data = append(data, ch...)
		}
		aw, _ := ref.SplitAggregate(agg)
		want = append(want, aw...)
		// ordinary messages after the aggregate, on the same chunk stream, in every header format
		// the writer may legally use (the delta formats refer to the aggregate's own timestamp)
		t2 := baseTs
		nFollow := rng.Intn(4)
		for k := 0; k < nFollow; k++ {
			t2 += uint32(rng.Intn(100))
			m := ref.RtmpMsg{Csid: 4, TypeID: uint8(8 + rng.Intn(2)), StreamID: 1, Ts: t2, Payload: c09Fill(1+rng.Intn(300), uint32(rep*100+k))}
			if k > 0 && rng.Intn(3) == 0 {
				m.Csid = 6
			}
			legal := w.LegalFormats(m)
			for _, ch := range w.Encode(m, legal[rng.Intn(len(legal))]) {
				data = append(data, ch...)
			}
			want = append(want, m)
		}
		c.Eval(1)
		got, err := lalCompose(data, cs, rng.Intn(3), rng)
		if err != io.EOF {
			c.Violate("reader/aggregate", fmt.Sprintf("lal's reader returns %v on an aggregate of %d sub-messages", err, n), nil)
			continue
		}
		if d := msgsEq(got, want); d != "" {
			c.Violate("reader/aggregate", fmt.Sprintf("aggregate (ts=%d, %d subs, first sub ts=%d) followed by %d ordinary messages: %s", baseTs, n, subBase, nFollow, d), nil)
		}
		c.Cell("reader/aggregate/%s/n=%d", tsClass(baseTs), n)
	}
	c.Sample(map[string]interface{}{"kind": "aggregate", "reps": 200})
}

func c08ReaderCase(c *fw.Ctx, k int) {
	rng := c.Rng
	// Build a pool-based message list of length 1..3 on 1..2 chunk streams.
	csList := []int{1, 2, 5, 127, 128, 129, 300, 4096, 65536}
	cs := csList[k%len(csList)]
	nm := 1 + (k/len(csList))%3
	csids := []int{c08Csids[rng.Intn(len(c08Csids))], c08Csids[rng.Intn(len(c08Csids))]}
	if csids[0] == 2 {
		csids[0] = 3
	}
	if csids[1] == 2 || csids[1] == csids[0] {
		csids[1] = 7
		if csids[0] == 7 {
			csids[1] = 8
		}
	}
	lens := []int{0, 1, cs - 1, cs, cs + 1, 2*cs + 1, 3 * cs}
	mk := func(sameCsid bool) []ref.RtmpMsg {
		var ms []ref.RtmpMsg
		ts := []uint32{0, 5, 0xFFFFFE, 0xFFFFFF, 0x1000000, 0xFFFFFFF0, uint32(rng.Intn(1 << 24))}[rng.Intn(7)]
		l := lens[rng.Intn(len(lens))]
		typ := uint8(8 + rng.Intn(2))
		delta := uint32(rng.Intn(100))
		for j := 0; j < nm; j++ {
			cid := csids[0]
			if !sameCsid && j%2 == 1 {
				cid = csids[1]
			}
			if rng.Intn(3) == 0 {
				l = lens[rng.Intn(len(lens))]
			}
			if rng.Intn(4) == 0 {
				typ = uint8(8 + rng.Intn(2))
			}
			if rng.Intn(3) == 0 {
				delta = uint32(rng.Intn(0xFFFFFF))
			}
			if l > 70000 {
				l = 70000
			}
			if l < 0 {
				l = 0
			}
			ms = append(ms, ref.RtmpMsg{Csid: cid, TypeID: typ, StreamID: 1, Ts: ts, Payload: c09Fill(l, uint32(k*7+j))})
			if rng.Intn(5) != 0 {
				ts += delta // may wrap: then only fmt 0 is legal
			}
		}
		return ms
	}
	c.Describe("reader case %d cs=%d nm=%d", k, cs, nm)
	nplans := 0
	for rep := 0; rep < 30; rep++ {
		// (a) sequential, same csid: every legal format assignment
		ms := mk(true)
		c08EnumFormats(ms, cs, func(fmts []int) {
			p := c08Plan{Msgs: ms, Fmts: fmts, Cs: cs, Order: c08SeqOrder(ms, cs), ReadMode: nplans % 3}
			tag := "formats"
			for _, m := range ms {
				if m.Ts >= 0xFFFFFF {
					tag = "formats+ext"
				}
				if len(m.Payload) == 0 {
					tag += "+len0"
					break
				}
			}
			c08RunPlan(c, p, rng, tag)
			c.Cell("reader/%s/fmts=%v", tag, fmts)
			nplans++
		})
		// (b) two chunk streams interleaved at chunk granularity (all fmt 0 or legal random)
		if nm >= 2 {
			ms2 := mk(false)
			w := ref.NewChunkWriter(cs)
			fmts := make([]int, len(ms2))
			for j, m := range ms2 {
				lf := w.LegalFormats(m)
				fmts[j] = lf[rng.Intn(len(lf))]
				w.Start(m, fmts[j])
			}
			// random interleaving that keeps same-csid messages sequential
			remain := make([]int, len(ms2))
			for j, m := range ms2 {
				remain[j] = (len(m.Payload) + cs - 1) / cs
				if remain[j] == 0 {
					remain[j] = 1
				}
			}
			var order []int
			for {
				// candidates: first unfinished message of each csid
				seen := map[int]bool{}
				var cand []int
				for j, m := range ms2 {
					if remain[j] > 0 && !seen[m.Csid] {
						cand = append(cand, j)
					}
					if remain[j] > 0 {
						seen[m.Csid] = true
					}
				}
				if len(cand) == 0 {
					break
				}
				j := cand[rng.Intn(len(cand))]
				order = append(order, j)
				remain[j]--
			}
			// format legality depends on per-csid order only, which the interleaving preserves;
			// but Start order must follow first-chunk order per csid — c08RunPlan starts lazily.
			p := c08Plan{Msgs: ms2, Fmts: fmts, Cs: cs, Order: order, ReadMode: rep % 3}
			// recompute formats lazily-consistent: same-csid order is list order, so fmts stay legal
			c08RunPlan(c, p, rng, "interleave")
			c.Cell("reader/interleave/streams=2/nm=%d", nm)
			nplans++
			// (c) Set Chunk Size change at a random chunk step (between or inside messages)
			newCs := csList[rng.Intn(len(csList))]
			// chunk counts change after the switch: build the order dynamically instead
			c08ScsPlan(c, ms2, fmts, cs, newCs, rng, rep%3)
			nplans++
		}
	}
	if k < 4 {
		c.Sample(map[string]interface{}{"kind": "reader", "chunk_size": cs, "messages": nm, "plans": nplans})
	}
}

// c08ScsPlan: interleaved chunk streams with a Set Chunk Size message injected at a random step.
func c08ScsPlan(c *fw.Ctx, ms []ref.RtmpMsg, fmts []int, cs, newCs int, rng *rand.Rand, mode int) {
	w := ref.NewChunkWriter(cs)
	pend := make([]*ref.PendingMsg, len(ms))
	var data []byte
	var want []ref.RtmpMsg
	cur := cs
	total := 0
	for _, m := range ms {
		total += len(m.Payload)/cs + 1
	}
	at := rng.Intn(total + 1)
	step := 0
	done := make([]bool, len(ms))
	scsSent := false
	inside := false
	for {
		if step == at && !scsSent {
			scs := ref.RtmpMsg{Csid: 2, TypeID: 1, Payload: []byte{byte(newCs >> 24), byte(newCs >> 16), byte(newCs >> 8), byte(newCs)}}
			for _, ch := range w.Encode(scs, 0) {
				data = append(data, ch...)
			}
			want = append(want, scs)
			cur = newCs
			scsSent = true
			for j := range ms {
				if pend[j] != nil && !done[j] {
					inside = true
				}
			}
		}
		seen := map[int]bool{}
		var cand []int
		for j, m := range ms {
			if !done[j] && !seen[m.Csid] {
				cand = append(cand, j)
			}
			if !done[j] {
				seen[m.Csid] = true
			}
		}
		if len(cand) == 0 {
			break
		}
		j := cand[rng.Intn(len(cand))]
		if pend[j] == nil {
			pend[j] = w.Start(ms[j], fmts[j])
		}
		data = append(data, pend[j].Next(cur)...)
		if pend[j].Done() {
			done[j] = true
			want = append(want, ms[j])
		}
		step++
	}
	if !scsSent {
		return
	}
	c.Eval(1)
	self, err := refReadAll(data, cs)
	if err != nil || msgsEq(self, want) != "" {
		c.Violate("harness/ref-self-check", fmt.Sprintf("scs plan: reference reader disagrees with reference writer: %v %s", err, msgsEq(self, want)), nil)
		return
	}
	got, err := lalCompose(data, cs, mode, rng)
	tag := "set-chunk-size/between"
	if inside {
		tag = "set-chunk-size/inside-message"
	}
	desc := fmt.Sprintf("cs %d→%d at chunk step %d, msgs=%v fmts=%v", cs, newCs, at, ms, fmts)
	if err != io.EOF {
		c.Violate("reader/"+tag, fmt.Sprintf("lal's reader returns %v | %s", err, desc), nil)
		return
	}
	if d := msgsEq(got, want); d != "" {
		c.Violate("reader/"+tag, fmt.Sprintf("%s | %s", d, desc), nil)
	}
	c.Cell("reader/%s", tag)
}
