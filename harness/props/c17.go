package props

import (
	"encoding/json"
	"fmt"
	"os"
	"path/filepath"
	"strings"
	"sync"
	"time"

	"lalverif/fw"
	"lalverif/gen"
	"lalverif/ref"
	"lalverif/srv"
)

// C17 — relay pull and push start, retry and stop exactly when their rules say.
//
// The origin (pull) and the push targets are scriptable RTMP stubs in the harness that log
// every accepted TCP connection. A monitor replays the whole event log (API calls with their
// replies, subscriber/publisher notifications, origin connections and their fates) against the
// rule set written from the property text; scripted scenarios add bounded-progress and stop
// expectations. lal's tick is 1 s, so time bands are ≥ 1 tick wide on both sides.

const (
	c17Slack = 300 * time.Millisecond
	c17Tick  = time.Second
)

type c17Api struct {
	Kind         string // start stop kick
	Call, Return time.Time
	Ok           bool
	Sid          string
	Desp         string
	Retry        int
	AutoStop     int
}

type c17Env struct {
	c      *fw.Ctx
	s      *srv.Server
	name   string
	static bool
	origin *ref.RtmpStub
	mu     sync.Mutex
	script []ref.StubBehaviour // behaviour of the n-th origin connection (default: serve)
	apis   []c17Api
	log    []string
	t0     time.Time
	msgs   []ref.RtmpMsg
	desc   string
}

func (e *c17Env) logf(format string, a ...interface{}) {
	e.mu.Lock()
	e.log = append(e.log, fmt.Sprintf("%7.3f ", time.Since(e.t0).Seconds())+fmt.Sprintf(format, a...))
	e.mu.Unlock()
}

func (e *c17Env) trace() string {
	e.mu.Lock()
	defer e.mu.Unlock()
	return e.desc + "\n" + strings.Join(e.log, "\n")
}

func (e *c17Env) setScript(s []ref.StubBehaviour) {
	e.mu.Lock()
	e.script = s
	e.mu.Unlock()
}

func c17Start(c *fw.Ctx, i int, static bool, pushTargets []string) *c17Env {
	root := filepath.Join(c.Scratch, fmt.Sprintf("c17-%d", i))
	os.MkdirAll(root, 0755)
	e := &c17Env{c: c, name: fmt.Sprintf("p%d", i), static: static, t0: time.Now()}
	// a tagged stream the origin serves (slowly, so that an attached pull stays alive)
	pm := gen.Build(c.SubRng("origin"), 9, gen.Shape{Name: "c17", Video: true, Audio: true, Gops: 100, GopLen: 5, AudioPerVid: 1, Sizes: []int{100, 300}})
	for _, m := range pm {
		e.msgs = append(e.msgs, ref.RtmpMsg{Csid: csidFor(m.Type), TypeID: m.Type, StreamID: 1, Ts: m.Ts, Payload: m.Payload})
	}
	var err error
	e.origin, err = ref.NewRtmpStub(func(n int) ref.StubBehaviour {
		e.mu.Lock()
		defer e.mu.Unlock()
		b := ref.StubBehaviour{PlayMsgs: e.msgs, PlayInterval: 40 * time.Millisecond}
		if n < len(e.script) {
			b = e.script[n]
			if !b.RefuseConnect && !b.CloseAfterConn && b.PlayMsgs == nil {
				b.PlayMsgs, b.PlayInterval = e.msgs, 40*time.Millisecond
			}
		}
		return b
	})
	if err != nil {
		c.Inconclusive("origin stub: %v", err)
		return nil
	}
	conf := srv.Conf{RtmpGop: 1, Flv: true, FlvGop: 1, Rtsp: true, Api: true, PushAddrs: pushTargets}
	if static {
		conf.StaticPull = e.origin.Addr
	}
	e.s, err = srv.Start(conf, root)
	if err != nil {
		e.origin.Close()
		c.Inconclusive("server start: %v", err)
		return nil
	}
	return e
}

func (e *c17Env) stop() {
	e.s.Stop()
	e.origin.Close()
	os.RemoveAll(e.s.Root)
}

func (e *c17Env) apiStart(retry, autoStop int) c17Api {
	b, _ := json.Marshal(map[string]interface{}{"url": "rtmp://" + e.origin.Addr + "/live/" + e.name, "stream_name": e.name, "pull_retry_num": retry, "auto_stop_pull_after_no_out_ms": autoStop, "pull_timeout_ms": 5000})
	a := c17Api{Kind: "start", Call: time.Now(), Retry: retry, AutoStop: autoStop}
	_, resp, _ := srv.HttpPostJson(e.s.ApiAddr(), "/api/ctrl/start_relay_pull", string(b), 3*time.Second)
	a.Return = time.Now()
	var v struct {
		ErrorCode int    `json:"error_code"`
		Desp      string `json:"desp"`
		Data      struct {
			SessionId string `json:"session_id"`
		} `json:"data"`
	}
	json.Unmarshal(resp, &v)
	a.Ok, a.Sid, a.Desp = v.ErrorCode == 0 && len(resp) > 0, v.Data.SessionId, v.Desp
	e.mu.Lock()
	e.apis = append(e.apis, a)
	e.mu.Unlock()
	e.logf("api start retry=%d autostop=%d → ok=%v sid=%s desp=%q", retry, autoStop, a.Ok, a.Sid, a.Desp)
	return a
}

func (e *c17Env) apiStop() c17Api {
	a := c17Api{Kind: "stop", Call: time.Now()}
	_, _, resp, _ := srv.HttpGet(e.s.ApiAddr(), "/api/ctrl/stop_relay_pull?stream_name="+e.name, 3*time.Second)
	a.Return = time.Now()
	var v struct {
		ErrorCode int    `json:"error_code"`
		Desp      string `json:"desp"`
		Data      struct {
			SessionId string `json:"session_id"`
		} `json:"data"`
	}
	json.Unmarshal(resp, &v)
	a.Ok, a.Sid, a.Desp = v.ErrorCode == 0 && len(resp) > 0, v.Data.SessionId, v.Desp
	e.mu.Lock()
	e.apis = append(e.apis, a)
	e.mu.Unlock()
	e.logf("api stop → ok=%v sid=%s desp=%q", a.Ok, a.Sid, a.Desp)
	return a
}

func (e *c17Env) apiKick(sid string) c17Api {
	a := c17Api{Kind: "kick", Call: time.Now(), Sid: sid}
	b, _ := json.Marshal(map[string]string{"stream_name": e.name, "session_id": sid})
	_, resp, _ := srv.HttpPostJson(e.s.ApiAddr(), "/api/ctrl/kick_session", string(b), 3*time.Second)
	a.Return = time.Now()
	a.Ok = strings.Contains(string(resp), `"error_code":0`)
	e.mu.Lock()
	e.apis = append(e.apis, a)
	e.mu.Unlock()
	e.logf("api kick %s → ok=%v", sid, a.Ok)
	return a
}

func (e *c17Env) sub() *srv.HttpSub {
	from := e.s.Notify.Len()
	x, err := srv.StartHttpSub(e.s.HttpAddr(), "/live/"+e.name+".flv", "flv", 3*time.Second)
	if err != nil {
		e.logf("consumer join failed: %v", err)
		return nil
	}
	e.s.Notify.WaitSessionFrom(3*time.Second, from, "sub_start", srv.Key(x.Conn))
	e.logf("consumer joined")
	return x
}

func (e *c17Env) unsub(x *srv.HttpSub) {
	if x == nil {
		return
	}
	from := e.s.Notify.Len()
	local := srv.Key(x.Conn)
	x.Close()
	e.s.Notify.WaitSessionFrom(3*time.Second, from, "sub_stop", local)
	e.logf("consumer left")
}

func (e *c17Env) attempts() []*ref.StubSession { return e.origin.Snapshot() }

func (e *c17Env) waitAttempts(n int, d time.Duration) bool {
	return srv.WaitFor(d, func() bool { return len(e.attempts()) >= n })
}

func (e *c17Env) pullEvents(kind string) []srv.Event {
	var out []srv.Event
	for _, ev := range e.s.Notify.Snapshot() {
		if ev.Kind == kind && ev.StreamName == e.name {
			out = append(out, ev)
		}
	}
	return out
}

func (e *c17Env) attached() bool {
	return len(e.pullEvents("pull_start")) > len(e.pullEventsStoppedAfterStart())
}

func (e *c17Env) pullEventsStoppedAfterStart() []srv.Event {
	started := map[string]bool{}
	var out []srv.Event
	for _, ev := range e.s.Notify.Snapshot() {
		if ev.StreamName != e.name {
			continue
		}
		if ev.Kind == "pull_start" {
			started[ev.SessionId] = true
		}
		if ev.Kind == "pull_stop" && started[ev.SessionId] {
			out = append(out, ev)
		}
	}
	return out
}

// monitor: every origin connection must have been permitted by the rule set.
func (e *c17Env) monitor() {
	c := e.c
	evs := e.s.Notify.Snapshot()
	type span struct{ from, to time.Time }
	far := time.Now().Add(time.Hour)
	spans := func(startKind, stopKind string) []span {
		open := map[string]time.Time{}
		var out []span
		for _, ev := range evs {
			if ev.StreamName != e.name {
				continue
			}
			if ev.Kind == startKind {
				open[ev.SessionId] = ev.At
			}
			if ev.Kind == stopKind {
				if t, ok := open[ev.SessionId]; ok {
					out = append(out, span{t, ev.At})
					delete(open, ev.SessionId)
				}
			}
		}
		for _, t := range open {
			out = append(out, span{t, far})
		}
		return out
	}
	pubs, subs, pulls := spans("pub_start", "pub_stop"), spans("sub_start", "sub_stop"), spans("pull_start", "pull_stop")
	covered := func(sp []span, a, b time.Time) bool { // some span covers the whole of [a,b]
		for _, s := range sp {
			if !s.from.After(a) && !s.to.Before(b) {
				return true
			}
		}
		return false
	}
	touches := func(sp []span, a, b time.Time) bool { // some span intersects [a,b]
		for _, s := range sp {
			if !s.from.After(b) && !s.to.Before(a) {
				return true
			}
		}
		return false
	}
	e.mu.Lock()
	apis := append([]c17Api(nil), e.apis...)
	e.mu.Unlock()
	att := e.attempts()
	c.Count("origin_connections", len(att))
	for n, s := range att {
		t := s.AcceptAt
		c.Eval(1)
		bad := func(rule, format string, a ...interface{}) {
			c.Violate("pull-attempt/"+rule, fmt.Sprintf("origin connection %d at %.3f s: ", n, t.Sub(e.t0).Seconds())+fmt.Sprintf(format, a...)+"\n"+e.trace(), nil)
		}
		// enabled: static, or the latest API event that completed before t−slack is a start
		// (any reply: lal records the request even when it cannot start right away); a start
		// still in progress at t also counts.
		enabled := e.static
		var cur *c17Api
		for k := range apis {
			a := &apis[k]
			if a.Kind == "kick" && !a.Ok {
				continue
			}
			if a.Call.After(t) {
				break
			}
			if a.Kind == "start" {
				enabled, cur = true, a
			} else if a.Return.Before(t.Add(-c17Slack)) {
				enabled = e.static
				if !e.static {
					cur = nil
				}
			}
		}
		if !enabled {
			bad("disabled", "pulling was not enabled (no start_relay_pull since the last stop/kick, no static pull)")
			continue
		}
		if cur != nil && !cur.Ok && !e.static {
			// the governing start_relay_pull was answered with an error, yet lal stored the request and
			// now acts on it: the response did not report what actually happened
			reason := "other"
			switch {
			case strings.Contains(cur.Desp, "in stream already exist"):
				reason = "dup-in-stream"
			case strings.Contains(cur.Desp, "auto stop"):
				reason = "auto-stop"
			case strings.Contains(cur.Desp, "retry limited"):
				reason = "retry-limited"
			}
			c.Violate("pull-api/refused-start-armed/"+reason, fmt.Sprintf("origin connection %d at %.3f s is made under a start_relay_pull call that lal had answered with an error (%q): the call reported failure but armed the pull\n%s", n, t.Sub(e.t0).Seconds(), cur.Desp, e.trace()), nil)
		}
		if covered(pubs, t.Add(-c17Tick-c17Slack), t) {
			bad("input-present", "a publisher was attached during the whole preceding tick")
			continue
		}
		if covered(pulls, t.Add(-c17Tick-c17Slack), t) {
			bad("input-present", "a relay pull was attached during the whole preceding tick")
			continue
		}
		// attempt in flight: an earlier connection that the origin had neither answered nor closed
		for m, o := range att[:n] {
			role, _, started := o.GetRole()
			_ = role
			closedAt := o.ClosedAt
			if o.AcceptAt.Before(t.Add(-c17Slack)) && !started && (!o.IsClosed() || closedAt.After(t.Add(c17Slack))) {
				bad("in-flight", "connection %d (accepted %.3f s) was still unanswered and open", m, o.AcceptAt.Sub(e.t0).Seconds())
			}
		}
		// budget and consumer window of the governing request
		retry, autoStop := -1, 0 // static pull: forever, immediately
		since := e.t0
		if cur != nil {
			retry, autoStop, since = cur.Retry, cur.AutoStop, cur.Call
			// a stop/kick resets lal's counter as well
			for k := range apis {
				a := &apis[k]
				if a.Kind != "start" && a.Call.After(since) && a.Return.Before(t) {
					since = a.Call
				}
			}
		}
		if retry >= 0 {
			cnt := 0
			for _, o := range att[:n+1] {
				if !o.AcceptAt.Before(since) {
					cnt++
				}
			}
			if cnt > retry+1 {
				bad("budget", "attempt number %d under pull_retry_num=%d (at most %d attempts)", cnt, retry, retry+1)
			}
		}
		if autoStop >= 0 {
			w := time.Duration(autoStop)*time.Millisecond + c17Tick + c17Slack
			// start-up grace: lal counts the window from the creation of the stream's group, which
			// the governing start call may itself have created
			grace := autoStop > 0 && cur != nil && !cur.Call.Before(t.Add(-w))
			for k := range apis {
				if apis[k].Kind == "start" && autoStop > 0 && !apis[k].Call.Before(t.Add(-w)) && !apis[k].Call.After(t) {
					grace = true
				}
			}
			if !grace && !touches(subs, t.Add(-w), t.Add(c17Slack)) {
				bad("no-consumer", "auto_stop_pull_after_no_out_ms=%d and no consumer was present within the preceding %v", autoStop, w)
			}
		}
	}
}

// ---- scripted pull scenarios

func c17Refuse(n int) []ref.StubBehaviour {
	var out []ref.StubBehaviour
	for k := 0; k < n; k++ {
		out = append(out, ref.StubBehaviour{RefuseConnect: true})
	}
	return out
}

func c17PullRetry(c *fw.Ctx, i int, retry int) {
	e := c17Start(c, i, false, nil)
	if e == nil {
		return
	}
	defer e.stop()
	e.desc = fmt.Sprintf("pull retry budget: pull_retry_num=%d, origin refuses every connection at first", retry)
	c.Describe("%s", e.desc)
	c.Cell("pull/retry=%d", retry)
	refuse := 3
	if retry >= 0 {
		refuse = 100
	}
	e.setScript(c17Refuse(refuse))
	x := e.sub()
	defer e.unsub(x)
	a := e.apiStart(retry, -1)
	if !a.Ok {
		c.Violate("pull-api/start-refused", "start_relay_pull on an idle stream answered failure\n"+e.trace(), nil)
		return
	}
	if !e.waitAttempts(1, 1500*time.Millisecond) {
		c.Violate("pull-api/start-without-attempt", "start_relay_pull answered success but no connection reached the origin within 1.5 s\n"+e.trace(), nil)
		return
	}
	if retry >= 0 {
		// exactly retry+1 attempts, one per tick
		want := retry + 1
		got := e.waitAttempts(want, time.Duration(retry+2)*c17Tick+time.Second)
		time.Sleep(2500 * time.Millisecond)
		n := len(e.attempts())
		if !got || n < want {
			c.Violate("pull-progress/retry", fmt.Sprintf("pull_retry_num=%d: %d attempts seen, %d expected within %d ticks\n%s", retry, n, want, retry+4, e.trace()), nil)
		}
		// (more than want is reported by the monitor)
		// the budget is spent; stop and start again: a new request has its own budget
		e.apiStop()
		time.Sleep(300 * time.Millisecond)
		n0 := len(e.attempts())
		a2 := e.apiStart(retry, -1)
		if !a2.Ok {
			c.Violate("pull-api/restart-refused", fmt.Sprintf("after stop_relay_pull a new start_relay_pull (pull_retry_num=%d) on an enabled, input-less stream with nothing in flight answered failure: %q\n%s", retry, a2.Desp, e.trace()), nil)
		} else if !e.waitAttempts(n0+want, time.Duration(retry+2)*c17Tick+time.Second) {
			c.Violate("pull-progress/retry-after-restart", fmt.Sprintf("after stop + start (pull_retry_num=%d) only %d new attempts were made, %d expected\n%s", retry, len(e.attempts())-n0, want, e.trace()), nil)
		}
		time.Sleep(1500 * time.Millisecond)
		e.apiStop()
	} else {
		if !e.waitAttempts(4, 7*time.Second) {
			c.Violate("pull-progress/retry", fmt.Sprintf("pull_retry_num=-1: only %d attempts in 7 s while the origin refused\n%s", len(e.attempts()), e.trace()), nil)
		}
		// the 4th connection is served: the pull must attach and deliver
		if !srv.WaitFor(4*time.Second, func() bool { return e.attached() }) {
			c.Violate("pull-progress/attach", "the origin served the connection but no pull_start followed\n"+e.trace(), nil)
		} else if !srv.WaitFor(3*time.Second, func() bool { return x != nil && x.NumTags() > 3 }) {
			c.Violate("pull-progress/no-media", "pull attached but the consumer received nothing in 3 s\n"+e.trace(), nil)
		}
		st := e.apiStop()
		ps := e.pullEvents("pull_start")
		if !st.Ok || len(ps) == 0 || st.Sid != ps[len(ps)-1].SessionId {
			c.Violate("pull-api/stop-reply", fmt.Sprintf("stop_relay_pull of an attached pull answered ok=%v session_id=%q (attached session: %v)\n%s", st.Ok, st.Sid, ps, e.trace()), nil)
		}
		if !srv.WaitFor(3*time.Second, func() bool { return !e.attached() }) {
			c.Violate("pull-stop/api", "stop_relay_pull answered but the pull session was still attached 3 s later\n"+e.trace(), nil)
		}
		n := len(e.attempts())
		time.Sleep(3 * c17Tick)
		if len(e.attempts()) != n {
			// also reported by the monitor (disabled)
			e.logf("attempts after stop: %d → %d", n, len(e.attempts()))
		}
	}
	e.monitor()
}

func c17PullAutoStop(c *fw.Ctx, i int, autoStop int, static bool) {
	e := c17Start(c, i, static, nil)
	if e == nil {
		return
	}
	defer e.stop()
	e.desc = fmt.Sprintf("pull auto-stop: auto_stop_pull_after_no_out_ms=%d static=%v", autoStop, static)
	c.Describe("%s", e.desc)
	c.Cell("pull/autostop=%d/static=%v", autoStop, static)
	// An API pull with auto-stop ≥ 0 can only be started while a consumer is present (lal answers
	// "should auto stop pull" otherwise and forgets the request with the empty group), and is
	// forgotten again once it has been auto-stopped: one round. Static pull: two rounds.
	rounds := 2
	if !static {
		rounds = 1
		if autoStop < 0 {
			e.apiStart(-1, autoStop)
		}
	}
	time.Sleep(2 * c17Tick)
	if static && len(e.attempts()) > 0 {
		e.logf("attempt without any consumer") // the monitor reports it
	}
	for round := 0; round < rounds; round++ {
		n0 := len(e.attempts())
		x := e.sub()
		if x == nil {
			c.Inconclusive("consumer could not join")
			return
		}
		if !static && autoStop >= 0 {
			if a := e.apiStart(-1, autoStop); !a.Ok {
				c.Violate("pull-api/start-refused", "start_relay_pull with a consumer present on an input-less stream answered failure\n"+e.trace(), nil)
				e.unsub(x)
				break
			}
		}
		if !srv.WaitFor(3*time.Second+c17Tick, func() bool { return e.attached() }) {
			c.Violate("pull-progress/consumer", fmt.Sprintf("round %d: a consumer joined an enabled, input-less stream but no pull was attached within 4 s (attempts %d → %d)\n%s", round, n0, len(e.attempts()), e.trace()), nil)
			e.unsub(x)
			break
		}
		srv.WaitFor(2*time.Second, func() bool { return x.NumTags() > 3 })
		if autoStop > 0 {
			// the consumer watches across at least two of lal's ticks before it leaves
			time.Sleep(2*c17Tick + c17Slack)
		}
		left := time.Now()
		e.unsub(x)
		if autoStop < 0 {
			time.Sleep(3 * c17Tick)
			if !e.attached() {
				c.Violate("pull-stop/never", "auto-stop disabled (−1) but the pull ended after its consumer left\n"+e.trace(), nil)
			}
			break
		}
		w := time.Duration(autoStop) * time.Millisecond
		ok := srv.WaitFor(w+2*c17Tick+time.Second, func() bool { return !e.attached() })
		took := time.Since(left)
		if !ok {
			c.Violate("pull-stop/auto-late", fmt.Sprintf("the last consumer left %v ago (window %v) and the pull is still attached\n%s", took, w, e.trace()), nil)
			break
		}
		if took < w-c17Tick-c17Slack {
			c.Violate("pull-stop/auto-early", fmt.Sprintf("the pull was stopped %v after the last consumer left, window %v\n%s", took, w, e.trace()), nil)
		}
		c.Count("auto_stops_observed", 1)
		// no consumer: no attempts
		time.Sleep(2 * c17Tick)
	}
	if !static {
		e.apiStop()
	}
	e.monitor()
}

func c17PullStopInFlight(c *fw.Ctx, i int, how string) {
	e := c17Start(c, i, false, nil)
	if e == nil {
		return
	}
	defer e.stop()
	e.desc = "pull stopped (" + how + ") while the attempt is in flight"
	c.Describe("%s", e.desc)
	c.Cell("pull/stop-in-flight/%s", how)
	hold := make(chan struct{})
	e.setScript([]ref.StubBehaviour{{WithholdStatus: hold}})
	x := e.sub()
	defer e.unsub(x)
	a := e.apiStart(0, -1)
	if !a.Ok {
		c.Violate("pull-api/start-refused", "start_relay_pull on an idle stream answered failure\n"+e.trace(), nil)
		return
	}
	if !srv.WaitFor(2*time.Second, func() bool {
		for _, s := range e.attempts() {
			if role, _, _ := s.GetRole(); role == "play" {
				return true
			}
		}
		return false
	}) {
		c.Inconclusive("the origin never saw the play request")
		return
	}
	var pubConn *ref.RtmpPublisher
	switch how {
	case "api-stop":
		e.apiStop()
	case "second-start":
		// a second start while the first attempt is in flight must not create a second connection
		e.apiStart(0, -1)
	case "publisher":
		p, err := ref.StartRtmpPublisher(e.s.RtmpAddr(), "live", e.name, 3*time.Second)
		if err == nil {
			pubConn = p
			defer p.Close()
			e.logf("publisher connected")
		}
	}
	time.Sleep(300 * time.Millisecond)
	close(hold)
	e.logf("origin answers the withheld play")
	time.Sleep(2500 * time.Millisecond)
	switch how {
	case "api-stop":
		if e.attached() {
			c.Violate("pull-stop/in-flight", "stop_relay_pull was called while the attempt was in flight; the pull attached afterwards and is still attached 2.5 s later\n"+e.trace(), nil)
		}
	case "publisher":
		if pubConn != nil && e.attached() {
			c.Violate("pull-attempt/input-present", "the pull attached although a publisher had been accepted while it was in flight\n"+e.trace(), nil)
		}
	}
	e.apiStop()
	e.monitor()
}

// c17PullOvertaken: a pull attempt is overtaken by a publisher and ends without attaching; when the
// publisher has left again (pulling still enabled, budget unlimited, a consumer present, nothing in
// flight) the rule says a pull is attempted: bounded progress, 4 ticks + slack.
func c17PullOvertaken(c *fw.Ctx, i int, static bool) {
	e := c17Start(c, i, static, nil)
	if e == nil {
		return
	}
	defer e.stop()
	e.desc = fmt.Sprintf("pull attempt overtaken by a publisher, publisher leaves again (static=%v)", static)
	c.Describe("%s", e.desc)
	c.Cell("pull/overtaken-then-free/static=%v", static)
	hold := make(chan struct{})
	e.setScript([]ref.StubBehaviour{{WithholdStatus: hold}})
	x := e.sub()
	defer e.unsub(x)
	if !static {
		if a := e.apiStart(-1, -1); !a.Ok {
			c.Violate("pull-api/start-refused", "start_relay_pull on an idle stream answered failure\n"+e.trace(), nil)
			return
		}
	}
	if !srv.WaitFor(4*time.Second, func() bool {
		for _, s := range e.attempts() {
			if role, _, _ := s.GetRole(); role == "play" {
				return true
			}
		}
		return false
	}) {
		c.Inconclusive("the origin never saw the play request\n%s", e.trace())
		return
	}
	from := e.s.Notify.Len()
	p, err := ref.StartRtmpPublisher(e.s.RtmpAddr(), "live", e.name, 3*time.Second)
	if err != nil {
		c.Inconclusive("publisher: %v", err)
		return
	}
	defer p.Close()
	paddr := srv.Key(p.RC.Conn)
	if _, ok := e.s.Notify.WaitSessionFrom(3*time.Second, from, "pub_start", paddr); !ok {
		c.Inconclusive("the publisher was not accepted while the pull attempt was in flight\n%s", e.trace())
		return
	}
	e.logf("publisher accepted while the attempt is in flight")
	time.Sleep(200 * time.Millisecond)
	close(hold)
	e.logf("origin answers the withheld play")
	// the overtaken attempt ends: lal closes its origin connection
	first := e.attempts()[0]
	if !srv.WaitFor(4*time.Second, first.IsClosed) {
		c.Inconclusive("the overtaken attempt's origin connection was not closed within 4 s\n%s", e.trace())
		return
	}
	if e.attached() {
		c.Violate("pull-attempt/input-present", "the pull attached although a publisher had been accepted while it was in flight\n"+e.trace(), nil)
		return
	}
	time.Sleep(300 * time.Millisecond)
	nBefore := len(e.attempts())
	p.Close()
	if _, ok := e.s.Notify.WaitSessionFrom(3*time.Second, from, "pub_stop", paddr); !ok {
		c.Inconclusive("pub_stop not observed\n%s", e.trace())
		return
	}
	e.logf("publisher left; consumer still present, pulling enabled, nothing in flight")
	c.Eval(1)
	if !e.waitAttempts(nBefore+1, 4*c17Tick+c17Slack) {
		c.Violate("pull-progress/after-overtaken-attempt", fmt.Sprintf("no pull attempt within %v after the publisher left although pulling is enabled with an unlimited budget, a consumer is present, the stream has no input and no attempt is in flight\n%s", 4*c17Tick+c17Slack, e.trace()), nil)
		return
	}
	if !srv.WaitFor(3*time.Second, e.attached) {
		c.Violate("pull-progress/after-overtaken-attempt", "the new attempt reached a serving origin but the pull did not attach within 3 s\n"+e.trace(), nil)
		return
	}
	if !static {
		e.apiStop()
	}
	e.monitor()
}

// c17PullRefusedArms: start_relay_pull while a publisher is the stream's input is answered with an
// error. If a pull is nevertheless attempted once the publisher has left, the answer did not
// report what happened (judged by the monitor; a known finding, see known_findings.jsonl).
func c17PullRefusedArms(c *fw.Ctx, i int) {
	e := c17Start(c, i, false, nil)
	if e == nil {
		return
	}
	defer e.stop()
	e.desc = "start_relay_pull refused because a publisher is present; the publisher then leaves"
	c.Describe("%s", e.desc)
	c.Cell("pull/refused-start-then-free")
	x := e.sub()
	defer e.unsub(x)
	from := e.s.Notify.Len()
	p, err := ref.StartRtmpPublisher(e.s.RtmpAddr(), "live", e.name, 3*time.Second)
	if err != nil {
		c.Inconclusive("publisher: %v", err)
		return
	}
	defer p.Close()
	paddr := srv.Key(p.RC.Conn)
	if _, ok := e.s.Notify.WaitSessionFrom(3*time.Second, from, "pub_start", paddr); !ok {
		c.Inconclusive("publisher not accepted")
		return
	}
	a := e.apiStart(-1, -1)
	c.Eval(1)
	if a.Ok {
		c.Violate("pull-api/start-accepted-with-input", "start_relay_pull answered success although a publisher is the stream's input\n"+e.trace(), nil)
		return
	}
	time.Sleep(300 * time.Millisecond)
	p.Close()
	e.s.Notify.WaitSessionFrom(3*time.Second, from, "pub_stop", paddr)
	e.logf("publisher left")
	e.waitAttempts(1, 4*c17Tick+c17Slack)
	e.apiStop()
	e.monitor()
}


// c17PullRefusedArmsOnDemand: the other two refusals of start_relay_pull that store the request all the same (one root
// cause with refused-arms above: StartPull records url / budget / auto-stop before it asks whether a pull may start).
// how="auto-stop": pull on demand (auto-stop "immediately") requested while nobody watches is answered "should auto stop
// pull"; the first consumer then starts it. how="retry-limited": a second start with a new budget after the first budget
// is spent is answered "relay pull retry limited"; the new budget is used all the same.
func c17PullRefusedArmsOnDemand(c *fw.Ctx, i int, how string) {
	e := c17Start(c, i, false, nil)
	if e == nil {
		return
	}
	defer e.stop()
	e.desc = "start_relay_pull answered with an error (" + how + ") and acted on later"
	c.Describe("%s", e.desc)
	c.Cell("pull/refused-start-then-acted-on/%s", how)
	c.Eval(1)
	switch how {
	case "auto-stop":
		a := e.apiStart(-1, 0)
		if a.Ok {
			c.Count("on_demand_start_accepted", 1)
		}
		// (the consumer arrives before lal's next tick looks at the stored request: a tick that finds nobody
		// watching disarms it again, which is the auto-stop rule at work)
		time.Sleep(50 * time.Millisecond)
		x := e.sub()
		defer e.unsub(x)
		e.waitAttempts(1, 4*c17Tick+c17Slack)
	default:
		e.setScript(c17Refuse(12))
		x := e.sub()
		defer e.unsub(x)
		e.apiStart(0, -1)
		e.waitAttempts(1, 4*c17Tick+c17Slack)
		time.Sleep(2*c17Tick + c17Slack)
		n := len(e.attempts())
		a := e.apiStart(3, -1)
		if a.Ok {
			c.Count("second_start_after_spent_budget_accepted", 1)
		}
		e.waitAttempts(n+1, 4*c17Tick+c17Slack)
	}
	time.Sleep(300 * time.Millisecond)
	e.apiStop()
	e.monitor()
}

// c17PullRefusedWhileAttached: a second start_relay_pull (other url, retry budget 0, auto-stop
// "immediately") while an API pull is attached is answered with an error. An error answer reports
// that nothing happened: the attached pull goes on under its own settings (never auto-stop, here
// with no consumer at all) and no connection is ever made to the refused call's url.
func c17PullRefusedWhileAttached(c *fw.Ctx, i int) { c17PullRefusedWhile(c, i, false) }

// … and the same while the first attempt is still connecting (the origin withholds Play.Start until the
// refused call has been answered): the attempt then attaches and goes on under ITS settings.
func c17PullRefusedWhileInFlight(c *fw.Ctx, i int) { c17PullRefusedWhile(c, i, true) }

func c17PullRefusedWhile(c *fw.Ctx, i int, inFlight bool) {
	e := c17Start(c, i, false, nil)
	if e == nil {
		return
	}
	defer e.stop()
	e.desc = fmt.Sprintf("a second start_relay_pull (other url, auto-stop 0) is refused while a pull is %s", map[bool]string{false: "attached", true: "still connecting"}[inFlight])
	c.Describe("%s", e.desc)
	c.Cell("pull/refused-start-while-%s", map[bool]string{false: "attached", true: "in-flight"}[inFlight])
	var hold chan struct{}
	if inFlight {
		hold = make(chan struct{})
		e.setScript([]ref.StubBehaviour{{WithholdStatus: hold}})
		defer func() {
			select {
			case <-hold:
			default:
				close(hold)
			}
		}()
	}
	other, err := ref.NewRtmpStub(nil)
	if err != nil {
		c.Inconclusive("second origin: %v", err)
		return
	}
	defer other.Close()
	from := e.s.Notify.Len()
	a := e.apiStart(-1, -1)
	if !a.Ok {
		c.Violate("pull-api/start-refused", "start_relay_pull on an idle stream answered failure\n"+e.trace(), nil)
		return
	}
	if inFlight {
		if !e.waitAttempts(1, 3*time.Second) {
			c.Inconclusive("the first attempt never reached the origin\n%s", e.trace())
			return
		}
		time.Sleep(150 * time.Millisecond)
	} else if _, ok := e.s.Notify.Wait(4*time.Second, from, func(ev srv.Event) bool { return ev.Kind == "pull_start" && ev.SessionId == a.Sid }); !ok {
		c.Inconclusive("the first pull did not attach\n%s", e.trace())
		return
	}
	b, _ := json.Marshal(map[string]interface{}{"url": "rtmp://" + other.Addr + "/live/" + e.name, "stream_name": e.name, "pull_retry_num": 0, "auto_stop_pull_after_no_out_ms": 0, "pull_timeout_ms": 5000})
	_, resp, _ := srv.HttpPostJson(e.s.ApiAddr(), "/api/ctrl/start_relay_pull", string(b), 3*time.Second)
	e.logf("second start (other url, retry 0, auto-stop 0) → %s", trunc(string(resp), 160))
	c.Eval(1)
	if strings.Contains(string(resp), `"error_code":0`) {
		c.Violate("pull-api/start-accepted-with-input", "start_relay_pull answered success although a relay pull is the stream's input\n"+e.trace(), nil)
		return
	}
	if inFlight {
		close(hold)
		if _, ok := e.s.Notify.Wait(4*time.Second, from, func(ev srv.Event) bool { return ev.Kind == "pull_start" && ev.SessionId == a.Sid }); !ok {
			c.Inconclusive("the first pull did not attach after the origin answered\n%s", e.trace())
			return
		}
	}
	// four ticks: the attached pull stays (nobody stopped it; its own auto-stop setting is "never")
	_, stopped := e.s.Notify.Wait(4*c17Tick+c17Slack, from, func(ev srv.Event) bool { return ev.Kind == "pull_stop" && ev.SessionId == a.Sid })
	c.Count("refused_start_while_attached_judged", 1)
	if stopped {
		c.Violate("pull-api/refused-start-changed-the-attached-pull", "a start_relay_pull that was answered with an error (a pull is attached) replaced the attached pull's settings: the pull, started with auto-stop 'never', was stopped within four ticks under the refused call's auto-stop 0\n"+e.trace(), nil)
	}
	if n := len(other.Snapshot()); n > 0 {
		c.Violate("pull-api/refused-start-changed-the-attached-pull", fmt.Sprintf("a start_relay_pull that was answered with an error still made lal connect to its url (%d connections)\n%s", n, e.trace()), nil)
	}
	e.apiStop()
}

// c17PullSlowAlone: an API pull (retry for ever, never auto-stop) towards an origin that accepts the
// connection and then stays silent, with nobody else on the stream. The attempt runs until its own
// timeout (5 s) - nothing in the rules ends it earlier - and, the budget being unlimited, is
// followed by another attempt.
func c17PullSlowAlone(c *fw.Ctx, i int) {
	e := c17Start(c, i, false, nil)
	if e == nil {
		return
	}
	defer e.stop()
	e.desc = "pull towards a silent origin with nobody else on the stream (retry for ever)"
	c.Describe("%s", e.desc)
	c.Cell("pull/slow-origin-alone")
	e.setScript([]ref.StubBehaviour{{Hang: true}, {Hang: true}})
	if a := e.apiStart(-1, -1); !a.Ok {
		c.Violate("pull-api/start-refused", "start_relay_pull on an idle stream answered failure\n"+e.trace(), nil)
		return
	}
	if !e.waitAttempts(1, 2*time.Second) {
		c.Violate("pull-progress/first-attempt", "start_relay_pull answered success but no connection reached the origin within 2 s\n"+e.trace(), nil)
		return
	}
	first := e.attempts()[0]
	c.Eval(1)
	// pull_timeout_ms is 5000: the attempt may not be given up before (guard band 1.5 s)
	if srv.WaitFor(3500*time.Millisecond, first.IsClosed) {
		c.Violate("pull-attempt/abandoned-early", fmt.Sprintf("the attempt towards a silent origin was abandoned %.1f s after it started (pull_timeout_ms 5000); nothing in the rules stops it: no API stop, no kick, auto-stop off\n%s", first.ClosedAt.Sub(first.AcceptAt).Seconds(), e.trace()), nil)
		return
	}
	if !e.waitAttempts(2, 2*time.Second+4*c17Tick+c17Slack) {
		c.Violate("pull-progress/retry-after-timeout", "pull_retry_num=-1: the first attempt timed out but no second attempt followed within 4 ticks\n"+e.trace(), nil)
		return
	}
	e.apiStop()
	e.monitor()
}

func c17PullKick(c *fw.Ctx, i int, static bool) {
	e := c17Start(c, i, static, nil)
	if e == nil {
		return
	}
	defer e.stop()
	e.desc = fmt.Sprintf("pull kicked (static=%v)", static)
	c.Describe("%s", e.desc)
	c.Cell("pull/kick/static=%v", static)
	x := e.sub()
	defer e.unsub(x)
	if !static {
		if a := e.apiStart(3, -1); !a.Ok {
			c.Violate("pull-api/start-refused", "start_relay_pull on an idle stream answered failure\n"+e.trace(), nil)
			return
		}
	}
	if !srv.WaitFor(4*time.Second, func() bool { return e.attached() }) {
		c.Violate("pull-progress/attach", "no pull attached within 4 s\n"+e.trace(), nil)
		return
	}
	ps := e.pullEvents("pull_start")
	k := e.apiKick(ps[len(ps)-1].SessionId)
	if !k.Ok {
		c.Violate("pull-api/kick-reply", "kick_session of the attached pull session answered failure\n"+e.trace(), nil)
	}
	stops := func() int { return len(e.pullEventsStoppedAfterStart()) }
	if !srv.WaitFor(3*time.Second, func() bool { return stops() >= 1 }) {
		c.Violate("pull-stop/kick", "the kicked pull session has no pull_stop after 3 s\n"+e.trace(), nil)
	}
	time.Sleep(3 * c17Tick)
	e.monitor()
}

// seeded event programs, judged by the monitor only
func c17PullRandom(c *fw.Ctx, i int) {
	r := c.Rng
	static := r.Intn(4) == 0
	e := c17Start(c, i, static, nil)
	if e == nil {
		return
	}
	defer e.stop()
	// origin outcomes
	var script []ref.StubBehaviour
	for k := 0; k < 12; k++ {
		switch r.Intn(5) {
		case 0:
			script = append(script, ref.StubBehaviour{RefuseConnect: true})
		case 1:
			script = append(script, ref.StubBehaviour{CloseAfterConn: true})
		case 2:
			script = append(script, ref.StubBehaviour{PlayMsgs: e.msgs[:20+r.Intn(30)], PlayInterval: 30 * time.Millisecond, DieAfterMsgs: -1})
		default:
			script = append(script, ref.StubBehaviour{})
		}
	}
	e.setScript(script)
	e.desc = fmt.Sprintf("seeded pull program static=%v", static)
	c.Cell("pull/program/static=%v", static)
	var subs []*srv.HttpSub
	var pub *ref.RtmpPublisher
	steps := 8 + r.Intn(6)
	for k := 0; k < steps; k++ {
		switch r.Intn(9) {
		case 0, 1:
			if x := e.sub(); x != nil {
				subs = append(subs, x)
			}
		case 2:
			if len(subs) > 0 {
				e.unsub(subs[len(subs)-1])
				subs = subs[:len(subs)-1]
			}
		case 3, 4:
			// (with static pull configured the API calls are left out: which of the two settings
			// governs retry budget and auto-stop after a mix is not defined by the property)
			if !static {
				e.apiStart([]int{0, 1, 3, -1}[r.Intn(4)], []int{-1, 0, 2000}[r.Intn(3)])
			}
		case 5:
			if !static {
				e.apiStop()
			}
		case 6:
			if ps := e.pullEvents("pull_start"); len(ps) > 0 {
				e.apiKick(ps[len(ps)-1].SessionId)
			}
		case 7:
			if pub == nil {
				if p, err := ref.StartRtmpPublisher(e.s.RtmpAddr(), "live", e.name, 2*time.Second); err == nil {
					pub = p
					e.logf("publisher connected")
				}
			} else {
				pub.Close()
				pub = nil
				e.logf("publisher closed")
			}
		}
		time.Sleep(time.Duration(200+r.Intn(1500)) * time.Millisecond)
	}
	c.Describe("%s", e.desc)
	for _, x := range subs {
		x.Close()
	}
	if pub != nil {
		pub.Close()
	}
	time.Sleep(500 * time.Millisecond)
	e.monitor()
}

// ---- push

func c17Push(c *fw.Ctx, i int, ingest string, nTargets, refuseFirst, paramLen int) {
	var targets []*ref.RtmpStub
	var addrs []string
	for k := 0; k < nTargets; k++ {
		k := k
		t, err := ref.NewRtmpStub(func(n int) ref.StubBehaviour {
			if k == 0 && n < refuseFirst {
				return ref.StubBehaviour{RefuseConnect: true}
			}
			return ref.StubBehaviour{}
		})
		if err != nil {
			c.Inconclusive("target stub: %v", err)
			return
		}
		defer t.Close()
		targets = append(targets, t)
		addrs = append(addrs, t.Addr)
	}
	e := c17Start(c, i, false, addrs)
	if e == nil {
		return
	}
	defer e.stop()
	e.desc = fmt.Sprintf("push ingest=%s targets=%d target0-refuses-first=%d url-parameter-bytes=%d", ingest, nTargets, refuseFirst, paramLen)
	c.Describe("%s", e.desc)
	c.Cell("push/%s/targets=%d/refuse=%d/params=%d", ingest, nTargets, refuseFirst, paramLen)
	if paramLen < 0 {
		// a negative value asks for a publish name ("stream?params") of exactly that many bytes: buffer sizes of the
		// command encoders are powers of two, names just below one are the interesting ones
		paramLen = -paramLen - len(e.name) - 1
	}
	params := ""
	if paramLen > 0 {
		r := c.SubRng("params")
		b := []byte("k=")
		for len(b) < paramLen {
			b = append(b, "abcdefghijklmnopqrstuvwxyz0123456789&=_-"[r.Intn(40)])
		}
		params = string(b)
	}
	fullName := e.name
	if params != "" {
		fullName += "?" + params
	}
	from := e.s.Notify.Len()
	var closePub func()
	var sendMore func()
	pm := gen.Build(c.SubRng("pub"), 1, gen.Shape{Name: "c17p", Video: true, Audio: true, Gops: 40, GopLen: 5, AudioPerVid: 1, Sizes: []int{100, 300}})
	switch ingest {
	case "rtmp":
		p, err := ref.StartRtmpPublisher(e.s.RtmpAddr(), "live", fullName, 3*time.Second)
		if err != nil {
			if paramLen > 1000 {
				c.Violate("push/params-publish-refused", fmt.Sprintf("lal did not accept a publish whose URL parameters are %d bytes long: %v\n%s", paramLen, err, e.trace()), nil)
			} else {
				c.Inconclusive("publisher: %v", err)
			}
			return
		}
		next := 0
		sendMore = func() {
			for k := 0; k < 12 && next < len(pm); k++ {
				m := pm[next]
				next++
				p.RC.Send(ref.RtmpMsg{Csid: csidFor(m.Type), TypeID: m.Type, StreamID: p.Msid, Ts: m.Ts, Payload: m.Payload}, 0)
			}
		}
		closePub = p.Close
	default:
		sp := gen.EsSpec{VCodec: "avc", ACodec: "aac", AacIdx: 4, AacChans: 2, AacObj: 2, NVideo: 400, GopLen: 5, AudioPer: 1, MaxNals: 1}
		src := c07BuildInc(c.SubRng("es"), sp, 1)
		pk := c07RtspPackets(c.SubRng("pk"), src, 1200, false, 1, 100)
		rc, err := ref.DialRtsp(e.s.RtspAddr(), 3*time.Second)
		if err != nil {
			c.Inconclusive("rtsp dial: %v", err)
			return
		}
		sdp, controls := c07Sdp(src)
		if err := rc.Announce("rtsp://"+e.s.RtspAddr()+"/live/"+e.name, sdp, len(controls), controls, false, 3*time.Second); err != nil {
			c.Inconclusive("rtsp announce: %v", err)
			return
		}
		next := 0
		sendMore = func() {
			for k := 0; k < 30 && next < len(pk); k++ {
				rc.SendInterleaved(pk[next].track*2, pk[next].pkt)
				next++
			}
		}
		closePub = rc.Close
		fullName = e.name
	}
	if _, ok := e.s.Notify.Wait(3*time.Second, from, func(ev srv.Event) bool { return ev.Kind == "pub_start" && ev.StreamName == e.name }); !ok {
		closePub()
		if paramLen > 1000 {
			c.Violate("push/params-publish-refused", fmt.Sprintf("no pub_start for a publish whose URL parameters are %d bytes long\n%s", paramLen, e.trace()), nil)
		} else {
			c.Inconclusive("publisher not accepted")
		}
		return
	}
	t0 := time.Now()
	e.logf("publisher accepted")
	// keep the input alive and watch the targets
	stopFeed := make(chan struct{})
	var fwg sync.WaitGroup
	fwg.Add(1)
	go func() {
		defer fwg.Done()
		for {
			select {
			case <-stopFeed:
				return
			case <-time.After(100 * time.Millisecond):
				sendMore()
			}
		}
	}()
	publishing := func(t *ref.RtmpStub) (open, total int, names []string) {
		for _, s := range t.Snapshot() {
			role, name, _ := s.GetRole()
			if role == "publish" {
				total++
				names = append(names, name)
				if !s.IsClosed() {
					open++
				}
			}
		}
		return
	}
	deadline := time.Duration(refuseFirst+2)*c17Tick + 2*time.Second
	maxOpen := make([]int, nTargets)
	okAll := srv.WaitFor(deadline, func() bool {
		all := true
		for k, t := range targets {
			o, _, _ := publishing(t)
			if o > maxOpen[k] {
				maxOpen[k] = o
			}
			if o < 1 {
				all = false
			}
		}
		return all
	})
	c.Eval(nTargets)
	for k, t := range targets {
		o, tot, names := publishing(t)
		if !okAll && o < 1 {
			sig := "push-progress/target"
			if k == 0 && refuseFirst > 0 {
				sig = "push-progress/retry"
			}
			c.Violate(sig, fmt.Sprintf("target %d has no publish session %v after the publisher was accepted (connections seen: %d, publish sessions: %d)\n%s", k, time.Since(t0), len(t.Snapshot()), tot, e.trace()), nil)
			continue
		}
		for _, nm := range names {
			if nm != fullName {
				c.Violate("push/params", fmt.Sprintf("target %d received publish name %q (%d bytes), the publisher used %q (%d bytes)\n%s", k, trunc(nm, 120), len(nm), trunc(fullName, 120), len(fullName), e.desc), nil)
				break
			}
		}
	}
	// a few more ticks: never more than one session per target
	for k := 0; k < 25; k++ {
		for n, t := range targets {
			if o, _, _ := publishing(t); o > maxOpen[n] {
				maxOpen[n] = o
			}
		}
		time.Sleep(100 * time.Millisecond)
	}
	for n := range targets {
		if maxOpen[n] > 1 {
			c.Violate("push/duplicate-session", fmt.Sprintf("target %d had %d publish sessions open at once\n%s", n, maxOpen[n], e.trace()), nil)
		}
	}
	// media reaches the targets
	for n, t := range targets {
		got := false
		for _, s := range t.Snapshot() {
			if s.Hist.Len() > 3 {
				got = true
			}
		}
		if !got && okAll {
			c.Violate("push/no-media", fmt.Sprintf("target %d has a publish session but received no media in 2.5 s\n%s", n, e.trace()), nil)
		}
	}
	close(stopFeed)
	fwg.Wait()
	closePub()
	e.s.Notify.Wait(3*time.Second, from, func(ev srv.Event) bool { return ev.Kind == "pub_stop" && ev.StreamName == e.name })
	e.logf("publisher left")
	// ends with the publisher, and nothing new is opened afterwards
	closedAll := srv.WaitFor(3*time.Second, func() bool {
		for _, t := range targets {
			if o, _, _ := publishing(t); o > 0 {
				return false
			}
		}
		return true
	})
	if !closedAll {
		c.Violate("push/outlives-publisher", "a push session is still open 3 s after its publisher left\n"+e.trace(), nil)
	}
	var conns []int
	for _, t := range targets {
		conns = append(conns, len(t.Snapshot()))
	}
	time.Sleep(2*c17Tick + 500*time.Millisecond)
	for n, t := range targets {
		if len(t.Snapshot()) != conns[n] {
			c.Violate("push/connect-without-publisher", fmt.Sprintf("target %d received a new connection after the publisher had left\n%s", n, e.trace()), nil)
		}
	}
}

// c17PushFlap: the push target accepts TCP but never answers, so the push attempt stays in
// flight while the publisher leaves and a new publisher of the same name arrives.
func c17PushFlap(c *fw.Ctx, i int) {
	target, err := ref.NewRtmpStub(func(n int) ref.StubBehaviour { return ref.StubBehaviour{Hang: true} })
	if err != nil {
		c.Inconclusive("target stub: %v", err)
		return
	}
	defer target.Close()
	e := c17Start(c, i, false, []string{target.Addr})
	if e == nil {
		return
	}
	defer e.stop()
	e.desc = "push: target accepts and never answers; publisher leaves and a new one arrives while the attempt is in flight"
	c.Describe("%s", e.desc)
	c.Cell("push/flapping-publisher/hanging-target")
	// a viewer keeps the group alive between the publishers
	x := e.sub()
	defer e.unsub(x)
	open := func() int {
		n := 0
		for _, s := range target.Snapshot() {
			if !s.IsClosed() {
				n++
			}
		}
		return n
	}
	maxOpen := 0
	watch := func(d time.Duration) {
		t0 := time.Now()
		for time.Since(t0) < d {
			if o := open(); o > maxOpen {
				maxOpen = o
			}
			time.Sleep(10 * time.Millisecond)
		}
	}
	for round := 0; round < 3; round++ {
		p, err := ref.StartRtmpPublisher(e.s.RtmpAddr(), "live", e.name, 3*time.Second)
		if err != nil {
			c.Inconclusive("publisher: %v", err)
			return
		}
		e.logf("publisher %d accepted", round)
		watch(400 * time.Millisecond)
		p.Close()
		e.logf("publisher %d left", round)
		watch(150 * time.Millisecond)
	}
	watch(1500 * time.Millisecond)
	c.Eval(1)
	if maxOpen > 1 {
		c.Violate("push/duplicate-session", fmt.Sprintf("the target had %d connections from lal open at once (one session per configured target)\n%s", maxOpen, e.trace()), nil)
	}
	// with no publisher left nothing may stay connected for long (push timeout 10 s)
	if !srv.WaitFor(13*time.Second, func() bool { return open() == 0 }) {
		c.Violate("push/outlives-publisher", fmt.Sprintf("%d connections to the push target are still open 13 s after the last publisher left\n%s", open(), e.trace()), nil)
	}
}

// c17PushHandover: the push attempt started for publisher A is still waiting for the target's answer when A leaves
// and B (other URL parameters) takes the name. Once the target answers, whatever reaches it under A's publish name
// must not be B's stream: A's push ends with A, and B gets a push of its own with B's parameters.
func c17PushHandover(c *fw.Ctx, i int) {
	gate := make(chan struct{})
	target, err := ref.NewRtmpStub(func(n int) ref.StubBehaviour {
		if n == 0 {
			return ref.StubBehaviour{WithholdStatus: gate}
		}
		return ref.StubBehaviour{}
	})
	if err != nil {
		c.Inconclusive("target stub: %v", err)
		return
	}
	defer target.Close()
	e := c17Start(c, i, false, []string{target.Addr})
	if e == nil {
		return
	}
	defer e.stop()
	e.desc = "push: the target withholds its answer to the first publish; publisher A (?who=a) leaves and B (?who=b) takes the name while that attempt is in flight; then the target answers"
	c.Describe("%s", e.desc)
	c.Cell("push/handover-while-attempt-in-flight")
	released := false
	defer func() {
		if !released {
			close(gate)
		}
	}()
	// a viewer keeps the group alive between the publishers
	x := e.sub()
	defer e.unsub(x)
	nameA, nameB := e.name+"?who=a&t=1", e.name+"?who=b&t=2"
	pa, err := ref.StartRtmpPublisher(e.s.RtmpAddr(), "live", nameA, 3*time.Second)
	if err != nil {
		c.Inconclusive("publisher A: %v", err)
		return
	}
	e.logf("publisher A accepted")
	// the attempt for A has sent its publish command
	if !srv.WaitFor(3*time.Second, func() bool {
		for _, s := range target.Snapshot() {
			if role, _, _ := s.GetRole(); role == "publish" {
				return true
			}
		}
		return false
	}) {
		pa.Close()
		c.Inconclusive("no push attempt reached the target within 3 s")
		return
	}
	from := e.s.Notify.Len()
	pa.Close()
	if _, ok := e.s.Notify.Wait(3*time.Second, from, func(ev srv.Event) bool { return ev.Kind == "pub_stop" && ev.StreamName == e.name }); !ok {
		c.Inconclusive("publisher A's departure not seen")
		return
	}
	e.logf("publisher A left")
	pb, err := ref.StartRtmpPublisher(e.s.RtmpAddr(), "live", nameB, 3*time.Second)
	if err != nil {
		c.Inconclusive("publisher B: %v", err)
		return
	}
	defer pb.Close()
	e.logf("publisher B accepted")
	pm := gen.Build(c.SubRng("pub"), 1, gen.Shape{Name: "c17h", Video: true, Audio: true, Gops: 60, GopLen: 5, AudioPerVid: 1, Sizes: []int{100, 300}})
	stopFeed := make(chan struct{})
	var fwg sync.WaitGroup
	fwg.Add(1)
	go func() {
		defer fwg.Done()
		next := 0
		for {
			select {
			case <-stopFeed:
				return
			case <-time.After(100 * time.Millisecond):
				for k := 0; k < 8 && next < len(pm); k++ {
					m := pm[next]
					next++
					pb.RC.Send(ref.RtmpMsg{Csid: csidFor(m.Type), TypeID: m.Type, StreamID: pb.Msid, Ts: m.Ts, Payload: m.Payload}, 0)
				}
			}
		}
	}()
	defer func() { close(stopFeed); fwg.Wait() }()
	time.Sleep(300 * time.Millisecond)
	close(gate)
	released = true
	e.logf("target answers the publish that was started for A")
	// B's own push: a publish session named with B's parameters, within 2 ticks + 2 s of the answer (the attempt
	// for A has to end first: one session per target)
	okB := srv.WaitFor(2*c17Tick+3*time.Second, func() bool {
		for _, s := range target.Snapshot() {
			if role, name, started := s.GetRole(); role == "publish" && name == nameB && started && !s.IsClosed() {
				return true
			}
		}
		return false
	})
	c.Eval(1)
	for _, s := range target.Snapshot() {
		role, name, _ := s.GetRole()
		if role != "publish" || name == nameB {
			continue
		}
		if name != nameA {
			c.Violate("push/params", fmt.Sprintf("the target received publish name %q, the publishers used %q and %q\n%s", trunc(name, 120), nameA, nameB, e.trace()), nil)
			continue
		}
		// the session opened for A: B's media must not arrive in it, and it must be closed by now
		if n := s.Hist.Len(); n > 3 {
			c.Violate("push/params/previous-publisher", fmt.Sprintf("the push session that was started for publisher A (publish name %q) carried %d messages although A had left before the target answered; they are publisher B's (%q)\n%s", nameA, n, nameB, e.trace()), nil)
		} else if !s.IsClosed() {
			c.Violate("push/outlives-publisher", fmt.Sprintf("the push session started for publisher A (%q) is still open %v after the target answered, A had left before\n%s", nameA, 2*c17Tick+3*time.Second, e.trace()), nil)
		}
	}
	if !okB {
		c.Violate("push-progress/after-handover", fmt.Sprintf("no push session with publisher B's name %q at the target %v after the stale attempt was answered\n%s", nameB, 2*c17Tick+3*time.Second, e.trace()), nil)
	}
}

func init() {
	type sc struct {
		name string
		run  func(c *fw.Ctx, i int)
	}
	var cat []sc
	for _, r := range []int{0, 1, 3, -1} {
		r := r
		cat = append(cat, sc{fmt.Sprintf("retry%d", r), func(c *fw.Ctx, i int) { c17PullRetry(c, i, r) }})
	}
	for _, a := range []int{-1, 0, 2000, 4000} {
		a := a
		cat = append(cat, sc{fmt.Sprintf("autostop%d", a), func(c *fw.Ctx, i int) { c17PullAutoStop(c, i, a, false) }})
	}
	cat = append(cat, sc{"static", func(c *fw.Ctx, i int) { c17PullAutoStop(c, i, 0, true) }})
	for _, h := range []string{"api-stop", "second-start", "publisher"} {
		h := h
		cat = append(cat, sc{"inflight-" + h, func(c *fw.Ctx, i int) { c17PullStopInFlight(c, i, h) }})
	}
	cat = append(cat, sc{"refused-arms", c17PullRefusedArms})
	cat = append(cat, sc{"refused-arms-on-demand", func(c *fw.Ctx, i int) { c17PullRefusedArmsOnDemand(c, i, "auto-stop") }})
	cat = append(cat, sc{"refused-arms-budget", func(c *fw.Ctx, i int) { c17PullRefusedArmsOnDemand(c, i, "retry-limited") }})
	cat = append(cat, sc{"slow-alone", c17PullSlowAlone})
	cat = append(cat, sc{"refused-while-attached", c17PullRefusedWhileAttached}, sc{"refused-while-in-flight", c17PullRefusedWhileInFlight})
	cat = append(cat, sc{"overtaken", func(c *fw.Ctx, i int) { c17PullOvertaken(c, i, false) }}, sc{"overtaken-static", func(c *fw.Ctx, i int) { c17PullOvertaken(c, i, true) }})
	cat = append(cat, sc{"kick", func(c *fw.Ctx, i int) { c17PullKick(c, i, false) }}, sc{"kick-static", func(c *fw.Ctx, i int) { c17PullKick(c, i, true) }})
	for _, p := range []struct {
		ing          string
		nt, ref, par int
	}{{"rtmp", 1, 0, 0}, {"rtmp", 3, 0, 10}, {"rtmp", 2, 1, 300}, {"rtmp", 1, 3, 0}, {"rtmp", 1, 0, 5000}, {"rtmp", 1, 0, 40000}, {"rtmp", 1, 0, -500}, {"rtmp", 2, 0, -1010}, {"rtmp", 1, 0, -2040}, {"rtsp", 2, 0, 0}, {"rtsp", 1, 2, 0}} {
		p := p
		cat = append(cat, sc{"push", func(c *fw.Ctx, i int) { c17Push(c, i, p.ing, p.nt, p.ref, p.par) }})
	}
	cat = append(cat, sc{"push-flap", c17PushFlap})
	cat = append(cat, sc{"push-handover", c17PushHandover})
	nCat := len(cat)
	fw.Register(&fw.Prop{
		ID: "C17",
		NumCases: func(tier string, seed int64) int {
			if tier == "thorough" {
				return nCat*3 + 200
			}
			return nCat + 11
		},
		Batches:     func(string) int { return 16 },
		CaseTimeout: func(string) time.Duration { return 4 * time.Minute },
		Rule: "whole-server runs with a scriptable RTMP origin and scriptable push targets in the harness that log every accepted connection. Monitor (every run): each origin connection must be permitted — pulling enabled (static, or a start_relay_pull since the last stop/kick), no publisher or pull attached during the whole preceding tick, no earlier connection still unanswered, attempt count ≤ pull_retry_num+1 since the governing start/stop, and for auto-stop ≥ 0 a consumer present within window+1 tick (for a window > 0 a start call within the window counts as start-up grace). Scripted: retry budgets 0/1/3/−1 against a refusing origin (exact attempt counts; after the budget is spent stop + start must be accepted and get a fresh budget; for −1 attach, media, stop reply = attached id, pull_stop ≤ 3 s); auto-stop −1/0/2000/4000 ms and static pull (attach ≤ 4 s after a consumer joins, stop within [window−1 tick, window+2 ticks+1 s] after it leaves, never for −1); stop / second start / publisher while the attempt is held in flight by the origin; an attempt overtaken by a publisher that then leaves again (API with unlimited budget, and static): next attempt ≤ 4 ticks+0.3 s, attaches; a pull towards a silent origin with nobody else on the stream (the attempt lasts until its own timeout and is retried); kick of an attached API and static pull. Seeded programs over {consumer join/leave, start(retry, auto-stop), stop, kick, publisher arrive/leave} with origin outcomes refuse / close after connect / die after n messages / serve, judged by the monitor. Push: RTMP and RTSP publishers × 1–3 targets × target refusing its first 0–3 connections × URL parameters of 0/10/300/5000/40000 bytes: one publish session per target within (refusals+2) ticks+2 s, never two at once, publish name byte-equal incl. parameters, media arrives, sessions closed ≤ 3 s after the publisher left and no connection afterwards; a target that accepts and never answers while the publisher leaves and returns three times: never two connections at once, none left 13 s after the last publisher; a target that withholds its answer to the publish started for publisher A until A has left and B (other URL parameters) has taken the name: nothing of B arrives under A's publish name, that session ends, B gets a session with B's parameters within 2 ticks+3 s. cell = scenario × parameters.",
		Assumptions: []string{"a start_relay_pull that lal answers with an error still enables pulling as far as the attempt rules are concerned (lal stores the request and starts later); that the answer then misreports what happened is reported separately (`pull-api/refused-start-armed/*`, a known finding)", "time bands are one tick (1 s) + 0.3 s wide on each side; nothing is judged inside them", "RTSP pull origins are not driven (no RTSP stub server)"},
		MinCells: 8,
		Run: func(c *fw.Ctx, i int) {
			n := nCat + 11
			if c.Tier == "thorough" && i < nCat*3 {
				cat[i%nCat].run(c, i)
				return
			}
			if k := i % n; k < nCat {
				cat[k].run(c, i)
				return
			}
			c17PullRandom(c, i)
		},
	})
}
